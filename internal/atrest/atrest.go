// Package atrest decides quiescence structurally: it parses a stop-the-world goroutine dump
// (runtime.Stack(all)) and reports, per goroutine, its scheduler state, its creator and its
// frames. "At rest" = every goroutine of interest is parked in a blocking primitive; with no
// timers armed and no external stimulus, nothing can then ever happen.
package atrest

import (
	"regexp"
	"runtime"
	"strconv"
	"strings"
)

// G is one goroutine of a dump.
type G struct {
	ID      int
	State   string   // "select", "chan receive", "running", "runnable", "sleep", …
	Creator string   // function after "created by", "" for the main goroutine
	Frames  []string // function names, innermost first
	Raw     string
}

var headRe = regexp.MustCompile(`^goroutine (\d+) \[([^\],]+)(?:, [^\]]*)?\]:$`)

// Snapshot takes a consistent dump of all goroutines.
func Snapshot() []G {
	size := 1 << 20
	var buf []byte
	for {
		buf = make([]byte, size)
		n := runtime.Stack(buf, true)
		if n < size {
			buf = buf[:n]
			break
		}
		size *= 2
	}
	return Parse(string(buf))
}

func Parse(dump string) []G {
	var out []G
	for _, blk := range strings.Split(dump, "\n\n") {
		lines := strings.Split(strings.TrimSpace(blk), "\n")
		if len(lines) == 0 {
			continue
		}
		m := headRe.FindStringSubmatch(lines[0])
		if m == nil {
			continue
		}
		g := G{State: m[2], Raw: blk}
		g.ID, _ = strconv.Atoi(m[1])
		for _, ln := range lines[1:] {
			if strings.HasPrefix(ln, "\t") {
				continue
			}
			if c, ok := strings.CutPrefix(ln, "created by "); ok {
				if i := strings.Index(c, " in goroutine "); i >= 0 {
					c = c[:i]
				}
				g.Creator = c
				continue
			}
			// "pkg.Func(args...)" → function name
			if i := strings.LastIndexByte(ln, '('); i > 0 {
				g.Frames = append(g.Frames, ln[:i])
			}
		}
		out = append(out, g)
	}
	return out
}

var parked = map[string]bool{
	"select": true, "chan receive": true, "chan send": true,
	"sync.WaitGroup.Wait": true, "sync.Mutex.Lock": true, "sync.RWMutex.RLock": true, "sync.RWMutex.Lock": true,
	"sync.Cond.Wait": true, "select (no cases)": true, "chan receive (nil chan)": true, "chan send (nil chan)": true,
}

// Parked reports whether the goroutine is blocked in a primitive that only another goroutine
// (or a timer) can release – as opposed to running, runnable, sleeping or in a syscall.
//
// The generic "semacquire" state is parked only under sync.WaitGroup.Wait (this Go version has
// no dedicated wait reason for it); otherwise it is a transient runtime semaphore (a goroutine
// that wants to start a GC cycle while the dump holds the world semaphore, say).
func (g G) Parked() bool {
	if g.State == "semacquire" {
		return g.In("sync.(*WaitGroup).Wait")
	}
	return parked[g.State]
}

// In reports whether any frame's function name contains sub.
func (g G) In(sub string) bool {
	for _, f := range g.Frames {
		if strings.Contains(f, sub) {
			return true
		}
	}
	return false
}

// Where names the innermost frame outside the runtime / sync packages.
func (g G) Where() string {
	for _, f := range g.Frames {
		if strings.HasPrefix(f, "runtime.") || strings.HasPrefix(f, "sync.") || strings.HasPrefix(f, "internal/") || strings.HasPrefix(f, "time.") {
			continue
		}
		return f
	}
	if len(g.Frames) > 0 {
		return g.Frames[0]
	}
	return "?"
}

// CreatedBy selects the goroutines whose creator function has the given prefix.
func CreatedBy(gs []G, prefix string) []G {
	var out []G
	for _, g := range gs {
		if strings.HasPrefix(g.Creator, prefix) {
			out = append(out, g)
		}
	}
	return out
}
