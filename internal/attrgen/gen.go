package attrgen

import (
	"fmt"
	"math"
	"math/rand"
	"strings"
	"unicode/utf8"
)

// Rec is one record to log: derivation chain, own attributes, message, level index (0..4).
type Rec struct {
	Chain []ChainOp `json:"chain,omitempty"`
	Attrs []Node    `json:"attrs,omitempty"`
	Msg   []byte    `json:"msg"`
	Level int       `json:"level"`
}

// ---- shape enumeration --------------------------------------------------------------------

// childless node labels: leaf with 0/1/2 LogValuer layers; empty keyed / inline group,
// directly or behind a LogValuer.
// internal node labels: keyed / inline group, directly or behind a LogValuer.
type label struct {
	group, inline bool
	lv            int
}

var childless = []label{{false, false, 0}, {false, false, 1}, {false, false, 2}, {true, false, 0}, {true, true, 0}, {true, false, 1}, {true, true, 1}}
var internal = []label{{true, false, 0}, {true, true, 0}, {true, false, 1}, {true, true, 1}}

// shape trees: a forest is a list of trees; a tree is a label + kid forest
type shape struct {
	l    label
	kids []shape
}

// enumForests calls cb for every ordered forest with exactly n nodes.
func enumForests(n int, cb func([]shape)) {
	if n == 0 {
		cb(nil)
		return
	}
	for s := 1; s <= n; s++ {
		enumTrees(s, func(t shape) {
			enumForests(n-s, func(rest []shape) {
				cb(append([]shape{t}, rest...))
			})
		})
	}
}

func enumTrees(s int, cb func(shape)) {
	if s == 1 {
		for _, l := range childless {
			cb(shape{l: l})
		}
		return
	}
	for _, l := range internal {
		enumForests(s-1, func(k []shape) {
			cb(shape{l: l, kids: append([]shape(nil), k...)})
		})
	}
}

type namer struct{ n int }

func (nm *namer) materialize(f []shape) []Node {
	out := make([]Node, 0, len(f))
	for _, s := range f {
		nm.n++
		var nd Node
		if s.l.group {
			if !s.l.inline {
				nd.Key = []byte(fmt.Sprintf("g%d", nm.n))
			}
			nd.LV = s.l.lv
			nd.Kids = nm.materialize(s.kids)
			if nd.Kids == nil {
				nd.Kids = []Node{}
			}
		} else {
			nd.Key = []byte(fmt.Sprintf("k%d", nm.n))
			nd.LV = s.l.lv
			nd.Val = &Val{T: "int", I: int64(nm.n)}
		}
		out = append(out, nd)
	}
	return out
}

// ShapeKey renders the shape of a record (labels and nesting, no payload).
func ShapeKey(r Rec) string {
	var sb strings.Builder
	var f func(ns []Node)
	f = func(ns []Node) {
		for _, n := range ns {
			if n.IsGroup() {
				if len(n.Key) == 0 {
					sb.WriteString("I")
				} else {
					sb.WriteString("G")
				}
				fmt.Fprintf(&sb, "%d(", n.LV)
				f(n.Kids)
				sb.WriteString(")")
			} else {
				fmt.Fprintf(&sb, "L%d%s", n.LV, n.Val.T)
			}
		}
	}
	for _, op := range r.Chain {
		if op.IsGrp {
			sb.WriteString("WG;")
		} else {
			sb.WriteString("W[")
			f(op.Attrs)
			sb.WriteString("];")
		}
	}
	sb.WriteString("R[")
	f(r.Attrs)
	sb.WriteString("]")
	return sb.String()
}

// EnumRecords calls cb for every record whose derivation chain has at most maxChain ops
// over {With(forest with ≥1 node), WithGroup} and whose forests hold at most maxNodes nodes in
// total (the record's own forest may be empty). cb returns false to stop.
func EnumRecords(maxNodes, maxChain int, cb func(Rec) bool) {
	stop := false
	var rec func(chain [][]shape, isGrp []bool, left int)
	emit := func(chain [][]shape, isGrp []bool, own []shape) {
		nm := &namer{}
		r := Rec{Msg: []byte("m"), Level: 1}
		gi := 0
		for i := range chain {
			if isGrp[i] {
				gi++
				r.Chain = append(r.Chain, ChainOp{IsGrp: true, Group: []byte(fmt.Sprintf("G%d", gi))})
			} else {
				r.Chain = append(r.Chain, ChainOp{Attrs: nm.materialize(chain[i])})
			}
		}
		r.Attrs = nm.materialize(own)
		if !cb(r) {
			stop = true
		}
	}
	rec = func(chain [][]shape, isGrp []bool, left int) {
		if stop {
			return
		}
		// close the chain here: own forest with 0..left nodes
		for n := 0; n <= left && !stop; n++ {
			enumForests(n, func(own []shape) {
				if !stop {
					emit(chain, isGrp, own)
				}
			})
		}
		if len(chain) == maxChain {
			return
		}
		// extend by WithGroup
		rec(append(chain[:len(chain):len(chain)], nil), append(isGrp[:len(isGrp):len(isGrp)], true), left)
		// extend by With(forest of 1..left nodes)
		for n := 1; n <= left && !stop; n++ {
			enumForests(n, func(f []shape) {
				if !stop {
					rec(append(chain[:len(chain):len(chain)], append([]shape(nil), f...)), append(isGrp[:len(isGrp):len(isGrp)], false), left-n)
				}
			})
		}
	}
	rec(nil, nil, maxNodes)
}

// ---- strings --------------------------------------------------------------------------------

// Awkward strings for keys, values, messages, group names.
var Awkward = []string{
	"", " ", "a b", "a=b", "=", "\"", "a\"b", "\\", "a\\b", "\n", "a\nb", "\r\n", "\t", "\x00", "\x1f", "\x7f",
	"\xff", "a\xffb", "\xc3", "\xe2\x80", "\xed\xa0\x80", "\xf4\x90\x80\x80", "\u00e9", "\u65e5\u672c\u8a9e", "\u00a0", "\u2028", "\u0085", "\u3000",
	"\u200b", "\ufeff", "\ufffd", "\U0001F600", "a.b", ".", "..", "{", "}", "[", ",", ":", "null", "true", "1e9", "-0",
	"<script>&amp;</script>", "\x1b[31mred\x1b[0m", "time", "level", "msg", "source", "!BADKEY", "key with \"quotes\" and = and \\",
}

// StringByIndex enumerates the exhaustive string corpus: "", all 1-byte strings, all 2-byte
// strings, every Unicode scalar value alone and embedded in "a"+r+"b".
// Index ranges: [0,1) empty, [1,257) 1-byte, [257,65793) 2-byte, then scalars.
const (
	nOneByte   = 256
	nTwoByte   = 65536
	nScalars   = 0x110000 - 0x800 // surrogates excluded
	CorpusSize = 1 + nOneByte + nTwoByte + 2*nScalars
)

func scalar(i int) rune {
	if i >= 0xD800 {
		i += 0x800
	}
	return rune(i)
}

func StringByIndex(i int) string {
	switch {
	case i == 0:
		return ""
	case i < 1+nOneByte:
		return string([]byte{byte(i - 1)})
	case i < 1+nOneByte+nTwoByte:
		j := i - 1 - nOneByte
		return string([]byte{byte(j >> 8), byte(j)})
	case i < 1+nOneByte+nTwoByte+nScalars:
		return string(scalar(i - 1 - nOneByte - nTwoByte))
	default:
		var buf [6]byte
		buf[0] = 'a'
		n := utf8.EncodeRune(buf[1:], scalar(i-1-nOneByte-nTwoByte-nScalars))
		buf[1+n] = 'b'
		return string(buf[:n+2])
	}
}

// ---- random deep records ------------------------------------------------------------------

func randBytes(r *rand.Rand) []byte {
	switch x := r.Intn(10); {
	case x < 4:
		return []byte(Awkward[r.Intn(len(Awkward))])
	case x < 7:
		n := r.Intn(12)
		b := make([]byte, n)
		for i := range b {
			const pool = "abcxyz019 _-=\"\\\n\xff\xc3\xa9"
			b[i] = pool[r.Intn(len(pool))]
		}
		return b
	case x < 9:
		n := r.Intn(6)
		b := make([]byte, n)
		r.Read(b)
		return b
	default:
		return []byte(strings.Repeat("x", 1+r.Intn(300)) + Awkward[r.Intn(len(Awkward))])
	}
}

func randKey(r *rand.Rand) []byte {
	if r.Intn(3) == 0 {
		return randBytes(r)
	}
	return []byte(fmt.Sprintf("k%d", r.Intn(50)))
}

var valKinds = []string{"str", "str", "str", "int", "uint", "float", "bool", "dur", "time", "err", "bytes", "nil", "map", "struct",
	"mok", "mfail", "mgarbage", "mempty", "ansi", "chan", "func", "tmok", "tmfail", "stringer", "nilerr", "niltm", "nilm", "raw", "tmpanic", "errpanic"}

var floats = []float64{0, math.Copysign(0, -1), 1, -1.5, 1e21, 1e-7, math.MaxFloat64, -math.MaxFloat64, math.SmallestNonzeroFloat64, math.NaN(), math.Inf(1), math.Inf(-1), 0.1, 123456789.125}
var ints = []int64{0, 1, -1, math.MaxInt64, math.MinInt64, 1 << 53, -(1 << 53) - 1, 42}
var uints = []uint64{0, 1, math.MaxUint64, 1 << 63, 1<<53 + 1}
var rawJSON = []string{"{\n  \"a\": 1,\n  \"b\": [\n    1,\n\t2\n  ]\n}", "[\n1\n]\n", "\r\n \"s\" \r\n", `1`, `"s"`, `null`, `{"a":1,"a":2}`, `[1,{"b":[]}]`, ` { "x" : 1.50 } `, `12345678901234567890`, `"\ud83d\ude00<>&"`, `{}`, `[]`, `true`,
	"\"a\xffb\"", "{\"k\xfe\":[\"\xc3\",\"\xed\xa0\x80\"]}", "[\"\xf0\x9f\x98\"]", "\"\u00e9\xff\u6f22\xfe\U0001f600\""} // the last four: well-formed but for bytes that are not UTF-8 inside strings
var garbage = []string{`{`, `{"a":}`, `nope`, `"unterminated`, `1 2`, "\xff", `{"a":1}}`, `,`}

func RandVal(r *rand.Rand) *Val {
	t := valKinds[r.Intn(len(valKinds))]
	v := &Val{T: t}
	switch t {
	case "str", "err", "ansi", "tmok", "tmfail", "stringer", "mfail":
		v.B = randBytes(r)
	case "bytes":
		v.B = randBytes(r)
	case "int":
		v.I = ints[r.Intn(len(ints))]
		if r.Intn(2) == 0 {
			v.I = r.Int63() - r.Int63()
		}
	case "uint":
		v.U = uints[r.Intn(len(uints))]
		if r.Intn(2) == 0 {
			v.U = r.Uint64()
		}
	case "float":
		f := floats[r.Intn(len(floats))]
		if r.Intn(2) == 0 {
			f = math.Float64frombits(r.Uint64())
		}
		v.U = math.Float64bits(f)
	case "bool":
		v.I = int64(r.Intn(2))
	case "dur":
		v.I = ints[r.Intn(len(ints))]
		if r.Intn(2) == 0 {
			v.I = r.Int63n(1e12) - 5e11
		}
	case "time":
		v.I = r.Int63n(7e18) // 1970 .. 2191
		if r.Intn(2) == 0 {
			v.U = uint64(uint32(int32(r.Intn(2*50400) - 50400)))
		}
	case "map", "struct":
		v.I = int64(r.Intn(3))
	case "mok":
		v.B = []byte(rawJSON[r.Intn(len(rawJSON))])
	case "mgarbage":
		v.B = []byte(garbage[r.Intn(len(garbage))])
	case "raw":
		if r.Intn(4) == 0 {
			v.B = []byte(garbage[r.Intn(len(garbage))])
		} else {
			v.B = []byte(rawJSON[r.Intn(len(rawJSON))])
		}
	}
	return v
}

func randForest(r *rand.Rand, depth, maxDepth int) []Node {
	n := r.Intn(4)
	if depth == 0 {
		n = r.Intn(6)
	}
	out := make([]Node, 0, n)
	for i := 0; i < n; i++ {
		var nd Node
		if r.Intn(5) == 0 {
			nd.LV = 1 + r.Intn(2)
		}
		if depth < maxDepth && r.Intn(3) == 0 {
			if r.Intn(3) != 0 {
				nd.Key = randKey(r)
			}
			nd.Kids = randForest(r, depth+1, maxDepth)
			if nd.LV > 1 {
				nd.LV = 1
			}
		} else {
			nd.Key = randKey(r)
			nd.Val = RandVal(r)
			if depth == 0 && r.Intn(4) == 0 {
				nd.Pair = true
			}
		}
		out = append(out, nd)
	}
	return out
}

// RandRec generates a deep random record: trees of depth ≤ 5, chains of ≤ 6 ops, all value kinds.
func RandRec(r *rand.Rand) Rec {
	rec := Rec{Msg: randBytes(r), Level: r.Intn(5)}
	nc := r.Intn(7)
	if r.Intn(3) == 0 {
		nc = 0
	}
	for i := 0; i < nc; i++ {
		if r.Intn(2) == 0 {
			g := randKey(r)
			if len(g) == 0 {
				g = []byte("g")
			}
			rec.Chain = append(rec.Chain, ChainOp{IsGrp: true, Group: g})
		} else {
			f := randForest(r, 0, 4)
			for i := range f {
				f[i].Pair = f[i].Pair && false
			}
			if len(f) > 0 {
				rec.Chain = append(rec.Chain, ChainOp{Attrs: f})
			}
		}
	}
	rec.Attrs = randForest(r, 0, 5)
	return rec
}
