// Package attrgen generates attribute trees, derivation chains and string corpora for the
// logger monitors, builds the real slog attributes from a serialisable spec, and computes –
// without calling slog or glb – what a faithful handler has to emit for them.
package attrgen

import (
	"encoding/json"
	"errors"
	"fmt"
	"log/slog"
	"math"
	"strconv"
	"strings"
	"time"
	"unicode/utf8"

	"github.com/whoisnian/glb/logger"

	"verif/internal/logparse"
)

// Val is a serialisable leaf value.
//
// T: str int uint float bool dur time err bytes nil map struct mok mfail mgarbage mempty raw(json.RawMessage: well-formed incl. pretty-printed, or garbage)
// ansi chan func tmok tmfail stringer nilerr niltm nilm (typed nil pointers whose value-receiver
// Error / MarshalText / MarshalJSON method cannot be called) tmpanic errpanic (methods that panic on a good receiver)
type Val struct {
	T string `json:"t"`
	B []byte `json:"b,omitempty"` // string payload (arbitrary bytes)
	I int64  `json:"i,omitempty"`
	U uint64 `json:"u,omitempty"` // uint value or float bits
}

// Node is one attribute: a leaf (Val != nil) or a group (Kids; Key "" = inline group).
// LV wraps the value in that many slog.LogValuer layers. Pair (top-level leaves only) passes
// the attribute to the Logger as a "key", value argument pair instead of a slog.Attr.
type Node struct {
	Key  []byte `json:"k"`
	Val  *Val   `json:"v,omitempty"`
	Kids []Node `json:"kids,omitempty"`
	LV   int    `json:"lv,omitempty"`
	Pair bool   `json:"pair,omitempty"`
}

func (n Node) IsGroup() bool { return n.Val == nil }

// ChainOp is one derivation step: WithGroup(Group) when Group != nil, else With(Attrs...).
type ChainOp struct {
	Group []byte `json:"group,omitempty"`
	Attrs []Node `json:"attrs,omitempty"`
	IsGrp bool   `json:"is_group,omitempty"`
}

// ---- real values ------------------------------------------------------------------------

type mOK struct{ raw []byte }

func (m mOK) MarshalJSON() ([]byte, error) { return m.raw, nil }

type mFail struct{ msg string }

func (m mFail) MarshalJSON() ([]byte, error) { return nil, errors.New(m.msg) }

type tmOK struct{ s string }

func (m tmOK) MarshalText() ([]byte, error) { return []byte(m.s), nil }

type tmFail struct{ msg string }

func (m tmFail) MarshalText() ([]byte, error) { return nil, errors.New(m.msg) }

type valErr struct{ msg string }

// methods that panic on a perfectly good receiver: a struct value (MarshalText) and a non-nil
// pointer (Error)
type tmPanic struct{ n int }

func (m tmPanic) MarshalText() ([]byte, error) {
	panic("MarshalText gave up: \"quoted\" back\\slash\nnext line")
}

type errPanic struct{ n int }

func (e *errPanic) Error() string { panic("Error gave up: \"quoted\" back\\slash\nnext line") }

func (e valErr) Error() string { return e.msg }

type stringer struct{ s string }

func (s stringer) String() string { return s.s }

type sample struct {
	A int               `json:"a"`
	B string            `json:"b"`
	C []float64         `json:"c"`
	D map[string]string `json:"d,omitempty"`
	e int
}

type lv struct{ v slog.Value }

func (l lv) LogValue() slog.Value { return l.v }

var theChan = make(chan int)
var theFunc = func() {}

// anyOf returns the Go value for the kinds that travel as slog.KindAny.
func (v Val) anyOf() any {
	switch v.T {
	case "err":
		return errors.New(string(v.B))
	case "bytes":
		if v.B == nil {
			return []byte{}
		}
		return v.B
	case "nil":
		return nil
	case "map":
		switch v.I {
		case 0:
			return map[string]any{}
		case 1:
			return map[string]any{"z": 1, "a": "x<y>&", "m": map[string]any{"k": []any{1.5, nil, true}}}
		default:
			return map[string]int{"one": 1, "two": 2}
		}
	case "struct":
		switch v.I {
		case 0:
			return struct{}{}
		case 1:
			return sample{A: -7, B: "b\"\\\n", C: []float64{1, 2.5e-9}, D: map[string]string{"k": "v"}}
		default:
			return &sample{A: 1}
		}
	case "mok":
		return mOK{v.B}
	case "mfail":
		return mFail{string(v.B)}
	case "mgarbage":
		return mOK{v.B}
	case "mempty":
		return mOK{nil}
	case "raw":
		return json.RawMessage(v.B)
	case "ansi":
		return logger.AnsiString{Prefix: "\x1b[34m", Value: string(v.B)}
	case "chan":
		return theChan
	case "func":
		return theFunc
	case "tmok":
		return tmOK{string(v.B)}
	case "tmfail":
		return tmFail{string(v.B)}
	case "stringer":
		return stringer{string(v.B)}
	case "nilerr":
		return (*valErr)(nil)
	case "niltm":
		return (*tmOK)(nil)
	case "nilm":
		return (*mOK)(nil)
	case "tmpanic":
		return tmPanic{3}
	case "errpanic":
		return &errPanic{4}
	}
	panic("attrgen: no any value for kind " + v.T)
}

// Value builds the slog.Value.
func (v Val) Value() slog.Value {
	switch v.T {
	case "str":
		return slog.StringValue(string(v.B))
	case "int":
		return slog.Int64Value(v.I)
	case "uint":
		return slog.Uint64Value(v.U)
	case "float":
		return slog.Float64Value(math.Float64frombits(v.U))
	case "bool":
		return slog.BoolValue(v.I != 0)
	case "dur":
		return slog.DurationValue(time.Duration(v.I))
	case "time":
		return slog.TimeValue(v.timeOf())
	}
	return slog.AnyValue(v.anyOf())
}

func (v Val) timeOf() time.Time {
	t := time.Unix(0, v.I).UTC()
	if v.U != 0 {
		t = t.In(time.FixedZone("", int(int32(v.U))))
	}
	return t
}

// native returns the value as it is passed in "key", value argument pairs.
func (v Val) native() any {
	switch v.T {
	case "str":
		return string(v.B)
	case "int":
		return v.I
	case "uint":
		return v.U
	case "float":
		return math.Float64frombits(v.U)
	case "bool":
		return v.I != 0
	case "dur":
		return time.Duration(v.I)
	case "time":
		return v.timeOf()
	}
	return v.anyOf()
}

func wrapLV(val slog.Value, n int) slog.Value {
	for i := 0; i < n; i++ {
		val = slog.AnyValue(lv{val})
	}
	return val
}

// Attr builds the real slog.Attr of a node.
func (n Node) Attr() slog.Attr {
	if n.IsGroup() {
		kids := make([]slog.Attr, len(n.Kids))
		for i, k := range n.Kids {
			kids[i] = k.Attr()
		}
		// not slog.GroupValue for LV>0: a LogValuer may resolve to a group that still
		// contains empty groups; GroupValue would drop them
		return slog.Attr{Key: string(n.Key), Value: wrapLV(slog.GroupValue(kids...), n.LV)}
	}
	return slog.Attr{Key: string(n.Key), Value: wrapLV(n.Val.Value(), n.LV)}
}

// Args converts a forest to Logger arguments.
func Args(forest []Node) []any {
	var out []any
	for _, n := range forest {
		if n.Pair && !n.IsGroup() && n.LV == 0 {
			out = append(out, string(n.Key), n.Val.native())
		} else {
			out = append(out, n.Attr())
		}
	}
	return out
}

// Derive applies a chain to a logger.
func Derive(l *logger.Logger, chain []ChainOp) *logger.Logger {
	for _, op := range chain {
		if op.IsGrp {
			l = l.WithGroup(string(op.Group))
		} else {
			l = l.With(Args(op.Attrs)...)
		}
	}
	return l
}

// DeriveDecoy applies a chain like Derive, but after every step it also derives sibling
// loggers ("decoys") from the same parent: With and WithGroup siblings with short and long
// payloads. Siblings must not influence what the chain's own logger writes, so the expected
// output is unchanged; a handler whose children share pre-rendered bytes with their parent
// shows the decoys' bytes instead.
func DeriveDecoy(l *logger.Logger, chain []ChainOp) *logger.Logger {
	for i, op := range chain {
		parent := l
		if op.IsGrp {
			l = parent.WithGroup(string(op.Group))
		} else {
			l = parent.With(Args(op.Attrs)...)
		}
		// same-length and different-length group names, short and long attributes
		g := string(op.Group)
		if g == "" {
			g = "zq"
		}
		parent.WithGroup(flipLast(g))
		parent.WithGroup("z")
		parent.With("zq", int64(i))
		parent.With("zqdecoy", "decoy value that is a little longer")
		parent.WithGroup("zqdecoygroupname")
	}
	return l
}

func flipLast(s string) string {
	b := []byte(s)
	if b[len(b)-1] == 'Z' {
		b[len(b)-1] = 'Y'
	} else {
		b[len(b)-1] = 'Z'
	}
	return string(b)
}

// ---- expectations -----------------------------------------------------------------------

// FFFD maps every invalid UTF-8 byte to U+FFFD (what a JSON string can recover).
func FFFD(s string) string {
	if utf8.ValidString(s) {
		return s
	}
	var sb strings.Builder
	for i := 0; i < len(s); {
		r, size := utf8.DecodeRuneInString(s[i:])
		if r == utf8.RuneError && size == 1 {
			sb.WriteString("�")
		} else {
			sb.WriteString(s[i : i+size])
		}
		i += size
	}
	return sb.String()
}

func jstr(s string) logparse.JV { return logparse.JV{Kind: "str", Str: FFFD(s)} }

// JSONValue is what the JSON handler has to emit for the leaf value.
func (v Val) JSONValue() logparse.JV {
	switch v.T {
	case "str":
		return jstr(string(v.B))
	case "int":
		return logparse.JV{Kind: "num", Num: strconv.FormatInt(v.I, 10)}
	case "uint":
		return logparse.JV{Kind: "num", Num: strconv.FormatUint(v.U, 10)}
	case "float":
		f := math.Float64frombits(v.U)
		if math.IsNaN(f) || math.IsInf(f, 0) {
			return logparse.JV{Kind: "errstr"}
		}
		return logparse.JV{Kind: "num", Num: strconv.FormatFloat(f, 'g', -1, 64), FloatCmp: true}
	case "bool":
		return logparse.JV{Kind: "bool", B: v.I != 0}
	case "dur":
		return logparse.JV{Kind: "num", Num: strconv.FormatInt(v.I, 10)}
	case "time":
		return logparse.JV{Kind: "str", Str: v.timeOf().Format(time.RFC3339Nano)}
	case "err":
		return jstr(string(v.B))
	case "ansi":
		return jstr(string(v.B))
	case "nil":
		return logparse.JV{Kind: "null"}
	case "mfail":
		return logparse.JV{Kind: "errstr", Contains: FFFD(string(v.B))}
	case "mgarbage", "mempty", "chan", "func", "tmfail", "nilerr", "tmpanic", "errpanic":
		return logparse.JV{Kind: "errstr"}
	}
	// everything else: as encoding/json encodes it
	b, err := json.Marshal(v.anyOf())
	if err != nil {
		return logparse.JV{Kind: "errstr"}
	}
	// a json.Marshaler / json.RawMessage may hand over strings with bytes that are not UTF-8;
	// encoding/json lets them pass, the record must still decode with each of them as U+FFFD
	jv, err := logparse.DecodeValue([]byte(FFFD(string(b))))
	if err != nil {
		return logparse.JV{Kind: "errstr"}
	}
	return floatify(jv)
}

func floatify(v logparse.JV) logparse.JV {
	switch v.Kind {
	case "num":
		v.FloatCmp = true
	case "arr":
		for i := range v.Arr {
			v.Arr[i] = floatify(v.Arr[i])
		}
	case "obj":
		for i := range v.Obj {
			v.Obj[i].V = floatify(v.Obj[i].V)
		}
	}
	return v
}

// JSONMembers appends the members a forest contributes to the enclosing object.
func JSONMembers(dst []logparse.JMember, forest []Node) []logparse.JMember {
	for _, n := range forest {
		if n.IsGroup() {
			if len(n.Key) == 0 {
				dst = JSONMembers(dst, n.Kids)
			} else {
				dst = append(dst, logparse.JMember{Key: FFFD(string(n.Key)), V: logparse.JV{Kind: "obj", Obj: JSONMembers(nil, n.Kids)}})
			}
			continue
		}
		dst = append(dst, logparse.JMember{Key: FFFD(string(n.Key)), V: n.Val.JSONValue()})
	}
	return dst
}

// JSONAttrs is the expected attribute part of a record: chain (With / WithGroup nesting)
// followed by the record's own attributes at the innermost open group.
func JSONAttrs(chain []ChainOp, rec []Node) []logparse.JMember {
	if len(chain) == 0 {
		return JSONMembers(nil, rec)
	}
	op := chain[0]
	if op.IsGrp {
		if len(op.Group) == 0 { // Logger.WithGroup("") returns the same logger
			return JSONAttrs(chain[1:], rec)
		}
		return []logparse.JMember{{Key: FFFD(string(op.Group)), V: logparse.JV{Kind: "obj", Obj: JSONAttrs(chain[1:], rec)}}}
	}
	return append(JSONMembers(nil, op.Attrs), JSONAttrs(chain[1:], rec)...)
}

// TextExp is the expected (path, value) of one flattened attribute of a text line.
type TextExp struct {
	Path string
	Mode string // exact float dur any
	S    string
	F    float64
	D    time.Duration
}

// TextValue is what the text handler has to emit for the leaf value (after unquoting).
func (v Val) TextValue() TextExp {
	switch v.T {
	case "str", "err", "ansi", "bytes", "tmok", "tmfail":
		return TextExp{Mode: "exact", S: string(v.B)}
	case "int":
		return TextExp{Mode: "exact", S: strconv.FormatInt(v.I, 10)}
	case "uint":
		return TextExp{Mode: "exact", S: strconv.FormatUint(v.U, 10)}
	case "float":
		return TextExp{Mode: "float", F: math.Float64frombits(v.U)}
	case "bool":
		return TextExp{Mode: "exact", S: strconv.FormatBool(v.I != 0)}
	case "dur":
		return TextExp{Mode: "dur", D: time.Duration(v.I)}
	case "time":
		return TextExp{Mode: "exact", S: v.timeOf().Format(time.RFC3339)}
	case "nilerr", "niltm", "tmpanic", "errpanic":
		return TextExp{Mode: "any"} // no text of its own (the method cannot be called): any one token
	}
	return TextExp{Mode: "exact", S: fmt.Sprint(v.anyOf())}
}

// TextPairs appends the flattened (dotted path, value) pairs of a forest under prefix.
func TextPairs(dst []TextExp, prefix []string, forest []Node) []TextExp {
	for _, n := range forest {
		if n.IsGroup() {
			p := prefix
			if len(n.Key) > 0 {
				p = append(append([]string(nil), prefix...), string(n.Key))
			}
			dst = TextPairs(dst, p, n.Kids)
			continue
		}
		e := n.Val.TextValue()
		e.Path = strings.Join(append(append([]string(nil), prefix...), string(n.Key)), ".")
		dst = append(dst, e)
	}
	return dst
}

// TextAttrs is the expected attribute part of a text record.
func TextAttrs(chain []ChainOp, rec []Node) []TextExp {
	var out []TextExp
	var prefix []string
	for _, op := range chain {
		if op.IsGrp {
			if len(op.Group) > 0 {
				prefix = append(append([]string(nil), prefix...), string(op.Group))
			}
			continue
		}
		out = TextPairs(out, prefix, op.Attrs)
	}
	return TextPairs(out, prefix, rec)
}

// MatchText compares one expected pair with an observed one.
func (e TextExp) MatchText(p logparse.Pair) string {
	if p.Key != e.Path {
		return fmt.Sprintf("key: want %q, got %q", e.Path, p.Key)
	}
	switch e.Mode {
	case "exact":
		if p.Val != e.S {
			return fmt.Sprintf("value of %q: want %q, got %q", e.Path, e.S, p.Val)
		}
	case "float":
		f, err := strconv.ParseFloat(p.Val, 64)
		if err != nil || !(f == e.F || (math.IsNaN(f) && math.IsNaN(e.F))) {
			return fmt.Sprintf("value of %q: want float %v, got %q", e.Path, e.F, p.Val)
		}
	case "dur":
		d, err := time.ParseDuration(p.Val)
		if err != nil || d != e.D {
			return fmt.Sprintf("value of %q: want duration %v, got %q", e.Path, e.D, p.Val)
		}
	}
	return ""
}
