// Package drv is the shared driver of all runtime monitors.
//
// A monitor binary runs in one of three modes:
//
//	parent:  -prop <ID> -tier quick|thorough     plans shards, runs each shard as a child
//	                                              process of itself (crash isolation), merges
//	                                              the shard results, writes the evidence file,
//	                                              prints VIOLATION / KNOWN-FINDING lines.
//	child:   -child <shard.json> -out <res.json>  executes one shard.
//	replay:  -replay <replay.json>                re-executes one recorded case.
//
// Verdicts are three-valued: exit 0 = held on what was observed, exit 1 = violation
// (with VIOLATION lines), exit 3 = inconclusive, exit 2 = the check itself is broken.
package drv

import (
	"bufio"
	"encoding/json"
	"flag"
	"fmt"
	"hash/fnv"
	"os"
	"os/exec"
	"path/filepath"
	"regexp"
	"runtime"
	"sort"
	"strconv"
	"strings"
	"sync"
	"syscall"
	"time"
)

// Shard is one unit of work executed in its own child process.
type Shard struct {
	Name string          `json:"name"`
	Prop string          `json:"prop"`
	Tier string          `json:"tier"`
	Seed int64           `json:"seed"`
	Race bool            `json:"race,omitempty"`     // run with the -race build of this monitor
	Env  []string        `json:"env,omitempty"`      // extra environment (e.g. GOMAXPROCS=2)
	Args json.RawMessage `json:"args,omitempty"`     // monitor specific
	Secs int             `json:"watchdog,omitempty"` // wall-clock watchdog (inconclusive when it fires)
	Solo bool            `json:"solo,omitempty"`     // do not run concurrently with other shards
}

// Violation is one refuting observation.
type Violation struct {
	Prop     string          `json:"property"`
	Key      string          `json:"key"` // stable identification of the failing input / call site
	Monitor  string          `json:"monitor"`
	Shard    string          `json:"shard"`
	Case     json.RawMessage `json:"case"`
	Expected string          `json:"expected"`
	Observed string          `json:"observed"`
	Tier     string          `json:"tier"`
	Seed     int64           `json:"seed"`
}

// Result is what a child reports.
type Result struct {
	Shard        string              `json:"shard"`
	Evaluations  int64               `json:"evaluations"`
	Hashes       []uint64            `json:"hashes,omitempty"` // distinct non-trivial case shapes (capped)
	HashOverflow int64               `json:"hash_overflow,omitempty"`
	Samples      []json.RawMessage   `json:"samples,omitempty"`
	Sum          map[string]int64    `json:"sum,omitempty"`
	Max          map[string]int64    `json:"max,omitempty"`
	Sets         map[string][]string `json:"sets,omitempty"` // small string sets, unioned
	Violations   []Violation         `json:"violations,omitempty"`
	Inconclusive []string            `json:"inconclusive,omitempty"`
	Notes        []string            `json:"notes,omitempty"`
	Done         bool                `json:"done"`
}

const maxHashesPerShard = 400000

// Ctx collects what a shard observes. It is safe for concurrent use.
type Ctx struct {
	Shard Shard
	Mon   string

	mu       sync.Mutex
	res      Result
	hashes   map[uint64]struct{}
	sets     map[string]map[string]struct{}
	progress string
	lastProg time.Time
	maxViol  int
}

func (c *Ctx) Eval(n int64) {
	c.mu.Lock()
	c.res.Evaluations += n
	c.mu.Unlock()
}

// Distinct records the shape hash of a non-trivial case.
func (c *Ctx) Distinct(h uint64) {
	c.mu.Lock()
	if _, ok := c.hashes[h]; !ok {
		if len(c.hashes) < maxHashesPerShard {
			c.hashes[h] = struct{}{}
		} else {
			c.res.HashOverflow++
		}
	}
	c.mu.Unlock()
}

func (c *Ctx) DistinctStr(s string) { c.Distinct(HashStr(s)) }

func HashStr(s string) uint64 {
	h := fnv.New64a()
	h.Write([]byte(s))
	return h.Sum64()
}

func (c *Ctx) Add(key string, n int64) {
	c.mu.Lock()
	c.res.Sum[key] += n
	c.mu.Unlock()
}

func (c *Ctx) MaxOf(key string, n int64) {
	c.mu.Lock()
	if n > c.res.Max[key] {
		c.res.Max[key] = n
	}
	c.mu.Unlock()
}

// SetAdd records a member of a small named set (e.g. "cancel landed at point X").
func (c *Ctx) SetAdd(set, member string) {
	c.mu.Lock()
	m := c.sets[set]
	if m == nil {
		m = map[string]struct{}{}
		c.sets[set] = m
	}
	if len(m) < 5000 {
		m[member] = struct{}{}
	}
	c.mu.Unlock()
}

// Sample keeps up to 6 samples per shard.
func (c *Ctx) Sample(v any) {
	c.mu.Lock()
	defer c.mu.Unlock()
	if len(c.res.Samples) >= 6 {
		return
	}
	b, err := json.Marshal(v)
	if err != nil {
		b, _ = json.Marshal(fmt.Sprintf("%+v", v))
	}
	if len(b) > 2000 {
		b, _ = json.Marshal(string(b[:2000]) + "…(truncated)")
	}
	c.res.Samples = append(c.res.Samples, b)
}

func (c *Ctx) NumSamples() int {
	c.mu.Lock()
	defer c.mu.Unlock()
	return len(c.res.Samples)
}

// Progress records the case (or batch) about to be executed, so that a crash of the child
// can be attributed. Writes are rate limited unless force is set.
func (c *Ctx) Progress(id string, force bool) {
	c.mu.Lock()
	defer c.mu.Unlock()
	if c.progress == "" {
		return
	}
	if !force && time.Since(c.lastProg) < 20*time.Millisecond {
		return
	}
	c.lastProg = time.Now()
	os.WriteFile(c.progress, []byte(id), 0o644)
}

// Violate records a violation. key identifies the failing input stably (used for known findings).
func (c *Ctx) Violate(key string, cs any, expected, observed string) {
	c.mu.Lock()
	defer c.mu.Unlock()
	if len(c.res.Violations) >= c.maxViol {
		return
	}
	b, err := json.Marshal(cs)
	if err != nil {
		b, _ = json.Marshal(fmt.Sprintf("%+v", cs))
	}
	c.res.Violations = append(c.res.Violations, Violation{
		Prop: c.Shard.Prop, Key: key, Monitor: c.Mon, Shard: c.Shard.Name, Case: b,
		Expected: clip(expected, 4000), Observed: clip(observed, 8000), Tier: c.Shard.Tier, Seed: c.Shard.Seed,
	})
}

func (c *Ctx) NumViolations() int {
	c.mu.Lock()
	defer c.mu.Unlock()
	return len(c.res.Violations)
}

func (c *Ctx) Inconclusive(msg string) {
	c.mu.Lock()
	c.res.Inconclusive = append(c.res.Inconclusive, msg)
	c.mu.Unlock()
}

func (c *Ctx) Note(msg string) {
	c.mu.Lock()
	if len(c.res.Notes) < 20 {
		c.res.Notes = append(c.res.Notes, msg)
	}
	c.mu.Unlock()
}

func clip(s string, n int) string {
	if len(s) > n {
		return s[:n] + "…(truncated)"
	}
	return s
}

// Monitor is implemented by every monitor binary.
type Monitor interface {
	Name() string
	// Level returns the evidence level and the rule text for a property.
	Level(prop string) (level, rule string)
	// Plan returns the shards for one property / tier / seed.
	Plan(prop, tier string, seed int64) []Shard
	// Run executes one shard.
	Run(sh Shard, c *Ctx)
	// Replay re-executes one recorded case (the Case member of a Violation).
	Replay(v Violation, c *Ctx)
}

// Optional interface: extra checks on the merged result (e.g. minimum observed events).
type Finisher interface {
	Finish(prop, tier string, merged *Merged) (inconclusive []string)
}

// Optional interface: assumptions for the evidence file.
type Assumer interface {
	Assumptions(prop string) []string
}

type Merged struct {
	Evaluations int64
	Distinct    int64
	Sum         map[string]int64
	Max         map[string]int64
	Sets        map[string][]string
	Samples     []json.RawMessage
	Notes       []string
}

func verifRoot() string {
	if r := os.Getenv("VERIF_ROOT"); r != "" {
		return r
	}
	return "/verif"
}

// Main is the entry point of every monitor binary.
func Main(m Monitor) {
	var (
		prop   = flag.String("prop", "", "property id")
		tier   = flag.String("tier", envOr("VERIF_TIER", "quick"), "quick|thorough")
		seed   = flag.Int64("seed", envSeed(), "seed")
		child  = flag.String("child", "", "shard file (child mode)")
		out    = flag.String("out", "", "result file (child mode)")
		replay = flag.String("replay", "", "replay file")
		par    = flag.Int("par", runtime.NumCPU(), "parallel children")
		only   = flag.String("only", "", "run only shards whose name contains this")
	)
	flag.Parse()
	switch {
	case *child != "":
		os.Exit(childMain(m, *child, *out))
	case *replay != "":
		os.Exit(replayMain(m, *replay))
	default:
		if *prop == "" {
			fmt.Fprintln(os.Stderr, "need -prop")
			os.Exit(2)
		}
		os.Exit(parentMain(m, *prop, *tier, *seed, *par, *only))
	}
}

func envOr(k, d string) string {
	if v := os.Getenv(k); v != "" {
		return v
	}
	return d
}

func envSeed() int64 {
	if v := os.Getenv("VERIF_SEED"); v != "" {
		if n, err := strconv.ParseInt(v, 10, 64); err == nil {
			return n
		}
		return int64(HashStr(v) >> 1)
	}
	return 1
}

func newCtx(m Monitor, sh Shard, progress string) *Ctx {
	c := &Ctx{Shard: sh, Mon: m.Name(), hashes: map[uint64]struct{}{}, sets: map[string]map[string]struct{}{}, progress: progress, maxViol: 20}
	c.res.Shard = sh.Name
	c.res.Sum = map[string]int64{}
	c.res.Max = map[string]int64{}
	return c
}

func (c *Ctx) finish() Result {
	c.mu.Lock()
	defer c.mu.Unlock()
	c.res.Hashes = c.res.Hashes[:0]
	for h := range c.hashes {
		c.res.Hashes = append(c.res.Hashes, h)
	}
	c.res.Sets = map[string][]string{}
	for k, m := range c.sets {
		for s := range m {
			c.res.Sets[k] = append(c.res.Sets[k], s)
		}
		sort.Strings(c.res.Sets[k])
	}
	c.res.Done = true
	return c.res
}

func childMain(m Monitor, shardFile, out string) int {
	b, err := os.ReadFile(shardFile)
	if err != nil {
		fmt.Fprintln(os.Stderr, "child: ", err)
		return 2
	}
	var sh Shard
	if err := json.Unmarshal(b, &sh); err != nil {
		fmt.Fprintln(os.Stderr, "child: ", err)
		return 2
	}
	c := newCtx(m, sh, strings.TrimSuffix(out, ".res.json")+".progress")
	m.Run(sh, c)
	res := c.finish()
	rb, _ := json.Marshal(res)
	if err := os.WriteFile(out, rb, 0o644); err != nil {
		fmt.Fprintln(os.Stderr, "child: ", err)
		return 2
	}
	return 0
}

func replayMain(m Monitor, path string) int {
	b, err := os.ReadFile(path)
	if err != nil {
		fmt.Fprintln(os.Stderr, err)
		return 2
	}
	var v Violation
	if err := json.Unmarshal(b, &v); err != nil {
		fmt.Fprintln(os.Stderr, err)
		return 2
	}
	sh := Shard{Name: "replay", Prop: v.Prop, Tier: v.Tier, Seed: v.Seed}
	c := newCtx(m, sh, "")
	m.Replay(v, c)
	res := c.finish()
	if len(res.Violations) > 0 {
		for _, vv := range res.Violations {
			fmt.Printf("VIOLATION property=%s replay=%s\n  key=%s\n  expected: %s\n  observed: %s\n", vv.Prop, path, vv.Key, vv.Expected, vv.Observed)
		}
		return 1
	}
	fmt.Printf("replay of %s: no violation reproduced (evaluations=%d)\n", path, res.Evaluations)
	return 0
}

type known struct {
	prop, key, text string
}

func loadKnown() []known {
	f, err := os.Open(filepath.Join(verifRoot(), "known_findings.txt"))
	if err != nil {
		return nil
	}
	defer f.Close()
	var ks []known
	sc := bufio.NewScanner(f)
	re := regexp.MustCompile(`^known:\s+property=(\S+)\s+key=(\S+)\s*(.*)$`)
	for sc.Scan() {
		if mm := re.FindStringSubmatch(strings.TrimSpace(sc.Text())); mm != nil {
			ks = append(ks, known{mm[1], mm[2], mm[3]})
		}
	}
	return ks
}

type childOutcome struct {
	sh       Shard
	res      *Result
	crashed  bool
	timedOut bool
	log      string
	logPath  string
	progress string
	raceLogs []string
	wall     float64
}

func runChild(self string, sh Shard, work string, idx int) childOutcome {
	base := filepath.Join(work, fmt.Sprintf("%03d-%s", idx, sanitize(sh.Name)))
	shardFile := base + ".shard.json"
	outFile := base + ".res.json"
	logFile := base + ".log"
	b, _ := json.Marshal(sh)
	os.WriteFile(shardFile, b, 0o644)
	os.Remove(outFile)
	bin := self
	if sh.Race {
		bin = self + ".race"
	}
	cmd := exec.Command(bin, "-child", shardFile, "-out", outFile)
	lf, _ := os.Create(logFile)
	cmd.Stdout = lf
	cmd.Stderr = lf
	cmd.Env = append(os.Environ(), "GOTRACEBACK=all")
	if sh.Race {
		old, _ := filepath.Glob(base + ".race.*")
		for _, o := range old {
			os.Remove(o)
		}
		cmd.Env = append(cmd.Env, "GORACE=halt_on_error=0 log_path="+base+".race")
	}
	cmd.Env = append(cmd.Env, sh.Env...)
	cmd.SysProcAttr = &syscall.SysProcAttr{Setpgid: true}
	secs := sh.Secs
	if secs == 0 {
		secs = 900
	}
	t0 := time.Now()
	oc := childOutcome{sh: sh, logPath: logFile}
	if err := cmd.Start(); err != nil {
		lf.Close()
		oc.crashed = true
		oc.log = "start: " + err.Error()
		return oc
	}
	done := make(chan error, 1)
	go func() { done <- cmd.Wait() }()
	var werr error
	select {
	case werr = <-done:
	case <-time.After(time.Duration(secs) * time.Second):
		oc.timedOut = true
		cmd.Process.Signal(syscall.SIGQUIT) // goroutine dump into the log
		select {
		case werr = <-done:
		case <-time.After(10 * time.Second):
			syscall.Kill(-cmd.Process.Pid, syscall.SIGKILL)
			werr = <-done
		}
	}
	syscall.Kill(-cmd.Process.Pid, syscall.SIGKILL) // whatever the child left behind
	lf.Close()
	oc.wall = time.Since(t0).Seconds()
	lb, _ := os.ReadFile(logFile)
	oc.log = string(lb)
	if pb, err := os.ReadFile(base + ".progress"); err == nil {
		oc.progress = string(pb)
	}
	if rb, err := os.ReadFile(outFile); err == nil {
		var r Result
		if json.Unmarshal(rb, &r) == nil && r.Done {
			oc.res = &r
		}
	}
	if oc.res == nil && !oc.timedOut {
		oc.crashed = true
		if werr != nil {
			oc.log += "\n[exit: " + werr.Error() + "]"
		}
	}
	if sh.Race {
		oc.raceLogs, _ = filepath.Glob(base + ".race.*")
	}
	return oc
}

func sanitize(s string) string {
	r := []rune(s)
	for i, ch := range r {
		if !(ch >= 'a' && ch <= 'z' || ch >= 'A' && ch <= 'Z' || ch >= '0' && ch <= '9' || ch == '-' || ch == '_' || ch == '.') {
			r[i] = '_'
		}
	}
	if len(r) > 60 {
		r = r[:60]
	}
	return string(r)
}

func parentMain(m Monitor, prop, tier string, seed int64, par int, only string) int {
	t0 := time.Now()
	self, err := os.Executable()
	if err != nil {
		fmt.Fprintln(os.Stderr, err)
		return 2
	}
	level, rule := m.Level(prop)
	shards := m.Plan(prop, tier, seed)
	if only != "" {
		var f []Shard
		for _, s := range shards {
			if strings.Contains(s.Name, only) {
				f = append(f, s)
			}
		}
		shards = f
	}
	if len(shards) == 0 {
		fmt.Fprintf(os.Stderr, "monitor %s: no shards for property %s\n", m.Name(), prop)
		return 2
	}
	for i := range shards {
		shards[i].Prop, shards[i].Tier, shards[i].Seed = prop, tier, seed
	}
	work := filepath.Join(verifRoot(), ".work", prop+"-"+tier+os.Getenv("VERIF_WORK_SUFFIX"))
	os.RemoveAll(work)
	os.MkdirAll(work, 0o755)

	outcomes := make([]childOutcome, len(shards))
	run := func(idxs []int, par int) {
		sem := make(chan struct{}, par)
		var wg sync.WaitGroup
		for _, i := range idxs {
			wg.Add(1)
			sem <- struct{}{}
			go func(i int) {
				defer wg.Done()
				defer func() { <-sem }()
				oc := runChild(self, shards[i], work, i)
				// a watchdog timeout is retried twice before it counts as inconclusive
				for try := 0; oc.timedOut && try < 2; try++ {
					fmt.Printf("[%s] shard %s: watchdog fired, retrying\n", prop, shards[i].Name)
					oc = runChild(self, shards[i], work, i)
				}
				outcomes[i] = oc
			}(i)
		}
		wg.Wait()
	}
	var pool, solo []int
	for i, s := range shards {
		if s.Solo {
			solo = append(solo, i)
		} else {
			pool = append(pool, i)
		}
	}
	run(pool, par)
	run(solo, 1)

	// merge
	mg := &Merged{Sum: map[string]int64{}, Max: map[string]int64{}, Sets: map[string][]string{}}
	hashes := map[uint64]struct{}{}
	sets := map[string]map[string]struct{}{}
	var viols []Violation
	var inconcl []string
	broken := false
	raceReports := 0
	for _, oc := range outcomes {
		if oc.res != nil {
			r := oc.res
			mg.Evaluations += r.Evaluations
			for _, h := range r.Hashes {
				hashes[h] = struct{}{}
			}
			for k, v := range r.Sum {
				mg.Sum[k] += v
			}
			for k, v := range r.Max {
				if v > mg.Max[k] {
					mg.Max[k] = v
				}
			}
			for k, l := range r.Sets {
				if sets[k] == nil {
					sets[k] = map[string]struct{}{}
				}
				for _, s := range l {
					sets[k][s] = struct{}{}
				}
			}
			if len(mg.Samples) < 12 {
				for _, s := range r.Samples {
					if len(mg.Samples) < 12 {
						mg.Samples = append(mg.Samples, s)
					}
				}
			}
			mg.Notes = append(mg.Notes, r.Notes...)
			viols = append(viols, r.Violations...)
			for _, s := range r.Inconclusive {
				inconcl = append(inconcl, oc.sh.Name+": "+s)
			}
		}
		if oc.timedOut && oc.res == nil {
			inconcl = append(inconcl, fmt.Sprintf("shard %s: watchdog fired after %.0fs (last progress %q), log %s", oc.sh.Name, oc.wall, clip(oc.progress, 200), oc.logPath))
		}
		if oc.crashed {
			// A crash of the child is a violation when the runtime or glb killed it
			// (fatal error, unrecovered panic); otherwise the check is broken.
			if isRuntimeCrash(oc.log) {
				cs, _ := json.Marshal(map[string]any{"shard": oc.sh, "last_progress": oc.progress, "log_tail": tail(oc.log, 6000)})
				viols = append(viols, Violation{Prop: prop, Key: "crash:" + crashKey(oc.log), Monitor: m.Name(), Shard: oc.sh.Name, Case: cs,
					Expected: "child process completes", Observed: "child crashed: " + crashKey(oc.log), Tier: tier, Seed: seed})
			} else {
				broken = true
				fmt.Fprintf(os.Stderr, "BROKEN: shard %s ended without result; log %s\n%s\n", oc.sh.Name, oc.logPath, tail(oc.log, 3000))
			}
		}
		// race reports
		for _, rl := range oc.raceLogs {
			reps := ParseRaceLog(rl)
			for _, rp := range reps {
				raceReports++
				if rp.InGlb {
					cs, _ := json.Marshal(map[string]any{"shard": oc.sh, "race_log": rl, "report": clip(rp.Text, 6000)})
					viols = append(viols, Violation{Prop: prop, Key: "race:" + rp.Sig, Monitor: m.Name(), Shard: oc.sh.Name, Case: cs,
						Expected: "no data race with a glb frame", Observed: "DATA RACE " + rp.Sig, Tier: tier, Seed: seed})
				} else {
					broken = true
					fmt.Fprintf(os.Stderr, "BROKEN: race report without glb frame (harness race) in %s:\n%s\n", rl, clip(rp.Text, 3000))
				}
			}
		}
	}
	mg.Distinct = int64(len(hashes))
	for k, s := range sets {
		for v := range s {
			mg.Sets[k] = append(mg.Sets[k], v)
		}
		sort.Strings(mg.Sets[k])
	}
	mg.Sum["race_reports"] += int64(raceReports)
	if fin, ok := m.(Finisher); ok {
		inconcl = append(inconcl, fin.Finish(prop, tier, mg)...)
	}

	// de-duplicate violations by key, apply known findings
	kn := loadKnown()
	seen := map[string]bool{}
	var real []Violation
	knownHit := map[string]bool{}
	for _, v := range viols {
		if seen[v.Key] {
			continue
		}
		seen[v.Key] = true
		isKnown := false
		for _, k := range kn {
			if k.prop == v.Prop && k.key == v.Key {
				isKnown = true
				if !knownHit[k.key] {
					knownHit[k.key] = true
					fmt.Printf("KNOWN-FINDING: property=%s key=%s %s\n", v.Prop, k.key, k.text)
				}
			}
		}
		if !isKnown {
			real = append(real, v)
		}
	}
	rdir := filepath.Join(envOr("VERIF_REPLAY_DIR", filepath.Join(verifRoot(), "replays")), prop)
	for i, v := range real {
		os.MkdirAll(rdir, 0o755)
		p := filepath.Join(rdir, fmt.Sprintf("%d-%d.json", seed, i))
		b, _ := json.MarshalIndent(v, "", " ")
		os.WriteFile(p, b, 0o644)
		fmt.Printf("VIOLATION property=%s replay=%s\n", prop, p)
		fmt.Printf("  key: %s\n  expected: %s\n  observed: %s\n", v.Key, clip(v.Expected, 600), clip(v.Observed, 1200))
		if i >= 9 {
			fmt.Printf("  (%d further violations suppressed)\n", len(real)-i-1)
			break
		}
	}

	wall := time.Since(t0).Seconds()
	ev := map[string]any{
		"property_id": prop,
		"tier":        tier,
		"seed":        seed,
		"level":       level,
		"wall_s":      wall,
		"violations":  len(real),
		"coverage": map[string]any{
			"evaluations":         mg.Evaluations,
			"distinct_nontrivial": mg.Distinct,
			"rule":                rule,
			"samples":             mg.Samples,
			"observed_sum":        mg.Sum,
			"observed_max":        mg.Max,
			"observed_sets":       mg.Sets,
			"shards":              len(shards),
			"notes":               mg.Notes,
			"inconclusive":        inconcl,
			"known_findings_hit":  len(knownHit),
		},
	}
	if as, ok := m.(Assumer); ok {
		ev["assumptions"] = as.Assumptions(prop)
	}
	eb, _ := json.MarshalIndent(ev, "", " ")
	evdir := envOr("VERIF_EVIDENCE_DIR", filepath.Join(verifRoot(), "evidence"))
	os.MkdirAll(evdir, 0o755)
	if err := os.WriteFile(filepath.Join(evdir, prop+".json"), eb, 0o644); err != nil {
		fmt.Fprintln(os.Stderr, err)
		return 2
	}
	fmt.Printf("[%s] monitor=%s tier=%s seed=%d shards=%d evaluations=%d distinct=%d violations=%d inconclusive=%d wall=%.1fs\n",
		prop, m.Name(), tier, seed, len(shards), mg.Evaluations, mg.Distinct, len(real), len(inconcl), wall)
	keys := make([]string, 0, len(mg.Sum))
	for k := range mg.Sum {
		keys = append(keys, k)
	}
	sort.Strings(keys)
	for _, k := range keys {
		fmt.Printf("    %s=%d", k, mg.Sum[k])
	}
	for k, v := range mg.Max {
		fmt.Printf("    max.%s=%d", k, v)
	}
	fmt.Println()
	switch {
	case len(real) > 0:
		return 1
	case broken:
		return 2
	case len(inconcl) > 0:
		for _, s := range inconcl {
			fmt.Printf("INCONCLUSIVE property=%s %s\n", prop, s)
		}
		return 3
	case mg.Evaluations == 0 || mg.Distinct < 2:
		fmt.Printf("INCONCLUSIVE property=%s observed nothing (evaluations=%d distinct=%d)\n", prop, mg.Evaluations, mg.Distinct)
		return 3
	}
	return 0
}

func tail(s string, n int) string {
	if len(s) > n {
		return "…" + s[len(s)-n:]
	}
	return s
}

var crashRe = regexp.MustCompile(`(?m)^(fatal error: .*|panic: .*|unexpected fault address.*|SIGSEGV.*)$`)

func isRuntimeCrash(log string) bool {
	return crashRe.MatchString(log)
}

func crashKey(log string) string {
	if m := crashRe.FindString(log); m != "" {
		return clip(m, 160)
	}
	return "unknown"
}

// RaceReport is one "WARNING: DATA RACE" block.
type RaceReport struct {
	Text  string
	Sig   string // de-duplication signature: function names of the two stacks, no line numbers
	InGlb bool
}

var frameRe = regexp.MustCompile(`^  ([^\s(][^\n]*)\(\)$`)

// ParseRaceLog splits a GORACE log file into reports and de-duplicates them by the pair of
// access stacks with line numbers stripped. A report counts as "in glb" when the innermost
// non-library frame of either of the two racing accesses is glb code.
func ParseRaceLog(path string) []RaceReport {
	b, err := os.ReadFile(path)
	if err != nil {
		return nil
	}
	blocks := strings.Split(string(b), "WARNING: DATA RACE")
	seen := map[string]bool{}
	var out []RaceReport
	for _, blk := range blocks[1:] {
		if i := strings.Index(blk, "=================="); i >= 0 {
			blk = blk[:i]
		}
		var funcs []string
		inGlb := false
		access := false   // inside one of the two access stacks
		siteSeen := false // access site of the current stack already classified
		for _, ln := range strings.Split(blk, "\n") {
			switch {
			case strings.HasPrefix(ln, "Write at"), strings.HasPrefix(ln, "Read at"),
				strings.HasPrefix(ln, "Previous write at"), strings.HasPrefix(ln, "Previous read at"),
				strings.HasPrefix(ln, "Atomic write at"), strings.HasPrefix(ln, "Atomic read at"),
				strings.HasPrefix(ln, "Previous atomic write at"), strings.HasPrefix(ln, "Previous atomic read at"):
				access, siteSeen = true, false
				continue
			case strings.HasPrefix(ln, "Goroutine "):
				access = false
				continue
			}
			if !access {
				continue
			}
			if mm := frameRe.FindStringSubmatch(ln); mm != nil {
				fn := mm[1]
				if len(funcs) < 12 {
					funcs = append(funcs, fn)
				}
				// the access belongs to whichever of glb / harness code is innermost;
				// standard-library and runtime frames in between are skipped
				isGlb := strings.Contains(fn, "github.com/whoisnian/glb/")
				isHarness := strings.HasPrefix(fn, "verif/") || strings.HasPrefix(fn, "main.")
				if !siteSeen && (isGlb || isHarness) {
					siteSeen = true
					if isGlb {
						inGlb = true
					}
				}
			}
		}
		sig := strings.Join(funcs, "|")
		if seen[sig] {
			continue
		}
		seen[sig] = true
		out = append(out, RaceReport{Text: "WARNING: DATA RACE" + blk, Sig: clip(sig, 300), InGlb: inGlb})
	}
	return out
}
