// Package logparse holds the independent parsers the log monitors judge output with:
// an order- and duplicate-preserving JSON decoder and a tokenizer for key=value lines.
package logparse

import (
	"bytes"
	"encoding/json"
	"fmt"
	"io"
	"math"
	"strconv"
	"strings"
	"unicode/utf8"
)

// JV is a decoded JSON value with member order and duplicate keys preserved.
type JV struct {
	Kind string // obj arr str num bool null | errstr (expected side only: any JSON string, optionally containing Contains)
	Str  string
	Num  string // number text
	B    bool
	Obj  []JMember
	Arr  []JV
	// expected side only
	FloatCmp bool   // compare numbers by float64 value instead of text
	Contains string // for errstr
}

type JMember struct {
	Key string
	V   JV
}

// CheckFraming verifies that b is exactly one line: ends in '\n', contains no other
// '\n' or '\r', and is valid UTF-8.
func CheckFraming(b []byte) error {
	if len(b) == 0 || b[len(b)-1] != '\n' {
		return fmt.Errorf("does not end in a newline")
	}
	if i := bytes.IndexAny(b[:len(b)-1], "\n\r"); i >= 0 {
		return fmt.Errorf("raw line break byte %q at offset %d", b[i], i)
	}
	if !utf8.Valid(b) {
		return fmt.Errorf("not valid UTF-8")
	}
	return nil
}

// DecodeObjectLine parses b as exactly one JSON object followed by nothing but white space.
func DecodeObjectLine(b []byte) (JV, error) {
	dec := json.NewDecoder(bytes.NewReader(b))
	dec.UseNumber()
	v, err := decodeValue(dec)
	if err != nil {
		return JV{}, err
	}
	if v.Kind != "obj" {
		return JV{}, fmt.Errorf("top-level value is %s, not an object", v.Kind)
	}
	if _, err := dec.Token(); err != io.EOF {
		return JV{}, fmt.Errorf("trailing data after the object (%v)", err)
	}
	return v, nil
}

// DecodeValue parses b as one JSON value.
func DecodeValue(b []byte) (JV, error) {
	dec := json.NewDecoder(bytes.NewReader(b))
	dec.UseNumber()
	v, err := decodeValue(dec)
	if err != nil {
		return JV{}, err
	}
	if _, err := dec.Token(); err != io.EOF {
		return JV{}, fmt.Errorf("trailing data (%v)", err)
	}
	return v, nil
}

func decodeValue(dec *json.Decoder) (JV, error) {
	tok, err := dec.Token()
	if err != nil {
		return JV{}, err
	}
	switch t := tok.(type) {
	case json.Delim:
		switch t {
		case '{':
			v := JV{Kind: "obj"}
			for dec.More() {
				kt, err := dec.Token()
				if err != nil {
					return JV{}, err
				}
				k, ok := kt.(string)
				if !ok {
					return JV{}, fmt.Errorf("object key is not a string: %v", kt)
				}
				mv, err := decodeValue(dec)
				if err != nil {
					return JV{}, err
				}
				v.Obj = append(v.Obj, JMember{k, mv})
			}
			if _, err := dec.Token(); err != nil {
				return JV{}, err
			}
			return v, nil
		case '[':
			v := JV{Kind: "arr"}
			for dec.More() {
				ev, err := decodeValue(dec)
				if err != nil {
					return JV{}, err
				}
				v.Arr = append(v.Arr, ev)
			}
			if _, err := dec.Token(); err != nil {
				return JV{}, err
			}
			return v, nil
		}
		return JV{}, fmt.Errorf("unexpected delimiter %v", t)
	case string:
		return JV{Kind: "str", Str: t}, nil
	case json.Number:
		return JV{Kind: "num", Num: string(t)}, nil
	case bool:
		return JV{Kind: "bool", B: t}, nil
	case nil:
		return JV{Kind: "null"}, nil
	}
	return JV{}, fmt.Errorf("unexpected token %v", tok)
}

// IsEmptyObj reports whether v is an object that is empty after pruning empty objects.
func IsEmptyObj(v JV) bool {
	if v.Kind != "obj" {
		return false
	}
	for _, m := range v.Obj {
		if !IsEmptyObj(m.V) {
			return false
		}
	}
	return true
}

// Prune removes members whose value is a (recursively) empty object. Empty groups may be
// dropped or rendered as {} – both are faithful – so both sides are compared modulo them.
func Prune(v JV) JV {
	if v.Kind != "obj" {
		return v
	}
	out := JV{Kind: "obj"}
	for _, m := range v.Obj {
		if IsEmptyObj(m.V) {
			continue
		}
		out.Obj = append(out.Obj, JMember{m.Key, Prune(m.V)})
	}
	return out
}

// Equal compares want (expected side, may use errstr / FloatCmp) with got; it returns a
// description of the first difference, or "".
func Equal(want, got JV, path string) string {
	if want.Kind == "errstr" {
		if got.Kind != "str" {
			return fmt.Sprintf("%s: want an error string, got %s", path, Show(got))
		}
		if want.Contains != "" && !strings.Contains(got.Str, want.Contains) {
			return fmt.Sprintf("%s: error string %q does not contain %q", path, got.Str, want.Contains)
		}
		return ""
	}
	if want.Kind != got.Kind {
		return fmt.Sprintf("%s: want %s, got %s", path, Show(want), Show(got))
	}
	switch want.Kind {
	case "str":
		if want.Str != got.Str {
			return fmt.Sprintf("%s: want string %q, got %q", path, want.Str, got.Str)
		}
	case "num":
		if want.Num == got.Num {
			return ""
		}
		if want.FloatCmp {
			a, e1 := strconv.ParseFloat(want.Num, 64)
			b, e2 := strconv.ParseFloat(got.Num, 64)
			if e1 == nil && e2 == nil && (a == b || math.Float64bits(a) == math.Float64bits(b)) {
				return ""
			}
		}
		return fmt.Sprintf("%s: want number %s, got %s", path, want.Num, got.Num)
	case "bool":
		if want.B != got.B {
			return fmt.Sprintf("%s: want %v, got %v", path, want.B, got.B)
		}
	case "arr":
		if len(want.Arr) != len(got.Arr) {
			return fmt.Sprintf("%s: want array of %d, got %d", path, len(want.Arr), len(got.Arr))
		}
		for i := range want.Arr {
			if d := Equal(want.Arr[i], got.Arr[i], fmt.Sprintf("%s[%d]", path, i)); d != "" {
				return d
			}
		}
	case "obj":
		for i := 0; i < len(want.Obj) || i < len(got.Obj); i++ {
			if i >= len(got.Obj) {
				return fmt.Sprintf("%s: member #%d %q missing", path, i, want.Obj[i].Key)
			}
			if i >= len(want.Obj) {
				return fmt.Sprintf("%s: unexpected extra member #%d %q", path, i, got.Obj[i].Key)
			}
			if want.Obj[i].Key != got.Obj[i].Key {
				return fmt.Sprintf("%s: member #%d want key %q, got key %q", path, i, want.Obj[i].Key, got.Obj[i].Key)
			}
			if d := Equal(want.Obj[i].V, got.Obj[i].V, path+"."+strconv.Quote(want.Obj[i].Key)); d != "" {
				return d
			}
		}
	}
	return ""
}

// Show renders a JV compactly for messages.
func Show(v JV) string {
	switch v.Kind {
	case "str":
		return strconv.Quote(v.Str)
	case "num":
		return v.Num
	case "bool":
		return strconv.FormatBool(v.B)
	case "null":
		return "null"
	case "errstr":
		return "<error string containing " + strconv.Quote(v.Contains) + ">"
	case "arr":
		s := "["
		for i, e := range v.Arr {
			if i > 0 {
				s += ","
			}
			s += Show(e)
		}
		return s + "]"
	case "obj":
		s := "{"
		for i, m := range v.Obj {
			if i > 0 {
				s += ","
			}
			s += strconv.Quote(m.Key) + ":" + Show(m.V)
		}
		return s + "}"
	}
	return "?" + v.Kind
}
