package logparse

import (
	"fmt"
	"strconv"
	"unicode"
	"unicode/utf8"
)

// Pair is one key=value item of a text line, both sides unquoted.
type Pair struct {
	Key, Val             string
	KeyQuoted, ValQuoted bool
}

// TokenizeText splits one text-handler line by the grammar of the property statement:
//
//	line = pair (" " pair)* "\n"      pair = tok "=" tok
//	tok  = Go-quoted string | non-empty bare run free of Unicode white space, '=' and '"'
//
// It is deliberately independent of glb's quoting code.
func TokenizeText(b []byte) ([]Pair, error) {
	if len(b) == 0 || b[len(b)-1] != '\n' {
		return nil, fmt.Errorf("does not end in a newline")
	}
	s := string(b[:len(b)-1])
	var out []Pair
	pos := 0
	tok := func() (string, bool, error) {
		if pos >= len(s) {
			return "", false, fmt.Errorf("token expected at offset %d, found end of line", pos)
		}
		if s[pos] == '"' {
			// scan to the closing unescaped quote
			i := pos + 1
			for i < len(s) {
				if s[i] == '\\' {
					i += 2
					continue
				}
				if s[i] == '"' {
					break
				}
				if s[i] == '\n' {
					return "", false, fmt.Errorf("raw newline inside a quoted token at offset %d", i)
				}
				i++
			}
			if i >= len(s) {
				return "", false, fmt.Errorf("unterminated quoted token starting at offset %d", pos)
			}
			raw := s[pos : i+1]
			u, err := strconv.Unquote(raw)
			if err != nil {
				return "", false, fmt.Errorf("quoted token %s at offset %d does not unquote: %v", raw, pos, err)
			}
			pos = i + 1
			return u, true, nil
		}
		start := pos
		for pos < len(s) {
			r, size := utf8.DecodeRuneInString(s[pos:])
			if r == '=' || r == '"' || unicode.IsSpace(r) {
				break
			}
			pos += size
		}
		if pos == start {
			return "", false, fmt.Errorf("empty bare token at offset %d", start)
		}
		return s[start:pos], false, nil
	}
	for {
		k, kq, err := tok()
		if err != nil {
			return out, err
		}
		if pos >= len(s) || s[pos] != '=' {
			return out, fmt.Errorf("'=' expected after key %q at offset %d", k, pos)
		}
		pos++
		v, vq, err := tok()
		if err != nil {
			return out, err
		}
		out = append(out, Pair{k, v, kq, vq})
		if pos == len(s) {
			return out, nil
		}
		if s[pos] != ' ' {
			return out, fmt.Errorf("single space expected between pairs at offset %d, found %q", pos, s[pos])
		}
		pos++
	}
}
