// Package logrun holds what the concurrency / derivation monitors of the logger share:
// handler construction by kind, one emit call site, per-format time stripping, and the
// "alone line" of a record (the line a fresh logger built by replaying only the record's
// own derivation chain writes for it).
package logrun

import (
	"bytes"
	"context"
	"fmt"
	"io"
	"log/slog"
	"time"

	"github.com/whoisnian/glb/logger"

	"verif/internal/attrgen"
)

var Kinds = []string{"nano", "text", "json"}

var Levels = []slog.Level{logger.LevelDebug, logger.LevelInfo, logger.LevelWarn, logger.LevelError, logger.LevelFatal}

func NewHandler(kind string, w io.Writer, threshold int, addSource bool) logger.Handler {
	opts := logger.NewOptions(Levels[threshold], false, addSource)
	switch kind {
	case "nano":
		return logger.NewNanoHandler(w, opts)
	case "text":
		return logger.NewTextHandler(w, opts)
	case "json":
		return logger.NewJsonHandler(w, opts)
	}
	panic("logrun: unknown handler kind " + kind)
}

// NewHandlerColor is NewHandler with the colour option given.
func NewHandlerColor(kind string, w io.Writer, threshold int, addSource, colorful bool) logger.Handler {
	opts := logger.NewOptions(Levels[threshold], colorful, addSource)
	switch kind {
	case "nano":
		return logger.NewNanoHandler(w, opts)
	case "text":
		return logger.NewTextHandler(w, opts)
	case "json":
		return logger.NewJsonHandler(w, opts)
	}
	panic("logrun: unknown handler kind " + kind)
}

var ctx = context.Background()

// NewHandlerLevel is NewHandler with an arbitrary numeric threshold (not only the five named levels).
func NewHandlerLevel(kind string, w io.Writer, threshold slog.Level, addSource bool) logger.Handler {
	opts := logger.NewOptions(threshold, false, addSource)
	switch kind {
	case "nano":
		return logger.NewNanoHandler(w, opts)
	case "text":
		return logger.NewTextHandler(w, opts)
	case "json":
		return logger.NewJsonHandler(w, opts)
	}
	panic("logrun: unknown handler kind " + kind)
}

var cancelledCtx = func() context.Context {
	c, cancel := context.WithCancel(context.Background())
	cancel()
	return c
}()

// EmitVia logs one record through one of the Logger's entry points: 0 Log, 1 the level's own
// method (Debug / Info / Warn / Error; Fatal would end the process, so level 4 uses Log), 2 LogAttrs
// (nodes are passed as slog.Attr), 3 the level's f-method / Logf (attributes are not passed: those
// methods take none), 4 Panic and 5 Panicf (they log at ERROR whatever level is given, then panic
// with the message: recovered here; 5 passes no attributes), 6 Log and 7 LogAttrs with a context
// that is already cancelled (logging does not depend on it). Each entry point has one call site
// here, shared by the run and its alone replay.
func EmitVia(l *logger.Logger, via, level int, msg string, nodes []attrgen.Node) {
	switch via {
	case 4:
		func() {
			defer func() { recover() }()
			l.Panic(msg, attrgen.Args(nodes)...)
		}()
	case 5:
		func() {
			defer func() { recover() }()
			l.Panicf("%s", msg)
		}()
	case 6:
		l.Log(cancelledCtx, Levels[level], msg, attrgen.Args(nodes)...)
	case 7:
		attrs := make([]slog.Attr, len(nodes))
		for i, n := range nodes {
			attrs[i] = n.Attr()
		}
		l.LogAttrs(cancelledCtx, Levels[level], msg, attrs...)
	case 1:
		args := attrgen.Args(nodes)
		switch level {
		case 0:
			l.Debug(msg, args...)
		case 1:
			l.Info(msg, args...)
		case 2:
			l.Warn(msg, args...)
		case 3:
			l.Error(msg, args...)
		default:
			l.Log(ctx, Levels[level], msg, args...)
		}
	case 2:
		attrs := make([]slog.Attr, len(nodes))
		for i, n := range nodes {
			attrs[i] = n.Attr()
		}
		l.LogAttrs(ctx, Levels[level], msg, attrs...)
	case 3:
		switch level {
		case 0:
			l.Debugf("%s", msg)
		case 1:
			l.Infof("%s", msg)
		case 2:
			l.Warnf("%s", msg)
		case 3:
			l.Errorf("%s", msg)
		default:
			l.Logf(ctx, Levels[level], "%s", msg)
		}
	default:
		l.Log(ctx, Levels[level], msg, attrgen.Args(nodes)...)
	}
}

// AloneLineVia is AloneLine for a record logged with EmitVia on a handler with threshold thr.
func AloneLineVia(kind string, thr slog.Level, addSource bool, chain []attrgen.ChainOp, via, level int, msg string, attrs []attrgen.Node) (string, error) {
	var buf bytes.Buffer
	l := attrgen.Derive(logger.New(NewHandlerLevel(kind, &buf, thr, addSource)), chain)
	EmitVia(l, via, level, msg, attrs)
	if buf.Len() == 0 {
		return "", nil
	}
	s, err := StripTime(kind, buf.Bytes())
	return string(s), err
}

// Emit logs one record through the public API. Every monitor logs through this single
// call site, so the source attribute of a record and of its alone replay agree.
func Emit(l *logger.Logger, level int, msg string, args []any) {
	l.Log(ctx, Levels[level], msg, args...)
}

// StripTime removes the time field of a line (per format) and checks that the removed
// text parses as a time of that format.
func StripTime(kind string, line []byte) ([]byte, error) {
	switch kind {
	case "json":
		const pre = `{"time":"`
		if !bytes.HasPrefix(line, []byte(pre)) {
			return nil, fmt.Errorf("line does not start with %s", pre)
		}
		end := bytes.IndexByte(line[len(pre):], '"')
		if end < 0 {
			return nil, fmt.Errorf("unterminated time string")
		}
		ts := string(line[len(pre) : len(pre)+end])
		if _, err := time.Parse(time.RFC3339Nano, ts); err != nil {
			return nil, fmt.Errorf("time %q: %v", ts, err)
		}
		return append([]byte(pre), line[len(pre)+end:]...), nil
	case "text":
		const pre = "time="
		if !bytes.HasPrefix(line, []byte(pre)) {
			return nil, fmt.Errorf("line does not start with %s", pre)
		}
		end := bytes.IndexByte(line, ' ')
		if end < 0 {
			return nil, fmt.Errorf("no space after the time token")
		}
		ts := string(line[len(pre):end])
		if _, err := time.Parse(time.RFC3339, ts); err != nil {
			return nil, fmt.Errorf("time %q: %v", ts, err)
		}
		return append([]byte(pre), line[end:]...), nil
	case "nano":
		if len(line) < 20 {
			return nil, fmt.Errorf("line shorter than a timestamp")
		}
		if _, err := time.Parse(time.DateTime, string(line[:19])); err != nil {
			return nil, fmt.Errorf("time %q: %v", line[:19], err)
		}
		return append([]byte(nil), line[19:]...), nil
	}
	return nil, fmt.Errorf("unknown kind")
}

// AloneLine builds a fresh root of the given kind, replays chain on it, logs the record and
// returns what was written with the time stripped ("" when nothing was written).
func AloneLine(kind string, threshold int, addSource bool, chain []attrgen.ChainOp, level int, msg string, attrs []attrgen.Node) (string, error) {
	var buf bytes.Buffer
	l := attrgen.Derive(logger.New(NewHandler(kind, &buf, threshold, addSource)), chain)
	Emit(l, level, msg, attrgen.Args(attrs))
	if buf.Len() == 0 {
		return "", nil
	}
	s, err := StripTime(kind, buf.Bytes())
	return string(s), err
}
