// Package recw is the recording io.Writer the log monitors give to glb's handlers.
package recw

import (
	"errors"
	"io"
	"runtime"
	"sync/atomic"
)

// Writer records every Write call: payload copy, overlap with other calls.
// Lock-free: a pre-sized slot array indexed by an atomic cursor.
type Writer struct {
	inflight atomic.Int32
	Overlaps atomic.Int64 // Write calls that began while another was still inside
	cursor   atomic.Int64
	slots    [][]byte
	Dwell    int // Gosched calls while "inside" (widens the window a missing lock would show in)
	Lost     atomic.Int64
	// FailEvery > 0: every n-th call reports a short write with an error (half of the line
	// accepted) - a destination such as a size-capped or non-blocking pipe. The call still counts
	// and its payload is still recorded: one record must remain one Write call.
	FailEvery int
}

var errShort = errors.New("recw: short write")

func New(capacity, dwell int) *Writer {
	return &Writer{slots: make([][]byte, capacity), Dwell: dwell}
}

func (w *Writer) Write(p []byte) (int, error) {
	if w.inflight.Add(1) != 1 {
		w.Overlaps.Add(1)
	}
	i := w.cursor.Add(1) - 1
	if int(i) < len(w.slots) {
		w.slots[i] = append([]byte(nil), p...)
	} else {
		w.Lost.Add(1)
	}
	for k := 0; k < w.Dwell; k++ {
		runtime.Gosched()
	}
	w.inflight.Add(-1)
	if w.FailEvery > 0 && (i+1)%int64(w.FailEvery) == 0 {
		// the ways a destination can come up short: its own error, the standard io.ErrShortWrite, nothing
		// accepted at all, a short count without an error, all but the last byte
		switch (i + 1) / int64(w.FailEvery) % 5 {
		case 0:
			return len(p) / 2, errShort
		case 1:
			return len(p) / 2, io.ErrShortWrite
		case 2:
			return 0, io.ErrShortWrite
		case 3:
			return len(p) / 2, nil
		default:
			return len(p) - 1, io.ErrShortWrite
		}
	}
	return len(p), nil
}

// Calls returns the number of Write calls so far.
func (w *Writer) Calls() int { return int(w.cursor.Load()) }

// Payloads returns the recorded payloads in call order. Only call after all writers are joined.
func (w *Writer) Payloads() [][]byte {
	n := w.Calls()
	if n > len(w.slots) {
		n = len(w.slots)
	}
	return w.slots[:n]
}
