// Package srcprobe runs the separately built probe programs (/verif/srcprobe, built by ./check in
// several ways) and hands their records to the monitors that judge the source attribute.
package srcprobe

import (
	"bufio"
	"bytes"
	"encoding/json"
	"fmt"
	"os"
	"os/exec"
	"path/filepath"
	"strings"
	"time"
)

// Rec is one record of a probe: the file and line the Go runtime reports for a logging call and
// the line the handler wrote for it.
type Rec struct {
	Probe string `json:"probe"` // build variant: srcprobe-trim, srcprobe-files, srcprobe-abs
	Kind  string `json:"kind"`  // json | text | nano
	Via   string `json:"via"`
	File  string `json:"file"`
	Line  int    `json:"line"`
	Out   string `json:"out"`
}

// Probes lists the probe binaries the check script built (VERIF_SRCPROBES).
func Probes() []string {
	v := os.Getenv("VERIF_SRCPROBES")
	if v == "" {
		return nil
	}
	return strings.Split(v, ":")
}

// Run executes one probe binary and returns its records.
func Run(path string) ([]Rec, error) {
	cmd := exec.Command(path)
	var stdout, stderr bytes.Buffer
	cmd.Stdout, cmd.Stderr = &stdout, &stderr
	if err := cmd.Start(); err != nil {
		return nil, err
	}
	done := make(chan error, 1)
	go func() { done <- cmd.Wait() }()
	select {
	case err := <-done:
		if err != nil {
			return nil, fmt.Errorf("%s: %v: %s", path, err, stderr.String())
		}
	case <-time.After(60 * time.Second):
		cmd.Process.Kill()
		return nil, fmt.Errorf("%s: no result within 60 s", path)
	}
	name := filepath.Base(path)
	if i := strings.Index(name, "-"); i >= 0 {
		if j := strings.Index(name[i+1:], "-"); j >= 0 { // drop the scratch-checkout suffix
			name = name[:i+1+j]
		}
	}
	var out []Rec
	sc := bufio.NewScanner(&stdout)
	sc.Buffer(make([]byte, 1<<20), 1<<20)
	for sc.Scan() {
		var r Rec
		if err := json.Unmarshal(sc.Bytes(), &r); err != nil {
			return nil, fmt.Errorf("%s: unreadable record %q: %v", path, sc.Text(), err)
		}
		r.Probe = name
		out = append(out, r)
	}
	return out, nil
}

// RunFatal runs the probe in its "fatal" mode: one record through Logger.Fatal / Fatalf, which end the
// process. It returns the record (File/Line as announced on standard error before the call, Out =
// everything written to standard output) and the exit status.
func RunFatal(path, kind, via string) (Rec, int, error) {
	cmd := exec.Command(path, "fatal", kind, via)
	var stdout, stderr bytes.Buffer
	cmd.Stdout, cmd.Stderr = &stdout, &stderr
	if err := cmd.Start(); err != nil {
		return Rec{}, 0, err
	}
	done := make(chan error, 1)
	go func() { done <- cmd.Wait() }()
	select {
	case <-done:
	case <-time.After(60 * time.Second):
		cmd.Process.Kill()
		return Rec{}, 0, fmt.Errorf("%s fatal: no result within 60 s", path)
	}
	var r Rec
	line, _, _ := strings.Cut(stderr.String(), "\n")
	if err := json.Unmarshal([]byte(line), &r); err != nil {
		return Rec{}, 0, fmt.Errorf("%s fatal: unreadable announcement %q: %v", path, stderr.String(), err)
	}
	name := filepath.Base(path)
	if i := strings.Index(name, "-"); i >= 0 {
		if j := strings.Index(name[i+1:], "-"); j >= 0 {
			name = name[:i+1+j]
		}
	}
	r.Probe, r.Kind, r.Via, r.Out = name, kind, via, stdout.String()
	return r, cmd.ProcessState.ExitCode(), nil
}

// FileOK tells whether rendered names the file the runtime calls file: the whole name, or a tail of
// it that starts right after a '/' and keeps at least the base name. (Which tail a handler shows -
// glb shows the last two components - is its choice; a name cut anywhere else is not that file.)
func FileOK(rendered, file string) bool {
	if rendered == "" {
		return false
	}
	if rendered == file {
		return true
	}
	return strings.HasSuffix(file, "/"+rendered)
}
