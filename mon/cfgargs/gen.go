package main

import (
	"math/rand"
)

// the 16-token alphabet of the exhaustive sweep (DESIGN.md §3 C10); -u is not defined
var alphabet = [16]string{"-b", "-b=false", "-n", "-n=5", "--n=x", "5", "x", "-", "--", "---n", "-=", "--=v", "-s=a=b", "-u", "-s", "-help"}

// the 16-token alphabet of the second, shorter sweep: the long-named flags (64-, 65-, 200- and
// 63-byte names) in every spelling, two near-misses of them, and 7 tokens of the first alphabet
var alphabet2 = [16]string{
	"-" + nameLB, "--" + nameLB + "=false",
	"-" + nameLN + "=5", "--" + nameLN, "-" + nameLN + "=x",
	"-" + nameLS + "=a=b", "--" + nameLS,
	"--" + nameLU + "=7",
	"-" + nameLN[:64] + "=5", // undefined: the 65-byte name cut to 64 bytes
	"-b", "-n=5", "5", "x", "--", "-u", "-s",
}

// -config forms inserted into the shorter vectors of the sweep
var configForms = [][]string{
	{"-config=@VALID@"},
	{"--config=@MISSING@"},
	{"-config=@BADJSON@"},
	{"-config="},
	{"-config", "@VALID@"},
}

// runExhaustive enumerates all vectors of length 0..MaxLen over the alphabet; the vector with
// running number idx belongs to part idx % Parts.
func runExhaustive(rn *runner, a shardArgs) {
	idx := 0
	// second sweep first (it is the smaller one)
	for L := 1; L <= a.MaxLen2; L++ {
		total := 1 << (4 * L)
		vec := make([]string, L)
		for code := 0; code < total; code++ {
			idx++
			if idx%a.Parts != a.Part {
				continue
			}
			for p, c := 0, code; p < L; p, c = p+1, c>>4 {
				vec[L-1-p] = alphabet2[c&15]
			}
			if !rn.exec(vec) {
				return
			}
		}
	}
	for L := 0; L <= a.MaxLen; L++ {
		total := 1 << (4 * L)
		vec := make([]string, L)
		for code := 0; code < total; code++ {
			idx++
			if idx%a.Parts != a.Part {
				continue
			}
			for p, c := 0, code; p < L; p, c = p+1, c>>4 {
				vec[L-1-p] = alphabet[c&15]
			}
			if !rn.exec(vec) {
				return
			}
			if L <= a.CfgLen {
				for _, cf := range configForms {
					for pos := 0; pos <= L; pos++ {
						v := make([]string, 0, L+len(cf))
						v = append(v, vec[:pos]...)
						v = append(v, cf...)
						v = append(v, vec[pos:]...)
						if !rn.exec(v) {
							return
						}
					}
				}
			}
		}
	}
}

// ---------------------------------------------------------------------------------------
// random vectors

var goodValues = [...][]string{
	kBool:   {"true", "false", "1", "0", "t", "F", "TRUE", "False", ""},
	kInt:    {"0", "5", "-5", "+7", "0x10", "-0X1f", "0b101", "0o17", "017", "1_000", "9223372036854775807", "-9223372036854775808", ""},
	kInt64:  {"0", "12", "-12", "0x7fffffffffffffff", "-9223372036854775808", "1_0", ""},
	kUint:   {"0", "5", "0xff", "18446744073709551615", "0b1", ""},
	kUint64: {"0", "77", "0xFFFFFFFFFFFFFFFF", "18446744073709551615", ""},
	kString: {"a", "", "a=b", "=", "a b", "ü", "-b", "--", "-", "-n=5", "k=v=w", "--n=x", "-help", "\x00", "\xff\xfe"},
	kFloat:  {"1.5", "-2", "1e3", "NaN", "Inf", "-Inf", "+inf", "0x1p-2", "-0", ".5", "1_0.5", "4.9e-324", ""},
	kDur:    {"1s", "1h2m", "-5ms", "0", "1.5h", "+3us", "2562047h47m16.854775807s", "1µs", ""},
	kBytes:  {"YQ==", "YWJj", "AA==", "/+8=", "YWI=", ""},
}

var badValues = [...][]string{
	kBool:   {"x", "2", "yes", "-b", "tr ue", "true=", "--"},
	kInt:    {"x", "1.5", "9223372036854775808", "--", "-", "5x", " 5", "5 ", "0x", "-n", "1__0", "=5"},
	kInt64:  {"x", "9223372036854775808", "-9223372036854775809", "1e3", "-"},
	kUint:   {"-1", "x", "18446744073709551616", "+-1", "-0"},
	kUint64: {"-1", "x", "18446744073709551616", "1.0"},
	kString: {"-u", "-x=1"},
	kFloat:  {"x", "1.5.5", "1e999", "--", "1,5", "0x1"},
	kDur:    {"5", "x", "1d", "1 s", "s", "-", "9999999h"},
	kBytes:  {"a", "YQ=", "!!!!", "YQ== ", "YQ", "-b", "Y Q==", "YQ==YQ=="},
}

var tricky = []string{"-b", "--", "-", "-n=5", "a=b", "=", "==", " ", "a b", "ü", "\x00", "\xff", "-help", "x", "5", "-5", "", "-s", "--s=", "-config", "@VALID@", "~", "~/x", ".", "/", "..", "-1", "true", "false"}

var nearMisses = []string{"-" + nameLN + "=", "--" + nameLS + "=", "-" + nameLB + "=", "---" + nameLN + "=5", "-" + nameLN + "==5", "-" + nameLN + " =5", "--" + nameLS + "=" + nameLS + "=" + nameLS, "-=" + nameLN, nameLN + "=5",
	"-", "--", "---", "---x", "---n", "---n=5", "----", "-=", "-=v", "--=", "--=v", "-x=", "-n=", "-b=", "--b=", "-help=", "--config=", "-s=", "-by=",
	"- n", " -n", "-n ", "-N", "-B", "-Help", "-nn", "-n5", "-b5", "-bn", "-b-", "-n-", "-n==5", "-s==", "--s==a", "-n =5", "-n= 5", "=", "=n", "n=5", "-\x00", "--\x00=1", "-n\x00=5", "-ｎ=5", "—n=5", "-.", "-=-", "--=-", "---=", "-b=false=", "-b=true=false"}

var unknownFlags = []string{"-" + nameLN[:64], "--" + nameLN[:64] + "=5", "-" + nameLN + "x", "-" + nameLN + "x=5", "-" + nameLB[:63], "--" + nameLB + "0=true", "-" + nameLS[:199] + "=a", "-" + nameLS + "3=a",
	"-" + nameLU + "0=1", "-" + nameLU[:62] + "=1", "-" + nameLS[:64] + "=a", "-" + nameLS[:65] + "=a", "-" + nameLS[:63], "-u", "--u", "-u=1", "-x", "-x=1", "--unknown", "-bb", "-hel", "-helpp", "-conf", "-i6", "-i644", "-u6", "-B", "-S=a", "-n.", "-b,", "-cfg_n=1", "-CFG_N=1", "-N=5"}

var plainValues = []string{"5", "x", "-5", "arg", "a=b", "=x", "0", "true", "false", "", " ", "@VALID@", "b", "n", "help"}

var byteAlphabet = []byte("--==bnsfdiuyhelpconfig0156x \x00\xff\t\n/.~@\"'\\ü")

func pick(r *rand.Rand, l []string) string { return l[r.Intn(len(l))] }

func randBytes(r *rand.Rand) string {
	n := r.Intn(7)
	b := make([]byte, 0, n+2)
	switch r.Intn(4) {
	case 0:
		b = append(b, '-')
	case 1:
		b = append(b, '-', '-')
	}
	for i := 0; i < n; i++ {
		if r.Intn(4) == 0 {
			b = append(b, byte(r.Intn(256)))
		} else {
			b = append(b, byteAlphabet[r.Intn(len(byteAlphabet))])
		}
	}
	return string(b)
}

func randValue(r *rand.Rand, k kind, pBad int) string {
	switch x := r.Intn(100); {
	case x < pBad:
		return pick(r, badValues[k])
	case x < pBad+15:
		return pick(r, tricky)
	case x < pBad+20:
		return randBytes(r)
	}
	return pick(r, goodValues[k])
}

// flagTokens renders one occurrence of flag fi in one of its spellings.
func flagTokens(r *rand.Rand, fi int, pBad int) []string {
	dash := "-"
	if r.Intn(2) == 0 {
		dash = "--"
	}
	name := flagNames[fi]
	k := flagKinds[fi]
	var val string
	if fi == fConfig {
		switch x := r.Intn(10); {
		case x < 5:
			val = "@VALID@"
		case x < 6:
			val = "@MISSING@"
		case x < 7:
			val = "@BADJSON@"
		case x < 8:
			val = ""
		default:
			val = pick(r, tricky)
		}
	} else {
		val = randValue(r, k, pBad)
	}
	if k == kBool && r.Intn(2) == 0 {
		return []string{dash + name}
	}
	if r.Intn(2) == 0 {
		return []string{dash + name + "=" + val}
	}
	return []string{dash + name, val}
}

// randVector assembles one vector of at most 12 tokens.
func randVector(r *rand.Rand) []string {
	n := r.Intn(13)
	// how often a token is one that (probably) ends or breaks the parse
	pChaos := []int{3, 10, 30, 60}[r.Intn(4)]
	pBad := []int{0, 5, 25}[r.Intn(3)]
	var v []string
	var used []int
	for len(v) < n {
		if r.Intn(100) < pChaos {
			switch r.Intn(6) {
			case 0:
				v = append(v, pick(r, nearMisses))
			case 1:
				v = append(v, pick(r, unknownFlags))
			case 2:
				v = append(v, pick(r, plainValues))
			case 3:
				v = append(v, randBytes(r))
			case 4:
				v = append(v, "--")
			case 5:
				v = append(v, pick(r, tricky))
			}
			continue
		}
		switch x := r.Intn(100); {
		case x < 12 && len(used) > 0:
			// repeat a flag that occurred already
			v = append(v, flagTokens(r, used[r.Intn(len(used))], pBad)...)
		case x < 20:
			// boolean flag followed by a stray value
			fi := []int{fB, fHelp, fLB}[r.Intn(3)]
			used = append(used, fi)
			v = append(v, []string{"-", "--"}[r.Intn(2)]+flagNames[fi], pick(r, []string{"false", "true", "0", "x", "5", "-", ""}))
		case x < 30:
			used = append(used, fConfig)
			v = append(v, flagTokens(r, fConfig, pBad)...)
		case x < 36:
			used = append(used, fHelp)
			v = append(v, flagTokens(r, fHelp, pBad)...)
		default:
			fi := r.Intn(fHelp)
			used = append(used, fi)
			v = append(v, flagTokens(r, fi, pBad)...)
		}
	}
	if len(v) > 12 {
		v = v[:12]
	}
	return v
}
