package main

// Workloads of the thorough tier only (the quick tier and the generators in gen.go are not
// touched by anything in this file).

import (
	"math/rand"
	"strconv"
	"strings"
)

// ---------------------------------------------------------------------------------------
// themed alphabets for further exhaustive sweeps over Cfg

// integers: unsigned flags with negative / > 2^63 / hex / octal / underscore values, signs,
// blanks around the number, values in the next token
var alphaInts = []string{
	"-ui=-1", "-ui=0x10", "-ui=017", "-ui=1_000", "-ui=18446744073709551615", "-ui=18446744073709551616", "-u64=9223372036854775808", "-u64=-0", "-ui", "-u64",
	"-n=+5", "-n= 5", "-n=5 ", "-n=0o17", "-n=-0x8000000000000000", "-n=9223372036854775808", "-n", "-i64=1_0", "-i64=1__0",
	"+5", " 5", "-1", "0x10", "x",
}

// floats, durations, booleans, bytes: text forms, valid-then-invalid and invalid-then-valid
// repetitions arise from the enumeration
var alphaForms = []string{
	"-f=1e3", "-f=0x1p-2", "-f=NaN", "-f=-Inf", "-f=1e999", "-f",
	"-d=1h2m", "-d=5", "-d=-1.5h", "-d",
	"-b=t", "-b=TRUE", "-b=0", "-b=yes", "-b=", "-b", "-help=yes", "-help=F",
	"-by=YQ==", "-by=YQ=", "-by",
	"NaN", "1h", "YQ==",
}

// terminators, '=' at every position, the empty token, control bytes, invalid UTF-8
var alphaEdges = []string{
	"--", "-", "", "=", "=n", "-=n", "-n=", "-n==5", "-n=5=", "n=5", "--n=5", "---n=5",
	"-s=", "-s", "-s==", "-b", "-b=false", "-\x01", "-s=\x01\x7f", "-s=\xff\xfe", "\xff", "-\xff=1", "-n\t=5", "-help",
}

// -config in every spelling and position, repeated, missing file, invalid JSON, empty
var alphaConfig = []string{
	"-config=@VALID@", "--config=@VALID@", "-config", "--config", "@VALID@", "@MISSING@", "-config=@MISSING@", "--config=@BADJSON@", "-config=", "--config=",
	"-config=~/x", "-config=.", "-config=@VALID@x", "-n=5", "-n=x", "-b=false", "-s", "--", "x", "-help",
}

// names that are prefixes of each other, differ in case or in '-'/'_'/'.', look like values
var alphaNames = []string{
	"-a", "-ab=2", "-abc", "-abcd=7", "-n=5", "-N=6", "-v", "-V=false", "-Help", "-help", "-hel", "-helpx",
	"-config=@VALID@", "-Config=@VALID@", "-confi", "-config-=1", "-db-host=a", "-db_host=b", "--db.host", "-dbhost=",
	"-5", "5", "-1=9", "--", "x", "-x-=1", "-x--y", "-é=1", "-a b=c", "-k:v", "-c,d=e", "-plain=2",
}

// layout "wide": names that are decimal prefixes of each other (w1, w10, w100, w11, w119), undefined
// neighbours (w, w01, w1000), all kinds of values in the next token
var alphaWide = []string{
	"-w0", "-w1", "--w1=5", "-w10", "-w10=6", "-w100=9", "-w11=1", "-w119", "-w12", "-w113=a=b", "-w9=true", "-w", "-w1000", "-w01=1", "7", "--",
}

var themed = map[string][]string{"ints": alphaInts, "forms": alphaForms, "edges": alphaEdges, "config": alphaConfig, "names": alphaNames, "wide": alphaWide}

// runSweep enumerates all vectors of length 1..maxLen over an alphabet.
func runSweep(rn *runner, al []string, maxLen, part, parts int) {
	n := len(al)
	idx := 0
	for L := 1; L <= maxLen; L++ {
		total := 1
		for i := 0; i < L; i++ {
			total *= n
		}
		vec := make([]string, L)
		for code := 0; code < total; code++ {
			idx++
			if idx%parts != part {
				continue
			}
			for p, c := 0, code; p < L; p, c = p+1, c/n {
				vec[L-1-p] = al[c%n]
			}
			if !rn.exec(vec) {
				return
			}
		}
	}
}

// ---------------------------------------------------------------------------------------
// random vectors with a richer token grammar (any layout)

var wideGood = [...][]string{
	kBool:   {"true", "false", "1", "0", "t", "f", "T", "F", "TRUE", "FALSE", "True", "False", ""},
	kInt:    {"0", "5", "-5", "+5", "0x10", "0X1F", "-0x1f", "0b101", "0B11", "0o17", "0O7", "017", "1_000", "0x_ff", "0_7", "9223372036854775807", "-9223372036854775808", "-0", "+0", "00", ""},
	kInt64:  {"0", "12", "-12", "0x7fffffffffffffff", "-0x8000000000000000", "-9223372036854775808", "1_0", "0b0", ""},
	kUint:   {"0", "5", "+5", "0xff", "017", "0o17", "0b1", "1_000", "18446744073709551615", "0xFFFF_FFFF_FFFF_FFFF", "9223372036854775808", ""},
	kUint64: {"0", "77", "0xFFFFFFFFFFFFFFFF", "18446744073709551615", "9223372036854775808", "01777777777777777777777", ""},
	kString: {"a", "", "a=b", "=", "==", "a b", "ü", "-b", "--", "-", "-n=5", "k=v=w", "--n=x", "-help", "\x01", "\x7f", "\xff\xfe", "\t", "\n", "'", "\"", "\\", "@VALID@", "~", "true", "5"},
	kFloat:  {"1.5", "-2", "+2", "1e3", "1E3", "1e-3", "NaN", "nan", "Inf", "inf", "-Inf", "+Inf", "infinity", "0x1p-2", "0X1P+2", "-0", ".5", "5.", "1_0.5", "4.9e-324", "1.7976931348623157e308", "0x1.fffffffffffffp1023", "007", ""},
	kDur:    {"1s", "1h2m", "1h2m3s4ms5us6ns", "-5ms", "+5ms", "0", "+0", "-0", "1.5h", ".5s", "5.s", "2562047h47m16.854775807s", "-2562047h47m16.854775808s", "1µs", "1μs", "1us", "0s", ""},
	kBytes:  {"YQ==", "YWJj", "AA==", "/+8=", "YWI=", "////", "++++", "YWJjZGVmZ2hpamtsbW5vcA==", ""},
}

var wideBad = [...][]string{
	kBool:   {"x", "2", "yes", "no", "y", "on", "off", "tRUE", "-b", "tr ue", "true=", "--", " true", "true ", "01", "-1", "\x00"},
	kInt:    {"x", "1.5", "1e3", "9223372036854775808", "-9223372036854775809", "--", "-", "5x", " 5", "5 ", "\t5", "0x", "0b2", "0o8", "08", "-n", "1__0", "_1", "1_", "=5", "+-5", "++5", "٥", "0x1p4", "5\x00"},
	kInt64:  {"x", "9223372036854775808", "-9223372036854775809", "1e3", "-", "0x8000000000000000", " "},
	kUint:   {"-1", "-0", "x", "18446744073709551616", "+-1", "0x1_0000_0000_0000_0000", "1.0", " 1", "-"},
	kUint64: {"-1", "x", "18446744073709551616", "1.0", "1e3", "--5"},
	kString: {"-u", "-x=1"},
	kFloat:  {"x", "1.5.5", "1e999", "-1e999", "--", "1,5", "0x1", "0x1p", "1e", "e3", ".", "+", "in", "na", " 1", "1 ", "1__0", "1f"},
	kDur:    {"5", "x", "1d", "1w", "1 s", "s", "-", "+", ".s", "9999999h", "1h-2m", "1H", "1ss", " 1s", "1s ", "3000000h", "1e3s"},
	kBytes:  {"a", "YQ=", "YQ", "!!!!", "YQ== ", " YQ==", "-b", "Y Q==", "YQ==YQ==", "YQ=a", "=", "====", "YWJj\n", "_-8=", "YR=="},
}

func caseFlip(s string) string {
	b := []byte(s)
	for i, c := range b {
		switch {
		case c >= 'a' && c <= 'z':
			b[i] = c - 32
			return string(b)
		case c >= 'A' && c <= 'Z':
			b[i] = c + 32
			return string(b)
		}
	}
	return s + "X"
}

// mutateName derives a near-miss of a defined name (it may happen to be another defined name).
func mutateName(r *rand.Rand, name string) string {
	switch r.Intn(9) {
	case 0:
		return caseFlip(name)
	case 1:
		if len(name) > 1 {
			return name[:len(name)-1]
		}
		return name + name
	case 2:
		return name + string("abx0-_. "[r.Intn(8)])
	case 3:
		return strings.NewReplacer("-", "_", "_", "-").Replace(name) + ""
	case 4:
		return strings.ToUpper(name)
	case 5:
		return string("abn-_ "[r.Intn(6)]) + name
	case 6:
		if len(name) > 2 {
			i := 1 + r.Intn(len(name)-1)
			return name[:i] + name[i+1:]
		}
		return name + "0"
	case 7:
		return name + "=" // becomes name==value or name= (empty value) depending on what follows
	}
	return name + "\x00"
}

type randG struct {
	names []string
	kinds []kind
	bools []int
	cfg   int
}

func newRandG(names []string, kinds []kind) *randG {
	g := &randG{names: names, kinds: kinds, cfg: -1}
	for i, k := range kinds {
		if k == kBool {
			g.bools = append(g.bools, i)
		}
		if names[i] == "config" {
			g.cfg = i
		}
	}
	return g
}

var cfgRandG = newRandG(flagNames[:], flagKinds[:])

func (g *randG) value(r *rand.Rand, fi int, pBad int) string {
	if fi == g.cfg {
		switch x := r.Intn(12); {
		case x < 6:
			return "@VALID@"
		case x < 7:
			return "@MISSING@"
		case x < 8:
			return "@BADJSON@"
		case x < 9:
			return ""
		case x < 10:
			return "@VALID@x"
		}
		return pick(r, tricky)
	}
	k := g.kinds[fi]
	switch x := r.Intn(100); {
	case x < pBad:
		return pick(r, wideBad[k])
	case x < pBad+10:
		return pick(r, tricky)
	case x < pBad+14:
		return randBytes(r)
	case x < pBad+18:
		// a value made for another type
		k2 := kind(r.Intn(9))
		return pick(r, wideGood[k2])
	}
	return pick(r, wideGood[k])
}

// occurrence renders one occurrence of flag fi: dashes, name, '=' form or next-token form.
func (g *randG) occurrence(r *rand.Rand, fi int, pBad, pMut int) []string {
	dash := "-"
	switch x := r.Intn(100); {
	case x < 42:
		dash = "--"
	case x < 42+pMut/4:
		dash = "---"
	case x < 42+pMut/2:
		dash = ""
	}
	name := g.names[fi]
	if r.Intn(100) < pMut {
		name = mutateName(r, name)
	}
	val := g.value(r, fi, pBad)
	switch x := r.Intn(100); {
	case g.kinds[fi] == kBool && x < 50:
		return []string{dash + name}
	case x < 55:
		return []string{dash + name + "=" + val}
	case x < 55+pMut/3:
		// '=' at a random position of name+value
		s := name + val
		i := r.Intn(len(s) + 1)
		return []string{dash + s[:i] + "=" + s[i:]}
	case x < 55+pMut/2:
		return []string{dash + name + "==" + val}
	}
	return []string{dash + name, val}
}

// vector assembles one vector of at most maxTok tokens.
func (g *randG) vector(r *rand.Rand, maxTok int) []string {
	n := r.Intn(maxTok + 1)
	pChaos := []int{0, 3, 10, 30}[r.Intn(4)]
	pBad := []int{0, 4, 20}[r.Intn(3)]
	pMut := []int{0, 3, 12}[r.Intn(3)]
	var v []string
	var used []int
	for len(v) < n {
		if r.Intn(100) < pChaos {
			switch r.Intn(7) {
			case 0:
				v = append(v, pick(r, nearMisses))
			case 1:
				v = append(v, "-"+mutateName(r, g.names[r.Intn(len(g.names))]))
			case 2:
				v = append(v, pick(r, plainValues))
			case 3:
				v = append(v, randBytes(r))
			case 4:
				v = append(v, "--")
			case 5:
				v = append(v, pick(r, tricky))
			case 6:
				v = append(v, "")
			}
			continue
		}
		switch x := r.Intn(100); {
		case x < 10 && len(used) > 0:
			// repeat: invalid then valid, valid then invalid, or anything twice
			fi := used[r.Intn(len(used))]
			v = append(v, g.occurrence(r, fi, []int{0, 100, pBad}[r.Intn(3)], 0)...)
		case x < 16 && len(used) > 0:
			// the same flag twice in a row with chosen validity
			fi := used[r.Intn(len(used))]
			v = append(v, g.occurrence(r, fi, []int{0, 100}[r.Intn(2)], 0)...)
			v = append(v, g.occurrence(r, fi, []int{0, 100}[r.Intn(2)], 0)...)
		case x < 24:
			fi := g.bools[r.Intn(len(g.bools))]
			used = append(used, fi)
			v = append(v, []string{"-", "--"}[r.Intn(2)]+g.names[fi], pick(r, []string{"false", "true", "0", "x", "5", "-", "", "yes", "F"}))
		case x < 32 && g.cfg >= 0:
			used = append(used, g.cfg)
			v = append(v, g.occurrence(r, g.cfg, pBad, pMut)...)
		default:
			fi := r.Intn(len(g.names))
			used = append(used, fi)
			v = append(v, g.occurrence(r, fi, pBad, pMut)...)
		}
	}
	if len(v) > maxTok {
		v = v[:maxTok]
	}
	return v
}

// ---------------------------------------------------------------------------------------
// very long vectors over Cfg

// longVector builds a vector of about n tokens in one of several shapes.
func longVector(r *rand.Rand, n int) (shape string, v []string) {
	okFlag := func() []string {
		fi := r.Intn(fHelp)
		val := pick(r, goodValues[flagKinds[fi]])
		dash := []string{"-", "--"}[r.Intn(2)]
		switch {
		case flagKinds[fi] == kBool && r.Intn(2) == 0:
			return []string{dash + flagNames[fi]}
		case r.Intn(2) == 0:
			return []string{dash + flagNames[fi] + "=" + val}
		}
		return []string{dash + flagNames[fi], val}
	}
	fill := func(n int) {
		for len(v) < n {
			v = append(v, okFlag()...)
		}
	}
	switch r.Intn(9) {
	case 0:
		shape = "flags-then-args"
		fill(n - 4)
		v = append(v, "--", "-b", "x", "--")
	case 1:
		shape = "bad-then-good"
		v = append(v, "-n=x", "--d", "5", "-by=!")
		fill(n - 6)
		v = append(v, "-n=5", "-d=5s", "--by", "YQ==", "tail")
	case 2:
		shape = "good-then-bad-last"
		fill(n - 1)
		v = append(v, []string{"-n=x", "-ui=-1", "-d=5", "-f=1e999", "-b=yes"}[r.Intn(5)])
	case 3:
		shape = "ddash-then-flaglike"
		v = append(v, "--")
		for len(v) < n {
			v = append(v, okFlag()...)
		}
	case 4:
		shape = "missing-value-at-end"
		fill(n - 1)
		v = append(v, "-s")
	case 5:
		shape = "positional-only"
		for len(v) < n {
			v = append(v, "arg"+strconv.Itoa(len(v)))
		}
	case 6:
		shape = "undefined-at-end"
		fill(n - 1)
		v = append(v, "-u")
	case 7:
		shape = "one-flag-repeated"
		for len(v) < n-1 {
			v = append(v, "-n="+strconv.Itoa(len(v)))
		}
		v = append(v, "-")
	case 8:
		shape = "config-repeated"
		for len(v) < n-2 {
			v = append(v, []string{"-config=@MISSING@", "-config=@VALID@", "--config=", "-config=@BADJSON@"}[r.Intn(4)])
			v = append(v, okFlag()...)
		}
		v = append(v, "-config", "@VALID@")
	}
	return shape, v
}
