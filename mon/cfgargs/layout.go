package main

// Further workload structs (thorough tier): struct types built at run time with
// reflect.StructOf from a table, so that the struct handed to NewFlagSet and the flag table of
// the reference parser come from the same rows. The grammar is the same scan() as for Cfg;
// the value stage is the same rule (command line ?: JSON file ?: tag default, empty text =
// zero value, only the effective text has to parse), over a slice of typed values instead of
// the fields of Cfg.

import (
	"bytes"
	"encoding/base64"
	"encoding/json"
	"fmt"
	"reflect"
	"strconv"
	"strings"
	"time"

	"github.com/whoisnian/glb/config"
)

// fieldSpec is one row: a struct field somewhere in the tree and the flag it defines.
type fieldSpec struct {
	path    []string // Go field names from the root struct down to the field
	name    string   // flag name; "" = no name in the tag (the lower-cased field name is used)
	kind    kind
	def     string // default text in the tag
	defVal  any    // the value that text stands for (written down, not parsed)
	jsonVal any    // value in the valid JSON file; nil = the file does not mention the field
}

type layout struct {
	id     string
	fields []fieldSpec
	typ    reflect.Type
	fidx   [][]int        // reflect index path per field
	names  []string       // flag names incl. help, config (the last two)
	kinds  []kind         // same order
	index  map[string]int // name -> position
	json   string         // content of the valid JSON file
	canary []string       // a vector that is parsed again after every case
	retry  [4]outcome     // what the reference parser says for retryVectors alone
}

func (l *layout) fHelp() int   { return len(l.fields) }
func (l *layout) fConfig() int { return len(l.fields) + 1 }

var kindTypes = [...]reflect.Type{
	kBool:   reflect.TypeOf(false),
	kInt:    reflect.TypeOf(int(0)),
	kInt64:  reflect.TypeOf(int64(0)),
	kUint:   reflect.TypeOf(uint(0)),
	kUint64: reflect.TypeOf(uint64(0)),
	kString: reflect.TypeOf(""),
	kFloat:  reflect.TypeOf(float64(0)),
	kDur:    reflect.TypeOf(time.Duration(0)),
	kBytes:  reflect.TypeOf([]byte(nil)),
}

var kindZero = [...]any{kBool: false, kInt: int(0), kInt64: int64(0), kUint: uint(0), kUint64: uint64(0), kString: "", kFloat: float64(0), kDur: time.Duration(0), kBytes: []byte(nil)}

type node struct {
	name     string
	children []*node // nested structs, in order of first appearance
	leaves   []int   // field rows directly in this struct
	order    []any   // *node or int, declaration order
}

func (n *node) child(name string) *node {
	for _, c := range n.children {
		if c.name == name {
			return c
		}
	}
	c := &node{name: name}
	n.children = append(n.children, c)
	n.order = append(n.order, c)
	return c
}

func (l *layout) structOf(n *node) reflect.Type {
	var sf []reflect.StructField
	for _, it := range n.order {
		switch v := it.(type) {
		case *node:
			sf = append(sf, reflect.StructField{Name: v.name, Type: l.structOf(v)})
		case int:
			f := l.fields[v]
			sf = append(sf, reflect.StructField{Name: f.path[len(f.path)-1], Type: kindTypes[f.kind], Tag: reflect.StructTag(tagOf(f))})
		}
	}
	return reflect.StructOf(sf)
}

// tagOf renders the flag tag of a row; the pipe syntax is used when the name or the default
// contains a comma.
func tagOf(f fieldSpec) string {
	if f.name == "" && f.def == "" {
		return ""
	}
	body := f.name + "," + f.def + ",usage of " + f.name
	if strings.Contains(f.name, ",") || strings.Contains(f.def, ",") {
		body = "|" + f.name + "|" + f.def + "|usage of " + f.name
	}
	return "flag:" + strconv.Quote(body)
}

func (l *layout) build() *layout {
	root := &node{}
	for i, f := range l.fields {
		n := root
		for _, p := range f.path[:len(f.path)-1] {
			n = n.child(p)
		}
		n.leaves = append(n.leaves, i)
		n.order = append(n.order, i)
	}
	l.typ = l.structOf(root)
	l.index = map[string]int{}
	tree := map[string]any{}
	for i, f := range l.fields {
		// reflect index path
		t := l.typ
		var ip []int
		for _, p := range f.path {
			sf, ok := t.FieldByName(p)
			if !ok {
				panic("cfgargs: layout " + l.id + ": no field " + p)
			}
			ip = append(ip, sf.Index...)
			t = sf.Type
		}
		l.fidx = append(l.fidx, ip)
		name := f.name
		if name == "" {
			name = strings.ToLower(f.path[len(f.path)-1])
		}
		if _, dup := l.index[name]; dup || name == "help" || name == "config" {
			panic("cfgargs: layout " + l.id + ": duplicate flag name " + name)
		}
		l.index[name] = i
		l.names = append(l.names, name)
		l.kinds = append(l.kinds, f.kind)
		if f.jsonVal != nil {
			m := tree
			for _, p := range f.path[:len(f.path)-1] {
				sub, ok := m[p].(map[string]any)
				if !ok {
					sub = map[string]any{}
					m[p] = sub
				}
				m = sub
			}
			m[f.path[len(f.path)-1]] = f.jsonVal // Duration marshals as its int64, []byte as base64
		}
	}
	l.index["help"], l.index["config"] = l.fHelp(), l.fConfig()
	l.names = append(l.names, "help", "config")
	l.kinds = append(l.kinds, kBool, kString)
	b, err := json.Marshal(tree)
	if err != nil {
		panic(err)
	}
	l.json = string(b)
	for i, v := range retryVectors {
		l.retry[i] = refParseG(v, l, files{})
	}
	return l
}

// parseText: the text syntax of a typed value; empty text is the zero value.
func parseText(k kind, s string) (any, error) {
	if s == "" {
		return kindZero[k], nil
	}
	switch k {
	case kBool:
		v, err := strconv.ParseBool(s)
		return v, err
	case kInt:
		v, err := strconv.ParseInt(s, 0, strconv.IntSize)
		return int(v), err
	case kInt64:
		v, err := strconv.ParseInt(s, 0, 64)
		return v, err
	case kUint:
		v, err := strconv.ParseUint(s, 0, strconv.IntSize)
		return uint(v), err
	case kUint64:
		v, err := strconv.ParseUint(s, 0, 64)
		return v, err
	case kString:
		return s, nil
	case kFloat:
		v, err := strconv.ParseFloat(s, 64)
		return v, err
	case kDur:
		v, err := time.ParseDuration(s)
		return v, err
	case kBytes:
		v, err := base64.StdEncoding.DecodeString(s)
		return v, err
	}
	panic("kind")
}

// refParseG: reference parser for a table-built struct. o.vals holds the expected field values.
func refParseG(argv []string, l *layout, fl files) (o outcome) {
	n := len(l.names)
	set := make([]bool, n)
	text := make([]string, n)
	if !scan(argv, l.index, l.kinds, set, text, &o) {
		return o
	}
	// values: command line ?: JSON file ?: tag default
	o.vals = make([]any, len(l.fields))
	for i, f := range l.fields {
		o.vals[i] = f.defVal
	}
	if fc := l.fConfig(); set[fc] && text[fc] != "" {
		if text[fc] != fl.valid {
			o.class = "config-file"
			return o
		}
		for i, f := range l.fields {
			if f.jsonVal != nil {
				o.vals[i] = f.jsonVal
			}
		}
		o.loaded = true
	}
	for fi := 0; fi < n; fi++ {
		if !set[fi] {
			continue
		}
		if fi == l.fConfig() {
			continue
		}
		v, err := parseText(l.kinds[fi], text[fi])
		if err != nil {
			o.class = "bad-value:" + l.names[fi]
			return o
		}
		if fi == l.fHelp() {
			o.usage = v.(bool)
		} else {
			o.vals[fi] = v
		}
	}
	return o
}

type realResultG struct {
	panicked string
	newErr   error
	err      error
	args     []string
	usage    bool
	root     reflect.Value

	// second Parse call on the same FlagSet, see secondVector
	second      bool
	secondPanic string
	secondErr   error
	args2       []string
	usage2      bool
	vals1       []any // field values after the first call

	// retry after a first Parse that returned an error, see retryVectors
	retry      bool
	retryPanic string
	retryErr   error
	args0      []string
	usage0     bool
	vals0      []any
}

func runRealG(argv []string, l *layout) (r realResultG) {
	defer func() {
		if p := recover(); p != nil {
			r.panicked = fmt.Sprint(p)
		}
	}()
	ptr := reflect.New(l.typ)
	r.root = ptr.Elem()
	fs, err := config.NewFlagSet(ptr.Interface())
	if err != nil {
		r.newErr = err
		return r
	}
	snapshot := func() []any {
		v := make([]any, len(l.fields))
		for i := range l.fields {
			v[i] = r.root.FieldByIndex(l.fidx[i]).Interface()
		}
		return v
	}
	if r.err = fs.Parse(argv); r.err != nil {
		r.args0, r.usage0, r.vals0 = fs.Args(), fs.ShowUsage(), snapshot()
		func() {
			defer func() {
				if p := recover(); p != nil {
					r.retryPanic = fmt.Sprint(p)
				}
			}()
			r.retry = true
			r.retryErr = fs.Parse(append([]string(nil), retryVectors[retryIndex(argv)]...))
		}()
		r.args2, r.usage2 = fs.Args(), fs.ShowUsage()
		return r
	}
	r.args = fs.Args()
	r.usage = fs.ShowUsage()
	r.vals1 = snapshot()
	func() {
		defer func() {
			if p := recover(); p != nil {
				r.secondPanic = fmt.Sprint(p)
			}
		}()
		r.second = true
		r.secondErr = fs.Parse(append([]string(nil), secondVector...))
	}()
	r.args2, r.usage2 = fs.Args(), fs.ShowUsage()
	return r
}

func sameValue(k kind, want, got any) bool {
	switch k {
	case kFloat:
		return sameFloat(want.(float64), got.(float64))
	case kBytes:
		return bytes.Equal(want.([]byte), got.([]byte))
	}
	return want == got
}

func (l *layout) showVals(get func(i int) any) string {
	var sb strings.Builder
	sb.WriteByte('{')
	for i := range l.fields {
		if i > 0 {
			sb.WriteByte(' ')
		}
		v := get(i)
		switch l.kinds[i] {
		case kString:
			fmt.Fprintf(&sb, "%s:%q", l.names[i], v)
		case kBytes:
			fmt.Fprintf(&sb, "%s:%q", l.names[i], v)
		default:
			fmt.Fprintf(&sb, "%s:%v", l.names[i], v)
		}
		if sb.Len() > 1500 {
			sb.WriteString(" ...")
			break
		}
	}
	sb.WriteByte('}')
	return sb.String()
}

func (l *layout) describe(o *outcome) string {
	if o.class != "" {
		return "error " + o.class
	}
	return fmt.Sprintf("Args=%q ShowUsage=%v cfg=%s", clipArgs(o.args), o.usage, l.showVals(func(i int) any { return o.vals[i] }))
}

func clipArgs(a []string) []string {
	if len(a) > 8 {
		return append(append([]string(nil), a[:8]...), fmt.Sprintf("... %d in total", len(a)))
	}
	return a
}

// judgeG: the same comparisons, in the same order, as judge.
func judgeG(l *layout, o *outcome, r *realResultG, argvModel, argvReal []string) (kind, expected, observed string) {
	got := func(i int) any {
		if r.vals1 != nil {
			return r.vals1[i]
		}
		return r.root.FieldByIndex(l.fidx[i]).Interface()
	}
	switch {
	case r.panicked != "":
		return "panic", "no panic (model: " + l.describe(o) + ")", "panic: " + r.panicked
	case r.newErr != nil:
		return "newflagset-error", "NewFlagSet = nil error", r.newErr.Error()
	case o.class != "" && r.err == nil:
		return "accepted-bad:" + o.class, "Parse returns an error (" + o.class + ")",
			fmt.Sprintf("nil; Args=%q ShowUsage=%v cfg=%s", clipArgs(r.args), r.usage, l.showVals(got))
	case o.class == "" && r.err != nil:
		return "rejected-good", "nil; " + l.describe(o), "error: " + r.err.Error()
	case o.class != "":
		if r.retry {
			return judgeRetryG(l, r, argvReal)
		}
		return "", "", ""
	case !sameStrings(o.args, r.args):
		return "args-differ", fmt.Sprintf("Args()=%q", clipArgs(o.args)), fmt.Sprintf("Args()=%q", clipArgs(r.args))
	case !sameStrings(argvReal, argvModel):
		return "argv-modified", "the caller's slice is left as it was", fmt.Sprintf("%q", clipArgs(argvReal))
	case o.usage != r.usage:
		return "usage-differ", fmt.Sprintf("ShowUsage()=%v", o.usage), fmt.Sprintf("ShowUsage()=%v", r.usage)
	}
	for i := range l.fields {
		if !sameValue(l.kinds[i], o.vals[i], got(i)) {
			return "field-differ:" + l.names[i], "cfg=" + l.showVals(func(i int) any { return o.vals[i] }), "cfg=" + l.showVals(got)
		}
	}
	if r.second {
		wantArgs, what := o.args, "refused second Parse"
		if r.secondErr == nil {
			wantArgs, what = secondArgs, "accepted second Parse"
		}
		what = fmt.Sprintf("after the %s(%q): ", what, secondVector)
		got2 := func(i int) any { return r.root.FieldByIndex(l.fidx[i]).Interface() }
		switch {
		case r.secondPanic != "":
			return "second-parse:panic", "no panic", "panic: " + r.secondPanic
		case !sameStrings(wantArgs, r.args2):
			return "second-parse:args-differ", what + fmt.Sprintf("Args()=%q", clipArgs(wantArgs)), fmt.Sprintf("Args()=%q", clipArgs(r.args2))
		case o.usage != r.usage2:
			return "second-parse:usage-differ", what + fmt.Sprintf("ShowUsage()=%v", o.usage), fmt.Sprintf("ShowUsage()=%v", r.usage2)
		}
		for i := range l.fields {
			if !sameValue(l.kinds[i], o.vals[i], got2(i)) {
				return "second-parse:field-differ:" + l.names[i], what + "cfg=" + l.showVals(func(i int) any { return o.vals[i] }), "cfg=" + l.showVals(got2)
			}
		}
	}
	return "", "", ""
}

// judgeRetryG: the same rule as judgeRetry.
func judgeRetryG(l *layout, r *realResultG, argv []string) (kind, expected, observed string) {
	ri := retryIndex(argv)
	what := fmt.Sprintf("after Parse returned an error, Parse(%q) ", retryVectors[ri])
	m := &l.retry[ri]
	got2 := func(i int) any { return r.root.FieldByIndex(l.fidx[i]).Interface() }
	switch {
	case r.retryPanic != "":
		return "retry-parse:panic", what + "does not panic", "panic: " + r.retryPanic
	case r.retryErr != nil && ri == retryInvalid:
		return "", "", ""
	case r.retryErr != nil:
		switch {
		case !sameStrings(r.args0, r.args2):
			return "retry-parse:refused-but-changed:Args", what + fmt.Sprintf("is refused and leaves Args()=%q", clipArgs(r.args0)), fmt.Sprintf("Args()=%q", clipArgs(r.args2))
		case r.usage0 != r.usage2:
			return "retry-parse:refused-but-changed:ShowUsage", what + fmt.Sprintf("is refused and leaves ShowUsage()=%v", r.usage0), fmt.Sprintf("ShowUsage()=%v", r.usage2)
		}
		for i := range l.fields {
			if !sameValue(l.kinds[i], r.vals0[i], got2(i)) {
				return "retry-parse:refused-but-changed:" + l.names[i], what + "is refused and leaves cfg=" + l.showVals(func(i int) any { return r.vals0[i] }), "cfg=" + l.showVals(got2)
			}
		}
		return "", "", ""
	case m.class != "":
		return "retry-parse:accepted-bad:" + m.class, what + "returns an error (" + m.class + ")", "nil"
	case !sameStrings(m.args, r.args2):
		return "retry-parse:args-differ", what + fmt.Sprintf("= nil with Args()=%q", m.args), fmt.Sprintf("Args()=%q", clipArgs(r.args2))
	case m.usage != r.usage2:
		return "retry-parse:usage-differ", what + fmt.Sprintf("= nil with ShowUsage()=%v", m.usage), fmt.Sprintf("ShowUsage()=%v", r.usage2)
	}
	for i := range l.fields {
		if !sameValue(l.kinds[i], m.vals[i], got2(i)) {
			return "retry-parse:field-differ:" + l.names[i], what + "= nil with cfg=" + l.showVals(func(i int) any { return m.vals[i] }) + " (nothing of the rejected vector survives)", "cfg=" + l.showVals(got2)
		}
	}
	return "", "", ""
}

func evalG(tokens []string, fx *fixture, l *layout) (kind, expected, observed string, o outcome) {
	valid := fx.validOf(l)
	argvModel := fx.substWith(tokens, valid)
	argvReal := fx.substWith(tokens, valid)
	o = refParseG(argvModel, l, files{valid: valid})
	r := runRealG(argvReal, l)
	kind, expected, observed = judgeG(l, &o, &r, argvModel, argvReal)
	return kind, expected, observed, o
}

// ---------------------------------------------------------------------------------------
// layout "names": few types, many confusable names, nesting four levels deep

func b64(s string) []byte { return []byte(s) }

var layoutNames = (&layout{
	id: "names",
	fields: []fieldSpec{
		// prefixes of each other
		{path: []string{"A"}, name: "a", kind: kBool, def: "false", defVal: false, jsonVal: true},
		{path: []string{"Ab"}, name: "ab", kind: kInt, def: "1", defVal: int(1)},
		{path: []string{"Abc"}, name: "abc", kind: kString, def: "x", defVal: "x", jsonVal: "jabc"},
		{path: []string{"Abcd"}, name: "abcd", kind: kUint, def: "", defVal: uint(0), jsonVal: uint(44)},
		// differ only in case
		{path: []string{"Lower"}, name: "n", kind: kInt, def: "3", defVal: int(3), jsonVal: int(30)},
		{path: []string{"Upper"}, name: "N", kind: kInt, def: "4", defVal: int(4)},
		{path: []string{"Verb"}, name: "v", kind: kBool, def: "", defVal: false},
		{path: []string{"VerbUp"}, name: "V", kind: kBool, def: "true", defVal: true},
		// around the built-in names
		{path: []string{"Hel"}, name: "hel", kind: kString, def: "", defVal: ""},
		{path: []string{"Helpx"}, name: "helpx", kind: kBool, def: "", defVal: false},
		{path: []string{"HelpUp"}, name: "Help", kind: kBool, def: "", defVal: false},
		{path: []string{"HelpDash"}, name: "help-", kind: kString, def: "hd", defVal: "hd"},
		{path: []string{"Confi"}, name: "confi", kind: kString, def: "", defVal: ""},
		{path: []string{"Config2"}, name: "config2", kind: kString, def: "c2", defVal: "c2", jsonVal: "jc2"},
		{path: []string{"ConfigUp"}, name: "Config", kind: kString, def: "", defVal: ""},
		{path: []string{"ConfigDash"}, name: "config-", kind: kInt, def: "7", defVal: int(7)},
		// '-' versus '_' versus '.'
		{path: []string{"Db", "Host"}, name: "db-host", kind: kString, def: "h1", defVal: "h1", jsonVal: "jh1"},
		{path: []string{"Db", "HostU"}, name: "db_host", kind: kString, def: "h2", defVal: "h2"},
		{path: []string{"Db", "HostD"}, name: "db.host", kind: kString, def: "h3", defVal: "h3"},
		{path: []string{"Db", "HostN"}, name: "dbhost", kind: kString, def: "h4", defVal: "h4"},
		{path: []string{"Db", "Port"}, name: "db-port", kind: kUint, def: "5432", defVal: uint(5432), jsonVal: uint(1)},
		{path: []string{"Db", "Pool", "Max"}, name: "db-pool-max", kind: kUint64, def: "10", defVal: uint64(10)},
		{path: []string{"Db", "Pool", "Idle"}, name: "db-pool-idle", kind: kDur, def: "1m30s", defVal: 90 * time.Second, jsonVal: 5 * time.Second},
		{path: []string{"Db", "Pool", "Deep", "Key"}, name: "db-pool-deep-key", kind: kBytes, def: "a2V5", defVal: b64("key"), jsonVal: b64("jkey")},
		{path: []string{"Db", "Pool", "Deep", "Ratio"}, name: "db-pool-deep-ratio", kind: kFloat, def: "0.25", defVal: 0.25},
		{path: []string{"Db", "Pool", "Deep", "Leaf", "On"}, name: "leaf-on", kind: kBool, def: "true", defVal: true, jsonVal: false},
		{path: []string{"Db", "Pool", "Deep", "Leaf", "I64"}, name: "leaf-i64", kind: kInt64, def: "-9", defVal: int64(-9), jsonVal: int64(-90)},
		{path: []string{"Db", "Pool", "Deep", "Leaf", "U64"}, name: "leaf-u64", kind: kUint64, def: "", defVal: uint64(0)},
		// names that look like values or contain unusual characters
		{path: []string{"Five"}, name: "5", kind: kInt, def: "55", defVal: int(55)},
		{path: []string{"One"}, name: "1", kind: kString, def: "one", defVal: "one"},
		{path: []string{"TrailDash"}, name: "x-", kind: kInt, def: "", defVal: int(0)},
		{path: []string{"MidDash"}, name: "x--y", kind: kString, def: "", defVal: ""},
		{path: []string{"Utf"}, name: "é", kind: kString, def: "ü", defVal: "ü"},
		{path: []string{"Space"}, name: "a b", kind: kString, def: "s p", defVal: "s p"},
		{path: []string{"Plus"}, name: "+", kind: kInt, def: "", defVal: int(0)},
		{path: []string{"Colon"}, name: "k:v", kind: kString, def: "a,b", defVal: "a,b"}, // pipe syntax (comma in the default)
		{path: []string{"Comma"}, name: "c,d", kind: kString, def: "", defVal: ""},       // pipe syntax (comma in the name)
		// no tag: the lower-cased field name
		{path: []string{"Plain"}, kind: kInt, defVal: int(0), jsonVal: int(12)},
		{path: []string{"Inner", "Value"}, kind: kString, defVal: ""},
		{path: []string{"Inner", "More", "Flagless"}, kind: kBool, defVal: false},
	},
	canary: []string{"-a", "--help", "-V", "-n", "5", "-N=6", "--db-host=a=b", "-5", "9", "rest", "--"},
}).build()

// layout "wide": 120 fields of all nine types, flag names w0..w119 (w1 is a prefix of w10..w19
// and w100..w119), nested one to six levels deep.
var layoutWide = func() *layout {
	l := &layout{id: "wide"}
	levels := []string{"L1", "L2", "L3", "L4", "L5", "L6"}
	for i := 0; i < 120; i++ {
		k := kind(i % 9)
		depth := i % 7 // 0 = root
		path := append(append([]string(nil), levels[:depth]...), fmt.Sprintf("F%03d", i))
		f := fieldSpec{path: path, name: "w" + strconv.Itoa(i), kind: k}
		j := i%3 == 0 // mentioned in the JSON file
		switch k {
		case kBool:
			f.def, f.defVal = strconv.FormatBool(i%2 == 0), i%2 == 0
			if j {
				f.jsonVal = i%2 != 0
			}
		case kInt:
			f.def, f.defVal = strconv.Itoa(-i), int(-i)
			if j {
				f.jsonVal = int(1000 + i)
			}
		case kInt64:
			f.def, f.defVal = strconv.Itoa(i*1000), int64(i*1000)
			if j {
				f.jsonVal = int64(-1000 - i)
			}
		case kUint:
			f.def, f.defVal = strconv.Itoa(i), uint(i)
			if j {
				f.jsonVal = uint(2000 + i)
			}
		case kUint64:
			f.def, f.defVal = strconv.Itoa(i)+"000000000000", uint64(i)*1000000000000
			if j {
				f.jsonVal = uint64(3000 + i)
			}
		case kString:
			f.def, f.defVal = "s"+strconv.Itoa(i), "s"+strconv.Itoa(i)
			if j {
				f.jsonVal = "j" + strconv.Itoa(i)
			}
		case kFloat:
			f.def, f.defVal = strconv.Itoa(i)+".5", float64(i)+0.5
			if j {
				f.jsonVal = float64(i) + 0.25
			}
		case kDur:
			f.def, f.defVal = strconv.Itoa(i)+"s", time.Duration(i)*time.Second
			if j {
				f.jsonVal = time.Duration(i) * time.Minute
			}
		case kBytes:
			f.def, f.defVal = base64.StdEncoding.EncodeToString([]byte("b"+strconv.Itoa(i))), []byte("b"+strconv.Itoa(i))
			if j {
				f.jsonVal = []byte("j" + strconv.Itoa(i))
			}
		}
		l.fields = append(l.fields, f)
	}
	l.canary = []string{"-w0", "--help", "-w1", "7", "--w10=8", "-w113=a=b", "-w117", "rest", "--"}
	return l.build()
}()

var layouts = map[string]*layout{"names": layoutNames, "wide": layoutWide}
