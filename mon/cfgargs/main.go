// Monitor cfgargs (C10): FlagSet.Parse reads the argument vector by the documented grammar.
//
// Oracle: the reference parser in model.go, run on the same vector as the real
// config.NewFlagSet(&Cfg{}).Parse(argv); compared are error-vs-nil and, when both accept,
// Args() (same elements, same order), ShowUsage() and every field value. A panic out of
// NewFlagSet/Parse is a violation. See DESIGN.md §3 C10.
package main

import (
	"bytes"
	"encoding/json"
	"fmt"
	"math"
	"math/rand"
	"os"
	"path/filepath"
	"strconv"
	"strings"

	"github.com/whoisnian/glb/config"

	"verif/internal/drv"
)

// Case is one replayable argument vector. Tokens are stored in strconv.QuoteToASCII form
// (tokens may be arbitrary bytes). The substrings @VALID@, @MISSING@ and @BADJSON@ inside a
// token stand for the path of the valid JSON file, of a file that does not exist and of a
// file with invalid JSON content in the per-process scratch directory.
type Case struct {
	Layout string   `json:"layout,omitempty"` // "" = Cfg; else the table-built struct of that name (layout.go)
	Argv   []string `json:"argv"`             // shrunk vector (quoted tokens)
	Orig   []string `json:"orig,omitempty"`   // vector as generated, when it was shrunk (omitted when very long)
	// Pre: vectors parsed (each with its own fresh FlagSet) in the same process before Argv.
	// Only set for state-leak violations, where Argv is the canary vector.
	Pre [][]string `json:"pre,omitempty"`
}

func quoteTokens(t []string) []string {
	q := make([]string, len(t))
	for i, s := range t {
		q[i] = strconv.QuoteToASCII(s)
	}
	return q
}

func unquoteTokens(q []string) ([]string, error) {
	t := make([]string, len(q))
	for i, s := range q {
		u, err := strconv.Unquote(s)
		if err != nil {
			return nil, fmt.Errorf("token %d (%s): %v", i, s, err)
		}
		t[i] = u
	}
	return t, nil
}

// fixture is the per-process environment: an empty working directory, an empty HOME, no
// CFG_* variables, and the three file paths.
type fixture struct {
	dir                 string
	valid, missing, bad string
	validL              map[string]string // valid JSON file per table-built layout
}

func setup() (*fixture, error) {
	for _, kv := range os.Environ() {
		if strings.HasPrefix(kv, "CFG_") {
			k, _, _ := strings.Cut(kv, "=")
			os.Unsetenv(k)
		}
	}
	dir, err := os.MkdirTemp("", "cfgargs-")
	if err != nil {
		return nil, err
	}
	fx := &fixture{dir: dir, valid: filepath.Join(dir, "valid.json"), missing: filepath.Join(dir, "missing.json"), bad: filepath.Join(dir, "bad.json")}
	if err = os.WriteFile(fx.valid, []byte(validJSON), 0o644); err != nil {
		return nil, err
	}
	if err = os.WriteFile(fx.bad, []byte(`{"N": 70,`), 0o644); err != nil {
		return nil, err
	}
	fx.validL = map[string]string{}
	for id, l := range layouts {
		if l.typ == nil {
			continue
		}
		fx.validL[id] = filepath.Join(dir, "valid-"+id+".json")
		if err = os.WriteFile(fx.validL[id], []byte(l.json), 0o644); err != nil {
			return nil, err
		}
	}
	for _, d := range []string{"cwd", "home"} {
		if err = os.Mkdir(filepath.Join(dir, d), 0o755); err != nil {
			return nil, err
		}
	}
	if err = os.Chdir(filepath.Join(dir, "cwd")); err != nil {
		return nil, err
	}
	os.Setenv("HOME", filepath.Join(dir, "home"))
	return fx, nil
}

func (fx *fixture) cleanup() {
	os.Chdir("/")
	os.RemoveAll(fx.dir)
}

// subst replaces the path placeholders; it returns a fresh slice in every case so that the
// slice handed to Parse is never shared with the model.
func (fx *fixture) subst(tokens []string) []string { return fx.substWith(tokens, fx.valid) }

func (fx *fixture) validOf(l *layout) string { return fx.validL[l.id] }

func (fx *fixture) substWith(tokens []string, valid string) []string {
	out := make([]string, len(tokens))
	for i, t := range tokens {
		if strings.IndexByte(t, '@') >= 0 {
			t = strings.ReplaceAll(t, "@VALID@", valid)
			t = strings.ReplaceAll(t, "@MISSING@", fx.missing)
			t = strings.ReplaceAll(t, "@BADJSON@", fx.bad)
		}
		out[i] = t
	}
	return out
}

type realResult struct {
	panicked string
	newErr   error
	err      error
	args     []string
	usage    bool
	cfg      Cfg

	// after a second Parse call on the same FlagSet (only made when the first returned nil)
	second      bool
	secondPanic string
	secondErr   error
	args2       []string
	usage2      bool
	cfg2        Cfg

	// after a retry (first Parse returned an error): state before (0) and after (2) the retry
	retry      bool
	retryPanic string
	retryErr   error
	args0      []string
	usage0     bool
	cfg0       Cfg
}

// secondVector is handed to a second Parse call on a FlagSet whose first Parse returned nil.
// Parse "must be called once": a refused second call has to leave Args(), ShowUsage() and the
// fields as the first call left them. (A library version that accepts a second call is judged
// by the second vector, which has no flags: Args() = its tail, nothing else changes.)
var secondVector = []string{"--", "second", "-x"}
var secondArgs = secondVector[1:]

// retryVectors: after a first Parse that returned an ERROR, Parse is called again with one of
// these (chosen by the first vector). Whether a failed Parse may be retried is the library's
// choice: when the retry is refused too, it only must not panic and (for the valid vectors)
// must leave Args(), ShowUsage() and the fields as they were; when it is accepted, the result
// must be exactly what the grammar says for the retry vector alone on a fresh struct - nothing
// of the rejected first vector may survive. The last vector is invalid and must never be
// accepted. All of them mean the same for every workload struct (help is always defined).
var retryVectors = [4][]string{
	{"--", "second", "-x"},
	{"--help=false", "second", "-x"},
	{"-help", "--", "-y"},
	{"-no-such-flag-zz=1"},
}

const retryInvalid = 3

func retryIndex(argv []string) int {
	h := len(argv)
	for _, t := range argv {
		h = h*31 + len(t)
	}
	return h & 3
}

// what the reference parser says for the retry vectors alone (Cfg)
var retryModels = func() (m [4]outcome) {
	for i, v := range retryVectors {
		m[i] = refParse(v, files{})
	}
	return m
}()

func runReal(argv []string) (r realResult) {
	defer func() {
		if p := recover(); p != nil {
			r.panicked = fmt.Sprint(p)
		}
	}()
	fs, err := config.NewFlagSet(&r.cfg)
	if err != nil {
		r.newErr = err
		return r
	}
	if r.err = fs.Parse(argv); r.err != nil {
		r.args0, r.usage0, r.cfg0 = fs.Args(), fs.ShowUsage(), r.cfg
		func() {
			defer func() {
				if p := recover(); p != nil {
					r.retryPanic = fmt.Sprint(p)
				}
			}()
			r.retry = true
			r.retryErr = fs.Parse(append([]string(nil), retryVectors[retryIndex(argv)]...))
		}()
		r.args2, r.usage2, r.cfg2 = fs.Args(), fs.ShowUsage(), r.cfg
		return r
	}
	r.args = fs.Args()
	r.usage = fs.ShowUsage()
	first := r.cfg // the By slice is never written in place
	func() {
		defer func() {
			if p := recover(); p != nil {
				r.secondPanic = fmt.Sprint(p)
			}
		}()
		r.second = true
		r.secondErr = fs.Parse(append([]string(nil), secondVector...))
	}()
	r.args2, r.usage2, r.cfg2 = fs.Args(), fs.ShowUsage(), r.cfg
	r.cfg = first
	return r
}

func sameFloat(a, b float64) bool {
	return a == b && math.Signbit(a) == math.Signbit(b) || math.IsNaN(a) && math.IsNaN(b)
}

// diffCfg names the first field that differs ("" = equal).
func diffCfg(want, got *Cfg) string {
	switch {
	case want.B != got.B:
		return "B"
	case want.N != got.N:
		return "N"
	case want.I64 != got.I64:
		return "I64"
	case want.UI != got.UI:
		return "UI"
	case want.U64 != got.U64:
		return "U64"
	case want.S != got.S:
		return "S"
	case !sameFloat(want.F, got.F):
		return "F"
	case want.D != got.D:
		return "D"
	case !bytes.Equal(want.By, got.By):
		return "By"
	case want.LB != got.LB:
		return "LB"
	case want.LN != got.LN:
		return "LN"
	case want.LS != got.LS:
		return "LS"
	case want.LU != got.LU:
		return "LU"
	}
	return ""
}

func sameStrings(a, b []string) bool {
	if len(a) != len(b) {
		return false
	}
	for i := range a {
		if a[i] != b[i] {
			return false
		}
	}
	return true
}

// eval runs the model and the real parser on one vector (placeholder form). kind is "" on
// agreement, else the class of the disagreement.
// envNames: the CFG_* variable of every flag of Cfg, as the library itself prints them in its usage
// text (so the naming rule is not re-implemented here); nil when they cannot be told apart.
var envNames = func() map[int]string {
	var c Cfg
	fs, err := config.NewFlagSet(&c)
	if err != nil {
		return nil
	}
	var buf bytes.Buffer
	fs.PrintUsage(&buf, false)
	m := map[int]string{}
	for _, ln := range strings.Split(buf.String(), "\n") {
		f := strings.Fields(ln)
		if len(f) < 2 || !strings.HasPrefix(f[0], "-") {
			continue
		}
		fi, ok := flagIndex[f[0][1:]]
		if !ok {
			continue
		}
		for _, w := range f[1:] {
			if strings.HasPrefix(w, "[CFG_") && strings.HasSuffix(w, "]") {
				m[fi] = w[1 : len(w)-1]
			}
		}
	}
	return m
}()

// evalEnvJunk: the vector once more, in an environment whose CFG_* variables of the flags the vector
// itself assigns hold text that cannot be parsed. The command line outranks the environment and only
// the effective value has to parse, so a vector the grammar accepts is accepted all the same, with the
// same result. (Nothing is said here about a junk variable of a flag the vector does not assign.)
func evalEnvJunk(tokens []string, fx *fixture, o *outcome) (kind, expected, observed string, did bool) {
	if o.class != "" || o.set == nil || envNames == nil {
		return
	}
	var names []string
	for fi, on := range o.set {
		if !on || fi == fHelp || fi == fConfig {
			continue
		}
		if n := envNames[fi]; n != "" {
			names = append(names, n)
		}
	}
	if len(names) == 0 {
		return
	}
	for i, n := range names {
		os.Setenv(n, []string{"junk", "1x", "--", "0x", "%%%", "t r u e"}[(i+len(tokens))%6])
	}
	argvModel, argvReal := fx.subst(tokens), fx.subst(tokens)
	r := runReal(argvReal)
	for _, n := range names {
		os.Unsetenv(n)
	}
	kind, expected, observed = judge(o, &r, argvModel, argvReal)
	if kind != "" {
		kind = "env-junk:" + kind
		expected = "with unparsable text in " + strings.Join(names, ", ") + " (flags the vector assigns itself): " + expected
	}
	return kind, expected, observed, true
}

func eval(tokens []string, fx *fixture) (kind, expected, observed string, o outcome) {
	argvModel := fx.subst(tokens)
	argvReal := fx.subst(tokens)
	o = refParse(argvModel, files{valid: fx.valid})
	r := runReal(argvReal)
	kind, expected, observed = judge(&o, &r, argvModel, argvReal)
	return kind, expected, observed, o
}

// judge compares the outcome of the model with what the real parser did.
func judge(op *outcome, rp *realResult, argvModel, argvReal []string) (kind, expected, observed string) {
	o, r := *op, *rp
	switch {
	case r.panicked != "":
		return "panic", "no panic (model: " + describe(o) + ")", "panic: " + r.panicked
	case r.newErr != nil:
		return "newflagset-error", "NewFlagSet(&Cfg{}) = nil error", r.newErr.Error()
	case o.class != "" && r.err == nil:
		return "accepted-bad:" + o.class, "Parse returns an error (" + o.class + ")",
			fmt.Sprintf("nil; Args=%q ShowUsage=%v cfg=%s", r.args, r.usage, showCfg(&r.cfg))
	case o.class == "" && r.err != nil:
		return "rejected-good", "nil; " + describe(o), "error: " + r.err.Error()
	case o.class != "":
		if r.retry {
			return judgeRetry(&r, argvReal)
		}
		return "", "", ""
	case !sameStrings(o.args, r.args):
		return "args-differ", fmt.Sprintf("Args()=%q", o.args), fmt.Sprintf("Args()=%q", r.args)
	case !sameStrings(argvReal, argvModel):
		return "argv-modified", fmt.Sprintf("the caller's slice still is %q", argvModel), fmt.Sprintf("%q", argvReal)
	case o.usage != r.usage:
		return "usage-differ", fmt.Sprintf("ShowUsage()=%v", o.usage), fmt.Sprintf("ShowUsage()=%v", r.usage)
	}
	if f := diffCfg(&o.cfg, &r.cfg); f != "" {
		return "field-differ:" + f, "cfg=" + showCfg(&o.cfg), "cfg=" + showCfg(&r.cfg)
	}
	if r.second {
		wantArgs, what := o.args, "refused second Parse"
		if r.secondErr == nil {
			wantArgs, what = secondArgs, "accepted second Parse"
		}
		what = fmt.Sprintf("after the %s(%q): ", what, secondVector)
		switch {
		case r.secondPanic != "":
			return "second-parse:panic", "no panic", "panic: " + r.secondPanic
		case !sameStrings(wantArgs, r.args2):
			return "second-parse:args-differ", what + fmt.Sprintf("Args()=%q", wantArgs), fmt.Sprintf("Args()=%q", r.args2)
		case o.usage != r.usage2:
			return "second-parse:usage-differ", what + fmt.Sprintf("ShowUsage()=%v", o.usage), fmt.Sprintf("ShowUsage()=%v", r.usage2)
		}
		if f := diffCfg(&o.cfg, &r.cfg2); f != "" {
			return "second-parse:field-differ:" + f, what + "cfg=" + showCfg(&o.cfg), "cfg=" + showCfg(&r.cfg2)
		}
	}
	return "", "", ""
}

// judgeRetry: the second Parse after a first Parse that returned an error (see retryVectors).
func judgeRetry(r *realResult, argv []string) (kind, expected, observed string) {
	ri := retryIndex(argv)
	what := fmt.Sprintf("after Parse returned an error, Parse(%q) ", retryVectors[ri])
	m := &retryModels[ri]
	switch {
	case r.retryPanic != "":
		return "retry-parse:panic", what + "does not panic", "panic: " + r.retryPanic
	case r.retryErr != nil && ri == retryInvalid:
		return "", "", ""
	case r.retryErr != nil:
		// refused: nothing may have changed
		switch {
		case !sameStrings(r.args0, r.args2):
			return "retry-parse:refused-but-changed:Args", what + fmt.Sprintf("is refused and leaves Args()=%q", r.args0), fmt.Sprintf("Args()=%q", r.args2)
		case r.usage0 != r.usage2:
			return "retry-parse:refused-but-changed:ShowUsage", what + fmt.Sprintf("is refused and leaves ShowUsage()=%v", r.usage0), fmt.Sprintf("ShowUsage()=%v", r.usage2)
		}
		if f := diffCfg(&r.cfg0, &r.cfg2); f != "" {
			return "retry-parse:refused-but-changed:" + f, what + "is refused and leaves cfg=" + showCfg(&r.cfg0), "cfg=" + showCfg(&r.cfg2)
		}
		return "", "", ""
	case m.class != "":
		return "retry-parse:accepted-bad:" + m.class, what + "returns an error (" + m.class + ")", "nil"
	case !sameStrings(m.args, r.args2):
		return "retry-parse:args-differ", what + fmt.Sprintf("= nil with Args()=%q", m.args), fmt.Sprintf("Args()=%q", r.args2)
	case m.usage != r.usage2:
		return "retry-parse:usage-differ", what + fmt.Sprintf("= nil with ShowUsage()=%v", m.usage), fmt.Sprintf("ShowUsage()=%v", r.usage2)
	}
	if f := diffCfg(&m.cfg, &r.cfg2); f != "" {
		return "retry-parse:field-differ:" + f, what + "= nil with cfg=" + showCfg(&m.cfg) + " (nothing of the rejected vector survives)", "cfg=" + showCfg(&r.cfg2)
	}
	return "", "", ""
}

func showCfg(c *Cfg) string {
	return fmt.Sprintf("{B:%v N:%d I64:%d UI:%d U64:%d S:%q F:%v D:%s By:%q LB:%v LN:%d LS:%q LU:%d}", c.B, c.N, c.I64, c.UI, c.U64, c.S, c.F, c.D, c.By, c.LB, c.LN, c.LS, c.LU)
}

func describe(o outcome) string {
	if o.class != "" {
		return "error " + o.class
	}
	return fmt.Sprintf("Args=%q ShowUsage=%v cfg=%s", o.args, o.usage, showCfg(&o.cfg))
}

func keyOf(kind string, tokens []string) string {
	q := quoteTokens(tokens)
	s := strings.ReplaceAll(strings.Join(q, ","), " ", `\x20`)
	s = longAliases.Replace(s) // the long flag names are abbreviated in keys (not in the case)
	kind = longAliases.Replace(kind)
	if len(s) > 200 {
		s = s[:200] + "..."
	}
	return kind + ":[" + s + "]"
}

var longAliases = strings.NewReplacer(nameLS, "<LS200>", nameLN, "<LN65>", nameLB, "<LB64>", nameLU, "<LU63>")

// evalL evaluates a vector against Cfg (lay == nil) or a table-built struct.
func evalL(tokens []string, fx *fixture, lay *layout) (kind, expected, observed string, o outcome) {
	switch lay {
	case nil:
		return eval(tokens, fx)
	case layoutFCL:
		return evalFCL(tokens, fx)
	}
	return evalG(tokens, fx, lay)
}

func keyOfL(lay *layout, kind string, tokens []string) string {
	if lay == layoutFCL {
		kind = "FromCommandLine/" + kind
	} else if lay != nil {
		kind = "layout-" + lay.id + "/" + kind
	}
	return keyOf(kind, tokens)
}

// shrink removes tokens as long as the same kind of disagreement remains, so that the
// violation key names a minimal vector: long vectors first lose whole chunks (halves,
// quarters, ...), then windows of 3, 2, 1 tokens are removed.
func shrink(tokens []string, kind string, fx *fixture, lay *layout, log *[][]string) []string {
	cur := append([]string(nil), tokens...)
	for c := len(cur) / 2; c >= 4 && len(cur) > 48; c /= 2 {
		for i := 0; i+c <= len(cur); {
			cand := append(append([]string(nil), cur[:i]...), cur[i+c:]...)
			if k, _, _, _ := evalL(cand, fx, lay); k == kind {
				cur = cand
			} else {
				i += c
			}
		}
	}
	if len(cur) > 400 {
		return cur // still huge: leave it
	}
	for changed := true; changed; {
		changed = false
		for w := 3; w >= 1; w-- { // windows of 3, 2, 1 tokens (a flag and its separate value go together)
			for i := 0; i+w <= len(cur); i++ {
				cand := append(append([]string(nil), cur[:i]...), cur[i+w:]...)
				if log != nil && len(*log) < 400 {
					*log = append(*log, quoteTokens(cand))
				}
				if k, _, _, _ := evalL(cand, fx, lay); k == kind {
					cur, changed = cand, true
					i--
				}
			}
		}
	}
	return cur
}

// runCase is what Replay executes: one recorded vector.
func runCase(cs Case, fx *fixture) (key, expected, observed string) {
	tokens, err := unquoteTokens(cs.Argv)
	if err != nil {
		return "", "", ""
	}
	lay := layouts[cs.Layout] // nil for ""
	kind, e, ob, _ := evalL(tokens, fx, lay)
	if kind == "" {
		return "", "", ""
	}
	return keyOfL(lay, kind, tokens), e, ob
}

// ---------------------------------------------------------------------------------------

type mon struct{}

func (mon) Name() string { return "cfgargs" }

func (mon) Level(string) (string, string) {
	return "exploration", "argument vectors run through the real NewFlagSet(&Cfg{9 types + 4 flags with 63/64/65/200-byte names})+Parse and through a reference parser of the documented grammar; compared: error-vs-nil, Args(), ShowUsage(), all 13 field values, no panic. " +
		"Exhaustive: every vector of length <= 5 (quick) / <= 6 (thorough, 17.9M) over the 16-token alphabet of DESIGN.md C10, plus every vector of length <= 3 (quick) / <= 4 (thorough) with one -config form (=valid file, =missing file, =invalid JSON, =empty, separate-token valid) inserted at every position; plus every vector of length <= 4 (quick) / <= 5 (thorough) over a second 16-token alphabet that mixes the long-named flags in all spellings (-n=v, --n=v, -n v, bare bool, '=' inside the value, near-miss names) with 7 tokens of the first; " +
		"random: seeded vectors of <= 12 tokens from well-formed flags of all 13 flags (9 types, long names) in all 4 spellings, near-misses, repeated flags, bool+stray value, unknown names, flag-like values and arbitrary byte strings (quick 1e6, thorough 1e7). " +
		"After every accepted Parse a second Parse is called on the same FlagSet: when it is refused, Args(), ShowUsage() and the fields must be those of the first call. " +
		"After every Parse that returned an error, Parse is called again with one of 4 fixed vectors (3 valid, 1 invalid): refused = no panic and nothing changed; accepted = exactly the result of that vector alone on a fresh struct. " +
		"Both tiers also run near-miss names: for every defined flag name N of Cfg and of the structs 'case' and 'names' 29 derived names (no-N, no_N, noN, with-N, enable-N, disable-N, N-, N_, N., N=, N1, -N, upper/lower/title-cased N, '-'/'_' swapped, truncated, doubled, blank-padded) bare, with =value, with a separate value, with 1 and 2 dashes, alone / behind a valid flag / followed by a tail. " +
		"Both tiers also run: a struct with case-sensitive tag names (n/N, Port, dbHost, X, untagged fields; exhaustive length <= 3 over 16 tokens + 5000 random vectors) and the entry point FromCommandLine with os.Args set in the shard's process (every vector of length <= 3 over the first and <= 2 over the second alphabet + 2e4 (quick) / 4e5 (thorough) random vectors, vectors mentioning help left out), judged by the same reference parser. " +
		"Thorough only: (a) exhaustive sweeps of length <= 5 over four further alphabets for Cfg - 'ints' (24 tokens: unsigned flags with negative / >2^63 / hex / octal / underscore values, +5, ' 5', '5 ', values in the next token), 'forms' (24: float, duration, bool, base64 text forms valid and invalid, so that repeated flags occur invalid-then-valid and valid-then-invalid), 'edges' (24: '--', '-', the empty token, '=' at every position, control bytes, invalid UTF-8), 'config' (20: -config in every spelling and position, repeated, missing file, invalid JSON, empty, value in the next token); " +
		"(b) two further structs built with reflect.StructOf from the same table as the model's flag set: 'names' (40 flags nested up to 5 levels: names that are prefixes of each other, differ only in case or in '-'/'_'/'.', neighbours of help/config, names like 5, 1, x-, a b, c,d, untagged fields; exhaustive length <= 4 over 32 tokens + 3e6 random vectors) and 'wide' (120 flags w0..w119 of all 9 types nested up to 6 levels; exhaustive length <= 4 over 16 tokens + 1.5e6 random vectors of <= 24 tokens); " +
		"(c) 1.6e7 random vectors of <= 16 tokens from a richer token grammar (0-3 dashes, mutated names, '=' at a random position, '==', wide pools of valid/invalid text per type, chosen invalid/valid repetitions); (d) 4096 vectors of up to 10^4 tokens in 9 shapes (thousands of repeated flags then args, bad-then-good, good-then-bad-last, '--' then flag-like tokens, missing value / undefined flag at the very end, positional only, one flag repeated, -config repeated). Counters cases_<workload>/accepted_<workload>, long_shape_*, max.vector_tokens. " +
		"After every case a fixed canary vector is parsed again with a fresh FlagSet (Parse must not depend on earlier Parse calls in the process). " +
		"distinct_nontrivial = distinct parser paths: the tokens the reference parser looked at (up to and including the token it stopped or failed on), counted only when at least one token was a flag token"
}

func (mon) Assumptions(string) []string {
	return []string{
		"the text syntax of typed values is that of Go's strconv/time/base64 (ParseBool, ParseInt/ParseUint base 0, ParseFloat, ParseDuration, StdEncoding), as in package flag; the model uses these functions",
		"empty value text means the zero value of the type (glb's documented deviation from package flag)",
		"only the effective (last) text of a repeated flag has to parse: the statement lists 'unparsable effective value' as the error and 'last occurrence wins' as the rule",
		"a non-empty effective -config text that is not the path of the prepared valid file (missing file, invalid JSON, directory, arbitrary token in an empty working directory with an empty HOME) must yield an error",
		"no CFG_* environment variable is set in the child (unset at start), so the environment source is silent",
	}
}

type shardArgs struct {
	Kind    string `json:"kind"`              // "exh" | "rand" | thorough only: "sweep" | "rand2" | "long"
	Alpha   string `json:"alpha,omitempty"`   // sweep: name of the themed alphabet (gen2.go)
	Layout  string `json:"layout,omitempty"`  // sweep, rand2: "" = Cfg, else a table-built struct (layout.go)
	MaxTok  int    `json:"max_tok,omitempty"` // rand2: longest vector; long: vector length
	MaxLen  int    `json:"max_len,omitempty"`
	MaxLen2 int    `json:"max_len2,omitempty"` // second sweep (long-named flags)
	CfgLen  int    `json:"cfg_len,omitempty"`
	Part    int    `json:"part"`
	Parts   int    `json:"parts"`
	Count   int    `json:"count,omitempty"`
}

func (mon) Plan(prop, tier string, seed int64) []drv.Shard {
	var out []drv.Shard
	maxLen, maxLen2, cfgLen, nrand, parts := 5, 4, 3, 1000000, 16
	if tier == "thorough" {
		maxLen, maxLen2, cfgLen, nrand = 6, 5, 4, 10000000
	}
	for p := 0; p < parts; p++ {
		a, _ := json.Marshal(shardArgs{Kind: "exh", MaxLen: maxLen, MaxLen2: maxLen2, CfgLen: cfgLen, Part: p, Parts: parts})
		out = append(out, drv.Shard{Name: fmt.Sprintf("exh-%d", p), Args: a})
	}
	for p := 0; p < parts; p++ {
		a, _ := json.Marshal(shardArgs{Kind: "rand", Part: p, Parts: parts, Count: nrand / parts})
		out = append(out, drv.Shard{Name: fmt.Sprintf("rand-%d", p), Args: a})
	}
	// both tiers: case-sensitive tag names; the FromCommandLine entry point
	nfcl := 20000
	if tier == "thorough" {
		nfcl = 400000
	}
	a, _ := json.Marshal(shardArgs{Kind: "case", Alpha: "case", Layout: "case", MaxLen: 3, Count: 5000, MaxTok: 10, Parts: 1})
	out = append(out, drv.Shard{Name: "case-0", Args: a})
	a, _ = json.Marshal(shardArgs{Kind: "fcl", Layout: "fcl", Count: nfcl, Parts: 1})
	out = append(out, drv.Shard{Name: "fcl-0", Args: a})
	for _, l := range []string{"", "case", "names"} {
		a, _ = json.Marshal(shardArgs{Kind: "nearmiss", Layout: l, Parts: 1})
		out = append(out, drv.Shard{Name: "nearmiss-" + map[string]string{"": "cfg"}[l] + l, Args: a})
	}
	if tier != "thorough" {
		return out
	}
	// thorough only: further alphabets, further structs, richer random grammar, very long vectors
	add := func(name string, sa shardArgs) {
		for p := 0; p < parts; p++ {
			sa.Part, sa.Parts = p, parts
			a, _ := json.Marshal(sa)
			out = append(out, drv.Shard{Name: fmt.Sprintf("%s-%d", name, p), Args: a, Secs: 3600})
		}
	}
	add("sweep-ints", shardArgs{Kind: "sweep", Alpha: "ints", MaxLen: 5})
	add("sweep-forms", shardArgs{Kind: "sweep", Alpha: "forms", MaxLen: 5})
	add("sweep-edges", shardArgs{Kind: "sweep", Alpha: "edges", MaxLen: 5})
	add("sweep-config", shardArgs{Kind: "sweep", Alpha: "config", MaxLen: 5})
	add("sweep-names", shardArgs{Kind: "sweep", Alpha: "names", Layout: "names", MaxLen: 4})
	add("sweep-wide", shardArgs{Kind: "sweep", Alpha: "wide", Layout: "wide", MaxLen: 4})
	add("rand2-cfg", shardArgs{Kind: "rand2", Count: 16000000 / parts, MaxTok: 16})
	add("rand2-names", shardArgs{Kind: "rand2", Layout: "names", Count: 3000000 / parts, MaxTok: 16})
	add("rand2-wide", shardArgs{Kind: "rand2", Layout: "wide", Count: 1500000 / parts, MaxTok: 24})
	add("long", shardArgs{Kind: "long", Count: 256, MaxTok: 10000})
	for i := range out {
		out[i].Secs = 3600
	}
	return out
}

// tags of the thorough-only workloads (counters cases_<tag>)
var thoroughTags = []string{"sweep-ints", "sweep-forms", "sweep-edges", "sweep-config", "sweep-names", "sweep-wide", "rand2-cfg", "rand2-names", "rand2-wide", "long"}

type runner struct {
	c       *drv.Ctx
	fx      *fixture
	sum     map[string]int64
	evals   int64
	samples map[string]bool

	canaryOn bool    // the canary vector is parsed again after every case
	canaryO  outcome // what the model says about it

	maxLen int64
	lay    *layout // nil = Cfg
	tag    string  // workload name, prefix of the per-workload counters
	quiet  bool    // no samples (very long vectors)
}

func (rn *runner) canaryVec() []string {
	if rn.lay != nil {
		return rn.lay.canary
	}
	return canary
}

func (rn *runner) layoutID() string {
	if rn.lay != nil {
		return rn.lay.id
	}
	return ""
}

// The canary: Parse has to be a function of its argument vector (and the files it names) only.
// A fixed vector that was parsed correctly at the start of the shard is parsed again, with a
// fresh FlagSet, after every case; a disagreement then is caused by state that an earlier
// Parse left behind in the package - the later vector gets "a silently different assignment".
var canary = []string{"-b", "--help", "-" + nameLB, "-n", "5", "-s=a=b", "rest", "--"}

func (rn *runner) canaryCheck() (kind, expected, observed string) {
	if rn.lay != nil {
		argv := append([]string(nil), rn.lay.canary...)
		r := runRealG(argv, rn.lay)
		return judgeG(rn.lay, &rn.canaryO, &r, rn.lay.canary, argv)
	}
	argv := append([]string(nil), canary...)
	r := runReal(argv)
	return judge(&rn.canaryO, &r, canary, argv)
}

// leak reports a state-leak violation; pre are the vectors parsed since the canary last agreed.
func (rn *runner) leak(kind, what string, culprit []string, pre [][]string, e, ob string) {
	cs := Case{Layout: rn.layoutID(), Argv: quoteTokens(rn.canaryVec()), Pre: pre}
	rn.c.Violate(keyOfL(rn.lay, "state-leak:"+kind+":"+what, culprit), cs,
		"Parse(canary) does not depend on earlier Parse calls of other FlagSets: "+e, ob)
	rn.c.Note("shard stopped after a state-leak violation: the package state of this process is no longer trustworthy")
}

// exec evaluates one vector; false = stop the shard (enough violations).
func (rn *runner) exec(tokens []string) bool {
	kind, e, ob, o := evalL(tokens, rn.fx, rn.lay)
	rn.evals++
	if rn.evals&63 == 0 {
		pt := tokens
		if len(pt) > 16 {
			pt = pt[:16]
		}
		rn.c.Progress(rn.tag+" "+strings.Join(quoteTokens(pt), " "), false)
		rn.c.Eval(64)
	}
	if rn.tag != "" {
		rn.sum["cases_"+rn.tag]++
		if o.class == "" {
			rn.sum["accepted_"+rn.tag]++
		}
	}
	if int64(len(tokens)) > rn.maxLen {
		rn.maxLen = int64(len(tokens))
	}
	// what was observed
	if o.class == "" {
		rn.sum["model_accept"]++
		if len(o.args) > 0 {
			rn.sum["accept_args_nonempty"]++
		}
		if o.usage {
			rn.sum["accept_usage_true"]++
		}
		if o.loaded {
			rn.sum["accept_config_loaded"]++
		}
		if o.repeated {
			rn.sum["accept_repeated_flag"]++
		}
		if o.stray {
			rn.sum["accept_bool_then_nonflag"]++
		}
		if o.flagish {
			rn.sum["accept_value_looks_like_flag"]++
		}
	} else {
		cl := o.class
		if i := strings.IndexByte(cl, ':'); i >= 0 {
			cl = cl[:i]
		}
		rn.sum["model_reject_"+cl]++
	}
	rn.sum["stop_"+o.stop]++
	if o.class != "" && rn.lay != layoutFCL {
		rn.sum["retry_after_error"]++
	}
	if o.nflags > 0 || o.stop == "error" {
		rn.c.DistinctStr(strings.Join(tokens[:o.consumed], "\x00") + "\x00" + o.stop)
		sk := o.stop + "/" + o.class
		if !rn.quiet && !rn.samples[sk] && len(rn.samples) < 6 && len(tokens) >= 3 {
			rn.samples[sk] = true
			if rn.lay != nil {
				rn.c.Sample(map[string]any{"layout": rn.lay.id, "argv": quoteTokens(tokens), "model": rn.lay.describe(&o)})
			} else {
				rn.c.Sample(map[string]any{"argv": quoteTokens(tokens), "model": describe(o)})
			}
		}
	}
	if kind == "" && rn.lay == nil && o.nflags > 0 && rn.evals%3 == 0 {
		if k2, e2, ob2, did := evalEnvJunk(tokens, rn.fx, &o); did {
			rn.sum["accepted_vectors_rerun_with_unparsable_env_of_their_own_flags"]++
			if k2 != "" {
				rn.c.Violate(keyOf(k2, tokens), Case{Layout: rn.layoutID(), Argv: quoteTokens(tokens)}, e2, ob2)
				return rn.c.NumViolations() < 20
			}
		}
	}
	if rn.canaryOn {
		if ck, ce, cob := rn.canaryCheck(); ck != "" {
			rn.leak(ck, "after", tokens, [][]string{quoteTokens(tokens)}, ce, cob)
			return false
		}
	}
	if kind != "" {
		var log [][]string
		min := shrink(tokens, kind, rn.fx, rn.lay, &log)
		_, e2, ob2, _ := evalL(min, rn.fx, rn.lay)
		if e2 != "" {
			e, ob = e2, ob2
		}
		cs := Case{Layout: rn.layoutID(), Argv: quoteTokens(min)}
		if len(min) != len(tokens) && len(tokens) <= 200 {
			cs.Orig = quoteTokens(tokens)
		}
		rn.c.Violate(keyOfL(rn.lay, kind, min), cs, e, ob)
		if rn.canaryOn {
			if ck, ce, cob := rn.canaryCheck(); ck != "" {
				rn.leak(ck, "while-shrinking", tokens, log, ce, cob)
				return false
			}
		}
		return rn.c.NumViolations() < 20
	}
	return true
}

func (rn *runner) flush() {
	rn.c.Eval(rn.evals & 63)
	rn.c.MaxOf("vector_tokens", rn.maxLen)
	for k, v := range rn.sum {
		rn.c.Add(k, v)
	}
}

func (mn mon) Run(sh drv.Shard, c *drv.Ctx) {
	var a shardArgs
	json.Unmarshal(sh.Args, &a)
	fx, err := setup()
	if err != nil {
		c.Inconclusive("setup: " + err.Error())
		return
	}
	defer fx.cleanup()
	rn := &runner{c: c, fx: fx, sum: map[string]int64{}, samples: map[string]bool{}}
	defer rn.flush()
	if a.Layout != "" {
		if rn.lay = layouts[a.Layout]; rn.lay == nil {
			c.Inconclusive("unknown layout " + a.Layout)
			return
		}
	}
	rn.tag = a.Kind
	if i := strings.LastIndexByte(sh.Name, '-'); i > 0 && a.Kind != "exh" && a.Kind != "rand" {
		rn.tag = sh.Name[:i]
	}
	// the canary is an ordinary case first; it is used as canary only if it is parsed correctly
	// (no canary for FromCommandLine: the canary asks for the usage)
	if rn.lay != layoutFCL {
		var ck string
		ck, _, _, rn.canaryO = evalL(rn.canaryVec(), fx, rn.lay)
		if !rn.exec(rn.canaryVec()) {
			return
		}
		rn.canaryOn = ck == ""
	}
	switch a.Kind {
	case "case":
		runSweep(rn, themed[a.Alpha], a.MaxLen, 0, 1)
		g := newRandG(rn.lay.names, rn.lay.kinds)
		r := rand.New(rand.NewSource(sh.Seed*1000003 + 99))
		for i := 0; i < a.Count; i++ {
			if !rn.exec(g.vector(r, a.MaxTok)) {
				return
			}
		}
	case "fcl":
		runFCLShard(rn, sh.Seed, a.Count)
	case "nearmiss":
		if rn.lay != nil {
			runNearMiss(rn, rn.lay.names, rn.lay.kinds)
		} else {
			runNearMiss(rn, flagNames[:], flagKinds[:])
		}
	case "exh":
		runExhaustive(rn, a)
	case "rand":
		r := rand.New(rand.NewSource(sh.Seed*1000003 + int64(a.Part)))
		for i := 0; i < a.Count; i++ {
			if !rn.exec(randVector(r)) {
				return
			}
		}
	case "sweep":
		al := themed[a.Alpha]
		if al == nil {
			c.Inconclusive("unknown alphabet " + a.Alpha)
			return
		}
		runSweep(rn, al, a.MaxLen, a.Part, a.Parts)
	case "rand2":
		g := cfgRandG
		if rn.lay != nil {
			g = newRandG(rn.lay.names, rn.lay.kinds)
		}
		r := rand.New(rand.NewSource(sh.Seed*1000003 + int64(a.Part) + int64(drv.HashStr(sh.Name)>>20)))
		for i := 0; i < a.Count; i++ {
			if !rn.exec(g.vector(r, a.MaxTok)) {
				return
			}
		}
	case "long":
		rn.quiet = true
		r := rand.New(rand.NewSource(sh.Seed*1000003 + int64(a.Part) + 77))
		for i := 0; i < a.Count; i++ {
			n := a.MaxTok
			if i%4 == 3 {
				n = 1000 + r.Intn(a.MaxTok/2) // some shorter ones
			}
			shape, v := longVector(r, n)
			rn.sum["long_shape_"+shape]++
			rn.sum["long_tokens"] += int64(len(v))
			if !rn.exec(v) {
				return
			}
		}
	}
}

// Finish: the run must have seen both verdicts of the grammar and every error class.
func (mon) Finish(prop, tier string, mg *drv.Merged) (inc []string) {
	for _, k := range []string{"model_accept", "model_reject_syntax", "model_reject_undefined", "model_reject_missing-value", "model_reject_bad-value", "model_reject_config-file",
		"stop_ddash", "stop_dash", "stop_nonflag", "stop_end", "accept_repeated_flag", "accept_bool_then_nonflag", "accept_value_looks_like_flag", "accept_config_loaded", "accept_usage_true", "accept_args_nonempty"} {
		if mg.Sum[k] == 0 {
			inc = append(inc, "no vector of class "+k+" was evaluated")
		}
	}
	if mg.Sum["nearmiss_vectors"] == 0 || mg.Sum["retry_after_error"] == 0 {
		inc = append(inc, "no near-miss name vector or no retry after a failed Parse was evaluated")
	}
	for _, t := range []string{"case", "fcl"} {
		if mg.Sum["cases_"+t] == 0 || mg.Sum["accepted_"+t] == 0 {
			inc = append(inc, "workload "+t+" evaluated no vector or none that the grammar accepts")
		}
	}
	if tier == "thorough" {
		for _, t := range thoroughTags {
			if mg.Sum["cases_"+t] == 0 || mg.Sum["accepted_"+t] == 0 {
				inc = append(inc, "workload "+t+" evaluated no vector or none that the grammar accepts")
			}
		}
		if mg.Max["vector_tokens"] < 10000 {
			inc = append(inc, "no vector of 10^4 tokens was evaluated")
		}
	}
	return inc
}

func (mn mon) Replay(v drv.Violation, c *drv.Ctx) {
	var cs Case
	if err := json.Unmarshal(v.Case, &cs); err != nil {
		c.Inconclusive("replay: cannot decode case: " + err.Error())
		return
	}
	if _, err := unquoteTokens(cs.Argv); err != nil {
		c.Inconclusive("replay: cannot decode case: " + err.Error())
		return
	}
	fx, err := setup()
	if err != nil {
		c.Inconclusive("setup: " + err.Error())
		return
	}
	defer fx.cleanup()
	if len(cs.Pre) > 0 {
		// state-leak case: parse the recorded vectors first, in this process, then the canary
		for _, q := range cs.Pre {
			if t, err := unquoteTokens(q); err == nil {
				evalL(t, fx, layouts[cs.Layout])
				c.Eval(1)
			}
		}
		k, e, o := runCase(cs, fx)
		c.Eval(1)
		if k != "" {
			c.Violate(v.Key, cs, e, o)
		}
		return
	}
	k, e, o := runCase(cs, fx)
	c.Eval(1)
	if k != "" {
		c.Violate(k, cs, e, o)
	}
}

func main() { drv.Main(mon{}) }
