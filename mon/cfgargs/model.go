package main

// The reference parser of the command-line grammar (DESIGN.md §3 C10), written from the
// documented rules (those of Go's package flag, which glb/config documents to follow):
//
//   - a flag token is -name or --name, optionally followed by =value;
//   - "-", the empty token and every token not starting with '-' is not a flag: parsing stops,
//     the token stays in Args;
//   - "--" stops parsing and is consumed;
//   - after stripping one or two dashes, a name that is empty or starts with '-' or '=' is a
//     syntax error;
//   - the token is split at its FIRST '=';
//   - a name that is not defined is an error;
//   - a boolean flag without '=' needs no value and means true;
//   - any other flag without '=' takes the next token as its value whatever it looks like;
//     it is an error if there is none;
//   - the last occurrence of a repeated flag wins; only that effective text has to parse for
//     the type of the flag; empty text means the zero value;
//   - the effective -config text, when not empty, names a JSON file that has to be readable
//     and valid; its values rank below the command line and above the tag defaults.
//
// The model never looks at glb code or glb state.

import (
	"encoding/base64"
	"strconv"
	"strings"
	"time"
)

type kind int

const (
	kBool kind = iota
	kInt
	kInt64
	kUint
	kUint64
	kString
	kFloat
	kDur
	kBytes
)

// names of the long-named flags: 64, 65, 200 and 63 bytes (around the 64-byte width of the
// name column of PrintUsage, the only length-related constant of the package)
const (
	nameLB = "long_bool_64_012345678901234567890123456789012345678901234567890"
	nameLN = "long_int_65_01234567890123456789012345678901234567890123456789012"
	nameLS = "long_string_200_0123456789012345678901234567890123456789012345678901234567890123456789012345678901234567890123456789012345678901234567890123456789012345678901234567890123456789012345678901234567890123"
	nameLU = "long_uint_63_01234567890123456789012345678901234567890123456789"
)

func init() {
	if len(nameLB) != 64 || len(nameLN) != 65 || len(nameLS) != 200 || len(nameLU) != 63 {
		panic("cfgargs: long flag names do not have the intended lengths")
	}
}

// Cfg is the flag set of the workload: one flag of each supported type, four more flags with
// long names (+ built-in help, config).
type Cfg struct {
	B   bool          `flag:"b,false,a bool"`
	N   int           `flag:"n,3,an int"`
	I64 int64         `flag:"i64,-4,an int64"`
	UI  uint          `flag:"ui,5,a uint"`
	U64 uint64        `flag:"u64,6,a uint64"`
	S   string        `flag:"s,dflt,a string"`
	F   float64       `flag:"f,1.5,a float64"`
	D   time.Duration `flag:"d,2s,a duration"`
	By  []byte        `flag:"by,YWI=,bytes"`
	LB  bool          `flag:"long_bool_64_012345678901234567890123456789012345678901234567890,false,a bool with a 64-byte name"`
	LN  int           `flag:"long_int_65_01234567890123456789012345678901234567890123456789012,8,an int with a 65-byte name"`
	LS  string        `flag:"long_string_200_0123456789012345678901234567890123456789012345678901234567890123456789012345678901234567890123456789012345678901234567890123456789012345678901234567890123456789012345678901234567890123,ldflt,a string with a 200-byte name"`
	LU  uint          `flag:"long_uint_63_01234567890123456789012345678901234567890123456789,9,a uint with a 63-byte name"`
}

// tag defaults of Cfg, written down by hand
func defaults() Cfg {
	return Cfg{B: false, N: 3, I64: -4, UI: 5, U64: 6, S: "dflt", F: 1.5, D: 2 * time.Second, By: []byte("ab"), LB: false, LN: 8, LS: "ldflt", LU: 9}
}

// content of the valid JSON configuration file and the values it stands for
const validJSON = `{"B":true,"N":70,"I64":-40,"UI":50,"U64":60,"S":"json","F":2.5,"D":3000000000,"By":"eHl6","LB":true,"LN":80,"LS":"ljson","LU":90}`

func jsonValues() Cfg {
	return Cfg{B: true, N: 70, I64: -40, UI: 50, U64: 60, S: "json", F: 2.5, D: 3 * time.Second, By: []byte("xyz"), LB: true, LN: 80, LS: "ljson", LU: 90}
}

const (
	fB = iota
	fN
	fI64
	fUI
	fU64
	fS
	fF
	fD
	fBy
	fLB
	fLN
	fLS
	fLU
	fHelp
	fConfig
	nFlags
)

var flagNames = [nFlags]string{"b", "n", "i64", "ui", "u64", "s", "f", "d", "by", nameLB, nameLN, nameLS, nameLU, "help", "config"}
var flagKinds = [nFlags]kind{kBool, kInt, kInt64, kUint, kUint64, kString, kFloat, kDur, kBytes, kBool, kInt, kString, kUint, kBool, kString}
var flagIndex = func() map[string]int {
	m := map[string]int{}
	for i, n := range flagNames {
		m[n] = i
	}
	return m
}()

// outcome of the reference parser
type outcome struct {
	class    string // "" = accepted; else the reason of the rejection
	args     []string
	usage    bool
	cfg      Cfg
	consumed int    // tokens the parser looked at (incl. the one it stopped or failed on)
	stop     string // why parsing ended: end | nonflag | dash | empty | ddash | error
	repeated bool   // some flag occurred more than once
	stray    bool   // a boolean flag without '=' was followed by a non-flag token
	flagish  bool   // a non-boolean flag took a next-token value that starts with '-'
	loaded   bool   // the JSON file was loaded
	nflags   int    // flag occurrences assigned
	vals     []any  // expected field values of a table-built struct (layout.go); nil for Cfg
	set      []bool // Cfg only: which flags (fB ...) the vector assigns
}

// files the model knows about
type files struct {
	valid string // path of the readable, valid JSON file; every other non-empty path fails
}

func refParse(argv []string, fl files) (o outcome) {
	var set [nFlags]bool
	var text [nFlags]string
	if !scan(argv, flagIndex, flagKinds[:], set[:], text[:], &o) {
		return o
	}

	o.set = append([]bool(nil), set[:]...)
	// values: command line ?: JSON file ?: tag default
	o.cfg = defaults()
	if set[fConfig] && text[fConfig] != "" {
		if text[fConfig] != fl.valid {
			o.class = "config-file"
			return o
		}
		o.cfg = jsonValues()
		o.loaded = true
	}
	for fi := 0; fi < nFlags; fi++ {
		if !set[fi] {
			continue
		}
		if !assign(&o, fi, text[fi]) {
			o.class = "bad-value:" + flagNames[fi]
			return o
		}
	}
	return o
}

// scan is the grammar proper: it walks the vector, records the effective text of every flag
// (set/text, indexed like kinds) and where parsing stopped (o.args, o.stop, o.consumed). It
// returns false when the vector violates the grammar (o.class says how). The flag set is
// given by index (name -> position) and kinds; the same loop serves every workload struct.
func scan(argv []string, index map[string]int, kinds []kind, set []bool, text []string, o *outcome) bool {
	i := 0
	o.stop = "end"
loop:
	for i < len(argv) {
		t := argv[i]
		switch {
		case t == "":
			o.stop = "empty"
			o.consumed = i + 1
			break loop
		case t == "-":
			o.stop = "dash"
			o.consumed = i + 1
			break loop
		case t[0] != '-':
			o.stop = "nonflag"
			o.consumed = i + 1
			break loop
		case t == "--":
			i++
			o.stop = "ddash"
			o.consumed = i
			break loop
		}
		body := t[1:]
		if body[0] == '-' {
			body = body[1:]
		}
		if body == "" || body[0] == '-' || body[0] == '=' {
			o.class, o.stop, o.consumed = "syntax", "error", i+1
			return false
		}
		name, val, has := strings.Cut(body, "=")
		fi, ok := index[name]
		if !ok {
			o.class, o.stop, o.consumed = "undefined", "error", i+1
			return false
		}
		i++
		if !has {
			if kinds[fi] == kBool {
				val = "true"
				if i < len(argv) && (argv[i] == "" || argv[i][0] != '-' || argv[i] == "-") {
					o.stray = true
				}
			} else if i < len(argv) {
				val = argv[i]
				if strings.HasPrefix(val, "-") {
					o.flagish = true
				}
				i++
			} else {
				o.class, o.stop, o.consumed = "missing-value:"+name, "error", i
				return false
			}
		}
		if set[fi] {
			o.repeated = true
		}
		set[fi], text[fi] = true, val
		o.nflags++
		o.consumed = i
	}
	o.args = argv[i:]
	return true
}

// assign parses the effective text of one flag; empty text is the zero value.
func assign(o *outcome, fi int, s string) bool {
	var err error
	switch fi {
	case fB, fLB, fHelp:
		v := false
		if s != "" {
			v, err = strconv.ParseBool(s)
		}
		switch fi {
		case fB:
			o.cfg.B = v
		case fLB:
			o.cfg.LB = v
		default:
			o.usage = v
		}
	case fN, fLN:
		var v int64
		if s != "" {
			v, err = strconv.ParseInt(s, 0, strconv.IntSize)
		}
		if fi == fN {
			o.cfg.N = int(v)
		} else {
			o.cfg.LN = int(v)
		}
	case fI64:
		var v int64
		if s != "" {
			v, err = strconv.ParseInt(s, 0, 64)
		}
		o.cfg.I64 = v
	case fUI, fLU:
		var v uint64
		if s != "" {
			v, err = strconv.ParseUint(s, 0, strconv.IntSize)
		}
		if fi == fUI {
			o.cfg.UI = uint(v)
		} else {
			o.cfg.LU = uint(v)
		}
	case fU64:
		var v uint64
		if s != "" {
			v, err = strconv.ParseUint(s, 0, 64)
		}
		o.cfg.U64 = v
	case fS:
		o.cfg.S = s
	case fLS:
		o.cfg.LS = s
	case fF:
		var v float64
		if s != "" {
			v, err = strconv.ParseFloat(s, 64)
		}
		o.cfg.F = v
	case fD:
		var v time.Duration
		if s != "" {
			v, err = time.ParseDuration(s)
		}
		o.cfg.D = v
	case fBy:
		var v []byte
		if s != "" {
			v, err = base64.StdEncoding.DecodeString(s)
		}
		o.cfg.By = v
	case fConfig:
	}
	return err == nil
}
