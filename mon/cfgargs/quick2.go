package main

// Two small workloads that run in both tiers:
//
//   - layout "case": a struct whose tag names contain upper-case letters (n / N, Port, dbHost, X)
//     next to untagged fields (lower-cased field name); flag names are case-sensitive and are
//     registered exactly as written in the tag.
//   - FromCommandLine: the package's public entry point (NewFlagSet + Parse(os.Args[1:])) is
//     driven with os.Args set in this shard's own process and judged by the same reference
//     parser: (args, err == nil) and the fields. Vectors with a token that contains "help" are
//     left out: FromCommandLine prints the usage and calls os.Exit(0) when -help is given.

import (
	"fmt"
	"math/rand"
	"os"
	"strings"

	"github.com/whoisnian/glb/config"
)

var layoutCase = (&layout{
	id: "case",
	fields: []fieldSpec{
		{path: []string{"Lower"}, name: "n", kind: kInt, def: "3", defVal: int(3)},
		{path: []string{"Upper"}, name: "N", kind: kInt, def: "4", defVal: int(4)},
		{path: []string{"Port"}, name: "Port", kind: kInt, def: "80", defVal: int(80), jsonVal: int(8080)},
		{path: []string{"DbHost"}, name: "dbHost", kind: kString, def: "h", defVal: "h"},
		{path: []string{"X"}, name: "X", kind: kBool, def: "", defVal: false},
		{path: []string{"Verbose"}, kind: kBool, defVal: false},                         // flag "verbose"
		{path: []string{"Log", "LogLevel"}, kind: kString, defVal: "", jsonVal: "warn"}, // flag "loglevel"
	},
	canary: []string{"-n", "1", "-N=2", "-Port=81", "--dbHost=a=b", "-X", "-verbose", "--help", "rest", "--"},
}).build()

var alphaCase = []string{
	"-n=1", "-N=2", "-Port=81", "-port=81", "--dbHost=a", "-dbhost=a", "-DBHOST=a", "-X", "-x",
	"-verbose", "-Verbose", "-LogLevel=d", "-loglevel=d", "-config=@VALID@", "5", "--",
}

// layoutFCL is not a struct layout: it marks the FromCommandLine workload (struct Cfg).
var layoutFCL = &layout{id: "fcl"}

func init() {
	layouts["case"] = layoutCase
	layouts["fcl"] = layoutFCL
	themed["case"] = alphaCase
}

func mentionsHelp(tokens []string) bool {
	for _, t := range tokens {
		if strings.Contains(strings.ToLower(t), "help") {
			return true
		}
	}
	return false
}

func runFCL(argv []string) (r realResult) {
	old := os.Args
	defer func() {
		os.Args = old
		if p := recover(); p != nil {
			r.panicked = fmt.Sprint(p)
		}
	}()
	os.Args = append([]string{"prog"}, argv...)
	r.args, r.err = config.FromCommandLine(&r.cfg)
	return r
}

// evalFCL judges FromCommandLine on os.Args = ["prog"] + tokens by the reference parser.
func evalFCL(tokens []string, fx *fixture) (kind, expected, observed string, o outcome) {
	argvModel := fx.subst(tokens)
	argvReal := fx.subst(tokens)
	o = refParse(argvModel, files{valid: fx.valid})
	if mentionsHelp(tokens) || o.usage {
		return "", "", "", o // never handed to FromCommandLine (it would exit the process)
	}
	r := runFCL(argvReal)
	kind, expected, observed = judge(&o, &r, argvModel, argvReal)
	return kind, expected, observed, o
}

// runFCLShard: every vector of length <= 3 over the first alphabet and of length <= 2 over
// the long-name alphabet, then count random vectors; vectors that mention help are skipped.
func runFCLShard(rn *runner, seed int64, count int) {
	try := func(v []string) bool {
		if mentionsHelp(v) {
			rn.sum["fcl_skipped_help"]++
			return true
		}
		return rn.exec(v)
	}
	for _, sw := range []struct {
		al     []string
		maxLen int
	}{{alphabet[:], 3}, {alphabet2[:], 2}} {
		n := len(sw.al)
		for L := 0; L <= sw.maxLen; L++ {
			total := 1
			for i := 0; i < L; i++ {
				total *= n
			}
			vec := make([]string, L)
			for code := 0; code < total; code++ {
				for p, c := 0, code; p < L; p, c = p+1, c/n {
					vec[L-1-p] = sw.al[c%n]
				}
				if !try(vec) {
					return
				}
			}
		}
	}
	r := rand.New(rand.NewSource(seed*1000003 + 4242))
	for i := 0; i < count; i++ {
		if !try(randVector(r)) {
			return
		}
	}
}

// ---------------------------------------------------------------------------------------
// near-miss names derived from every defined flag name (both tiers)

// derivedNames: names that a "helpful" parser might map onto the defined flag name; each is
// undefined unless the flag set happens to define it (the reference parser knows).
func derivedNames(name string) []string {
	return []string{
		"no-" + name, "no_" + name, "no" + name, "non-" + name, "not-" + name,
		"with-" + name, "without-" + name, "enable-" + name, "disable-" + name, "un" + name,
		name + "-", name + "_", name + ".", name + "=", name + "1", name + "0", name + "s",
		"-" + name, // one dash too many in front
		strings.ToUpper(name), strings.ToLower(name), strings.Title(name), caseFlip(name),
		strings.ReplaceAll(name, "-", "_"), strings.ReplaceAll(name, "_", "-"), strings.ReplaceAll(name, "-", ""),
		name[:len(name)-1], name + name, " " + name, name + " ",
	}
}

// runNearMiss: for every defined flag and every derived name: bare, with =value and with a
// separate value, with one and two dashes; alone, behind a valid flag, and followed by a tail.
func runNearMiss(rn *runner, names []string, kinds []kind) {
	firstBool := ""
	for i, k := range kinds {
		if k == kBool && names[i] != "help" {
			firstBool = names[i]
			break
		}
	}
	for fi, name := range names {
		val := goodValues[kinds[fi]][0]
		for _, d := range derivedNames(name) {
			if d == "" {
				continue
			}
			for _, dash := range []string{"-", "--"} {
				forms := [][]string{{dash + d}, {dash + d + "=" + val}, {dash + d, val}, {dash + d + "=false"}, {dash + d + "="}}
				for _, f := range forms {
					vs := [][]string{f, append(append([]string(nil), f...), "tail", "--")}
					if firstBool != "" {
						vs = append(vs, append([]string{"-" + firstBool}, f...))
					}
					vs = append(vs, append([]string{"-" + name + "=" + val}, f...))
					for _, v := range vs {
						rn.sum["nearmiss_vectors"]++
						if !rn.exec(v) {
							return
						}
					}
				}
			}
		}
	}
}
