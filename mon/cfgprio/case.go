package main

import (
	"bytes"
	"encoding/base64"
	"encoding/json"
	"fmt"
	"math"
	"math/rand"
	"os"
	"path/filepath"
	"reflect"
	"strconv"
	"strings"
	"sync"
	"time"
	"unicode/utf16"
	"unicode/utf8"

	"github.com/whoisnian/glb/config"
)

// ---------------------------------------------------------------------------------------
// Case: everything needed to re-create one Parse, chosen value-first.

// Field types, in the order of the package documentation.
const (
	TBool = iota
	TInt
	TInt64
	TUint
	TUint64
	TString
	TFloat
	TDur
	TBytes
	nTypes
)

var typeNames = [nTypes]string{"bool", "int", "int64", "uint", "uint64", "string", "float64", "duration", "bytes"}

var goTypes = [nTypes]reflect.Type{
	reflect.TypeOf(false), reflect.TypeOf(int(0)), reflect.TypeOf(int64(0)), reflect.TypeOf(uint(0)),
	reflect.TypeOf(uint64(0)), reflect.TypeOf(""), reflect.TypeOf(float64(0)), reflect.TypeOf(time.Duration(0)),
	reflect.TypeOf([]byte(nil)),
}

func typeIndex(name string) int {
	for i, n := range typeNames {
		if n == name {
			return i
		}
	}
	return -1
}

// Source bits of Field.Mask, in ascending priority.
const (
	SrcDef  = 1 << iota // tag default
	SrcJSON             // configuration JSON
	SrcEnv              // CFG_* environment variable
	SrcCli              // command-line flag
)

var srcNames = [4]string{"default", "json", "env", "cli"}

// QStr is a string that survives the JSON round trip of a replay file byte for byte
// (it may hold invalid UTF-8): it is stored in Go quoted ASCII syntax.
type QStr string

func (q QStr) MarshalJSON() ([]byte, error) { return json.Marshal(strconv.QuoteToASCII(string(q))) }
func (q *QStr) UnmarshalJSON(b []byte) error {
	var s string
	if err := json.Unmarshal(b, &s); err != nil {
		return err
	}
	u, err := strconv.Unquote(s)
	if err != nil {
		return err
	}
	*q = QStr(u)
	return nil
}

// Val is the typed value one source gives to one field; which member counts follows from the
// field type. It is chosen first and only ever rendered, never parsed, by the monitor.
type Val struct {
	Empty bool   `json:"empty,omitempty"` // the source mentions the field with an empty text (default/env/cli)
	B     bool   `json:"b,omitempty"`
	I     int64  `json:"i,omitempty"` // int, int64, duration (ns)
	U     uint64 `json:"u,omitempty"` // uint, uint64
	F     uint64 `json:"fbits,omitempty"`
	S     QStr   `json:"s,omitempty"`
	Y     []byte `json:"y,omitempty"`
	Fmt   int    `json:"fmt,omitempty"` // rendering variant: float 0 'g' 1 'e' 2 'f'; JSON string 1 = \u escapes
}

// Field is one leaf of the configuration struct.
type Field struct {
	Type      string  `json:"type"`
	Env       string  `json:"env"`                // expected environment variable name (hand-written table, see names.go)
	Flag      string  `json:"flag"`               // name on the command line
	TagName   string  `json:"tag_name,omitempty"` // name part of the tag; "" = implicit (lower-case field name)
	NoTag     bool    `json:"no_tag,omitempty"`   // the struct field carries no tag at all
	Pipe      bool    `json:"pipe,omitempty"`     // `flag:"|name|value|usage"` instead of `flag:"name,value,usage"`
	UsageMode int     `json:"usage_mode,omitempty"`
	Mask      int     `json:"mask"`
	Src       [4]*Val `json:"src"`               // value per source (nil when the mask bit is clear)
	CliSyn    int     `json:"cli_syn,omitempty"` // 0 -n=v  1 -n v  2 --n=v  3 --n v  4 bare (bool true only)
}

// Node is a struct field: a leaf or a nested struct.
type Node struct {
	Name string  `json:"name"`
	Leaf *Field  `json:"leaf,omitempty"`
	Kids []*Node `json:"kids,omitempty"`
}

// Carrier of the configuration JSON.
const (
	CarNone = "none" // neither -config nor CFG_CONFIG_B64
	CarFile = "file" // -config <path>
	CarB64  = "b64"  // CFG_CONFIG_B64
	CarBoth = "both" // -config <path> holds the document, CFG_CONFIG_B64 a contradicting one: file wins
)

type Case struct {
	Kind      string   `json:"kind"` // "lattice" | "random"
	Root      []*Node  `json:"root"`
	Carrier   string   `json:"carrier"`
	PathKind  int      `json:"path_kind,omitempty"` // 0 absolute  1 ~/relative with HOME redirected  2 relative to the working directory  3 the read end of a pipe (/proc/self/fd/N)
	FileName  int      `json:"file_name,omitempty"` // index into fileNames
	CfgSyn    int      `json:"cfg_syn,omitempty"`   // syntax of the -config flag, 0..3
	JSONStyle int      `json:"json_style,omitempty"`
	EmptyObj  bool     `json:"empty_obj,omitempty"` // groups without a JSON member are written as {} instead of omitted
	Decoy     bool     `json:"decoy,omitempty"`     // CFG_CONFIG & co. name a file with contradicting values (must be ignored)
	Shuffle   int64    `json:"shuffle"`             // order of the flags in argv
	Tail      []string `json:"tail,omitempty"`      // tokens after the flags

	// History of the struct value handed to NewFlagSet (the model never looks at it):
	Prefill bool  `json:"prefill,omitempty"` // every leaf holds garbage of its type before the first NewFlagSet
	Prior   *Case `json:"prior,omitempty"`   // reload: this round (same struct type, other sources) ran first on the same struct value; priors may be chained

	// The built-in usage flag on the command line (it suspends nothing: the fields are expected as
	// without it; ShowUsage() is merely counted). Help: 0 absent, 1 -help, 2 --help, 3 -help=true,
	// 4 --help=true, 5 -help=false. HelpPos: 0 shuffled among the flags, 1 first, 2 last.
	Help    int `json:"help,omitempty"`
	HelpPos int `json:"help_pos,omitempty"`

	// FirstParse: an earlier Parse call on the SAME FlagSet (one NewFlagSet), with sources of its
	// own. Fail (set on that earlier call) makes it fail: "unknown-flag", "missing-value",
	// "bad-value" (cli), "bad-env", "bad-json"; "" = it is an ordinary call and judged as such.
	// The call under test follows on the same FlagSet: if it returns nil, every field must follow
	// its sources only; if it is refused with an error nothing is judged (that is counted).
	FirstParse *Case  `json:"first_parse,omitempty"`
	Fail       string `json:"fail,omitempty"`

	// Peers run concurrently with the last round, each in its own goroutine on its own struct value
	// of the same struct type with its own FlagSet: same tags, JSON and environment (those are
	// process-global), but its own command line.
	Peers []*Case `json:"peers,omitempty"`
}

var fileNames = []string{"cfg.json", "my config.json", "a=b.json", "ünï-配置.json", "sub/dir/c.json"}

const usageText = "usage, with | both, separators"

// ---------------------------------------------------------------------------------------
// value model

func zeroOf(t int) any {
	return reflect.Zero(goTypes[t]).Interface()
}

// goValue is the value a source gives: the typed value, or the zero value for an empty text.
func goValue(t int, v *Val) any {
	if v == nil || v.Empty {
		return zeroOf(t)
	}
	switch t {
	case TBool:
		return v.B
	case TInt:
		return int(v.I)
	case TInt64:
		return v.I
	case TUint:
		return uint(v.U)
	case TUint64:
		return v.U
	case TString:
		return string(v.S)
	case TFloat:
		return math.Float64frombits(v.F)
	case TDur:
		return time.Duration(v.I)
	case TBytes:
		if v.Y == nil {
			return []byte(nil)
		}
		return append([]byte{}, v.Y...)
	}
	panic("bad type")
}

// expected = cli ?: env ?: JSON ?: default ?: zero
func expectedOf(t int, f *Field) (val any, winner int) {
	for s := 3; s >= 0; s-- {
		if f.Mask&(1<<s) != 0 {
			return goValue(t, f.Src[s]), s
		}
	}
	return zeroOf(t), -1
}

func equalVal(t int, want, got any) bool {
	switch t {
	case TFloat:
		w, g := want.(float64), got.(float64)
		if math.IsNaN(w) || math.IsNaN(g) {
			return math.IsNaN(w) && math.IsNaN(g)
		}
		return math.Float64bits(w) == math.Float64bits(g)
	case TBytes:
		w, g := want.([]byte), got.([]byte)
		if len(w) == 0 {
			return len(g) == 0 // "empty text means the zero value": nil and empty are not told apart
		}
		return bytes.Equal(w, g)
	}
	return want == got
}

func showVal(t int, v any) string {
	switch t {
	case TString:
		return strconv.QuoteToASCII(v.(string))
	case TFloat:
		f := v.(float64)
		return fmt.Sprintf("%v (bits %#016x)", f, math.Float64bits(f))
	case TDur:
		return fmt.Sprintf("%v (%dns)", v, int64(v.(time.Duration)))
	case TBytes:
		b := v.([]byte)
		if b == nil {
			return "[]byte(nil)"
		}
		if len(b) > 40 {
			return fmt.Sprintf("[]byte(len %d) %x…", len(b), b[:40])
		}
		return fmt.Sprintf("[]byte{%x}", b)
	}
	return fmt.Sprintf("%v", v)
}

// poison returns a legal, JSON-expressible value that differs from v (for contradicting documents).
func poison(t int, v any) *Val {
	switch t {
	case TBool:
		return &Val{B: !v.(bool)}
	case TInt:
		return &Val{I: int64(v.(int)) ^ 0x55}
	case TInt64:
		return &Val{I: v.(int64) ^ 0x55}
	case TUint:
		return &Val{U: uint64(v.(uint)) ^ 0x55}
	case TUint64:
		return &Val{U: v.(uint64) ^ 0x55}
	case TString:
		return &Val{S: QStr(strings.ToValidUTF8(v.(string), "?") + "#poison")}
	case TFloat:
		if v.(float64) == 12345.5 {
			return &Val{F: math.Float64bits(-2.25)}
		}
		return &Val{F: math.Float64bits(12345.5)}
	case TDur:
		return &Val{I: int64(v.(time.Duration)) ^ 0x55}
	case TBytes:
		return &Val{Y: append(append([]byte{}, v.([]byte)...), 'p', 0xff)}
	}
	panic("bad type")
}

// ---------------------------------------------------------------------------------------
// rendering (value -> syntax of each source)

func floatFmt(v *Val) byte {
	switch v.Fmt {
	case 1, 4:
		return 'e'
	case 2:
		return 'f'
	case 3:
		return 'E'
	}
	return 'g'
}

// floatText: shortest representation in the chosen format; Fmt 4 spells 25 significant digits
// (more than enough to denote the same float64).
func floatText(v *Val) string {
	prec := -1
	if v.Fmt == 4 {
		prec = 24
	}
	return strconv.FormatFloat(math.Float64frombits(v.F), floatFmt(v), prec, 64)
}

var durUnits = [...]struct {
	suffix string
	ns     int64
}{{"ns", 1}, {"us", 1e3}, {"\u00b5s", 1e3}, {"\u03bcs", 1e3}, {"ms", 1e6}, {"s", 1e9}, {"m", 60e9}, {"h", 3600e9}}

// durText renders a Duration for a textual source. Fmt 0: Duration.String(); 1..8: a whole number
// of one unit (ns, us, µs U+00B5, μs U+03BC, ms, s, m, h) when the value is a multiple of it;
// 9: seconds with a nine-digit fraction; 10: every unit spelled out (1h2m3s4ms5us6ns).
// Values the chosen spelling cannot express exactly fall back to Duration.String().
func durText(ns int64, f int) string {
	d := time.Duration(ns)
	switch {
	case f >= 1 && f <= 8:
		if u := durUnits[f-1]; ns%u.ns == 0 {
			return strconv.FormatInt(ns/u.ns, 10) + u.suffix
		}
	case f == 9 && ns != math.MinInt64:
		sign, a := "", ns
		if a < 0 {
			sign, a = "-", -a
		}
		return fmt.Sprintf("%s%d.%09ds", sign, a/1e9, a%1e9)
	case f == 10 && ns != math.MinInt64 && ns != 0:
		sign, a := "", ns
		if a < 0 {
			sign, a = "-", -a
		}
		out := sign
		for _, i := range []int{7, 6, 5, 4, 1, 0} {
			u := durUnits[i]
			if q := a / u.ns; q > 0 {
				out += strconv.FormatInt(q, 10) + u.suffix
				a -= q * u.ns
			}
		}
		return out
	}
	return d.String()
}

// uintText: decimal, or - only with intLiteralSpellings - a Go literal: 1 0x hex, 2 0o octal,
// 3 0b binary, 4 leading-0 octal, 5 decimal with _ separators.
func uintText(u uint64, f int) string {
	if !intLiteralSpellings {
		f = 0
	}
	switch f {
	case 1:
		return "0x" + strconv.FormatUint(u, 16)
	case 2:
		return "0o" + strconv.FormatUint(u, 8)
	case 3:
		return "0b" + strconv.FormatUint(u, 2)
	case 4:
		return "0" + strconv.FormatUint(u, 8)
	case 5:
		d := strconv.FormatUint(u, 10)
		for i := len(d) - 3; i > 0; i -= 3 {
			d = d[:i] + "_" + d[i:]
		}
		return d
	}
	return strconv.FormatUint(u, 10)
}

// renderText renders a value for the tag default, an environment variable or the command line.
func renderText(t int, v *Val) string {
	if v.Empty {
		return ""
	}
	switch t {
	case TBool:
		return strconv.FormatBool(v.B)
	case TInt, TInt64:
		if v.I < 0 {
			return "-" + uintText(uint64(-v.I), v.Fmt) // -MinInt64 wraps to 2^63, which is its magnitude
		}
		return uintText(uint64(v.I), v.Fmt)
	case TUint, TUint64:
		return uintText(v.U, v.Fmt)
	case TString:
		return string(v.S)
	case TFloat:
		return floatText(v)
	case TDur:
		return durText(v.I, v.Fmt)
	case TBytes:
		return base64.StdEncoding.EncodeToString(v.Y)
	}
	panic("bad type")
}

// renderJSON renders a value as a JSON value.
func renderJSON(t int, v *Val) string {
	switch t {
	case TBool:
		return strconv.FormatBool(v.B)
	case TInt, TInt64, TDur: // a Duration travels as integer nanoseconds
		return strconv.FormatInt(v.I, 10)
	case TUint, TUint64:
		return strconv.FormatUint(v.U, 10)
	case TString:
		return jsonStringFmt(string(v.S), v.Fmt)
	case TFloat:
		return floatText(v)
	case TBytes:
		b := base64.StdEncoding.EncodeToString(v.Y)
		if v.Fmt == 1 { // the solidus may be escaped in a JSON string
			b = strings.ReplaceAll(b, "/", `\/`)
		}
		return `"` + b + `"`
	}
	panic("bad type")
}

// jsonStringFmt: 0 encoding/json's own spelling; 1 every non-ASCII rune as \uXXXX; 2 every rune
// as \uXXXX; 3 the short escapes (\b \f \n \r \t \/ \" \\), everything else raw (no HTML escaping).
func jsonStringFmt(s string, f int) string {
	switch f {
	case 0:
		return jsonString(s, false)
	case 1:
		return jsonString(s, true)
	}
	var sb strings.Builder
	sb.Grow(len(s) + 2)
	sb.WriteByte('"')
	for _, r := range s {
		if f == 2 {
			if r >= 0x10000 {
				r1, r2 := utf16.EncodeRune(r)
				fmt.Fprintf(&sb, `\u%04X\u%04x`, r1, r2)
			} else {
				fmt.Fprintf(&sb, `\u%04x`, r)
			}
			continue
		}
		switch r {
		case '\b':
			sb.WriteString(`\b`)
		case '\f':
			sb.WriteString(`\f`)
		case '\n':
			sb.WriteString(`\n`)
		case '\r':
			sb.WriteString(`\r`)
		case '\t':
			sb.WriteString(`\t`)
		case '/':
			sb.WriteString(`\/`)
		case '"':
			sb.WriteString(`\"`)
		case '\\':
			sb.WriteString(`\\`)
		default:
			if r < 0x20 {
				fmt.Fprintf(&sb, `\u%04x`, r)
			} else {
				sb.WriteRune(r)
			}
		}
	}
	sb.WriteByte('"')
	return sb.String()
}

func jsonString(s string, escapeAll bool) string {
	if !escapeAll {
		b, _ := json.Marshal(s)
		return string(b)
	}
	var sb strings.Builder
	sb.WriteByte('"')
	for _, r := range s {
		switch {
		case r == '"' || r == '\\':
			sb.WriteByte('\\')
			sb.WriteRune(r)
		case r >= 0x20 && r < 0x7f:
			sb.WriteRune(r)
		case r >= 0x10000:
			r1, r2 := utf16.EncodeRune(r)
			fmt.Fprintf(&sb, `\u%04x\u%04X`, r1, r2)
		default:
			fmt.Fprintf(&sb, `\u%04x`, r)
		}
	}
	sb.WriteByte('"')
	return sb.String()
}

// jsonCapable: can this value be carried by a JSON document at all?
func jsonCapable(t int, v *Val) bool {
	if v.Empty {
		return false
	}
	switch t {
	case TFloat:
		f := math.Float64frombits(v.F)
		return !math.IsNaN(f) && !math.IsInf(f, 0)
	case TString:
		return utf8.ValidString(string(v.S))
	}
	return true
}

// textCapable: env values cannot hold NUL; a tag default cannot hold the separator of its syntax.
func textCapable(t int, v *Val, src int, pipe bool) bool {
	if t != TString || v.Empty {
		return true
	}
	s := string(v.S)
	if strings.IndexByte(s, 0) >= 0 {
		return false
	}
	if src == 0 {
		if pipe {
			return !strings.Contains(s, "|")
		}
		return !strings.Contains(s, ",")
	}
	return true
}

// legalText is the harness' own sanity check of a rendering: the standard library reads the
// text back to the very value. It guards the generator, it is not part of the oracle.
func intBase() int {
	if intLiteralSpellings {
		return 0
	}
	return 10
}

func legalText(t int, text string, want any) bool {
	if text == "" {
		return equalVal(t, zeroOf(t), want)
	}
	var got any
	var err error
	switch t {
	case TBool:
		got, err = strconv.ParseBool(text)
	case TInt:
		var x int64
		x, err = strconv.ParseInt(text, intBase(), 64)
		got = int(x)
	case TInt64:
		got, err = strconv.ParseInt(text, intBase(), 64)
	case TUint:
		var x uint64
		x, err = strconv.ParseUint(text, intBase(), 64)
		got = uint(x)
	case TUint64:
		got, err = strconv.ParseUint(text, intBase(), 64)
	case TString:
		got = text
	case TFloat:
		got, err = strconv.ParseFloat(text, 64)
	case TDur:
		got, err = time.ParseDuration(text)
	case TBytes:
		got, err = base64.StdEncoding.DecodeString(text)
	}
	return err == nil && equalVal(t, want, got)
}

func (f *Field) tag() reflect.StructTag {
	if f.NoTag {
		return ""
	}
	sep, content := ",", f.TagName
	if f.Pipe {
		sep, content = "|", "|"+f.TagName
	}
	hasDef := f.Mask&SrcDef != 0
	t := typeIndex(f.Type)
	if hasDef || f.UsageMode > 0 {
		content += sep
		if hasDef {
			content += renderText(t, f.Src[0])
		}
	}
	switch f.UsageMode {
	case 1:
		content += sep
	case 2:
		content += sep + usageText
	}
	return reflect.StructTag(`flag:` + strconv.Quote(content))
}

// ---------------------------------------------------------------------------------------
// struct construction and walking

type leafRef struct {
	f     *Field
	t     int
	index []int    // reflect field index path
	path  []string // struct field names from the root
}

func collectLeaves(nodes []*Node, index []int, path []string, out *[]leafRef) {
	for i, n := range nodes {
		idx := append(append([]int{}, index...), i)
		p := append(append([]string{}, path...), n.Name)
		if n.Leaf != nil {
			*out = append(*out, leafRef{f: n.Leaf, t: typeIndex(n.Leaf.Type), index: idx, path: p})
		} else {
			collectLeaves(n.Kids, idx, p, out)
		}
	}
}

func buildType(nodes []*Node) reflect.Type {
	fs := make([]reflect.StructField, len(nodes))
	for i, n := range nodes {
		if n.Leaf != nil {
			fs[i] = reflect.StructField{Name: n.Name, Type: goTypes[typeIndex(n.Leaf.Type)], Tag: n.Leaf.tag()}
		} else {
			fs[i] = reflect.StructField{Name: n.Name, Type: buildType(n.Kids)}
		}
	}
	return reflect.StructOf(fs)
}

// renderDoc writes a JSON document by hand: keys are the struct field names, nested structs
// are nested objects. pick decides per leaf whether and with which value it is a member.
func renderDoc(nodes []*Node, style int, emptyObj bool, pick func(*Field) (string, bool)) string {
	var rec func(nodes []*Node, depth int) (string, bool)
	rec = func(nodes []*Node, depth int) (string, bool) {
		var members []string
		var twice []string // style&8: members written a second time
		for _, n := range nodes {
			key := jsonString(n.Name, false)
			if n.Leaf != nil {
				if txt, ok := pick(n.Leaf); ok {
					members = append(members, key+kvSep(style)+txt)
					twice = append(twice, key+kvSep(style)+txt)
				}
				continue
			}
			sub, any := rec(n.Kids, depth+1)
			if any || emptyObj {
				members = append(members, key+kvSep(style)+sub)
				if depth == 0 { // nested objects are repeated at the top level only, or the document doubles per level
					twice = append(twice, key+kvSep(style)+sub)
				}
			}
		}
		if style&2 != 0 { // reversed member order
			for i, j := 0, len(members)-1; i < j; i, j = i+1, j-1 {
				members[i], members[j] = members[j], members[i]
			}
		}
		if len(members) == 0 {
			return "{}", false
		}
		if style&8 != 0 { // members a second time, with the identical value
			members = append(members, twice...)
		}
		if style&4 != 0 { // CRLF line ends, blanks and tabs on both sides of every token
			ind := "\r\n" + strings.Repeat("  ", depth+1)
			return " { \t" + ind + strings.Join(members, "\t , "+ind) + " \r\n" + strings.Repeat("  ", depth) + "}\t ", true
		}
		if style&1 != 0 {
			ind := "\n" + strings.Repeat("\t", depth+1)
			return "{" + ind + strings.Join(members, " ,"+ind) + "\n" + strings.Repeat("\t", depth) + "}", true
		}
		return "{" + strings.Join(members, ",") + "}", true
	}
	s, _ := rec(nodes, 0)
	if style&1 != 0 {
		s = " \n" + s + "\n"
	}
	return s
}

func kvSep(style int) string {
	if style&4 != 0 {
		return "\t:\r\n  "
	}
	if style&1 != 0 {
		return " : "
	}
	return ":"
}

// ---------------------------------------------------------------------------------------
// execution

type harness struct {
	mu       sync.Mutex // guards stats and cells (peers run in goroutines)
	tmp      string     // scratch directory of this process
	cwd      string
	homeSet  bool
	homeOrig string
	stats    map[string]int64
	maxes    map[string]int64
	cells    map[string]struct{}
	dirs     map[string]bool
}

func newHarness() (*harness, error) {
	// scratch files live on tmpfs when there is one (a case writes one or two small files)
	tmp, err := os.MkdirTemp("/dev/shm", "cfgprio-")
	if err != nil {
		if tmp, err = os.MkdirTemp("", "cfgprio-"); err != nil {
			return nil, err
		}
	}
	if tmp, err = filepath.EvalSymlinks(tmp); err != nil {
		return nil, err
	}
	h := &harness{tmp: tmp, stats: map[string]int64{}, maxes: map[string]int64{}, cells: map[string]struct{}{}, dirs: map[string]bool{}}
	h.cwd, _ = os.Getwd()
	h.homeOrig, h.homeSet = os.LookupEnv("HOME")
	// a clean slate: nothing of the surrounding environment may look like a source
	for _, kv := range os.Environ() {
		if k, _, ok := strings.Cut(kv, "="); ok && (strings.HasPrefix(k, "CFG_") || k == "CONFIG") {
			os.Unsetenv(k)
		}
	}
	return h, nil
}

func (h *harness) close() { os.RemoveAll(h.tmp) }

// leftovers reports CFG_* variables that survived a case (harness self-check).
func leftovers() []string {
	var l []string
	for _, kv := range os.Environ() {
		if strings.HasPrefix(kv, "CFG_") || strings.HasPrefix(kv, "CONFIG=") {
			l = append(l, kv)
		}
	}
	return l
}

var decoyEnvNames = []string{"CFG_CONFIG", "CFG_CONFIG_PATH", "CFG_CONFIG_FILE", "CONFIG"}

const brokenPrefix = "BROKEN:"

func cliSynName(s int) string {
	return [...]string{"-n=v", "-n v", "--n=v", "--n v", "bare"}[s]
}

func maskName(m int) string {
	var p []string
	for s := 0; s < 4; s++ {
		if m&(1<<s) != 0 {
			p = append(p, srcNames[s])
		}
	}
	if len(p) == 0 {
		return "none"
	}
	return strings.Join(p, "+")
}

// selfCheck is the harness' own guard: every rendering of a round is legal for its source.
func selfCheck(leaves []leafRef) (key, observed string) {
	for _, l := range leaves {
		if l.t < 0 {
			return brokenPrefix + "type", l.f.Type
		}
		for s := 0; s < 4; s++ {
			v := l.f.Src[s]
			if (l.f.Mask&(1<<s) != 0) != (v != nil) {
				return brokenPrefix + "mask-src", strings.Join(l.path, ".")
			}
			if v == nil {
				continue
			}
			if s == 1 {
				if !jsonCapable(l.t, v) || !json.Valid([]byte(renderJSON(l.t, v))) {
					return brokenPrefix + "json-rendering", strings.Join(l.path, ".") + " " + renderJSON(l.t, v)
				}
				continue
			}
			txt := renderText(l.t, v)
			if !textCapable(l.t, v, s, l.f.Pipe) || !legalText(l.t, txt, goValue(l.t, v)) {
				return brokenPrefix + "text-rendering", fmt.Sprintf("%s %s %q", strings.Join(l.path, "."), srcNames[s], txt)
			}
		}
		if l.f.Mask&SrcCli != 0 {
			bare := l.f.CliSyn == 4
			if bare && !(l.t == TBool && !l.f.Src[3].Empty && l.f.Src[3].B) {
				return brokenPrefix + "bare-flag", strings.Join(l.path, ".")
			}
			if l.t == TBool && (l.f.CliSyn == 1 || l.f.CliSyn == 3) {
				return brokenPrefix + "bool-with-separate-value", strings.Join(l.path, ".")
			}
		}
	}
	return "", ""
}

// garbage is a value of type t that differs from want, non-zero whenever the type allows it:
// what a careless caller (or an earlier life of the program) left in the field.
func garbage(t int, want any) any {
	var cands []any
	switch t {
	case TBool:
		cands = []any{true, false}
	case TInt:
		cands = []any{int(-77001), int(77002)}
	case TInt64:
		cands = []any{int64(-77003), int64(77004)}
	case TUint:
		cands = []any{uint(77005), uint(77006)}
	case TUint64:
		cands = []any{uint64(77007), uint64(77008)}
	case TString:
		cands = []any{"stale-garbage", "stale-garbage-2"}
	case TFloat:
		cands = []any{77.125, -77.25}
	case TDur:
		cands = []any{77 * time.Hour, -77 * time.Minute}
	case TBytes:
		cands = []any{[]byte("stale"), []byte{0x77, 0}}
	}
	for _, c := range cands {
		if !equalVal(t, want, c) && !equalVal(t, c, want) {
			return c
		}
	}
	return cands[0]
}

// runCase builds the struct value, gives it its history (garbage before the first NewFlagSet,
// earlier NewFlagSet+Parse rounds with other sources) and runs the round under test, alone or
// next to concurrent peers. Every round is judged by its own sources only. A key starting with
// BROKEN: reports a defect of the harness itself (illegal rendering), never one of glb.
func runCase(cs *Case, h *harness) (key, expected, observed string) {
	// rounds, oldest first
	var rounds []*Case
	for c := cs; c != nil; c = c.Prior {
		rounds = append([]*Case{c}, rounds...)
		if len(rounds) > 8 {
			return brokenPrefix + "history-too-long", "", ""
		}
	}
	typ := buildType(cs.Root)
	leavesOf := make([][]leafRef, len(rounds))
	for i, rd := range rounds {
		collectLeaves(rd.Root, nil, nil, &leavesOf[i])
		if k, o := selfCheck(leavesOf[i]); k != "" {
			return k, "", fmt.Sprintf("round %d of %d: %s", i+1, len(rounds), o)
		}
		if rd != cs && (buildType(rd.Root) != typ || len(rd.Peers) > 0) {
			return brokenPrefix + "prior-type", "", "an earlier round does not use the same struct type"
		}
	}
	ptr := reflect.New(typ)
	prefill := func(p reflect.Value, leaves []leafRef) {
		root := p.Elem()
		for _, l := range leaves {
			want, _ := expectedOf(l.t, l.f)
			root.FieldByIndex(l.index).Set(reflect.ValueOf(garbage(l.t, want)))
		}
	}
	history := ""
	if cs.Prefill {
		prefill(ptr, leavesOf[0])
		history = "prefilled"
		h.count("history_prefilled_cases", 1)
	}
	for i := 0; i < len(rounds)-1; i++ {
		if k, e, o := runRound(rounds[i], h, ptr, leavesOf[i], history); k != "" {
			return fmt.Sprintf("%s/round=%dof%d", k, i+1, len(rounds)), e, o
		}
		history = "reload"
	}
	if len(rounds) > 1 {
		h.count("history_reload_cases", 1)
		h.count(fmt.Sprintf("history_reload_cases_%d_rounds", len(rounds)), 1)
	}
	leaves := leavesOf[len(rounds)-1]
	if len(cs.Peers) == 0 {
		return runRound(cs, h, ptr, leaves, history)
	}
	return runConcurrent(cs, h, typ, ptr, leaves, history, prefill)
}

func (h *harness) count(k string, n int64) {
	h.mu.Lock()
	h.stats[k] += n
	h.mu.Unlock()
}

// runRound sets the sources of one round for real, calls NewFlagSet and Parse of glb on the
// given struct value and compares every leaf with the value of its highest-priority source.
func runRound(cs *Case, h *harness, ptr reflect.Value, leaves []leafRef, history string) (key, expected, observed string) {
	if cs.FirstParse != nil {
		return runTwoParses(cs, h, ptr, leaves, history)
	}
	src, bk, bo := h.setSources(cs, leaves)
	defer src.cleanup()
	if bk != "" {
		return bk, "", bo
	}
	return h.parseAndCompare(cs, ptr, leaves, buildArgv(cs, leaves, src.cfgGroup), src.doc, history)
}

// how a Parse call is judged
const (
	judgeStrict = iota // an error of Parse is a violation
	judgeIfOK          // an error of Parse is legitimate (counted); a nil return is judged by the call's sources
	judgeNever         // the call is meant to fail: nothing is judged
)

// runTwoParses: one NewFlagSet, then two Parse calls on that FlagSet, each with its own sources
// really set while it runs. The first is either an ordinary call (judged as usual) or made to fail
// after it has seen valid sources; the second - the call under test - is judged by its own sources
// whenever it returns nil.
func runTwoParses(cs *Case, h *harness, ptr reflect.Value, leaves []leafRef, history string) (key, expected, observed string) {
	first := cs.FirstParse
	var fl []leafRef
	collectLeaves(first.Root, nil, nil, &fl)
	if k, o := selfCheck(fl); k != "" {
		return k, "", "first parse: " + o
	}
	if buildType(first.Root) != ptr.Type().Elem() || first.FirstParse != nil || first.Prior != nil || len(first.Peers) > 0 {
		return brokenPrefix + "first-parse-type", "", "the earlier Parse call does not use the same struct type"
	}
	before := capture(ptr, leaves, history)
	fs, k, e, o := h.open(ptr, leaves)
	if k != "" {
		return k, e, o
	}
	fail := effectiveFail(first, fl)
	// ---- first call
	src1, bk, bo := h.setSources(first, fl)
	if bk != "" {
		src1.cleanup()
		return bk, "", bo
	}
	mode := judgeStrict
	if fail != "" {
		mode = judgeNever
	}
	k, e, o, ok1 := h.parseJudge(fs, first, ptr, fl, buildArgv(first, fl, src1.cfgGroup), src1.doc, history, before, mode)
	src1.cleanup()
	if k != "" {
		return k + "/parse=1of2", e, o
	}
	switch {
	case fail == "":
		h.count("flagset_first_parse_ordinary", 1)
	case ok1:
		h.count("flagset_first_parse_meant_to_fail_but_accepted", 1) // not this property's business
	default:
		h.count("flagset_first_parse_failed_as_planned_"+fail, 1)
	}
	// ---- the call under test, on the same FlagSet
	src2, bk, bo := h.setSources(cs, leaves)
	defer src2.cleanup()
	if bk != "" {
		return bk, "", bo
	}
	label := "reparse-after-" + fail
	if fail == "" {
		label = "reparse-after-ok"
	}
	if history != "" {
		label = history + "+" + label
	}
	k, e, o, ok2 := h.parseJudge(fs, cs, ptr, leaves, buildArgv(cs, leaves, src2.cfgGroup), src2.doc, label, capture(ptr, leaves, label), judgeIfOK)
	if ok2 {
		h.count("flagset_second_parse_accepted_and_judged", 1)
	} else if k == "" {
		h.count("flagset_second_parse_refused", 1)
	}
	return k, e, o
}

// effectiveFail: the planned way to make the first call fail, or the fallback when the struct has
// no field it could be played on.
func effectiveFail(cs *Case, leaves []leafRef) string {
	switch cs.Fail {
	case "bad-value":
		if failLeaf(leaves, false) == nil {
			return "unknown-flag"
		}
	case "bad-env":
		if failLeaf(leaves, true) == nil {
			return "unknown-flag"
		}
	}
	return cs.Fail
}

// failLeaf: the first field whose type rejects the text "@@bad@@" (anything but string); for the
// environment it must not be mentioned on the command line (which would shadow the variable).
func failLeaf(leaves []leafRef, forEnv bool) *leafRef {
	for i, l := range leaves {
		if l.t != TString && !(forEnv && l.f.Mask&SrcCli != 0) {
			return &leaves[i]
		}
	}
	return nil
}

const badText = "@@bad@@"

// capture notes what the fields hold (diagnosis of stale values only).
func capture(ptr reflect.Value, leaves []leafRef, history string) []any {
	if history == "" {
		return nil
	}
	root := ptr.Elem()
	before := make([]any, len(leaves))
	for i, l := range leaves {
		before[i] = root.FieldByIndex(l.index).Interface()
		if b, ok := before[i].([]byte); ok {
			before[i] = append([]byte(nil), b...)
		}
	}
	return before
}

// runConcurrent: the sources shared by the whole process (files, environment) are set once; the
// round under test and each peer then run NewFlagSet+Parse in goroutines of their own, released
// together, each on its own struct value and with its own command line.
func runConcurrent(cs *Case, h *harness, typ reflect.Type, ptr reflect.Value, leaves []leafRef, history string, prefill func(reflect.Value, []leafRef)) (key, expected, observed string) {
	type unit struct {
		cs      *Case
		ptr     reflect.Value
		leaves  []leafRef
		argv    []string
		k, e, o string
	}
	units := []*unit{{cs: cs, ptr: ptr, leaves: leaves}}
	for pi, p := range cs.Peers {
		u := &unit{cs: p, ptr: reflect.New(typ)}
		collectLeaves(p.Root, nil, nil, &u.leaves)
		if k, o := selfCheck(u.leaves); k != "" {
			return k, "", fmt.Sprintf("peer %d: %s", pi, o)
		}
		if buildType(p.Root) != typ || len(u.leaves) != len(leaves) || p.Prior != nil || len(p.Peers) > 0 {
			return brokenPrefix + "peer-type", "", "a peer does not use the same struct type"
		}
		for i, l := range u.leaves { // tag, JSON and environment are shared: a peer may differ in its command line only
			m := leaves[i]
			if l.f.Mask&7 != m.f.Mask&7 || l.f.Env != m.f.Env {
				return brokenPrefix + "peer-sources", "", strings.Join(l.path, ".")
			}
			for sidx := 0; sidx < 3; sidx++ {
				if l.f.Src[sidx] == nil {
					continue
				}
				same := false
				if sidx == 1 {
					same = renderJSON(l.t, l.f.Src[1]) == renderJSON(m.t, m.f.Src[1])
				} else {
					same = renderText(l.t, l.f.Src[sidx]) == renderText(m.t, m.f.Src[sidx])
				}
				if !same {
					return brokenPrefix + "peer-sources", "", strings.Join(l.path, ".")
				}
			}
		}
		if cs.Prefill {
			prefill(u.ptr, u.leaves)
		}
		units = append(units, u)
	}
	src, bk, bo := h.setSources(cs, leaves)
	defer src.cleanup()
	if bk != "" {
		return bk, "", bo
	}
	for _, u := range units {
		u.argv = buildArgv(u.cs, u.leaves, src.cfgGroup)
	}
	start := make(chan struct{})
	var wg sync.WaitGroup
	for _, u := range units {
		wg.Add(1)
		go func(u *unit) {
			defer wg.Done()
			<-start
			hist := history
			if u.cs != cs {
				hist = ""
				if cs.Prefill {
					hist = "prefilled"
				}
			}
			u.k, u.e, u.o = h.parseAndCompare(u.cs, u.ptr, u.leaves, u.argv, src.doc, hist)
		}(u)
	}
	close(start)
	wg.Wait()
	h.count("concurrent_cases", 1)
	h.count("concurrent_flagsets", int64(len(units)))
	for i, u := range units {
		if u.k != "" {
			return fmt.Sprintf("%s/concurrent=%dof%d", u.k, i+1, len(units)), u.e, u.o
		}
	}
	return "", "", ""
}

// sources is what setSources leaves behind for one round.
type sources struct {
	cfgGroup []string // the -config tokens, if the carrier is a file
	doc      string
	cleanup  func()
}

// setSources really sets what is process-global: the environment variables of the fields, the
// JSON document in its carrier (file and/or CFG_CONFIG_B64), HOME, the decoy variables.
func (h *harness) setSources(cs *Case, leaves []leafRef) (out sources, key, observed string) {
	var envSet []string
	var files []string
	var pipes []*os.File
	setenv := func(k, v string) {
		os.Setenv(k, v)
		envSet = append(envSet, k)
	}
	out.cleanup = func() {
		for _, k := range envSet {
			os.Unsetenv(k)
		}
		for _, f := range files {
			os.Remove(f)
		}
		for _, f := range pipes {
			f.Close()
		}
		if h.homeSet {
			os.Setenv("HOME", h.homeOrig)
		} else {
			os.Unsetenv("HOME")
		}
	}
	doc := renderDoc(cs.Root, cs.JSONStyle, cs.EmptyObj, func(f *Field) (string, bool) {
		if f.Mask&SrcJSON == 0 {
			return "", false
		}
		return renderJSON(typeIndex(f.Type), f.Src[1]), true
	})
	poisonDoc := func() string {
		return renderDoc(cs.Root, 0, false, func(f *Field) (string, bool) {
			t := typeIndex(f.Type)
			e, _ := expectedOf(t, f)
			return renderJSON(t, poison(t, e)), true
		})
	}
	if !json.Valid([]byte(doc)) {
		return out, brokenPrefix + "json-doc", doc
	}

	for _, l := range leaves {
		if l.f.Mask&SrcEnv != 0 {
			setenv(l.f.Env, renderText(l.t, l.f.Src[2]))
		}
	}

	var cfgArg, abs string
	if cs.Carrier == CarFile || cs.Carrier == CarBoth {
		name := fileNames[cs.FileName%len(fileNames)]
		abs = filepath.Join(h.tmp, "home", name)
		if dir := filepath.Dir(abs); !h.dirs[dir] {
			if err := os.MkdirAll(dir, 0o755); err != nil {
				return out, brokenPrefix + "mkdir", err.Error()
			}
			h.dirs[dir] = true
		}
		if err := os.WriteFile(abs, []byte(doc), 0o644); err != nil {
			return out, brokenPrefix + "write", err.Error()
		}
		files = append(files, abs)
		cfgArg = abs
		switch cs.PathKind {
		case 1:
			os.Setenv("HOME", filepath.Join(h.tmp, "home"))
			cfgArg = "~/" + name
		case 2:
			if rel, err := filepath.Rel(h.cwd, abs); err == nil && h.cwd != "" {
				cfgArg = rel
			}
		case 3:
			// the document does not come from a regular file: -config names the read end of a pipe
			// (what /dev/stdin, /dev/fd/N or a process substitution give a program): a file whose size
			// stat reports as 0 and whose content ends when the writer has closed
			if len(doc) < 60000 && effectiveFail(cs, leaves) == "" {
				if pr, pw, err := os.Pipe(); err == nil {
					pw.Write([]byte(doc))
					pw.Close()
					pipes = append(pipes, pr)
					cfgArg = fmt.Sprintf("/proc/self/fd/%d", pr.Fd())
					h.count("config_read_from_a_pipe", 1)
				}
			}
		}
		switch cs.CfgSyn {
		case 0:
			out.cfgGroup = []string{"-config=" + cfgArg}
		case 1:
			out.cfgGroup = []string{"-config", cfgArg}
		case 2:
			out.cfgGroup = []string{"--config=" + cfgArg}
		default:
			out.cfgGroup = []string{"--config", cfgArg}
		}
	}
	switch cs.Carrier {
	case CarB64:
		setenv("CFG_CONFIG_B64", base64.StdEncoding.EncodeToString([]byte(doc)))
	case CarBoth:
		setenv("CFG_CONFIG_B64", base64.StdEncoding.EncodeToString([]byte(poisonDoc())))
	}
	if cs.Decoy {
		dp := filepath.Join(h.tmp, "decoy.json")
		if err := os.WriteFile(dp, []byte(poisonDoc()), 0o644); err != nil {
			return out, brokenPrefix + "write", err.Error()
		}
		files = append(files, dp)
		for _, k := range decoyEnvNames {
			setenv(k, dp)
		}
	}

	switch effectiveFail(cs, leaves) { // a first Parse call that is meant to fail (see Case.Fail)
	case "bad-env":
		setenv(failLeaf(leaves, true).f.Env, badText)
	case "bad-json":
		broken := `{"unterminated": [1, 2`
		if abs != "" {
			if err := os.WriteFile(abs, []byte(broken), 0o644); err != nil {
				return out, brokenPrefix + "write", err.Error()
			}
		} else {
			setenv("CFG_CONFIG_B64", base64.StdEncoding.EncodeToString([]byte(broken)))
		}
	}
	out.doc = doc
	if cs.Carrier != CarNone {
		h.maxOf("json_document_bytes", int64(len(doc)))
	}
	return out, "", ""
}

// buildArgv renders the command line of one FlagSet: the -config tokens and one flag per field the
// command line mentions, in the order given by the case's shuffle seed, then the tail.
func buildArgv(cs *Case, leaves []leafRef, cfgGroup []string) []string {
	type group []string
	var groups []group
	if cfgGroup != nil {
		groups = append(groups, group(cfgGroup))
	}
	for _, l := range leaves {
		if l.f.Mask&SrcCli == 0 {
			continue
		}
		txt := renderText(l.t, l.f.Src[3])
		switch l.f.CliSyn {
		case 0:
			groups = append(groups, group{"-" + l.f.Flag + "=" + txt})
		case 1:
			groups = append(groups, group{"-" + l.f.Flag, txt})
		case 2:
			groups = append(groups, group{"--" + l.f.Flag + "=" + txt})
		case 3:
			groups = append(groups, group{"--" + l.f.Flag, txt})
		case 4:
			if cs.Shuffle&1 == 0 {
				groups = append(groups, group{"-" + l.f.Flag})
			} else {
				groups = append(groups, group{"--" + l.f.Flag})
			}
		}
	}
	var help group
	if cs.Help > 0 {
		help = group{[...]string{"-help", "--help", "-help=true", "--help=true", "-help=false"}[(cs.Help-1)%5]}
		if cs.HelpPos == 0 {
			groups = append(groups, help)
		}
	}
	rand.New(rand.NewSource(cs.Shuffle)).Shuffle(len(groups), func(i, j int) { groups[i], groups[j] = groups[j], groups[i] })
	if help != nil && cs.HelpPos == 1 {
		groups = append([]group{help}, groups...)
	}
	if help != nil && cs.HelpPos >= 2 {
		groups = append(groups, help)
	}
	argv := []string{}
	for _, g := range groups {
		argv = append(argv, g...)
	}
	switch effectiveFail(cs, leaves) { // after the valid flags, so that they have been seen
	case "unknown-flag":
		argv = append(argv, "-no-such-flag=1")
	case "bad-value":
		argv = append(argv, "-"+failLeaf(leaves, false).f.Flag+"="+badText)
	case "missing-value":
		return append(argv, "-config") // the last token: its value is missing
	}
	return append(argv, cs.Tail...)
}

// parseAndCompare is the observation: NewFlagSet and Parse of glb on the given struct value, then
// every leaf against the value of its highest-priority source. Safe for concurrent use.
func (h *harness) parseAndCompare(cs *Case, ptr reflect.Value, leaves []leafRef, argv []string, doc, history string) (key, expected, observed string) {
	before := capture(ptr, leaves, history)
	fs, k, e, o := h.open(ptr, leaves)
	if k != "" {
		return k, e, o
	}
	k, e, o, _ = h.parseJudge(fs, cs, ptr, leaves, argv, doc, history, before, judgeStrict)
	return k, e, o
}

// open calls NewFlagSet on the struct value.
func (h *harness) open(ptr reflect.Value, leaves []leafRef) (fs *config.FlagSet, key, expected, observed string) {
	var err error
	if p := catch(func() { fs, err = config.NewFlagSet(ptr.Interface()) }); p != "" {
		return nil, "panic:NewFlagSet", "no panic", p
	}
	if err != nil {
		return nil, "newflagset-error:" + errKey(err, h, leaves, 0), "NewFlagSet accepts the struct (tags: " + tagList(leaves) + ")", err.Error()
	}
	return fs, "", "", ""
}

// parseJudge calls Parse on the FlagSet and - depending on mode and outcome - compares every leaf
// with the value of its highest-priority source. before is what the fields held earlier (diagnosis).
func (h *harness) parseJudge(fs *config.FlagSet, cs *Case, ptr reflect.Value, leaves []leafRef, argv []string, doc, history string, before []any, mode int) (key, expected, observed string, parsedOK bool) {
	stats := map[string]int64{}
	cells := map[string]struct{}{}
	defer func() {
		h.mu.Lock()
		for k, v := range stats {
			h.stats[k] += v
		}
		for k := range cells {
			h.cells[k] = struct{}{}
		}
		h.mu.Unlock()
	}()
	root := ptr.Elem()
	var err error
	if p := catch(func() { err = fs.Parse(argv) }); p != "" {
		return "panic:Parse", "no panic", p + " argv=" + fmt.Sprintf("%q", argv), false
	}
	if err != nil {
		if mode != judgeStrict {
			return "", "", "", false
		}
		return "parse-error:" + errKey(err, h, leaves, 3, 2), fmt.Sprintf("Parse(%q) = nil; env %s; json %s", argv, envList(leaves), strings.TrimSpace(doc)), err.Error(), false
	}
	if mode == judgeNever {
		return "", "", "", true
	}
	parsedOK = true
	stats["parses"]++
	if cs.Help > 0 {
		stats["parses_with_usage_flag"]++
		if fs.ShowUsage() {
			stats["parses_with_show_usage_true"]++
		}
	}

	// ---- compare
	for i, l := range leaves {
		want, winner := expectedOf(l.t, l.f)
		got := root.FieldByIndex(l.index).Interface()
		stats["fields_checked"]++
		wn := "none"
		if winner >= 0 {
			wn = srcNames[winner]
			if l.f.Src[winner].Empty {
				wn += "(empty)"
				stats["winner_is_empty_text"]++
			}
		}
		stats["winner_"+strings.TrimSuffix(wn, "(empty)")]++
		if winner == 2 {
			cells["envname:"+l.path[len(l.path)-1]] = struct{}{} // this identifier's environment name decided a field
		}
		cells[l.f.Type+"/"+maskName(l.f.Mask)] = struct{}{}
		stale := history != "" && !equalVal(l.t, want, before[i])
		if stale {
			stats["history_fields_prestate_differs"]++
			if winner < 0 || l.f.Src[winner].Empty {
				stats["history_fields_prestate_differs_want_zero_by_omission"]++
			}
		}
		if equalVal(l.t, want, got) {
			continue
		}
		// which value is it instead?
		is := "other"
		switch {
		case equalVal(l.t, zeroOf(l.t), got):
			is = "zero"
		case (cs.Decoy || cs.Carrier == CarBoth) && equalVal(l.t, goValue(l.t, poison(l.t, want)), got):
			is = "contradicting-document"
		}
		if stale && is != "contradicting-document" && equalVal(l.t, before[i], got) {
			is = "stale" // the value the field held before this round's NewFlagSet
		}
		for s := 0; s < 4; s++ {
			if s != winner && l.f.Mask&(1<<s) != 0 && equalVal(l.t, goValue(l.t, l.f.Src[s]), got) {
				is = srcNames[s]
				break
			}
		}
		key = fmt.Sprintf("field:%s/src=%s/win=%s/got=%s", l.f.Type, maskName(l.f.Mask), wn, is)
		if history != "" {
			key += "/history=" + history
		}
		expected = fmt.Sprintf("%s = %s (from %s); sources: %s; tag %s; env %s; argv %q; carrier %s; json %s",
			strings.Join(l.path, "."), showVal(l.t, want), wn, describeSources(l), l.f.tag(), l.f.Env, argv, cs.Carrier, strings.TrimSpace(doc))
		observed = showVal(l.t, got)
		if history != "" {
			expected += "; struct history: " + history + ", the field held " + showVal(l.t, before[i]) + " when NewFlagSet was called"
		}
		return key, expected, observed, true
	}
	return "", "", "", true
}

func catch(f func()) (p string) {
	defer func() {
		if r := recover(); r != nil {
			p = fmt.Sprintf("panic: %v", r)
		}
	}()
	f()
	return ""
}

// errKey classifies an error of NewFlagSet / Parse: the message with scratch paths and quoted
// input texts taken out, plus the field type and source whose rendered text the message quotes.
func errKey(err error, h *harness, leaves []leafRef, srcs ...int) string {
	msg := strings.ReplaceAll(err.Error(), h.tmp, "$TMP")
	who := ""
	if i := strings.IndexByte(msg, '"'); i >= 0 {
		if j := strings.LastIndexByte(msg, '"'); j > i {
			quoted := msg[i : j+1]
			if q, uerr := strconv.Unquote(quoted); uerr == nil {
			search:
				for _, l := range leaves {
					for _, s := range srcs {
						if l.f.Mask&(1<<s) != 0 && renderText(l.t, l.f.Src[s]) == q {
							who = "/field=" + l.f.Type + "/src=" + srcNames[s]
							break search
						}
					}
				}
			}
			msg = msg[:i] + `"..."` + msg[j+1:]
		}
	}
	if len(msg) > 90 {
		msg = msg[:90]
	}
	return strings.Map(func(r rune) rune {
		if r <= ' ' || r > '~' {
			return '_'
		}
		return r
	}, msg) + who
}

func describeSources(l leafRef) string {
	var p []string
	for s := 0; s < 4; s++ {
		if l.f.Mask&(1<<s) == 0 {
			continue
		}
		v := l.f.Src[s]
		if v.Empty {
			p = append(p, srcNames[s]+"=<empty text>")
		} else {
			p = append(p, srcNames[s]+"="+showVal(l.t, goValue(l.t, v)))
		}
	}
	if len(p) == 0 {
		return "none"
	}
	return strings.Join(p, ", ")
}

func tagList(leaves []leafRef) string {
	var p []string
	for _, l := range leaves {
		p = append(p, strings.Join(l.path, ".")+" "+string(l.f.tag()))
	}
	return strings.Join(p, "; ")
}

func envList(leaves []leafRef) string {
	var p []string
	for _, l := range leaves {
		if l.f.Mask&SrcEnv != 0 {
			p = append(p, l.f.Env+"="+strconv.QuoteToASCII(renderText(l.t, l.f.Src[2])))
		}
	}
	return "[" + strings.Join(p, " ") + "]"
}

// shape is the structural signature of a case (no concrete values).
func shape(cs *Case) (sig string, nontrivial bool) {
	var leaves []leafRef
	collectLeaves(cs.Root, nil, nil, &leaves)
	var sb strings.Builder
	fmt.Fprintf(&sb, "%s/%d/%v;", cs.Carrier, cs.PathKind, cs.Decoy)
	if cs.Prefill {
		sb.WriteString("prefilled;")
	}
	if cs.Help > 0 {
		fmt.Fprintf(&sb, "help%d/%d;", cs.Help, cs.HelpPos)
	}
	if cs.FirstParse != nil {
		fs, _ := shape(cs.FirstParse)
		sb.WriteString("reparse-after[" + cs.FirstParse.Fail + "]{" + fs + "};")
	}
	if cs.Prior != nil {
		ps, _ := shape(cs.Prior)
		sb.WriteString("after{" + ps + "};")
	}
	for _, l := range leaves {
		f := l.f
		fmt.Fprintf(&sb, "%s:%d:%d:%v:", f.Type, f.Mask, len(l.path)-1, f.Pipe)
		if f.Mask&SrcCli != 0 {
			fmt.Fprintf(&sb, "c%d", f.CliSyn)
		}
		want, winner := expectedOf(l.t, f)
		for s := 0; s < 4; s++ {
			if f.Mask&(1<<s) == 0 {
				continue
			}
			if f.Src[s].Empty {
				fmt.Fprintf(&sb, "e%d", s)
			} else if equalVal(l.t, zeroOf(l.t), goValue(l.t, f.Src[s])) {
				fmt.Fprintf(&sb, "z%d", s)
			}
		}
		sb.WriteByte(';')
		// non-trivial: the winner says something the next lower source (or the zero value) does not
		if winner >= 0 {
			lower := zeroOf(l.t)
			for s := winner - 1; s >= 0; s-- {
				if f.Mask&(1<<s) != 0 {
					lower = goValue(l.t, f.Src[s])
					break
				}
			}
			if !equalVal(l.t, want, lower) {
				nontrivial = true
			}
		}
	}
	return sb.String(), nontrivial
}
