package main

// Thorough-tier workload: more boundary values and spellings per type, more names (digits,
// underscores, 400 two-word names for wide structs), deeper and wider structs, large documents,
// longer reload histories and concurrent FlagSets. Nothing in here changes the reference model
// (expectedOf / equalVal) or the comparison: only what is generated. The quick tier never sets
// `deep` and therefore generates exactly what it did before.

import (
	"fmt"
	"math"
	"math/rand"
	"strings"
	"time"
	"unicode/utf8"
)

// deep is set by Run for the thorough tier before any case is generated.
var deep bool

func styleRange() int {
	if deep {
		return 16 // + CRLF/tab/blank padding, + every member twice with the identical value
	}
	return 4
}

func latticeDepths() []int {
	if deep {
		return []int{0, 1, 2, 3, 5}
	}
	return []int{0, 1, 2}
}

// ---------------------------------------------------------------------------------------
// names

// Identifiers with digits and underscores. The expected environment names are written by hand;
// S3AccessKey and Hex2bin are quoted in glb's own Underscore tests, the others follow the same two
// documented patterns (a digit run stays attached to the word before it; an underscore in the
// identifier is the separator itself).
var fieldPoolDigits = []nameEnt{
	{"Port2", "PORT2", "port2", "port2"},
	{"Node1Addr", "NODE1_ADDR", "node1addr", "node1-addr"},
	{"S3AccessKey", "S3_ACCESS_KEY", "s3accesskey", "s3-access-key"},
	{"Sha256Sum", "SHA256_SUM", "sha256sum", "sha256-sum"},
	{"Hex2bin", "HEX2BIN", "hex2bin", "hex2bin"},
	{"Max_Conn", "MAX_CONN", "max_conn", "max_conn"},
	{"Log_Level2", "LOG_LEVEL2", "log_level2", "log_level2"},
	{"Retry_3", "RETRY_3", "retry_3", "retry_3"},
	{"DB_Host", "DB_HOST", "db_host", "db_host"},
	{"X1", "X1", "x1", "x1"},
	{"A_B_C", "A_B_C", "a_b_c", "a_b_c"},
	{"Tier2_Quota", "TIER2_QUOTA", "tier2_quota", "tier2_quota"},
}

var groupPoolDigits = []nameEnt{
	{"Shard1", "SHARD1", "shard1", "shard1"},
	{"Zone_A", "ZONE_A", "zone_a", "zone_a"},
	{"S3", "S3", "s3", "s3"},
	{"Rev2", "REV2", "rev2", "rev2"},
}

// poolsDisjoint: a struct must never get a leaf and a nested struct of the same name (harness self-check).
func poolsDisjoint() string {
	for _, pools := range [][2][]nameEnt{{fieldPool, groupPool}, {deepFieldPool, deepGroupPool}} {
		seen := map[string]bool{}
		for _, g := range pools[1] {
			if seen[foldKey(g.Go)] {
				return "group name twice: " + g.Go
			}
			seen[foldKey(g.Go)] = true
		}
		for _, f := range pools[0] {
			if seen[foldKey(f.Go)] {
				return "field name equals a group name: " + f.Go
			}
		}
	}
	return ""
}

// Words for two-word CamelCase names (First+Second -> FIRST_SECOND), each with its hand-written
// upper- and lower-case form.
var nameWords = [][3]string{
	{"Read", "READ", "read"}, {"Write", "WRITE", "write"}, {"Max", "MAX", "max"}, {"Min", "MIN", "min"},
	{"Idle", "IDLE", "idle"}, {"Conn", "CONN", "conn"}, {"Pool", "POOL", "pool"}, {"Size", "SIZE", "size"},
	{"Count", "COUNT", "count"}, {"Limit", "LIMIT", "limit"}, {"Rate", "RATE", "rate"}, {"Burst", "BURST", "burst"},
	{"Retry", "RETRY", "retry"}, {"Delay", "DELAY", "delay"}, {"Path", "PATH", "path"}, {"Mode", "MODE", "mode"},
	{"Level", "LEVEL", "level"}, {"Quota", "QUOTA", "quota"}, {"Batch", "BATCH", "batch"}, {"Queue", "QUEUE", "queue"},
}

var (
	deepFieldPool []nameEnt
	deepGroupPool []nameEnt
)

func foldKey(s string) string { return strings.ToLower(strings.ReplaceAll(s, "_", "")) }

func init() {
	deepGroupPool = append(append([]nameEnt{}, groupPool...), groupPoolDigits...)
	taken := map[string]bool{}
	for _, g := range deepGroupPool {
		taken[foldKey(g.Go)] = true
	}
	deepFieldPool = append(append([]nameEnt{}, fieldPool...), fieldPoolDigits...)
	for _, f := range deepFieldPool {
		taken[foldKey(f.Go)] = true
	}
	for _, a := range nameWords {
		for _, b := range nameWords {
			e := nameEnt{a[0] + b[0], a[1] + "_" + b[1], a[2] + b[2], a[2] + "-" + b[2]}
			if taken[foldKey(e.Go)] {
				continue // e.g. RateLimit is a group name, MaxConn is in the base pool already
			}
			taken[foldKey(e.Go)] = true
			deepFieldPool = append(deepFieldPool, e)
		}
	}
}

func fields() []nameEnt {
	if deep {
		return deepFieldPool
	}
	return fieldPool
}

func groups() []nameEnt {
	if deep {
		return deepGroupPool
	}
	return groupPool
}

// ---------------------------------------------------------------------------------------
// values at and around the boundaries a decoder could mishandle

var (
	deepIntPool, deepUintPool, deepFloatPool, deepDurPool, deepStringPool, deepBytesPool []Val
)

func init() {
	// integers: around every power of two that is a type or float-mantissa boundary, and decimal round numbers
	seenI := map[int64]bool{}
	addI := func(x int64) {
		if !seenI[x] {
			seenI[x] = true
			deepIntPool = append(deepIntPool, Val{I: x})
		}
	}
	for _, x := range []int64{0, 1, -1, 42, -7, 9, 10, -10, 99, 100} {
		addI(x)
	}
	for _, k := range []uint{7, 8, 15, 16, 31, 32, 53, 62} {
		p := int64(1) << k
		for _, x := range []int64{p - 1, p, p + 1, -p + 1, -p, -p - 1} {
			addI(x)
		}
	}
	for _, x := range []int64{1<<53 + 2, 1<<53 + 3, -(1<<53 + 3), 1 << 54, 1<<54 + 1, math.MaxInt64, math.MaxInt64 - 1, math.MinInt64, math.MinInt64 + 1,
		1e15, 1e16, 1e17, 1e18, 999999999999999999, -999999999999999999, 123456789012345678, -1e18, 9007199254740993} {
		addI(x)
	}
	seenU := map[uint64]bool{}
	addU := func(x uint64) {
		if !seenU[x] {
			seenU[x] = true
			deepUintPool = append(deepUintPool, Val{U: x})
		}
	}
	for _, x := range []uint64{0, 1, 9, 10, 99, 100, 255} {
		addU(x)
	}
	for _, k := range []uint{7, 8, 15, 16, 31, 32, 53, 54, 62, 63} {
		p := uint64(1) << k
		addU(p - 1)
		addU(p)
		addU(p + 1)
	}
	for _, x := range []uint64{math.MaxUint64, math.MaxUint64 - 1, 1<<53 + 2, 1e15, 1e16, 1e19, 12345678901234567890, 9999999999999999999, 10000000000000000001, 18446744073709551610} {
		addU(x)
	}

	// floats: signed zero, subnormals, smallest/largest normal, integers around 2^53, values whose
	// shortest text sits at a formatting switch, famous rounding cases; in all number spellings
	fl := []float64{0, math.Copysign(0, -1), 1, -1, 0.5, 0.1, 0.2, 0.1 + 0.2, 1.0 / 3, math.Pi, math.E,
		math.MaxFloat64, -math.MaxFloat64, math.Nextafter(math.MaxFloat64, 0), math.SmallestNonzeroFloat64, -math.SmallestNonzeroFloat64,
		3 * math.SmallestNonzeroFloat64, 2.225073858507201e-308, 2.2250738585072014e-308, 2.2250738585072011e-308,
		1 << 53, 1<<53 + 2, -(1<<53 + 2), 1e15, 1e16, 1e20, 1e21, 1e22, 1e23, 9.999999999999999e22, 1e-4, 1e-5, 0.000123, 123456.7,
		1e300, 1e-300, 1e308, 1.7976931348623157e308, 3.4028234663852886e38, 16777217, 1.401298464324817e-45, 4294967296.5, -2.5e-7, 5e-324,
		100, 1e6, 123456789.125, 0.30000000000000004}
	for i, f := range fl {
		deepFloatPool = append(deepFloatPool, Val{F: fb(f), Fmt: i % 5})
	}
	for _, f := range []float64{math.MaxFloat64, math.SmallestNonzeroFloat64, 1e23, 1<<53 + 2, math.Copysign(0, -1), 0.1} {
		for fm := 0; fm < 5; fm++ {
			deepFloatPool = append(deepFloatPool, Val{F: fb(f), Fmt: fm})
		}
	}
	deepFloatPool = append(deepFloatPool, Val{F: fb(math.NaN())}, Val{F: fb(math.Inf(1))}, Val{F: fb(math.Inf(-1))})

	// durations: one of every unit and sign, around unit borders, extremes; spelled in every unit
	du := []int64{0, 1, -1, 999, 1000, 1001, 999999, 1e6, 1e6 + 1, 999999999, 1e9, 1e9 + 1, -1e9, 59e9, 60e9, 61e9, 3599e9, 3600e9, 3601e9,
		-3600e9, int64(90 * time.Minute), int64(1500 * time.Millisecond), int64(36*time.Hour + 5*time.Microsecond), int64(24 * time.Hour),
		int64(8760 * time.Hour), int64(time.Hour + time.Minute + time.Second + time.Millisecond + time.Microsecond + time.Nanosecond),
		1<<53 + 1, -(1<<53 + 1), math.MaxInt64, math.MaxInt64 - 1, math.MinInt64, math.MinInt64 + 1, 2562047 * 3600e9, 100e9, 1e12, 123456789}
	for i, d := range du {
		deepDurPool = append(deepDurPool, Val{I: d, Fmt: i % 11})
	}
	for _, d := range []int64{3600e9, int64(90 * time.Minute), 1e9, -5e6, 7e3, 2562047 * 3600e9, 1} {
		for fm := 0; fm < 11; fm++ {
			deepDurPool = append(deepDurPool, Val{I: d, Fmt: fm})
		}
	}

	// strings: the quick pool plus escapes, look-alikes of other types and of JSON, Unicode borders,
	// long values, and more invalid UTF-8 (text sources only)
	deepStringPool = append(deepStringPool, stringPool...)
	st := []string{"\b\f\r\n\t", "\x01\x1f\x7f", "\u0080\u00ff", "\u2028\u2029", "\ufeffbom", "\ufffd", "\ud7ff\ue000", "\U00010000\U0010ffff",
		`\u0041`, `\n`, `"`, `\`, `\"`, `\\"`, `'"'"'`, "%s%d%!", "$HOME ${X} $(id)", "`id`", "1e5", "-0", "NaN", "[1,2]", `{"a":1}`, `{"a":"b|c"}`, "true ", " ",
		"   ", "a=b=c", "--flag", "-x y", "a_b-c", "_-_", "-1", "_", "/", "//x/../y", "C:\\dir\\file", "null\n", "\"quoted\"", "tab\there",
		"\r\n", "é", "e\u0301", "\u00b5s", "\u03bcs", "İı", "ß", "\U0001f600\U0001f3fd", strings.Repeat("日本語", 100), strings.Repeat("x", 4096), strings.Repeat("ab \"c\\ ", 9363)}
	for i, x := range st {
		deepStringPool = append(deepStringPool, Val{S: QStr(x), Fmt: i % 4})
	}
	for _, x := range []string{"ünï©ødé 日本語 🙂", "<html>&amp;/\"\\", "\b\f\r\n\t/"} {
		for fm := 0; fm < 4; fm++ {
			deepStringPool = append(deepStringPool, Val{S: QStr(x), Fmt: fm})
		}
	}
	for _, x := range []string{"\xed\xa0\x80", "\xf4\x90\x80\x80", "\xc0\xaf", "abc\xe2\x82", "\x80", "ok\xffok"} {
		deepStringPool = append(deepStringPool, Val{S: QStr(x)})
	}

	// byte slices: every padding length, every byte value, texts full of + and /, sizes around
	// buffer borders
	deepBytesPool = append(deepBytesPool, bytesPool...)
	all := make([]byte, 256)
	for i := range all {
		all[i] = byte(i)
	}
	for i, n := range []int{1, 2, 3, 4, 5, 6, 7, 47, 48, 49, 57, 58, 63, 64, 65, 255, 256, 1023, 1024, 1025, 4095, 4096, 4097, 65536} {
		deepBytesPool = append(deepBytesPool, Val{Y: longBytes(n), Fmt: i % 2})
	}
	deepBytesPool = append(deepBytesPool, Val{Y: all}, Val{Y: all, Fmt: 1}, Val{Y: make([]byte, 33)}, Val{Y: []byte(strings.Repeat("\xff", 33)), Fmt: 1},
		Val{Y: []byte(strings.Repeat("\xfb\xef\xbe", 20))}, Val{Y: []byte(strings.Repeat("\xff\xff\xff", 20)), Fmt: 1}, Val{Y: []byte("=")}, Val{Y: []byte("==")},
		Val{Y: []byte("AAAA")}, Val{Y: []byte("\n")}, Val{Y: []byte("\r\n")}, Val{Y: []byte(`"`)}, Val{Y: []byte(`\`), Fmt: 1})
}

func deepPoolOf(t int) []Val {
	switch t {
	case TBool:
		return boolPool
	case TInt, TInt64:
		return deepIntPool
	case TUint, TUint64:
		return deepUintPool
	case TString:
		return deepStringPool
	case TFloat:
		return deepFloatPool
	case TDur:
		return deepDurPool
	case TBytes:
		return deepBytesPool
	}
	panic("bad type")
}

// fmtRange is the number of spellings a type has (Val.Fmt).
func fmtRange(t int) int {
	switch t {
	case TInt, TInt64, TUint, TUint64:
		if intLiteralSpellings {
			return 6
		}
	case TFloat:
		return 5
	case TDur:
		return 11
	case TString:
		return 4
	case TBytes:
		return 2
	}
	return 1
}

// ---------------------------------------------------------------------------------------
// wide and deep structs

// wideCase: 50..200 leaves with independent masks. Three layouts: all leaves in one struct (top
// level or at the bottom of a 1..5 level chain), or spread over a tree up to five levels deep.
func wideCase(r *rand.Rand) *Case {
	n := 50 + r.Intn(151)
	var o structOpts
	switch r.Intn(3) {
	case 0:
		o = structOpts{n: n, depthTable: []int{0}, ngroups: 1}
	case 1:
		d := 1 + r.Intn(5)
		o = structOpts{n: n, depthTable: []int{d}, ngroups: 1}
	default:
		o = structOpts{n: n, depthTable: []int{0, 1, 1, 2, 2, 3, 3, 4, 5, 5}, ngroups: 2 + r.Intn(3)}
	}
	cs := randStruct(r, &o)
	cs.Kind = "wide"
	return cs
}

// chainCase: a random struct that is parsed 3..5 times in a row, each round with sources of its own.
func chainCase(r *rand.Rand) *Case {
	cs := randStruct(r, nil)
	cs.Kind, cs.Prior = "chain", nil
	rounds := 3 + r.Intn(3)
	cur := cs
	for i := 1; i < rounds; i++ {
		cur.Prior = priorOf(r, cur, func(*Field) int { return r.Intn(8) << 1 })
		cur = cur.Prior
	}
	return cs
}

// peerOf: same struct type, same tag / JSON / environment per field, a command line of its own.
func peerOf(r *rand.Rand, cs *Case) *Case {
	var clone func(nodes []*Node) []*Node
	clone = func(nodes []*Node) []*Node {
		out := make([]*Node, len(nodes))
		for i, n := range nodes {
			c := &Node{Name: n.Name}
			if n.Leaf != nil {
				f := *n.Leaf
				t := typeIndex(f.Type)
				f.Mask = n.Leaf.Mask&7 | r.Intn(2)<<3
				f.Src[3], f.CliSyn = nil, 0
				fillFrom(r, t, &f, 3)
				c.Leaf = &f
			} else {
				c.Kids = clone(n.Kids)
			}
			out[i] = c
		}
		return out
	}
	p := &Case{Kind: "peer", Root: clone(cs.Root), Carrier: cs.Carrier, PathKind: cs.PathKind, FileName: cs.FileName, CfgSyn: cs.CfgSyn,
		JSONStyle: cs.JSONStyle, EmptyObj: cs.EmptyObj, Decoy: cs.Decoy, Shuffle: r.Int63()}
	if r.Intn(5) == 0 {
		p.Tail = tails[r.Intn(len(tails))]
	}
	withUsageFlag(r, p)
	return p
}

// concCase: 2..8 FlagSets for one struct type, made and parsed in goroutines released together.
func concCase(r *rand.Rand) *Case {
	cs := randStruct(r, nil)
	cs.Kind, cs.FirstParse = "concurrent", nil
	for g := 1 + r.Intn(7); g > 0; g-- {
		cs.Peers = append(cs.Peers, peerOf(r, cs))
	}
	return cs
}

// ---------------------------------------------------------------------------------------
// large values and documents

func bigString(n int, salt int) string {
	unit := fmt.Sprintf("%d: \"q\" \\b\\ a=b é日🙂 <&> ", salt)
	return strings.Repeat(unit, n/len(unit)+1)[:n-1] + "$"
}

func bigBytes(n int, salt int) []byte {
	b := make([]byte, n)
	x := uint32(salt)*2654435761 + 1
	for i := range b {
		x = x*1664525 + 1013904223
		b[i] = byte(x >> 24)
	}
	return b
}

// genBig enumerates string and []byte fields whose sources all carry large values (64 KiB + 1 and
// 1 MiB, different per source): 15 masks x {file, CFG_CONFIG_B64, both} x nesting, so that the tag,
// the JSON document in either carrier, the environment and the command line are each large in turn.
func genBig(seed int64, part, parts int, emit func(*Case) bool) {
	r := rand.New(rand.NewSource(seed*31337 + int64(part)*101 + 3))
	idx := 0
	for _, t := range []int{TString, TBytes} {
		for mask := 1; mask < 16; mask++ {
			for ci, car := range []struct {
				car  string
				path int
			}{{CarFile, 0}, {CarB64, 0}, {CarBoth, 1}} {
				for si, size := range []int{1<<16 + 1, 1 << 20} {
					idx++
					if idx%parts != part {
						continue
					}
					var sch [4]*Val
					for s := 0; s < 4; s++ {
						if mask&(1<<s) == 0 {
							continue
						}
						if t == TString {
							str := bigString(size-s, s)
							if !utf8.ValidString(str) { // the cut may split a rune
								str = strings.ToValidUTF8(str, "?")
							}
							sch[s] = &Val{S: QStr(str), Fmt: []int{0, 3}[(s+si)%2]}
						} else {
							sch[s] = &Val{Y: bigBytes(size-s, s+1), Fmt: (s + ci) % 2}
						}
					}
					syn := 0
					if mask&SrcCli != 0 {
						syn = (idx / parts) % 4
					}
					cs, _ := latticeCase(r, latticeCell{t, mask, []int{0, 2, 5}[(ci+si)%3], idx%2 == 0, car.car, car.path}, sch, syn)
					cs.Kind = "big"
					if !emit(cs) {
						return
					}
				}
			}
		}
	}
}

// ---------------------------------------------------------------------------------------
// evidence counters for the workload dimensions above (they describe what was generated and
// executed; they decide nothing)

func (h *harness) maxOf(k string, n int64) {
	h.mu.Lock()
	if n > h.maxes[k] {
		h.maxes[k] = n
	}
	h.mu.Unlock()
}

func (h *harness) observe(cs *Case) {
	var leaves []leafRef
	collectLeaves(cs.Root, nil, nil, &leaves)
	h.count("cases_kind_"+cs.Kind, 1)
	h.maxOf("fields_in_one_case", int64(len(leaves)))
	perStruct := map[string]int64{}
	for _, l := range leaves {
		depth := int64(len(l.path) - 1)
		h.maxOf("nesting_depth", depth)
		if depth >= 4 {
			h.count("fields_nested_4_or_5_deep", 1)
		}
		parent := strings.Join(l.path[:len(l.path)-1], ".")
		perStruct[parent]++
		if strings.ContainsAny(strings.Join(l.path, ""), "0123456789_") {
			h.count("fields_with_digits_or_underscores_in_name_path", 1)
		}
		for s := 0; s < 4; s++ {
			v := l.f.Src[s]
			if v == nil || v.Empty {
				continue
			}
			switch l.t {
			case TInt, TInt64, TDur:
				if s == 1 && (v.I > 1<<53 || v.I < -(1<<53)) {
					h.count("json_integers_beyond_2^53", 1)
				}
				if l.t == TDur && s != 1 && v.Fmt != 0 {
					h.count(fmt.Sprintf("duration_text_spelling_%d", v.Fmt), 1)
				}
			case TUint, TUint64:
				if s == 1 && v.U > 1<<53 {
					h.count("json_integers_beyond_2^53", 1)
				}
			case TFloat:
				if v.Fmt != 0 {
					h.count(fmt.Sprintf("float_spelling_%d", v.Fmt), 1)
				}
				if f := math.Float64frombits(v.F); f != 0 && math.Abs(f) < 2.2250738585072014e-308 {
					h.count("float_subnormal_values", 1)
				}
			case TString:
				if s == 1 && v.Fmt != 0 {
					h.count(fmt.Sprintf("json_string_spelling_%d", v.Fmt), 1)
				}
				if s != 1 && !utf8.ValidString(string(v.S)) {
					h.count("text_strings_with_invalid_utf8", 1)
				}
				h.maxOf("value_bytes", int64(len(v.S)))
			case TBytes:
				h.maxOf("value_bytes", int64(len(v.Y)))
			}
		}
	}
	for _, n := range perStruct {
		h.maxOf("fields_in_one_struct", n)
	}
	if cs.JSONStyle&8 != 0 && cs.Carrier != CarNone {
		h.count("json_documents_with_every_member_twice", 1)
	}
	if cs.JSONStyle&4 != 0 && cs.Carrier != CarNone {
		h.count("json_documents_crlf_tab_padded", 1)
	}
	rounds := 1
	for p := cs.Prior; p != nil; p = p.Prior {
		rounds++
	}
	h.maxOf("rounds_on_one_struct_value", int64(rounds))
	h.maxOf("concurrent_flagsets_of_one_type", int64(1+len(cs.Peers)))
}
