package main

import (
	"fmt"
	"math"
	"math/rand"
	"strings"
	"time"
)

// ---------------------------------------------------------------------------------------
// Name pools. The expected environment name fragment and the implicit flag name are written
// by hand next to each Go identifier, so that strutil.Underscore / strings.ToLower are not
// re-implemented by the monitor. fieldPoolWords holds plain CamelCase words whose upper snake
// case is beyond dispute (UserID and MysqlDSN appear in glb's own Underscore tests).
// fieldPoolBranches walks the word-boundary rule that glb documents (the comment "ABc => A_Bc"
// in Underscore and its test table: userId, UserID, MysqlDSN, S3AccessKey, 9PProtocol, Hex2bin,
// "Regular 4G"), worked out by hand for every entry:
//   - a capital starts a new word when the character before it is a lower-case letter, or when
//     the character after it is a lower-case letter (so the last capital of a run belongs to the
//     word that follows: ABc = A|Bc, UserIDs = User|I|Ds);
//   - digits never start a word and a lower-case letter after a digit stays in the word (A1b);
//     a capital after a digit starts a word only when a lower-case letter follows it (A1Bc = A1|Bc,
//     A1B = A1B);
//   - an underscore in the identifier is a word boundary itself (runs collapse, a trailing one vanishes).
// The rule is applied the same way at the start, in the middle and at the very end of a name:
// capital runs of length 1, 2 and 3 before a lower-case letter at each position, capitals and
// digits last, single-letter words, names of one to three characters.

type nameEnt struct {
	Go, Env, Lower, Kebab string
}

var fieldPool = append(append([]nameEnt{}, fieldPoolWords...), fieldPoolBranches...)

var fieldPoolBranches = []nameEnt{
	// one to three characters
	{"A", "A", "a", "a"},
	{"Ab", "AB", "ab", "ab"},
	{"AB", "AB", "ab", "ab-caps"},
	{"Abc", "ABC", "abc", "abc"},
	{"ABc", "A_BC", "abc", "a-bc"},
	{"AbC", "AB_C", "abc", "ab-c"},
	{"ABC", "ABC", "abc", "abc-caps"},
	{"A1", "A1", "a1", "a1"},
	{"A1b", "A1B", "a1b", "a1b"},
	{"A1B", "A1B", "a1b", "a1b-caps"},
	{"V2", "V2", "v2", "v2"},
	{"IDs", "I_DS", "ids", "i-ds"},
	{"Ip", "IP", "ip", "ip"},
	// capital runs of length 1, 2, 3 before a lower-case letter: at the start ...
	{"ABCd", "AB_CD", "abcd", "ab-cd"},
	{"ABCde", "AB_CDE", "abcde", "ab-cde"},
	{"IPAddr", "IP_ADDR", "ipaddr", "ip-addr"},
	{"APIKey", "API_KEY", "apikey", "api-key"},
	{"HTTPServer", "HTTP_SERVER", "httpserver", "http-server"},
	{"OAuth", "O_AUTH", "oauth", "o-auth"},
	{"ATeam", "A_TEAM", "ateam", "a-team"},
	// ... in the middle ...
	{"XyAbZz", "XY_AB_ZZ", "xyabzz", "xy-ab-zz"},
	{"XyABcZz", "XY_A_BC_ZZ", "xyabczz", "xy-a-bc-zz"},
	{"XyABCdZz", "XY_AB_CD_ZZ", "xyabcdzz", "xy-ab-cd-zz"},
	{"MyHTTPServer", "MY_HTTP_SERVER", "myhttpserver", "my-http-server"},
	{"GetXValue", "GET_X_VALUE", "getxvalue", "get-x-value"},
	{"IsAOk", "IS_A_OK", "isaok", "is-a-ok"},
	// ... and at the very end
	{"XyAb", "XY_AB", "xyab", "xy-ab"},
	{"XyABc", "XY_A_BC", "xyabc", "xy-a-bc"},
	{"XyABCd", "XY_AB_CD", "xyabcd", "xy-ab-cd"},
	{"UserIDs", "USER_I_DS", "userids", "user-i-ds"},
	{"TxIDs", "TX_I_DS", "txids", "tx-i-ds"},
	{"GetXy", "GET_XY", "getxy", "get-xy"},
	// capitals last
	{"XyA", "XY_A", "xya", "xy-a"},
	{"XyAB", "XY_AB", "xyab", "xy-ab-caps"},
	{"XyABC", "XY_ABC", "xyabc", "xy-abc-caps"},
	{"GetX", "GET_X", "getx", "get-x"},
	{"TeamA", "TEAM_A", "teama", "team-a"},
	{"AddrIP", "ADDR_IP", "addrip", "addr-ip"},
	{"KeyAPI", "KEY_API", "keyapi", "key-api"},
	{"ServerHTTP", "SERVER_HTTP", "serverhttp", "server-http"},
	// digits before and after capitals, at every position
	{"Http2Tx", "HTTP2_TX", "http2tx", "http2-tx"},
	{"Http2T", "HTTP2T", "http2t", "http2t"},
	{"Http2", "HTTP2", "http2", "http2"},
	{"X509Cert", "X509_CERT", "x509cert", "x509-cert"},
	{"X509CERT", "X509CERT", "x509cert", "x509cert-caps"},
	{"TLSv1", "TL_SV1", "tlsv1", "tl-sv1"},
	{"A1Bc", "A1_BC", "a1bc", "a1-bc"},
	{"A1BCd", "A1B_CD", "a1bcd", "a1b-cd"},
	{"Xy1Z", "XY1Z", "xy1z", "xy1z"},
	{"Xy1Zz", "XY1_ZZ", "xy1zz", "xy1-zz"},
	{"Xy12", "XY12", "xy12", "xy12"},
	{"P2p", "P2P", "p2p", "p2p"},
	{"Go1x", "GO1X", "go1x", "go1x"},
	{"Utf8", "UTF8", "utf8", "utf8"},
	{"UTF8Bom", "UTF8_BOM", "utf8bom", "utf8-bom"},
	{"Sha256", "SHA256", "sha256", "sha256"},
	// underscores in the identifier
	{"A_b", "A_B", "a_b", "a_b"},
	{"Ab_Cd", "AB_CD", "ab_cd", "ab_cd"},
	{"AB_Cd", "AB_CD", "ab_cd", "ab_cd-caps"},
	{"A__B", "A_B", "a__b", "a__b"},
	{"Ab_", "AB", "ab_", "ab_"},
	{"Ab_1", "AB_1", "ab_1", "ab_1"},
	{"Ab_c", "AB_C", "ab_c", "ab_c"},
}

var fieldPoolWords = []nameEnt{
	{"Host", "HOST", "host", "host"},
	{"Port", "PORT", "port", "port"},
	{"MaxConn", "MAX_CONN", "maxconn", "max-conn"},
	{"Timeout", "TIMEOUT", "timeout", "timeout"},
	{"RetryCount", "RETRY_COUNT", "retrycount", "retry-count"},
	{"Debug", "DEBUG", "debug", "debug"},
	{"Secret", "SECRET", "secret", "secret"},
	{"Ratio", "RATIO", "ratio", "ratio"},
	{"LogLevel", "LOG_LEVEL", "loglevel", "log-level"},
	{"ListenAddr", "LISTEN_ADDR", "listenaddr", "listen-addr"},
	{"ReadTimeout", "READ_TIMEOUT", "readtimeout", "read-timeout"},
	{"Name", "NAME", "name", "name"},
	{"Key", "KEY", "key", "key"},
	{"Weight", "WEIGHT", "weight", "weight"},
	{"Burst", "BURST", "burst", "burst"},
	{"CacheSize", "CACHE_SIZE", "cachesize", "cache-size"},
	{"IdleConns", "IDLE_CONNS", "idleconns", "idle-conns"},
	{"Verbose", "VERBOSE", "verbose", "verbose"},
	{"Token", "TOKEN", "token", "token"},
	{"Interval", "INTERVAL", "interval", "interval"},
	{"UserID", "USER_ID", "userid", "user-id"},
	{"MysqlDSN", "MYSQL_DSN", "mysqldsn", "mysql-dsn"},
	{"X", "X", "x", "x"},
	{"Salt", "SALT", "salt", "salt"},
}

var groupPool = []nameEnt{
	{"DB", "DB", "db", "db"},
	{"Server", "SERVER", "server", "server"},
	{"Pool", "POOL", "pool", "pool"},
	{"Cache", "CACHE", "cache", "cache"},
	{"Log", "LOG", "log", "log"},
	{"RateLimit", "RATE_LIMIT", "ratelimit", "rate-limit"},
	{"Upstream", "UPSTREAM", "upstream", "upstream"},
	{"Auth", "AUTH", "auth", "auth"},
	// word-boundary rule inside a group path (see fieldPoolBranches); disjoint from the field names
	{"NodeIDs", "NODE_I_DS", "nodeids", "node-i-ds"},
	{"Tls2Rx", "TLS2_RX", "tls2rx", "tls2-rx"},
	{"PeerAB", "PEER_AB", "peerab", "peer-ab"},
	{"B1", "B1", "b1", "b1"},
}

// ---------------------------------------------------------------------------------------
// Value pools per type: zero, one, extremes, awkward.

func fb(f float64) uint64 { return math.Float64bits(f) }

// intLiteralSpellings: render integers for the text sources also as Go literals (0x.., 0o.., 0b..,
// leading-0 octal, _ separators). config mirrors the standard flag package, whose integer flags
// "accept 1234, 0664, 0x1234"; all four integer kinds parse with strconv base 0 and the reference
// grammar of C10 assumes the same syntax. The statement does not spell the syntax out, which is
// recorded under Assumptions.
const intLiteralSpellings = true

func init() {
	if !intLiteralSpellings {
		return
	}
	intPool = append(intPool, literalInts...)
	uintPool = append(uintPool, literalUints...)
	deepIntPool = append(deepIntPool, literalInts...)
	deepUintPool = append(deepUintPool, literalUints...)
	deepUintPool = append(deepUintPool, Val{U: 1 << 63, Fmt: 1}, Val{U: 1<<53 + 1, Fmt: 2}, Val{U: math.MaxUint64, Fmt: 3}, Val{U: math.MaxUint64, Fmt: 5})
	deepIntPool = append(deepIntPool, Val{I: math.MaxInt64, Fmt: 1}, Val{I: math.MinInt64, Fmt: 4}, Val{I: -(1<<53 + 1), Fmt: 2}, Val{I: math.MaxInt64, Fmt: 5}, Val{I: -1, Fmt: 3})
}

// one value per spelling and a few more: 0644-style octal, hex, 0o, 0b, _ separators
var literalInts = []Val{{I: 0o644, Fmt: 4}, {I: 255, Fmt: 1}, {I: -255, Fmt: 1}, {I: 15, Fmt: 2}, {I: 5, Fmt: 3}, {I: 1000000, Fmt: 5}, {I: math.MinInt64, Fmt: 1}}
var literalUints = []Val{{U: 0o644, Fmt: 4}, {U: 8, Fmt: 4}, {U: math.MaxUint64, Fmt: 1}, {U: 15, Fmt: 2}, {U: 5, Fmt: 3}, {U: 1000000, Fmt: 5}}

var boolPool = []Val{{B: false}, {B: true}}

var intPool = []Val{
	{I: 0}, {I: 1}, {I: -1}, {I: math.MaxInt64}, {I: math.MinInt64}, {I: 42}, {I: -7},
	{I: 1 << 31}, {I: -(1 << 31) - 1}, {I: 1 << 53}, {I: 9007199254740993}, {I: 100000000000000000}, {I: 8},
}

var uintPool = []Val{
	{U: 0}, {U: 1}, {U: math.MaxUint64}, {U: math.MaxInt64 + 1}, {U: 255}, {U: 1 << 32},
	{U: 9007199254740993}, {U: 10}, {U: 18446744073709551614},
}

var floatPool = []Val{
	{F: fb(0)}, {F: fb(1)}, {F: fb(-1)}, {F: fb(0.5)}, {F: fb(math.MaxFloat64)}, {F: fb(-math.MaxFloat64)},
	{F: fb(math.SmallestNonzeroFloat64)}, {F: fb(math.Copysign(0, -1))}, {F: fb(1e21)}, {F: fb(0.1)},
	{F: fb(math.Pi), Fmt: 1}, {F: fb(9007199254740993)}, {F: fb(1e6), Fmt: 2}, {F: fb(-2.5e-7)}, {F: fb(123456789.125), Fmt: 2},
	{F: fb(math.MaxFloat64), Fmt: 2}, {F: fb(1e-320), Fmt: 1}, {F: fb(3), Fmt: 1},
	// not expressible in JSON: only via default / env / cli
	{F: fb(math.NaN())}, {F: fb(math.Inf(1))}, {F: fb(math.Inf(-1))},
}

var durPool = []Val{
	{I: 0}, {I: 1}, {I: int64(time.Second)}, {I: -int64(time.Second)}, {I: int64(90 * time.Minute)},
	{I: math.MaxInt64}, {I: math.MinInt64}, {I: int64(1500 * time.Millisecond)}, {I: int64(time.Hour)},
	{I: -1}, {I: int64(36*time.Hour + 5*time.Microsecond)}, {I: 999}, {I: 1001},
}

var stringPool = []Val{
	{S: ""}, {S: "a"}, {S: "x,y"}, {S: "p|q"}, {S: "k=v"}, {S: "a b  c"}, {S: "ünï©ødé 日本語 🙂"},
	{S: "-dash"}, {S: "--"}, {S: "-n=1"}, {S: " lead"}, {S: "trail "}, {S: "\ttab"}, {S: `quote"s'`},
	{S: `back\slash`}, {S: "line\nbreak"}, {S: "a,b|c"}, {S: "true"}, {S: "0"}, {S: "null"}, {S: "{}"},
	{S: "<html>&amp;"}, {S: " sep ", Fmt: 1}, {S: "=", Fmt: 1}, {S: ",,"}, {S: "||"}, {S: "~/x"}, {S: "ÿ🙂", Fmt: 1},
	{S: ":80"}, {S: "-"}, {S: QStr(strings.Repeat("long-", 120))},
	// not expressible in JSON: only via default / env / cli
	{S: "\xff\xfe bad utf8"}, {S: "\xc3"},
}

var bytesPool = []Val{
	{Y: nil}, {Y: []byte{0}}, {Y: []byte("hello")}, {Y: []byte{0xff, 0xfe, 0xfd}}, {Y: []byte{0xfb, 0xef, 0xbe}},
	{Y: []byte{0xff, 0xff, 0xff, 0xff}}, {Y: []byte("ab")}, {Y: []byte("_nian_")}, {Y: []byte{0, 0}},
	{Y: []byte("a,b|c=d e")}, {Y: longBytes(301)}, {Y: []byte{'-'}},
}

func longBytes(n int) []byte {
	b := make([]byte, n)
	for i := range b {
		b[i] = byte(i * 7)
	}
	return b
}

func poolOf(t int) []Val {
	if deep {
		return deepPoolOf(t)
	}
	switch t {
	case TBool:
		return boolPool
	case TInt, TInt64:
		return intPool
	case TUint, TUint64:
		return uintPool
	case TString:
		return stringPool
	case TFloat:
		return floatPool
	case TDur:
		return durPool
	case TBytes:
		return bytesPool
	}
	panic("bad type")
}

// usable: may value v be given to field type t by source src (with this tag syntax)?
func usable(t int, v *Val, src int, pipe bool) bool {
	if src == 1 {
		return jsonCapable(t, v)
	}
	return textCapable(t, v, src, pipe)
}

// ---------------------------------------------------------------------------------------
// Building blocks shared by the lattice and the random generator.

type namer struct {
	flags map[string]bool
	envs  map[string]bool
}

func newNamer() *namer {
	return &namer{flags: map[string]bool{"help": true, "config": true}, envs: map[string]bool{"CFG_CONFIG_B64": true, "CFG_CONFIG": true, "CFG_CONFIG_PATH": true, "CFG_CONFIG_FILE": true}}
}

// name fills Env / Flag / TagName / NoTag of a leaf at the given group path.
// mode: 0 implicit name (falls back to explicit on a clash), 1 kebab path, 2 short unique name, 3 dotted path.
func (nm *namer) name(f *Field, groups []nameEnt, fe nameEnt, mode int, allowNoTag bool) bool {
	env := "CFG_"
	for _, g := range groups {
		env += g.Env + "_"
	}
	env += fe.Env
	if nm.envs[env] {
		return false
	}
	var flag string
	if mode == 0 && !nm.flags[fe.Lower] {
		flag = fe.Lower
		f.TagName = ""
		f.NoTag = allowNoTag && f.Mask&SrcDef == 0 && f.UsageMode == 0
	} else {
		var parts []string
		for _, g := range groups {
			parts = append(parts, g.Kebab)
		}
		parts = append(parts, fe.Kebab)
		switch mode {
		case 2:
			flag = fmt.Sprintf("f%d", len(nm.flags))
		case 3:
			flag = strings.Join(parts, ".")
		default:
			flag = strings.Join(parts, "-")
		}
		for nm.flags[flag] {
			flag += "_"
		}
		f.TagName = flag
	}
	f.Flag = flag
	f.Env = env
	nm.flags[flag] = true
	nm.envs[env] = true
	return true
}

// sameVal: do two source values of one field denote the same final value?
func sameVal(t int, a, b *Val) bool { return equalVal(t, goValue(t, a), goValue(t, b)) }

// cliSyntaxes lists the command-line spellings that are legal for this type and value.
func cliSyntaxes(t int, v *Val) []int {
	if t == TBool {
		if !v.Empty && v.B {
			return []int{0, 2, 4}
		}
		return []int{0, 2}
	}
	return []int{0, 1, 2, 3}
}

// ---------------------------------------------------------------------------------------
// Exhaustive lattice

type latticeCell struct {
	t, mask, depth int
	pipe           bool
	carrier        string
	pathKind       int
}

var latticeCarriers = []struct {
	car  string
	path int
}{{CarFile, 0}, {CarFile, 1}, {CarFile, 2}, {CarB64, 0}, {CarBoth, 0}, {CarNone, 0}}

// valueSchemes returns, for one cell, the value assignments to try: every pool value in every
// source position (rotating, so that neighbouring sources always differ), and for each textual
// source an "empty text" variant with the other sources non-zero.
func valueSchemes(t, mask int, pipe bool) [][4]*Val {
	pool := poolOf(t)
	var out [][4]*Val
	// pickFrom walks the pool from start and returns the first value that source src can carry,
	// that differs from the next lower source and (if asked) from the zero value; when the type is
	// too small for that (bool) the distinctness demand is dropped first, then the non-zero one.
	pickFrom := func(start, src int, lower *Val, nonZero bool) *Val {
		for relax := 0; relax < 3; relax++ {
			for i := 0; i < len(pool); i++ {
				v := pool[(start+i)%len(pool)]
				if !usable(t, &v, src, pipe) {
					continue
				}
				if relax < 1 && lower != nil && sameVal(t, &v, lower) {
					continue
				}
				if relax < 2 && nonZero && equalVal(t, zeroOf(t), goValue(t, &v)) {
					continue
				}
				return &v
			}
		}
		return nil
	}
	for k := 0; k < len(pool); k++ {
		var a [4]*Val
		var lower *Val
		ok := true
		for s := 0; s < 4; s++ {
			if mask&(1<<s) == 0 {
				continue
			}
			// the highest source walks through the pool in order, the lower ones follow at a distance
			v := pickFrom(k+(3-s)*3, s, lower, false)
			if v == nil {
				ok = false
				break
			}
			a[s] = v
			lower = v
		}
		if ok {
			out = append(out, a)
		}
	}
	for _, es := range []int{0, 2, 3} {
		if mask&(1<<es) == 0 {
			continue
		}
		for rot := 0; rot < 2; rot++ {
			var a [4]*Val
			var lower *Val
			for s := 0; s < 4; s++ {
				if mask&(1<<s) == 0 {
					continue
				}
				if s == es {
					a[s] = &Val{Empty: true}
					lower = a[s]
					continue
				}
				a[s] = pickFrom(1+rot*5+s*2, s, lower, true)
				lower = a[s]
			}
			out = append(out, a)
		}
	}
	if mask == 0 {
		out = append(out, [4]*Val{})
	}
	return out
}

// genLattice enumerates the lattice and calls emit for every case that belongs to this part.
func genLattice(seed int64, part, parts int, emit func(*Case) bool) {
	r := rand.New(rand.NewSource(seed*7919 + int64(part)*104729 + 17))
	idx := 0
	for t := 0; t < nTypes; t++ {
		for mask := 0; mask < 16; mask++ {
			for _, depth := range latticeDepths() {
				for _, pipe := range []bool{false, true} {
					schemes := valueSchemes(t, mask, pipe)
					for _, car := range latticeCarriers {
						if car.car == CarNone && mask&SrcJSON != 0 {
							continue // a JSON source needs a carrier
						}
						for _, sch := range schemes {
							syns := []int{0}
							if mask&SrcCli != 0 {
								syns = cliSyntaxes(t, sch[3])
							}
							for _, syn := range syns {
								idx++
								if idx%parts != part {
									continue
								}
								cs, _ := latticeCase(r, latticeCell{t, mask, depth, pipe, car.car, car.path}, sch, syn)
								cs.Prefill = r.Intn(4) == 0 // the struct handed over need not be zeroed
								if !emit(cs) {
									return
								}
							}
						}
					}
				}
			}
		}
	}
	genHistoryLattice(r, &idx, part, parts, emit)
}

// genHistoryLattice: the struct value has a past. Per type x mask x depth x tag syntax:
// (a) every leaf pre-filled with garbage before NewFlagSet, for the first value schemes and every
// empty-text scheme; (b) reload - an earlier NewFlagSet+Parse round on the same struct value in
// which the field under test was mentioned by each of the 8 subsets of {JSON, env, cli} (the tag is
// part of the type and stays), then the round under test, which alone decides the expected values.
func genHistoryLattice(r *rand.Rand, idx *int, part, parts int, emit func(*Case) bool) {
	withJSON := latticeCarriers[:5]
	for t := 0; t < nTypes; t++ {
		for mask := 0; mask < 16; mask++ {
			for _, depth := range latticeDepths() {
				for _, pipe := range []bool{false, true} {
					all := valueSchemes(t, mask, pipe)
					var pre, rel [][4]*Val // schemes for (a) and (b)
					plain := 0
					seenEmpty := map[int]bool{}
					for _, sch := range all {
						es := -1
						for s, v := range sch {
							if v != nil && v.Empty {
								es = s
							}
						}
						switch {
						case es >= 0:
							pre = append(pre, sch)
							if !seenEmpty[es] {
								seenEmpty[es] = true
								rel = append(rel, sch)
							}
						case plain < 2:
							pre = append(pre, sch)
							if plain == 0 {
								rel = append(rel, sch)
							}
							plain++
						}
					}
					cell := func(n int) latticeCell {
						cars := latticeCarriers
						if mask&SrcJSON != 0 {
							cars = withJSON
						}
						car := cars[n%len(cars)]
						return latticeCell{t, mask, depth, pipe, car.car, car.path}
					}
					synOf := func(sch [4]*Val, n int) int {
						if mask&SrcCli == 0 {
							return 0
						}
						syns := cliSyntaxes(t, sch[3])
						return syns[n%len(syns)]
					}
					for si, sch := range pre {
						*idx++
						if *idx%parts != part {
							continue
						}
						cs, _ := latticeCase(r, cell(*idx/parts), sch, synOf(sch, si))
						cs.Kind, cs.Prefill = "history", true
						if !emit(cs) {
							return
						}
					}
					for si, sch := range rel {
						for m1 := 0; m1 < 8; m1++ {
							*idx++
							if *idx%parts != part {
								continue
							}
							cs, target := latticeCase(r, cell(*idx/parts), sch, synOf(sch, si+m1))
							cs.Kind = "history"
							cs.Prefill = r.Intn(4) == 0
							cs.Prior = priorOf(r, cs, func(f *Field) int {
								if f == target {
									return m1 << 1
								}
								return r.Intn(8) << 1
							})
							if !emit(cs) {
								return
							}
						}
					}
				}
			}
		}
	}
}

// priorOf makes an earlier round for the same struct type: same fields and tags (hence the same
// defaults), but JSON / env / cli mention each field as maskFor says, with values of their own that
// lead - whenever the type allows it - to another final value than the round under test expects.
func priorOf(r *rand.Rand, cs *Case, maskFor func(orig *Field) int) *Case {
	anyJSON := false
	var clone func(nodes []*Node) []*Node
	clone = func(nodes []*Node) []*Node {
		out := make([]*Node, len(nodes))
		for i, n := range nodes {
			c := &Node{Name: n.Name}
			if n.Leaf != nil {
				f := *n.Leaf // the tag default (Src[0]) is shared, it is never written
				t := typeIndex(f.Type)
				f.Mask = n.Leaf.Mask&SrcDef | maskFor(n.Leaf)&(SrcJSON|SrcEnv|SrcCli)
				f.Src[1], f.Src[2], f.Src[3], f.CliSyn = nil, nil, nil, 0
				later, _ := expectedOf(t, n.Leaf)
				for try := 0; try < 8; try++ {
					fillFrom(r, t, &f, 1)
					if now, _ := expectedOf(t, &f); f.Mask&^SrcDef == 0 || !equalVal(t, later, now) && !equalVal(t, now, later) {
						break
					}
				}
				if f.Mask&SrcJSON != 0 {
					anyJSON = true
				}
				c.Leaf = &f
			} else {
				c.Kids = clone(n.Kids)
			}
			out[i] = c
		}
		return out
	}
	p := &Case{Kind: "prior", Root: clone(cs.Root), FileName: r.Intn(len(fileNames)), CfgSyn: r.Intn(4),
		JSONStyle: r.Intn(styleRange()), EmptyObj: r.Intn(2) == 0, Decoy: r.Intn(4) == 0, Shuffle: r.Int63()}
	cars := latticeCarriers
	if anyJSON {
		cars = cars[:5]
	}
	pick := cars[r.Intn(len(cars))]
	p.Carrier, p.PathKind = pick.car, pick.path
	withUsageFlag(r, p)
	return p
}

func latticeCase(r *rand.Rand, c latticeCell, sch [4]*Val, syn int) (*Case, *Field) {
	nm := newNamer()
	// the field under test
	target := &Field{Type: typeNames[c.t], Pipe: c.pipe, Mask: c.mask, Src: sch, CliSyn: syn, UsageMode: r.Intn(3)}
	// a sibling in the same struct, of another type, mentioned by exactly the other sources
	st := (c.t + 1 + r.Intn(nTypes-1)) % nTypes
	sib := &Field{Type: typeNames[st], Pipe: r.Intn(2) == 0, Mask: 15 &^ c.mask, UsageMode: r.Intn(3)}
	if c.carrier == CarNone {
		sib.Mask &^= SrcJSON
	}
	fillRandomValues(r, st, sib)

	groups := pickGroups(r, c.depth)
	fes := r.Perm(len(fields()))
	usedFold := map[string]bool{} // no two JSON keys of one object that differ in case or underscores only
	pickName := func(f *Field) string {
		for {
			fe := fields()[fes[0]]
			fes = fes[1:]
			if usedFold[foldKey(fe.Go)] {
				continue
			}
			if nm.name(f, groups, fe, r.Intn(4), r.Intn(2) == 0) {
				usedFold[foldKey(fe.Go)] = true
				return fe.Go
			}
		}
	}
	tn := &Node{Name: pickName(target), Leaf: target}
	sn := &Node{Name: pickName(sib), Leaf: sib}
	kids := []*Node{tn, sn}
	if r.Intn(2) == 0 {
		kids[0], kids[1] = kids[1], kids[0]
	}
	for d := len(groups) - 1; d >= 0; d-- {
		kids = []*Node{{Name: groups[d].Go, Kids: kids}}
	}
	cs := &Case{Kind: "lattice", Root: kids, Carrier: c.carrier, PathKind: c.pathKind,
		FileName: r.Intn(len(fileNames)), CfgSyn: r.Intn(4), JSONStyle: r.Intn(styleRange()), EmptyObj: r.Intn(2) == 0,
		Decoy: r.Intn(3) == 0, Shuffle: r.Int63()}
	if r.Intn(4) == 0 {
		cs.Tail = tails[r.Intn(len(tails))]
	}
	withUsageFlag(r, cs)
	withFirstParse(r, cs)
	return cs, target
}

// withUsageFlag puts the built-in usage flag on the command line of a quarter of the cases: in any
// spelling, shuffled among the other flags, first or last. The expected field values do not change.
func withUsageFlag(r *rand.Rand, cs *Case) {
	if r.Intn(4) == 0 {
		cs.Help, cs.HelpPos = 1+r.Intn(5), r.Intn(3)
	}
}

var failModes = []string{"", "unknown-flag", "missing-value", "bad-value", "bad-env", "bad-json"}

// withFirstParse gives an eighth of the cases a FlagSet with a past: an earlier Parse call on the
// same FlagSet with sources of its own (same struct type; JSON, env and cli re-rolled towards other
// final values), ordinary or made to fail in one of five ways after valid flags have been seen.
func withFirstParse(r *rand.Rand, cs *Case) {
	if r.Intn(8) != 0 {
		return
	}
	fp := priorOf(r, cs, func(*Field) int { return r.Intn(8) << 1 })
	fp.Kind, fp.Fail = "first-parse", failModes[r.Intn(len(failModes))]
	cs.FirstParse = fp
}

var tails = [][]string{{"pos"}, {"--", "-x=1"}, {"pos", "-debug"}, {"--"}, {"-"}, {"", "-port=1"}}

func pickGroups(r *rand.Rand, depth int) []nameEnt {
	p := r.Perm(len(groups()))
	g := make([]nameEnt, depth)
	for i := range g {
		g[i] = groups()[p[i]]
	}
	return g
}

// ---------------------------------------------------------------------------------------
// Random values and random structs

func randVal(r *rand.Rand, t int) Val {
	pool := poolOf(t)
	if r.Intn(3) != 0 {
		return pool[r.Intn(len(pool))]
	}
	switch t {
	case TBool:
		return Val{B: r.Intn(2) == 0}
	case TInt, TInt64, TDur:
		switch r.Intn(3) {
		case 0:
			return Val{I: int64(r.Uint64())}
		case 1:
			return Val{I: int64(r.Intn(2000)) - 1000}
		}
		return Val{I: int64(r.Uint64()) >> uint(r.Intn(63))}
	case TUint, TUint64:
		if r.Intn(2) == 0 {
			return Val{U: r.Uint64()}
		}
		return Val{U: r.Uint64() >> uint(r.Intn(64))}
	case TFloat:
		var f float64
		switch r.Intn(4) {
		case 0:
			f = math.Float64frombits(r.Uint64())
			if math.IsNaN(f) { // NaN payloads do not survive text
				f = math.NaN()
			}
		case 1:
			f = r.NormFloat64() * 1000
		case 2:
			f = float64(r.Intn(2001)-1000) / 8
		default:
			f = math.Ldexp(r.Float64(), r.Intn(2000)-1000)
		}
		return Val{F: fb(f), Fmt: r.Intn(3)}
	case TString:
		const alpha = "ab Z09,|=-_~/\\\"'\t\n:;{}[]<>&%$#@!?*+.é日🙂"
		rs := []rune(alpha)
		n := r.Intn(12)
		var sb strings.Builder
		for i := 0; i < n; i++ {
			sb.WriteRune(rs[r.Intn(len(rs))])
		}
		return Val{S: QStr(sb.String()), Fmt: r.Intn(2)}
	case TBytes:
		n := r.Intn(10)
		if r.Intn(8) == 0 {
			n = r.Intn(400)
		}
		b := make([]byte, n)
		r.Read(b)
		return Val{Y: b}
	}
	panic("bad type")
}

// fillRandomValues gives every source of the mask a value such that neighbouring sources differ
// whenever the type allows it; textual sources are empty now and then.
func fillRandomValues(r *rand.Rand, t int, f *Field) { fillFrom(r, t, f, 0) }

// fillFrom does so for the sources from..3 and leaves the lower ones (the tag) as they are.
func fillFrom(r *rand.Rand, t int, f *Field, from int) {
	var lower *Val
	for s := 0; s < from; s++ {
		if f.Mask&(1<<s) != 0 {
			lower = f.Src[s]
		}
	}
	for s := from; s < 4; s++ {
		if f.Mask&(1<<s) == 0 {
			f.Src[s] = nil
			continue
		}
		var v Val
		for try := 0; ; try++ {
			if s != 1 && r.Intn(8) == 0 {
				v = Val{Empty: true}
			} else {
				v = randVal(r, t)
			}
			if !usable(t, &v, s, f.Pipe) {
				continue
			}
			if deep && len(v.S)+len(v.Y) > 8192 && r.Intn(8) != 0 {
				continue // long values mostly belong to the lattice and the "big" kind: a struct type keeps its tag for ever
			}
			if deep && !v.Empty && r.Intn(2) == 0 {
				v.Fmt = r.Intn(fmtRange(t)) // any spelling of the value
				if len(v.S) > 1024 && v.Fmt != 3 {
					v.Fmt = 0 // \\u-escaping every rune of a long string only makes the document six times as long
				}
			}
			if lower != nil && sameVal(t, &v, lower) && try < 20 {
				continue
			}
			break
		}
		vv := v
		f.Src[s] = &vv
		lower = &vv
	}
	if f.Mask&SrcCli != 0 {
		syns := cliSyntaxes(t, f.Src[3])
		f.CliSyn = syns[r.Intn(len(syns))]
	}
}

// randCase builds a struct of 1..12 leaves spread over up to three levels of nesting, every leaf
// with its own type, source mask, tag syntax and values.
func randCase(r *rand.Rand) *Case { return randStruct(r, nil) }

// structOpts steers randStruct away from its defaults (thorough tier only).
type structOpts struct {
	n          int   // number of leaves
	depthTable []int // a leaf's nesting depth is drawn from this table
	ngroups    int   // how many group names are in play per level
}

func randStruct(r *rand.Rand, o *structOpts) *Case {
	nm := newNamer()
	depthTable := []int{0, 0, 0, 0, 1, 1, 1, 2, 2, 3}
	ngroups := 3
	var n int
	if o != nil {
		n, depthTable, ngroups = o.n, o.depthTable, o.ngroups
	} else {
		n = 1 + r.Intn(12)
		if deep {
			depthTable = []int{0, 0, 0, 1, 1, 2, 2, 3, 4, 5}
		}
	}
	gp := r.Perm(len(groups()))[:ngroups]
	type dir struct {
		nodes  []*Node
		sub    map[string]*dir
		order  []string
		used   map[string]bool
		groups []nameEnt
	}
	newDir := func(groups []nameEnt) *dir {
		return &dir{sub: map[string]*dir{}, used: map[string]bool{}, groups: groups}
	}
	root := newDir(nil)
	anyJSON := false
	for i := 0; i < n; i++ {
		depth := depthTable[r.Intn(len(depthTable))]
		d := root
		for l := 0; l < depth; l++ {
			g := groups()[gp[r.Intn(len(gp))]]
			nd := d.sub[g.Go]
			if nd == nil {
				nd = newDir(append(append([]nameEnt{}, d.groups...), g))
				d.sub[g.Go] = nd
				d.order = append(d.order, g.Go)
				d.nodes = append(d.nodes, &Node{Name: g.Go}) // kids are attached at the end
			}
			d = nd
		}
		t := r.Intn(nTypes)
		f := &Field{Type: typeNames[t], Pipe: r.Intn(2) == 0, Mask: r.Intn(16), UsageMode: r.Intn(3)}
		fillRandomValues(r, t, f)
		named := false
		for _, fi := range r.Perm(len(fields())) {
			fe := fields()[fi]
			if d.used[foldKey(fe.Go)] {
				continue
			}
			if nm.name(f, d.groups, fe, r.Intn(4), r.Intn(2) == 0) {
				d.used[foldKey(fe.Go)] = true
				d.nodes = append(d.nodes, &Node{Name: fe.Go, Leaf: f})
				named = true
				break
			}
		}
		if !named {
			continue // pool exhausted at this level (cannot happen with 12 leaves and 24 names)
		}
		if f.Mask&SrcJSON != 0 {
			anyJSON = true
		}
	}
	if r.Intn(10) == 0 { // now and then an empty nested struct
		g := groups()[gp[0]]
		if root.sub[g.Go] == nil {
			root.sub[g.Go] = newDir([]nameEnt{g})
			root.nodes = append(root.nodes, &Node{Name: g.Go})
		}
	}
	var attach func(d *dir) []*Node
	attach = func(d *dir) []*Node {
		for _, nd := range d.nodes {
			if nd.Leaf == nil {
				nd.Kids = attach(d.sub[nd.Name])
			}
		}
		r.Shuffle(len(d.nodes), func(i, j int) { d.nodes[i], d.nodes[j] = d.nodes[j], d.nodes[i] })
		return d.nodes
	}
	cs := &Case{Kind: "random", Root: attach(root), FileName: r.Intn(len(fileNames)), CfgSyn: r.Intn(4),
		JSONStyle: r.Intn(styleRange()), EmptyObj: r.Intn(2) == 0, Decoy: r.Intn(4) == 0, Shuffle: r.Int63()}
	cars := latticeCarriers
	if anyJSON {
		cars = cars[:5]
	}
	pick := cars[r.Intn(len(cars))]
	cs.Carrier, cs.PathKind = pick.car, pick.path
	if cs.Carrier == CarFile && r.Intn(6) == 0 {
		cs.PathKind = 3
	}
	if r.Intn(5) == 0 {
		cs.Tail = tails[r.Intn(len(tails))]
	}
	// the struct value may have a past: garbage left by the caller, an earlier round (reload)
	cs.Prefill = r.Intn(4) == 0
	if r.Intn(4) == 0 {
		cs.Prior = priorOf(r, cs, func(*Field) int { return r.Intn(8) << 1 })
	}
	withUsageFlag(r, cs)
	withFirstParse(r, cs)
	return cs
}
