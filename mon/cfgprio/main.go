// Monitor cfgprio (C09): config sources obey cli > env > JSON > tag default.
//
// Oracle: value-first generation. Per field an independent 4-bit source mask and one typed value
// per present source are chosen first and rendered into each source's syntax (struct tag, JSON
// document in a file or in CFG_CONFIG_B64, environment variable, argv); the monitor never parses.
// After Parse returned nil every field must hold the value of the highest-priority source that
// mentions it (an empty text in tag/env/cli means the zero value). Struct types are made at run
// time with reflect.StructOf; the sources are really set (os.Setenv, files, argv). The struct value
// may have a history (garbage pre-filled by the caller, an earlier NewFlagSet+Parse round = reload):
// the expected values never depend on it.
// The environment is process-global: one sequential loop per child process. See DESIGN.md §3 C09.
package main

import (
	"encoding/json"
	"fmt"
	"math/rand"
	"os"
	"strings"

	"verif/internal/drv"
)

type mon struct{}

func (mon) Name() string { return "cfgprio" }

func (mon) Level(string) (string, string) {
	return "exploration", "exhaustive lattice 9 field types x 16 source masks {tag default, JSON, env, cli} x {top-level, nested, doubly nested} x {comma, pipe tag syntax} x carriers {-config absolute, ~/ with HOME redirected, relative, CFG_CONFIG_B64, both (file wins), none} x legal cli spellings x value schemes (every pool value - zero, one, extremes, awkward strings, byte slices - in every source position, plus an empty text per textual source over non-zero lower sources), each with a sibling field mentioned by exactly the complementary sources; " +
		"plus a history lattice in which the struct value handed to NewFlagSet is not fresh - per type x mask x nesting x tag syntax (a) every leaf pre-filled with non-zero garbage of its type (also a random quarter of all other cases), (b) reload: an earlier NewFlagSet+Parse round on the same struct value in which the field was mentioned by each of the 8 subsets of {JSON, env, cli} with other values, then the round under test, judged by its own sources only (the model never looks at the prior content); " +
		"plus seeded random structs of 1..12 fields with independent masks, a quarter of them pre-filled and a quarter after an earlier random round. " +
		"In a quarter of all cases the built-in usage flag is on the command line (-help, --help, -help=true, --help=true, -help=false; shuffled among the flags, first or last): the expected values are the same, ShowUsage() is only counted. An eighth of all cases give the FlagSet itself a past: one NewFlagSet, an earlier Parse call with sources of its own - ordinary, or made to fail after valid flags were seen (undefined flag, missing value, unparsable cli value, unparsable environment value, broken JSON) - then the call under test on the same FlagSet, judged by its own sources whenever it returns nil (a refusal is counted, not judged). " +
		"The thorough tier runs the same lattice over larger value pools and nesting depths 0,1,2,3,5: integers around 2^7..2^63 incl. 2^53+-1 and Min/MaxInt64/MaxUint64, floats -0 / subnormal / smallest normal / max / 1e23 in the spellings g, e, E, f and 25 digits, durations around every unit border spelled in every unit (ns, us, both micro signs, ms, s, m, h, fractional seconds, all units spelled out), strings with every JSON escape style, Unicode borders, look-alikes of other types, invalid UTF-8 (text sources), 4 KiB and 64 KiB values, byte slices of every padding length up to 64 KiB; JSON documents additionally CRLF/tab/blank padded and with every scalar member (and every top-level object) written twice with the identical value; identifiers with digits and underscores and 400 two-word names; " +
		"and adds: wide structs of 50..200 fields (flat, flat at the bottom of 1..5 levels, or spread over 5 levels) with independent masks; large values (64 KiB+1 and 1 MiB strings and byte slices in the tag, either JSON carrier, environment and command line, 15 masks x 3 carriers); reload chains of 3..5 NewFlagSet+Parse rounds on one struct value; 2..8 FlagSets of one struct type made and parsed in goroutines released together, each with its own struct value and command line (also under -race when ./check builds the race binary of this monitor); " +
		"distinct_nontrivial = distinct structural signatures (carrier, path kind, decoy, history; per field type, mask, depth, tag syntax, cli spelling, which sources are empty/zero) of cases in which at least one winning source says something else than the next lower source"
}

func (mon) Assumptions(string) []string {
	return []string{
		"for []byte a nil and an empty slice are not told apart when the expected value is empty",
		"textual renderings are the canonical ones (strconv.FormatBool/FormatInt/FormatUint, FormatFloat 'g'/'e'/'f' shortest, Duration.String, base64 std with padding); JSON carries a Duration as integer nanoseconds and []byte as a base64 string",
		"environment names are taken from a hand-written table (CFG_ + group path + field, upper snake case): plain CamelCase words, and identifiers that walk the word-boundary rule glb documents ('ABc => A_Bc' and the Underscore test table) at the start, in the middle and at the end of a name - a capital starts a word after a lower-case letter or before one (UserIDs = USER_I_DS, TLSv1 = TL_SV1), digits stay with the word before them and a capital after a digit starts a word only before a lower-case letter (Http2Tx = HTTP2_TX, A1B = A1B), underscores are boundaries",
		"integer text (tag default, env, command line) follows Go integer-literal syntax as in the standard flag package, which config mirrors - decimal, 0x / 0o / 0b, leading-0 octal, _ separators - the syntax all four integer kinds parse with today (strconv base 0) and the one the C10 reference grammar assumes too; the statement itself does not spell it out",
		"an environment variable such as CFG_CONFIG naming a file is not a source of the configuration path (the statement names -config and CFG_CONFIG_B64 only)",
		"the usage flag on the command line suspends nothing: after a successful Parse the fields hold what the sources say, whether or not ShowUsage() is true",
		"a second Parse on one FlagSet may be refused; if it returns nil the fields must follow that call's sources only (nothing recorded by an earlier call, failed or not, may show through)",
		"JSON null, unknown JSON keys and case-folded key matching are not generated; a Duration is never written as a JSON string and base64 is never written without padding (neither is accepted)",
		"a JSON document that writes a member twice with the identical value mentions the field with that value (thorough tier only; members with two different values are never generated)",
		"durations in text may be spelled in any unit time.ParseDuration knows (the package's own tests write 5m and 10s), floats in any of the spellings g/e/E/f of strconv.FormatFloat",
		"a struct that is not zero when handed to NewFlagSet (pre-filled, or parsed before) must end up exactly as a fresh one would: unmentioned fields hold the tag default, an empty/missing default being the zero value",
	}
}

type shardArgs struct {
	Kind  string `json:"kind"` // "lattice" | "rand"
	Part  int    `json:"part"`
	Parts int    `json:"parts"`
	Count int    `json:"count,omitempty"`
}

const latticeParts = 8

// latticePartsOf: the thorough lattice (larger value pools, a fourth nesting depth) is cut finer.
func latticePartsOf(tier string) int {
	if tier == "thorough" {
		return 60
	}
	return latticeParts
}

func (mon) Plan(prop, tier string, seed int64) []drv.Shard {
	var out []drv.Shard
	add := func(kind string, parts, count, secs int, race bool) {
		for p := 0; p < parts; p++ {
			a, _ := json.Marshal(shardArgs{Kind: kind, Part: p, Parts: parts, Count: count / parts})
			name := fmt.Sprintf("%s-%d", kind, p)
			if race {
				name = fmt.Sprintf("%s-race-%d", kind, p)
			}
			out = append(out, drv.Shard{Name: name, Args: a, Secs: secs, Race: race})
		}
	}
	if tier != "thorough" {
		add("lattice", latticeParts, 0, 600, false)
		add("rand", 8, 48000, 900, false)
		add("wide", 2, 60, 900, false) // structs of 50..200 fields (a bitmap, table or counter sized for the usual few shows only there)
		return out
	}
	// Thorough. Many small processes: types made by reflect.StructOf are never freed. The heavy
	// kinds come first so that the tail of the run is filled with small shards. Watchdogs are
	// generous (a shard takes a minute or two on an idle core).
	add("wide", thoroughWideParts, thoroughWide, 3600, false)
	add("big", 12, 0, 3600, false)
	add("chain", 48, thoroughChain, 3600, false)
	add("conc", 24, thoroughConc, 3600, false)
	if self, err := os.Executable(); err == nil {
		if _, err := os.Stat(self + ".race"); err == nil { // only when ./check builds the -race binary of this monitor
			add("conc", 4, thoroughConcRace, 3600, true)
		}
	}
	add("lattice", latticePartsOf(tier), 0, 3600, false)
	add("rand", 240, thoroughRand, 3600, false)
	return out
}

// sizes of the thorough tier (cases)
const (
	thoroughRand      = 2400000
	thoroughWide      = 100000
	thoroughWideParts = 400
	thoroughChain     = 480000
	thoroughConc      = 240000
	thoroughConcRace  = 8000
)

func caseID(cs *Case, n int) string {
	b, _ := json.Marshal(cs)
	return fmt.Sprintf("case %d: %s", n, b)
}

func (mn mon) Run(sh drv.Shard, c *drv.Ctx) {
	var a shardArgs
	json.Unmarshal(sh.Args, &a)
	h, err := newHarness()
	if err != nil {
		fmt.Fprintln(os.Stderr, "cfgprio: cannot create scratch directory:", err)
		os.Exit(2)
	}
	defer h.close()
	deep = sh.Tier == "thorough" // before anything is generated
	if msg := poolsDisjoint(); msg != "" {
		fmt.Fprintln(os.Stderr, "cfgprio harness defect: name pools:", msg)
		h.close()
		os.Exit(2)
	}
	n := 0
	exec := func(cs *Case) bool {
		n++
		switch {
		case cs.Kind == "big" || cs.Kind == "wide": // not worth marshalling megabytes for a progress note
			c.Progress(fmt.Sprintf("case %d of shard %s (kind %s, carrier %s)", n, sh.Name, cs.Kind, cs.Carrier), true)
		case n%16 == 1:
			c.Progress(caseID(cs, n), false)
		}
		h.observe(cs)
		k, e, o := runCase(cs, h)
		if strings.HasPrefix(k, brokenPrefix) {
			// the generator produced something illegal: the check is broken, glb is not
			fmt.Fprintf(os.Stderr, "cfgprio harness defect %s: %s\n%s\n", k, o, caseID(cs, n))
			h.close()
			os.Exit(2)
		}
		c.Eval(1)
		sig, nontrivial := shape(cs)
		if nontrivial {
			c.DistinctStr(sig)
		}
		c.Add("carrier_"+cs.Carrier, 1)
		if cs.Decoy {
			c.Add("decoy_config_env", 1)
		}
		if n%997 == 0 {
			if l := leftovers(); len(l) > 0 {
				fmt.Fprintf(os.Stderr, "cfgprio harness defect: environment not cleaned up: %q\n", l)
				h.close()
				os.Exit(2)
			}
		}
		if k != "" {
			c.Violate(k, cs, e, o)
			return c.NumViolations() < 12
		}
		return true
	}
	switch a.Kind {
	case "lattice":
		genLattice(sh.Seed, a.Part, a.Parts, func(cs *Case) bool {
			if c.NumSamples() < 1 && n == 997*(a.Part+1) {
				c.Sample(cs)
			}
			return exec(cs)
		})
		c.Add("lattice_cases", int64(n))
		c.Add("lattice_shards_done", 1)
	case "rand":
		r := rand.New(rand.NewSource(sh.Seed*1000003 + int64(a.Part)*7 + 5))
		for i := 0; i < a.Count; i++ {
			cs := randCase(r)
			if c.NumSamples() < 1 && i == 10+a.Part {
				c.Sample(cs)
			}
			if !exec(cs) {
				break
			}
		}
		c.Add("random_cases", int64(n))
	case "wide", "chain", "conc":
		gen := map[string]func(*rand.Rand) *Case{"wide": wideCase, "chain": chainCase, "conc": concCase}[a.Kind]
		salt := map[string]int64{"wide": 11, "chain": 13, "conc": 17}[a.Kind]
		if sh.Race {
			salt += 100
		}
		r := rand.New(rand.NewSource(sh.Seed*1000003 + int64(a.Part)*7 + salt))
		for i := 0; i < a.Count; i++ {
			cs := gen(r)
			if c.NumSamples() < 1 && i == 3 && a.Part < 2 && a.Kind != "wide" {
				c.Sample(cs)
			}
			if !exec(cs) {
				break
			}
		}
	case "big":
		genBig(sh.Seed, a.Part, a.Parts, exec)
	}
	for k, v := range h.stats {
		c.Add(k, v)
	}
	for k, v := range h.maxes {
		c.MaxOf(k, v)
	}
	for cell := range h.cells {
		if name, ok := strings.CutPrefix(cell, "envname:"); ok {
			c.SetAdd("field_names_decided_by_their_env_name", name)
		} else {
			c.SetAdd("type_mask_cells", cell)
		}
	}
}

// Finish: the lattice must have visited every type x mask cell, and every kind of winner.
func (mon) Finish(prop, tier string, mg *drv.Merged) (inconclusive []string) {
	if mg.Sum["lattice_shards_done"] == int64(latticePartsOf(tier)) {
		if n := len(mg.Sets["type_mask_cells"]); n != nTypes*16 {
			inconclusive = append(inconclusive, fmt.Sprintf("only %d of %d type x mask cells were observed", n, nTypes*16))
		}
		seen := map[string]bool{}
		for _, n := range mg.Sets["field_names_decided_by_their_env_name"] {
			seen[n] = true
		}
		for _, fe := range fieldPool {
			if !seen[fe.Go] {
				inconclusive = append(inconclusive, "the environment name of field "+fe.Go+" never decided a field")
			}
		}
		for _, w := range []string{"winner_cli", "winner_env", "winner_json", "winner_default", "winner_none", "winner_is_empty_text",
			"parses_with_show_usage_true", "flagset_second_parse_refused", "flagset_first_parse_ordinary", "flagset_first_parse_failed_as_planned_unknown-flag",
			"flagset_first_parse_failed_as_planned_missing-value", "flagset_first_parse_failed_as_planned_bad-value", "flagset_first_parse_failed_as_planned_bad-env", "flagset_first_parse_failed_as_planned_bad-json",
			"history_prefilled_cases", "history_reload_cases", "history_fields_prestate_differs", "history_fields_prestate_differs_want_zero_by_omission"} {
			if mg.Sum[w] == 0 {
				inconclusive = append(inconclusive, "no field observed with "+w)
			}
		}
	}
	return inconclusive
}

func (mn mon) Replay(v drv.Violation, c *drv.Ctx) {
	var cs Case
	if err := json.Unmarshal(v.Case, &cs); err != nil || len(cs.Root) == 0 {
		c.Inconclusive(fmt.Sprintf("replay: cannot decode case: %v", err))
		return
	}
	h, err := newHarness()
	if err != nil {
		c.Inconclusive("replay: " + err.Error())
		return
	}
	defer h.close()
	k, e, o := runCase(&cs, h)
	c.Eval(1)
	if k != "" {
		c.Violate(k, &cs, e, o)
	}
}

func main() { drv.Main(mon{}) }
