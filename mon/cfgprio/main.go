// Monitor cfgprio (C09): config sources obey cli > env > JSON > tag default.
//
// Oracle: value-first generation. Per field an independent 4-bit source mask and one typed value
// per present source are chosen first and rendered into each source's syntax (struct tag, JSON
// document in a file or in CFG_CONFIG_B64, environment variable, argv); the monitor never parses.
// After Parse returned nil every field must hold the value of the highest-priority source that
// mentions it (an empty text in tag/env/cli means the zero value). Struct types are made at run
// time with reflect.StructOf; the sources are really set (os.Setenv, files, argv). The struct value
// may have a history (garbage pre-filled by the caller, an earlier NewFlagSet+Parse round = reload):
// the expected values never depend on it.
// The environment is process-global: one sequential loop per child process. See DESIGN.md §3 C09.
package main

import (
	"encoding/json"
	"fmt"
	"math/rand"
	"os"
	"strings"

	"verif/internal/drv"
)

type mon struct{}

func (mon) Name() string { return "cfgprio" }

func (mon) Level(string) (string, string) {
	return "exploration", "exhaustive lattice 9 field types x 16 source masks {tag default, JSON, env, cli} x {top-level, nested, doubly nested} x {comma, pipe tag syntax} x carriers {-config absolute, ~/ with HOME redirected, relative, CFG_CONFIG_B64, both (file wins), none} x legal cli spellings x value schemes (every pool value - zero, one, extremes, awkward strings, byte slices - in every source position, plus an empty text per textual source over non-zero lower sources), each with a sibling field mentioned by exactly the complementary sources; plus a history lattice in which the struct value handed to NewFlagSet is not fresh - per type x mask x nesting x tag syntax (a) every leaf pre-filled with non-zero garbage of its type (also a random quarter of all other cases), (b) reload: an earlier NewFlagSet+Parse round on the same struct value in which the field was mentioned by each of the 8 subsets of {JSON, env, cli} with other values, then the round under test, judged by its own sources only (the model never looks at the prior content); plus seeded random structs of 1..12 fields with independent masks, a quarter of them pre-filled and a quarter after an earlier random round; distinct_nontrivial = distinct structural signatures (carrier, path kind, decoy; per field type, mask, depth, tag syntax, cli spelling, which sources are empty/zero) of cases in which at least one winning source says something else than the next lower source"
}

func (mon) Assumptions(string) []string {
	return []string{
		"for []byte a nil and an empty slice are not told apart when the expected value is empty",
		"textual renderings are the canonical ones (strconv.FormatBool/FormatInt/FormatUint, FormatFloat 'g'/'e'/'f' shortest, Duration.String, base64 std with padding); JSON carries a Duration as integer nanoseconds and []byte as a base64 string",
		"environment names are taken from a hand-written table of plain CamelCase identifiers (CFG_ + group path + field, upper snake case)",
		"an environment variable such as CFG_CONFIG naming a file is not a source of the configuration path (the statement names -config and CFG_CONFIG_B64 only)",
		"JSON null, unknown JSON keys and case-folded key matching are not generated",
		"a struct that is not zero when handed to NewFlagSet (pre-filled, or parsed before) must end up exactly as a fresh one would: unmentioned fields hold the tag default, an empty/missing default being the zero value",
	}
}

type shardArgs struct {
	Kind  string `json:"kind"` // "lattice" | "rand"
	Part  int    `json:"part"`
	Parts int    `json:"parts"`
	Count int    `json:"count,omitempty"`
}

const latticeParts = 8

func (mon) Plan(prop, tier string, seed int64) []drv.Shard {
	var out []drv.Shard
	nrand, rparts := 48000, 8
	if tier == "thorough" {
		nrand, rparts = 1600000, 80 // many small processes: types made by reflect.StructOf are never freed
	}
	for p := 0; p < latticeParts; p++ {
		a, _ := json.Marshal(shardArgs{Kind: "lattice", Part: p, Parts: latticeParts})
		out = append(out, drv.Shard{Name: fmt.Sprintf("lattice-%d", p), Args: a, Secs: 600})
	}
	for p := 0; p < rparts; p++ {
		a, _ := json.Marshal(shardArgs{Kind: "rand", Part: p, Parts: rparts, Count: nrand / rparts})
		out = append(out, drv.Shard{Name: fmt.Sprintf("rand-%d", p), Args: a, Secs: 900})
	}
	return out
}

func caseID(cs *Case, n int) string {
	b, _ := json.Marshal(cs)
	return fmt.Sprintf("case %d: %s", n, b)
}

func (mn mon) Run(sh drv.Shard, c *drv.Ctx) {
	var a shardArgs
	json.Unmarshal(sh.Args, &a)
	h, err := newHarness()
	if err != nil {
		fmt.Fprintln(os.Stderr, "cfgprio: cannot create scratch directory:", err)
		os.Exit(2)
	}
	defer h.close()
	n := 0
	exec := func(cs *Case) bool {
		n++
		if n%16 == 1 {
			c.Progress(caseID(cs, n), false)
		}
		k, e, o := runCase(cs, h)
		if strings.HasPrefix(k, brokenPrefix) {
			// the generator produced something illegal: the check is broken, glb is not
			fmt.Fprintf(os.Stderr, "cfgprio harness defect %s: %s\n%s\n", k, o, caseID(cs, n))
			h.close()
			os.Exit(2)
		}
		c.Eval(1)
		sig, nontrivial := shape(cs)
		if nontrivial {
			c.DistinctStr(sig)
		}
		c.Add("carrier_"+cs.Carrier, 1)
		if cs.Decoy {
			c.Add("decoy_config_env", 1)
		}
		if n%997 == 0 {
			if l := leftovers(); len(l) > 0 {
				fmt.Fprintf(os.Stderr, "cfgprio harness defect: environment not cleaned up: %q\n", l)
				h.close()
				os.Exit(2)
			}
		}
		if k != "" {
			c.Violate(k, cs, e, o)
			return c.NumViolations() < 12
		}
		return true
	}
	switch a.Kind {
	case "lattice":
		genLattice(sh.Seed, a.Part, a.Parts, func(cs *Case) bool {
			if c.NumSamples() < 1 && n == 997*(a.Part+1) {
				c.Sample(cs)
			}
			return exec(cs)
		})
		c.Add("lattice_cases", int64(n))
		c.Add("lattice_shards_done", 1)
	case "rand":
		r := rand.New(rand.NewSource(sh.Seed*1000003 + int64(a.Part)*7 + 5))
		for i := 0; i < a.Count; i++ {
			cs := randCase(r)
			if c.NumSamples() < 1 && i == 10+a.Part {
				c.Sample(cs)
			}
			if !exec(cs) {
				break
			}
		}
		c.Add("random_cases", int64(n))
	}
	for k, v := range h.stats {
		c.Add(k, v)
	}
	for cell := range h.cells {
		c.SetAdd("type_mask_cells", cell)
	}
}

// Finish: the lattice must have visited every type x mask cell, and every kind of winner.
func (mon) Finish(prop, tier string, mg *drv.Merged) (inconclusive []string) {
	if mg.Sum["lattice_shards_done"] == latticeParts {
		if n := len(mg.Sets["type_mask_cells"]); n != nTypes*16 {
			inconclusive = append(inconclusive, fmt.Sprintf("only %d of %d type x mask cells were observed", n, nTypes*16))
		}
		for _, w := range []string{"winner_cli", "winner_env", "winner_json", "winner_default", "winner_none", "winner_is_empty_text",
			"history_prefilled_cases", "history_reload_cases", "history_fields_prestate_differs", "history_fields_prestate_differs_want_zero_by_omission"} {
			if mg.Sum[w] == 0 {
				inconclusive = append(inconclusive, "no field observed with "+w)
			}
		}
	}
	return inconclusive
}

func (mn mon) Replay(v drv.Violation, c *drv.Ctx) {
	var cs Case
	if err := json.Unmarshal(v.Case, &cs); err != nil || len(cs.Root) == 0 {
		c.Inconclusive(fmt.Sprintf("replay: cannot decode case: %v", err))
		return
	}
	h, err := newHarness()
	if err != nil {
		c.Inconclusive("replay: " + err.Error())
		return
	}
	defer h.close()
	k, e, o := runCase(&cs, h)
	c.Eval(1)
	if k != "" {
		c.Violate(k, &cs, e, o)
	}
}

func main() { drv.Main(mon{}) }
