// Monitor daemonlaunch (C20): daemon.Launch returns nil and the pid of the process running the
// handler, only after that handler called Done(); the daemon keeps running, orphaned, after
// Launch returned and after the caller exited.
//
// One binary, several roles (see DESIGN.md §3 C20):
//
//	launcher / daemon   chosen by glb's own ENV_DAEMON_NAME / ENV_DAEMON_FLAG protocol; the
//	                    daemon handlers dl-0..dl-7 are harness code (roles.go)
//	caller              DL_ROLE=caller: the "original process"; calls Launch (1..8 concurrently),
//	                    observes the file system and /proc at the moment each call returns,
//	                    prints a JSON report, exits
//	supervisor          runCase below (inside a shard process of the driver): starts callers in
//	                    their own process groups, judges, kills the groups
//
// Oracle (no timing): files the daemon writes before Done() (marker.<pid> at start-up,
// predone.<pid> immediately before Done()) must exist and carry the returned pid / the handler
// index / the scenario id when Launch returns; /proc/<pid>/stat at that moment and again after
// the caller exited must show a live process with the daemon's start time whose parent is
// neither the caller nor the launcher; the launcher must be gone; the daemon must answer a
// ping that was created after the caller exited.
//
// Schedules: (a) natural timing, D in {0,5,200} ms before Done(); (b) forced early Done():
// GLB_VERIF_PAUSE=launch.afterStart:<dir>/done.flag holds every launcher of a caller right after
// cmd.Start() until done.flag exists; the daemon that completes the set of N done.<pid> files
// creates it, i.e. *every* launcher of that caller is released only after *all* N daemons have
// returned from Done(). That keeps N concurrent Launch calls inside one process (the env is
// process-wide, so a per-call pause file is impossible) and still forces "Done() precedes the
// launcher's wait" exactly for each of them. (c) N in {2,8} concurrent calls: all natural, all
// forced, or mixed = two caller processes running at the same time, one forced and one natural.
// (d)/(e) the same with a launcher process that lingers 50 / 300 ms between daemon.Run()
// returning true and os.Exit(0): a program with a slow clean-up in the documented
// "if daemon.Run() { os.Exit(0) }" - a launcher that is still alive after it stopped listening.
// (h) histories: one caller process issues 6..12 Launch calls one after the other (seq) or in
// steps of 1-3 concurrent calls (mix), with GOMAXPROCS default or 1; 45 % of the handlers fail
// before Done() (os.Exit(3), os.Exit(0), panic), every history starts with "a failing launch,
// then a healthy one". Each healthy call is judged by the same oracle (its own handler index
// in marker/predone); calls of failing handlers are outside the statement and only counted.
// (s) stdio: after Done() the daemon writes to os.Stderr / os.Stdout / the default logger (once at
// once, three more times after it got a new parent, i.e. the launcher is gone) and reads
// os.Stdin; the supervisor waits until it has written stdio.<pid> or is dead, then applies the
// unchanged liveness oracle (key daemon-died-after-Done:stdio@... when it is dead).
// (n) names: 12 calls under handler names from the edges of what a name can be ("", " ", "a b",
// "x=y", non-ASCII, 200 bytes, prefixes of each other, the values of ENV_DAEMON_FLAG, the
// variable's own name) - concurrent, sequential, forced. (t) nested: the daemon of handler 0, after
// Done(), calls Launch of handler 1 from inside (thorough also 1 -> 2), its environment still
// carrying its own ENV_DAEMON_*; the nested call is observed by that daemon exactly as the caller
// observes its calls and judged by the same post-conditions. (u) the caller has a stale
// ENV_DAEMON_FLAG (and no ENV_DAEMON_NAME - Run() keys on the name) in its environment. (p) the
// caller is started as ./prog in its directory, sub/prog from the parent directory, by bare name
// through PATH, through a symlink, or by absolute path with another cwd.
// (n-*-sep) the same with names that contain separator characters. (q) the handler does an
// ordinary thing to its own process right before Done(): unset/overwrite ENV_DAEMON_NAME / _FLAG,
// os.Clearenv(), chdir("/"), close fds 0-2, setsid, umask - one call per action, all in one caller
// (concurrent, forced, sequential); a launcher that keeps waiting although the daemon's done
// record says Done() returned nil is found by the watchdog + at-rest proof (launch-never-returns).
// (k) short-lived daemons: the handler returns right after Done() (kinds s0 / s5 / sf), the
// process ends with status 0. natural; forced: done.flag is created by the supervisor once every
// daemon has its done record and is gone or a zombie; frozen: the handler SIGSTOPs its launcher,
// sees it stopped, calls Done() and ends - the supervisor SIGCONTs the launcher when the daemon
// is a zombie, so the launcher resumes with the signal and the exit both pending. Oracle: nil
// and the right pid (marker of that handler), predone present when Launch returns; a Launch
// error after a successful Done() is the usual launch-error violation; liveness / orphan clauses
// are not applicable and only counted.
// A Launch that fails although no process ever ran its handler is decided, not left open: the
// launcher is gone when Launch returns, so the handler can never run; the harness handlers always
// reach Done() when run; unless the error is a resource refusal of the machine it is a
// violation (handler-not-dispatched when the re-executed process itself reports that daemon.Run()
// did not recognise it, launch-failed-daemon-never-started otherwise).
// (g) slow daemons: the handler waits at a gate (file gate.open) between its marker and
// predone/Done(); the supervisor keeps the gate closed for D = 8 (quick) / 8, 20, 45 s (thorough)
// after the handler arrived there, then decides - before it creates gate.open - whether the
// caller has written ret.<i> (Launch returned): that is the violation
// "launch-returned-before-Done:gate-closed@Ds"; the D seconds are only the exposure window.
// Afterwards the gate is opened and the normal post-conditions are judged.
// Further callers share the same window, each with one gated call whose launcher gets one
// foreign signal (quick: TERM, HUP, USR1, WINCH; thorough: also USR2, QUIT, CONT, URG) while the
// gate is closed: success of that Launch before the gate opens is the violation
// "launch-returned-before-Done:signal=<name>", an error is acceptable, waiting on is fine.
package main

import (
	"encoding/json"
	"fmt"
	"math/rand"
	"os"
	"os/exec"
	"path/filepath"
	"regexp"
	"sort"
	"strconv"
	"strings"
	"syscall"
	"time"

	"github.com/whoisnian/glb/daemon"

	"verif/internal/drv"
)

// Group is one caller process.
type Group struct {
	Forced bool  `json:"forced"`    // launchers paused after cmd.Start() until all daemons returned from Done()
	Delays []int `json:"delays_ms"` // one Launch call per entry: handler dl-<i> sleeps this long before Done()
	// LingerMs: every launcher process of this caller lingers that long between daemon.Run()
	// returning true and os.Exit(0) - the documented "if daemon.Run() { os.Exit(0) }" with a
	// slow clean-up in between.
	LingerMs int `json:"launcher_linger_ms,omitempty"`
	// Histories: Kinds[i] says what handler dl-<i> does ("h"/"" healthy; "x3" os.Exit(3), "x0"
	// os.Exit(0), "p" panic - each before Done()); Steps splits the calls of this caller into
	// consecutive steps of that many concurrent Launch calls (a step of 1 is issued by the
	// caller's main goroutine); Procs is the caller's GOMAXPROCS (0 = default).
	Kinds []string `json:"kinds,omitempty"`
	Steps []int    `json:"steps,omitempty"`
	Procs int      `json:"gomaxprocs,omitempty"`
	// Stdio: after Done() every daemon writes to stderr/stdout (also through package log) and
	// reads stdin, like a real daemon; then its usual duties (ping answer).
	Stdio bool `json:"daemon_uses_stdio,omitempty"`
	// Names "edge": the calls use handler names from the edges of what a name can be (roles.go).
	Names string `json:"names,omitempty"`
	// Nest n >= 2: the caller launches handler 0 only; handler i, after Done(), itself calls
	// Launch of handler i+1 (i+1 < n) from inside the daemon, whose environment still carries the
	// ENV_DAEMON_* variables of its own launch. len(Delays) == n.
	Nest int `json:"nest,omitempty"`
	// StaleFlag: the caller is started with ENV_DAEMON_FLAG=<this> in its environment and no
	// ENV_DAEMON_NAME (Run() keys on the name only, so the caller is still a plain program).
	StaleFlag string `json:"stale_env_daemon_flag,omitempty"`
	// Start: how the caller is started - "" absolute path of the monitor binary; "rel-cwd"
	// argv[0]=./prog with cwd = its directory; "rel-parent" argv[0]=sub/prog from the parent
	// directory; "path" bare argv[0] found through PATH, cwd elsewhere; "symlink" absolute path of
	// a symlink to the binary; "abs-othercwd" absolute path with a cwd that is neither "/" nor the
	// binary's directory.
	Start string `json:"start,omitempty"`
	// GateSignal (gate cases): while the gate is closed the supervisor sends this signal (TERM,
	// HUP, USR1, USR2, QUIT, CONT, WINCH, URG) once to the launcher of every gated call.
	GateSignal string `json:"gate_signal,omitempty"`
	// Pre[i]: what handler i does to itself right before Done() - unset-name / unset-flag /
	// unset-both (ENV_DAEMON_*), clearenv, overwrite (other values), chdir("/"), closefds (0,1,2),
	// setsid, umask.
	Pre []string `json:"pre_done_actions,omitempty"`
	// SigIgn: the caller runs with SIGINT ignored (what nohup, a background job of a non-interactive
	// shell or signal.Ignore give a program); launcher and daemon inherit that disposition.
	SigIgn bool `json:"caller_ignores_sigint,omitempty"`
}

func (g Group) name(i int) string { return nameOf(g.Names, i) }

// callerCalls: how many Launch calls the caller itself makes.
func (g Group) callerCalls() int {
	if g.Nest > 1 {
		return len(g.Delays) - (g.Nest - 1)
	}
	return len(g.Delays)
}

func (g Group) kind(i int) string { return kindOf(g.Kinds, i) }

// Case is one replayable scenario: the groups run at the same time.
type Case struct {
	Sched  string  `json:"sched"` // schedule class, part of the violation key
	Groups []Group `json:"groups"`
	Id     string  `json:"id"`
	// GateSecs > 0: handlers of kind "g" wait at a gate before Done(); the supervisor keeps the
	// gate closed for that many seconds after every gated handler arrived there (exposure
	// window), checks that none of their Launch calls has returned, and only then opens it.
	GateSecs int `json:"gate_closed_s,omitempty"`
}

func (cs Case) shape() string {
	var sb strings.Builder
	sb.WriteString(cs.Sched)
	if cs.GateSecs > 0 {
		fmt.Fprintf(&sb, "|gate=%ds", cs.GateSecs)
	}
	for _, g := range cs.Groups {
		fmt.Fprintf(&sb, "|f=%v:%v:l%d:k%v:s%v:p%d", g.Forced, g.Delays, g.LingerMs, g.Kinds, g.Steps, g.Procs)
		if g.Stdio {
			sb.WriteString(":stdio")
		}
		fmt.Fprintf(&sb, ":%s:n%d:%s:%s:sig%s:pre%v", g.Names, g.Nest, g.StaleFlag, g.Start, g.GateSignal, g.Pre)
		if g.SigIgn {
			sb.WriteString(":sigign")
		}
	}
	return sb.String()
}

const (
	launchWatchdog = 20 * time.Second // a Launch call that has not returned by then is examined
	settleWatchdog = 10 * time.Second // daemons writing done.<pid> / pong.<pid>
)

// verdict of one scenario
type verdict struct {
	key, expected, observed string
	inconclusive            string
}

func (v verdict) bad() bool { return v.key != "" || v.inconclusive != "" }

type groupRun struct {
	g        Group
	idx      int
	dir      string
	cmd      *exec.Cmd
	pgid     int
	guardW   *os.File
	waited   chan struct{}
	waitErr  error
	exited   bool
	startErr error
}

var digitsRe = regexp.MustCompile(`[0-9]+`)

func normErr(s string) string {
	s = digitsRe.ReplaceAllString(s, "N")
	s = strings.Join(strings.Fields(s), " ")
	if len(s) > 100 {
		s = s[:100]
	}
	return s
}

func cleanEnv() []string {
	var out []string
	for _, e := range os.Environ() {
		k, _, _ := strings.Cut(e, "=")
		if strings.HasPrefix(k, "DL_") || strings.HasPrefix(k, "ENV_DAEMON_") || k == "GLB_VERIF_PAUSE" {
			continue
		}
		out = append(out, e)
	}
	return out
}

func joinInts(a []int) string {
	s := make([]string, len(a))
	for i, v := range a {
		s[i] = strconv.Itoa(v)
	}
	return strings.Join(s, ",")
}

// runCase executes one scenario and judges it. It never leaves a process behind.
func runCase(cs Case, c *drv.Ctx, root string) (vd verdict) {
	self, err := os.Executable()
	if err != nil {
		return verdict{inconclusive: "os.Executable: " + err.Error()}
	}
	sdir, err := os.MkdirTemp(root, "s-")
	if err != nil {
		return verdict{inconclusive: "mkdir: " + err.Error()}
	}
	runs := make([]*groupRun, len(cs.Groups))
	stopHelpers := make(chan struct{})
	defer func() {
		close(stopHelpers)
		cleanup(runs, c)
		os.RemoveAll(sdir)
	}()

	for gi, g := range cs.Groups {
		gr := &groupRun{g: g, idx: gi, dir: filepath.Join(sdir, fmt.Sprintf("g%d", gi)), waited: make(chan struct{})}
		runs[gi] = gr
		if len(g.Delays) == 0 || len(g.Delays) > maxN {
			return verdict{inconclusive: "bad case"}
		}
		os.MkdirAll(gr.dir, 0o755)
	}
	for _, gr := range runs {
		cmd, serr := startCmd(self, root, sdir, gr.g.Start)
		if serr != nil {
			gr.startErr = serr
			break
		}
		cmd.Env = append(cmd.Env, envRole+"=caller", envDir+"="+gr.dir, envSeq+"="+cs.Id,
			envDelays+"="+joinInts(gr.g.Delays), envSup+"="+strconv.Itoa(os.Getpid()))
		if cs.GateSecs > 0 {
			cmd.Env = append(cmd.Env, envCap+"="+strconv.Itoa(cs.GateSecs+int(launchWatchdog/time.Second)))
		}
		if len(gr.g.Kinds) > 0 {
			cmd.Env = append(cmd.Env, envKinds+"="+strings.Join(gr.g.Kinds, ","))
		}
		if len(gr.g.Steps) > 0 {
			cmd.Env = append(cmd.Env, envSteps+"="+joinInts(gr.g.Steps))
		}
		if gr.g.Stdio {
			cmd.Env = append(cmd.Env, envStdio+"=1")
		}
		if len(gr.g.Pre) > 0 {
			cmd.Env = append(cmd.Env, envPre+"="+strings.Join(gr.g.Pre, ","))
		}
		if gr.g.Names != "" {
			cmd.Env = append(cmd.Env, envNames+"="+gr.g.Names)
		}
		if gr.g.Nest > 1 {
			cmd.Env = append(cmd.Env, envNest+"="+strconv.Itoa(gr.g.Nest))
		}
		if gr.g.StaleFlag != "" {
			cmd.Env = append(cmd.Env, "ENV_DAEMON_FLAG="+gr.g.StaleFlag) // no ENV_DAEMON_NAME: still a plain program
		}
		if gr.g.Procs > 0 {
			cmd.Env = append(cmd.Env, "GOMAXPROCS="+strconv.Itoa(gr.g.Procs))
		}
		if gr.g.LingerMs > 0 {
			cmd.Env = append(cmd.Env, envLinger+"="+strconv.Itoa(gr.g.LingerMs))
		}
		if gr.g.SigIgn {
			cmd.Env = append(cmd.Env, envSigIgn+"=1")
		}
		if gr.g.Forced {
			cmd.Env = append(cmd.Env, envForced+"=1", "GLB_VERIF_PAUSE=launch.afterStart:"+filepath.Join(gr.dir, flagName))
		}
		// plain files, not pipes: Wait() must not depend on who else holds the descriptors
		of, _ := os.Create(filepath.Join(gr.dir, "caller.out"))
		ef, _ := os.Create(filepath.Join(gr.dir, "caller.err"))
		cmd.Stdout, cmd.Stderr = of, ef
		pr, pw, perr := os.Pipe()
		if perr != nil {
			gr.startErr = perr
			break
		}
		cmd.ExtraFiles = []*os.File{pr}
		cmd.SysProcAttr = &syscall.SysProcAttr{Setpgid: true}
		gr.startErr = cmd.Start()
		pr.Close()
		of.Close()
		ef.Close()
		if gr.startErr != nil {
			pw.Close()
			break
		}
		gr.cmd, gr.pgid, gr.guardW = cmd, cmd.Process.Pid, pw
		go func(gr *groupRun) { gr.waitErr = gr.cmd.Wait(); close(gr.waited) }(gr)
		if anyShortKind(gr.g.Kinds) {
			go shortLivedHelper(gr, stopHelpers, c)
		}
	}
	for _, gr := range runs {
		if gr.startErr != nil {
			return verdict{inconclusive: "cannot start caller: " + gr.startErr.Error()}
		}
	}
	if cs.GateSecs > 0 {
		if v := gateWindow(cs, runs, c); v.bad() {
			return v
		}
	}
	deadline := time.Now().Add(launchWatchdog)
	for _, gr := range runs {
		select {
		case <-gr.waited:
			gr.exited = true
		case <-time.After(time.Until(deadline)):
			select { // it may have exited at the same moment
			case <-gr.waited:
				gr.exited = true
			default:
			}
		}
	}
	// groups whose Launch did not return are examined first: everything is still in place
	for _, gr := range runs {
		if !gr.exited {
			c.Add("launch_watchdog_fired", 1)
			if v := judgeHang(cs, gr); v.key != "" {
				return v
			} else if !vd.bad() {
				vd = v
			}
		}
	}
	for _, gr := range runs {
		if gr.exited {
			if v := judgeExited(cs, gr, c); v.key != "" {
				return v
			} else if !vd.bad() {
				vd = v
			}
		}
	}
	return vd
}

var gateSignals = map[string]syscall.Signal{
	"TERM": syscall.SIGTERM, "HUP": syscall.SIGHUP, "USR1": syscall.SIGUSR1, "USR2": syscall.SIGUSR2,
	"QUIT": syscall.SIGQUIT, "CONT": syscall.SIGCONT, "WINCH": syscall.SIGWINCH, "URG": syscall.SIGURG,
}

// gateKeyFor: the key of "Launch returned while its handler waits at the closed gate".
func gateKeyFor(cs Case, gr *groupRun) string {
	if gr.g.GateSignal != "" {
		return "launch-returned-before-Done:signal=" + gr.g.GateSignal
	}
	return fmt.Sprintf("launch-returned-before-Done:gate-closed@%ds", cs.GateSecs)
}

// gateWindow keeps the gate of every caller closed for cs.GateSecs seconds, counted from the
// moment all gated handlers have arrived at it. The sleep is only the exposure window. The
// verdict is structural: a ret.<i> file (written by the caller when Launch returned) of a gated
// call exists while gate.open - which only this function creates, afterwards - does not: Launch
// returned although its handler cannot have called Done().
//
// Callers with a GateSignal: as soon as the handlers are at the gate, the launcher of each gated
// call (the handler's parent at start-up, verified by start time and by being a child of the
// caller) gets that one signal - a signal that is NOT the daemon's Done(). A Launch that then
// returns success while the gate is closed is the violation; a Launch that returns an error
// (the launcher died of the signal) is acceptable and counted; one that keeps waiting is fine.
func gateWindow(cs Case, runs []*groupRun, c *drv.Ctx) verdict {
	gated := func(gr *groupRun) (idx []int) {
		for i := range gr.g.Delays {
			if gr.g.kind(i) == kindGated {
				idx = append(idx, i)
			}
		}
		return
	}
	type callKey struct {
		g, i int
	}
	accepted := map[callKey]bool{} // gated calls that ended with an error after a foreign signal
	t0 := time.Now()
	// scan classifies every gated call that has returned; a refuting one is handed back
	scan := func() (v verdict, open int) {
		for _, gr := range runs {
			for _, i := range gated(gr) {
				k := callKey{gr.idx, i}
				if accepted[k] {
					continue
				}
				rf := filepath.Join(gr.dir, fmt.Sprintf("ret.%d", i))
				var cr CallReport
				if !exists(rf) || !readJSON(rf, &cr) {
					open++
					continue
				}
				if gr.g.GateSignal != "" && cr.Failed {
					accepted[k] = true
					c.Add("gate_signal_launch_returned_error."+gr.g.GateSignal, 1)
					continue
				}
				markers, dones := readDir(gr.dir)
				mi, _ := markerOfIdx(markers, i)
				st, same := sameProcess(mi.Pid, mi.Start)
				sig := ""
				if gr.g.GateSignal != "" {
					sig = fmt.Sprintf(" after the supervisor sent SIG%s to its launcher %d (not the daemon's Done())", gr.g.GateSignal, mi.Launcher)
				}
				return verdict{key: gateKeyFor(cs, gr),
					expected: fmt.Sprintf("%s does not return success while its handler (process %d) waits at the closed gate, i.e. before it called Done() - however slowly the daemon reaches Done()", describe(cs, gr, i), mi.Pid),
					observed: fmt.Sprintf("Launch returned (%d, %q) %.1f s after the handler arrived at the gate%s, gate.open not yet created; handler process %d is %s (state %s), predone present at return=%v, done record=%+v",
						cr.Pid, cr.Err, time.Since(t0).Seconds(), sig, mi.Pid, aliveWord(same && st.alive()), st.State, cr.PreDonePresent, dones[mi.Pid])}, 0
			}
		}
		return verdict{}, open
	}
	// a caller that is gone although one of its gated calls has neither returned nor been accepted
	callerLost := func() bool {
		for _, gr := range runs {
			select {
			case <-gr.waited:
				for _, i := range gated(gr) {
					if !accepted[callKey{gr.idx, i}] && !exists(filepath.Join(gr.dir, fmt.Sprintf("ret.%d", i))) {
						return true
					}
				}
			default:
			}
		}
		return false
	}
	arrived := func() bool {
		for _, gr := range runs {
			if len(listPrefixed(gr.dir, "atgate.")) < len(gated(gr)) {
				return false
			}
		}
		return true
	}
	var early verdict
	atGate := waitFor(launchWatchdog, func() bool {
		v, _ := scan()
		early = v
		return arrived() || v.key != "" || callerLost()
	}) && arrived()
	if early.key != "" {
		return early
	}
	t0 = time.Now()
	polls := int64(0)
	if atGate {
		// one foreign signal to the launcher of every gated call of the callers that ask for it
		for _, gr := range runs {
			sig, ok := gateSignals[gr.g.GateSignal]
			if !ok {
				continue
			}
			markers, _ := readDir(gr.dir)
			for _, i := range gated(gr) {
				m, okm := markerOfIdx(markers, i)
				st, same := sameProcess(m.Launcher, m.LauncherStart)
				if !okm || !same || !st.alive() || st.Ppid != gr.pgid {
					return verdict{inconclusive: fmt.Sprintf("launcher of the gated call %d of caller %d not found (marker=%v stat=%+v)", i, gr.pgid, okm, st)}
				}
				if err := syscall.Kill(m.Launcher, sig); err != nil {
					return verdict{inconclusive: fmt.Sprintf("cannot signal launcher %d: %v", m.Launcher, err)}
				}
				c.Add("gate_signals_sent."+gr.g.GateSignal, 1)
			}
		}
		for time.Since(t0) < time.Duration(cs.GateSecs)*time.Second {
			v, open := scan()
			if v.key != "" {
				return v
			}
			if open == 0 || callerLost() {
				break
			}
			polls++
			time.Sleep(10 * time.Millisecond)
		}
	}
	// ---- the decision, taken while gate.open does not exist ----
	if v, _ := scan(); v.key != "" {
		return v
	}
	if !atGate {
		return verdict{inconclusive: fmt.Sprintf("gated handlers did not arrive at the gate within %v (caller lost=%v)", launchWatchdog, callerLost())}
	}
	if callerLost() {
		return verdict{inconclusive: "a caller exited during the gate window without its gated Launch having returned"}
	}
	c.Add("gate_windows_held_closed", 1)
	c.Add("gate_polls_launch_not_returned", polls)
	c.MaxOf("gate_closed_seconds", int64(time.Since(t0).Seconds()))
	for _, gr := range runs {
		os.WriteFile(filepath.Join(gr.dir, gateName), nil, 0o644)
	}
	return verdict{}
}

// shortLivedHelper serves the callers whose daemons end right after Done(). For each such
// daemon it waits until the done record exists AND the process is gone or a zombie; then
//   - a launcher that the handler froze (kind sf) is resumed with SIGCONT: its two events, the
//     daemon's signal and the daemon's exit, are both pending at that moment;
//   - in a forced schedule, once this holds for every daemon of the caller, done.flag is created
//     (these daemons do not create it themselves): the launchers leave the pause hook with both
//     events in the past.
//
// Only processes identified by pid and start time from a marker are signalled.
func shortLivedHelper(gr *groupRun, stop <-chan struct{}, c *drv.Ctx) {
	n := len(gr.g.Delays)
	resumed := map[int]bool{}
	flagDone := !gr.g.Forced
	for {
		select {
		case <-stop:
			return
		default:
		}
		markers, dones := readDir(gr.dir)
		finished := 0
		for pid, m := range markers {
			if !shortKind(gr.g.kind(m.Idx)) {
				continue
			}
			if _, ok := dones[pid]; !ok {
				continue
			}
			if st, same := sameProcess(pid, m.Start); same && st.alive() {
				continue // still running
			}
			finished++
			if gr.g.kind(m.Idx) == kindShortFz && !resumed[pid] {
				if lst, same := sameProcess(m.Launcher, m.LauncherStart); same && lst.State == "T" {
					syscall.Kill(m.Launcher, syscall.SIGCONT)
					c.Add("frozen_launchers_resumed_with_signal_and_exit_pending", 1)
				}
				resumed[pid] = true
			}
		}
		if !flagDone && finished >= n {
			os.WriteFile(filepath.Join(gr.dir, flagName), nil, 0o644)
			c.Add("short_lived_forced_flags_created_after_daemons_were_gone", 1)
			flagDone = true
		}
		time.Sleep(time.Millisecond)
	}
}

// progCopy puts one copy of the monitor binary at <root>/bin/sub/daemonlaunch-prog (plus a symlink
// <root>/bin/daemonlaunch-link) for the scenarios that start the caller in other ways than by
// the absolute path of the monitor binary. One copy per shard process, removed with the root.
func progCopy(self, root string) (dir, sub, prog, link string, err error) {
	dir = filepath.Join(root, "bin")
	sub = filepath.Join(dir, "sub")
	prog = filepath.Join(sub, "daemonlaunch-prog")
	link = filepath.Join(dir, "daemonlaunch-link")
	if exists(prog) && exists(link) {
		return
	}
	if err = os.MkdirAll(sub, 0o755); err != nil {
		return
	}
	tmp := prog + ".tmp"
	if os.Link(self, tmp) != nil {
		var b []byte
		if b, err = os.ReadFile(self); err != nil {
			return
		}
		if err = os.WriteFile(tmp, b, 0o755); err != nil {
			return
		}
	}
	if err = os.Rename(tmp, prog); err != nil {
		return
	}
	os.Remove(link)
	err = os.Symlink(filepath.Join("sub", "daemonlaunch-prog"), link)
	return
}

// startCmd prepares the caller command for a start mode (see Group.Start). Env is cleanEnv().
func startCmd(self, root, sdir, mode string) (*exec.Cmd, error) {
	env := cleanEnv()
	if mode == "" {
		cmd := exec.Command(self)
		cmd.Env = env
		return cmd, nil
	}
	dir, sub, prog, link, err := progCopy(self, root)
	if err != nil {
		return nil, err
	}
	cmd := &exec.Cmd{Path: prog, Env: env}
	switch mode {
	case "rel-cwd":
		cmd.Args, cmd.Dir = []string{"./daemonlaunch-prog"}, sub
	case "rel-parent":
		cmd.Args, cmd.Dir = []string{"sub/daemonlaunch-prog"}, dir
	case "path":
		cmd.Args, cmd.Dir = []string{"daemonlaunch-prog"}, sdir
		for i, e := range env {
			if strings.HasPrefix(e, "PATH=") {
				env[i] = "PATH=" + sub + ":" + strings.TrimPrefix(e, "PATH=")
				sub = ""
			}
		}
		if sub != "" {
			env = append(env, "PATH="+sub)
		}
		cmd.Env = env
	case "symlink":
		cmd.Path, cmd.Args = link, []string{link}
	case "abs-othercwd":
		cmd.Path, cmd.Args, cmd.Dir = self, []string{self}, sdir
	default:
		return nil, fmt.Errorf("unknown start mode %q", mode)
	}
	return cmd, nil
}

// cleanup kills every process group of the scenario and every daemon that left a marker,
// then waits until they are gone. Pids are recycled quickly on a busy machine, so nothing is
// signalled unless it is proven to be ours: a process group is killed only while its leader
// (the caller) has not been reaped or while a process with a known start time is a member; a
// single pid only when its start time matches the marker.
func cleanup(runs []*groupRun, c *drv.Ctx) {
	type pd struct {
		pid, pgid int
		start     uint64
	}
	var pids []pd
	for _, gr := range runs {
		if gr == nil || gr.cmd == nil {
			continue
		}
		var mine []pd
		for _, mf := range listPrefixed(gr.dir, "marker.") {
			var m Marker
			if readJSON(mf, &m) {
				mine = append(mine, pd{m.Pid, gr.pgid, m.Start}, pd{m.Launcher, gr.pgid, m.LauncherStart})
			}
		}
		pids = append(pids, mine...)
		groupIsOurs := false
		select {
		case <-gr.waited: // caller reaped: the group exists only as long as it has members
			for _, p := range mine {
				if st, same := sameProcess(p.pid, p.start); same && st.Pgrp == gr.pgid {
					groupIsOurs = true
					break
				}
			}
		default:
			groupIsOurs = true
		}
		if groupIsOurs {
			syscall.Kill(-gr.pgid, syscall.SIGKILL)
		}
	}
	for _, p := range pids { // a daemon or launcher that left the process group (none does today)
		if st, same := sameProcess(p.pid, p.start); same && st.alive() && st.Pgrp != p.pgid {
			syscall.Kill(p.pid, syscall.SIGKILL)
			if c != nil {
				c.Add("killed_outside_group", 1)
			}
		}
	}
	for _, gr := range runs {
		if gr == nil || gr.cmd == nil {
			continue
		}
		<-gr.waited
		gr.guardW.Close()
	}
	end := time.Now().Add(5 * time.Second)
	for _, p := range pids {
		for time.Now().Before(end) {
			if st, same := sameProcess(p.pid, p.start); !same || !st.alive() {
				break
			}
			time.Sleep(time.Millisecond)
		}
	}
}

func readDir(dir string) (markers map[int]Marker, dones map[int]DoneRec) {
	markers, dones = map[int]Marker{}, map[int]DoneRec{}
	for _, f := range listPrefixed(dir, "marker.") {
		var m Marker
		if readJSON(f, &m) {
			markers[m.Pid] = m
		}
	}
	for _, f := range listPrefixed(dir, "done.") {
		var d DoneRec
		if readJSON(f, &d) {
			dones[d.Pid] = d
		}
	}
	return
}

func markerOfIdx(ms map[int]Marker, idx int) (Marker, bool) {
	var pids []int
	for p, m := range ms {
		if m.Idx == idx {
			pids = append(pids, p)
		}
	}
	if len(pids) == 0 {
		return Marker{}, false
	}
	sort.Ints(pids)
	return ms[pids[0]], true
}

func schedOf(cs Case, gr *groupRun) string {
	mode := "natural"
	if gr.g.Forced {
		mode = "forced"
	}
	return cs.Sched + "/" + mode
}

func shortName(n string) string {
	if len(n) > 40 {
		return n[:40] + fmt.Sprintf("...(%d bytes)", len(n))
	}
	return n
}

func describe(cs Case, gr *groupRun, i int) string {
	linger := ""
	if gr.g.Nest > 1 {
		if i >= gr.g.callerCalls() {
			linger += fmt.Sprintf("; NESTED: called from inside the daemon of handler %q after its Done() (nesting depth %d of %d)", shortName(gr.g.name(i-1)), i+1, gr.g.Nest)
		} else {
			linger += fmt.Sprintf("; its daemon launches handler %q in turn (nesting depth %d)", shortName(gr.g.name(i+1)), gr.g.Nest)
		}
	}
	if i < len(gr.g.Pre) && gr.g.Pre[i] != "" {
		linger += "; before Done() the handler does: " + gr.g.Pre[i]
	}
	if gr.g.GateSignal != "" {
		linger += "; the supervisor sends SIG" + gr.g.GateSignal + " to the launcher while the handler waits at the gate"
	}
	if gr.g.StaleFlag != "" {
		linger += fmt.Sprintf("; caller started with a stale ENV_DAEMON_FLAG=%s in its environment", gr.g.StaleFlag)
	}
	if gr.g.Start != "" {
		linger += "; caller started as: " + gr.g.Start
	}
	if gr.g.LingerMs > 0 {
		linger += fmt.Sprintf("; launcher process lingers %d ms between daemon.Run() and os.Exit(0)", gr.g.LingerMs)
	}
	if len(gr.g.Steps) > 0 {
		return fmt.Sprintf("Launch(%q) [call %d of a history of %d calls in one caller process: handler kinds %v (h healthy, x3/x0/p fail before Done()), issued in steps of %v concurrent calls, GOMAXPROCS=%d; schedule %s; this handler sleeps %d ms before Done()%s]",
			shortName(gr.g.name(i)), i+1, len(gr.g.Delays), gr.g.Kinds, gr.g.Steps, gr.g.Procs, schedOf(cs, gr), gr.g.Delays[i], linger)
	}
	return fmt.Sprintf("Launch(%q) [call %d of %d concurrent in this caller, %d caller(s); schedule %s; handler sleeps %d ms before Done()%s]",
		shortName(gr.g.name(i)), i+1, len(gr.g.Delays), len(cs.Groups), schedOf(cs, gr), gr.g.Delays[i], linger)
}

// judgeHang: the caller did not exit within the watchdog. Only process state can turn that into
// a violation: the daemon has returned from a successful Done(), and either its launcher is
// provably at rest with the signal consumed, or the launcher is gone and the caller waits on a
// pipe the daemon holds. Everything else is inconclusive.
func judgeHang(cs Case, gr *groupRun) verdict {
	returned := map[int]bool{}
	for _, f := range listPrefixed(gr.dir, "ret.") {
		n, _ := strconv.Atoi(strings.TrimPrefix(filepath.Base(f), "ret."))
		returned[n] = true
	}
	markers, dones := readDir(gr.dir)
	var incon []string
	for i := range gr.g.Delays {
		if returned[i] {
			continue
		}
		m, ok := markerOfIdx(markers, i)
		d, okd := dones[m.Pid]
		dst, dsame := sameProcess(m.Pid, m.Start)
		if !ok || !okd || !d.Called || d.Err != "" || ((!dsame || !dst.alive()) && !shortKind(gr.g.kind(i))) {
			incon = append(incon, fmt.Sprintf("%s not returned after %v, but no live daemon that returned from a successful Done() (marker=%v done=%+v)", describe(cs, gr, i), launchWatchdog, ok, d))
			continue
		}
		exp := fmt.Sprintf("%s returns (%d, nil): daemon %d wrote its marker, returned from Done() (err=nil) and is running", describe(cs, gr, i), m.Pid, m.Pid)
		if lst, same := sameProcess(m.Launcher, m.LauncherStart); same && lst.alive() {
			if rest, how := atRest(m.Launcher); rest {
				return verdict{key: "launch-never-returns:launcher-at-rest-after-Done@" + schedOf(cs, gr), expected: exp,
					observed: fmt.Sprintf("not returned %v after the call; launcher %d (parent %d) still alive and at rest: %s - the daemon returned from Done() with err=nil, no SIGINT is pending for the launcher (it consumed it or never got one) and it keeps waiting; caller %d state %s",
						launchWatchdog, m.Launcher, lst.Ppid, how, gr.pgid, readStat(gr.pgid).State)}
			} else {
				incon = append(incon, fmt.Sprintf("%s not returned after %v; launcher %d alive but not provably at rest: %s", describe(cs, gr, i), launchWatchdog, m.Launcher, how))
			}
			continue
		}
		// launcher gone: is the caller waiting for a pipe that the daemon holds?
		cp, dp := pipeInodes(gr.pgid), pipeInodes(m.Pid)
		var shared []string
		for p := range cp {
			if dp[p] {
				shared = append(shared, p)
			}
		}
		if len(shared) > 0 {
			sort.Strings(shared)
			return verdict{key: "launch-never-returns:daemon-holds-launcher-pipe@" + schedOf(cs, gr), expected: exp,
				observed: fmt.Sprintf("not returned %v after the call; launcher %d is gone, the caller %d still reads %v which daemon %d holds open: Launch cannot return while the daemon lives", launchWatchdog, m.Launcher, gr.pgid, shared, m.Pid)}
		}
		incon = append(incon, fmt.Sprintf("%s not returned after %v; launcher gone, no structural reason found", describe(cs, gr, i), launchWatchdog))
	}
	if len(incon) == 0 {
		incon = append(incon, fmt.Sprintf("caller %d did not exit within %v although every Launch returned", gr.pgid, launchWatchdog))
	}
	return verdict{inconclusive: strings.Join(incon, "; ")}
}

func waitFor(limit time.Duration, cond func() bool) bool {
	end := time.Now().Add(limit)
	for {
		if cond() {
			return true
		}
		if time.Now().After(end) {
			return false
		}
		time.Sleep(time.Millisecond)
	}
}

var doneRecordsLate bool // per shard process, see judgeExited

// judgeExited evaluates a caller that printed its report and exited.
func judgeExited(cs Case, gr *groupRun, c *drv.Ctx) verdict {
	n := len(gr.g.Delays)
	sched := schedOf(cs, gr)
	var rep CallerReport
	if !readJSON(filepath.Join(gr.dir, "caller.out"), &rep) || len(rep.Calls) != gr.g.callerCalls() {
		eb, _ := os.ReadFile(filepath.Join(gr.dir, "caller.err"))
		// The caller died before it could report. One cause is decidable from the markers: a
		// handler process that was started as a direct child of the caller (its Done() then
		// signals the caller itself).
		waitFor(time.Second, func() bool { return len(listPrefixed(gr.dir, "marker.")) >= n })
		markers, _ := readDir(gr.dir)
		for _, m := range markers {
			if m.Launcher == gr.pgid {
				return verdict{key: "daemon-child-of-caller@" + sched,
					expected: fmt.Sprintf("%s: the daemon is started by an intermediate launcher and is never a child of the caller %d", describe(cs, gr, m.Idx), gr.pgid),
					observed: fmt.Sprintf("handler %s ran in process %d whose parent at start-up was the caller %d itself; the caller ended with %v before reporting", fmt.Sprintf("%q", gr.g.name(m.Idx)), m.Pid, gr.pgid, gr.waitErr)}
			}
		}
		return verdict{inconclusive: fmt.Sprintf("caller gave no report (wait: %v, stderr: %.300q)", gr.waitErr, eb)}
	}
	if rep.SigintWasIgnored {
		c.Add("callers_that_inherited_sigint_ignored_and_reset_it", 1)
	}
	if gr.g.SigIgn {
		c.Add("callers_running_with_sigint_ignored_on_purpose", 1)
	} else if !rep.SigintDefault {
		return verdict{inconclusive: "the caller could not establish the default SIGINT environment for its launchers: " + rep.SigintNote}
	}
	// nested calls: their reports are written by the daemons that made them (possibly after the
	// caller exited). Wait for each, unless the daemon that has to make the call is gone or never
	// got as far as a successful Done().
	for k := gr.g.callerCalls(); k < n; k++ {
		rf := filepath.Join(gr.dir, fmt.Sprintf("ret.%d", k))
		prev := rep.Calls[k-1]
		nesterUp := func() bool {
			if prev.Missing || prev.Failed || prev.Marker == nil || prev.Marker.Pid != prev.Pid {
				return false
			}
			st, same := sameProcess(prev.Pid, prev.Marker.Start)
			return same && st.alive()
		}
		var cr CallReport
		if waitFor(launchWatchdog, func() bool { return exists(rf) || !nesterUp() }) && readJSON(rf, &cr) {
			c.Add("nested_launches", 1)
			rep.Calls = append(rep.Calls, cr)
		} else {
			rep.Calls = append(rep.Calls, CallReport{Idx: k, Name: gr.g.name(k), Missing: true, CalledBy: prev.Pid})
		}
	}
	// ---- the caller has exited (it was waited for) ----
	// first look at /proc, then let every daemon prove that it still runs
	deadKeyAtReturn, deadKeyAfter := "daemon-dead-at-return@"+sched, "daemon-dead-after-caller-exit@"+sched
	stdioSeen := map[int]string{}
	if gr.g.Stdio {
		// The daemons use their standard descriptors after Done(). Wait (causally, not by the
		// clock) until each of them has either finished doing so or is dead; a daemon that died
		// is then found by the unchanged liveness checks below, under a key that names the cause.
		deadKeyAtReturn, deadKeyAfter = "daemon-died-after-Done:stdio@"+sched, "daemon-died-after-Done:stdio@"+sched
		for _, r := range rep.Calls {
			if r.Marker == nil || r.Marker.Pid != r.Pid {
				continue
			}
			sf := filepath.Join(gr.dir, fmt.Sprintf("stdio.%d", r.Pid))
			dead := func() bool { st, same := sameProcess(r.Pid, r.Marker.Start); return !same || !st.alive() }
			if !waitFor(settleWatchdog, func() bool { return exists(sf) || dead() }) {
				return verdict{inconclusive: fmt.Sprintf("daemon %d neither finished using its standard descriptors nor died within %v", r.Pid, settleWatchdog)}
			}
			var sr StdioRec
			if readJSON(sf, &sr) {
				c.Add("daemons_that_used_stdio_after_Done", 1)
				if sr.Orphaned {
					c.Add("daemons_that_wrote_stdio_after_launcher_was_gone", 1)
				}
				c.SetAdd("daemon_stdin_read", sr.Stdin)
				if sr.StderrErr != "" || sr.StdoutErr != "" {
					c.SetAdd("daemon_stdio_write_errors", sr.StderrErr+"|"+sr.StdoutErr)
				}
				stdioSeen[r.Pid] = fmt.Sprintf("%+v", sr)
			} else {
				stdioSeen[r.Pid] = "no stdio record: the daemon did not get through its writes"
			}
		}
	}
	fdsOf := func(r CallReport) string {
		if r.Marker == nil {
			return ""
		}
		return fmt.Sprintf("; daemon's own fds at start-up: %s; stdio: %s", r.Marker.Fds, stdioSeen[r.Pid])
	}
	after := make([]pstat, n)
	launcherAfter := make([]bool, n)
	for i, r := range rep.Calls {
		if r.Marker != nil {
			if fd := stdFds(r.Pid); !strings.Contains(fd, "?") { // informational: what the supervisor sees
				c.SetAdd("daemon_fds_seen_by_supervisor", fd)
			}
			c.SetAdd("daemon_fds_self_reported", r.Marker.Fds)
			after[i] = readStat(r.Pid)
			_, launcherAfter[i] = sameProcess(r.Marker.Launcher, r.Marker.LauncherStart)
		}
	}
	os.WriteFile(filepath.Join(gr.dir, "ping"), nil, 0o644)
	// every daemon is expected to write done.<pid> once Done() returned; bounded wait, used to
	// classify failures and for the evidence counters. A Done() that blocks is no violation of
	// this property: when every call of a scenario succeeded and the records still did not
	// arrive, later scenarios of this process wait only briefly.
	needDone := false
	nHealthy := 0
	for i, r := range rep.Calls {
		if !healthyKind(gr.g.kind(i)) {
			continue
		}
		nHealthy++
		if r.Failed || !r.MarkerPresent || !r.PreDonePresent {
			needDone = true
		}
	}
	w := settleWatchdog
	if !needDone && doneRecordsLate {
		w = 300 * time.Millisecond
	}
	if !waitFor(w, func() bool { return len(listPrefixed(gr.dir, "done.")) >= nHealthy }) && !needDone {
		doneRecordsLate = true
		c.Add("scenarios_without_all_done_records", 1)
	}
	markers, dones := readDir(gr.dir)

	var incon []string
	for i, r := range rep.Calls {
		if k := gr.g.kind(i); !healthyKind(k) {
			// A handler that never reaches Done(): the statement says nothing about what Launch
			// returns for it (on the unchanged code: an error for a non-zero exit, (pid, nil) for
			// exit 0). It is history for the healthy calls around it; only counted.
			c.Add("failing_handler_launches", 1)
			c.Add("failing_handler_launches."+k, 1)
			switch {
			case r.Panic != "":
				return verdict{key: "launch-panic@" + sched, expected: describe(cs, gr, i) + " does not panic", observed: "Launch panicked: " + r.Panic}
			case r.Failed:
				c.Add("failing_handler_launches_returned_error."+k, 1)
			default:
				c.Add("failing_handler_launches_returned_nil."+k, 1)
				if m, ok := markers[r.Pid]; !ok || m.Idx != i {
					c.Add("failing_handler_launches_returned_foreign_pid", 1)
					c.Note(fmt.Sprintf("%s: %s returned (%d, nil), which is not the process that ran this handler", cs.Id, describe(cs, gr, i), r.Pid))
				}
			}
			continue
		}
		what := describe(cs, gr, i)
		if r.Missing {
			// the daemon that had to make this nested call is judged by its own call (if it died,
			// that is reported there); here nothing was observed
			incon = append(incon, fmt.Sprintf("%s: no report of this nested call (its caller, daemon %d, is %s)", what, r.CalledBy, aliveWord(readStat(r.CalledBy).alive())))
			continue
		}
		callerPid := rep.CallerPid
		if r.CalledBy != 0 {
			callerPid = r.CalledBy
		}
		if gr.g.kind(i) == kindGated {
			if !r.GateOpen && r.Failed && gr.g.GateSignal != "" {
				// a foreign signal ended the launcher: an error before Done() is acceptable
				c.Add("gated_launches_failed_after_foreign_signal", 1)
				continue
			}
			if !r.GateOpen { // the caller's own observation at the moment Launch returned
				return verdict{key: gateKeyFor(cs, gr), expected: what + " does not return while its handler waits at the closed gate, i.e. before it called Done()",
					observed: fmt.Sprintf("Launch returned (%d, %q) and gate.open did not exist at that moment (predone present=%v)", r.Pid, r.Err, r.PreDonePresent)}
			}
			c.Add("gated_launches_returned_only_after_gate_opened", 1)
		}
		mi, haveMi := markerOfIdx(markers, i)
		di := dones[mi.Pid]
		_, haveDi := dones[mi.Pid]
		var pdi PreDone
		havePdi := haveMi && readJSON(filepath.Join(gr.dir, fmt.Sprintf("predone.%d", mi.Pid)), &pdi)
		// premise "the handler started up and called Done()": it returned from Done() without
		// error, or (Done() may block) it wrote predone with the launcher still its parent -
		// the next statement is Done() - has not reported an error and is alive
		premise := haveMi && di.Called && di.Err == ""
		inDone := false
		if haveMi && !haveDi && havePdi && pdi.Calling {
			if st, same := sameProcess(mi.Pid, mi.Start); same && st.alive() {
				premise, inDone = true, true
			}
		}
		expOK := fmt.Sprintf("%s returns (pid of the process running handler %s, nil) only after that process called Done()", what, fmt.Sprintf("%q", gr.g.name(i)))
		c.Add("launches", 1)
		c.Add("launches."+sched, 1)
		if gr.g.Forced {
			c.Add("forced_launches", 1)
			if r.FlagPresent {
				c.Add("forced_launches_flag_existed_at_return", 1) // the launcher was released by the flag
			} else if !r.Failed {
				c.Add("forced_launches_released_without_flag", 1) // the hook's own 5 s bound ended the pause
			}
			if gr.g.LingerMs == 0 && !shortKind(gr.g.kind(i)) {
				// hook witness (only where the launcher exits at once after its wait): the launcher
				// was still the daemon's parent 20 ms after Done() was called
				c.Add("forced_launches_nolinger", 1)
				if havePdi && pdi.Calling {
					var sp Pong
					sf := filepath.Join(gr.dir, fmt.Sprintf("settled.%d", mi.Pid))
					if waitFor(settleWatchdog, func() bool { return exists(sf) }) && readJSON(sf, &sp) && sp.Ppid == mi.Launcher {
						c.Add("forced_launches_nolinger_launcher_held_by_hook", 1)
					}
				}
			}
		} else {
			c.Add("natural_launches", 1)
			if r.DonePresent {
				c.Add("natural_launches_done_file_at_return", 1)
			}
		}
		switch {
		case r.Panic != "":
			return verdict{key: "launch-panic@" + sched, expected: expOK, observed: "Launch panicked: " + r.Panic}
		case r.Failed:
			if gr.g.Forced {
				c.Add("forced_launches_failed", 1)
			}
			if premise {
				st, same := sameProcess(mi.Pid, mi.Start)
				return verdict{key: "launch-error:" + normErr(r.Err) + "@" + sched, expected: expOK,
					observed: fmt.Sprintf("Launch returned (%d, %q) although daemon %d (handler %s) wrote its marker, %s and is %s (state %s, parent %d)",
						r.Pid, r.Err, mi.Pid, fmt.Sprintf("%q", gr.g.name(i)), doneWord(inDone), aliveWord(same && st.alive()), st.State, st.Ppid)}
			}
			if !haveMi {
				// No process ever ran the handler. Launch has returned, so its launcher is gone
				// and none can start any more. The harness handlers always reach Done() when they
				// are run: that this one never ran is decided inside glb, unless the machine
				// refused a process.
				for _, u := range unrecognised(gr.dir) {
					if u.Name == gr.g.name(i) && u.Registered {
						return verdict{key: "handler-not-dispatched:" + u.Flag + "@" + sched, expected: expOK + fmt.Sprintf("; a re-executed process with ENV_DAEMON_NAME=%q runs the launcher / the handler registered under that name", shortName(u.Name)),
							observed: fmt.Sprintf("Launch returned (%d, %q); the re-executed process %d (ENV_DAEMON_NAME=%q ENV_DAEMON_FLAG=%q) was not recognised: daemon.Run() returned false although a handler is registered under that name in that process; no daemon was started", r.Pid, r.Err, u.Pid, shortName(u.Name), u.Flag)}
					}
				}
				if !resourceError(r.Err) {
					return verdict{key: "launch-failed-daemon-never-started:" + normErr(r.Err) + "@" + sched, expected: expOK + " (the handler calls Done() whenever it is run)",
						observed: fmt.Sprintf("Launch returned (%d, %q); no process ever ran handler %q (no marker), although the caller itself was started the same way (%s) and runs", r.Pid, r.Err, shortName(gr.g.name(i)), startWord(gr.g.Start))}
				}
			}
			incon = append(incon, fmt.Sprintf("%s failed with %q and no daemon of that handler returned from a successful Done() (marker=%v done=%+v): premise of the property not established", what, r.Err, haveMi, di))
			continue
		}
		// ---- Launch returned (pid, nil) ----
		if !r.MarkerPresent || !r.PreDonePresent {
			if m, ok := markers[r.Pid]; ok && m.Idx == i {
				return verdict{key: "returned-before-Done@" + sched, expected: expOK + "; marker." + strconv.Itoa(r.Pid) + " and predone." + strconv.Itoa(r.Pid) + " (written before Done()) exist when Launch returns",
					observed: fmt.Sprintf("Launch returned (%d, nil) while marker present=%v, predone present=%v; the daemon wrote them later (done record: %+v)", r.Pid, r.MarkerPresent, r.PreDonePresent, dones[r.Pid])}
			}
			if haveMi {
				rel := "neither daemon nor launcher"
				if r.Pid == mi.Launcher {
					rel = "the launcher's pid"
				} else if m, ok := markers[r.Pid]; ok {
					rel = fmt.Sprintf("the daemon of handler %s", fmt.Sprintf("%q", gr.g.name(m.Idx)))
				}
				return verdict{key: "wrong-pid@" + sched, expected: expOK + fmt.Sprintf("; handler %s runs in process %d", fmt.Sprintf("%q", gr.g.name(i)), mi.Pid),
					observed: fmt.Sprintf("Launch returned (%d, nil): %s (handler %s runs in %d, its launcher was %d)", r.Pid, rel, fmt.Sprintf("%q", gr.g.name(i)), mi.Pid, mi.Launcher)}
			}
			incon = append(incon, fmt.Sprintf("%s returned (%d, nil) but no process ever ran the handler: premise not established", what, r.Pid))
			continue
		}
		if r.Marker.Pid != r.Pid || r.Marker.Idx != i || r.Marker.Seq != cs.Id || r.PreDone.Pid != r.Pid || r.PreDone.Idx != i || r.PreDone.Seq != cs.Id {
			return verdict{key: "wrong-pid@" + sched, expected: expOK,
				observed: fmt.Sprintf("Launch returned (%d, nil) but that process is %+v / %+v (scenario %s)", r.Pid, *r.Marker, *r.PreDone, cs.Id)}
		}
		if shortKind(gr.g.kind(i)) {
			// the daemon is finished by design: right pid, marker and predone at return are all
			// that can be demanded; liveness and orphan clauses are not applicable
			c.Add("short_lived_launches_returned_right_pid_after_Done", 1)
			c.Add("short_lived_liveness_clauses_not_applicable", 1)
			c.SetAdd("short_lived_daemon_state_at_return", stateWord(r.Stat))
			continue
		}
		m := *r.Marker
		expRun := fmt.Sprintf("after %s returned (%d, nil) the daemon keeps running, the launcher %d is gone and the daemon is not a child of the caller %d", what, r.Pid, m.Launcher, callerPid)
		c.SetAdd("daemon_ppid_at_return", strconv.Itoa(r.Stat.Ppid))
		c.SetAdd("daemon_state_at_return", r.Stat.State)
		switch {
		case !r.Stat.alive() || r.Stat.Start != m.Start:
			return verdict{key: deadKeyAtReturn, expected: expRun, observed: fmt.Sprintf("/proc/%d/stat when Launch returned: %+v (daemon start time %d)%s", r.Pid, r.Stat, m.Start, fdsOf(r))}
		case r.Stat.Ppid == callerPid:
			return verdict{key: "daemon-child-of-caller@" + sched, expected: expRun, observed: fmt.Sprintf("daemon %d has parent %d = the caller when Launch returned", r.Pid, r.Stat.Ppid)}
		case r.Stat.Ppid == m.Launcher || r.LauncherAlive:
			return verdict{key: "launcher-alive-at-return@" + sched, expected: expRun, observed: fmt.Sprintf("when Launch returned: daemon %d parent %d, launcher %d exists=%v state=%s", r.Pid, r.Stat.Ppid, m.Launcher, r.LauncherAlive, r.LauncherState)}
		}
		if r.Stat.Pgrp == rep.Pgid {
			c.Add("daemon_in_callers_process_group", 1)
		} else {
			c.Add("daemon_left_callers_process_group", 1)
		}
		// after the caller exited
		a := after[i]
		c.SetAdd("daemon_ppid_after_caller_exit", strconv.Itoa(a.Ppid))
		switch {
		case !a.alive() || a.Start != m.Start:
			return verdict{key: deadKeyAfter, expected: expRun, observed: fmt.Sprintf("/proc/%d/stat after the caller exited: %+v (daemon start time %d)%s", r.Pid, a, m.Start, fdsOf(r))}
		case a.Ppid == m.Launcher || launcherAfter[i]:
			return verdict{key: "launcher-alive-after-caller-exit@" + sched, expected: expRun, observed: fmt.Sprintf("after the caller exited: daemon %d parent %d, launcher %d exists=%v", r.Pid, a.Ppid, m.Launcher, launcherAfter[i])}
		case a.Ppid == callerPid:
			return verdict{key: "daemon-child-of-caller@" + sched, expected: expRun, observed: fmt.Sprintf("daemon %d still has parent %d = the caller", r.Pid, a.Ppid)}
		}
		// liveness proof: the pong is caused by a ping created after the caller exited
		c.Add("liveness_checks", 1)
		pong := filepath.Join(gr.dir, fmt.Sprintf("pong.%d", r.Pid))
		if waitFor(settleWatchdog, func() bool { return exists(pong) }) {
			c.Add("daemon_answered_ping_after_caller_exit", 1)
		} else if st, same := sameProcess(r.Pid, m.Start); !same || !st.alive() {
			return verdict{key: deadKeyAfter, expected: expRun, observed: fmt.Sprintf("daemon %d answered no ping and /proc shows %+v%s", r.Pid, st, fdsOf(r))}
		} else {
			incon = append(incon, fmt.Sprintf("daemon %d alive (state %s) but answered no ping within %v", r.Pid, st.State, settleWatchdog))
		}
		if d, ok := dones[r.Pid]; ok && d.Called && d.Err == "" {
			c.Add("launches_confirmed_after_successful_Done", 1)
		}
	}
	// overlap of the Launch calls inside this caller (logical clock)
	ov := 0
	for i := range rep.Calls {
		for j := i + 1; j < len(rep.Calls); j++ {
			a, b := rep.Calls[i], rep.Calls[j]
			if a.CallStamp < b.RetStamp && b.CallStamp < a.RetStamp {
				ov++
			}
		}
	}
	c.Add("overlapping_launch_pairs", int64(ov))
	if c.NumSamples() < 3 {
		c.Sample(map[string]any{"case": cs, "group": gr.idx, "report": rep})
	}
	if len(incon) > 0 {
		return verdict{inconclusive: strings.Join(incon, "; ")}
	}
	return verdict{}
}

// Unrecognised is written by a re-executed harness process (ENV_DAEMON_NAME present) in which
// daemon.Run() returned false, see main().
type Unrecognised struct {
	Pid        int    `json:"pid"`
	Name       string `json:"name"`
	Flag       string `json:"flag"`
	Registered bool   `json:"registered"` // the harness registered a handler under Name in that process
}

func unrecognised(dir string) (out []Unrecognised) {
	for _, f := range listPrefixed(dir, "unrecognised.") {
		var u Unrecognised
		if readJSON(f, &u) {
			out = append(out, u)
		}
	}
	return
}

// resourceError: the machine refused a process / memory / descriptors - not glb's doing.
func resourceError(e string) bool {
	for _, s := range []string{"resource temporarily unavailable", "cannot allocate memory", "too many open files", "no space left on device"} {
		if strings.Contains(e, s) {
			return true
		}
	}
	return false
}

func startWord(mode string) string {
	if mode == "" {
		return "absolute path"
	}
	return mode
}

func doneWord(inDone bool) string {
	if inDone {
		return "called Done() with the launcher still its parent (Done() has not returned yet)"
	}
	return "returned from Done() with err=nil"
}

func stateWord(st pstat) string {
	if !st.Exists {
		return "gone"
	}
	return st.State
}

func aliveWord(b bool) string {
	if b {
		return "running"
	}
	return "not running"
}

// ---------------------------------------------------------------------------------------

type mon struct{}

func (mon) Name() string { return "daemonlaunch" }

func (mon) Level(string) (string, string) {
	return "exploration", "scenarios = caller processes calling daemon.Launch 1, 2 or 8 times concurrently; schedules: natural timing with the handler sleeping 0/5/200 ms before Done(); forced early Done() (launcher held by the verif pause hook right after cmd.Start() until every daemon of the caller returned from Done()); concurrent calls all natural, all forced, or one forced and one natural caller at the same time; all of these again with a launcher process that lingers 50/300 ms between daemon.Run() returning and os.Exit(0). histories of 6..12 calls in one caller process (sequential or in steps of 1-3 concurrent calls, GOMAXPROCS default or 1) in which handlers that fail before Done() (exit 3, exit 0, panic) are interleaved with healthy ones; daemons that, after Done(), write lines to stderr and stdout (also through package log, once at once and three times after the launcher is gone) and read stdin before their liveness is judged; handler names from the edges (empty, blank, 'a b', 'x=y', non-ASCII, 200 bytes, prefixes of each other, the ENV_DAEMON_FLAG values); nested launches (a daemon, after Done(), launches the next handler from inside, depth 2 and in thorough 3, judged by the same post-conditions); callers with a stale ENV_DAEMON_FLAG in their environment; callers started by relative path from their own or the parent directory, by bare name through PATH, through a symlink, or with another working directory; handler names containing separator characters (comma, semicolon, colon, bar, newline, tab, backslash, percent, leading dash); handlers that, right before Done(), unset or overwrite their ENV_DAEMON_* variables, clear the environment, chdir to /, close fds 0-2, setsid or change the umask; short-lived daemons (marker, predone, Done(), done record, then the process ends with status 0 at once or 3 ms later; 1 and 4 concurrent calls): natural, forced (the supervisor releases the paused launcher only after the daemon is gone), and with the launcher frozen by SIGSTOP from before Done() until the daemon is a zombie and then resumed, so that the signal and the daemon's exit are both pending and are handled in either order - judged: Launch returns nil and the pid of the process that ran the handler, predone present at return; liveness and orphan clauses are not applicable to a daemon that is finished by design and are counted as such; slow daemons: the handler waits before Done() at a gate that the supervisor keeps closed for 8 s (quick) or 8/20/45 s (thorough) - Launch must not have returned (no ret file of the caller) at the moment the supervisor decides to open the gate, the seconds being exposure only; in the same window further callers whose launcher receives one foreign signal (TERM, HUP, USR1, WINCH; thorough also USR2, QUIT, CONT, URG) while the gate is closed - Launch may fail or keep waiting but must not report success before the gate opens. Other timings of the three processes are sampled by repetition only. distinct_nontrivial = distinct (schedule class, forced flag and delay vector per caller) shapes"
}

func (mon) Assumptions(string) []string {
	return []string{
		"the handler of the harness writes marker.<pid> at start-up and predone.<pid> immediately before Done(); 'only after Done()' is judged by the existence of these files when Launch returns",
		"a handler that finds its launcher gone before it could call Done() does not call it (the signal would hit the reaper); Launch has then returned before Done(), which the caller's observation shows",
		"orphans are re-parented to pid 1 or a sub-reaper; the oracle only demands parent not in {caller, launcher}",
		"Launch calls of handlers that never reach Done() are outside the statement: their results are counted (error / (pid, nil) / foreign pid), not judged",
		"all start modes of the caller (absolute, ./prog, sub/prog, bare name through PATH, symlink, other cwd) work on the unchanged library, none was left out; a caller with ENV_DAEMON_NAME in its environment is not a case: daemon.Run() keys on that variable alone and the documented 'if daemon.Run() { os.Exit(0) }' ends such a program at once",
		"a Launch error for a handler that no process ever ran counts as a violation unless the error text is a resource refusal (EAGAIN, ENOMEM, EMFILE, ENOSPC): the harness handlers call Done() whenever they are run, and the launcher that could have started them is gone when Launch returns",
		"gate cases send the launcher one foreign signal out of TERM, HUP, USR1, USR2, QUIT, CONT, WINCH, URG; SIGINT is not sent (it IS the protocol's signal: a SIGINT from anybody is indistinguishable from the daemon's Done() by design), nor SIGKILL/SIGSTOP; after a foreign signal an error from Launch is acceptable (counted), success before the gate opened is not",
		"callers run with SIGINT at its default disposition (an inherited SIG_IGN is reset before the first Launch)",
	}
}

type shardArgs struct {
	Class string `json:"class"` // a-d0 | b-d5 | c-forced-8 ...
	Part  int    `json:"part"`
	Runs  int    `json:"runs"`
}

var classes = []string{
	"a-d0", "a-d5", "a-d200",
	"b-d0", "b-d5", "b-d200",
	"c-natural-2", "c-natural-8", "c-forced-2", "c-forced-8", "c-mixed-2", "c-mixed-8",
	// the launcher process lingers after daemon.Run() returned true (slow clean-up before os.Exit)
	"d-natural-l50", "d-natural-l300", "d-forced-l50", "d-forced-l300",
	"e-natural-2", "e-natural-8", "e-forced-2", "e-forced-8", "e-mixed-2", "e-mixed-8",
	// histories inside one caller process: handlers that fail before Done() interleaved with
	// healthy ones, sequential (seq) or in steps of 1-3 concurrent calls (mix); p1 = GOMAXPROCS=1
	"h-seq", "h-seq-p1", "h-mix", "h-mix-p1",
	// after Done() the daemon writes to stderr/stdout (also via package log) and reads stdin
	"s-natural-1", "s-forced-1", "s-natural-8", "s-forced-8", "s-linger-2",
	// handler names from the edges ("", " ", "a b", "x=y", non-ASCII, 200 bytes, prefixes of each
	// other, the flag values, the variable's name): 12 calls, concurrent / sequential / forced
	"n-conc", "n-seq", "n-forced",
	// names with separator characters: "a,b", ",", "a;b", "a:b", "a|b", "a b,c d", newline, tab,
	// backslash, '%', leading '-'
	"n-conc-sep", "n-seq-sep",
	// before Done() the handler cleans / changes its own process: unset or overwrite ENV_DAEMON_*,
	// os.Clearenv(), chdir("/"), close fds 0-2, setsid, umask - one call per action
	"q-pre-natural", "q-pre-forced", "q-pre-seq",
	// short-lived daemons: Done(), done record, exit 0 (at once or 3 ms later); natural, forced
	// (supervisor releases the paused launcher after the daemon is gone), and with a launcher
	// frozen from before Done() until the daemon is gone; 1 and 4 concurrent calls
	"k-short-natural-1", "k-short-natural-4", "k-short-forced-1", "k-short-forced-4", "k-short-frozen-1", "k-short-frozen-4",
	// nested: the daemon of handler 0 launches handler 1 from inside (nest3: and that one handler 2)
	"t-nest2-natural", "t-nest2-forced", "t-nest3-natural", "t-nest3-forced",
	// the caller has a stale ENV_DAEMON_FLAG (isDaemon / isLauncher / junk) in its environment
	"u-staleflag",
	// the caller runs with SIGINT ignored
	"v-sigign-natural", "v-sigign-forced",
	// how the caller is started: ./prog in its directory, sub/prog from the parent directory, bare
	// name through PATH, through a symlink, absolute path with another cwd
	"p-start-natural", "p-start-forced",
}

var startModes = []string{"rel-cwd", "rel-parent", "path", "symlink", "abs-othercwd"}
var staleFlags = []string{"isDaemon", "isLauncher", "junk"}

// runsFor: scenarios per class. The families added for names / nesting / environment / start
// mode are deterministic in what they vary, a handful of runs covers their variants.
func runsFor(class, tier string) (runs, parts int) {
	runs, parts = 10, 1
	if tier == "thorough" {
		runs, parts = 300, 4
	}
	switch class[0] {
	case 'n', 'q':
		runs = 3
	case 'k':
		runs = 6
		if strings.Contains(class, "frozen") {
			runs = 12
		}
	case 't':
		if strings.Contains(class, "nest3") && tier != "thorough" {
			return 0, 0
		}
		runs = 4
	case 'u':
		runs = 6
	case 'p':
		runs = len(startModes)
	default:
		return
	}
	if tier == "thorough" {
		runs, parts = runs*20, 4
	}
	return
}

// slow daemons: the handler waits at a gate the supervisor keeps closed for D seconds. One
// scenario per shard; they run next to the other shards.
var gateClassesQuick = []string{"g-gate-8"}
var gateClassesThorough = []string{"g-gate-8", "g-gate-20", "g-gate-45"}

var failKinds = []string{kindExit3, kindExit0, kindPanic}

var lingerChoices = []int{50, 300}

func (mon) Plan(prop, tier string, seed int64) []drv.Shard {
	var out []drv.Shard
	for _, cl := range classes {
		runs, parts := runsFor(cl, tier)
		for p := 0; p < parts; p++ {
			a, _ := json.Marshal(shardArgs{Class: cl, Part: p, Runs: runs / parts})
			out = append(out, drv.Shard{Name: fmt.Sprintf("%s-p%d", cl, p), Args: a, Secs: 600})
		}
	}
	gc, gparts := gateClassesQuick, 1
	if tier == "thorough" {
		gc, gparts = gateClassesThorough, 2
	}
	var gates []drv.Shard
	for _, cl := range gc {
		for p := 0; p < gparts; p++ {
			a, _ := json.Marshal(shardArgs{Class: cl, Part: p, Runs: 1})
			gates = append(gates, drv.Shard{Name: fmt.Sprintf("%s-p%d", cl, p), Args: a, Secs: 600})
		}
	}
	out = append(gates, out...) // started first: they mostly wait
	return out
}

var delayChoices = []int{0, 5, 200}

// genCase is a pure function of (class, tier, seed, part, run).
func genCase(class, tier string, seed int64, part, run int) Case {
	r := rand.New(rand.NewSource(seed*1000003 + int64(drv.HashStr(class)%100000)*131 + int64(part)*7919 + int64(run)))
	cs := Case{Sched: class, Id: fmt.Sprintf("%s.%d.%d.%d", class, seed, part, run)}
	f := strings.Split(class, "-")
	switch f[0] {
	case "a", "b":
		d, _ := strconv.Atoi(strings.TrimPrefix(f[1], "d"))
		cs.Groups = []Group{{Forced: f[0] == "b", Delays: []int{d}}}
	case "n":
		g := Group{Names: "edge", Delays: make([]int, maxN), Forced: f[1] == "forced"}
		if len(f) > 2 && f[2] == "sep" {
			g.Names = "sep"
		}
		for i := range g.Delays {
			g.Delays[i] = delayChoices[r.Intn(2)]
		}
		if f[1] == "seq" {
			for range g.Delays {
				g.Steps = append(g.Steps, 1)
			}
		}
		cs.Groups = []Group{g}
	case "k":
		n, _ := strconv.Atoi(f[3])
		g := Group{Forced: f[2] == "forced", Delays: make([]int, n), Kinds: make([]string, n)}
		for i := range g.Kinds {
			g.Delays[i] = delayChoices[r.Intn(2)]
			switch {
			case f[2] == "frozen":
				g.Kinds[i] = kindShortFz
			case r.Intn(2) == 0:
				g.Kinds[i] = kindShort0
			default:
				g.Kinds[i] = kindShort5
			}
		}
		cs.Groups = []Group{g}
	case "q":
		g := Group{Forced: f[2] == "forced", Pre: append([]string(nil), preActions...), Delays: make([]int, len(preActions))}
		r.Shuffle(len(g.Pre), func(i, j int) { g.Pre[i], g.Pre[j] = g.Pre[j], g.Pre[i] })
		for i := range g.Delays {
			g.Delays[i] = delayChoices[r.Intn(2)]
			if f[2] == "seq" {
				g.Steps = append(g.Steps, 1)
			}
		}
		cs.Groups = []Group{g}
	case "t":
		depth := 2
		if f[1] == "nest3" {
			depth = 3
		}
		g := Group{Nest: depth, Delays: make([]int, depth), Forced: f[2] == "forced"}
		for i := range g.Delays {
			g.Delays[i] = delayChoices[r.Intn(len(delayChoices))]
		}
		cs.Groups = []Group{g}
	case "v":
		g := Group{SigIgn: true, Forced: f[2] == "forced", Delays: []int{delayChoices[r.Intn(len(delayChoices))]}}
		if r.Intn(2) == 0 {
			g.Delays = append(g.Delays, delayChoices[r.Intn(len(delayChoices))])
		}
		cs.Groups = []Group{g}
	case "u":
		k := part*1000 + run
		g := Group{StaleFlag: staleFlags[k%len(staleFlags)], Forced: (k/len(staleFlags))%2 == 1, Delays: []int{delayChoices[r.Intn(len(delayChoices))]}}
		if r.Intn(2) == 0 {
			g.Delays = append(g.Delays, delayChoices[r.Intn(len(delayChoices))])
		}
		cs.Groups = []Group{g}
	case "p":
		k := part*1000 + run
		g := Group{Start: startModes[k%len(startModes)], Forced: f[2] == "forced", Delays: []int{delayChoices[r.Intn(len(delayChoices))]}}
		if r.Intn(2) == 0 {
			g.Delays = append(g.Delays, delayChoices[r.Intn(len(delayChoices))])
		}
		cs.Groups = []Group{g}
	case "s":
		n, _ := strconv.Atoi(f[2])
		g := Group{Forced: f[1] == "forced", Delays: make([]int, n), Stdio: true}
		for i := range g.Delays {
			g.Delays[i] = delayChoices[r.Intn(len(delayChoices))]
		}
		if f[1] == "linger" {
			g.LingerMs = lingerChoices[r.Intn(len(lingerChoices))]
		}
		cs.Groups = []Group{g}
	case "g":
		cs.GateSecs, _ = strconv.Atoi(f[2])
		g := Group{Delays: []int{delayChoices[r.Intn(2)]}, Kinds: []string{kindGated}}
		if part%2 == 1 { // next to the gated call an ordinary one in the same caller
			g.Delays = append(g.Delays, delayChoices[r.Intn(len(delayChoices))])
			g.Kinds = append(g.Kinds, kindHealthy)
		}
		cs.Groups = []Group{g}
		// further callers share the window: each has one gated call whose launcher gets a signal
		// that is not the daemon's Done()
		sigs := []string{"TERM", "HUP", "USR1", "WINCH"} // quick
		if tier == "thorough" {
			switch {
			case cs.GateSecs > 8:
				sigs = []string{"TERM", "CONT"}
			case part%2 == 0:
				sigs = []string{"TERM", "HUP", "USR1", "USR2"}
			default:
				sigs = []string{"QUIT", "CONT", "WINCH", "URG"}
			}
		}
		for _, sg := range sigs {
			cs.Groups = append(cs.Groups, Group{Delays: []int{delayChoices[r.Intn(2)]}, Kinds: []string{kindGated}, GateSignal: sg})
		}
	case "h":
		n := 6 + r.Intn(maxN-5) // 6..12 calls
		g := Group{Delays: make([]int, n), Kinds: make([]string, n)}
		for i := 0; i < n; i++ {
			g.Kinds[i] = kindHealthy
			if r.Intn(100) < 45 {
				g.Kinds[i] = failKinds[r.Intn(len(failKinds))]
			}
			if r.Intn(6) == 0 {
				g.Delays[i] = 200
			} else {
				g.Delays[i] = delayChoices[r.Intn(2)]
			}
		}
		// every history contains "a failing launch, then a healthy one"
		g.Kinds[0], g.Kinds[1] = failKinds[r.Intn(len(failKinds))], kindHealthy
		for left := n; left > 0; {
			sz := 1
			if f[1] == "mix" && r.Intn(3) == 0 {
				sz = 2 + r.Intn(2)
			}
			if sz > left {
				sz = left
			}
			g.Steps = append(g.Steps, sz)
			left -= sz
		}
		if len(f) > 2 && f[2] == "p1" {
			g.Procs = 1
		}
		cs.Groups = []Group{g}
	case "d":
		l, _ := strconv.Atoi(strings.TrimPrefix(f[2], "l"))
		cs.Groups = []Group{{Forced: f[1] == "forced", Delays: []int{delayChoices[r.Intn(len(delayChoices))]}, LingerMs: l}}
	case "c", "e":
		n, _ := strconv.Atoi(f[2])
		delays := make([]int, n)
		for i := range delays {
			delays[i] = delayChoices[r.Intn(len(delayChoices))]
		}
		switch f[1] {
		case "natural":
			cs.Groups = []Group{{Delays: delays}}
		case "forced":
			cs.Groups = []Group{{Forced: true, Delays: delays}}
		case "mixed":
			k := 1 + r.Intn(n-1) // calls of the first caller
			first := r.Intn(2) == 0
			cs.Groups = []Group{{Forced: first, Delays: delays[:k]}, {Forced: !first, Delays: delays[k:]}}
		}
		if f[0] == "e" {
			for i := range cs.Groups {
				cs.Groups[i].LingerMs = lingerChoices[r.Intn(len(lingerChoices))]
			}
		}
	}
	return cs
}

// tmpRoot creates the scratch directory of this process: verif-daemonlaunch-<pid>-<starttime>-<rand>.
// Directories whose owner (that pid with that start time) no longer exists are left-overs of a
// killed shard process and are removed; a directory of a live process - of this or of any other
// check running on the machine - is never touched.
func tmpRoot() (string, error) {
	old, _ := filepath.Glob(filepath.Join(os.TempDir(), "verif-daemonlaunch-*"))
	for _, o := range old {
		f := strings.Split(filepath.Base(o), "-")
		if len(f) < 5 {
			continue
		}
		pid, err1 := strconv.Atoi(f[2])
		start, err2 := strconv.ParseUint(f[3], 10, 64)
		if err1 != nil || err2 != nil {
			continue
		}
		if _, same := sameProcess(pid, start); !same {
			os.RemoveAll(o)
		}
	}
	return os.MkdirTemp("", fmt.Sprintf("verif-daemonlaunch-%d-%d-", os.Getpid(), readStat(os.Getpid()).Start))
}

// execCase runs a scenario; an inconclusive scenario is retried twice.
func execCase(cs Case, c *drv.Ctx, root string) verdict {
	var v verdict
	for try := 0; try < 3; try++ {
		v = runCase(cs, c, root)
		if v.inconclusive == "" || v.key != "" {
			return v
		}
		c.Add("scenario_retries", 1)
		c.Note(cs.Id + ": inconclusive, retried: " + v.inconclusive)
	}
	return v
}

func (mn mon) Run(sh drv.Shard, c *drv.Ctx) {
	var a shardArgs
	json.Unmarshal(sh.Args, &a)
	root, err := tmpRoot()
	if err != nil {
		c.Inconclusive("temp dir: " + err.Error())
		return
	}
	defer os.RemoveAll(root)
	if runClaimedPlainProcess {
		c.Violate("run-true-in-plain-process", map[string]string{"shard": sh.Name},
			"daemon.Run() returns false in a process that was not re-executed as launcher or daemon (no ENV_DAEMON_NAME in its environment), so that the program goes on and can call Launch",
			"daemon.Run() returned true in the harness process itself: a program following the documented 'if daemon.Run() { os.Exit(0) }' ends before it can call Launch")
		return
	}
	for run := 0; run < a.Runs; run++ {
		cs := genCase(a.Class, sh.Tier, sh.Seed, a.Part, run)
		c.Progress(cs.Id, true)
		v := execCase(cs, c, root)
		c.Eval(1)
		c.Add("runs."+a.Class, 1)
		c.DistinctStr(cs.shape())
		if v.key != "" {
			c.Violate(v.key, cs, v.expected, v.observed)
			break // one refutation per schedule class is enough (a hanging Launch costs a watchdog each)
		} else if v.inconclusive != "" {
			c.Inconclusive(cs.Id + ": " + v.inconclusive)
			break
		}
	}
}

func (mn mon) Replay(v drv.Violation, c *drv.Ctx) {
	var cs Case
	if err := json.Unmarshal(v.Case, &cs); err != nil || len(cs.Groups) == 0 {
		c.Inconclusive("replay: cannot decode case")
		return
	}
	root, err := tmpRoot()
	if err != nil {
		c.Inconclusive("temp dir: " + err.Error())
		return
	}
	defer os.RemoveAll(root)
	// schedule dependent: the same plan, repeated
	for i := 0; i < 20; i++ {
		vd := execCase(cs, c, root)
		c.Eval(1)
		if vd.key != "" {
			c.Violate(vd.key, cs, vd.expected, vd.observed)
			return
		}
	}
}

func (mon) Finish(prop, tier string, mg *drv.Merged) (incon []string) {
	if f, h := mg.Sum["forced_launches_nolinger"], mg.Sum["forced_launches_nolinger_launcher_held_by_hook"]; f > 0 && h*2 < f && mg.Sum["forced_launches_failed"] == 0 {
		incon = append(incon, fmt.Sprintf("the pause hook held the launcher in only %d of %d forced launches without launcher linger (launcher still the daemon's parent 20 ms after Done() was called): built without -tags verif or hook missing in this checkout", h, f))
	}
	if mg.Sum["liveness_checks"] > 0 && mg.Sum["daemon_answered_ping_after_caller_exit"] == 0 {
		incon = append(incon, "no daemon ever answered a ping after its caller exited")
	}
	return
}

// runClaimedPlainProcess: daemon.Run() returned true in this process although ENV_DAEMON_NAME is
// not in its environment (see main).
var runClaimedPlainProcess bool

func main() {
	// roles of glb's own protocol first: this binary is re-executed as launcher and as daemon
	registerHandlers()
	if _, reexec := os.LookupEnv("ENV_DAEMON_NAME"); !reexec && daemon.Run() {
		// unreachable on the unchanged library: Run() claims a process that nobody re-executed
		// as launcher or daemon. A program following the documented 'if daemon.Run() { os.Exit(0) }'
		// would end here, before it could ever call Launch - and so would this harness, silently.
		// Carry on instead and say so from inside the run.
		runClaimedPlainProcess = true
	} else if reexec && daemon.Run() {
		// a program may do some clean-up here; schedules d-* / e-* make the launcher do so
		if os.Getenv("ENV_DAEMON_FLAG") == "isLauncher" {
			if ms, _ := strconv.Atoi(os.Getenv(envLinger)); ms > 0 {
				time.Sleep(time.Duration(ms) * time.Millisecond)
			}
		}
		os.Exit(0)
	}
	if name, ok := os.LookupEnv("ENV_DAEMON_NAME"); ok {
		// unreachable on the unchanged library (Run() returns true whenever the variable is
		// set): a re-executed process that glb did not recognise as launcher or daemon. It must
		// never act as caller or driver; it says what it saw and ends.
		if dir := os.Getenv(envDir); dir != "" {
			reg := false
			for i := 0; i < maxN; i++ {
				for _, t := range nameTables {
					reg = reg || name == nameOf(t, i)
				}
			}
			writeAtomic(dir, fmt.Sprintf("unrecognised.%d", os.Getpid()), Unrecognised{Pid: os.Getpid(), Name: name, Flag: os.Getenv("ENV_DAEMON_FLAG"), Registered: reg})
		}
		os.Exit(0)
	}
	if os.Getenv(envRole) == "caller" {
		callerMain()
		return
	}
	drv.Main(mon{})
}
