package main

import (
	"encoding/json"
	"fmt"
	"os"
	"path/filepath"
	"sort"
	"strconv"
	"strings"
	"syscall"
	"time"
	"unsafe"
)

// pstat is what the monitor reads from /proc/<pid>/stat.
type pstat struct {
	Exists bool   `json:"exists"`
	State  string `json:"state,omitempty"`
	Ppid   int    `json:"ppid,omitempty"`
	Pgrp   int    `json:"pgrp,omitempty"`
	Sid    int    `json:"sid,omitempty"`
	Start  uint64 `json:"start,omitempty"` // starttime (field 22): identifies the process behind a pid
	Utime  uint64 `json:"-"`
	Stime  uint64 `json:"-"`
}

func parseStat(b []byte) pstat {
	s := string(b)
	i := strings.LastIndexByte(s, ')') // comm may contain anything, also ')'
	if i < 0 {
		return pstat{}
	}
	f := strings.Fields(s[i+1:]) // f[k-3] is field k of proc(5)
	if len(f) < 20 {
		return pstat{}
	}
	atoi := func(x string) int { n, _ := strconv.Atoi(x); return n }
	atou := func(x string) uint64 { n, _ := strconv.ParseUint(x, 10, 64); return n }
	return pstat{Exists: true, State: f[0], Ppid: atoi(f[1]), Pgrp: atoi(f[2]), Sid: atoi(f[3]),
		Utime: atou(f[11]), Stime: atou(f[12]), Start: atou(f[19])}
}

func readStat(pid int) pstat {
	if pid <= 0 {
		return pstat{}
	}
	b, err := os.ReadFile(fmt.Sprintf("/proc/%d/stat", pid))
	if err != nil {
		return pstat{}
	}
	return parseStat(b)
}

// alive: the process exists and is neither a zombie nor dead.
func (p pstat) alive() bool { return p.Exists && p.State != "Z" && p.State != "X" && p.State != "x" }

// sameProcess: pid still denotes the process that had the given start time.
func sameProcess(pid int, start uint64) (pstat, bool) {
	st := readStat(pid)
	return st, st.Exists && st.Start == start
}

func statusFields(path string, keys ...string) map[string]string {
	out := map[string]string{}
	b, err := os.ReadFile(path)
	if err != nil {
		return out
	}
	for _, ln := range strings.Split(string(b), "\n") {
		k, v, ok := strings.Cut(ln, ":")
		if !ok {
			continue
		}
		for _, want := range keys {
			if k == want {
				out[k] = strings.TrimSpace(v)
			}
		}
	}
	return out
}

// threadSnapshot describes all threads of a process: state, cpu time and context switch counters.
// Two equal snapshots with every thread in state S mean that no thread ran in between.
func threadSnapshot(pid int) (sig string, allSleeping bool, threads int, sigintPending bool) {
	tids, _ := filepath.Glob(fmt.Sprintf("/proc/%d/task/*", pid))
	sort.Strings(tids)
	var sb strings.Builder
	allSleeping = len(tids) > 0
	for _, t := range tids {
		b, err := os.ReadFile(t + "/stat")
		if err != nil {
			return "", false, 0, false
		}
		st := parseStat(b)
		f := statusFields(t+"/status", "voluntary_ctxt_switches", "nonvoluntary_ctxt_switches", "SigPnd", "ShdPnd")
		fmt.Fprintf(&sb, "%s:%s:%d:%d:%s:%s;", filepath.Base(t), st.State, st.Utime, st.Stime, f["voluntary_ctxt_switches"], f["nonvoluntary_ctxt_switches"])
		if st.State != "S" {
			allSleeping = false
		}
		for _, k := range []string{"SigPnd", "ShdPnd"} {
			if v, err := strconv.ParseUint(f[k], 16, 64); err != nil || v&(1<<(2-1)) != 0 { // SIGINT = 2
				sigintPending = true
			}
		}
		threads++
	}
	return sb.String(), allSleeping, threads, sigintPending
}

// atRest: three snapshots of the process, 250 ms apart, are identical, every thread sleeps and
// no SIGINT is pending: the process consumed every signal it got and nothing in it is running.
func atRest(pid int) (bool, string) {
	var first string
	n := 0
	for i := 0; i < 3; i++ {
		if i > 0 {
			time.Sleep(250 * time.Millisecond)
		}
		sig, sleeping, threads, pend := threadSnapshot(pid)
		if sig == "" {
			return false, "process vanished during the snapshots"
		}
		if !sleeping {
			return false, "a thread is not sleeping: " + sig
		}
		if pend {
			return false, "SIGINT still pending: " + sig
		}
		if i == 0 {
			first, n = sig, threads
		} else if sig != first {
			return false, "thread counters changed between snapshots"
		}
	}
	f := statusFields(fmt.Sprintf("/proc/%d/status", pid), "SigIgn", "SigCgt")
	return true, fmt.Sprintf("%d threads, all in state S, cpu time and context-switch counters identical in 3 snapshots, no SIGINT pending, SigIgn=%s SigCgt=%s", n, f["SigIgn"], f["SigCgt"])
}

// pipeInodes returns the pipe inodes a process holds open.
func pipeInodes(pid int) map[string]bool {
	out := map[string]bool{}
	fds, _ := filepath.Glob(fmt.Sprintf("/proc/%d/fd/*", pid))
	for _, fd := range fds {
		if l, err := os.Readlink(fd); err == nil && strings.HasPrefix(l, "pipe:[") {
			out[l] = true
		}
	}
	return out
}

// writeAtomic makes name appear in dir with its complete content (temp file + rename).
func writeAtomic(dir, name string, v any) error {
	b, err := json.Marshal(v)
	if err != nil {
		return err
	}
	tmp := filepath.Join(dir, fmt.Sprintf(".tmp.%s.%d", name, os.Getpid()))
	if err := os.WriteFile(tmp, b, 0o644); err != nil {
		return err
	}
	return os.Rename(tmp, filepath.Join(dir, name))
}

func readJSON(path string, v any) bool {
	b, err := os.ReadFile(path)
	if err != nil {
		return false
	}
	return json.Unmarshal(b, v) == nil
}

func exists(path string) bool {
	_, err := os.Lstat(path)
	return err == nil
}

// listPrefixed returns the files <prefix><digits> of dir.
func listPrefixed(dir, prefix string) []string {
	ents, err := os.ReadDir(dir)
	if err != nil {
		return nil
	}
	var out []string
	for _, e := range ents {
		n := e.Name()
		if rest, ok := strings.CutPrefix(n, prefix); ok && rest != "" {
			if _, err := strconv.Atoi(rest); err == nil {
				out = append(out, filepath.Join(dir, n))
			}
		}
	}
	sort.Strings(out)
	return out
}

// kernelSigaction is struct sigaction of rt_sigaction(2) on linux (amd64, arm64, ...).
type kernelSigaction struct {
	handler  uintptr
	flags    uint64
	restorer uintptr
	mask     uint64
}

// sigDisposition reads the kernel's disposition of sig for this process: 0 = SIG_DFL, 1 = SIG_IGN,
// anything else = a handler.
func sigDisposition(sig syscall.Signal) (uintptr, error) {
	var old kernelSigaction
	if _, _, e := syscall.RawSyscall6(syscall.SYS_RT_SIGACTION, uintptr(sig), 0, uintptr(unsafe.Pointer(&old)), 8, 0, 0); e != 0 {
		return 0, e
	}
	return old.handler, nil
}

// resetIgnoredSignal sets sig back to SIG_DFL if this process inherited it as ignored. The Go
// runtime installs no handler for an inherited-ignored SIGINT, so nothing of the runtime is
// overwritten; processes exec'ed from here start with the default disposition.
func resetIgnoredSignal(sig syscall.Signal) (wasIgnored bool, err error) {
	h, err := sigDisposition(sig)
	if err != nil || h != 1 {
		return false, err
	}
	var dfl kernelSigaction // handler 0 = SIG_DFL
	if _, _, e := syscall.RawSyscall6(syscall.SYS_RT_SIGACTION, uintptr(sig), uintptr(unsafe.Pointer(&dfl)), 0, 8, 0, 0); e != 0 {
		return true, e
	}
	return true, nil
}

// sigBlocked reports whether sig is blocked on the calling thread. Asked by system call, on a
// thread that runs user code: the Go runtime blocks all signals only inside its own critical
// sections (thread creation, fork), which is what /proc/self/status occasionally shows for
// the main thread.
func sigBlocked(sig syscall.Signal) (bool, error) {
	var old uint64
	if _, _, e := syscall.RawSyscall6(syscall.SYS_RT_SIGPROCMASK, 0 /* SIG_BLOCK */, 0, uintptr(unsafe.Pointer(&old)), 8, 0, 0); e != 0 {
		return false, e
	}
	return old&(1<<(uint(sig)-1)) != 0, nil
}
