package main

import (
	"encoding/json"
	"fmt"
	"io"
	"log"
	"os"
	"os/signal"
	"path/filepath"
	"strconv"
	"strings"
	"sync"
	"sync/atomic"
	"syscall"
	"time"

	"github.com/whoisnian/glb/daemon"
)

// Environment protocol of the harness (next to glb's own ENV_DAEMON_NAME / ENV_DAEMON_FLAG).
const (
	envRole   = "DL_ROLE"   // "caller": run Launch calls and report
	envDir    = "DL_DIR"    // directory of this caller process and its daemons
	envSeq    = "DL_SEQ"    // scenario id, copied into every file
	envDelays = "DL_DELAYS" // "0,5,200": handler dl-<i> sleeps delays[i] ms before Done()
	envSigIgn = "DL_SIGIGN" // "1": the caller ignores SIGINT before its first Launch
	envForced = "DL_FORCED" // "1": the daemon completing the set of N Done() calls creates done.flag
	envSup    = "DL_SUP"    // pid of the supervisor; daemons stop idling when it is gone
	envLinger = "DL_LINGER" // ms the LAUNCHER process lingers between daemon.Run() returning true and os.Exit(0) ("slow clean-up")

	envKinds = "DL_KINDS" // "h,x3,h,x0,p": what handler dl-<i> does (see kind* below); empty = all healthy
	envCap   = "DL_CAP"   // seconds added to the hard caps of caller and daemon (gate cases keep them waiting on purpose)
	envStdio = "DL_STDIO" // "1": after Done() the daemon uses its standard descriptors like a real daemon does
	envNames = "DL_NAMES" // "edge": the calls use the edge-case handler names instead of dl-<i>
	envNest  = "DL_NEST"  // n >= 2: handler i, after Done(), itself calls Launch of handler i+1 (while i+1 < n)
	envDepth = "DL_DEPTH" // how many nested Launch calls lie above this process (set by the harness before a nested Launch)
	envPre   = "DL_PRE"   // "unset-both,,clearenv": what handler i does to itself right before Done() (see preDoneAction)
	envSteps = "DL_STEPS" // "1,1,3": the caller issues its Launch calls in steps of that many concurrent calls; empty = all at once

	maxN          = 12
	daemonIdleCap = 60 * time.Second // nothing of the harness can live longer than this
	callerCap     = 50 * time.Second
	flagName      = "done.flag"
	gateName      = "gate.open" // created by the supervisor only: gated handlers wait for it before Done()
)

// kinds of handler behaviour
const (
	kindHealthy = "h" // marker, sleep, predone, Done(), done record, idle
	kindGated   = "g" // healthy, but waits at a gate (file gate.open) between the marker and everything else
	// short-lived daemons: marker, predone, Done(), done record - and the process ends with status 0
	kindShort0  = "s0" // ... at once
	kindShort5  = "s5" // ... 3 ms later
	kindShortFz = "sf" // like s0, but the launcher is frozen (SIGSTOP) from before Done() until the daemon is gone: both of the launcher's events, the signal and the daemon's exit, are pending when it resumes
	kindExit3   = "x3" // marker, then os.Exit(3) before Done()
	kindExit0   = "x0" // marker, then os.Exit(0) before Done()
	kindPanic   = "p"  // marker, then panic before Done()
)

func kindOf(kinds []string, i int) string {
	if i < len(kinds) && kinds[i] != "" {
		return kinds[i]
	}
	return kindHealthy
}

// healthyKind: the handler reaches Done(), i.e. the statement covers its Launch call.
func healthyKind(k string) bool { return k == kindHealthy || k == kindGated || shortKind(k) }

// shortKind: the daemon is finished right after Done() by design; liveness clauses do not apply.
func shortKind(k string) bool { return k == kindShort0 || k == kindShort5 || k == kindShortFz }

func anyShortKind(kinds []string) bool {
	for _, k := range kinds {
		if shortKind(k) {
			return true
		}
	}
	return false
}

func extraCap() time.Duration {
	n, _ := strconv.Atoi(os.Getenv(envCap))
	if n < 0 || n > 600 {
		n = 0
	}
	return time.Duration(n) * time.Second
}

func parseKinds(s string) []string {
	if s == "" {
		return nil
	}
	return strings.Split(s, ",")
}

// Handler names. Call i of a caller uses dl-<i>, or - table "edge" - a name from the edges of
// what a name can be; a name is a name: all of them must behave alike.
var edgeNames = [maxN]string{
	"",                          // the empty name
	" ",                         // a blank
	"a b",                       // blank inside
	"x=y",                       // looks like an environment assignment
	"ünï",                       // non-ASCII
	strings.Repeat("n200-", 40), // 200 bytes
	"n", "na", "nam",            // prefixes of each other
	"isLauncher", "isDaemon", // the values of ENV_DAEMON_FLAG
	"ENV_DAEMON_NAME", // the variable's own name
}

// separators and other characters a protocol might give a meaning to
var sepNames = [maxN]string{
	"a,b", ",", "a;b", "a:b", "a|b", "a b,c d", "l1\nl2", "t\tt", "back\\slash", "100%s %d", "-leading", "--",
}

var nameTables = []string{"", "edge", "sep"}

func nameOf(table string, i int) string {
	switch table {
	case "edge":
		return edgeNames[i]
	case "sep":
		return sepNames[i]
	}
	return fmt.Sprintf("dl-%d", i)
}

// registerHandlers registers every name of both tables; the handler knows its call index.
func registerHandlers() {
	for i := 0; i < maxN; i++ {
		i := i
		for _, t := range nameTables {
			daemon.Register(nameOf(t, i), func() { daemonMain(i) })
		}
	}
}

// Marker is written by the daemon handler as the first thing it does.
type Marker struct {
	Pid           int    `json:"pid"`
	Idx           int    `json:"idx"` // handler dl-<idx>
	Seq           string `json:"seq"`
	Start         uint64 `json:"start"`          // own starttime
	Launcher      int    `json:"launcher"`       // parent at start-up = the launcher
	LauncherStart uint64 `json:"launcher_start"` // its starttime
	Pgrp          int    `json:"pgrp"`
	Sid           int    `json:"sid"`
	Pre           string `json:"pre,omitempty"`  // what the handler does to itself before Done()
	Fds           string `json:"fds,omitempty"`  // what the daemon's fds 0/1/2 point to (its own readlink)
	Kind          string `json:"kind,omitempty"` // "" / "h" healthy, else a handler that fails before Done()
}

// PreDone is written immediately before Done() is called: the last thing "the daemon did before Done()".
type PreDone struct {
	Pid int    `json:"pid"`
	Idx int    `json:"idx"`
	Seq string `json:"seq"`
	// Calling: the launcher was still the parent when this was written and the very next
	// statement of the handler is daemon.Done(). False: Done() is skipped (launcher gone).
	Calling bool `json:"calling"`
}

// DoneRec is written after Done() returned.
type DoneRec struct {
	Pid       int    `json:"pid"`
	Idx       int    `json:"idx"`
	Seq       string `json:"seq"`
	Called    bool   `json:"called"`            // Done() was called
	Err       string `json:"err,omitempty"`     // its error
	PreErr    string `json:"pre_err,omitempty"` // error of the pre-Done action
	Skipped   string `json:"skipped,omitempty"` // why Done() was not called
	PpidAfter int    `json:"ppid_after_done"`   // the daemon's own view
	// forced schedules: parent 20 ms after Done() was called (sampled by a goroutine of its own,
	// Done() may block) and before done.flag can exist. Still the launcher = the launcher
	// survived the signal and sits in the pause hook.
	PpidSettled int `json:"ppid_settled,omitempty"`
}

type Pong struct {
	Pid  int `json:"pid"`
	Ppid int `json:"ppid"`
}

func parseDelays(s string) []int {
	var out []int
	for _, f := range strings.Split(s, ",") {
		if f == "" {
			continue
		}
		n, _ := strconv.Atoi(f)
		out = append(out, n)
	}
	return out
}

// daemonMain is the handler registered under dl-<idx>.
func daemonMain(idx int) {
	dir := os.Getenv(envDir)
	if dir == "" {
		return
	}
	t0 := time.Now()
	seq := os.Getenv(envSeq)
	delays := parseDelays(os.Getenv(envDelays))
	sup, _ := strconv.Atoi(os.Getenv(envSup))
	// everything the handler needs from its environment is read now: it may clean the
	// environment before Done()
	kinds := parseKinds(os.Getenv(envKinds))
	forced := os.Getenv(envForced) == "1"
	nest, _ := strconv.Atoi(os.Getenv(envNest))
	depth, _ := strconv.Atoi(os.Getenv(envDepth))
	names := os.Getenv(envNames)
	stdio := os.Getenv(envStdio) == "1"
	pre := ""
	if p := strings.Split(os.Getenv(envPre), ","); idx < len(p) {
		pre = p[idx]
	}
	pid, lpid := os.Getpid(), os.Getppid()
	go lifeguard(dir, sup, pid, t0)
	self, lst := readStat(pid), readStat(lpid)
	writeAtomic(dir, fmt.Sprintf("marker.%d", pid), Marker{Pid: pid, Idx: idx, Seq: seq, Start: self.Start,
		Launcher: lpid, LauncherStart: lst.Start, Pgrp: self.Pgrp, Sid: self.Sid, Fds: stdFds(pid), Kind: kindOf(kinds, idx), Pre: pre})
	switch kindOf(kinds, idx) {
	case kindExit3:
		os.Exit(3)
	case kindExit0:
		os.Exit(0)
	case kindPanic:
		panic("daemonlaunch harness: this handler fails before Done()")
	case kindGated:
		// a slow start-up whose length the supervisor controls: nothing below happens, in
		// particular Done() is not called, before the supervisor has created gate.open
		writeAtomic(dir, fmt.Sprintf("atgate.%d", pid), Pong{Pid: pid, Ppid: os.Getppid()})
		for !exists(filepath.Join(dir, gateName)) {
			time.Sleep(5 * time.Millisecond) // the lifeguard ends the process if the scenario goes away
		}
	}

	if idx < len(delays) && delays[idx] > 0 {
		time.Sleep(time.Duration(delays[idx]) * time.Millisecond)
	}
	rec := DoneRec{Pid: pid, Idx: idx, Seq: seq}
	rec.PreErr = preDoneAction(pre)
	myKind := kindOf(kinds, idx)
	if shortKind(myKind) {
		forced = false // no settle probe, no flag: this process is about to end; the supervisor releases a paused launcher
	}
	if myKind == kindShortFz && os.Getppid() == lpid {
		// freeze the launcher (a slow, descheduled launcher) and see it stopped before Done()
		if err := syscall.Kill(lpid, syscall.SIGSTOP); err != nil {
			rec.PreErr = "SIGSTOP launcher: " + err.Error()
		} else if !waitFor(10*time.Second, func() bool { st, same := sameProcess(lpid, lst.Start); return !same || st.State == "T" }) {
			rec.PreErr = "launcher did not stop"
		}
	}
	calling := os.Getppid() == lpid
	writeAtomic(dir, fmt.Sprintf("predone.%d", pid), PreDone{Pid: pid, Idx: idx, Seq: seq, Calling: calling})
	if !calling {
		// The launcher is gone already: Done() would signal an unrelated process (the reaper).
		// The harness refuses to do that; Launch has returned (or failed) before Done() then,
		// which the caller's observations show.
		rec.Skipped = fmt.Sprintf("launcher %d gone before Done(), parent is %d", lpid, os.Getppid())
	} else {
		settled := make(chan int, 1)
		if forced {
			go func() { // Done() may block: sample the parent independently of its return
				time.Sleep(20 * time.Millisecond) // stimulus only: gives an unheld launcher time to exit
				pp := os.Getppid()
				writeAtomic(dir, fmt.Sprintf("settled.%d", pid), Pong{Pid: pid, Ppid: pp})
				settled <- pp
			}()
		}
		rec.Called = true
		if err := daemon.Done(); err != nil {
			rec.Err = err.Error()
		}
		rec.PpidAfter = os.Getppid()
		if forced {
			rec.PpidSettled = <-settled
		}
	}
	writeAtomic(dir, fmt.Sprintf("done.%d", pid), rec)
	switch myKind {
	case kindShort0, kindShortFz:
		return // the handler returns: daemon.Run() returns true, main() ends the process with status 0
	case kindShort5:
		time.Sleep(3 * time.Millisecond)
		return
	}
	if forced && len(listPrefixed(dir, "done.")) >= len(delays) {
		// every daemon of this caller has returned from Done(): release the paused launchers
		if f, err := os.OpenFile(filepath.Join(dir, flagName), os.O_CREATE|os.O_WRONLY, 0o644); err == nil {
			f.Close()
		}
	}
	// nested launch: this daemon is itself a program that starts a daemon. Its environment still
	// carries the ENV_DAEMON_* variables of its own launch.
	if rec.Called && idx+1 < nest && idx+1 < maxN && depth == idx {
		os.Setenv(envDepth, strconv.Itoa(depth+1))
		r := CallReport{Idx: idx + 1, Kind: kindOf(kinds, idx+1), Name: nameOf(names, idx+1), CalledBy: pid}
		launchAndObserve(dir, &r, nil)
	}
	if stdio {
		useStdio(dir, pid, lpid)
	}
	select {} // the lifeguard ends the process
}

// preActions: ordinary things a daemon does to itself before it calls Done().
var preActions = []string{"unset-name", "unset-flag", "unset-both", "clearenv", "overwrite", "chdir", "closefds", "setsid", "umask"}

func preDoneAction(a string) string {
	var err error
	switch a {
	case "":
	case "unset-name": // so that its own children do not inherit the role
		err = os.Unsetenv("ENV_DAEMON_NAME")
	case "unset-flag":
		err = os.Unsetenv("ENV_DAEMON_FLAG")
	case "unset-both":
		os.Unsetenv("ENV_DAEMON_NAME")
		err = os.Unsetenv("ENV_DAEMON_FLAG")
	case "clearenv":
		os.Clearenv()
	case "overwrite":
		os.Setenv("ENV_DAEMON_NAME", "something-else")
		err = os.Setenv("ENV_DAEMON_FLAG", "isLauncher")
	case "chdir":
		err = os.Chdir("/")
	case "closefds":
		os.Stdin.Close()
		os.Stdout.Close()
		err = os.Stderr.Close()
	case "setsid":
		_, err = syscall.Setsid()
	case "umask":
		syscall.Umask(0o027)
	default:
		return "unknown action " + a
	}
	if err != nil {
		return err.Error()
	}
	return ""
}

// StdioRec is written after the daemon used its standard descriptors: it survived that.
type StdioRec struct {
	Pid         int    `json:"pid"`
	Orphaned    bool   `json:"orphaned_before_later_writes"` // the launcher was gone before rounds 1..3
	StderrErr   string `json:"stderr_err,omitempty"`
	StdoutErr   string `json:"stdout_err,omitempty"`
	Stdin       string `json:"stdin"` // "eof", "err: ...", "read n bytes", "blocked"
	WritesDone  int    `json:"write_rounds"`
	PpidAtWrite int    `json:"ppid_at_last_write"`
}

// useStdio does, after Done(), what daemons do with their standard descriptors: lines to stderr
// and stdout (directly and through the log package's default logger), several times with small
// pauses - once at once, the rest after the launcher is gone (the daemon has a new parent) - and
// a read from stdin, which must give EOF/an error or block harmlessly. A write to a pipe whose
// reader (the launcher) is gone would raise SIGPIPE on fd 1/2 and kill the daemon.
func useStdio(dir string, pid, lpid int) {
	rec := StdioRec{Pid: pid}
	round := func(k int) {
		if _, err := fmt.Fprintf(os.Stderr, "daemonlaunch harness daemon %d: stderr line %d\n", pid, k); err != nil {
			rec.StderrErr = err.Error()
		}
		if _, err := fmt.Fprintf(os.Stdout, "daemonlaunch harness daemon %d: stdout line %d\n", pid, k); err != nil {
			rec.StdoutErr = err.Error()
		}
		log.Printf("daemonlaunch harness daemon %d: log line %d", pid, k)
		rec.WritesDone++
		rec.PpidAtWrite = os.Getppid()
	}
	round(0)
	// not a verdict, only the order of events: later writes happen once the launcher is gone
	rec.Orphaned = waitFor(20*time.Second, func() bool { return os.Getppid() != lpid })
	for k := 1; k <= 3; k++ {
		round(k)
		time.Sleep(2 * time.Millisecond)
	}
	stdin := make(chan string, 1)
	go func() {
		var b [64]byte
		n, err := os.Stdin.Read(b[:])
		switch {
		case err == io.EOF:
			stdin <- "eof"
		case err != nil:
			stdin <- "err: " + err.Error()
		default:
			stdin <- fmt.Sprintf("read %d bytes", n)
		}
	}()
	select {
	case rec.Stdin = <-stdin:
	case <-time.After(50 * time.Millisecond):
		rec.Stdin = "blocked" // harmless: the goroutine stays parked
	}
	writeAtomic(dir, fmt.Sprintf("stdio.%d", pid), rec)
}

func stdFds(pid int) string {
	var out []string
	for fd := 0; fd <= 2; fd++ {
		l, err := os.Readlink(fmt.Sprintf("/proc/%d/fd/%d", pid, fd))
		if err != nil {
			l = "?"
		} else if i := strings.IndexByte(l, ':'); i > 0 && strings.HasSuffix(l, "]") {
			l = l[:i] // pipe:[123] / socket:[456] -> pipe / socket
		}
		out = append(out, fmt.Sprintf("%d=%s", fd, l))
	}
	return strings.Join(out, " ")
}

// lifeguard runs next to the handler from its first moment (Done() may block for as long as it
// likes): answers one ping, and ends the process when the scenario directory or the supervisor
// is gone or the hard cap is reached. Nothing of the harness can outlive that.
func lifeguard(dir string, sup, pid int, t0 time.Time) {
	ponged := false
	limit := daemonIdleCap + extraCap()
	for time.Since(t0) < limit {
		if !exists(dir) {
			break
		}
		if sup > 0 && !exists(fmt.Sprintf("/proc/%d", sup)) {
			break
		}
		if !ponged && exists(filepath.Join(dir, "ping")) {
			writeAtomic(dir, fmt.Sprintf("pong.%d", pid), Pong{Pid: pid, Ppid: os.Getppid()})
			ponged = true
		}
		time.Sleep(2 * time.Millisecond)
	}
	os.Exit(0)
}

// CallReport is what the caller observed at the moment one Launch call returned.
type CallReport struct {
	Idx       int    `json:"idx"`
	Kind      string `json:"kind,omitempty"`
	Step      int    `json:"step"`
	Name      string `json:"name"`
	CalledBy  int    `json:"called_by,omitempty"` // pid of the daemon that made this (nested) call; 0 = the caller
	Missing   bool   `json:"missing,omitempty"`   // supervisor: no report of this nested call
	Pid       int    `json:"pid"`
	Err       string `json:"err,omitempty"`
	Failed    bool   `json:"failed,omitempty"` // err != nil
	Panic     string `json:"panic,omitempty"`
	CallStamp int64  `json:"call_stamp"` // logical clock of the caller
	RetStamp  int64  `json:"ret_stamp"`

	MarkerPresent  bool     `json:"marker_present"` // marker.<pid> existed when Launch returned
	Marker         *Marker  `json:"marker,omitempty"`
	PreDonePresent bool     `json:"predone_present"`
	PreDone        *PreDone `json:"predone,omitempty"`
	DonePresent    bool     `json:"done_present"` // done.<pid> (written after Done() returned) existed already
	GateOpen       bool     `json:"gate_open"`    // gate.open existed when Launch returned (gated handlers)
	FlagPresent    bool     `json:"flag_present"` // done.flag existed already
	Stat           pstat    `json:"stat"`         // /proc/<pid>/stat when Launch returned
	LauncherAlive  bool     `json:"launcher_alive,omitempty"`
	LauncherState  string   `json:"launcher_state,omitempty"`
}

type CallerReport struct {
	CallerPid int `json:"caller_pid"`
	Pgid      int `json:"pgid"`
	// SIGINT as the launchers inherit it. The caller resets an inherited SIG_IGN (a check started
	// as a background job of a non-interactive shell has it) to SIG_DFL before the first Launch,
	// so that the verdict does not depend on how the check was started.
	SigintWasIgnored bool         `json:"sigint_was_ignored"`
	SigintDefault    bool         `json:"sigint_default"` // disposition is SIG_DFL and the signal is not blocked
	SigintNote       string       `json:"sigint_note,omitempty"`
	Calls            []CallReport `json:"calls"`
}

func safeLaunch(name string) (pid int, err error, pan string) {
	defer func() {
		if r := recover(); r != nil {
			pan = fmt.Sprint(r)
		}
	}()
	pid, err = daemon.Launch(name)
	return
}

func killOwnGroup() {
	syscall.Kill(0, syscall.SIGKILL)
	os.Exit(97)
}

// launchAndObserve calls Launch(r.Name) and records what is visible at the moment it returns;
// the record is also written to ret.<idx>. Used by the caller and by daemons that launch.
func launchAndObserve(dir string, r *CallReport, clock *atomic.Int64) {
	if clock != nil {
		r.CallStamp = clock.Add(1)
	}
	pid, err, pan := safeLaunch(r.Name)
	// ---- the moment Launch returned: observe before anything else ----
	r.GateOpen = exists(filepath.Join(dir, gateName))
	if clock != nil {
		r.RetStamp = clock.Add(1)
	}
	r.Pid, r.Panic = pid, pan
	if err != nil {
		r.Failed, r.Err = true, err.Error()
	}
	if pid > 0 {
		var m Marker
		if readJSON(filepath.Join(dir, fmt.Sprintf("marker.%d", pid)), &m) {
			r.MarkerPresent, r.Marker = true, &m
		}
		var p PreDone
		if readJSON(filepath.Join(dir, fmt.Sprintf("predone.%d", pid)), &p) {
			r.PreDonePresent, r.PreDone = true, &p
		}
		r.Stat = readStat(pid)
		r.DonePresent = exists(filepath.Join(dir, fmt.Sprintf("done.%d", pid)))
		if r.Marker != nil {
			if st, same := sameProcess(r.Marker.Launcher, r.Marker.LauncherStart); same {
				r.LauncherAlive, r.LauncherState = true, st.State
			}
		}
	}
	r.FlagPresent = exists(filepath.Join(dir, flagName))
	writeAtomic(dir, fmt.Sprintf("ret.%d", r.Idx), r)
}

// callerMain is the "original process" of the property: it calls Launch, observes, reports, exits.
func callerMain() {
	dir := os.Getenv(envDir)
	n := len(parseDelays(os.Getenv(envDelays)))
	if nest, _ := strconv.Atoi(os.Getenv(envNest)); nest > 1 {
		n -= nest - 1 // the last nest-1 handlers are launched by daemons, not by this caller
	}
	if dir == "" || n <= 0 || n > maxN {
		fmt.Fprintln(os.Stderr, "caller: bad environment")
		os.Exit(2)
	}
	// Signal environment of the "original process": SIGINT with its default disposition, as in a
	// program started normally. Ignored dispositions survive exec: a launcher that inherits
	// SIG_IGN falls back to "ignored" (not "default") after signal.Stop, which changes what a
	// late or repeated SIGINT does to it.
	wasIgn, sigErr := resetIgnoredSignal(syscall.SIGINT)
	if os.Getenv(envSigIgn) == "1" {
		signal.Ignore(syscall.SIGINT) // this scenario is about a caller that does ignore it
	}
	sigNote := ""
	if sigErr != nil {
		sigNote = "rt_sigaction: " + sigErr.Error()
	}
	h, herr := sigDisposition(syscall.SIGINT)
	blocked, berr := sigBlocked(syscall.SIGINT)
	sigDefault := herr == nil && berr == nil && !blocked && h != 1
	if !sigDefault {
		sigNote += fmt.Sprintf(" disposition=%#x err=%v blocked=%v err=%v", h, herr, blocked, berr)
	}
	// fd 3 is a pipe whose write end the supervisor holds: when the supervisor dies, the
	// whole process group of this caller (launchers and daemons included) is killed.
	syscall.CloseOnExec(3)
	go func() {
		f := os.NewFile(3, "guard")
		if f == nil {
			return
		}
		var b [1]byte
		f.Read(b[:])
		killOwnGroup()
	}()
	time.AfterFunc(callerCap+extraCap(), killOwnGroup)

	rep := CallerReport{CallerPid: os.Getpid(), Pgid: syscall.Getpgrp(), Calls: make([]CallReport, n),
		SigintWasIgnored: wasIgn, SigintDefault: sigDefault, SigintNote: strings.TrimSpace(sigNote)}
	kinds := parseKinds(os.Getenv(envKinds))
	steps := parseDelays(os.Getenv(envSteps))
	if len(steps) == 0 {
		steps = []int{n}
	}
	total := 0
	for _, sz := range steps {
		if sz <= 0 {
			total = -1
			break
		}
		total += sz
	}
	if total != n {
		fmt.Fprintln(os.Stderr, "caller: steps do not add up to the number of calls")
		os.Exit(2)
	}
	var clock atomic.Int64
	names := os.Getenv(envNames)
	launchOne := func(i, step int) {
		r := &rep.Calls[i]
		r.Idx, r.Kind, r.Step, r.Name = i, kindOf(kinds, i), step, nameOf(names, i)
		launchAndObserve(dir, r, &clock)
	}
	next := 0
	for step, sz := range steps {
		if sz == 1 && len(steps) > 1 {
			launchOne(next, step) // a history: sequential calls on one goroutine
		} else {
			var wg sync.WaitGroup
			start := make(chan struct{})
			for i := next; i < next+sz; i++ {
				wg.Add(1)
				go func(i int) {
					defer wg.Done()
					<-start
					launchOne(i, step)
				}(i)
			}
			close(start)
			wg.Wait()
		}
		next += sz
	}
	b, _ := json.Marshal(rep)
	os.Stdout.Write(append(b, '\n'))
}
