package main

// Thorough-tier exploration: more sizes, source and destination states, name styles and path
// spellings, fault injection at every syscall occurrence of the copy path, RLIMIT_FSIZE at many
// offsets (short writes), concurrent calls, and seeded random combinations of all of these.
// The oracle is the one of main.go (judge); nothing here decides a verdict.
//
// SAFETY: every path handed to CopyFile / MoveFile, and every symlink target, lies inside the
// monitor's own per-case directories. No device node, FIFO or foreign path is ever used: the
// monitor runs as root and a mutant that replaces its destination would replace that object.
// (A FIFO destination is also left out because a write to it blocks once the pipe is full.)

import (
	"fmt"
	"math/rand"
	"os"
	"path/filepath"
	"regexp"
	"sort"
	"strings"
	"sync"
	"sync/atomic"
)

var sizesDeep = func() []int {
	var s []int
	for i := 0; i <= 64; i++ {
		s = append(s, i)
	}
	return append(s, 4095, 4096, 4097, 32767, 32768, 32769, 65535, 65536, 65537, 1<<20-1, 1<<20, 1<<20+1)
}()

var sizesBig = []int{2<<20 + 3, 5 << 20, 8<<20 + 1, 32 << 20}

var srcKindsDeep = []string{"present", "missing", "symlink", "sparse", "hardlinked", "symlink-xfs"}

var dstKindsDeep = append(append([]string{}, dstKinds...),
	"equal", "same-content", "readonly", "dir-nonempty", "symlink-dir", "symlink-loop", "symlink-chain-other", "symlink-xfs-other", "symlink-xfs-dangling")

var aliasKindsDeep = append(append([]string{}, aliasKinds...), "alias-hardlink-chain", "alias-chain-xfs")

var allDstDeep = append(append([]string{}, dstKindsDeep...), aliasKindsDeep...)

// the random shards also draw the source-side alias kinds
var srcKindsRand = append(append([]string{}, srcKindsDeep...), "symlink-chain", "symlink-chain3", "dot", "hardlink", "symlink")
var allDstRand = append(append(append(append([]string{}, allDstDeep...), realAliasKinds...), realAliasKinds...), midAliasKinds...)

var nameStyles = []string{"", "space", "unicode", "newline", "long", "dash", "meta"}

var spellings = []string{"", "dst-slash", "dst-dotdot", "dst-dslash", "dst-dot", "src-slash", "src-dotdot", "src-dslash", "both-dotdot"}

var sweepErrnos = []string{"ENOSPC", "EIO", "EINTR", "EDQUOT"}

var placements = [][2]string{{"root", "root"}, {"shm", "shm"}, {"root", "shm"}, {"shm", "root"}}

// deepCases: the broad product for one operation and placement.
func deepCases(a shardArgs) []Case {
	var out []Case
	for _, size := range sizesDeep {
		for _, src := range srcKindsDeep {
			dsts := allDstDeep
			if src == "missing" {
				dsts = []string{"missing", "longer", "dir", "symlink-loop"}
			}
			for _, dst := range dsts {
				cs := Case{Op: a.Op, Size: size, SrcFS: a.SrcFS, DstFS: a.DstFS, Src: src, Dst: dst}
				if applicable(cs) {
					out = append(out, cs)
				}
			}
		}
	}
	return out
}

// bigCases: multi-megabyte and sparse sources.
func bigCases() []Case {
	var out []Case
	for _, size := range sizesBig {
		for _, pl := range placements {
			for _, op := range []string{"copy", "move"} {
				for _, src := range []string{"present", "sparse", "symlink"} {
					for _, dst := range []string{"missing", "shorter", "longer", "equal", "symlink-other", "symlink-xfs-other", "alias-symlink", "alias-hardlink"} {
						cs := Case{Op: op, Size: size, SrcFS: pl[0], DstFS: pl[1], Src: src, Dst: dst}
						if applicable(cs) {
							out = append(out, cs)
						}
					}
				}
			}
		}
	}
	return out
}

// spellCases: awkward names and path spellings.
func spellCases(a shardArgs) []Case {
	var out []Case
	for _, size := range []int{0, 1, 4097, 65537} {
		for _, name := range nameStyles {
			for _, spell := range spellings {
				if name == "" && spell == "" {
					continue
				}
				for _, src := range []string{"present", "symlink", "missing"} {
					for _, dst := range []string{"missing", "longer", "dir", "parent-missing", "parent-file", "symlink-other", "dangling-symlink"} {
						cs := Case{Op: a.Op, Size: size, SrcFS: a.SrcFS, DstFS: a.DstFS, Src: src, Dst: dst, Name: name, Spell: spell}
						if applicable(cs) {
							out = append(out, cs)
						}
					}
				}
			}
			if name != "" {
				for _, dst := range aliasKindsDeep {
					cs := Case{Op: a.Op, Size: size, SrcFS: a.SrcFS, DstFS: a.DstFS, Src: "present", Dst: dst, Name: name}
					if applicable(cs) {
						out = append(out, cs)
					}
				}
			}
		}
	}
	return out
}

var faultCfgs = []struct {
	op, sfs, dfs string
	exdev        bool
}{
	{"copy", "root", "root", false},
	{"copy", "shm", "shm", false},
	{"copy", "root", "shm", false},
	{"copy", "shm", "root", false},
	{"move", "root", "root", true}, // fallback forced by strace
	{"move", "shm", "shm", true},
	{"move", "root", "shm", false}, // real EXDEV
	{"move", "shm", "root", false},
	{"move", "root", "root", false}, // plain rename path
}

const cfrENOSYS = "copy_file_range:error=ENOSYS"

// rlimitDeepCases: RLIMIT_FSIZE at many offsets; with copy_file_range disabled the limit produces
// genuine short write(2) counts of every length class before the failing write.
func rlimitDeepCases() []Case {
	var out []Case
	for _, size := range []int{1, 2, 64, 4097, 32769, 65537, 1 << 20} {
		cand := []int64{0, 1, int64(size / 3), 4095, 4096, 32767, 32768, int64(size - 1), int64(size), int64(size + 1)}
		seen := map[int64]bool{}
		for _, lim := range cand {
			if lim < 0 || lim > int64(size+1) || seen[lim] {
				continue
			}
			seen[lim] = true
			lim := lim
			for _, dst := range []string{"missing", "shorter", "longer", "equal", "symlink-other"} {
				for _, cf := range faultCfgs {
					for _, rw := range []bool{false, true} {
						f := &Fault{Rlimit: &lim}
						if cf.exdev {
							f.RenameErr = "EXDEV"
						}
						if rw {
							f.Inject = []string{cfrENOSYS}
						}
						out = append(out, Case{Op: cf.op, Size: size, SrcFS: cf.sfs, DstFS: cf.dfs, Src: "present", Dst: dst, Fault: f})
					}
				}
			}
		}
	}
	return out
}

// exdevDeepCases: MoveFile forced into its fallback over every source and destination state.
func exdevDeepCases() []Case {
	var out []Case
	for _, fs := range []string{"root", "shm"} {
		for _, size := range []int{0, 1, 2, 63, 64, 4097, 65537, 1 << 20} {
			for _, src := range []string{"present", "symlink", "sparse", "hardlinked", "symlink-xfs"} {
				for _, dst := range allDstDeep {
					cs := Case{Op: "move", Size: size, SrcFS: fs, DstFS: fs, Src: src, Dst: dst, Fault: &Fault{RenameErr: "EXDEV"}}
					if applicable(cs) {
						out = append(out, cs)
					}
				}
			}
			if size == 1 || size == 4097 {
				for _, name := range nameStyles[1:] {
					for _, dst := range []string{"missing", "longer", "alias-symlink", "alias-dot", "alias-hardlink"} {
						cs := Case{Op: "move", Size: size, SrcFS: fs, DstFS: fs, Src: "present", Dst: dst, Name: name, Fault: &Fault{RenameErr: "EXDEV"}}
						if applicable(cs) {
							out = append(out, cs)
						}
					}
				}
			}
		}
	}
	return out
}

// sweepBases: the calls whose every syscall occurrence gets a fault injected (see runSweep).
func sweepBases() []Case {
	var out []Case
	for _, cf := range faultCfgs {
		for _, size := range []int{0, 1, 64, 4097, 32768, 32769, 65537, 100000, 1 << 20} {
			for _, dst := range []string{"missing", "shorter", "longer", "equal", "same-content", "symlink-other", "dangling-symlink", "symlink-chain-other", "symlink-xfs-other"} {
				srcs := []string{"present"}
				if dst == "missing" || dst == "longer" || dst == "symlink-other" {
					if size >= 4097 {
						srcs = append(srcs, "sparse")
					} else {
						srcs = append(srcs, "symlink")
					}
				}
				for _, src := range srcs {
					for _, rw := range []bool{false, true} {
						f := &Fault{PathOnly: "both"}
						if cf.exdev {
							f.RenameErr = "EXDEV"
						}
						if rw {
							f.Inject = []string{cfrENOSYS}
						}
						out = append(out, Case{Op: cf.op, Size: size, SrcFS: cf.sfs, DstFS: cf.dfs, Src: src, Dst: dst, Fault: f})
					}
				}
			}
		}
	}
	return out
}

// enumerate runs the base call once under strace without any new fault and returns, per
// syscall name, how often it occurred on the two paths.
func enumerate(base Case, e *env) (counts map[string]int, order []string, harness string) {
	l, err := e.build(base)
	if l != nil {
		defer l.remove()
	}
	if err != nil {
		return nil, nil, "layout: " + err.Error()
	}
	f := *base.Fault
	f.enumerate = true
	pr := runProbe(base.Op, l.src, l.dst, &f, e.scratch)
	if pr.harness != "" {
		return nil, nil, pr.harness
	}
	counts = map[string]int{}
	for _, s := range pr.seq {
		if counts[s] == 0 {
			order = append(order, s)
		}
		counts[s]++
	}
	return counts, order, ""
}

// sweepPoints turns an enumeration into the fault cases: every occurrence index of every
// syscall that is not already tampered with by the base, times every errno.
func sweepPoints(base Case, counts map[string]int, order []string) []Case {
	var out []Case
	for _, name := range order {
		if name == "?" || name == "" {
			continue
		}
		if base.Fault.RenameErr != "" && strings.HasPrefix(name, "rename") {
			continue
		}
		skip := false
		for _, inj := range base.Fault.Inject {
			if strings.HasPrefix(inj, name+":") {
				skip = true
			}
		}
		if skip {
			continue
		}
		for idx := 1; idx <= counts[name]; idx++ {
			for _, en := range sweepErrnos {
				f := *base.Fault
				f.Inject = append(append([]string{}, base.Fault.Inject...), fmt.Sprintf("%s:error=%s:when=%d", name, en, idx))
				cs := base
				cs.Fault = &f
				out = append(out, cs)
			}
		}
	}
	return out
}

// randCases: seeded random combinations of every dimension.
func randCases(seed int64, part, count int) []Case {
	r := rand.New(rand.NewSource(seed*7_000_003 + int64(part)*104729 + 17))
	pick := func(l []string) string { return l[r.Intn(len(l))] }
	size := func() int {
		switch x := r.Intn(100); {
		case x < 30:
			return r.Intn(65)
		case x < 75:
			k := 7 + r.Intn(15)
			return 1<<k + r.Intn(3) - 1
		case x < 95:
			return r.Intn(300000)
		default:
			return r.Intn(8 << 20)
		}
	}
	var out []Case
	for len(out) < count {
		pl := placements[r.Intn(len(placements))]
		cs := Case{Op: pick([]string{"copy", "move"}), Size: size(), SrcFS: pl[0], DstFS: pl[1], Src: pick(srcKindsRand), Dst: pick(allDstRand)}
		if r.Intn(4) == 0 {
			cs.Name = pick(nameStyles)
		}
		if r.Intn(5) == 0 {
			cs.Spell = pick(spellings)
		}
		if r.Intn(12) == 0 {
			cs.Rel, cs.Dst, cs.Src = pick(relKinds()), pick([]string{"missing", "shorter", "longer"}), "present"
			cs.Name, cs.Spell = "", ""
		}
		switch x := r.Intn(100); {
		case x < 62:
		case x < 70: // RLIMIT_FSIZE somewhere
			lim := int64(0)
			if cs.Size > 0 {
				lim = int64(r.Intn(cs.Size + 2))
			}
			cs.Fault = &Fault{Rlimit: &lim}
			if r.Intn(2) == 0 {
				cs.Fault.Inject = []string{cfrENOSYS}
			}
		case x < 78: // MoveFile forced into the fallback (or another rename errno)
			cs.Fault = &Fault{RenameErr: pick([]string{"EXDEV", "EXDEV", "EXDEV", "EACCES", "EIO", "ENOSPC", "EDQUOT", "EPERM", "EBUSY"})}
		default: // a failing syscall somewhere on the copy path
			f := &Fault{}
			if cs.Op == "move" && cs.SrcFS == cs.DstFS && r.Intn(4) != 0 {
				f.RenameErr = "EXDEV"
			}
			en := pick([]string{"ENOSPC", "EIO", "EINTR", "EDQUOT", "EACCES", "EMFILE", "ENOMEM", "EROFS"})
			when := 1 + r.Intn(2)
			if cs.Spell == "" && r.Intn(3) != 0 {
				// path-filtered: any syscall of the data path
				f.PathOnly = "both"
				if r.Intn(2) == 0 {
					f.Inject = append(f.Inject, cfrENOSYS)
					f.Inject = append(f.Inject, fmt.Sprintf("%s:error=%s:when=%d", pick([]string{"read", "read", "write", "write", "openat", "fstat", "newfstatat", "unlinkat"}), en, when+r.Intn(2)*r.Intn(8)))
				} else {
					f.Inject = append(f.Inject, fmt.Sprintf("%s:error=%s:when=%d", pick([]string{"copy_file_range", "openat", "fstat", "newfstatat", "unlinkat"}), en, when))
				}
			} else {
				// unfiltered: only syscalls the Go runtime does not issue on its own
				f.Inject = append(f.Inject, fmt.Sprintf("%s:error=%s:when=%d", pick([]string{"copy_file_range", "unlinkat"}), en, when))
			}
			// a stat fault on an aliased destination defeats the same-file guard: outside the statement
			if isAlias(cs.Dst) {
				var keep []string
				for _, inj := range f.Inject {
					if !strings.HasPrefix(inj, "newfstatat:") && !strings.HasPrefix(inj, "fstat:") {
						keep = append(keep, inj)
					}
				}
				f.Inject = keep
			}
			if f.RenameErr == "" && len(f.Inject) == 0 {
				f = nil
			}
			cs.Fault = f
		}
		if applicable(cs) {
			out = append(out, cs)
		}
	}
	return out
}

// concCases: many calls at the same time on distinct files in shared directories.
func concCases(a shardArgs) []Case {
	var out []Case
	for _, op := range []string{"copy", "move"} {
		for _, dst := range []string{"missing", "longer"} {
			for _, size := range []int{0, 1, 4097, 65537, 1 << 20} {
				for _, conc := range []int{2, 8, 32} {
					rounds := 25
					if size >= 1<<20 {
						rounds = 6
					}
					out = append(out, Case{Op: op, Size: size, SrcFS: a.SrcFS, DstFS: a.DstFS, Src: "present", Dst: dst, Conc: conc, Rounds: rounds})
				}
			}
		}
	}
	return out
}

// concQuickCases (both tiers): 8 and 32 goroutines released together, CopyFile and MoveFile mixed,
// distinct files of about 300 KB with distinct random content (some ten 32 KiB buffer-fulls per
// call are in flight), a few rounds. Across the two file systems copy_file_range is refused by
// the kernel, so the data goes through the read/write loop, and MoveFile takes its copy fallback.
func concQuickCases(a shardArgs) []Case {
	var out []Case
	for _, conc := range []int{8, 32} {
		for _, dst := range []string{"missing", "longer"} {
			out = append(out, Case{Op: "mix", Size: 300000, SrcFS: a.SrcFS, DstFS: a.DstFS, Src: "present", Dst: dst, Conc: conc, Rounds: 3})
		}
	}
	return out
}

// runConcurrent: cs.Conc goroutines, released together in each of cs.Rounds rounds, each call
// on its own source and destination file inside two shared directories; every call is judged
// by the ordinary oracle.
func runConcurrent(cs Case, e *env, oc *outcome) (key, expected, observed string) {
	if stopping.Load() {
		select {}
	}
	sroot, ok1 := e.roots[cs.SrcFS]
	droot, ok2 := e.roots[cs.DstFS]
	if !ok1 || !ok2 {
		oc.skipped = "no second file system"
		return
	}
	n := e.seq.Add(1)
	cdS, cdD := filepath.Join(sroot, fmt.Sprintf("c%d", n)), filepath.Join(droot, fmt.Sprintf("c%d", n))
	defer os.RemoveAll(cdS)
	defer os.RemoveAll(cdD)
	sdir, ddir := filepath.Join(cdS, "s"), filepath.Join(cdD, "d")
	if err := os.MkdirAll(sdir, 0o755); err != nil {
		oc.harness = "layout: " + err.Error()
		return
	}
	if err := os.MkdirAll(ddir, 0o755); err != nil {
		oc.harness = "layout: " + err.Error()
		return
	}
	rounds := cs.Rounds
	if rounds <= 0 {
		rounds = 1
	}
	type verdict struct{ k, e, o string }
	var mu sync.Mutex
	var first *verdict
	var harness string
	var inflight, maxIn, overlap, calls, nils atomic.Int64
	for r := 0; r < rounds; r++ {
		start := make(chan struct{})
		var ready, done sync.WaitGroup
		for w := 0; w < cs.Conc; w++ {
			ready.Add(1)
			done.Add(1)
			go func(w int) {
				defer done.Done()
				size := cs.Size + w%5
				src := filepath.Join(sdir, fmt.Sprintf("src-%d.bin", w))
				dst := filepath.Join(ddir, fmt.Sprintf("dst-%d.bin", w))
				data := content(cs.Seed+int64(r)*100003+int64(w), size)
				err := os.WriteFile(src, data, 0o644)
				if cs.Dst == "missing" {
					os.Remove(dst)
				} else if r == 0 && err == nil {
					err = os.WriteFile(dst, content(cs.Seed^0x77, size+1000), 0o644)
				}
				limit := int64(size) + 1
				srcPre, dstPre := takeSnap(src, limit), takeSnap(dst, limit)
				ready.Done()
				<-start
				if err != nil {
					mu.Lock()
					harness = "layout: " + err.Error()
					mu.Unlock()
					return
				}
				cur := inflight.Add(1)
				for {
					m := maxIn.Load()
					if cur <= m || maxIn.CompareAndSwap(m, cur) {
						break
					}
				}
				if cur > 1 {
					overlap.Add(1)
				}
				wcs := cs
				if cs.Op == "mix" { // CopyFile and MoveFile at the same time
					wcs.Op = []string{"copy", "move"}[w%2]
				}
				res := call(wcs.Op, src, dst)
				inflight.Add(-1)
				calls.Add(1)
				if res.Nil {
					nils.Add(1)
				}
				srcPost, dstPost := takeSnap(src, limit), takeSnap(dst, limit)
				var o outcome
				if k, ex, ob := judge(wcs, res, srcPre, dstPre, srcPost, dstPost, &o); k != "" {
					mu.Lock()
					if first == nil {
						first = &verdict{k, ex, fmt.Sprintf("worker %d of %d, round %d, size %d: %s", w, cs.Conc, r, size, ob)}
					}
					mu.Unlock()
				}
			}(w)
		}
		ready.Wait()
		close(start)
		done.Wait()
	}
	if harness != "" {
		oc.harness = harness
		return
	}
	oc.ran = true
	oc.nilRet = nils.Load() == calls.Load()
	if !oc.nilRet {
		oc.errText = fmt.Sprintf("%d of %d concurrent calls returned an error", calls.Load()-nils.Load(), calls.Load())
	}
	oc.concCalls, oc.concMax, oc.concOverlap = calls.Load(), maxIn.Load(), overlap.Load()
	if first != nil {
		return first.k, first.e, first.o
	}
	return
}

// faultClass names a fault without its occurrence index and byte offset (evidence sets).
func faultClass(f *Fault) string {
	s := f.keyString()
	var sb strings.Builder
	for {
		i := strings.Index(s, ":when=")
		if i < 0 {
			break
		}
		j := i + len(":when=")
		for j < len(s) && s[j] >= '0' && s[j] <= '9' {
			j++
		}
		sb.WriteString(s[:i])
		sb.WriteString(":when=k")
		s = s[j:]
	}
	sb.WriteString(s)
	return sb.String()
}

func sortedKeys(m map[string]int) []string {
	var k []string
	for s := range m {
		k = append(k, s)
	}
	sort.Strings(k)
	return k
}

var errnoRe = regexp.MustCompile(`error=E[A-Z]+`)

// compactFault: fault class without occurrence index and errno (bounded evidence sets of the deep shards).
func compactFault(f *Fault) string {
	return errnoRe.ReplaceAllString(faultClass(f), "error=E*")
}

// sizeLabel keeps small and boundary sizes exact and buckets the rest by power of two.
func sizeLabel(n int64) string {
	if n <= 64 {
		return fmt.Sprint(n)
	}
	for k := uint(6); k < 40; k++ {
		p := int64(1) << k
		if n >= p-1 && n <= p+1 {
			return fmt.Sprint(n)
		}
		if n < p {
			return fmt.Sprintf("[2^%d,2^%d)", k-1, k)
		}
	}
	return "huge"
}
