package main

// Family "closefail": a destination file system that accepts write(2) and reports the failure
// only at close(2) – the behaviour of NFS / CIFS / many FUSE file systems with a quota.
//
// A raw-protocol FUSE server (syscall only) emulates it: a quota of fuseQuota bytes per file,
// writes beyond the quota are acknowledged and dropped, the FLUSH that close(2) triggers answers
// ENOSPC. It runs in a CHILD process of this binary that is started in a private mount namespace
// (CLONE_NEWNS): the mount sits on a directory inside the monitor's own temp dir, is invisible
// to every other process and vanishes with the child whatever happens. The child performs the
// controls and exactly one CopyFile / MoveFile call and prints snapshots; the parent judges them
// with the ordinary oracle (judge).
//
// SAFETY: only paths inside the monitor's temp dir are handed to glb; nothing is mounted in the
// parent's namespace; the parent kills the child's process group on a watchdog.

import (
	"bytes"
	"encoding/json"
	"errors"
	"fmt"
	"os"
	"os/exec"
	"path/filepath"
	"runtime"
	"strings"
	"sync"
	"syscall"
	"time"
)

const fuseQuota = 100000

const closeFailFlag = "-c18closefail"
const closeFailAbortFlag = "-c18fuseabort"

func isCloseFailChild() bool { return len(os.Args) > 1 && os.Args[1] == closeFailFlag }
func isCloseFailAbort() bool { return len(os.Args) > 1 && os.Args[1] == closeFailAbortFlag }

// VERIF_C18_FUSE_DEV overrides the fuse device (used to test the "fuse unavailable" path).
func fuseDev() string {
	if p := os.Getenv("VERIF_C18_FUSE_DEV"); p != "" {
		return p
	}
	return "/dev/fuse"
}

type fuseNode struct {
	ino    uint64
	data   []byte
	failed bool
}

type fuseFS struct {
	fd            int
	mu            sync.Mutex
	nodes         map[string]*fuseNode
	byIno         map[uint64]*fuseNode
	nextIno       uint64
	flushes       int
	failedFlushes int
}

func le32(b []byte, off int) uint32 {
	return uint32(b[off]) | uint32(b[off+1])<<8 | uint32(b[off+2])<<16 | uint32(b[off+3])<<24
}
func le64(b []byte, off int) uint64 { return uint64(le32(b, off)) | uint64(le32(b, off+4))<<32 }
func put32(b []byte, off int, v uint32) {
	b[off], b[off+1], b[off+2], b[off+3] = byte(v), byte(v>>8), byte(v>>16), byte(v>>24)
}
func put64(b []byte, off int, v uint64) { put32(b, off, uint32(v)); put32(b, off+4, uint32(v>>32)) }

func (fs *fuseFS) reply(unique uint64, errno syscall.Errno, payload []byte) {
	out := make([]byte, 16+len(payload))
	put32(out, 0, uint32(len(out)))
	put32(out, 4, uint32(-int32(errno)))
	put64(out, 8, unique)
	copy(out[16:], payload)
	syscall.Write(fs.fd, out)
}

// attr fills an 88-byte struct fuse_attr.
func (fs *fuseFS) attr(b []byte, n *fuseNode) {
	if n == nil { // the root directory
		put64(b, 0, 1)
		put32(b, 60, syscall.S_IFDIR|0755)
		put32(b, 64, 2)
	} else {
		put64(b, 0, n.ino)
		put64(b, 8, uint64(len(n.data)))
		put64(b, 16, uint64(len(n.data)+511)/512)
		put32(b, 60, syscall.S_IFREG|0644)
		put32(b, 64, 1)
	}
	put32(b, 80, 4096)
}

func (fs *fuseFS) entryOut(n *fuseNode) []byte {
	b := make([]byte, 128)
	put64(b, 0, n.ino)
	fs.attr(b[40:], n)
	return b
}

func (fs *fuseFS) attrOut(n *fuseNode) []byte {
	b := make([]byte, 104)
	fs.attr(b[16:], n)
	return b
}

func cstr(b []byte) string {
	if i := bytes.IndexByte(b, 0); i >= 0 {
		return string(b[:i])
	}
	return string(b)
}

func (fs *fuseFS) serve() {
	runtime.LockOSThread()
	buf := make([]byte, 1<<20+8192)
	for {
		n, err := syscall.Read(fs.fd, buf)
		if err == syscall.EINTR || err == syscall.EAGAIN || err == syscall.ENOENT {
			continue
		}
		if err != nil || n < 40 {
			return // ENODEV: unmounted
		}
		opcode, unique, nodeid := le32(buf, 4), le64(buf, 8), le64(buf, 16)
		body := buf[40:n]
		fs.mu.Lock()
		node := fs.byIno[nodeid]
		switch opcode {
		case 26: // INIT
			out := make([]byte, 64)
			put32(out, 0, 7)
			put32(out, 4, 31)
			put32(out, 8, 0)
			put32(out, 12, 0)
			put32(out, 16, 12|10<<16) // max_background, congestion_threshold
			put32(out, 20, 128<<10)   // max_write
			put32(out, 24, 1)
			fs.reply(unique, 0, out)
		case 1: // LOOKUP
			if nd, ok := fs.nodes[cstr(body)]; ok && nodeid == 1 {
				fs.reply(unique, 0, fs.entryOut(nd))
			} else {
				fs.reply(unique, syscall.ENOENT, nil)
			}
		case 3: // GETATTR
			if nodeid == 1 || node != nil {
				fs.reply(unique, 0, fs.attrOut(node))
			} else {
				fs.reply(unique, syscall.ENOENT, nil)
			}
		case 4: // SETATTR
			if node != nil && le32(body, 0)&(1<<3) != 0 { // FATTR_SIZE
				size := int(le64(body, 16))
				if size < len(node.data) {
					node.data = node.data[:size]
				} else {
					node.data = append(node.data, make([]byte, size-len(node.data))...)
				}
				node.failed = false
			}
			fs.reply(unique, 0, fs.attrOut(node))
		case 35: // CREATE
			name := cstr(body[16:])
			nd, ok := fs.nodes[name]
			if !ok {
				fs.nextIno++
				nd = &fuseNode{ino: fs.nextIno}
				fs.nodes[name], fs.byIno[nd.ino] = nd, nd
			}
			if le32(body, 0)&syscall.O_TRUNC != 0 {
				nd.data, nd.failed = nil, false
			}
			out := append(fs.entryOut(nd), make([]byte, 16)...)
			put64(out, 128, nd.ino)
			fs.reply(unique, 0, out)
		case 14: // OPEN
			if node == nil {
				fs.reply(unique, syscall.ENOENT, nil)
				break
			}
			if le32(body, 0)&syscall.O_TRUNC != 0 {
				node.data, node.failed = nil, false
			}
			out := make([]byte, 16)
			put64(out, 0, node.ino)
			fs.reply(unique, 0, out)
		case 15: // READ
			off, size := int(le64(body, 8)), int(le32(body, 16))
			if node == nil || off >= len(node.data) {
				fs.reply(unique, 0, nil)
				break
			}
			end := off + size
			if end > len(node.data) {
				end = len(node.data)
			}
			fs.reply(unique, 0, node.data[off:end])
		case 16: // WRITE: accepted like a write into a client-side cache; beyond the quota the data is dropped
			off, size := int(le64(body, 8)), int(le32(body, 16))
			data := body[40 : 40+size]
			if node != nil {
				if off+size > fuseQuota {
					node.failed = true
					if off < fuseQuota {
						data = data[:fuseQuota-off]
					} else {
						data = nil
					}
				}
				if len(data) > 0 {
					if need := off + len(data); need > len(node.data) {
						node.data = append(node.data, make([]byte, need-len(node.data))...)
					}
					copy(node.data[off:], data)
				}
			}
			out := make([]byte, 8)
			put32(out, 0, uint32(size))
			fs.reply(unique, 0, out)
		case 25: // FLUSH, sent for close(2): this is where the deferred error surfaces
			fs.flushes++
			if node != nil && node.failed {
				fs.failedFlushes++
				fs.reply(unique, syscall.ENOSPC, nil)
			} else {
				fs.reply(unique, 0, nil)
			}
		case 18, 29: // RELEASE, RELEASEDIR
			fs.reply(unique, 0, nil)
		case 10: // UNLINK
			if nd, ok := fs.nodes[cstr(body)]; ok {
				delete(fs.nodes, cstr(body))
				delete(fs.byIno, nd.ino)
				fs.reply(unique, 0, nil)
			} else {
				fs.reply(unique, syscall.ENOENT, nil)
			}
		case 17: // STATFS
			out := make([]byte, 80)
			put32(out, 40, 4096)
			put32(out, 44, 255)
			fs.reply(unique, 0, out)
		case 2, 42, 36: // FORGET, BATCH_FORGET, INTERRUPT: no reply
		default:
			fs.reply(unique, syscall.ENOSYS, nil)
		}
		fs.mu.Unlock()
	}
}

// ---------------------------------------------------------------------------------------
// child side

// cfReport is what the child prints.
type cfReport struct {
	Skipped        string `json:"skipped,omitempty"`         // fuse cannot be used here (not a verdict)
	ControlFailure string `json:"control_failure,omitempty"` // the emulated file system does not behave as intended

	SmallCopyOK    bool        `json:"small_copy_ok"`    // control 1: below the quota CopyFile returns nil and the file arrives intact
	CtlWriteErr    string      `json:"ctl_write_err"`    // control 2: plain Write of 3*quota bytes
	CtlCloseErr    string      `json:"ctl_close_err"`    //            its Close
	CtlCloseENOSPC bool        `json:"ctl_close_enospc"` //            ... is ENOSPC
	CtlShortLen    int64       `json:"ctl_short_len"`    //            bytes that arrived
	RenameEXDEV    bool        `json:"rename_exdev"`     // control 3: rename onto the mount fails with EXDEV
	Flushes        int         `json:"flushes"`          // FLUSH requests served
	FailedFlushes  int         `json:"failed_flushes"`   // ... answered ENOSPC
	Res            ProbeResult `json:"res"`
	SrcPre         snap        `json:"src_pre"`
	DstPre         snap        `json:"dst_pre"`
	SrcPost        snap        `json:"src_post"`
	DstPost        snap        `json:"dst_post"`
	Ran            bool        `json:"ran"`
}

var cfEmit = func(r *cfReport) { cfLine("report", r) }

// step runs f with a watchdog; a blocked step ends the child (the mount dies with it).
func cfStep(r *cfReport, what string, f func()) {
	done := make(chan struct{})
	go func() { defer close(done); f() }()
	select {
	case <-done:
	case <-time.After(20 * time.Second):
		r.ControlFailure = what + " blocks on the emulated file system"
		cfEmit(r)
		os.Exit(0)
	}
}

// Two processes share the private mount namespace:
//
//	server (-c18closefail):       opens the fuse device, mounts, serves; never opens a file on the
//	                              mount itself; starts the client and waits for it
//	client (-c18closefailclient): performs the controls and the call under test
//
// They must be separate: a process that is killed while it holds an open file on a FUSE mount
// sends a FLUSH from its exit path and waits for the answer uninterruptibly – if the server lived
// in the same process it would be dead already and the process would hang forever (observed).
// With two processes the server either still answers, or its death releases the fuse device,
// which aborts the connection and wakes the client.

const closeFailClientFlag = "-c18closefailclient"

func isCloseFailClient() bool { return len(os.Args) > 1 && os.Args[1] == closeFailClientFlag }

func cfLine(tag string, v any) {
	b, _ := json.Marshal(v)
	fmt.Printf("%s %s\n", tag, b)
}

// closeFailChildMain (server): args = -c18closefail <workdir> <case json>
func closeFailChildMain() {
	r := &cfReport{}
	if len(os.Args) != 4 {
		fmt.Fprintln(os.Stderr, "usage: -c18closefail workdir case")
		os.Exit(2)
	}
	work := os.Args[2]
	mnt, sdir := filepath.Join(work, "mnt"), filepath.Join(work, "s")
	if err := os.MkdirAll(mnt, 0o755); err != nil {
		r.ControlFailure = "mkdir: " + err.Error()
		cfLine("report", r)
		return
	}
	os.MkdirAll(sdir, 0o755)
	fd, err := syscall.Open(fuseDev(), syscall.O_RDWR|syscall.O_CLOEXEC, 0) // CLOEXEC: the client must not hold the device
	if err != nil {
		r.Skipped = "open " + fuseDev() + ": " + err.Error()
		cfLine("report", r)
		return
	}
	fs := &fuseFS{fd: fd, nodes: map[string]*fuseNode{}, byIno: map[uint64]*fuseNode{}, nextIno: 1}
	if err := syscall.Mount("verif-c18-closefail", mnt, "fuse", syscall.MS_NOSUID|syscall.MS_NODEV,
		fmt.Sprintf("fd=%d,rootmode=40000,user_id=0,group_id=0", fd)); err != nil {
		syscall.Close(fd)
		r.Skipped = "mount fuse: " + err.Error()
		cfLine("report", r)
		return
	}
	go fs.serve() // only now: reading the device before the mount fails with EPERM
	finish := func() {
		syscall.Unmount(mnt, syscall.MNT_DETACH)
		syscall.Close(fd)
	}
	d1, ok1 := devOf(work)
	d2, ok2 := devOf(mnt)
	if !ok1 || !ok2 || d1 == d2 {
		finish()
		r.Skipped = "the fuse mount did not take"
		cfLine("report", r)
		return
	}
	// the connection id under fusectl is the minor device number of the mount
	cfLine("conn", map[string]uint64{"id": (d2 & 0xff) | ((d2 >> 12) & 0xfff00)})

	self, err := os.Executable()
	if err != nil {
		finish()
		r.ControlFailure = "os.Executable: " + err.Error()
		cfLine("report", r)
		return
	}
	cmd := exec.Command(self, closeFailClientFlag, work, os.Args[3])
	cmd.Stdout, cmd.Stderr = os.Stdout, os.Stderr
	if err := cmd.Start(); err != nil {
		finish()
		r.ControlFailure = "start client: " + err.Error()
		cfLine("report", r)
		return
	}
	done := make(chan error, 1)
	go func() { done <- cmd.Wait() }()
	select {
	case <-done:
	case <-time.After(70 * time.Second):
		cmd.Process.Kill() // its exit-time FLUSH is still answered: this process serves on
		<-done
		r.ControlFailure = "the client process exceeded its watchdog"
		cfLine("report", r)
	}
	fs.mu.Lock()
	st := map[string]int{"flushes": fs.flushes, "failed_flushes": fs.failedFlushes}
	fs.mu.Unlock()
	cfLine("server", st)
	finish()
}

// closeFailClientMain: args = -c18closefailclient <workdir> <case json>; runs inside the
// server's mount namespace.
func closeFailClientMain() {
	r := &cfReport{}
	work := os.Args[2]
	var cs Case
	if len(os.Args) != 4 || json.Unmarshal([]byte(os.Args[3]), &cs) != nil {
		fmt.Fprintln(os.Stderr, "usage: -c18closefailclient workdir case")
		os.Exit(2)
	}
	mnt, sdir := filepath.Join(work, "mnt"), filepath.Join(work, "s")
	cfEmit = func(r *cfReport) { cfLine("report", r) }

	if os.Getenv("VERIF_C18_CLOSEFAIL_HANG") != "" {
		// test hook for the clean-up paths: hold a dirty file on the mount open and hang
		if f, err := os.Create(filepath.Join(mnt, "held-open.bin")); err == nil {
			f.Write(content(1, 3*fuseQuota))
		}
		time.Sleep(10 * time.Minute)
	}

	// ---- controls: they prove that the fault is live
	cfStep(r, "control 1 (small copy)", func() {
		small := content(cs.Seed^0x51, fuseQuota/2)
		src, dst := filepath.Join(sdir, "ctl-small.bin"), filepath.Join(mnt, "ctl-small.bin")
		os.WriteFile(src, small, 0o644)
		res := call("copy", src, dst)
		got, rerr := os.ReadFile(dst)
		r.SmallCopyOK = res.Nil && rerr == nil && bytes.Equal(got, small)
		if !r.SmallCopyOK {
			r.ControlFailure = fmt.Sprintf("control 1: CopyFile of %d bytes onto the mount = %+v, read back %d bytes (%v)", len(small), res, len(got), rerr)
		}
		os.Remove(src)
	})
	if r.ControlFailure == "" {
		cfStep(r, "control 2 (plain write/close)", func() {
			big := content(cs.Seed^0x52, 3*fuseQuota)
			p := filepath.Join(mnt, "ctl-big.bin")
			f, err := os.Create(p)
			if err != nil {
				r.ControlFailure = "control 2: create: " + err.Error()
				return
			}
			_, werr := f.Write(big)
			cerr := f.Close()
			if werr != nil {
				r.CtlWriteErr = werr.Error()
			}
			if cerr != nil {
				r.CtlCloseErr = cerr.Error()
			}
			r.CtlCloseENOSPC = errors.Is(cerr, syscall.ENOSPC)
			if fi, err := os.Stat(p); err == nil {
				r.CtlShortLen = fi.Size()
			}
			if werr != nil || !r.CtlCloseENOSPC || r.CtlShortLen != fuseQuota {
				r.ControlFailure = fmt.Sprintf("control 2: Write(%d bytes) = %v, Close = %v, file has %d bytes; wanted nil, ENOSPC, %d", len(big), werr, cerr, r.CtlShortLen, fuseQuota)
			}
		})
	}
	if r.ControlFailure == "" {
		cfStep(r, "control 3 (rename across)", func() {
			src := filepath.Join(sdir, "ctl-ren.bin")
			os.WriteFile(src, []byte("x"), 0o644)
			err := os.Rename(src, filepath.Join(mnt, "ctl-ren.bin"))
			r.RenameEXDEV = errors.Is(err, syscall.EXDEV)
			if !r.RenameEXDEV {
				r.ControlFailure = fmt.Sprintf("control 3: rename onto the mount = %v, wanted EXDEV", err)
			}
			os.Remove(src)
		})
	}
	if r.ControlFailure != "" {
		cfEmit(r)
		return
	}

	// ---- the call under test
	cfStep(r, "the call under test", func() {
		src, dst := filepath.Join(sdir, "src.bin"), filepath.Join(mnt, "dst.bin")
		if err := os.WriteFile(src, content(cs.Seed, cs.Size), 0o644); err != nil {
			r.ControlFailure = "layout: " + err.Error()
			return
		}
		if cs.Dst == "shorter" {
			n := cs.Size / 2
			if n > fuseQuota/2 {
				n = fuseQuota / 2
			}
			if err := os.WriteFile(dst, content(cs.Seed^0x5eed5eed, n), 0o644); err != nil {
				r.ControlFailure = "layout: " + err.Error()
				return
			}
		}
		limit := int64(cs.Size) + 1
		r.SrcPre, r.DstPre = takeSnap(src, limit), takeSnap(dst, limit)
		r.Res = call(cs.Op, src, dst)
		r.SrcPost, r.DstPost = takeSnap(src, limit), takeSnap(dst, limit)
		r.Ran = true
	})
	cfEmit(r)
}

// closeFailAbortMain: args = -c18fuseabort <workdir> <connection id>. Last resort of the parent
// when a killed child does not go away: aborts exactly that FUSE connection through fusectl,
// mounted inside the work dir in a private mount namespace.
func closeFailAbortMain() {
	if len(os.Args) != 4 {
		os.Exit(2)
	}
	ctl := filepath.Join(os.Args[2], "fusectl")
	os.MkdirAll(ctl, 0o755)
	if err := syscall.Mount("none", ctl, "fusectl", 0, ""); err != nil {
		fmt.Fprintln(os.Stderr, "mount fusectl:", err)
		os.Exit(1)
	}
	defer syscall.Unmount(ctl, syscall.MNT_DETACH)
	for _, p := range []string{filepath.Join(ctl, os.Args[3], "abort"), filepath.Join(ctl, "connections", os.Args[3], "abort")} {
		if err := os.WriteFile(p, []byte("1"), 0o200); err == nil {
			fmt.Println("aborted", p)
			return
		}
	}
	os.Exit(1)
}

// ---------------------------------------------------------------------------------------
// parent side

func isCloseFail(cs Case) bool { return cs.DstFS == "closefail" }

// closeFailWatchdog: 100 s; VERIF_C18_CLOSEFAIL_WATCHDOG=<seconds> shortens it for testing the clean-up path.
func closeFailWatchdog() time.Duration {
	if v := os.Getenv("VERIF_C18_CLOSEFAIL_WATCHDOG"); v != "" {
		if n, err := time.ParseDuration(v + "s"); err == nil && n > 0 {
			return n
		}
	}
	return 100 * time.Second
}

func closeFailCases() []Case {
	var out []Case
	for _, op := range []string{"copy", "move"} {
		for _, size := range []int{fuseQuota - 1, fuseQuota, fuseQuota + 1, 3 * fuseQuota, 1<<20 + 1} {
			for _, dst := range []string{"missing", "shorter"} {
				out = append(out, Case{Op: op, Size: size, SrcFS: "root", DstFS: "closefail", Src: "present", Dst: dst})
			}
		}
	}
	return out
}

// runCloseFail performs one case in a child with a private mount namespace and judges it.
func runCloseFail(cs Case, e *env, oc *outcome) (key, expected, observed string) {
	if stopping.Load() {
		select {}
	}
	self, err := os.Executable()
	if err != nil {
		oc.harness = "os.Executable: " + err.Error()
		return
	}
	work := filepath.Join(e.roots["root"], fmt.Sprintf("cf%d", e.seq.Add(1)))
	if err := os.MkdirAll(work, 0o755); err != nil {
		oc.harness = "layout: " + err.Error()
		return
	}
	defer os.RemoveAll(work) // the mount never existed in this namespace: an ordinary directory tree
	cj, _ := json.Marshal(cs)
	cmd := exec.Command(self, closeFailFlag, work, string(cj))
	var stdout, stderr bytes.Buffer
	cmd.Stdout, cmd.Stderr = &stdout, &stderr
	cmd.SysProcAttr = &syscall.SysProcAttr{Setpgid: true, Unshareflags: syscall.CLONE_NEWNS}
	cmd.Env = append(os.Environ(), "GOMAXPROCS=4", "GOTRACEBACK=all")
	if err := cmd.Start(); err != nil {
		// no permission to create a mount namespace: the family cannot run here
		oc.skipped = "closefail: cannot start a child in a private mount namespace: " + err.Error()
		return
	}
	pgid := cmd.Process.Pid
	probeMu.Lock()
	probePgids[pgid] = true
	probeMu.Unlock()
	defer func() {
		probeMu.Lock()
		delete(probePgids, pgid)
		probeMu.Unlock()
	}()
	done := make(chan error, 1)
	go func() { done <- cmd.Wait() }()
	timedOut, stuck := false, false
	connID := func() string {
		for _, ln := range strings.Split(stdout.String(), "\n") {
			if strings.HasPrefix(ln, "conn ") {
				var c struct {
					ID uint64 `json:"id"`
				}
				if json.Unmarshal([]byte(ln[5:]), &c) == nil {
					return fmt.Sprint(c.ID)
				}
			}
		}
		return ""
	}
	select {
	case <-done:
	case <-time.After(closeFailWatchdog()):
		timedOut = true
		// server and client die together; the server's death releases the fuse device, which
		// aborts the connection and wakes a client that is flushing an open file on its way out
		syscall.Kill(-pgid, syscall.SIGKILL)
		select {
		case <-done:
		case <-time.After(10 * time.Second):
			// last resort: abort exactly this connection through fusectl (private namespace again)
			if id := connID(); id != "" {
				ab := exec.Command(self, closeFailAbortFlag, work, id)
				ab.SysProcAttr = &syscall.SysProcAttr{Unshareflags: syscall.CLONE_NEWNS}
				ab.Run()
			}
			select {
			case <-done:
			case <-time.After(10 * time.Second):
				stuck = true
			}
		}
	}
	syscall.Kill(-pgid, syscall.SIGKILL)
	if stuck {
		oc.harness = "closefail child did not go away after SIGKILL and an abort of its fuse connection"
		return
	}
	if timedOut {
		oc.harness = "closefail child exceeded its watchdog and was killed"
		return
	}
	var r cfReport
	gotReport := false
	for _, ln := range strings.Split(stdout.String(), "\n") {
		switch {
		case strings.HasPrefix(ln, "report "):
			if json.Unmarshal([]byte(ln[7:]), &r) == nil {
				gotReport = true
			}
		case strings.HasPrefix(ln, "server "):
			var st map[string]int
			if json.Unmarshal([]byte(ln[7:]), &st) == nil {
				r.Flushes, r.FailedFlushes = st["flushes"], st["failed_flushes"]
			}
		}
	}
	if !gotReport {
		out := stdout.String() + stderr.String()
		if strings.Contains(out, "panic: ") || strings.Contains(out, "fatal error: ") {
			return cs.key("panic"), "no panic", "closefail child crashed: " + clipStr(out, 1500)
		}
		oc.harness = "closefail child gave no report: " + clipStr(out, 400)
		return
	}
	oc.cf = &r
	if r.Skipped != "" {
		oc.skipped = "closefail: " + r.Skipped
		return
	}
	if r.ControlFailure != "" || !r.Ran {
		oc.harness = "closefail controls: " + r.ControlFailure
		return
	}
	oc.ran = true
	oc.nilRet, oc.errText = r.Res.Nil, r.Res.Err
	return judge(cs, r.Res, r.SrcPre, r.DstPre, r.SrcPost, r.DstPost, oc)
}
