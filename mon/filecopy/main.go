// Monitor filecopy (C18): osutil.CopyFile / osutil.MoveFile never lose file content.
//
// Oracle: a content snapshot (SHA-256 + length) of the source – and, for the record, of the
// destination – is taken before the call and compared after it, on the real kernel: work
// directories live under a fresh temp dir on the root file system and under /dev/shm (tmpfs,
// another device, so rename really fails with EXDEV). Failing steps *inside* the copy are
// produced by the kernel itself (RLIMIT_FSIZE in a probe process) and by strace syscall tampering
// around a probe sub-mode of this binary (probe.go). See DESIGN.md §3 C18.
package main

import (
	"crypto/sha256"
	"encoding/hex"
	"encoding/json"
	"errors"
	"fmt"
	"io"
	"math/rand"
	"os"
	"os/signal"
	"path/filepath"
	"runtime"
	"strconv"
	"strings"
	"sync"
	"sync/atomic"
	"syscall"
	"time"

	"verif/internal/drv"
)

// Fault describes a failing step injected into one call (always executed in a probe process).
type Fault struct {
	Rlimit    *int64   `json:"rlimit_fsize,omitempty"` // RLIMIT_FSIZE of the probe process: the kernel fails the copy with EFBIG after that many bytes
	RenameErr string   `json:"rename_error,omitempty"` // strace: every rename/renameat/renameat2 fails with this errno (EXDEV forces the copy fallback on one FS)
	Inject    []string `json:"inject,omitempty"`       // strace -e inject= expressions, e.g. "copy_file_range:error=ENOSPC:when=1"
	PathOnly  string   `json:"path_only,omitempty"`    // "src" | "dst" | "both": strace -P, only syscalls touching that path are traced and tampered with

	enumerate bool // not a fault: trace every syscall of sweepSyscalls (used to list the injection points)
}

func (f *Fault) needsStrace() bool {
	return f != nil && (f.RenameErr != "" || len(f.Inject) > 0 || f.enumerate)
}

func (f *Fault) String() string {
	if f == nil {
		return "nofault"
	}
	var p []string
	if f.Rlimit != nil {
		p = append(p, "rlimit_fsize="+strconv.FormatInt(*f.Rlimit, 10))
	}
	if f.RenameErr != "" {
		p = append(p, "rename="+f.RenameErr)
	}
	p = append(p, f.Inject...)
	if f.PathOnly != "" {
		p = append(p, "P="+f.PathOnly)
	}
	return strings.Join(p, "+")
}

// keyString is String without the concrete rlimit value (it depends on the size).
func (f *Fault) keyString() string {
	if f != nil && f.Rlimit != nil {
		g := *f
		g.Rlimit = nil
		s := "rlimit_fsize"
		if *f.Rlimit == 0 {
			s += "=0"
		} else {
			s += "=partial"
		}
		if r := g.String(); r != "" {
			s += "+" + r
		}
		return s
	}
	return f.String()
}

// Case is one replayable call.
type Case struct {
	Op    string `json:"op"`     // "copy" | "move"
	Size  int    `json:"size"`   // bytes in the source
	SrcFS string `json:"src_fs"` // "root" | "shm"
	DstFS string `json:"dst_fs"`
	Src   string `json:"src"` // "present" | "missing" | "symlink" (srcPath is a symlink to the regular file)
	Dst   string `json:"dst"` // see dstKinds / aliasKinds
	// Rel, when set, makes the two file names related (both files in one directory when the
	// file systems are equal): "<side>:<form>:<suffix>", side "src" = the source is named after
	// the destination, "dst" = the destination is named after the source; form "plain" =
	// name+suffix, "hidden" = "."+name+suffix. E.g. "src:plain:.tmp" is CopyFile("data.bin.tmp", "data.bin").
	Rel string `json:"rel,omitempty"`
	// Name: style of both base names ("" | "space" | "unicode" | "newline" | "long" | "dash" | "meta").
	Name string `json:"name,omitempty"`
	// Spell: how the path handed to glb is spelled ("" | "dst-slash" | "dst-dotdot" | "dst-dslash" |
	// "dst-dot" | "src-slash" | "src-dotdot" | "src-dslash" | "both-dotdot"); observed through the plain path.
	Spell string `json:"spell,omitempty"`
	// Conc > 0: Conc goroutines perform Rounds calls each at the same time, on distinct files
	// that share one source and one destination directory (see runConcurrent).
	Conc   int    `json:"conc,omitempty"`
	Rounds int    `json:"rounds,omitempty"`
	Fault  *Fault `json:"fault,omitempty"`
	Seed   int64  `json:"seed"` // content seed
}

// suffixes a careless implementation might use for a temporary / backup sibling
var relSuffixes = []string{".tmp", "~", ".bak", ".new", ".part", ".swp", ".old", ".0", ".lock", ".temp", ".orig", ".1", "-tmp", ".copy"}

func relKinds() []string {
	var out []string
	for _, side := range []string{"src", "dst"} {
		for _, form := range []string{"plain", "hidden"} {
			for _, suf := range relSuffixes {
				out = append(out, side+":"+form+":"+suf)
			}
		}
	}
	return out
}

// relNames returns the base names of source and destination for a name relation.
func relNames(rel string) (src, dst string, ok bool) {
	p := strings.SplitN(rel, ":", 3)
	if len(p) != 3 || p[2] == "" {
		return "", "", false
	}
	const base = "data.bin"
	derived := base + p[2]
	switch p[1] {
	case "plain":
	case "hidden":
		derived = "." + derived
	default:
		return "", "", false
	}
	switch p[0] {
	case "src":
		return derived, base, true
	case "dst":
		return base, derived, true
	}
	return "", "", false
}

var sizesQuick = []int{0, 1, 4095, 4096, 4097, 1 << 20}
var sizesThorough = []int{0, 1, 4095, 4096, 4097, 32768, 32769, 1 << 20, 5 << 20} // 32 KiB: buffer of Go's read/write fallback

var dstKinds = []string{"missing", "shorter", "longer", "dir", "parent-missing", "parent-file", "symlink-other", "dangling-symlink"}

// destinations that are the source itself under another name
var aliasKinds = []string{"alias-same", "alias-dot", "alias-dotdot", "alias-symlink", "alias-relsymlink", "alias-hardlink", "alias-chain", "alias-dirsymlink"}

func isAlias(d string) bool { return strings.HasPrefix(d, "alias-") }

// source paths that are another name of the real file, and destinations naming that real file
var srcAliasKinds = []string{"symlink", "symlink-chain", "symlink-chain3", "dot", "hardlink"}
var realAliasKinds = []string{"alias-real", "alias-real-symlink", "alias-real-hardlink"}

// destinations that are an INTERMEDIATE link of the source's own symlink chain
// (source -> l1 [-> l2] -> file), or a symlink that points into that chain from outside.
// Renaming the source link onto l1 would leave l1 pointing to itself.
var midAliasKinds = []string{"alias-mid-link1", "alias-mid-link2", "alias-into-chain"}

func isRealAlias(d string) bool { return strings.HasPrefix(d, "alias-real") }

func isMidAlias(d string) bool {
	return strings.HasPrefix(d, "alias-mid-") || d == "alias-into-chain"
}

// moveOntoOwnTarget: MoveFile(symlink, the file the symlink points to) on one file system.
// rename(2) replaces the file by the link, which then points to itself: the content is gone and
// MoveFile returned nil (genuine defect, repaired in /repo; see DESIGN.md §2). "MoveFile gives the
// same guarantee for the destination", so these calls are judged like all others.
func moveOntoOwnTarget(cs Case) bool {
	return cs.Op == "move" && cs.SrcFS == cs.DstFS && cs.Dst == "alias-real" && (cs.Src == "symlink" || cs.Src == "symlink-chain") &&
		(cs.Fault == nil || cs.Fault.RenameErr == "")
}

// judged like every other call since glb fix "MoveFile refuses to move a symbolic link onto its own target"
var judgeMoveOntoTarget = true

func applicable(cs Case) bool {
	if isCloseFail(cs) {
		return cs.SrcFS == "root" && cs.Src == "present" && (cs.Dst == "missing" || cs.Dst == "shorter") &&
			cs.Fault == nil && cs.Rel == "" && cs.Name == "" && cs.Spell == "" && cs.Conc == 0 && (cs.Op == "copy" || cs.Op == "move")
	}
	same := cs.SrcFS == cs.DstFS
	if cs.Rel != "" {
		if _, _, ok := relNames(cs.Rel); !ok {
			return false
		}
		return cs.Name == "" && cs.Spell == "" && cs.Conc == 0 && cs.Src == "present" && (cs.Dst == "missing" || cs.Dst == "shorter" || cs.Dst == "longer")
	}
	if cs.Spell != "" && (isAlias(cs.Dst) || cs.Rel != "") {
		return false
	}
	if cs.Conc > 0 {
		return cs.Src == "present" && (cs.Dst == "missing" || cs.Dst == "longer") && cs.Fault == nil && cs.Spell == "" && cs.Rel == ""
	}
	if isRealAlias(cs.Dst) {
		// source-side aliasing: the source PATH is another name of the file, the destination is
		// the file itself (or a further name of it)
		switch cs.Src {
		case "symlink", "symlink-chain", "symlink-chain3":
			return true
		case "dot", "hardlink":
			return same
		}
		return false
	}
	if isMidAlias(cs.Dst) {
		switch cs.Src {
		case "symlink-chain":
			return cs.Dst != "alias-mid-link2"
		case "symlink-chain3":
			return true
		}
		return false
	}
	switch cs.Dst {
	case "alias-same", "alias-dot", "alias-dotdot", "alias-hardlink", "alias-relsymlink", "alias-hardlink-chain":
		return same && cs.Src == "present"
	case "alias-symlink", "alias-chain", "alias-dirsymlink", "alias-chain-xfs":
		return cs.Src == "present"
	case "devfull":
		// /dev/full (or any path outside the work dirs) is never handed to the code under test:
		// the monitor runs as root, and an implementation that replaces its destination by
		// rename - as a seeded variant of CopyFile did - replaces the device node.
		return false
	}
	return true
}

func (cs Case) id() string {
	return fmt.Sprintf("%s size=%d %s(%s)->%s(%s)%s %s", cs.Op, cs.Size, cs.Src, cs.SrcFS, cs.Dst, cs.DstFS, cs.relTag(), cs.Fault.String())
}

func (cs Case) relTag() string {
	t := ""
	if cs.Rel != "" {
		t += "[" + cs.Rel + "]"
	}
	if cs.Name != "" {
		t += "[name=" + cs.Name + "]"
	}
	if cs.Spell != "" {
		t += "[spell=" + cs.Spell + "]"
	}
	if cs.Conc > 0 {
		t += fmt.Sprintf("[conc=%dx%d]", cs.Conc, cs.Rounds)
	}
	return t
}

func (cs Case) fsRel() string {
	if isCloseFail(cs) {
		return "closefail"
	}
	if cs.SrcFS == cs.DstFS {
		return "samefs"
	}
	return "xfs"
}

func (cs Case) key(failure string) string {
	if isCloseFail(cs) {
		return fmt.Sprintf("%s:%s->%s:closefail:size=%d:%s", cs.Op, cs.Src, cs.Dst, cs.Size, failure)
	}
	return fmt.Sprintf("%s:%s->%s%s:%s:%s:%s", cs.Op, cs.Src, cs.Dst, cs.relTag(), cs.fsRel(), cs.Fault.keyString(), failure)
}

// ---------------------------------------------------------------------------------------
// environment: temp dirs, clean-up on every path

const dirPrefix = "verif-c18-"

type env struct {
	roots   map[string]string // "root"/"shm" → base dir
	scratch string            // trace files
	seq     atomic.Int64
	shmNote string
}

var (
	liveMu   sync.Mutex
	liveDirs = map[string]bool{}
)

func trackDir(d string) {
	liveMu.Lock()
	liveDirs[d] = true
	liveMu.Unlock()
}

func cleanupAll() {
	liveMu.Lock()
	defer liveMu.Unlock()
	for d := range liveDirs {
		os.RemoveAll(d)
		if _, err := os.Lstat(d); err != nil && !stopping.Load() {
			delete(liveDirs, d)
		}
	}
}

var stopping atomic.Bool

// sweepStale removes work dirs of earlier monitor processes that were killed (the owning pid
// is part of the name and no longer exists).
func sweepStale() {
	for _, base := range []string{"/tmp", "/dev/shm", os.TempDir()} {
		ents, err := os.ReadDir(base)
		if err != nil {
			continue
		}
		for _, e := range ents {
			n := e.Name()
			if !strings.HasPrefix(n, dirPrefix) {
				continue
			}
			rest := strings.TrimPrefix(n, dirPrefix)
			i := strings.IndexByte(rest, '-')
			if i < 0 {
				continue
			}
			pid, err := strconv.Atoi(rest[:i])
			if err != nil || pid == os.Getpid() {
				continue
			}
			if err := syscall.Kill(pid, 0); err == syscall.ESRCH {
				os.RemoveAll(filepath.Join(base, n))
			}
		}
	}
}

func devOf(p string) (uint64, bool) {
	var st syscall.Stat_t
	if err := syscall.Stat(p, &st); err != nil {
		return 0, false
	}
	return uint64(st.Dev), true
}

func newEnv() (*env, error) {
	sweepStale()
	e := &env{roots: map[string]string{}}
	tmp := "/tmp"
	if fi, err := os.Stat(tmp); err != nil || !fi.IsDir() {
		tmp = os.TempDir()
	}
	pat := fmt.Sprintf("%s%d-", dirPrefix, os.Getpid())
	d, err := os.MkdirTemp(tmp, pat)
	if err != nil {
		return nil, err
	}
	trackDir(d)
	e.roots["root"] = d
	e.scratch = filepath.Join(d, "scratch")
	os.MkdirAll(e.scratch, 0o755)
	if s, err := os.MkdirTemp("/dev/shm", pat); err != nil {
		e.shmNote = "/dev/shm unusable (" + err.Error() + "): rows with a second file system skipped"
	} else {
		trackDir(s)
		d1, ok1 := devOf(d)
		d2, ok2 := devOf(s)
		if !ok1 || !ok2 || d1 == d2 {
			os.RemoveAll(s)
			e.shmNote = "/dev/shm is on the same device as " + tmp + ": rows with a second file system skipped"
		} else {
			e.roots["shm"] = s
		}
	}
	return e, nil
}

func (e *env) close() { cleanupAll() }

// installSignalCleanup removes the work dirs when the shard is told to stop (the driver's
// watchdog sends SIGQUIT: dump the goroutines as the runtime would, then clean up).
func installSignalCleanup() {
	ch := make(chan os.Signal, 2)
	signal.Notify(ch, syscall.SIGTERM, syscall.SIGINT, syscall.SIGHUP, syscall.SIGQUIT)
	go func() {
		s := <-ch
		if s == syscall.SIGQUIT {
			buf := make([]byte, 1<<20)
			n := runtime.Stack(buf, true)
			os.Stderr.Write(buf[:n])
		}
		stopping.Store(true) // the main goroutine creates no further files
		for i := 0; i < 4; i++ {
			killLiveProbes()
			cleanupAll()
			time.Sleep(30 * time.Millisecond) // a case in flight may still have written
		}
		os.Exit(2)
	}()
}

var (
	probeMu    sync.Mutex
	probePgids = map[int]bool{}
)

func killLiveProbes() {
	probeMu.Lock()
	defer probeMu.Unlock()
	for p := range probePgids {
		syscall.Kill(-p, syscall.SIGKILL)
	}
}

// ---------------------------------------------------------------------------------------
// layout and snapshots

func content(seed int64, n int) []byte {
	b := make([]byte, n)
	rand.New(rand.NewSource(seed)).Read(b)
	return b
}

type snap struct {
	Kind string // "missing" | "file" | "dir" | "chardev" | "other" | "unreadable"
	Len  int64
	Sha  string
	Err  string
}

func (s snap) String() string {
	switch s.Kind {
	case "file", "chardev":
		return fmt.Sprintf("%s len=%d sha256=%s", s.Kind, s.Len, s.Sha[:16])
	case "unreadable":
		return "unreadable: " + s.Err
	}
	return s.Kind
}

func (s snap) sameContent(t snap) bool {
	return s.Kind == "file" && t.Kind == "file" && s.Len == t.Len && s.Sha == t.Sha
}

// takeSnap reads what path holds now (following symbolic links, like a reader would).
// limit bounds the read for character devices.
func takeSnap(path string, limit int64) snap {
	fi, err := os.Stat(path)
	if err != nil {
		if os.IsNotExist(err) || errors.Is(err, syscall.ENOTDIR) {
			return snap{Kind: "missing"}
		}
		return snap{Kind: "unreadable", Err: err.Error()}
	}
	kind := "other"
	switch {
	case fi.Mode().IsRegular():
		kind = "file"
	case fi.IsDir():
		return snap{Kind: "dir"}
	case fi.Mode()&os.ModeCharDevice != 0:
		kind = "chardev"
	default:
		return snap{Kind: "other"}
	}
	f, err := os.Open(path)
	if err != nil {
		return snap{Kind: "unreadable", Err: err.Error()}
	}
	defer f.Close()
	h := sha256.New()
	var r io.Reader = f
	if kind == "chardev" {
		r = io.LimitReader(f, limit)
	}
	n, err := io.Copy(h, r)
	if err != nil {
		return snap{Kind: "unreadable", Err: err.Error()}
	}
	return snap{Kind: kind, Len: n, Sha: hex.EncodeToString(h.Sum(nil))}
}

type layout struct {
	src, dst string // handed to glb
	// srcObs, dstObs: the same files under their plain spelling, used for the snapshots
	srcObs, dstObs string
	dirs           []string
	allowNew       []string // paths a successful call may legitimately create besides dst
}

// listing returns every path below the case directories.
func (l *layout) listing() map[string]bool {
	out := map[string]bool{}
	for _, d := range l.dirs {
		filepath.Walk(d, func(p string, _ os.FileInfo, err error) error {
			if err == nil {
				out[p] = true
			}
			return nil
		})
	}
	return out
}

func (l *layout) remove() {
	for _, d := range l.dirs {
		os.RemoveAll(d)
	}
}

// build creates the files of one case and returns the two paths handed to glb.
func (e *env) build(cs Case) (*layout, error) {
	if stopping.Load() {
		select {} // the signal handler is removing the work dirs and exits
	}
	n := e.seq.Add(1)
	l := &layout{}
	sroot, ok1 := e.roots[cs.SrcFS]
	droot, ok2 := e.roots[cs.DstFS]
	if !ok1 || !ok2 {
		return nil, errNoFS
	}
	cdS := filepath.Join(sroot, fmt.Sprintf("c%d", n))
	cdD := filepath.Join(droot, fmt.Sprintf("c%d", n))
	l.dirs = []string{cdS}
	if cdD != cdS {
		l.dirs = append(l.dirs, cdD)
	}
	sdir := filepath.Join(cdS, "s")
	ddir := filepath.Join(cdD, "d")
	var firstErr error
	must := func(err error) {
		if err != nil && firstErr == nil {
			firstErr = err
		}
	}
	must(os.MkdirAll(sdir, 0o755))
	must(os.MkdirAll(ddir, 0o755))
	var data []byte
	if cs.Src != "sparse" {
		data = content(cs.Seed, cs.Size)
	}
	srcName, dstName := styled("src.bin", cs.Name), styled("dst.bin", cs.Name)
	l.src = filepath.Join(sdir, srcName)
	// a directory on the file system the destination is NOT on (symlinks across file systems)
	otherDir := func() (string, bool) {
		o := "root"
		if cs.DstFS == "root" {
			o = "shm"
		}
		r, ok := e.roots[o]
		if !ok {
			return "", false
		}
		d := filepath.Join(r, fmt.Sprintf("c%d", n))
		if d != cdS && d != cdD {
			l.dirs = append(l.dirs, d)
		}
		d = filepath.Join(d, "o")
		must(os.MkdirAll(d, 0o755))
		return d, true
	}
	if cs.Rel != "" {
		sn, dn, ok := relNames(cs.Rel)
		if !ok {
			return l, fmt.Errorf("bad name relation %q", cs.Rel)
		}
		l.src, dstName = filepath.Join(sdir, sn), dn
		if cs.SrcFS == cs.DstFS {
			ddir = sdir // related names in one directory
		}
	}
	real := l.src
	// with a destination that names the real file and two file systems, the real file lives on
	// the destination's file system and the source path is a symlink across
	realDir := sdir
	if (isRealAlias(cs.Dst) || isMidAlias(cs.Dst)) && cs.SrcFS != cs.DstFS {
		realDir = ddir
	}
	// the intermediate links of a chain live next to the source link, except when the
	// destination IS such a link and sits on the other file system
	linkDir := sdir
	if isMidAlias(cs.Dst) && cs.SrcFS != cs.DstFS {
		linkDir = ddir
	}
	switch cs.Src {
	case "present":
		must(os.WriteFile(l.src, data, 0o644))
	case "zeros", "zerotail", "zerohead":
		// content with long runs of zero bytes, really written (no holes): all of it, its last 64 KiB
		// blocks, or its first ones - what a disk image, a preallocated file or a tar padding looks like
		z := len(data)
		switch cs.Src {
		case "zerotail":
			z = min(len(data), max(1<<16, len(data)/2))
		case "zerohead":
			z = -min(len(data), max(1<<16, len(data)/2))
		}
		if z >= 0 {
			clear(data[len(data)-z:])
		} else {
			clear(data[:-z])
		}
		must(os.WriteFile(l.src, data, 0o644))
	case "missing":
	case "symlink":
		real = filepath.Join(realDir, "real.bin")
		must(os.WriteFile(real, data, 0o644))
		must(os.Symlink(real, l.src))
	case "symlink-chain": // srcPath -> l1 -> real file
		real = filepath.Join(realDir, "real.bin")
		must(os.WriteFile(real, data, 0o644))
		must(os.Symlink(real, filepath.Join(linkDir, "l1")))
		must(os.Symlink(filepath.Join(linkDir, "l1"), l.src)) // absolute: a moved relative link would dangle by itself
	case "symlink-chain3": // srcPath -> l1 -> l2 -> real file, all links absolute
		real = filepath.Join(realDir, "real.bin")
		must(os.WriteFile(real, data, 0o644))
		must(os.Symlink(real, filepath.Join(linkDir, "l2")))
		must(os.Symlink(filepath.Join(linkDir, "l2"), filepath.Join(linkDir, "l1")))
		must(os.Symlink(filepath.Join(linkDir, "l1"), l.src))
	case "dot": // srcPath is a ./-spelling of the real file
		real = filepath.Join(sdir, "real.bin")
		must(os.WriteFile(real, data, 0o644))
		l.src = sdir + "/./real.bin"
	case "hardlink": // srcPath is a hard link of the real file
		real = filepath.Join(sdir, "real.bin")
		must(os.WriteFile(real, data, 0o644))
		must(os.Link(real, l.src))
	case "sparse":
		must(writeSparse(l.src, cs.Seed, cs.Size))
	case "hardlinked": // the source has a second name
		must(os.WriteFile(l.src, data, 0o644))
		must(os.Link(l.src, filepath.Join(sdir, "second-name.bin")))
	case "symlink-xfs": // srcPath is a symlink whose file lives on the other file system
		od, ok := otherDir()
		if !ok {
			return l, errNoFS
		}
		real = filepath.Join(od, "real.bin")
		must(os.WriteFile(real, data, 0o644))
		must(os.Symlink(real, l.src))
	default:
		return l, fmt.Errorf("unknown source kind %q", cs.Src)
	}
	l.dst = filepath.Join(ddir, dstName)
	other := func(n int) []byte { return content(cs.Seed^0x5eed5eed, n) }
	switch cs.Dst {
	case "missing":
	case "shorter":
		must(os.WriteFile(l.dst, other(cs.Size/2), 0o644))
	case "longer":
		must(os.WriteFile(l.dst, other(cs.Size+1000), 0o644))
	case "dir":
		must(os.Mkdir(l.dst, 0o755))
	case "parent-missing":
		l.dst = filepath.Join(ddir, "nodir", dstName)
	case "parent-file":
		must(os.WriteFile(filepath.Join(ddir, "afile"), other(10), 0o644))
		l.dst = filepath.Join(ddir, "afile", dstName)
	case "symlink-other":
		o := filepath.Join(ddir, "other.bin")
		must(os.WriteFile(o, other(cs.Size+1000), 0o644))
		must(os.Symlink(o, l.dst))
	case "dangling-symlink":
		must(os.Symlink(filepath.Join(ddir, "nothing.bin"), l.dst))
		l.allowNew = append(l.allowNew, filepath.Join(ddir, "nothing.bin"))
	case "equal": // same length, other content
		must(os.WriteFile(l.dst, other(cs.Size), 0o644))
	case "same-content": // another file that already holds the same bytes
		if cs.Src == "sparse" {
			must(writeSparse(l.dst, cs.Seed, cs.Size))
		} else {
			must(os.WriteFile(l.dst, data, 0o644))
		}
	case "readonly":
		must(os.WriteFile(l.dst, other(cs.Size+1000), 0o444))
	case "dir-nonempty":
		must(os.Mkdir(l.dst, 0o755))
		must(os.WriteFile(filepath.Join(l.dst, "inside"), other(10), 0o644))
	case "symlink-dir":
		must(os.Mkdir(filepath.Join(ddir, "adir"), 0o755))
		must(os.Symlink(filepath.Join(ddir, "adir"), l.dst))
	case "symlink-loop":
		must(os.Symlink(l.dst, l.dst))
	case "symlink-chain-other":
		o := filepath.Join(ddir, "other.bin")
		must(os.WriteFile(o, other(cs.Size+1000), 0o644))
		must(os.Mkdir(filepath.Join(ddir, "sub"), 0o755))
		must(os.Symlink(o, filepath.Join(ddir, "sub", "l3")))
		must(os.Symlink("sub/l3", filepath.Join(ddir, "l2")))
		must(os.Symlink(filepath.Join(ddir, "l2"), l.dst))
	case "symlink-xfs-other": // destination is a symlink to a file on the other file system
		od, ok := otherDir()
		if !ok {
			return l, errNoFS
		}
		o := filepath.Join(od, "other.bin")
		must(os.WriteFile(o, other(cs.Size+1000), 0o644))
		must(os.Symlink(o, l.dst))
	case "symlink-xfs-dangling":
		od, ok := otherDir()
		if !ok {
			return l, errNoFS
		}
		must(os.Symlink(filepath.Join(od, "nothing.bin"), l.dst))
		l.allowNew = append(l.allowNew, filepath.Join(od, "nothing.bin"))
	case "alias-hardlink-chain": // symlink -> hard link (in a nested directory) of the source
		must(os.MkdirAll(filepath.Join(ddir, "x", "y"), 0o755))
		hl := filepath.Join(ddir, "x", "y", "hl.bin")
		must(os.Link(l.src, hl))
		must(os.Symlink("x/y/hl.bin", l.dst))
	case "alias-chain-xfs": // symlink -> symlink on the other file system -> source
		od, ok := otherDir()
		if !ok {
			return l, errNoFS
		}
		must(os.Symlink(l.src, filepath.Join(od, "hop")))
		must(os.Symlink(filepath.Join(od, "hop"), l.dst))
	case "alias-mid-link1": // the first link the source link points to
		l.dst = filepath.Join(linkDir, "l1")
	case "alias-mid-link2":
		l.dst = filepath.Join(linkDir, "l2")
	case "alias-into-chain": // a symlink from outside onto the first intermediate link
		must(os.Symlink(filepath.Join(linkDir, "l1"), l.dst))
	case "alias-real": // the file the source path is another name of
		l.dst = real
	case "alias-real-symlink":
		must(os.Symlink(real, l.dst))
	case "alias-real-hardlink":
		must(os.Link(real, l.dst))
	case "alias-same":
		l.dst = l.src
	case "alias-dot":
		l.dst = sdir + "/./" + srcName
	case "alias-dotdot":
		must(os.Mkdir(filepath.Join(sdir, "sub"), 0o755))
		l.dst = sdir + "/sub/../" + srcName
	case "alias-symlink":
		must(os.Symlink(l.src, l.dst))
	case "alias-relsymlink":
		must(os.Symlink("../s/"+srcName, l.dst))
	case "alias-hardlink":
		must(os.Link(l.src, l.dst))
	case "alias-chain":
		l2, l3 := filepath.Join(ddir, "l2"), filepath.Join(sdir, "l3")
		must(os.Symlink(l.src, l3))
		must(os.Symlink(l3, l2))
		must(os.Symlink("l2", l.dst))
	case "alias-dirsymlink":
		must(os.Symlink(sdir, filepath.Join(ddir, "sl")))
		l.dst = filepath.Join(ddir, "sl", srcName)
	default:
		return l, fmt.Errorf("unknown destination kind %q", cs.Dst)
	}
	l.srcObs, l.dstObs = l.src, l.dst
	respell := func(p, how string) string {
		dir, base := filepath.Dir(p), filepath.Base(p)
		switch how {
		case "slash":
			return p + "/"
		case "dotdot":
			return filepath.Dir(dir) + "/" + filepath.Base(dir) + "/../" + filepath.Base(dir) + "/" + base
		case "dslash":
			return dir + "//" + base
		case "dot":
			return dir + "/./" + base
		case "linkdotdot":
			// through a directory symlink and back up: other/link -> dir/zsub, so that other/link/../base
			// is dir/base for the kernel (and other/base for anyone who cleans the path lexically)
			other := filepath.Join(filepath.Dir(dir), "zother-"+filepath.Base(dir))
			must(os.MkdirAll(filepath.Join(dir, "zsub"), 0o755))
			must(os.MkdirAll(other, 0o755))
			lk := filepath.Join(other, "link")
			os.Remove(lk)
			must(os.Symlink(filepath.Join(dir, "zsub"), lk))
			os.WriteFile(filepath.Join(other, base), []byte("the wrong file: other/"+base), 0o644)
			return lk + "/../" + base
		}
		return p
	}
	switch {
	case cs.Spell == "":
	case strings.HasPrefix(cs.Spell, "dst-"):
		l.dst = respell(l.dst, cs.Spell[4:])
	case strings.HasPrefix(cs.Spell, "src-"):
		l.src = respell(l.src, cs.Spell[4:])
	case strings.HasPrefix(cs.Spell, "both-"):
		l.src, l.dst = respell(l.src, cs.Spell[5:]), respell(l.dst, cs.Spell[5:])
	default:
		return l, fmt.Errorf("unknown spelling %q", cs.Spell)
	}
	return l, firstErr
}

// styled gives a base name an awkward but legal form.
func styled(name, style string) string {
	switch style {
	case "space":
		return " sp ace  " + name + " "
	case "unicode":
		return "ünï✓文件‮-" + name
	case "newline":
		return "nl\nx\ty-" + name
	case "long":
		return strings.Repeat("L", 250-len(name)) + name
	case "dash":
		return "--" + name
	case "meta":
		return "*?[x]$(echo)`'\"&;|<>" + name
	}
	return name
}

// writeSparse creates a file of the given size that is mostly holes.
func writeSparse(path string, seed int64, size int) error {
	f, err := os.Create(path)
	if err != nil {
		return err
	}
	defer f.Close()
	if err := f.Truncate(int64(size)); err != nil {
		return err
	}
	r := rand.New(rand.NewSource(seed))
	for i := 0; i < 5 && size > 0; i++ {
		off := r.Intn(size)
		n := 1 + r.Intn(3000)
		if off+n > size {
			n = size - off
		}
		b := make([]byte, n)
		r.Read(b)
		if _, err := f.WriteAt(b, int64(off)); err != nil {
			return err
		}
	}
	if size > 0 { // last byte is data, so the length is not carried by a hole alone in every case
		if seed%2 == 0 {
			if _, err := f.WriteAt([]byte{0xA5}, int64(size-1)); err != nil {
				return err
			}
		}
	}
	return f.Close()
}

var errNoFS = fmt.Errorf("file system of the case is not available")

// ---------------------------------------------------------------------------------------
// one case

type outcome struct {
	ran        bool
	nilRet     bool
	errText    string
	dstTouched bool // destination differs from its state before the call although an error was returned
	srcGone    bool
	extraFiles []string // after a nil return: paths that exist now, did not before, and are not the destination (metric only)
	hits       []string
	renameHits int
	harness    string // the check (not glb) failed on this case
	skipped    string
	cf         *cfReport // closefail family: what the child reported
	outside    string    // a refuting observation outside the stated quantifier (reported, not judged)
	// concurrent cases
	concCalls, concMax, concOverlap int64
}

// runCase builds the layout, snapshots, performs the call (in process, or in a probe process
// when a fault is injected), snapshots again and judges.
func runCase(cs Case, e *env, oc *outcome) (key, expected, observed string) {
	if !applicable(cs) {
		oc.skipped = "not applicable"
		return
	}
	if cs.Conc > 0 {
		return runConcurrent(cs, e, oc)
	}
	if isCloseFail(cs) {
		return runCloseFail(cs, e, oc)
	}
	l, err := e.build(cs)
	if l != nil {
		defer l.remove()
	}
	if err == errNoFS {
		oc.skipped = "no second file system"
		return
	}
	if err != nil {
		oc.harness = "layout: " + err.Error()
		return
	}
	limit := int64(cs.Size) + 1
	srcPre := takeSnap(l.srcObs, limit)
	dstPre := takeSnap(l.dstObs, limit)
	if (cs.Src == "missing") != (srcPre.Kind == "missing") || (cs.Src != "missing" && srcPre.Len != int64(cs.Size)) {
		oc.harness = "layout: source snapshot is " + srcPre.String()
		return
	}
	if isAlias(cs.Dst) && !dstPre.sameContent(srcPre) {
		oc.harness = "layout: alias destination does not read as the source: " + dstPre.String()
		return
	}

	before := l.listing()
	var res ProbeResult
	if cs.Fault == nil {
		res = call(cs.Op, l.src, l.dst)
	} else {
		pr := runProbe(cs.Op, l.src, l.dst, cs.Fault, e.scratch)
		if pr.harness != "" {
			oc.harness = pr.harness
			return
		}
		res, oc.hits, oc.renameHits = pr.res, pr.hits, pr.renameHits
	}
	oc.ran = true
	oc.nilRet, oc.errText = res.Nil, res.Err

	srcPost := takeSnap(l.srcObs, limit)
	dstPost := takeSnap(l.dstObs, limit)
	if res.Nil {
		allowed := map[string]bool{l.dst: true, filepath.Clean(l.dstObs): true}
		for _, a := range l.allowNew {
			allowed[a] = true
		}
		for p := range l.listing() {
			if !before[p] && !allowed[p] {
				oc.extraFiles = append(oc.extraFiles, filepath.Base(p))
			}
		}
	}
	key, expected, observed = judge(cs, res, srcPre, dstPre, srcPost, dstPost, oc)
	if key != "" && moveOntoOwnTarget(cs) && !judgeMoveOntoTarget {
		oc.outside = key + ": " + observed
		return "", "", ""
	}
	return key, expected, observed
}

// judge applies the oracle to one call: snapshots before, result, snapshots after.
func judge(cs Case, res ProbeResult, srcPre, dstPre, srcPost, dstPost snap, oc *outcome) (key, expected, observed string) {
	oc.srcGone = srcPost.Kind == "missing"
	state := fmt.Sprintf("before: source %s, destination %s; after: source %s, destination %s", srcPre, dstPre, srcPost, dstPost)

	if res.Panic != "" {
		return cs.key("panic"), "no panic", "panic: " + res.Panic + "; " + state
	}
	what := "CopyFile"
	if cs.Op == "move" {
		what = "MoveFile"
	}
	if res.Nil {
		if srcPre.Kind == "missing" {
			return cs.key("nil-with-missing-source"), what + " of a missing source returns an error", "returned nil; " + state
		}
		dstOK, srcOK := dstPost.sameContent(srcPre), srcPost.sameContent(srcPre)
		if cs.Op == "copy" && !srcOK {
			return cs.key("nil-source-content-lost"), "after a nil return of CopyFile the source still holds its bytes (" + srcPre.String() + ") and so does the destination",
				"returned nil; " + state
		}
		if !dstOK && cs.Op == "move" && !srcOK {
			return cs.key("nil-content-lost"), "after a nil return of MoveFile the destination holds exactly the bytes the source held before the call (" + srcPre.String() + "); the source is removed only after the destination is complete",
				"returned nil, neither path holds the content any more; " + state
		}
		if !dstOK {
			return cs.key("nil-dest-mismatch"), "after a nil return the destination holds exactly the bytes the source held before the call (" + srcPre.String() + ")",
				"returned nil; " + state
		}
		if cs.Op == "move" && !isAlias(cs.Dst) && srcPost.Kind != "missing" {
			// (a destination that is another name of the source file is left out: rename(2) of two
			// hard links of one file is a successful no-op)
			return cs.key("nil-source-not-removed"), "after a nil return of MoveFile the destination holds the bytes and the source path is gone (MoveFile removes the source once the destination is complete)",
				"returned nil, the source is still there; " + state
		}
		return
	}
	// error return: only the source is protected
	if srcPre.Kind != "missing" {
		if srcPost.Kind == "missing" {
			return cs.key("err-source-gone"), "after an error return the source is still there with its content (" + srcPre.String() + ")",
				"returned error " + strconv.Quote(res.Err) + "; " + state
		}
		if !srcPost.sameContent(srcPre) {
			return cs.key("err-source-changed"), "after an error return the source's content is intact (" + srcPre.String() + ")",
				"returned error " + strconv.Quote(res.Err) + "; " + state
		}
	}
	oc.dstTouched = dstPost != dstPre
	return
}

// errClass reduces an error text to its errno-like tail (paths removed).
func errClass(s string) string {
	if i := strings.LastIndex(s, ": "); i >= 0 {
		s = s[i+2:]
	}
	return s
}

// ---------------------------------------------------------------------------------------

type mon struct{}

var closeFailNote sync.Once

func (mon) Name() string { return "filecopy" }

func (mon) Level(prop string) (string, string) {
	return "fault_enumeration", "BOTH TIERS: complete product of operation {CopyFile, MoveFile} × source size × source {present, missing, symlink to file} × destination {missing, shorter, longer, directory, parent missing, parent is a file, symlink to another file, dangling symlink, and the source itself as same path / ./ / dir/../ / symlink / relative symlink / hard link / symlink chain / through a directory symlink} × placement {root FS, tmpfs, across both (real EXDEV)}; a name-related family (source named destination+suffix or dot+destination+suffix and the reverse, in one directory, 14 temp/backup suffixes; also with MoveFile forced into its fallback); source-side aliasing (source path = symlink / 2- and 3-link symlink chain / ./-spelling / hard link of the file, destination = that file, another symlink to it, a hard link of it, each INTERMEDIATE link of the source's own chain, or a symlink pointing into that chain from outside (all links absolute); both operations, one and – for the symlink kinds – two file systems, also with MoveFile forced into its fallback); sizes above plausible internal limits (2 MiB+1, 4 MiB+3, 8 MiB+1, plain and sparse, missing/existing destination, both operations, real and forced EXDEV); family closefail (fusefs.go): a FUSE file system emulated by the monitor inside its temp dir, in a child process with a private mount namespace, which accepts write(2) beyond a 100000-byte quota and reports ENOSPC only at close(2) like NFS/CIFS; controls first (a file below the quota arrives intact; a plain Write/Close of 3×quota gives nil/ENOSPC and a short file; rename onto it gives EXDEV), then CopyFile and MoveFile (through its fallback) of quota-1, quota, quota+1, 3×quota and 1 MiB+1 bytes onto a missing / existing shorter destination there; concurrent calls (8 and 32 goroutines released together, CopyFile and MoveFile mixed, distinct ~300 KB files in shared directories, on one and across two file systems - where the data goes through the read/write loop and MoveFile through its fallback -, also at GOMAXPROCS=2); an enumerated list of failing steps inside the call (RLIMIT_FSIZE in a probe process; strace tampering: rename→EXDEV or another errno, copy_file_range/read/write/openat/fstat/unlinkat errors at the k-th call, k∈{1,2}). " +
		"THOROUGH ADDS (deep.go): every size 0..64, ±1 around 4 KiB / 32 KiB / 64 KiB / 1 MiB, 2–32 MiB and sparse sources; sources that are hard-linked or a symlink onto the other file system; destinations of equal length, same content, read-only, non-empty directory, symlink to a directory, symlink loop, symlink chain to another file, symlink to a (missing) file on the other file system, symlink→hard link and symlink→other-FS symlink→source aliases – each for both operations and all four placements; awkward names (spaces, unicode, newline, 250 bytes, leading dashes, shell metacharacters) and path spellings (trailing slash, dir/../dir, //, /./ on either side); a fault sweep that first lists the syscalls of a call on the two paths (strace -P) and then fails EVERY occurrence of each (openat, fstat, newfstatat, copy_file_range, read, write, rename*, unlinkat, …) with each of ENOSPC/EIO/EINTR/EDQUOT (the random shards add EACCES/EMFILE/ENOMEM/EROFS/EBUSY), for copy_file_range and for the read/write fallback; RLIMIT_FSIZE at byte 0, 1, size/3, page and buffer boundaries, size-1, size, size+1 (with copy_file_range disabled this yields genuine short write(2) counts); MoveFile forced into its fallback over every source and destination state; 2/8/32 concurrent calls on distinct files in shared directories; seeded random combinations of all dimensions including faults. " +
		"Never handed to the code under test: device nodes, FIFOs or any path outside the monitor's own temp dirs. Judged by SHA-256+length snapshots before/after; distinct_nontrivial = distinct (op, size, source, destination, placement, name relation/style/spelling, fault, concurrency) tuples with a source present that were really executed"
}

func (mon) Assumptions(string) []string {
	return []string{
		"on an error return only the source is protected: a destination that was created, truncated or partly written is not a violation",
		"MoveFile returning nil while the source path still exists (rename onto itself / onto a hard link is a kernel no-op) is not a violation as long as the destination holds the content",
		"strace tampering stands for a failing kernel step; a row whose fault was never reached is listed under observed_sets.faults_not_reached and still judged by the same oracle",
		"files other than the destination that exist after a nil return (left-over temporaries) are not covered by the statement: counted under nil_returns_leaving_extra_files(metric), not judged",
		"faults of close(2) are not injected (a tampered close is skipped rather than failed, and write-back errors are outside the statement); a failing stat of a destination that aliases the source defeats the same-file guard and is outside the stated quantifier, so stat faults are injected only for destinations that are not the source",
		"injected short counts (strace retval=) would make the kernel lie about bytes written and are not used; short writes are produced by the kernel itself through RLIMIT_FSIZE",
		"a FIFO destination is not exercised: a write blocks once the pipe is full and a FIFO cannot hold the content, so the statement does not apply",
		"EINTR is injected at one occurrence only (Go retries the call); it is never injected permanently",
	}
}

type shardArgs struct {
	Kind  string `json:"kind"` // "plain" | "names" | "srcalias" | "srcalias-exdev" | "large" | "large-exdev" | "rlimit" | "exdev" | "inner"; thorough only: "deep" | "big" | "spell" | "rlimit-deep" | "exdev-deep" | "sweep" | "conc" | "rand"
	Count int    `json:"count,omitempty"`
	SrcFS string `json:"src_fs,omitempty"`
	DstFS string `json:"dst_fs,omitempty"`
	Op    string `json:"op,omitempty"`
	Part  int    `json:"part,omitempty"`
	Parts int    `json:"parts,omitempty"`
}

func (mon) Plan(prop, tier string, seed int64) []drv.Shard {
	var out []drv.Shard
	add := func(name string, a shardArgs, secs int) {
		b, _ := json.Marshal(a)
		out = append(out, drv.Shard{Name: name, Args: b, Secs: secs})
	}
	for _, pl := range [][2]string{{"root", "root"}, {"shm", "shm"}, {"root", "shm"}, {"shm", "root"}} {
		for _, op := range []string{"copy", "move"} {
			add(fmt.Sprintf("plain-%s-%s-%s", op, pl[0], pl[1]), shardArgs{Kind: "plain", SrcFS: pl[0], DstFS: pl[1], Op: op}, 300)
		}
	}
	for _, pl := range [][2]string{{"root", "root"}, {"shm", "shm"}, {"root", "shm"}, {"shm", "root"}} {
		for _, op := range []string{"copy", "move"} {
			add(fmt.Sprintf("names-%s-%s-%s", op, pl[0], pl[1]), shardArgs{Kind: "names", SrcFS: pl[0], DstFS: pl[1], Op: op}, 300)
		}
	}
	// source-side aliasing and sizes above every plausible internal buffer / limit (both tiers)
	for _, pl := range [][2]string{{"root", "root"}, {"shm", "shm"}, {"root", "shm"}, {"shm", "root"}} {
		add(fmt.Sprintf("srcalias-%s-%s", pl[0], pl[1]), shardArgs{Kind: "srcalias", SrcFS: pl[0], DstFS: pl[1]}, 300)
	}
	add("srcalias-exdev", shardArgs{Kind: "srcalias-exdev"}, 300)
	for _, pl := range [][2]string{{"root", "root"}, {"root", "shm"}, {"shm", "root"}} {
		add(fmt.Sprintf("large-%s-%s", pl[0], pl[1]), shardArgs{Kind: "large", SrcFS: pl[0], DstFS: pl[1]}, 300)
	}
	add("large-exdev", shardArgs{Kind: "large-exdev"}, 300)
	// concurrent calls on unrelated files (no state may be shared between calls)
	add("conc-q-root-shm", shardArgs{Kind: "conc-quick", SrcFS: "root", DstFS: "shm"}, 300)
	add("conc-q-shm-shm", shardArgs{Kind: "conc-quick", SrcFS: "shm", DstFS: "shm"}, 300)
	add("conc-q-shm-root-gomaxprocs2", shardArgs{Kind: "conc-quick", SrcFS: "shm", DstFS: "root"}, 300)
	out[len(out)-1].Env = []string{"GOMAXPROCS=2"}
	// destination file system that reports write errors only at close(2) (fusefs.go)
	add("closefail", shardArgs{Kind: "closefail"}, 600)
	add("rlimit", shardArgs{Kind: "rlimit"}, 300)
	exParts, inParts := 4, 10
	if tier == "thorough" {
		exParts, inParts = 4, 16
	}
	for p := 0; p < exParts; p++ {
		add(fmt.Sprintf("strace-exdev-%d", p), shardArgs{Kind: "exdev", Part: p, Parts: exParts}, 400)
	}
	for p := 0; p < inParts; p++ {
		add(fmt.Sprintf("strace-inner-%d", p), shardArgs{Kind: "inner", Part: p, Parts: inParts}, 400)
	}
	if tier != "thorough" {
		return out
	}
	// deep exploration (deep.go); generous watchdogs, the work is a fixed list
	const dog = 7200
	const sweepParts, randParts, randCount = 64, 16, 4000
	// longest first
	for p := 0; p < sweepParts; p++ {
		add(fmt.Sprintf("sweep-%d", p), shardArgs{Kind: "sweep", Part: p, Parts: sweepParts}, dog)
	}
	for p := 0; p < randParts; p++ {
		add(fmt.Sprintf("rand-%d", p), shardArgs{Kind: "rand", Part: p, Parts: randParts, Count: randCount}, dog)
	}
	for p := 0; p < 8; p++ {
		add(fmt.Sprintf("big-%d", p), shardArgs{Kind: "big", Part: p, Parts: 8}, dog)
	}
	for _, pl := range placements {
		for _, op := range []string{"copy", "move"} {
			for p := 0; p < 2; p++ {
				add(fmt.Sprintf("deep-%s-%s-%s-%d", op, pl[0], pl[1], p), shardArgs{Kind: "deep", SrcFS: pl[0], DstFS: pl[1], Op: op, Part: p, Parts: 2}, dog)
			}
			add(fmt.Sprintf("spell-%s-%s-%s", op, pl[0], pl[1]), shardArgs{Kind: "spell", SrcFS: pl[0], DstFS: pl[1], Op: op}, dog)
		}
		add(fmt.Sprintf("conc-%s-%s", pl[0], pl[1]), shardArgs{Kind: "conc", SrcFS: pl[0], DstFS: pl[1]}, dog)
	}
	for p := 0; p < 4; p++ {
		add(fmt.Sprintf("rlimit-deep-%d", p), shardArgs{Kind: "rlimit-deep", Part: p, Parts: 4}, dog)
		add(fmt.Sprintf("exdev-deep-%d", p), shardArgs{Kind: "exdev-deep", Part: p, Parts: 4}, dog)
	}
	return out
}

func sizesOf(tier string) []int {
	if tier == "thorough" {
		return sizesThorough
	}
	return sizesQuick
}

// plainCases: the complete product without injected faults, for one placement and operation.
func plainCases(tier string, a shardArgs) []Case {
	var out []Case
	for _, size := range sizesOf(tier) {
		for _, src := range []string{"present", "missing", "symlink"} {
			for _, dst := range append(append([]string{}, dstKinds...), aliasKinds...) {
				cs := Case{Op: a.Op, Size: size, SrcFS: a.SrcFS, DstFS: a.DstFS, Src: src, Dst: dst}
				if applicable(cs) {
					out = append(out, cs)
				}
			}
		}
	}
	return out
}

// nameCases: source and destination names related by a suffix an implementation might use for
// a temporary or backup sibling (source = destination+".tmp", destination = source+"~", ...).
func nameCases(tier string, a shardArgs) []Case {
	var out []Case
	for _, size := range sizesOf(tier) {
		for _, dst := range []string{"missing", "shorter", "longer"} {
			for _, rel := range relKinds() {
				out = append(out, Case{Op: a.Op, Size: size, SrcFS: a.SrcFS, DstFS: a.DstFS, Src: "present", Dst: dst, Rel: rel})
			}
		}
	}
	return out
}

// srcAliasCases: the source PATH is a symlink / symlink chain / ./-spelling / hard link of the
// file and the destination is that file, another symlink to it, or a hard link of it.
func srcAliasCases(tier string, a shardArgs, forced bool) []Case {
	var out []Case
	ops, sizes := []string{"copy", "move"}, sizesOf(tier)
	if forced { // MoveFile pushed into its copy fallback on one file system
		ops, sizes, a.SrcFS, a.DstFS = []string{"move"}, []int{0, 1, 4097}, "root", "root"
	}
	for _, op := range ops {
		for _, size := range sizes {
			for _, src := range srcAliasKinds {
				for _, dst := range append(append([]string{}, realAliasKinds...), midAliasKinds...) {
					cs := Case{Op: op, Size: size, SrcFS: a.SrcFS, DstFS: a.DstFS, Src: src, Dst: dst}
					if forced {
						cs.Fault = &Fault{RenameErr: "EXDEV"}
					}
					if applicable(cs) {
						out = append(out, cs)
					}
				}
			}
		}
	}
	return out
}

// sizes above every plausible internal buffer or limit of an implementation
var sizesLarge = []int{2<<20 + 1, 4<<20 + 3, 8<<20 + 1}

func largeCases(a shardArgs, forced bool) []Case {
	var out []Case
	ops := []string{"copy", "move"}
	if forced {
		ops, a.SrcFS, a.DstFS = []string{"move"}, "root", "root"
	}
	// zero-filled content (sizes that are whole multiples of 64 KiB and not) and paths spelled through a
	// directory symlink followed by ".."
	for _, size := range []int{1 << 16, 1<<16 + 1, 3 << 16, 1 << 20, 1<<20 + 4097} {
		for _, op := range ops {
			for _, src := range []string{"zeros", "zerotail", "zerohead"} {
				cs := Case{Op: op, Size: size, SrcFS: a.SrcFS, DstFS: a.DstFS, Src: src, Dst: []string{"missing", "longer"}[(size+len(src))%2]}
				if forced {
					cs.Fault = &Fault{RenameErr: "EXDEV"}
				}
				out = append(out, cs)
			}
		}
	}
	for _, op := range ops {
		for _, sp := range []string{"src-linkdotdot", "dst-linkdotdot", "both-linkdotdot"} {
			for _, dst := range []string{"missing", "longer"} {
				cs := Case{Op: op, Size: 4097, SrcFS: a.SrcFS, DstFS: a.DstFS, Src: "present", Dst: dst, Spell: sp}
				if forced {
					cs.Fault = &Fault{RenameErr: "EXDEV"}
				}
				out = append(out, cs)
			}
		}
	}
	for _, size := range sizesLarge {
		srcs := []string{"present"}
		if size > 8<<20 && !forced {
			srcs = append(srcs, "sparse")
		}
		for _, op := range ops {
			for _, src := range srcs {
				for _, dst := range []string{"missing", "longer"} {
					cs := Case{Op: op, Size: size, SrcFS: a.SrcFS, DstFS: a.DstFS, Src: src, Dst: dst}
					if forced {
						cs.Fault = &Fault{RenameErr: "EXDEV"}
					}
					out = append(out, cs)
				}
			}
		}
	}
	return out
}

// rlimitCases: the kernel fails the copy with EFBIG at byte 0 (step 1) or in the middle (step 2).
func rlimitCases(tier string) []Case {
	var out []Case
	for _, size := range sizesOf(tier) {
		if size == 0 {
			continue
		}
		lims := []int64{0}
		if size > 1 {
			lims = append(lims, int64(size/2))
		}
		for _, lim := range lims {
			lim := lim
			for _, dst := range []string{"missing", "shorter", "longer", "symlink-other"} {
				for _, cfg := range [][3]string{{"copy", "root", "root"}, {"copy", "shm", "shm"}, {"copy", "root", "shm"}, {"move", "root", "shm"}, {"move", "shm", "root"}, {"move", "root", "root"}} {
					out = append(out, Case{Op: cfg[0], Size: size, SrcFS: cfg[1], DstFS: cfg[2], Src: "present", Dst: dst, Fault: &Fault{Rlimit: &lim}})
				}
			}
		}
	}
	return out
}

// exdevCases: strace answers every rename with EXDEV, so MoveFile takes its copy-and-delete
// fallback on one file system – over the whole destination set including the aliases.
func exdevCases(tier string) []Case {
	var out []Case
	for _, fs := range []string{"root", "shm"} {
		sizes := sizesOf(tier)
		for _, size := range sizes {
			for _, dst := range append(append([]string{}, dstKinds...), aliasKinds...) {
				for _, src := range []string{"present", "missing", "symlink"} {
					if src != "present" && dst != "missing" && dst != "longer" {
						continue
					}
					cs := Case{Op: "move", Size: size, SrcFS: fs, DstFS: fs, Src: src, Dst: dst, Fault: &Fault{RenameErr: "EXDEV"}}
					if applicable(cs) {
						out = append(out, cs)
					}
				}
			}
			// related names in one directory, MoveFile forced into its copy fallback
			if tier == "thorough" || (fs == "root" && (size == 1 || size == 4097)) {
				for _, dst := range []string{"missing", "longer"} {
					for _, rel := range relKinds() {
						out = append(out, Case{Op: "move", Size: size, SrcFS: fs, DstFS: fs, Src: "present", Dst: dst, Rel: rel, Fault: &Fault{RenameErr: "EXDEV"}})
					}
				}
			}
		}
	}
	return out
}

// innerCases: a failing step inside the copy / the fallback.
func innerCases(tier string) []Case {
	sizes := []int{0, 1, 4096, 4097, 1 << 20}
	dsts := []string{"missing", "longer", "symlink-other"}
	if tier == "thorough" {
		sizes = sizesThorough
		dsts = []string{"missing", "shorter", "longer", "symlink-other"}
	}
	type cfg struct {
		op, sfs, dfs string
		exdev        bool
	}
	cfgs := []cfg{
		{"copy", "root", "root", false},
		{"copy", "root", "shm", false},
		{"move", "root", "root", true}, // fallback forced by strace
		{"move", "root", "shm", false}, // real EXDEV
		{"move", "shm", "shm", true},
	}
	if tier == "thorough" {
		cfgs = append(cfgs, cfg{"copy", "shm", "shm", false}, cfg{"copy", "shm", "root", false}, cfg{"move", "shm", "root", false})
	}
	const cfr = "copy_file_range"
	var out []Case
	for _, cf := range cfgs {
		for _, size := range sizes {
			for _, dst := range dsts {
				mk := func(path string, inj ...string) {
					f := &Fault{Inject: inj, PathOnly: path}
					if cf.exdev {
						f.RenameErr = "EXDEV"
					}
					out = append(out, Case{Op: cf.op, Size: size, SrcFS: cf.sfs, DstFS: cf.dfs, Src: "present", Dst: dst, Fault: f})
				}
				// the copy itself fails at step k
				mk("", cfr+":error=ENOSPC:when=1")
				if size > 0 {
					mk("", cfr+":error=ENOSPC:when=2")
					mk("", cfr+":error=EIO:when=2") // Go treats EIO as "not supported" and continues with read/write
				}
				// copy_file_range unavailable: Go falls back to read/write; must still be complete
				for _, en := range []string{"ENOSYS", "EXDEV", "EINVAL"} {
					mk("", cfr+":error="+en)
				}
				// ... and the read/write loop fails at step k
				mk("dst", cfr+":error=ENOSYS", "write:error=ENOSPC:when=1")
				if size > 32<<10 {
					mk("dst", cfr+":error=ENOSYS", "write:error=EIO:when=2")
				}
				mk("src", cfr+":error=ENOSYS", "read:error=EIO:when=1")
				if size > 0 {
					mk("src", cfr+":error=ENOSYS", "read:error=EIO:when=2")
				}
				// opening fails
				mk("dst", "openat:error=EACCES:when=1")
				mk("dst", "openat:error=ENOSPC:when=1")
				mk("src", "openat:error=EMFILE:when=1")
				mk("src", "fstat:error=EIO:when=1")
				if cf.op == "move" {
					// removing the source fails after a complete copy
					mk("", "unlinkat:error=EPERM")
					mk("", "unlinkat:error=EBUSY:when=1")
					if cf.sfs == cf.dfs {
						// rename fails for another reason than EXDEV
						for _, en := range []string{"EACCES", "EIO", "ENOSPC", "EPERM"} {
							out = append(out, Case{Op: cf.op, Size: size, SrcFS: cf.sfs, DstFS: cf.dfs, Src: "present", Dst: dst, Fault: &Fault{RenameErr: en}})
						}
					}
				}
			}
		}
	}
	return out
}

func casesFor(tier string, a shardArgs) []Case {
	var all []Case
	switch a.Kind {
	case "plain":
		return plainCases(tier, a)
	case "names":
		return nameCases(tier, a)
	case "srcalias":
		return srcAliasCases(tier, a, false)
	case "srcalias-exdev":
		return srcAliasCases(tier, a, true)
	case "large":
		return largeCases(a, false)
	case "large-exdev":
		return largeCases(a, true)
	case "conc-quick":
		return concQuickCases(a)
	case "closefail":
		return closeFailCases()
	case "rlimit":
		return rlimitCases(tier)
	case "exdev":
		all = exdevCases(tier)
	case "inner":
		all = innerCases(tier)
	case "deep":
		all = deepCases(a)
	case "big":
		all = bigCases()
	case "spell":
		return spellCases(a)
	case "rlimit-deep":
		all = rlimitDeepCases()
	case "exdev-deep":
		all = exdevDeepCases()
	case "sweep":
		all = sweepBases()
	case "conc":
		return concCases(a)
	}
	var out []Case
	for i, cs := range all {
		if a.Parts <= 1 || i%a.Parts == a.Part {
			out = append(out, cs)
		}
	}
	return out
}

func (mn mon) Run(sh drv.Shard, c *drv.Ctx) {
	var a shardArgs
	json.Unmarshal(sh.Args, &a)
	installSignalCleanup()
	e, err := newEnv()
	if err != nil {
		c.Inconclusive("cannot create work directories: " + err.Error())
		return
	}
	defer e.close()
	if e.shmNote != "" {
		c.Note(e.shmNote)
		c.Add("second_fs_unavailable", 1)
	}
	var cases []Case
	if a.Kind == "rand" {
		cases = randCases(sh.Seed, a.Part, a.Count)
	} else {
		cases = casesFor(sh.Tier, a)
	}
	switch a.Kind {
	case "exdev", "inner", "exdev-deep", "sweep", "srcalias-exdev", "large-exdev":
		if ok, why := straceUsable(e.scratch); !ok {
			c.Note(fmt.Sprintf("shard %s: strace unusable (%s): %d fault rows skipped", sh.Name, why, len(cases)))
			c.Add("strace_rows_skipped", int64(len(cases)))
			return
		}
	case "rlimit-deep", "rand":
		if ok, why := straceUsable(e.scratch); !ok {
			var keep []Case
			for _, cs := range cases {
				if !cs.Fault.needsStrace() {
					keep = append(keep, cs)
				}
			}
			c.Note(fmt.Sprintf("shard %s: strace unusable (%s): %d fault rows skipped", sh.Name, why, len(cases)-len(keep)))
			c.Add("strace_rows_skipped", int64(len(cases)-len(keep)))
			cases = keep
		}
	}
	harnessFailures := 0
	idx := 0
	runOne := func(cs Case) {
		cs.Seed = sh.Seed*1000003 + int64(idx)*7919 + int64(cs.Size)
		idx++
		c.Progress(sh.Name+": "+cs.id(), true)
		var oc outcome
		k, exp, obs := runCase(cs, e, &oc)
		mn.record(c, cs, &oc, deepKind(a.Kind))
		if oc.harness != "" {
			harnessFailures++
			if harnessFailures <= 3 {
				c.Inconclusive("case " + cs.id() + ": " + oc.harness)
			}
			return
		}
		if k != "" {
			c.Violate(k, cs, exp, obs)
		}
	}
	if a.Kind != "sweep" {
		for _, cs := range cases {
			runOne(cs)
		}
		return
	}
	// sweep: list the syscalls of each base call, then fail each occurrence with each errno
	for _, base := range cases {
		base.Seed = sh.Seed*1000003 + int64(idx)*7919 + int64(base.Size)
		c.Progress(sh.Name+": enumerate "+base.id(), true)
		counts, order, harness := enumerate(base, e)
		if harness == errNoFS.Error() || strings.HasSuffix(harness, errNoFS.Error()) {
			c.Add("skipped: no second file system", 1)
			continue
		}
		if harness != "" {
			harnessFailures++
			if harnessFailures <= 3 {
				c.Inconclusive("enumeration of " + base.id() + ": " + harness)
			}
			continue
		}
		c.Add("sweep_base_calls_enumerated", 1)
		total := 0
		for _, name := range sortedKeys(counts) {
			if strings.Contains(name, "?") {
				continue
			}
			total += counts[name]
			c.MaxOf("sweep_max_occurrences:"+name, int64(counts[name]))
		}
		c.MaxOf("sweep_max_syscalls_on_copy_path", int64(total))
		c.SetAdd("sweep_syscall_sequences", fmt.Sprintf("%s %s %s: %s", base.Op, base.fsRel(), faultClass(base.Fault), strings.Join(order, ",")))
		for _, cs := range sweepPoints(base, counts, order) {
			runOne(cs)
		}
	}
}

// record books what one case observed.
func (mon) record(c *drv.Ctx, cs Case, oc *outcome, deep bool) {
	if oc.skipped != "" {
		if strings.HasPrefix(oc.skipped, "closefail:") {
			// fuse / mount namespaces unavailable: the family is skipped and says so (a note, not inconclusive)
			c.Add("closefail_rows_skipped", 1)
			c.SetAdd("closefail_skipped_because", oc.skipped)
			closeFailNote.Do(func() { c.Note("family closefail skipped: " + strings.TrimPrefix(oc.skipped, "closefail: ")) })
			return
		}
		c.Add("skipped: "+oc.skipped, 1)
		return
	}
	if oc.cf != nil && oc.ran {
		c.Add("closefail_calls", 1)
		if oc.cf.CtlCloseENOSPC {
			c.Add("closefail_close_errors_seen_by_control", 1)
		}
		if oc.cf.SmallCopyOK {
			c.Add("closefail_control_small_copy_intact", 1)
		}
		if oc.cf.RenameEXDEV {
			c.Add("closefail_control_rename_gave_EXDEV", 1)
		}
		c.Add("closefail_flushes_answered_ENOSPC", int64(oc.cf.FailedFlushes))
		if cs.Size > fuseQuota {
			c.Add("closefail_calls_above_quota", 1)
			if !oc.nilRet {
				c.Add("closefail_above_quota_reported_as_error", 1)
			}
		}
	}
	if !oc.ran {
		return
	}
	c.Eval(1)
	if cs.Src != "missing" {
		c.DistinctStr(fmt.Sprintf("%s|%d|%s|%s|%s|%s|%s|%s|%s|%s|%d", cs.Op, cs.Size, cs.Src, cs.Dst, cs.SrcFS, cs.DstFS, cs.Rel, cs.Fault.String(), cs.Name, cs.Spell, cs.Conc))
	}
	c.SetAdd("sizes_exercised", sizeLabel(int64(cs.Size)))
	c.SetAdd("source_states_exercised", cs.Src)
	c.SetAdd("destination_states_exercised", cs.Dst)
	if cs.Name != "" {
		c.Add("awkward_name_calls", 1)
		c.SetAdd("name_styles_exercised", cs.Name)
	}
	if cs.Spell != "" {
		c.Add("respelled_path_calls", 1)
		c.SetAdd("path_spellings_exercised", cs.Spell)
	}
	if cs.Src == "sparse" {
		c.Add("sparse_source_calls", 1)
	}
	if cs.Size >= 2<<20 {
		c.Add("calls_with_2MiB_or_more", 1)
	}
	if cs.Conc > 0 {
		c.Eval(oc.concCalls - 1)
		c.Add("concurrent_calls", oc.concCalls)
		c.Add("concurrent_calls_overlapping_another", oc.concOverlap)
		c.MaxOf("concurrent_calls_in_flight", oc.concMax)
	}
	cls := "nil"
	if oc.nilRet {
		c.Add("nil_returns", 1)
		if cs.Op == "move" && cs.SrcFS != cs.DstFS && oc.srcGone {
			c.Add("moves_across_devices_completed", 1)
		}
		if cs.Op == "move" && !oc.srcGone {
			c.Add("moves_nil_with_source_still_present", 1)
		}
		if len(oc.extraFiles) > 0 {
			// not part of the statement (it speaks about content only): reported, not judged
			c.Add("nil_returns_leaving_extra_files(metric)", 1)
			for _, x := range oc.extraFiles {
				c.SetAdd("extra_files_after_nil", cs.Op+" "+cs.Dst+cs.relTag()+": "+x)
			}
		}
	} else {
		c.Add("error_returns", 1)
		cls = errClass(oc.errText)
		if oc.dstTouched {
			c.Add("error_returns_with_destination_modified(silent)", 1)
		}
	}
	if cs.Rel != "" {
		c.Add("name_related_calls", 1)
	}
	if isRealAlias(cs.Dst) || isMidAlias(cs.Dst) {
		c.Add("source_side_alias_calls", 1)
	}
	if isMidAlias(cs.Dst) {
		c.Add("destination_is_intermediate_link_of_source_chain_calls", 1)
	}
	if oc.outside != "" {
		c.Add("move_of_symlink_onto_its_own_target_lost_content(outside_quantifier,not_judged)", 1)
		c.SetAdd("outside_quantifier_observations", clipStr(fmt.Sprintf("MoveFile(%s, %s) size %d: %s", cs.Src, cs.Dst, cs.Size, oc.outside), 400))
	}
	if cs.Size > 2<<20 && !deep {
		c.Add("calls_above_2MiB", 1)
	}
	if isAlias(cs.Dst) {
		if oc.nilRet {
			c.Add("alias_calls_nil", 1)
		} else {
			c.Add("alias_calls_refused", 1)
		}
	}
	if deep {
		// bounded: the deep shards run hundreds of thousands of combinations
		if cs.Fault == nil {
			c.SetAdd("outcomes_deep", fmt.Sprintf("%s %s->%s %s => %s", cs.Op, cs.Src, cs.Dst, cs.fsRel(), cls))
		} else {
			c.SetAdd("outcomes_deep_faults", fmt.Sprintf("%s %s %s => %s", cs.Op, cs.fsRel(), compactFault(cs.Fault), cls))
		}
	} else if cs.Rel == "" {
		c.SetAdd("outcomes", fmt.Sprintf("%s %s->%s %s %s => %s", cs.Op, cs.Src, cs.Dst, cs.fsRel(), faultClass(cs.Fault), cls))
	} else {
		side := cs.Rel[:strings.IndexByte(cs.Rel, ':')]
		c.SetAdd("outcomes", fmt.Sprintf("%s %s->%s[%s named after the other, %d suffixes x plain/hidden] %s %s => %s", cs.Op, cs.Src, cs.Dst, side, len(relSuffixes), cs.fsRel(), cs.Fault.keyString(), cls))
	}
	if cs.Fault != nil {
		c.Add("probe_calls", 1)
		if cs.Fault.Rlimit != nil {
			c.Add("rlimit_fault_calls", 1)
			lim := *cs.Fault.Rlimit
			switch {
			case lim == 0:
				c.Add("rlimit_at_byte_0", 1)
			case lim < int64(cs.Size):
				c.Add("rlimit_inside_the_file", 1)
				c.SetAdd("rlimit_offsets_inside", sizeLabel(lim))
			default:
				c.Add("rlimit_at_or_past_the_end", 1)
			}
		}
		if cs.Fault.needsStrace() {
			c.Add("strace_calls", 1)
			if cs.Fault.RenameErr != "" {
				c.Add("rename_forced_to_fail", int64(oc.renameHits))
				if oc.renameHits == 0 {
					c.SetAdd("faults_not_reached", notReachedLabel(cs, deep))
				}
			}
			if len(cs.Fault.Inject) > 0 {
				c.Add("injected_syscall_failures", int64(len(oc.hits)))
				for _, h := range oc.hits {
					c.Add("injected:"+h, 1)
				}
				for _, inj := range cs.Fault.Inject {
					p := strings.Split(inj, ":")
					wasHit := false
					for _, h := range oc.hits {
						if h == p[0] {
							wasHit = true
						}
					}
					if len(p) == 3 && strings.HasPrefix(p[2], "when=") && wasHit {
						c.SetAdd("injection_points_hit", p[0]+"@"+p[2][5:])
						c.SetAdd("errnos_injected", strings.TrimPrefix(p[1], "error="))
					}
				}
				if len(oc.hits) == 0 {
					c.Add("faults_not_reached_count", 1)
					c.SetAdd("faults_not_reached", notReachedLabel(cs, deep))
				}
			}
		}
		if c.NumSamples() < 3 {
			c.Sample(map[string]any{"case": cs, "returned": cls, "tampered": oc.hits, "renames_failed": oc.renameHits})
		}
	} else if c.NumSamples() < 2 && (isAlias(cs.Dst) || cs.SrcFS != cs.DstFS) && cs.Size > 0 {
		c.Sample(map[string]any{"case": cs, "returned": cls})
	}
}

func deepKind(k string) bool {
	switch k {
	case "deep", "big", "spell", "rlimit-deep", "exdev-deep", "sweep", "conc", "rand":
		return true
	}
	return false
}

func notReachedLabel(cs Case, deep bool) string {
	if deep {
		return cs.Op + " " + compactFault(cs.Fault)
	}
	return cs.Op + " " + cs.Dst + " " + faultClass(cs.Fault)
}

// Finish: the check needs to have seen the fallback of MoveFile and failing steps inside the copy.
func (mon) Finish(prop, tier string, m *drv.Merged) []string {
	var inc []string
	if m.Sum["moves_across_devices_completed"] == 0 && m.Sum["rename_forced_to_fail"] == 0 {
		inc = append(inc, "the copy-and-delete fallback of MoveFile was never exercised (no second file system and no strace)")
	}
	if m.Sum["strace_rows_skipped"] == 0 {
		if m.Sum["injected_syscall_failures"] < 20 || m.Sum["rename_forced_to_fail"] < 20 {
			inc = append(inc, fmt.Sprintf("strace is usable but only %d injected failures and %d forced rename failures were observed", m.Sum["injected_syscall_failures"], m.Sum["rename_forced_to_fail"]))
		}
	}
	if m.Sum["rlimit_fault_calls"] == 0 {
		inc = append(inc, "no RLIMIT_FSIZE fault row was executed")
	}
	if m.Max["concurrent_calls_in_flight"] < 2 {
		inc = append(inc, "no two concurrent calls were ever in flight at the same time")
	}
	if tier == "thorough" {
		if m.Sum["strace_rows_skipped"] == 0 && m.Sum["sweep_base_calls_enumerated"] < 100 {
			inc = append(inc, fmt.Sprintf("only %d base calls were enumerated for the every-occurrence fault sweep", m.Sum["sweep_base_calls_enumerated"]))
		}
	}
	return inc
}

func (mn mon) Replay(v drv.Violation, c *drv.Ctx) {
	var cs Case
	if err := json.Unmarshal(v.Case, &cs); err != nil || cs.Op == "" {
		c.Inconclusive("replay: cannot decode case")
		return
	}
	installSignalCleanup()
	e, err := newEnv()
	if err != nil {
		c.Inconclusive("cannot create work directories: " + err.Error())
		return
	}
	defer e.close()
	var oc outcome
	k, exp, obs := runCase(cs, e, &oc)
	if oc.ran {
		c.Eval(1)
	}
	if oc.harness != "" || oc.skipped != "" {
		fmt.Println("replay could not run the case:", oc.harness, oc.skipped)
		return
	}
	if k != "" {
		c.Violate(k, cs, exp, obs)
	}
}

func main() {
	if isProbe() {
		probeMain()
		return
	}
	if isCloseFailChild() {
		closeFailChildMain()
		return
	}
	if isCloseFailClient() {
		closeFailClientMain()
		return
	}
	if isCloseFailAbort() {
		closeFailAbortMain()
		return
	}
	drv.Main(mon{})
}
