package main

import (
	"bytes"
	"context"
	"encoding/json"
	"fmt"
	"os"
	"os/exec"
	"os/signal"
	"runtime"
	"strconv"
	"strings"
	"syscall"
	"time"

	"github.com/whoisnian/glb/util/osutil"
)

// Probe sub-mode of this binary:
//
//	filecopy -c18probe <copy|move> <src> <dst> <rlimit_fsize|-1>
//
// performs exactly one osutil.CopyFile / osutil.MoveFile call and prints the outcome as one JSON
// line. The parent runs it under strace (syscall fault injection) or with RLIMIT_FSIZE lowered
// (the kernel itself then fails the copy with EFBIG after that many bytes).

const probeFlag = "-c18probe"

func isProbe() bool { return len(os.Args) > 1 && os.Args[1] == probeFlag }

func init() {
	if isProbe() {
		// strace's when=N counts per thread: keep the main goroutine (which performs all
		// file system calls of CopyFile/MoveFile as blocking syscalls) on one thread.
		runtime.LockOSThread()
	}
}

// ProbeResult is what the probe prints.
type ProbeResult struct {
	Nil   bool   `json:"nil"`
	Err   string `json:"err,omitempty"`
	N     int64  `json:"n"`
	Panic string `json:"panic,omitempty"`
}

// call performs the call under test, in this process.
func call(op, src, dst string) (res ProbeResult) {
	defer func() {
		if r := recover(); r != nil {
			res = ProbeResult{Panic: fmt.Sprint(r)}
		}
	}()
	var err error
	switch op {
	case "copy":
		res.N, err = osutil.CopyFile(src, dst)
	case "move":
		err = osutil.MoveFile(src, dst)
	default:
		return ProbeResult{Panic: "harness: unknown op " + op}
	}
	if err == nil {
		res.Nil = true
	} else {
		res.Err = err.Error()
		if res.Err == "" {
			res.Err = "(empty error text)"
		}
	}
	return res
}

func probeMain() {
	if len(os.Args) != 6 {
		fmt.Fprintln(os.Stderr, "usage: -c18probe op src dst rlimit")
		os.Exit(2)
	}
	op, src, dst := os.Args[2], os.Args[3], os.Args[4]
	lim, err := strconv.ParseInt(os.Args[5], 10, 64)
	if err != nil {
		fmt.Fprintln(os.Stderr, "bad rlimit:", err)
		os.Exit(2)
	}
	if lim >= 0 {
		signal.Ignore(syscall.SIGXFSZ) // a write past the limit shall fail with EFBIG, not kill us
		rl := syscall.Rlimit{Cur: uint64(lim), Max: uint64(lim)}
		if err := syscall.Setrlimit(syscall.RLIMIT_FSIZE, &rl); err != nil {
			fmt.Fprintln(os.Stderr, "setrlimit:", err)
			os.Exit(2)
		}
	}
	res := call(op, src, dst)
	b, _ := json.Marshal(res)
	fmt.Printf("%s\n", b) // stdout is a pipe: not subject to RLIMIT_FSIZE
}

// ---------------------------------------------------------------------------------------

// straceArgs builds the strace command line for a fault.
func straceArgs(f *Fault, traceFile, src, dst string) []string {
	traced := map[string]bool{}
	var order []string
	add := func(s string) {
		if !traced[s] {
			traced[s] = true
			order = append(order, s)
		}
	}
	var inj []string
	if f.RenameErr != "" {
		for _, s := range []string{"rename", "renameat", "renameat2"} {
			add(s)
		}
		inj = append(inj, "inject=rename,renameat,renameat2:error="+f.RenameErr)
	}
	for _, e := range f.Inject {
		set := e
		if i := strings.IndexByte(e, ':'); i >= 0 {
			set = e[:i]
		}
		for _, s := range strings.Split(set, ",") {
			add(s)
		}
		inj = append(inj, "inject="+e)
	}
	if f.enumerate {
		for _, s := range sweepSyscalls {
			add(s)
		}
	}
	args := []string{"-f", "-qq", "-o", traceFile, "-e", "trace=" + strings.Join(order, ",")}
	switch f.PathOnly {
	case "src":
		args = append(args, "-P", src)
	case "dst":
		args = append(args, "-P", dst)
	case "both":
		args = append(args, "-P", src, "-P", dst)
	}
	for _, e := range inj {
		args = append(args, "-e", e)
	}
	return args
}

// sweepSyscalls: every syscall an implementation of copy / move can reasonably issue on the two
// paths. close is left out on purpose (a tampered close is skipped, not failed, and the statement
// does not cover write-back errors).
var sweepSyscalls = []string{"openat", "open", "creat", "newfstatat", "fstat", "lstat", "stat", "statx",
	"copy_file_range", "sendfile", "splice", "read", "write", "pread64", "pwrite64", "readv", "writev", "lseek",
	"ftruncate", "truncate", "fallocate", "fsync", "fdatasync", "rename", "renameat", "renameat2",
	"unlink", "unlinkat", "link", "linkat", "symlink", "symlinkat", "readlink", "readlinkat",
	"fchmod", "fchmodat", "chmod", "fchown", "fchownat", "utimensat", "mkdir", "mkdirat", "getdents64", "ioctl"}

type probeRun struct {
	seq        []string // enumerate: names of the traced syscalls in order
	res        ProbeResult
	hits       []string // names of the syscalls that were tampered with, in order
	renameHits int      // rename* calls answered with the forced error
	harness    string   // non-empty: the probe itself failed (not a verdict about glb)
	timedOut   bool
}

// runProbe executes one call in a child process of this binary.
func runProbe(op, src, dst string, f *Fault, scratch string) probeRun {
	var pr probeRun
	self, err := os.Executable()
	if err != nil {
		pr.harness = "os.Executable: " + err.Error()
		return pr
	}
	lim := int64(-1)
	if f != nil && f.Rlimit != nil {
		lim = *f.Rlimit
	}
	probeArgs := []string{probeFlag, op, src, dst, strconv.FormatInt(lim, 10)}
	ctx, cancel := context.WithTimeout(context.Background(), 60*time.Second)
	defer cancel()
	var cmd *exec.Cmd
	traceFile := ""
	if f != nil && f.needsStrace() {
		tf, err := os.CreateTemp(scratch, "trace-*")
		if err != nil {
			pr.harness = "trace file: " + err.Error()
			return pr
		}
		tf.Close()
		traceFile = tf.Name()
		defer os.Remove(traceFile)
		args := append(straceArgs(f, traceFile, src, dst), "--", self)
		args = append(args, probeArgs...)
		cmd = exec.Command(stracePath, args...)
	} else {
		cmd = exec.Command(self, probeArgs...)
	}
	var stdout, stderr bytes.Buffer
	cmd.Stdout, cmd.Stderr = &stdout, &stderr
	cmd.SysProcAttr = &syscall.SysProcAttr{Setpgid: true}
	cmd.Env = append(os.Environ(), "GOMAXPROCS=2", "GOTRACEBACK=all")
	if err := cmd.Start(); err != nil {
		pr.harness = "start: " + err.Error()
		return pr
	}
	pgid := cmd.Process.Pid
	probeMu.Lock()
	probePgids[pgid] = true
	probeMu.Unlock()
	defer func() {
		probeMu.Lock()
		delete(probePgids, pgid)
		probeMu.Unlock()
	}()
	done := make(chan error, 1)
	go func() { done <- cmd.Wait() }()
	var werr error
	select {
	case werr = <-done:
	case <-ctx.Done():
		pr.timedOut = true
		syscall.Kill(-cmd.Process.Pid, syscall.SIGKILL)
		werr = <-done
	}
	syscall.Kill(-cmd.Process.Pid, syscall.SIGKILL) // nothing may survive
	if pr.timedOut {
		pr.harness = "probe exceeded its 60 s watchdog"
		return pr
	}
	if traceFile != "" {
		if b, err := os.ReadFile(traceFile); err == nil {
			for _, ln := range strings.Split(string(b), "\n") {
				if f.enumerate && strings.TrimSpace(ln) != "" && !strings.Contains(ln, " resumed>") && !strings.Contains(ln, "+++ ") && !strings.Contains(ln, "--- ") {
					pr.seq = append(pr.seq, syscallName(ln))
				}
				if !strings.Contains(ln, "(INJECTED)") {
					continue
				}
				name := syscallName(ln)
				if strings.HasPrefix(name, "rename") && f.RenameErr != "" && strings.Contains(ln, f.RenameErr) {
					pr.renameHits++
					continue
				}
				pr.hits = append(pr.hits, name)
			}
		}
	}
	line := strings.TrimSpace(stdout.String())
	if i := strings.LastIndexByte(line, '\n'); i >= 0 {
		line = line[i+1:]
	}
	if err := json.Unmarshal([]byte(line), &pr.res); err != nil || line == "" {
		// The probe died without a result. A Go crash inside the call is an observation about
		// glb; anything else is a harness problem.
		out := stdout.String() + stderr.String()
		if strings.Contains(out, "panic: ") || strings.Contains(out, "fatal error: ") {
			pr.res = ProbeResult{Panic: "probe process crashed: " + clipStr(out, 1500)}
			return pr
		}
		pr.harness = fmt.Sprintf("probe gave no result (wait: %v): %s", werr, clipStr(out, 600))
	}
	return pr
}

// syscallName extracts the syscall name of one strace -f -o line: "<pid> name(args) = ...".
func syscallName(ln string) string {
	ln = strings.TrimSpace(ln)
	if i := strings.IndexByte(ln, ' '); i >= 0 {
		if _, err := strconv.Atoi(ln[:i]); err == nil {
			ln = strings.TrimSpace(ln[i+1:])
		}
	}
	if strings.HasPrefix(ln, "<... ") { // "<... name resumed>"
		ln = strings.TrimPrefix(ln, "<... ")
		if i := strings.IndexByte(ln, ' '); i >= 0 {
			return ln[:i]
		}
	}
	if i := strings.IndexByte(ln, '('); i >= 0 {
		return ln[:i]
	}
	return "?"
}

func clipStr(s string, n int) string {
	if len(s) > n {
		return s[:n] + "…"
	}
	return s
}

// VERIF_C18_STRACE overrides the strace binary (used to test the "strace unusable" path).
var stracePath = func() string {
	if p := os.Getenv("VERIF_C18_STRACE"); p != "" {
		return p
	}
	return "/usr/bin/strace"
}()

// straceUsable checks once per shard that strace can attach and tamper in this sandbox.
func straceUsable(scratch string) (bool, string) {
	if _, err := os.Stat(stracePath); err != nil {
		return false, stracePath + " is missing"
	}
	tf := scratch + "/strace-selftest"
	defer os.Remove(tf)
	cmd := exec.Command(stracePath, "-f", "-qq", "-o", tf, "-e", "trace=unlinkat", "-e", "inject=unlinkat:error=EXDEV",
		"--", "/bin/rm", "-f", scratch+"/no-such-file-for-selftest")
	out, err := cmd.CombinedOutput()
	b, _ := os.ReadFile(tf)
	if !strings.Contains(string(b), "(INJECTED)") {
		return false, fmt.Sprintf("strace self-test saw no injected call (err=%v, output=%s)", err, clipStr(string(out), 300))
	}
	return true, ""
}
