// Monitor ipfilter (C11): IPv4Filter membership equals the set of CIDRs added and not removed.
//
// Oracle: a plain set-of-prefixes model with a linear-scan probe, run next to the real
// filter over operation sequences; every probe address is asked in its 4-byte and in its
// 16-byte form. See DESIGN.md §3 C11.
package main

import (
	"encoding/binary"
	"encoding/json"
	"fmt"
	"math/rand"
	"net"
	"strings"

	"github.com/whoisnian/glb/util/netutil"

	"verif/internal/drv"
)

// Op is one operation of a sequence.
//
// Form: 0 = IPv4 net (4-byte IP, 4-byte mask); 1 = IPv6 net; 2 = 4-byte IP with 16-byte mask;
// 3 = non-contiguous 4-byte mask; 5 = ::/0; 6 = nil mask; 7 = 4-byte IP with 16-byte zero mask;
// 4 = 16-byte (v4-mapped) IP with 4-byte mask (ambiguous:
// may be rejected without effect or be taken as the IPv4 range).
type Op struct {
	Rem  bool   `json:"rem,omitempty"`
	IP   uint32 `json:"ip"`
	Ones int    `json:"ones"`
	Form int    `json:"form,omitempty"`
}

func (o Op) String() string {
	k := "add"
	if o.Rem {
		k = "rem"
	}
	s := fmt.Sprintf("%s %s/%d", k, u2ip(o.IP), o.Ones)
	if o.Form != 0 {
		s += fmt.Sprintf("#form%d", o.Form)
	}
	return s
}

// Case is one replayable sequence.
type Case struct {
	Filler     int   `json:"filler"`     // distinct filler ranges added first (200.x.y.0/24 ...)
	FillerRem  int   `json:"filler_rem"` // every FillerRem-th filler is removed again before the ops (0 = none)
	Ops        []Op  `json:"ops"`
	ProbeEvery int   `json:"probe_every"` // probe after every k-th op (and at the end)
	RandProbes int   `json:"rand_probes"`
	Seed       int64 `json:"seed"`
	// Twin: a second filter instance lives in the same process and receives the same history shifted
	// into another address space (x XOR 64.0.0.0); each filter is probed with both spaces against
	// its own model - instances share nothing
	Twin bool `json:"twin,omitempty"`
	// Big: that many further distinct ranges (80.0.0.0/4 space) are added after the fillers, so that the
	// number of live entries passes 2^16 (a table index, counter or size hint narrower than int shows
	// only there); BigDrain removes them all again after the ops and probes once more
	// Reuse: the caller recycles one net.IPNet (one address buffer, one mask buffer) for all its
	// well-formed Add / Remove calls and one buffer for its lookups, overwriting them in place between
	// the calls - the filter must not keep a reference to its argument
	Reuse bool `json:"reuse,omitempty"`
	Big   int  `json:"big,omitempty"`
	BigDrain bool `json:"big_drain,omitempty"`
}

// bigOp is the i-th range of the big fill: distinct /28../32 ranges, 16 addresses apart.
func bigOp(i int) Op {
	return Op{IP: 0x50000000 + uint32(i)<<4 | 0x5, Ones: 28 + i%5}
}

func bigTouched(i, n int) bool {
	return i < 3 || i >= n-3 || (i >= 253 && i <= 258) || (i >= 65533 && i <= 65538) || i%8191 == 0
}

const twinShift = 0x40000000

// bystanders calls the other exported helpers of the package that work on the same kind of value
// (and, inside the package, may share its tables); a filter's answers do not depend on them.
func bystanders(o Op) {
	n := Op{IP: o.IP, Ones: o.Ones}.ipnet() // always a well-formed net: the helpers are not the subject here
	netutil.FirstIP(n)
	netutil.LastIP(n)
	n6 := Op{IP: o.IP, Ones: o.Ones, Form: 1}.ipnet()
	netutil.LastIP(n6)
}

func u2ip(u uint32) net.IP {
	b := make(net.IP, 4)
	binary.BigEndian.PutUint32(b, u)
	return b
}

func maskOf(ones int) uint32 {
	if ones == 0 {
		return 0
	}
	return ^uint32(0) << (32 - ones)
}

func (o Op) ipnet() *net.IPNet {
	switch o.Form {
	case 1:
		ip := make(net.IP, 16)
		ip[0], ip[1] = 0x20, 0x01
		binary.BigEndian.PutUint32(ip[12:], o.IP)
		return &net.IPNet{IP: ip, Mask: net.CIDRMask(96+o.Ones, 128)}
	case 2:
		return &net.IPNet{IP: u2ip(o.IP), Mask: net.CIDRMask(96+o.Ones, 128)}
	case 3:
		return &net.IPNet{IP: u2ip(o.IP), Mask: net.IPMask{255, 0, 255, 0}} // non-contiguous mask
	case 4:
		b := u2ip(o.IP)
		return &net.IPNet{IP: net.IPv4(b[0], b[1], b[2], b[3]), Mask: net.CIDRMask(o.Ones, 32)}
	case 5: // the IPv6 default route ::/0 (prefix length 0, but not an IPv4 net)
		return &net.IPNet{IP: make(net.IP, 16), Mask: net.CIDRMask(0, 128)}
	case 6: // no mask at all (Mask.Size() reports 0,0)
		return &net.IPNet{IP: u2ip(o.IP)}
	case 7: // 4-byte address with the 16-byte all-zero mask
		return &net.IPNet{IP: u2ip(o.IP), Mask: net.CIDRMask(0, 128)}
	}
	return &net.IPNet{IP: u2ip(o.IP), Mask: net.CIDRMask(o.Ones, 32)}
}

type rng struct{ first, last uint32 }

type model struct {
	set      map[[2]uint32]struct{}
	matchAll bool
}

func (m *model) apply(o Op) {
	if o.Ones == 0 {
		m.matchAll = !o.Rem
		return
	}
	k := [2]uint32{o.IP & maskOf(o.Ones), uint32(o.Ones)}
	if o.Rem {
		delete(m.set, k)
	} else {
		m.set[k] = struct{}{}
	}
}

func (m *model) contains(ip uint32) bool {
	if m.matchAll {
		return true
	}
	for k := range m.set {
		if ip&maskOf(int(k[1])) == k[0] {
			return true
		}
	}
	return false
}

func fillerOp(i int) Op {
	// distinct /24../30 ranges in 200.0.0.0/8 .. never overlapping the small universes
	return Op{IP: 200<<24 | uint32(i)<<8 | 0x55, Ones: 24 + i%7}
}

type stats struct {
	probes, probesTrue, ops, invalid, ambiguousAccepted, ambiguousRejected int64
	crossed                                                                bool
}

// runCase executes one sequence against the real filter and the model.
// It returns a description of the first disagreement, or "".
func runCase(cs Case, st *stats) (key, expected, observed string) {
	defer func() {
		if r := recover(); r != nil {
			key, expected, observed = "panic", "no panic", fmt.Sprintf("panic: %v", r)
		}
	}()
	f := netutil.NewIPv4Filter()
	m := &model{set: map[[2]uint32]struct{}{}}
	var f2 *netutil.IPv4Filter
	m2 := &model{set: map[[2]uint32]struct{}{}}
	if cs.Twin {
		f2 = netutil.NewIPv4Filter()
	}
	// twin applies the shifted operation to the second instance
	twin := func(o Op) string {
		if f2 == nil || o.Form != 0 {
			return ""
		}
		o.IP ^= twinShift
		var err error
		if o.Rem {
			err = f2.Remove(o.ipnet())
		} else {
			err = f2.Add(o.ipnet())
		}
		if err != nil {
			return err.Error()
		}
		m2.apply(o)
		return ""
	}
	bystanders(Op{IP: 10<<24 | 1<<16 | 2<<8 | 3, Ones: 8})
	shared := &net.IPNet{IP: make(net.IP, 4), Mask: make(net.IPMask, 4)}
	netOf := func(o Op) *net.IPNet {
		if !cs.Reuse || o.Form != 0 {
			return o.ipnet()
		}
		binary.BigEndian.PutUint32(shared.IP, o.IP)
		binary.BigEndian.PutUint32(shared.Mask, maskOf(o.Ones))
		return shared
	}
	r := rand.New(rand.NewSource(cs.Seed))
	touched := map[rng]struct{}{}
	touch := func(o Op) {
		if o.Ones == 0 {
			return
		}
		first := o.IP & maskOf(o.Ones)
		touched[rng{first, first | ^maskOf(o.Ones)}] = struct{}{}
	}
	adds := 0
	for i := 0; i < cs.Filler; i++ {
		o := fillerOp(i)
		if err := f.Add(netOf(o)); err != nil {
			return "filler-add-error", "nil", err.Error()
		}
		m.apply(o)
		adds++
		if i < 6 || i >= cs.Filler-6 {
			touch(o)
		}
	}
	for i := 0; i < cs.Filler && f2 != nil; i++ {
		if e := twin(fillerOp(i)); e != "" {
			return "filler-add-error", "nil", e
		}
	}
	for i := 0; i < cs.Big; i++ {
		o := bigOp(i)
		if err := f.Add(netOf(o)); err != nil {
			return "big-add-error", "nil", err.Error()
		}
		m.apply(o)
		adds++
		if bigTouched(i, cs.Big) {
			touch(o)
		}
	}
	if cs.Big > 0 {
		st.crossed = true
	}
	if cs.FillerRem > 0 {
		for i := 0; i < cs.Filler; i += cs.FillerRem {
			o := fillerOp(i)
			o.Rem = true
			o.IP ^= 0x3 // other host bits: non-canonical spelling of the same range
			if err := f.Remove(netOf(o)); err != nil {
				return "filler-rem-error", "nil", err.Error()
			}
			m.apply(o)
			if e := twin(o); e != "" {
				return "filler-rem-error", "nil", e
			}
			if i < 40 {
				touch(o)
			}
		}
	}
	probe := func(after string) (string, string, string) {
		addrs := make([]uint32, 0, len(touched)*4+cs.RandProbes)
		for t := range touched {
			addrs = append(addrs, t.first, t.last, t.first-1, t.last+1)
		}
		for i := 0; i < cs.RandProbes; i++ {
			addrs = append(addrs, r.Uint32())
		}
		if f2 != nil {
			for _, a := range addrs[:len(addrs):len(addrs)] {
				addrs = append(addrs, a^twinShift)
			}
			for _, a := range addrs {
				if want, got := m2.contains(a), f2.Contains(u2ip(a)); got != want {
					st.probes++
					return fmt.Sprintf("twin-contains:%v", want), fmt.Sprintf("second filter instance: Contains(%s)=%v %s", u2ip(a), want, after), fmt.Sprintf("%v", got)
				}
			}
			st.probes += int64(len(addrs))
		}
		pbuf := make(net.IP, 4)
		for ai, a := range addrs {
			want := m.contains(a)
			b := u2ip(a)
			if cs.Reuse {
				binary.BigEndian.PutUint32(pbuf, a)
				b = pbuf
			}
			got4 := f.Contains(b)
			got16 := f.Contains(net.IPv4(b[0], b[1], b[2], b[3]))
			st.probes += 2
			if want {
				st.probesTrue += 2
			}
			if got4 != want {
				return fmt.Sprintf("contains4:%v", want), fmt.Sprintf("Contains(%s as 4-byte)=%v %s", b, want, after), fmt.Sprintf("%v", got4)
			}
			if got16 != want {
				return fmt.Sprintf("contains16:%v", want), fmt.Sprintf("Contains(%s as 16-byte)=%v %s", b, want, after), fmt.Sprintf("%v", got16)
			}
			// a genuine IPv6 address that merely ends in the same four bytes is no IPv4 address at all:
			// only the match-all range covers it
			v6 := net.IP{0x20, 0x01, 0x0d, 0xb8, 0, 0, 0, 0, 0, 0, 0, 0, b[0], b[1], b[2], b[3]}
			if got6 := f.Contains(v6); got6 != m.matchAll {
				return fmt.Sprintf("contains-ipv6:%v", m.matchAll), fmt.Sprintf("Contains(%s, a genuine IPv6 address)=%v %s", v6, m.matchAll, after), fmt.Sprintf("%v", got6)
			}
			st.probes++
			// ... also when its sixth group happens to be ffff (only ten zero bytes in front of it make
			// the IPv4-mapped form), and the deprecated IPv4-compatible form ::a.b.c.d is no IPv4 address either
			if ai%3 != 0 {
				continue
			}
			for _, v6 := range []net.IP{
				{0x20, 0x01, 0x0d, 0xb8, 0, 0, 0, 0, 0, 0, 0xff, 0xff, b[0], b[1], b[2], b[3]},
				{0, 0, 0, 0, 0, 0, 0, 0, 0, 1, 0xff, 0xff, b[0], b[1], b[2], b[3]},
				{0, 0, 0, 0, 0, 0, 0, 0, 0, 0, 0, 0, b[0], b[1], b[2], b[3]},
			} {
				if got6 := f.Contains(v6); got6 != m.matchAll {
					return fmt.Sprintf("contains-ipv6:%v", m.matchAll), fmt.Sprintf("Contains(%s, 16 bytes % x: no IPv4 address)=%v %s", v6, []byte(v6), m.matchAll, after), fmt.Sprintf("%v", got6)
				}
				st.probes++
			}
		}
		return "", "", ""
	}
	pe := cs.ProbeEvery
	if pe <= 0 {
		pe = 1
	}
	for i, o := range cs.Ops {
		var err error
		if o.Rem {
			err = f.Remove(netOf(o))
		} else {
			err = f.Add(netOf(o))
		}
		st.ops++
		bystanders(o)
		switch o.Form {
		case 0:
			if err != nil {
				return "valid-rejected", "nil error for " + o.String(), err.Error()
			}
			m.apply(o)
			if e := twin(o); e != "" {
				return "valid-rejected", "nil error for the shifted " + o.String() + " on the second instance", e
			}
			touch(o)
			if !o.Rem && o.Ones > 0 {
				adds++
				if adds > 256 {
					st.crossed = true
				}
			}
		case 4:
			touch(o)
			if err == nil {
				st.ambiguousAccepted++
				m.apply(o)
				if !o.Rem && o.Ones > 0 {
					adds++
				}
			} else if err == netutil.ErrInvalidIPv4CIDR {
				st.ambiguousRejected++
			} else {
				return "ambiguous-other-error", "nil or ErrInvalidIPv4CIDR for " + o.String(), err.Error()
			}
		default:
			st.invalid++
			touch(o)
			if err != netutil.ErrInvalidIPv4CIDR {
				return fmt.Sprintf("invalid-accepted:form%d", o.Form), "ErrInvalidIPv4CIDR for " + o.String(), fmt.Sprint(err)
			}
		}
		if (i+1)%pe == 0 || i == len(cs.Ops)-1 || o.Form != 0 {
			if k, e, ob := probe(fmt.Sprintf("after op %d (%s)", i, o)); k != "" {
				return k, e, ob
			}
		}
	}
	if len(cs.Ops) == 0 {
		if k, e, ob := probe("after fillers"); k != "" {
			return k, e, ob
		}
	}
	if cs.BigDrain {
		for i := cs.Big - 1; i >= 0; i-- {
			o := bigOp(i)
			o.Rem = true
			o.IP ^= 0x2
			if err := f.Remove(netOf(o)); err != nil {
				return "big-rem-error", "nil", err.Error()
			}
			m.apply(o)
			if i == cs.Big/2 {
				if k, e, ob := probe("after half of the big fill was removed again"); k != "" {
					return k, e, ob
				}
			}
		}
		if k, e, ob := probe("after the big fill was removed again"); k != "" {
			return k, e, ob
		}
	}
	return "", "", ""
}

// ---------------------------------------------------------------------------------------

type mon struct{}

func (mon) Name() string { return "ipfilter" }

func (mon) Level(string) (string, string) {
	return "exploration", "operation sequences (exhaustive over a 12-op alphabet up to length 4 (quick) / 5 (thorough), and over a 10-op alphabet of edge ranges (network address 0.0.0.0, top of the address space) up to length 3, and the main alphabet to length 3 on filters whose 200/256/257/300 filler ranges were all removed again, replayed from empty and after 254/255/256 filler adds so that they run in list mode, across the list→map migration and in map mode; plus seeded random sequences over a small universe steered across the migration; plus histories on filters holding 65 535 .. 70 000 (thorough: 300 000) ranges, which are then all removed again), every boundary address of every touched range probed in 4- and 16-byte form (and as the tail of genuine IPv6 addresses, also ones whose sixth group is ffff, and of the IPv4-compatible form, which only 0.0.0.0/0 covers; in a quarter of the sequences the caller recycles one net.IPNet and one lookup buffer, overwriting them in place between the calls) against a set-of-prefixes model; the package's other exported helpers (FirstIP/LastIP) are called between the operations, and in 1/8 (exhaustive) resp. 1/3 (random) of the sequences a second filter instance receives the same history shifted into another address space, each instance probed with both spaces against its own model; distinct_nontrivial = distinct (filler, sequence) pairs whose sequence changes the model at least once"
}

func (mon) Assumptions(string) []string {
	return []string{"a net.IPNet with a 16-byte IPv4 address and a 4-byte mask may be either rejected without effect or taken as the IPv4 range (the statement does not fix it)"}
}

type shardArgs struct {
	Kind   string `json:"kind"` // "exh" | "rand" | "big"
	MaxLen int    `json:"max_len,omitempty"`
	Part   int    `json:"part"`
	Parts  int    `json:"parts"`
	Count  int    `json:"count,omitempty"`
}

func (mon) Plan(prop, tier string, seed int64) []drv.Shard {
	var out []drv.Shard
	maxLen, nrand, parts := 4, 2000, 16
	if tier == "thorough" {
		maxLen, nrand = 5, 30000
	}
	for p := 0; p < parts; p++ {
		a, _ := json.Marshal(shardArgs{Kind: "exh", MaxLen: maxLen, Part: p, Parts: parts})
		out = append(out, drv.Shard{Name: fmt.Sprintf("exh-%d", p), Args: a})
	}
	for p := 0; p < parts; p++ {
		a, _ := json.Marshal(shardArgs{Kind: "rand", Part: p, Parts: parts, Count: nrand / parts})
		out = append(out, drv.Shard{Name: fmt.Sprintf("rand-%d", p), Args: a})
	}
	bigs := []int{65535, 65536, 65537, 70000}
	if tier == "thorough" {
		bigs = append(bigs, 131073, 300000, 65536, 65537)
	}
	for p, n := range bigs {
		a, _ := json.Marshal(shardArgs{Kind: "big", Part: p, Parts: len(bigs), Count: n})
		out = append(out, drv.Shard{Name: fmt.Sprintf("big-%d", p), Args: a})
	}
	return out
}

// the 6-range universe of the exhaustive sweep: nesting, non-canonical host bits, /0, /1, /32
var universe = []Op{
	{IP: 10<<24 | 5, Ones: 8},                 // 10.0.0.5/8
	{IP: 10<<24 | 1<<16 | 2<<8 | 3, Ones: 16}, // 10.1.2.3/16
	{IP: 10<<24 | 1<<16 | 2<<8 | 3, Ones: 32}, // 10.1.2.3/32
	{IP: 0x01020304, Ones: 0},                 // 1.2.3.4/0
	{IP: 0xFFFFFFFF, Ones: 1},                 // 255.255.255.255/1
	{IP: 10<<24 | 0x7f<<16, Ones: 9},          // 10.127.0.0/9
}

// a second, small universe: ranges whose network address is 0.0.0.0 (a slot or key of value 0 must
// not be taken for "empty") and the top of the address space (first + size wraps around)
var universeEdge = []Op{
	{IP: 0<<24 | 1<<16 | 2<<8 | 3, Ones: 8}, // 0.1.2.3/8
	{IP: 5, Ones: 12},                       // 0.0.0.5/12
	{IP: 0, Ones: 32},                       // 0.0.0.0/32
	{IP: 0xFFFFFF07, Ones: 24},              // 255.255.255.7/24
	{IP: 0xFFFFFFFF, Ones: 32},              // 255.255.255.255/32
}

func alphabetOf(univ []Op) []Op {
	var al []Op
	for _, u := range univ {
		al = append(al, u)
		r := u
		r.Rem = true
		if r.Ones < 32 {
			r.IP ^= 1
		}
		al = append(al, r)
	}
	return al
}

func alphabet() []Op {
	var al []Op
	for _, u := range universe {
		al = append(al, u)
		r := u
		r.Rem = true
		if r.Ones < 32 {
			r.IP ^= 1 // remove under another spelling
		}
		al = append(al, r)
	}
	return al
}

func seqKey(cs Case) string {
	var sb strings.Builder
	fmt.Fprintf(&sb, "f%d/%d:", cs.Filler, cs.FillerRem)
	if cs.Big > 0 {
		fmt.Fprintf(&sb, "big%d:", cs.Big)
	}
	if cs.Reuse {
		sb.WriteString("reuse:")
	}
	for _, o := range cs.Ops {
		sb.WriteString(o.String())
		sb.WriteByte(';')
	}
	return sb.String()
}

func changesModel(cs Case) bool {
	m := &model{set: map[[2]uint32]struct{}{}}
	for _, o := range cs.Ops {
		if o.Form != 0 {
			continue
		}
		before := len(m.set)
		ma := m.matchAll
		m.apply(o)
		if len(m.set) != before || m.matchAll != ma {
			return true
		}
	}
	return false
}

func (mn mon) Run(sh drv.Shard, c *drv.Ctx) {
	var a shardArgs
	json.Unmarshal(sh.Args, &a)
	st := &stats{}
	exec := func(cs Case) bool {
		c.Progress(seqKey(cs), false)
		k, e, o := runCase(cs, st)
		c.Eval(1)
		if changesModel(cs) {
			c.DistinctStr(seqKey(cs))
		}
		if k != "" {
			c.Violate(k, cs, e, o)
			return c.NumViolations() < 5
		}
		return true
	}
	switch a.Kind {
	case "exh":
		al := alphabet()
		fillers := [][2]int{{0, 0}, {254, 5}, {255, 5}, {256, 5}, {255, 0}}
		idx := 0
		var rec func(prefix []Op, depth int) bool
		rec = func(prefix []Op, depth int) bool {
			if len(prefix) > 0 {
				idx++
				if idx%a.Parts == a.Part {
					for _, fl := range fillers {
						cs := Case{Filler: fl[0], FillerRem: fl[1], Ops: append([]Op(nil), prefix...), ProbeEvery: 1, RandProbes: 2, Seed: sh.Seed + int64(idx), Twin: (idx/a.Parts)%8 == 0, Reuse: (idx/a.Parts)%4 == 1}
						if c.NumSamples() < 2 && len(prefix) == a.MaxLen && fl[0] == 255 {
							c.Sample(map[string]any{"filler": fl, "ops": opsStrings(cs.Ops)})
						}
						if !exec(cs) {
							return false
						}
					}
				}
			}
			if depth == a.MaxLen {
				return true
			}
			for _, o := range al {
				if !rec(append(prefix, o), depth+1) {
					return false
				}
			}
			return true
		}
		rec(nil, 0)
		// the edge universe, to length 3, same fillers
		al = alphabetOf(universeEdge)
		idx = 0
		maxEdge := 3
		var recE func(prefix []Op, depth int) bool
		recE = func(prefix []Op, depth int) bool {
			if len(prefix) > 0 {
				idx++
				if idx%a.Parts == a.Part {
					for _, fl := range fillers {
						cs := Case{Filler: fl[0], FillerRem: fl[1], Ops: append([]Op(nil), prefix...), ProbeEvery: 1, RandProbes: 2, Seed: sh.Seed + int64(idx), Twin: (idx/a.Parts)%8 == 0}
						if !exec(cs) {
							return false
						}
					}
				}
			}
			if depth == maxEdge {
				return true
			}
			for _, o := range al {
				if !recE(append(prefix, o), depth+1) {
					return false
				}
			}
			return true
		}
		recE(nil, 0)
		// drained filters: every filler is removed again before the ops (the filter is empty, in list
		// mode with all slots dead, or in map mode with every map empty), then sequences to length 3
		al = alphabet()
		idx = 0
		drained := [][2]int{{200, 1}, {256, 1}, {257, 1}, {300, 1}}
		var recD func(prefix []Op, depth int) bool
		recD = func(prefix []Op, depth int) bool {
			if len(prefix) > 0 {
				idx++
				if idx%a.Parts == a.Part {
					for _, fl := range drained {
						cs := Case{Filler: fl[0], FillerRem: fl[1], Ops: append([]Op(nil), prefix...), ProbeEvery: 1, RandProbes: 2, Seed: sh.Seed + int64(idx)}
						if !exec(cs) {
							return false
						}
					}
				}
			}
			if depth == 3 {
				return true
			}
			for _, o := range al {
				if !recD(append(prefix, o), depth+1) {
					return false
				}
			}
			return true
		}
		recD(nil, 0)
	case "big":
		// one long history per shard on a filter holding more than 2^16 ranges: a random sequence over the
		// small universe, then the big fill is removed again
		r := rand.New(rand.NewSource(sh.Seed*7919 + int64(a.Part)))
		for _, fl := range []int{0, 255} {
			cs := randCase(r)
			if len(cs.Ops) > 300 {
				cs.Ops = cs.Ops[:300]
			}
			cs.Filler, cs.Big, cs.BigDrain, cs.ProbeEvery, cs.RandProbes = fl, a.Count, true, 30, 8
			cs.Reuse = fl != 0
			c.Sample(map[string]any{"filler": cs.Filler, "big_fill": cs.Big, "ops": len(cs.Ops)})
			if !exec(cs) {
				break
			}
		}
	case "rand":
		r := rand.New(rand.NewSource(sh.Seed*1000003 + int64(a.Part)))
		for i := 0; i < a.Count; i++ {
			cs := randCase(r)
			cs.Twin = i%3 == 0
			cs.Reuse = i%4 == 1
			if c.NumSamples() < 2 {
				ops := opsStrings(cs.Ops)
				if len(ops) > 12 {
					ops = append(ops[:12], fmt.Sprintf("… %d ops in total", len(cs.Ops)))
				}
				c.Sample(map[string]any{"filler": cs.Filler, "ops": ops})
			}
			if !exec(cs) {
				break
			}
		}
	}
	c.Add("probes", st.probes)
	c.Add("probes_expected_true", st.probesTrue)
	c.Add("ops", st.ops)
	c.Add("invalid_cidr_ops", st.invalid)
	c.Add("ambiguous_accepted", st.ambiguousAccepted)
	c.Add("ambiguous_rejected", st.ambiguousRejected)
}

func opsStrings(ops []Op) []string {
	s := make([]string, len(ops))
	for i, o := range ops {
		s[i] = o.String()
	}
	return s
}

// randCase builds a long sequence over a small universe: every prefix length reachable,
// 3-4 network values per length, steered so that the total number of adds crosses 256 with
// removals before, at and after the switch.
func randCase(r *rand.Rand) Case {
	n := 250 + r.Intn(400)
	cs := Case{ProbeEvery: 1 + r.Intn(25), RandProbes: 4, Seed: r.Int63()}
	nets := func(ones int) uint32 {
		vals := []uint32{0x0A000000, 0x0AFFFFFF, 0xC0A80101, 0x7FFFFFFF}
		v := vals[r.Intn(len(vals))]
		if r.Intn(3) == 0 && ones > 0 {
			v ^= 1 << uint(32-ones) // neighbour block
		}
		if r.Intn(4) == 0 {
			v ^= uint32(r.Intn(8)) << 20
		}
		return v
	}
	uniq := uint32(0)
	adds := 0
	for i := 0; i < n; i++ {
		o := Op{Ones: r.Intn(33)}
		if r.Intn(40) != 0 && o.Ones == 0 {
			o.Ones = 1 + r.Intn(32) // /0 only now and then
		}
		o.IP = nets(o.Ones)
		switch x := r.Intn(100); {
		case x < 55:
			// add; half of the adds use fresh /28../32 ranges so that the count really grows
			if r.Intn(2) == 0 {
				uniq++
				o.Ones = 28 + r.Intn(5)
				o.IP = 0x64000000 | uniq<<4 | uint32(r.Intn(16))
			}
			adds++
		case x < 90:
			o.Rem = true
			if r.Intn(3) == 0 && uniq > 0 {
				// remove one of the fresh ranges (with whatever prefix length: often absent)
				o.Ones = 28 + r.Intn(5)
				o.IP = 0x64000000 | (1+uint32(r.Intn(int(uniq))))<<4 | uint32(r.Intn(16))
			}
		case x < 94:
			o.Form = []int{1, 2, 3, 5, 6, 7}[r.Intn(6)]
			o.Rem = r.Intn(2) == 0
		default:
			o.Form = 4
			o.Rem = r.Intn(2) == 0
		}
		cs.Ops = append(cs.Ops, o)
		// removals exactly around the switch
		if adds >= 254 && adds <= 258 && r.Intn(2) == 0 && len(cs.Ops) > 3 {
			prev := cs.Ops[r.Intn(len(cs.Ops))]
			if prev.Form == 0 {
				prev.Rem = true
				cs.Ops = append(cs.Ops, prev)
			}
		}
	}
	return cs
}

func (mn mon) Replay(v drv.Violation, c *drv.Ctx) {
	var cs Case
	if err := json.Unmarshal(v.Case, &cs); err != nil {
		c.Inconclusive("replay: cannot decode case: " + err.Error())
		return
	}
	st := &stats{}
	k, e, o := runCase(cs, st)
	c.Eval(1)
	if k != "" {
		c.Violate(k, cs, e, o)
	}
}

func main() { drv.Main(mon{}) }
