// Monitor ipfilterconc (C12): IPv4Filter under concurrent updates and lookups.
// Oracle: an interval checker that encodes the statement exactly (not linearizability): stable
// ranges are always seen, never-present addresses are never seen (unless a 0.0.0.0/0 interval
// overlaps the call), each writer sees its own updates, and after the run the filter equals the
// per-goroutine sequential model. The same binary runs under the race detector.
// See DESIGN.md §3 C12.
package main

import (
	"encoding/binary"
	"encoding/json"
	"fmt"
	"math/rand"
	"net"
	"runtime"
	"strings"
	"sync"
	"sync/atomic"

	"github.com/whoisnian/glb/util/netutil"

	"verif/internal/drv"
)

type Case struct {
	Writers int  `json:"writers"`
	Readers int  `json:"readers"`
	Ops     int  `json:"ops"` // per writer
	Toggler bool `json:"toggler"`
	NoClock bool `json:"no_clock,omitempty"` // race runs: no logical clock (fewer happens-before edges)
	// Switch: a round aimed at the list-to-map switch: the list is filled to exactly 256 entries
	// first; then one writer performs the 257th Add while the other writers remove ranges they
	// added before and readers probe. Unique: the switching Add uses a prefix length nothing else has.
	Switch bool `json:"switch,omitempty"`
	Unique bool `json:"unique,omitempty"`
	// Toggle: one writer toggles one range, watchers look up one fixed address inside it (Ops =
	// number of toggles; Unique = filter already in map mode)
	Toggle bool `json:"toggle,omitempty"`
	// Witness: other filter instances live and work in the same process during the trial (one long-lived
	// in map mode, and fresh ones that are filled across the list-to-map switch over and over), in an
	// address space of their own (90.0.0.0/8). Instances share nothing: each answers by its own history.
	Witness bool  `json:"witness,omitempty"`
	Seed    int64 `json:"seed"`
}

// notIPv4: arguments Add and Remove have to refuse.
var notIPv4 = []*net.IPNet{
	{IP: make(net.IP, 16), Mask: net.CIDRMask(0, 128)},                                          // ::/0
	{IP: net.IP{0xfd, 0, 0, 0, 0, 0, 0, 0, 0, 0, 0, 0, 0, 0, 0, 0}, Mask: net.CIDRMask(8, 128)}, // fd00::/8
	{IP: net.IP{192, 0, 2, 0}},                                   // no mask
	{IP: net.IP{192, 0, 2, 0}, Mask: net.IPMask{255, 0, 255, 0}}, // non-contiguous mask
	{IP: net.IP{192, 0, 2, 0}, Mask: net.CIDRMask(0, 128)},       // 16-byte zero mask
}

// startWitness runs the other instances (see Case.Witness) until the returned function is called;
// that function returns a description of the first wrong answer of a witness instance, or "".
func startWitness(on bool) func() string {
	if !on {
		return func() string { return "" }
	}
	wcidr := func(i int) *net.IPNet { return cidr(90<<24|uint32(i)<<8|0x3, 24) }
	check := func(f *netutil.IPv4Filter, n int, who string) string {
		for i := 0; i < n; i += 7 {
			if a := 90<<24 | uint32(i)<<8 | 0x42; !f.Contains(u2ip(a)) {
				return fmt.Sprintf("%s: Contains(%s)=false, a range only this instance added and never removed", who, u2ip(a))
			}
		}
		for _, a := range []uint32{20<<24 | 3<<16 | 9, 40<<24 | 1<<8 | 9, 41<<24 | 2<<8 | 1, 90<<24 | 0xffff<<8 | 1} {
			if f.Contains(u2ip(a)) {
				return fmt.Sprintf("%s: Contains(%s)=true, an address this instance never received (other instances did)", who, u2ip(a))
			}
		}
		return ""
	}
	old := netutil.NewIPv4Filter()
	for i := 0; i < 300; i++ {
		old.Add(wcidr(i))
	}
	var stop atomic.Bool
	res := make(chan string, 1)
	go func() {
		var bad string
		defer func() {
			if p := recover(); p != nil && bad == "" {
				bad = fmt.Sprint("witness instance panicked: ", p)
			}
			res <- bad
		}()
		for bad == "" && !stop.Load() {
			fresh := netutil.NewIPv4Filter()
			for i := 0; i < 260 && bad == ""; i++ {
				fresh.Add(wcidr(i))
				if i >= 254 { // around its own switch
					bad = check(fresh, i+1, "fresh instance")
				}
			}
			if bad == "" {
				bad = check(old, 300, "long-lived instance")
			}
			runtime.Gosched()
		}
	}()
	return func() string {
		stop.Store(true)
		if b := <-res; b != "" {
			return b
		}
		return check(old, 300, "long-lived instance (after the trial)")
	}
}

func u2ip(u uint32) net.IP {
	b := make(net.IP, 4)
	binary.BigEndian.PutUint32(b, u)
	return b
}

// probeIP renders the address in one of the forms a lookup may be given: 4-byte, 16-byte
// (IPv4-mapped, what net.ParseIP returns). form 2 is a genuine IPv6 address that ends in the same
// four bytes: no IPv4 range covers it, only 0.0.0.0/0 - which matches everything - does.
func probeIP(u uint32, form int) net.IP {
	switch form {
	case 1:
		return u2ip(u).To16()
	case 2:
		b := net.IP{0x20, 0x01, 0x0d, 0xb8, 0, 0, 0, 0, 0, 0, 0, 0, 0, 0, 0, 0}
		binary.BigEndian.PutUint32(b[12:], u)
		if u&2 != 0 {
			b[10], b[11] = 0xff, 0xff // sixth group ffff, but no ten zero bytes in front: still no IPv4-mapped address
		}
		return b
	}
	return u2ip(u)
}

func mask(ones int) uint32 {
	if ones == 0 {
		return 0
	}
	return ^uint32(0) << (32 - ones)
}

func cidr(ip uint32, ones int) *net.IPNet {
	return &net.IPNet{IP: u2ip(ip), Mask: net.CIDRMask(ones, 32)}
}

type pfx struct {
	ip   uint32
	ones int
}

type wmodel map[pfx]struct{}

func (m wmodel) contains(a uint32) bool {
	for p := range m {
		if a&mask(p.ones) == p.ip {
			return true
		}
	}
	return false
}

type interval struct{ s, e uint64 }

type suspicious struct {
	c0, c1 uint64
	what   string
}

type stats struct {
	probes, probesOverlapWrite, probesDuringMigration, togglerIntervals, writerOps, selfChecks, trials, crossed int64
	neverTrueExcused, switchRounds, toggleRounds, toggleJudged                                                  int64
}

const nStable = 32

// stable range i: 20.i.0.0/16 ; never: 30.0.0.0/8 ; writer w owns 40+w.0.0.0/8
func stableAddr(r *rand.Rand) uint32 {
	return 20<<24 | uint32(r.Intn(nStable))<<16 | uint32(r.Intn(65536))
}
func neverAddr(r *rand.Rand) uint32 { return 30<<24 | uint32(r.Intn(1<<24)) }

// runCase adds one more stable range, 128.0.0.0/1 (the shortest prefix that is not match-all), and
// also probes the bottom of the address space, which nothing ever covers.
func stableAddrWide(r *rand.Rand) uint32 {
	if r.Intn(8) == 0 {
		return 1<<31 | uint32(r.Int31())
	}
	return stableAddr(r)
}
func neverAddrWide(r *rand.Rand) uint32 {
	if r.Intn(8) == 0 {
		return uint32(r.Intn(3)) * uint32(r.Intn(1<<16)) // 0.0.0.0 in a third of these, else 0.0.x.y / 0.1.x.y
	}
	return neverAddr(r)
}

// runSwitch: see Case.Switch.
func runSwitch(cs Case, st *stats) (key, expected, observed string) {
	f := netutil.NewIPv4Filter()
	for i := 0; i < nStable; i++ {
		f.Add(cidr(20<<24|uint32(i)<<16, 16))
	}
	w := cs.Writers
	per := (256 - nStable) / w
	models := make([]wmodel, w)
	n := nStable
	for j := 0; j < w; j++ {
		models[j] = wmodel{}
		cnt := per
		if j == w-1 {
			cnt = 256 - n
		}
		for i := 0; i < cnt; i++ {
			ip := uint32(40+j)<<24 | uint32(i+1)<<8
			f.Add(cidr(ip|0x7, 24))
			models[j][pfx{ip, 24}] = struct{}{}
			n++
		}
	}
	var wg, rg sync.WaitGroup
	var stop atomic.Bool
	errs := make([]string, w+cs.Readers)
	start := make(chan struct{})
	r0 := rand.New(rand.NewSource(cs.Seed))
	nrem := 8 + r0.Intn(40)
	swOnes, swIP := 24, uint32(40)<<24|uint32(250)<<8
	if cs.Unique {
		swOnes, swIP = 12, uint32(40)<<24|uint32(0xA0)<<16
	}
	wg.Add(1)
	go func() { // the switching writer
		defer wg.Done()
		defer func() {
			if p := recover(); p != nil {
				errs[0] = fmt.Sprint("panic: ", p)
			}
		}()
		<-start
		for k := 0; k < int(cs.Seed%7); k++ {
			runtime.Gosched()
		}
		if err := f.Add(cidr(swIP|0x1, swOnes)); err != nil {
			errs[0] = err.Error()
			return
		}
		models[0][pfx{swIP & mask(swOnes), swOnes}] = struct{}{}
		probe := swIP&mask(swOnes) | 0x00000f01&^mask(swOnes)
		if !f.Contains(u2ip(probe)) {
			errs[0] = fmt.Sprintf("own-update-lost: Contains(%s)=false right after Add(%s/%d) returned (the Add that makes the filter leave list mode)", u2ip(probe), u2ip(swIP), swOnes)
		}
	}()
	for j := 1; j < w; j++ {
		wg.Add(1)
		go func(j int) {
			defer wg.Done()
			defer func() {
				if p := recover(); p != nil {
					errs[j] = fmt.Sprint("panic: ", p)
				}
			}()
			<-start
			if cs.Seed%3 != 0 {
				// an Add racing with the switching Add: both find the list full
				ip := uint32(40+j)<<24 | uint32(251)<<8
				if err := f.Add(cidr(ip|0x3, 26)); err != nil {
					errs[j] = err.Error()
					return
				}
				models[j][pfx{ip & mask(26), 26}] = struct{}{}
				if !f.Contains(u2ip(ip | 1)) {
					errs[j] = fmt.Sprintf("own-update-lost: Contains(%s)=false right after the writer's own Add returned (two Adds met the full list)", u2ip(ip|1))
					return
				}
			}
			for i := 0; i < nrem && i < per; i++ {
				ip := uint32(40+j)<<24 | uint32(i+1)<<8
				if err := f.Remove(cidr(ip|0x9, 24)); err != nil {
					errs[j] = err.Error()
					return
				}
				delete(models[j], pfx{ip, 24})
			}
		}(j)
	}
	for rd := 0; rd < cs.Readers; rd++ {
		rg.Add(1)
		go func(rd int) {
			defer rg.Done()
			defer func() {
				if p := recover(); p != nil {
					errs[w+rd] = fmt.Sprint("panic: ", p)
				}
			}()
			r := rand.New(rand.NewSource(cs.Seed*977 + int64(rd)))
			<-start
			for !stop.Load() {
				a := stableAddr(r)
				if !f.Contains(u2ip(a)) {
					errs[w+rd] = fmt.Sprintf("stable-missed: Contains(%s)=false during the list-to-map switch", u2ip(a))
					return
				}
				if f.Contains(u2ip(neverAddr(r))) {
					errs[w+rd] = "never-seen: a never-added address was reported during the list-to-map switch"
					return
				}
			}
		}(rd)
	}
	witness := startWitness(cs.Witness)
	close(start)
	wg.Wait()
	stop.Store(true)
	rg.Wait()
	if b := witness(); b != "" {
		return "instances-interfere", "filter instances are independent of each other", b
	}
	st.trials++
	st.switchRounds++
	st.crossed++
	for _, e := range errs {
		if e != "" {
			k := e
			if i := strings.IndexByte(e, ':'); i > 0 {
				k = e[:i]
			}
			return "switch:" + k, "consistent behaviour across the list-to-map switch", e
		}
	}
	for j := 0; j < w; j++ {
		cnt := per
		if j == w-1 {
			cnt = 256 - nStable - per*(w-1)
		}
		for i := 0; i < cnt; i++ {
			a := uint32(40+j)<<24 | uint32(i+1)<<8 | 0x55
			if got, want := f.Contains(u2ip(a)), models[j].contains(a); got != want {
				what := "final-removed-range-back"
				if want {
					what = "final-missing"
				}
				return "switch:" + what, fmt.Sprintf("after the run Contains(%s)=%v by writer %d's own operation order (it %s this /24 while another writer's Add switched the filter to maps)", u2ip(a), want, j, map[bool]string{true: "kept", false: "removed"}[want]), fmt.Sprint(got)
			}
		}
	}
	if !f.Contains(u2ip(swIP&mask(swOnes) | 1)) {
		return "switch:final-missing", "the range whose Add switched the filter is present afterwards", "false"
	}
	for j := 1; j < w; j++ {
		a := uint32(40+j)<<24 | uint32(251)<<8 | 2
		if got, want := f.Contains(u2ip(a)), models[j].contains(a); got != want {
			return "switch:final-missing", fmt.Sprintf("after the run Contains(%s)=%v: writer %d added that /26 while another writer's Add switched the filter to maps", u2ip(a), want, j), fmt.Sprint(got)
		}
	}
	return "", "", ""
}

// runToggle: one writer toggles a single range (Add / Remove, with short quiet periods) while
// watcher goroutines look up ONE fixed address inside it over and over. The writer publishes a
// phase counter: even = quiescent (membership known), odd = an update is in progress. A lookup
// whose phase reading is the same even number before and after the call ran entirely inside a
// quiescent period, so its answer is fixed by the statement.
func runToggle(cs Case, st *stats) (key, expected, observed string) {
	f := netutil.NewIPv4Filter()
	for i := 0; i < nStable; i++ {
		f.Add(cidr(20<<24|uint32(i)<<16, 16))
	}
	if cs.Unique { // the same in map mode
		for i := 0; i < 300; i++ {
			f.Add(cidr(60<<24|uint32(i)<<8, 24))
		}
	}
	rng := cidr(10<<24|20<<16, 16)
	addr := u2ip(10<<24 | 20<<16 | 30<<8 | 40)
	var phase atomic.Uint64 // even: quiescent; (phase/2)%2 == 1: range present
	var stop atomic.Bool
	var rg sync.WaitGroup
	errs := make([]string, cs.Readers)
	judged := make([]int64, cs.Readers)
	for rd := 0; rd < cs.Readers; rd++ {
		rg.Add(1)
		go func(rd int) {
			defer rg.Done()
			defer func() {
				if p := recover(); p != nil {
					errs[rd] = fmt.Sprint("panic: ", p)
				}
			}()
			other := u2ip(20<<24 | uint32(rd)<<16 | 5)
			for i := 0; !stop.Load(); i++ {
				p0 := phase.Load()
				got := f.Contains(addr)
				p1 := phase.Load()
				if p0 == p1 && p0%2 == 0 {
					judged[rd]++
					if want := (p0/2)%2 == 1; got != want {
						errs[rd] = fmt.Sprintf("Contains(%s)=%v during a quiescent period in which 10.20.0.0/16 was %s (phase %d; the lookup began and ended inside it)", addr, got, map[bool]string{true: "present", false: "absent"}[want], p0)
						return
					}
				}
				if i%3 == 0 {
					f.Contains(other) // another address in between
				}
				if i%4 == 0 {
					runtime.Gosched() // keep the writer scheduled when there are more watchers than processors
				}
			}
		}(rd)
	}
	r := rand.New(rand.NewSource(cs.Seed))
	for i := 0; i < cs.Ops; i++ {
		phase.Add(1) // odd: updating
		var err error
		if i%2 == 0 {
			err = f.Add(rng)
		} else {
			err = f.Remove(rng)
		}
		phase.Add(1) // even: quiescent, membership = (phase/2)%2
		if err != nil {
			stop.Store(true)
			rg.Wait()
			return "toggle:op-error", "nil", err.Error()
		}
		for k := r.Intn(40); k > 0; k-- { // quiet period of varying length
			runtime.Gosched()
		}
	}
	stop.Store(true)
	rg.Wait()
	st.trials++
	st.toggleRounds += int64(cs.Ops)
	for rd := range errs {
		st.toggleJudged += judged[rd]
		if errs[rd] != "" {
			return "toggle:stale-lookup", "a lookup that runs entirely while a range is present (absent) returns true (false)", errs[rd]
		}
	}
	return "", "", ""
}

func runCase(cs Case, st *stats) (key, expected, observed string) {
	if cs.Switch {
		return runSwitch(cs, st)
	}
	if cs.Toggle {
		return runToggle(cs, st)
	}
	f := netutil.NewIPv4Filter()
	for i := 0; i < nStable; i++ {
		if err := f.Add(cidr(20<<24|uint32(i)<<16|0x1234, 16)); err != nil {
			return "setup", "nil", err.Error()
		}
	}
	if err := f.Add(cidr(1<<31|0x00c0ffee, 1)); err != nil {
		return "setup", "nil", err.Error()
	}
	var clock, adds, writesInFlight atomic.Uint64
	adds.Store(nStable + 1)
	var mig [2]atomic.Uint64 // logical interval of the Add call that makes the filter leave list mode
	var stop atomic.Bool
	var wg, rg sync.WaitGroup
	type wres struct {
		model        wmodel
		key, exp, ob string
		susp         []suspicious
		ops, self    int64
	}
	type rres struct {
		key, exp, ob string
		susp         []suspicious
		probes       int64
		overlapW     int64
		intervals    [][2]uint64 // only probes that straddle the migration are kept
	}
	wr := make([]wres, cs.Writers)
	rr := make([]rres, cs.Readers)
	var toggles []interval
	var togglerErr atomic.Value // string: first wrong answer inside a match-all interval
	stamp := func() uint64 {
		if cs.NoClock {
			return 0
		}
		return clock.Add(1)
	}
	start := make(chan struct{})
	for w := 0; w < cs.Writers; w++ {
		wg.Add(1)
		go func(w int) {
			defer wg.Done()
			res := &wr[w]
			defer func() {
				if p := recover(); p != nil {
					res.key, res.exp, res.ob = "panic:writer", "no panic", fmt.Sprint(p)
				}
			}()
			r := rand.New(rand.NewSource(cs.Seed*31 + int64(w)))
			m := wmodel{}
			res.model = m
			base := uint32(40+w) << 24
			fresh := uint32(0)
			<-start
			for i := 0; i < cs.Ops; i++ {
				ones := 12 + r.Intn(21)
				var ip uint32
				if r.Intn(3) == 0 || fresh == 0 {
					fresh++
					ip = base | fresh<<8 // new /24-or-longer block: the number of list slots really grows
					if ones < 24 {
						ones = 24 + r.Intn(9)
					}
				} else {
					ip = base | (1+uint32(r.Intn(int(fresh))))<<8 | uint32(r.Intn(256))
				}
				if cs.Witness && i%9 == 4 {
					// "config reload" noise: networks that are not IPv4 CIDRs (prefix length 0 among them)
					// are refused and change nothing - neither this writer's ranges nor the toggler's /0
					bad := notIPv4[(i/9+w)%len(notIPv4)]
					var err error
					if i%2 == 0 {
						err = f.Add(bad)
					} else {
						err = f.Remove(bad)
					}
					if err != netutil.ErrInvalidIPv4CIDR {
						res.key, res.exp, res.ob = "invalid-accepted", fmt.Sprintf("ErrInvalidIPv4CIDR for Add/Remove(%v)", bad), fmt.Sprint(err)
						return
					}
				}
				p := pfx{ip & mask(ones), ones}
				rem := r.Intn(3) == 0
				writesInFlight.Add(1)
				var err error
				if rem {
					err = f.Remove(cidr(ip, ones))
					delete(m, p)
				} else {
					n := adds.Add(1)
					var c0 uint64
					if n == 257 {
						c0 = stamp()
					}
					err = f.Add(cidr(ip, ones))
					if n == 257 {
						mig[0].Store(c0)
						mig[1].Store(stamp())
					}
					m[p] = struct{}{}
				}
				writesInFlight.Add(^uint64(0))
				res.ops++
				if err != nil {
					res.key, res.exp, res.ob = "op-error", "nil", err.Error()
					return
				}
				// the writer sees its own update (other writers never touch its ranges)
				probe := p.ip | (^mask(ones) & r.Uint32())
				want := m.contains(probe)
				c0 := stamp()
				got := f.Contains(probeIP(probe, i&1))
				c1 := stamp()
				res.self++
				if got != want {
					if want {
						res.key, res.exp, res.ob = "own-update-lost", fmt.Sprintf("writer %d: Contains(%s)=true right after its own Add/Remove sequence", w, u2ip(probe)), "false"
						return
					}
					res.susp = append(res.susp, suspicious{c0, c1, fmt.Sprintf("writer %d: Contains(%s)=true after removing %s/%d", w, u2ip(probe), u2ip(p.ip), ones)})
				}
			}
		}(w)
	}
	for rd := 0; rd < cs.Readers; rd++ {
		rg.Add(1)
		go func(rd int) {
			defer rg.Done()
			res := &rr[rd]
			defer func() {
				if p := recover(); p != nil {
					res.key, res.exp, res.ob = "panic:reader", "no panic", fmt.Sprint(p)
				}
			}()
			r := rand.New(rand.NewSource(cs.Seed*131 + int64(rd)))
			<-start
			for !stop.Load() {
				res.probes++
				inflight := writesInFlight.Load() > 0
				if r.Intn(2) == 0 {
					a := stableAddrWide(r)
					c0 := stamp()
					got := f.Contains(probeIP(a, int(res.probes>>1&1)))
					c1 := stamp()
					if !got {
						res.key, res.exp, res.ob = "stable-missed", fmt.Sprintf("Contains(%s)=true: its /16 is present for the whole call", u2ip(a)),
							fmt.Sprintf("false (logical interval [%d,%d], migration at [%d,%d])", c0, c1, mig[0].Load(), mig[1].Load())
						return
					}
					if len(res.intervals) < 4096 {
						res.intervals = append(res.intervals, [2]uint64{c0, c1})
					}
				} else {
					a, form := neverAddrWide(r), int(res.probes>>1%3)
					if form == 2 && r.Intn(2) == 0 {
						a = stableAddrWide(r) // as the tail of an IPv6 address even a stable address is covered by nothing
					}
					c0 := stamp()
					got := f.Contains(probeIP(a, form))
					c1 := stamp()
					if got {
						if cs.NoClock && cs.Toggler {
							continue // cannot be judged without the clock
						}
						res.susp = append(res.susp, suspicious{c0, c1, fmt.Sprintf("Contains(%s)=true: no range ever added covers it", probeIP(a, form))})
					}
				}
				if inflight || writesInFlight.Load() > 0 {
					res.overlapW++
				}
			}
		}(rd)
	}
	var tg sync.WaitGroup
	if cs.Toggler {
		tg.Add(1)
		go func() {
			defer tg.Done()
			all := cidr(0, 0)
			<-start
			for i := 0; !stop.Load(); i++ {
				s := stamp()
				f.Add(all)
				for k := 0; k < 50; k++ {
					// 0.0.0.0/0 is present from before this call until after it (only this goroutine
					// toggles it): whatever the writers are doing, the lookup is covered
					if !f.Contains(u2ip(30<<24 | uint32(k))) {
						togglerErr.Store(fmt.Sprintf("matchall-lost: Contains(%s)=false while 0.0.0.0/0 was present for the whole call (writers add and remove other ranges meanwhile)", u2ip(30<<24|uint32(k))))
					}
				}
				f.Remove(all)
				e := stamp()
				toggles = append(toggles, interval{s, e})
				for k := 0; k < 400 && !stop.Load(); k++ {
					f.Contains(u2ip(30<<24 | uint32(k)))
				}
			}
		}()
	}
	witness := startWitness(cs.Witness)
	close(start)
	wg.Wait()
	stop.Store(true)
	rg.Wait()
	tg.Wait()
	if b := witness(); b != "" {
		return "instances-interfere", "filter instances are independent of each other", b
	}
	if e, _ := togglerErr.Load().(string); e != "" {
		return "matchall-lost", "a lookup is true for an address covered by a range that is present for the whole duration of the call", e
	}
	st.trials++
	st.togglerIntervals += int64(len(toggles))
	excused := func(s suspicious) bool {
		for _, t := range toggles {
			if t.s <= s.c1 && t.e >= s.c0 {
				return true
			}
		}
		return false
	}
	m0, m1 := mig[0].Load(), mig[1].Load()
	if m1 != 0 {
		st.crossed++
	}
	for i := range wr {
		st.writerOps += wr[i].ops
		st.selfChecks += wr[i].self
		if wr[i].key != "" {
			return wr[i].key, wr[i].exp, wr[i].ob
		}
		for _, s := range wr[i].susp {
			if !excused(s) {
				return "own-remove-ignored", "false: the writer removed its only range covering the address and no 0.0.0.0/0 interval overlaps the call", s.what
			}
			st.neverTrueExcused++
		}
	}
	for i := range rr {
		st.probes += rr[i].probes
		st.probesOverlapWrite += rr[i].overlapW
		if rr[i].key != "" {
			return rr[i].key, rr[i].exp, rr[i].ob
		}
		for _, s := range rr[i].susp {
			if !excused(s) {
				return "never-seen", "false: no range present at any time during the call covers the address", s.what + fmt.Sprintf(" (logical interval [%d,%d], %d match-all intervals)", s.c0, s.c1, len(toggles))
			}
			st.neverTrueExcused++
		}
		if m1 != 0 {
			for _, iv := range rr[i].intervals {
				if iv[0] <= m1 && iv[1] >= m0 {
					st.probesDuringMigration++
				}
			}
		}
	}
	// quiescent: the filter equals the union of the per-goroutine sequential models
	r := rand.New(rand.NewSource(cs.Seed))
	for w := range wr {
		for p := range wr[w].model {
			for k, a := range []uint32{p.ip, p.ip | ^mask(p.ones)} {
				if !f.Contains(probeIP(a, k)) {
					return "final-missing", fmt.Sprintf("after the run Contains(%s)=true (writer %d added %s/%d last)", u2ip(a), w, u2ip(p.ip), p.ones), "false"
				}
			}
		}
		for k := 0; k < 300; k++ {
			a := uint32(40+w)<<24 | uint32(r.Intn(1<<24))
			if got, want := f.Contains(probeIP(a, k&1)), wr[w].model.contains(a); got != want {
				return "final-diff", fmt.Sprintf("after the run Contains(%s)=%v by writer %d's own operation order", u2ip(a), want, w), fmt.Sprint(got)
			}
		}
	}
	for k := 0; k < 300; k++ {
		if a := stableAddrWide(r); !f.Contains(probeIP(a, k&1)) {
			return "final-stable", "stable ranges present: Contains(" + probeIP(a, k&1).String() + ")=true", "false"
		}
		if a := neverAddrWide(r); f.Contains(probeIP(a, k%3)) {
			return "final-never", "never-added addresses absent after all 0.0.0.0/0 were removed: Contains(" + probeIP(a, k%3).String() + ")=false", "true"
		}
	}
	return "", "", ""
}

// ---------------------------------------------------------------------------------------

type mon struct{}

func (mon) Name() string { return "ipfilterconc" }

func (mon) Level(string) (string, string) {
	return "exploration", "trials: fresh filter with 32 stable /16 ranges; 2 or 4 writers (each owning a disjoint /8, 150..300 seeded Add/Remove ops with nested and repeated prefixes, probing its own range after every op), 2 or 8 readers probing stable addresses (must be true) and never-added addresses (must be false unless the logical interval of the call meets a 0.0.0.0/0 on-interval of the toggler), total adds crossing the 256-entry list→map switch while readers run; afterwards full agreement with the per-writer sequential models. Plus 'switch rounds': the list is filled to exactly 256 entries, then one writer's Add (with a common or a unique prefix length) switches the filter to maps while the other writers remove ranges they added and readers probe; final state compared with the per-writer models (the other writers may also Add at that moment). Plus 'toggle' trials: one writer toggles one range 400 times with short quiet periods while 2-8 watchers look up one fixed address inside it; a lookup that began and ended inside one quiescent period (phase counter read before and after) must report that period's membership. In every second trial and every fourth switch round further filter instances work in the same process at the same time (a long-lived one in map mode, fresh ones filled across their own switch again and again, address space 90/8): each instance must answer by its own history only; in those trials the writers also feed networks that are not IPv4 CIDRs (::/0, fd00::/8, no mask, non-contiguous mask) which must be refused and change nothing. Plain at GOMAXPROCS 2/4/16 and under -race (race runs without the logical clock). distinct_nontrivial = distinct trials (configuration, seed) in which lookups overlapped writes"
}

type shardArgs struct {
	Trials int  `json:"trials"`
	Part   int  `json:"part"`
	Switch bool `json:"switch,omitempty"`
	Toggle bool `json:"toggle,omitempty"`
}

func (mon) Plan(prop, tier string, seed int64) []drv.Shard {
	var out []drv.Shard
	trials, raceTrials, switchMul, switchRaceMul, secs := 60, 10, 50, 20, 0
	if tier == "thorough" {
		// sized so that every shard ends within a few minutes on an idle machine; the watchdog is
		// generous because 15 shards with up to 16 runnable goroutines each share the cores
		trials, raceTrials, switchMul, switchRaceMul, secs = 3000, 200, 20, 25, 3600
	}
	for i, gmp := range []string{"2", "4", "16"} {
		env := []string{"GOMAXPROCS=" + gmp}
		a, _ := json.Marshal(shardArgs{Trials: trials, Part: i})
		out = append(out, drv.Shard{Name: "plain-gomaxprocs" + gmp, Args: a, Env: env, Secs: secs})
		a, _ = json.Marshal(shardArgs{Trials: raceTrials, Part: 10 + i})
		out = append(out, drv.Shard{Name: "race-gomaxprocs" + gmp, Args: a, Env: env, Race: true, Secs: secs})
		a, _ = json.Marshal(shardArgs{Trials: trials * switchMul, Part: 20 + i, Switch: true})
		out = append(out, drv.Shard{Name: "switch-gomaxprocs" + gmp, Args: a, Env: env, Secs: secs})
		a, _ = json.Marshal(shardArgs{Trials: raceTrials * switchRaceMul, Part: 30 + i, Switch: true})
		out = append(out, drv.Shard{Name: "switch-race-gomaxprocs" + gmp, Args: a, Env: env, Race: true, Secs: secs})
		a, _ = json.Marshal(shardArgs{Trials: trials / 3, Part: 40 + i, Toggle: true})
		out = append(out, drv.Shard{Name: "toggle-gomaxprocs" + gmp, Args: a, Env: env, Secs: secs})
	}
	return out
}

func (mn mon) Run(sh drv.Shard, c *drv.Ctx) {
	var a shardArgs
	json.Unmarshal(sh.Args, &a)
	st := &stats{}
	r := rand.New(rand.NewSource(sh.Seed*6364136223846793005 + int64(a.Part)))
	for i := 0; i < a.Trials; i++ {
		cs := Case{Writers: []int{2, 4}[r.Intn(2)], Readers: []int{2, 8}[r.Intn(2)], Ops: 150 + r.Intn(151), Toggler: r.Intn(2) == 0, NoClock: sh.Race, Seed: r.Int63(), Witness: i%2 == 1}
		if a.Switch {
			cs = Case{Writers: 2 + r.Intn(3), Readers: 1 + r.Intn(2), Switch: true, Unique: r.Intn(2) == 0, Seed: r.Int63(), Witness: i%4 == 3}
		}
		if a.Toggle {
			cs = Case{Readers: 2 + r.Intn(7), Ops: 400, Toggle: true, Unique: r.Intn(2) == 0, Seed: r.Int63()}
		}
		c.Progress(fmt.Sprintf("%+v", cs), true)
		before := st.probesOverlapWrite
		k, e, o := runCase(cs, st)
		c.Eval(1)
		if st.probesOverlapWrite > before || cs.Switch || cs.Toggle {
			c.DistinctStr(fmt.Sprintf("%+v", cs))
		}
		if c.NumSamples() < 2 {
			c.Sample(cs)
		}
		if k != "" {
			c.Violate(k, cs, e, o)
			if c.NumViolations() >= 3 {
				break
			}
		}
	}
	c.Add("switch_rounds", st.switchRounds)
	c.Add("toggle_updates", st.toggleRounds)
	c.Add("lookups_judged_inside_a_quiescent_period", st.toggleJudged)
	c.Add("trials", st.trials)
	c.Add("trials_crossing_the_list_to_map_switch", st.crossed)
	c.Add("lookups", st.probes)
	c.Add("lookups_overlapping_a_write", st.probesOverlapWrite)
	c.Add("lookups_overlapping_the_migrating_add", st.probesDuringMigration)
	c.Add("matchall_intervals", st.togglerIntervals)
	c.Add("true_results_excused_by_matchall_interval", st.neverTrueExcused)
	c.Add("writer_ops", st.writerOps)
	c.Add("writer_self_checks", st.selfChecks)
}

func (mon) Finish(prop, tier string, m *drv.Merged) []string {
	var out []string
	if m.Sum["lookups_overlapping_a_write"] < 1000 {
		out = append(out, "fewer than 1000 lookups overlapped a write")
	}
	if m.Sum["trials_crossing_the_list_to_map_switch"] < 10 {
		out = append(out, "fewer than 10 trials crossed the list-to-map switch")
	}
	if m.Sum["lookups_overlapping_the_migrating_add"] < 1 {
		out = append(out, "no lookup overlapped the migrating Add")
	}
	return out
}

func (mn mon) Replay(v drv.Violation, c *drv.Ctx) {
	var cs Case
	if err := json.Unmarshal(v.Case, &cs); err != nil {
		c.Inconclusive("replay: cannot decode case: " + err.Error())
		return
	}
	for i := 0; i < 200; i++ {
		k, e, o := runCase(cs, &stats{})
		c.Eval(1)
		if k != "" {
			c.Violate(k, cs, e, o)
			return
		}
	}
}

func main() { drv.Main(mon{}) }
