// Monitor lane (C06, C07, C08, C14): one TaskLane scenario runner, four checkers.
// Histories are recorded at the API boundary (PushTask call/return, task entry/exit, cancel,
// Wait, Status samples) with a logical clock; quiescence is decided structurally from goroutine
// dumps (internal/atrest); cancellation is injected at every protocol point through the
// verif hook in glb's tasklane package. See DESIGN.md §3 C06/C07/C08/C14.
package main

import (
	"encoding/json"
	"fmt"
	"math/rand"
	"strings"

	"github.com/whoisnian/glb/tasklane"

	"verif/internal/atrest"
	"verif/internal/drv"
)

type G = atrest.G

type mon struct{}

func (mon) Name() string { return "lane" }

func (mon) Level(prop string) (string, string) {
	common := " Scenario = lane/queue sizes × producers × lane policy × task mix (instant, yielding, sleeping, gated = pinned worker, panicking, cancelling) × push timeout (1 ms: timeouts occur / 1 h) × cancel plan; the verif hook perturbs schedules (Gosched/µs sleeps chosen by a hash of seed, point, lane, hit). Judgements are made on PushTask results, per-task start counters and structurally quiescent states (all lane and harness goroutines parked in a goroutine dump). distinct_nontrivial = distinct (scenario shape, observed hook-trace signature) pairs, i.e. distinct interleavings seen."
	switch prop {
	case "C06":
		return "fault_enumeration", "exactly-once / never-for-rejected: cancellation injected at each of the 13 protocol points × hit index {1,2,3,5,8} × 9 small configurations × 3 load shapes (free-running, all workers pinned with blocked producers, timeouts against a full lane), plus seeded random scenarios." + common
	case "C07":
		return "fault_enumeration", "clean shutdown: the same cancel-point enumeration; after the cancel and after all started tasks returned the system must not come to rest with a producer parked in PushTask, a lane goroutine parked, or Wait not returned; pushes issued after the cancel must return the context's error; goroutine dump after Wait must show no lane goroutine; no task start after Wait." + common
	case "C08":
		return "exploration", "concurrency bound and work sharing: 1..laneSize-1 workers pinned by gated tasks (including the target lane's own worker), everything pushed to one lane / round-robin / random / ShortestQueueIndex; at rest with the context live and fewer than laneSize tasks running no accepted task may be unstarted; running tasks counted inside Start()." + common
	default:
		return "exploration", "panics and status: Status() polled from 1-4 goroutines throughout (bounds on every sample); exact PendingTask == accepted - started at structurally quiescent states with k tasks queued behind pinned workers; panicking tasks of five dynamic value types, also released simultaneously on all workers; LastPanic must be one of the raised values; -race build of the simultaneous-panic scenarios without hook." + common
	}
}

func (mon) Assumptions(string) []string {
	return []string{
		"'eventually started' is decided as bounded progress: context live, all running tasks returned, lane at rest in a goroutine dump => every accepted task was started",
		"a watchdog (10 s) that fires makes a scenario inconclusive, never a violation",
	}
}

type shardArgs struct {
	Mode  string `json:"mode"` // enum | rand | hol | status | panicrace
	Part  int    `json:"part"`
	Parts int    `json:"parts"`
	Count int    `json:"count,omitempty"`
}

func (mon) Plan(prop, tier string, seed int64) []drv.Shard {
	var out []drv.Shard
	parts := 16
	secs := 1200
	if tier == "thorough" {
		secs = 3600
	}
	add := func(mode string, count int, race bool, env ...string) {
		for p := 0; p < parts; p++ {
			a, _ := json.Marshal(shardArgs{Mode: mode, Part: p, Parts: parts, Count: count})
			name := fmt.Sprintf("%s-%d", mode, p)
			if race {
				name = "race-" + name
			}
			if len(env) > 0 {
				name += "-" + strings.ToLower(strings.ReplaceAll(env[0], "=", ""))
			}
			out = append(out, drv.Shard{Name: name, Args: a, Race: race, Env: env, Secs: secs})
		}
	}
	thorough := tier == "thorough"
	nrand := 300
	if thorough {
		nrand = 40000
	}
	switch prop {
	case "C06", "C07":
		add("enum", 0, false)
		add("rand", nrand/parts, false)
		{
			p := parts
			parts = 4
			add("rush", 0, false, "GOMAXPROCS=1")
			add("rush", 0, false, "GOMAXPROCS=2")
			add("rush", 0, false)
			parts = 2
			add("ctx", 0, false)
			add("ctx", 0, false, "GOMAXPROCS=2")
			parts = 4
			add("dwell", 0, false)
			parts = 3
			add("flood", 0, false)
			add("flood", 0, false, "GOMAXPROCS=2")
			parts = p
		}
		if thorough {
			add("rand", nrand/parts/2, false, "GOMAXPROCS=2")
			add("rand", nrand/parts/2, false, "GOMAXPROCS=4")
			parts = 4
			add("rand", 300, true)
		}
	case "C08":
		add("hol", 0, false)
		add("rand", nrand/parts, false)
		{
			p := parts
			parts = 4
			add("dwell", 0, false)
			parts = 2
			add("hol", 0, true) // the same scenarios under the race detector
			parts = p
		}
		if thorough {
			add("hol", 0, false, "GOMAXPROCS=2")
			add("rand", nrand/parts/2, false, "GOMAXPROCS=4")
		}
	case "C14":
		add("status", 0, false)
		add("rand", nrand/parts, false)
		{
			p := parts
			parts = 4
			add("dwell", 0, false)
			parts = 2
			add("bigflood", 0, false)
			parts = 1
			add("panicnil", 0, false, "GODEBUG=panicnil=1")
			parts = p
		}
		if thorough {
			add("status", 0, false, "GOMAXPROCS=2")
		}
		parts = 3
		n := 40
		if thorough {
			n = 2000
		}
		for _, gmp := range []string{"GOMAXPROCS=2", "GOMAXPROCS=4", "GOMAXPROCS=16"} {
			p := parts
			parts = 1
			add("panicrace", n, true, gmp)
			parts = p
		}
	}
	return out
}

var configs = [][2]int{{1, 0}, {1, 1}, {1, 2}, {2, 0}, {2, 1}, {2, 2}, {3, 0}, {3, 1}, {4, 2}}

var kinds = []string{"instant", "yield", "sleep"}

func seq(n int) []int {
	s := make([]int, n)
	for i := range s {
		s[i] = i
	}
	return s
}

// enumScenarios: cancel at every hook point × hit, on small configs, in three load shapes.
func enumScenarios(seed int64) []Scenario {
	var out []Scenario
	for _, cfg := range configs {
		ls, qs := cfg[0], cfg[1]
		capacity := ls * (qs + 1)
		for _, pt := range points {
			for _, hit := range []int{1, 2, 3, 5, 8} {
				cp := CancelPlan{Kind: "hook", Point: pt, Hit: hit}
				// shape 1: free running, one producer, everything to lane 0
				var pushes []PushSpec
				for i := 0; i < capacity+3; i++ {
					pushes = append(pushes, PushSpec{Lane: 0, Task: TaskSpec{Kind: kinds[i%3]}})
				}
				out = append(out, Scenario{LaneSize: ls, QueueSize: qs, TimeoutMs: 3600000, Producers: [][]PushSpec{pushes}, Cancel: cp, PostPush: 1, Perturb: true})
				// shape 2: all workers pinned, two producers round-robin beyond capacity (they block)
				p1, p2 := []PushSpec{}, []PushSpec{}
				for i := 0; i < capacity+2; i++ {
					p1 = append(p1, PushSpec{Lane: i % ls, Task: TaskSpec{Kind: "instant"}})
					p2 = append(p2, PushSpec{Lane: (i + 1) % ls, Task: TaskSpec{Kind: "yield"}})
				}
				out = append(out, Scenario{LaneSize: ls, QueueSize: qs, TimeoutMs: 3600000, Pins: seq(ls), Producers: [][]PushSpec{p1, p2}, Cancel: cp, PostPush: 1, Waiters: 1 + (hit+len(pt))%4})
				// shape 3: timeouts against a full lane
				var p3 []PushSpec
				for i := 0; i < qs+4; i++ {
					p3 = append(p3, PushSpec{Lane: 0, Task: TaskSpec{Kind: "instant"}})
				}
				out = append(out, Scenario{LaneSize: ls, QueueSize: qs, TimeoutMs: 1, Pins: seq(ls), Producers: [][]PushSpec{p3}, Cancel: cp, PostPush: 1, Perturb: true})
			}
		}
	}
	for i := range out {
		out[i].Seed = seed + int64(i)
	}
	return out
}

func randScenario(r *rand.Rand) Scenario {
	ls := []int{1, 2, 3, 4, 8}[r.Intn(5)]
	qs := []int{0, 1, 2, 5}[r.Intn(4)]
	sc := Scenario{LaneSize: ls, QueueSize: qs, TimeoutMs: 3600000, PostPush: r.Intn(3), Pollers: r.Intn(3), Perturb: r.Intn(2) == 0, Seed: r.Int63()}
	if r.Intn(3) == 0 {
		sc.Waiters = 2 + r.Intn(7)
	}
	if r.Intn(4) == 0 {
		sc.TimeoutMs = 1
		switch r.Intn(4) { // try-push style timeouts: 0, 1 µs, 50 µs
		case 0:
			sc.TimeoutUs = -1
		case 1:
			sc.TimeoutUs = 1
		case 2:
			sc.TimeoutUs = 50
		}
	}
	npin := 0
	if r.Intn(2) == 0 {
		npin = r.Intn(ls + 1)
	}
	sc.Pins = r.Perm(ls)[:npin]
	nprod := []int{1, 2, 8}[r.Intn(3)]
	policy := r.Intn(4)
	target := r.Intn(ls)
	total := 0
	for p := 0; p < nprod; p++ {
		n := 1 + r.Intn(ls*(qs+1)+4)
		var pushes []PushSpec
		for i := 0; i < n; i++ {
			ps := PushSpec{}
			switch policy {
			case 0:
				ps.Lane = target
			case 1:
				ps.Lane = (p + i) % ls
			case 2:
				ps.Lane = r.Intn(ls)
			default:
				ps.Lane = -1
			}
			switch x := r.Intn(20); {
			case x < 8:
				ps.Task.Kind = "instant"
			case x < 12:
				ps.Task.Kind = "yield"
			case x < 14:
				ps.Task.Kind = "sleep"
			case x < 17:
				ps.Task = TaskSpec{Kind: "panic", Panic: []string{"string", "error", "int", "struct", "pointer", "slice", "map"}[r.Intn(7)]}
			case x < 19:
				ps.Task.Kind = "gate"
			default:
				ps.Task.Kind = "instant"
			}
			pushes = append(pushes, ps)
			total++
		}
		sc.Producers = append(sc.Producers, pushes)
	}
	switch x := r.Intn(10); {
	case x < 3:
		sc.Cancel = CancelPlan{Kind: "none"}
	case x < 6:
		sc.Cancel = CancelPlan{Kind: "hook", Point: points[r.Intn(len(points))], Hit: 1 + r.Intn(10)}
	case x < 7:
		sc.Cancel = CancelPlan{Kind: "producer", Producer: r.Intn(nprod), After: r.Intn(3)}
	case x < 8:
		sc.Cancel = CancelPlan{Kind: "external"}
	case x < 9:
		// a task cancels from inside
		p := r.Intn(nprod)
		i := r.Intn(len(sc.Producers[p]))
		sc.Producers[p][i].Task = TaskSpec{Kind: "cancel"}
		sc.Cancel = CancelPlan{Kind: "task"}
	default:
		sc.Cancel = CancelPlan{Kind: "deadline", DeadlineMs: 1 + r.Intn(8)}
	}
	return sc
}

// holScenarios (C08): k workers pinned, pushes concentrated on one lane.
func holScenarios(seed int64) []Scenario {
	var out []Scenario
	for _, ls := range []int{2, 3, 4, 8} {
		for _, qs := range []int{0, 1, 2, 5} {
			for k := 1; k < ls; k++ {
				for variant := 0; variant < 4; variant++ {
					pins := seq(k) // lanes 0..k-1 pinned
					target := 0    // a pinned lane's own worker is busy
					if variant == 1 {
						target = ls - 1 // a free lane
					}
					if variant == 2 {
						// pin the last k lanes instead, push to the last lane
						pins = nil
						for i := ls - k; i < ls; i++ {
							pins = append(pins, i)
						}
						target = ls - 1
					}
					n := qs + 3 + variant
					var prods [][]PushSpec
					nprod := 1 + variant%2
					for p := 0; p < nprod; p++ {
						var pushes []PushSpec
						for i := 0; i < n; i++ {
							lane := target
							if variant == 3 {
								lane = pins[(i+p)%len(pins)] // spread over the pinned lanes only
							}
							pushes = append(pushes, PushSpec{Lane: lane, Task: TaskSpec{Kind: kinds[(i+p)%3]}})
						}
						prods = append(prods, pushes)
					}
					for _, perturb := range []bool{false, true} {
						out = append(out, Scenario{LaneSize: ls, QueueSize: qs, TimeoutMs: 3600000, Pins: pins, Producers: prods, Cancel: CancelPlan{Kind: "none"}, PostPush: 1, Perturb: perturb})
					}
				}
			}
		}
	}
	// wide lanes, used the moment New returns: laneSize long tasks all pushed to lane 0 must all be
	// running at rest (a worker that is not yet listening for other lanes' tasks would leave some waiting)
	for _, ls := range []int{32, 64, 256} {
		for rep := 0; rep < 4; rep++ {
			var pushes []PushSpec
			for i := 0; i < ls; i++ {
				pushes = append(pushes, PushSpec{Lane: 0, Task: TaskSpec{Kind: "gate"}})
			}
			out = append(out, Scenario{LaneSize: ls, QueueSize: 1, TimeoutMs: 3600000, Producers: [][]PushSpec{pushes}, Cancel: CancelPlan{Kind: "none"}, PostPush: 0})
		}
	}
	// a history first: a burst through one lane is pushed and drained, then every *other* worker
	// is pinned and a probe is pushed to a pinned lane - the only idle worker is the one that
	// served the burst, and it must still pick up work of other lanes
	for _, ls := range []int{2, 3, 4, 8} {
		for _, qs := range []int{0, 1, 2, 5} {
			for rep := 0; rep < 6; rep++ {
				burstLane := []int{0, ls - 1}[rep%2]
				var warm []PushSpec
				for i := 0; i < 6+2*ls+rep; i++ {
					warm = append(warm, PushSpec{Lane: burstLane, Task: TaskSpec{Kind: kinds[(i+rep)%2]}})
				}
				var pins []int
				for l := 0; l < ls; l++ {
					if l != burstLane {
						pins = append(pins, l)
					}
				}
				probes := []PushSpec{{Lane: pins[rep%len(pins)], Task: TaskSpec{Kind: "instant"}}, {Lane: pins[0], Task: TaskSpec{Kind: "yield"}}}
				sc := Scenario{LaneSize: ls, QueueSize: qs, TimeoutMs: 3600000, Warmup: warm, Pins: pins, Producers: [][]PushSpec{probes}, Cancel: CancelPlan{Kind: "none"}, PostPush: 1, Perturb: true}
				// hold the burst lane's own goroutines at one protocol point while the burst flows
				sc.SlowLane = burstLane
				sc.SlowPoint = []string{"worker.beforeBlockingRecv", "worker.loop", "queue.beforeOffer", "worker.beforeRecv", "queue.afterHandover", ""}[rep]
				out = append(out, sc)
			}
		}
	}
	for i := range out {
		out[i].Seed = seed + int64(i)
	}
	return out
}

// dwellScenarios (C06/C08/C14): a lane at rest stays as it is, however long it rests. Each scenario
// rests twice for DwellMs of real time: idle after a warm-up burst (every worker has run a task and
// parked again), and loaded (workers pinned, tasks held and queued). Then the usual structural
// judgements: population, exact pending count, every accepted task started exactly once, head of line.
func dwellScenarios(seed int64, ms []int) []Scenario {
	var out []Scenario
	for _, d := range ms {
		for i, cfg := range [][2]int{{1, 0}, {2, 1}, {3, 2}, {4, 0}} {
			ls, qs := cfg[0], cfg[1]
			var warm []PushSpec
			for k := 0; k < 2*ls; k++ {
				warm = append(warm, PushSpec{Lane: k % ls, Task: TaskSpec{Kind: kinds[k%3]}})
			}
			var pushes []PushSpec
			for k := 0; k < ls*(qs+1); k++ {
				pushes = append(pushes, PushSpec{Lane: k % ls, Task: TaskSpec{Kind: "instant"}})
			}
			tmo := 3600000
			if i%2 == 1 {
				tmo = 1000 // the default push timeout
			}
			pins := seq(ls)
			if i == 2 {
				pins = seq(ls - 1) // one worker stays idle through the loaded dwell
			}
			out = append(out, Scenario{LaneSize: ls, QueueSize: qs, TimeoutMs: tmo, Warmup: warm, Pins: pins, Producers: [][]PushSpec{pushes}, Cancel: CancelPlan{Kind: "none"}, PostPush: 1, DwellMs: d, Pollers: i % 2})
		}
		// workers that have been idle for the whole dwell, then one lane's worker is pinned and everything
		// is pushed to that lane: the long-idle workers must take it over (with and without a warm-up)
		for i, cfg := range [][2]int{{2, 1}, {3, 0}, {4, 2}} {
			ls, qs := cfg[0], cfg[1]
			var warm []PushSpec
			for k := 0; k < ls*i; k++ {
				warm = append(warm, PushSpec{Lane: k % ls, Task: TaskSpec{Kind: kinds[k%3]}})
			}
			var pushes []PushSpec
			for k := 0; k < qs+2; k++ {
				pushes = append(pushes, PushSpec{Lane: 0, Task: TaskSpec{Kind: "instant"}})
			}
			out = append(out, Scenario{LaneSize: ls, QueueSize: qs, TimeoutMs: 3600000, Warmup: warm, Pins: []int{0}, Producers: [][]PushSpec{pushes}, Cancel: CancelPlan{Kind: "none"}, PostPush: 1, DwellMs: d})
		}
	}
	for i := range out {
		out[i].Seed = seed + int64(i)
	}
	return out
}

// floodScenarios (C06): thousands of short tasks through few lanes with tiny queues, from several
// producers at once - the queue goroutine and the worker of a lane are busy at the same instant all
// the time (every task still starts exactly once; nothing is cancelled until the end).
func floodScenarios(seed int64, n int) []Scenario {
	var out []Scenario
	for rep, cfg := range [][2]int{{2, 1}, {1, 0}, {2, 0}, {3, 2}, {1, 1}, {4, 1}} {
		ls, qs := cfg[0], cfg[1]
		var prods [][]PushSpec
		for p := 0; p < 2+rep%3; p++ {
			var pushes []PushSpec
			for i := 0; i < n; i++ {
				lane := 0
				if rep%2 == 1 {
					lane = (i + p) % ls
				}
				pushes = append(pushes, PushSpec{Lane: lane, Task: TaskSpec{Kind: []string{"instant", "instant", "yield"}[(i+p)%3]}})
			}
			prods = append(prods, pushes)
		}
		out = append(out, Scenario{LaneSize: ls, QueueSize: qs, TimeoutMs: 3600000, Producers: prods, Cancel: CancelPlan{Kind: "none"}, PostPush: 1, NoHook: rep%2 == 0})
	}
	// hundreds of panicking tasks among the others (nobody polls Status or reads anything else the lane
	// may offer): the workers keep serving, and the lane still ends cleanly
	for rep, cfg := range [][2]int{{2, 1}, {1, 0}} {
		ls, qs := cfg[0], cfg[1]
		var pushes []PushSpec
		for i := 0; i < n/4; i++ {
			ts := TaskSpec{Kind: "instant"}
			if i%3 != 2 {
				ts = TaskSpec{Kind: "panic", Panic: []string{"string", "error", "int", "struct", "pointer"}[i%5]}
			}
			pushes = append(pushes, PushSpec{Lane: i % ls, Task: ts})
		}
		out = append(out, Scenario{LaneSize: ls, QueueSize: qs, TimeoutMs: 3600000, Producers: [][]PushSpec{pushes}, Cancel: CancelPlan{Kind: "none"}, PostPush: 1, NoHook: rep%2 == 0})
	}
	for i := range out {
		out[i].Seed = seed + int64(i)
	}
	return out
}

// bigFloodScenarios (C14): more than 2^16 tasks through single workers (a worker that is recycled,
// a counter that wraps, only after that many), a third of them panicking in one of the scenarios.
func bigFloodScenarios(seed int64, n int) []Scenario {
	var out []Scenario
	for rep, cfg := range [][2]int{{1, 1}, {2, 0}} {
		ls, qs := cfg[0], cfg[1]
		var pushes []PushSpec
		for i := 0; i < n*ls; i++ {
			ts := TaskSpec{Kind: "instant"}
			if rep == 1 && i%3 == 0 {
				ts = TaskSpec{Kind: "panic", Panic: []string{"string", "int", "pointer"}[i%3]}
			}
			pushes = append(pushes, PushSpec{Lane: i % ls, Task: ts})
		}
		out = append(out, Scenario{LaneSize: ls, QueueSize: qs, TimeoutMs: 3600000, Producers: [][]PushSpec{pushes}, Cancel: CancelPlan{Kind: "none"}, PostPush: 1, NoHook: true})
	}
	for i := range out {
		out[i].Seed = seed + int64(i)
	}
	return out
}

// panicNilScenarios (C14): tasks that call panic(nil). The shard runs with GODEBUG=panicnil=1 (what a
// main module declaring go < 1.21 gets), where recover() then returns nil: the worker must keep
// serving all the same.
func panicNilScenarios(seed int64) []Scenario {
	var out []Scenario
	for _, cfg := range [][2]int{{1, 0}, {2, 1}, {3, 2}} {
		ls, qs := cfg[0], cfg[1]
		var pushes []PushSpec
		for i := 0; i < 6*ls; i++ {
			ts := TaskSpec{Kind: "instant"}
			if i%2 == 0 {
				ts = TaskSpec{Kind: "panic", Panic: "nilvalue"}
			}
			pushes = append(pushes, PushSpec{Lane: i % ls, Task: ts})
		}
		out = append(out, Scenario{LaneSize: ls, QueueSize: qs, TimeoutMs: 3600000, Producers: [][]PushSpec{pushes}, Cancel: CancelPlan{Kind: "none"}, PostPush: 1, Pollers: 1})
	}
	for i := range out {
		out[i].Seed = seed + int64(i)
	}
	return out
}

// ctxScenarios (C06/C07): what kind of context the lane is given and who pushes how soon after its
// end. The lane is handed (a) a context type that is not the standard library's, (b) a standard
// context with hundreds of other children, (c) a context that - itself or through an ancestor -
// ends with an application-defined cause (WithCancelCause / WithTimeoutCause): PushTask owes the
// context's error (Canceled / DeadlineExceeded), not the cause; the cancel (or deadline) lands with the lane idle, loaded
// or right after New; pushes follow from the cancelling goroutine itself (the instant cancel()
// returned) and from goroutines woken by <-ctx.Done().
func ctxScenarios(seed int64) []Scenario {
	var out []Scenario
	for rep := 0; rep < 6; rep++ {
		for _, cfg := range [][2]int{{1, 0}, {1, 2}, {2, 1}, {3, 0}, {4, 2}} {
			ls, qs := cfg[0], cfg[1]
			for _, kind := range []string{"own", "", "cause"} {
				sib := 0
				if kind == "" {
					sib = []int{300, 40, 1000}[rep%3]
				}
				var pushes []PushSpec
				for i := 0; i < rep%3; i++ {
					pushes = append(pushes, PushSpec{Lane: i % ls, Task: TaskSpec{Kind: kinds[(i+rep)%3]}})
				}
				base := Scenario{LaneSize: ls, QueueSize: qs, TimeoutMs: 3600000, Producers: [][]PushSpec{pushes}, PostPush: 1, CtxKind: kind, Siblings: sib, Observers: 2 * ls, SyncPost: 2 * ls, Waiters: 1 + rep%2}
				// idle or lightly used lane, cancel from outside
				s := base
				s.Cancel = CancelPlan{Kind: "none"}
				out = append(out, s)
				// the same right after New
				s.Rush = true
				out = append(out, s)
				// deadline
				s = base
				s.Cancel = CancelPlan{Kind: "deadline", DeadlineMs: 1 + rep}
				out = append(out, s)
				// a lane made on a context that has already ended (cancelled; past its deadline): the
				// same duties - pushes get the context's error, Wait returns, nothing is left behind
				s = base
				s.Cancel = CancelPlan{Kind: "none"}
				s.Rush, s.Born = true, true
				out = append(out, s)
				s.Cancel = CancelPlan{Kind: "deadline", DeadlineMs: 1}
				out = append(out, s)
				// loaded: all workers pinned, external cancel
				s = base
				s.Pins = seq(ls)
				s.Cancel = CancelPlan{Kind: "external"}
				out = append(out, s)
				// cancelled from inside the protocol
				s = base
				s.Producers = [][]PushSpec{append(append([]PushSpec(nil), pushes...), PushSpec{Lane: 0, Task: TaskSpec{Kind: "instant"}}, PushSpec{Lane: ls - 1, Task: TaskSpec{Kind: "yield"}})}
				s.Cancel = CancelPlan{Kind: "hook", Point: points[(rep*5+ls+qs)%len(points)], Hit: 1}
				out = append(out, s)
			}
		}
	}
	for i := range out {
		out[i].Seed = seed + int64(i)
	}
	return out
}

// rushScenarios (C06/C07): New, pushes, cancel and Wait with no settling in between, so that
// Wait can be reached before the lane's goroutines have run for the first time.
func rushScenarios(seed int64) []Scenario {
	var out []Scenario
	for rep := 0; rep < 12; rep++ {
		for _, cfg := range configs {
			ls, qs := cfg[0], cfg[1]
			for nprod := 0; nprod <= 2; nprod++ {
				var prods [][]PushSpec
				for p := 0; p < nprod; p++ {
					var pushes []PushSpec
					for i := 0; i < 2+qs; i++ {
						pushes = append(pushes, PushSpec{Lane: (i + p) % ls, Task: TaskSpec{Kind: kinds[(i+rep)%3]}})
					}
					prods = append(prods, pushes)
				}
				out = append(out, Scenario{LaneSize: ls, QueueSize: qs, TimeoutMs: 3600000, Producers: prods, Cancel: CancelPlan{Kind: "none"}, Rush: true, PostPush: rep % 2, Perturb: rep%3 == 0, Waiters: 1 + rep%3})
			}
		}
	}
	// queued tasks at the cancel + many concurrent Wait() callers: all workers pinned, queues full,
	// then cancel (final) and 8 waiters
	for _, cfg := range configs {
		ls, qs := cfg[0], cfg[1]
		if qs == 0 {
			continue
		}
		var pushes []PushSpec
		for i := 0; i < ls*qs; i++ {
			pushes = append(pushes, PushSpec{Lane: i % ls, Task: TaskSpec{Kind: "instant"}})
		}
		for rep := 0; rep < 6; rep++ {
			out = append(out, Scenario{LaneSize: ls, QueueSize: qs, TimeoutMs: 3600000, Pins: seq(ls), Producers: [][]PushSpec{pushes}, Cancel: CancelPlan{Kind: "external"}, PostPush: 0, Waiters: 8})
		}
	}
	for _, cfg := range [][2]int{{4, 2}, {4, 5}, {8, 2}, {8, 5}, {2, 5}} {
		ls, qs := cfg[0], cfg[1]
		var pushes []PushSpec
		for i := 0; i < ls*qs; i++ {
			pushes = append(pushes, PushSpec{Lane: i % ls, Task: TaskSpec{Kind: "instant"}})
		}
		for rep := 0; rep < 90; rep++ {
			out = append(out, Scenario{LaneSize: ls, QueueSize: qs, TimeoutMs: 3600000, Pins: seq(ls), Producers: [][]PushSpec{pushes}, Cancel: CancelPlan{Kind: "external"}, PostPush: 0, Waiters: []int{8, 16, 4}[rep%3], EarlyWait: true})
		}
	}
	// nil tasks: a nil Task is accepted like any other; the worker that takes it recovers the nil
	// dereference and must keep serving: tasks pushed afterwards still start
	for _, cfg := range configs {
		ls, qs := cfg[0], cfg[1]
		var warm []PushSpec
		for i := 0; i < 2*ls; i++ {
			warm = append(warm, PushSpec{Lane: i % ls, Task: TaskSpec{Kind: "nil"}})
		}
		var after []PushSpec
		for i := 0; i < 2*ls+qs; i++ {
			after = append(after, PushSpec{Lane: i % ls, Task: TaskSpec{Kind: kinds[i%3]}})
		}
		out = append(out, Scenario{LaneSize: ls, QueueSize: qs, TimeoutMs: 3600000, Warmup: warm, Producers: [][]PushSpec{after}, Cancel: CancelPlan{Kind: "none"}, PostPush: 1})
	}
	for i := range out {
		out[i].Seed = seed + int64(i)
	}
	return out
}

// statusScenarios (C14): stable states with k tasks queued behind pinned workers; panic mixes.
func statusScenarios(seed int64) []Scenario {
	var out []Scenario
	ptypes := []string{"string", "error", "int", "struct", "pointer"}
	utypes := []string{"slice", "map", "slice", "slice", "map"} // uncomparable dynamic types, repeated back to back
	for _, ls := range []int{1, 2, 3, 4, 8} {
		for _, qs := range []int{0, 1, 2, 5} {
			capacity := ls * (qs + 1)
			for k := 0; k <= capacity; k += 1 + capacity/6 {
				// all workers pinned, k tasks accepted behind them: pending must be exactly k
				var pushes []PushSpec
				for i := 0; i < k; i++ {
					pushes = append(pushes, PushSpec{Lane: i % ls, Task: TaskSpec{Kind: "instant"}})
				}
				out = append(out, Scenario{LaneSize: ls, QueueSize: qs, TimeoutMs: 3600000, Pins: seq(ls), Producers: [][]PushSpec{pushes}, Cancel: CancelPlan{Kind: "none"}, Pollers: 1 + k%4, PostPush: 1})
			}
			// overflow with timeouts: pending stays at capacity
			var over []PushSpec
			for i := 0; i < capacity+3; i++ {
				over = append(over, PushSpec{Lane: i % ls, Task: TaskSpec{Kind: "yield"}})
			}
			out = append(out, Scenario{LaneSize: ls, QueueSize: qs, TimeoutMs: 1, Pins: seq(ls), Producers: [][]PushSpec{over}, Cancel: CancelPlan{Kind: "none"}, Pollers: 2, PostPush: 1})
			// panics: every lane gets panicking and normal tasks; later tasks of a lane must still run
			var p1, p2 []PushSpec
			for i := 0; i < 3*ls; i++ {
				p1 = append(p1, PushSpec{Lane: i % ls, Task: TaskSpec{Kind: "panic", Panic: ptypes[i%5]}}, PushSpec{Lane: i % ls, Task: TaskSpec{Kind: "instant"}})
				p2 = append(p2, PushSpec{Lane: (i + 1) % ls, Task: TaskSpec{Kind: kinds[i%3]}})
			}
			out = append(out, Scenario{LaneSize: ls, QueueSize: qs, TimeoutMs: 3600000, Producers: [][]PushSpec{p1, p2}, Cancel: CancelPlan{Kind: "none"}, Pollers: 3, PostPush: 1, Perturb: true})
			// consecutive panics with values of the same uncomparable dynamic type on every lane
			var pu []PushSpec
			for i := 0; i < 4*ls; i++ {
				pu = append(pu, PushSpec{Lane: i % ls, Task: TaskSpec{Kind: "panic", Panic: utypes[(i/ls)%5]}})
			}
			pu = append(pu, PushSpec{Lane: 0, Task: TaskSpec{Kind: "instant"}})
			out = append(out, Scenario{LaneSize: ls, QueueSize: qs, TimeoutMs: 3600000, Producers: [][]PushSpec{pu}, Cancel: CancelPlan{Kind: "none"}, Pollers: 1, PostPush: 1})
			// simultaneous panics: one gated panicking task per worker, different dynamic types, released at once
			var gp []PushSpec
			for i := 0; i < ls; i++ {
				gp = append(gp, PushSpec{Lane: i, Task: TaskSpec{Kind: "gatepanic", Panic: ptypes[i%5]}})
			}
			for i := 0; i < qs*ls; i++ {
				gp = append(gp, PushSpec{Lane: i % ls, Task: TaskSpec{Kind: "panic", Panic: ptypes[(i+2)%5]}})
			}
			out = append(out, Scenario{LaneSize: ls, QueueSize: qs, TimeoutMs: 3600000, Producers: [][]PushSpec{gp}, Cancel: CancelPlan{Kind: "none"}, Pollers: 4, PostPush: 0})
			// the context is cancelled while the gated tasks run; they panic afterwards (first panics of
			// the lane's life): LastPanic must still be one of them, the queued tasks stay counted
			var gc []PushSpec
			for i := 0; i < ls; i++ {
				gc = append(gc, PushSpec{Lane: i, Task: TaskSpec{Kind: "gatepanic", Panic: ptypes[(i+qs)%5]}})
			}
			for i := 0; i < qs*ls; i++ {
				gc = append(gc, PushSpec{Lane: i % ls, Task: TaskSpec{Kind: "instant"}})
			}
			out = append(out, Scenario{LaneSize: ls, QueueSize: qs, TimeoutMs: 3600000, Producers: [][]PushSpec{gc}, Cancel: CancelPlan{Kind: "external"}, Pollers: 1, PostPush: 1})
			// cancelled with nothing running and nothing ever panicked: LastPanic stays nil
			out = append(out, Scenario{LaneSize: ls, QueueSize: qs, TimeoutMs: 3600000, Producers: [][]PushSpec{{{Lane: 0, Task: TaskSpec{Kind: "instant"}}}}, Cancel: CancelPlan{Kind: "none"}, PostPush: 1})
			out = append(out, Scenario{LaneSize: ls, QueueSize: qs, TimeoutMs: 3600000, Producers: [][]PushSpec{nil}, Cancel: CancelPlan{Kind: "none"}, PostPush: 1})
		}
	}
	// more than 255 tasks held at once: every worker of a 300-lane lane pinned, one more task held by each
	// queue goroutine (queueSize 0) - and 260 lanes with a queue - the pending count is exactly that number
	for _, cfg := range [][2]int{{300, 0}, {260, 1}} {
		ls, qs := cfg[0], cfg[1]
		var pushes []PushSpec
		for i := 0; i < ls*(qs+1); i++ {
			pushes = append(pushes, PushSpec{Lane: i % ls, Task: TaskSpec{Kind: "instant"}})
		}
		out = append(out, Scenario{LaneSize: ls, QueueSize: qs, TimeoutMs: 3600000, Pins: seq(ls), Producers: [][]PushSpec{pushes}, Cancel: CancelPlan{Kind: "none"}, Pollers: 1, PostPush: 0})
	}
	for i := range out {
		out[i].Seed = seed + int64(i)
	}
	return out
}

func shapeKey(s Scenario) string {
	n := 0
	k := map[string]int{}
	for _, p := range s.Producers {
		n += len(p)
		for _, ps := range p {
			k[ps.Task.Kind]++
		}
	}
	extra := ""
	if len(s.Warmup) > 0 {
		extra += fmt.Sprintf(" warm%d", len(s.Warmup))
	}
	if s.Rush {
		extra += " rush"
	}
	if s.Waiters > 1 {
		extra += fmt.Sprintf(" waiters%d", s.Waiters)
		if s.EarlyWait {
			extra += "early"
		}
	}
	if s.TimeoutUs != 0 {
		extra += fmt.Sprintf(" tus%d", s.TimeoutUs)
	}
	if s.DwellMs > 0 {
		extra += fmt.Sprintf(" dwell%dms", s.DwellMs)
	}
	if s.CtxKind != "" || s.Siblings > 0 || s.Observers > 0 || s.SyncPost > 0 {
		extra += fmt.Sprintf(" ctx=%s/sib%d/obs%d/sync%d", s.CtxKind, s.Siblings, s.Observers, s.SyncPost)
	}
	return fmt.Sprintf("L%dQ%d t%d pins%d prod%d n%d %v cancel=%s/%s#%d post%d%s", s.LaneSize, s.QueueSize, s.TimeoutMs, len(s.Pins), len(s.Producers), n, k, s.Cancel.Kind, s.Cancel.Point, s.Cancel.Hit, s.PostPush, extra)
}

func (mn mon) Run(sh drv.Shard, c *drv.Ctx) {
	var a shardArgs
	json.Unmarshal(sh.Args, &a)
	var list []Scenario
	switch a.Mode {
	case "enum":
		list = enumScenarios(sh.Seed)
	case "hol":
		list = holScenarios(sh.Seed)
	case "rush":
		list = rushScenarios(sh.Seed)
	case "ctx":
		list = ctxScenarios(sh.Seed)
	case "flood":
		list = floodScenarios(sh.Seed, 2000)
		if sh.Tier == "thorough" {
			list = append(list, floodScenarios(sh.Seed+7, 20000)...)
		}
	case "bigflood":
		list = bigFloodScenarios(sh.Seed, 70000)
	case "panicnil":
		list = panicNilScenarios(sh.Seed)
	case "dwell":
		list = dwellScenarios(sh.Seed, []int{1300})
		if sh.Tier == "thorough" {
			list = dwellScenarios(sh.Seed, []int{1300, 3100, 11000})
		}
	case "status":
		list = statusScenarios(sh.Seed)
	case "rand":
		r := rand.New(rand.NewSource(sh.Seed*2654435761 + int64(a.Part) + int64(len(sh.Env))*977))
		for i := 0; i < a.Count; i++ {
			list = append(list, randScenario(r))
		}
		a.Parts = 1
		a.Part = 0
	case "panicrace":
		r := rand.New(rand.NewSource(sh.Seed*40503 + int64(len(sh.Name))))
		st := statusScenarios(sh.Seed)
		for i := 0; i < a.Count; i++ {
			s := st[r.Intn(len(st))]
			s.NoHook = true
			list = append(list, s)
		}
		a.Parts = 1
		a.Part = 0
	}
	hookOn := false
	var agg struct {
		pending, hol, panics, leak, post, snapshots, samples, timeouts, ctxErrs, dropped, accepted, started, hookCalls int64
		maxRunning                                                                                                     int64
	}
	for i, s := range list {
		if a.Parts > 1 && i%a.Parts != a.Part {
			continue
		}
		if sh.Race {
			s.NoHook = true
		}
		if s.NoHook == hookOn || i == 0 {
			if s.NoHook {
				tasklane.VerifSetHook(nil)
			} else {
				tasklane.VerifSetHook(hook)
			}
			hookOn = !s.NoHook
		}
		c.Progress(shapeKey(s), true)
		o := run(s)
		c.Eval(1)
		c.DistinctStr(fmt.Sprintf("%s|%x", shapeKey(s), o.trace))
		if c.NumSamples() < 2 && i%7 == 3 {
			c.Sample(map[string]any{"scenario": shapeKey(s), "cancel_landed_at": o.cancelAt, "rest_states": o.restState, "accepted": o.accepted, "started": o.started, "rejected": o.rejected})
		}
		if o.cancelAt != "" {
			at := o.cancelAt
			if j := strings.Index(at, "@"); j >= 0 {
				at = at[:j]
			}
			c.SetAdd("cancel_landed_at", at)
		}
		for _, rs := range o.restState {
			c.SetAdd("rest_states", rs)
		}
		agg.pending += int64(o.pendingCmp)
		agg.hol += int64(o.holChecks)
		agg.panics += int64(o.panicsSeen)
		agg.leak += int64(o.leakChecks)
		agg.post += int64(o.postCancel)
		agg.snapshots += int64(o.snapshots)
		agg.samples += o.samples
		agg.timeouts += int64(o.timeouts)
		agg.ctxErrs += int64(o.ctxErrs)
		agg.dropped += int64(o.dropped)
		agg.accepted += int64(o.accepted)
		agg.started += int64(o.started)
		agg.hookCalls += o.hookCalls
		if int64(o.maxRunning) > agg.maxRunning {
			agg.maxRunning = int64(o.maxRunning)
		}
		stop := false
		for _, v := range o.viols {
			if v.prop != sh.Prop {
				continue
			}
			c.Violate(v.key+"@"+shapeKey(s), s, v.exp, v.obs)
			if strings.HasPrefix(v.key, "stuck-after-cancel") || strings.HasPrefix(v.key, "goroutine-leak") {
				stop = true // leaked goroutines would pollute the following scenarios of this process
			}
		}
		if o.inconclusive != "" {
			c.Inconclusive(shapeKey(s) + ": " + o.inconclusive)
			stop = true
		}
		if stop || c.NumViolations() >= 5 {
			break
		}
	}
	c.Add("exact_pending_comparisons", agg.pending)
	c.Add("head_of_line_judgements", agg.hol)
	c.Add("panics_raised", agg.panics)
	c.Add("leak_checks_after_wait", agg.leak)
	c.Add("pushes_after_cancel", agg.post)
	c.Add("goroutine_dumps", agg.snapshots)
	c.Add("status_samples", agg.samples)
	c.Add("push_timeouts", agg.timeouts)
	c.Add("push_ctx_errors", agg.ctxErrs)
	c.Add("accepted_tasks_dropped_by_cancel", agg.dropped)
	c.Add("tasks_accepted", agg.accepted)
	c.Add("tasks_started", agg.started)
	c.Add("hook_calls", agg.hookCalls)
	c.MaxOf("max_running_tasks", agg.maxRunning)
}

func (mon) Finish(prop, tier string, m *drv.Merged) []string {
	var out []string
	switch prop {
	case "C06", "C07":
		if len(m.Sets["cancel_landed_at"]) < 20 {
			out = append(out, fmt.Sprintf("cancel landed at only %d distinct points", len(m.Sets["cancel_landed_at"])))
		}
	case "C08":
		if m.Sum["head_of_line_judgements"] < 50 {
			out = append(out, "fewer than 50 head-of-line judgements")
		}
	case "C14":
		if m.Sum["exact_pending_comparisons"] < 50 || m.Sum["panics_raised"] < 50 || m.Sum["status_samples"] < 1000 {
			out = append(out, "too few pending comparisons / panics / status samples observed")
		}
	}
	return out
}

func (mn mon) Replay(v drv.Violation, c *drv.Ctx) {
	var s Scenario
	if err := json.Unmarshal(v.Case, &s); err != nil {
		c.Inconclusive("replay: cannot decode case: " + err.Error())
		return
	}
	if !s.NoHook {
		tasklane.VerifSetHook(hook)
	}
	for i := 0; i < 50; i++ { // schedule dependent: repeat the same hook plan
		o := run(s)
		c.Eval(1)
		for _, vv := range o.viols {
			if vv.prop == v.Prop {
				c.Violate(vv.key+"@"+shapeKey(s), s, vv.exp, vv.obs)
				return
			}
		}
	}
}

func main() { drv.Main(mon{}) }
