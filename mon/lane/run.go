package main

import (
	"context"
	"errors"
	"fmt"
	"reflect"
	"runtime"
	"sync/atomic"
	"time"

	"github.com/whoisnian/glb/tasklane"
)

type outcome struct {
	viols        []viol
	inconclusive string
	// evidence
	trace      uint64
	hookCalls  int64
	cancelAt   string
	restState  []string
	accepted   int
	started    int
	rejected   int
	timeouts   int
	ctxErrs    int
	maxRunning int
	samples    int64
	snapshots  int
	pendingCmp int // exact pending comparisons made
	holChecks  int // head-of-line judgements made (ctx live, running < laneSize)
	panicsSeen int
	leakChecks int
	postCancel int
	dropped    int // accepted but never started (legal after cancel)
}

type causeKey struct{}

// run executes one scenario and applies all four checkers; the caller keeps the violations
// of the property it is checking.
func run(spec Scenario) outcome {
	sc := &scn{spec: spec, gate: make(chan struct{})}
	var out outcome
	base := context.WithValue(context.Background(), scnKey{}, sc)
	switch {
	case spec.CtxKind == "own":
		oc := newOwnCtx(base)
		sc.ctx, sc.cancel = oc, func() { oc.finish(context.Canceled) }
		if spec.Cancel.Kind == "deadline" {
			d := time.Duration(spec.Cancel.DeadlineMs) * time.Millisecond
			oc.dl, oc.hasDl = time.Now().Add(d), true
			tm := time.AfterFunc(d, func() { oc.finish(context.DeadlineExceeded) })
			defer tm.Stop()
		}
	case spec.CtxKind == "cause":
		// the lane's context, or an ancestor of it, ends with an application-defined cause:
		// Err() is still Canceled / DeadlineExceeded, only context.Cause differs
		if spec.Cancel.Kind == "deadline" {
			parent, pc := context.WithTimeoutCause(base, time.Duration(spec.Cancel.DeadlineMs)*time.Millisecond, errors.New("harness: budget used up"))
			defer pc()
			sc.ctx, sc.cancel = context.WithCancel(context.WithValue(parent, causeKey{}, 1))
		} else {
			ctx, cc := context.WithCancelCause(base)
			sc.ctx, sc.cancel = ctx, func() { cc(errors.New("harness: draining node")) }
		}
	case spec.Cancel.Kind == "deadline":
		sc.ctx, sc.cancel = context.WithTimeout(base, time.Duration(spec.Cancel.DeadlineMs)*time.Millisecond)
	default:
		sc.ctx, sc.cancel = context.WithCancel(base)
	}
	defer sc.cancel()
	for i := 0; i < spec.Siblings; i++ {
		_, cf := context.WithCancel(sc.ctx)
		defer cf()
	}
	// pre-create all tasks
	var pinTasks []*task
	for range spec.Pins {
		t := sc.newTask(TaskSpec{Kind: "gate"})
		t.pin = true
		pinTasks = append(pinTasks, t)
	}
	var warmTasks []*task
	for _, ps := range spec.Warmup {
		warmTasks = append(warmTasks, sc.newTask(ps.Task))
	}
	prodTasks := make([][]*task, len(spec.Producers))
	for p, pushes := range spec.Producers {
		for _, ps := range pushes {
			prodTasks[p] = append(prodTasks[p], sc.newTask(ps.Task))
		}
	}
	var postTasks []*task
	for i := 0; i < spec.PostPush*spec.LaneSize; i++ {
		t := sc.newTask(TaskSpec{Kind: "instant"})
		t.post = true
		postTasks = append(postTasks, t)
	}
	var syncTasks, obsTasks []*task
	for i := 0; i < spec.SyncPost; i++ {
		t := sc.newTask(TaskSpec{Kind: "instant"})
		t.post = true
		syncTasks = append(syncTasks, t)
	}
	for i := 0; i < spec.Observers; i++ {
		t := sc.newTask(TaskSpec{Kind: "instant"})
		t.post, t.afterDone = true, true
		obsTasks = append(obsTasks, t)
	}
	// observers: parked in <-Done() before the final / rush cancel is issued (started late so that the
	// at-rest judgements of the earlier phases do not see them)
	armObservers := func() {
		var armed atomic.Int32
		for i, t := range obsTasks {
			t, lane := t, i%spec.LaneSize
			sc.spawn(func() {
				armed.Add(1)
				<-sc.ctx.Done()
				sc.push(t, lane)
			})
		}
		for n := 0; n < 1000 && int(armed.Load()) < len(obsTasks); n++ {
			runtime.Gosched()
		}
		for n := 0; n < 3; n++ {
			runtime.Gosched()
		}
	}
	syncPost := func() {
		for i, t := range syncTasks {
			sc.push(t, i%spec.LaneSize)
		}
	}

	if spec.Born {
		if spec.Cancel.Kind == "deadline" {
			for sc.ctx.Err() == nil {
				time.Sleep(200 * time.Microsecond)
			}
		}
		sc.doCancel("born")
	}
	sc.tl = tasklane.New(sc.ctx, spec.LaneSize, spec.QueueSize)
	sc.tl.SetTimeout(time.Duration(spec.TimeoutMs) * time.Millisecond)
	if spec.TimeoutUs > 0 {
		sc.tl.SetTimeout(time.Duration(spec.TimeoutUs) * time.Microsecond)
	} else if spec.TimeoutUs < 0 {
		sc.tl.SetTimeout(0)
	}
	maxPending := spec.LaneSize * (spec.QueueSize + 1)

	// pollers (C14): Status() from other goroutines, all the time
	pollDone := make(chan struct{}, spec.Pollers)
	for i := 0; i < spec.Pollers; i++ {
		go func() {
			for !sc.stopPoll.Load() {
				s := sc.tl.Status()
				sc.samples.Add(1)
				if s.PendingTask < 0 || s.PendingTask > maxPending {
					sc.violate("C14", "pending-bounds", fmt.Sprintf("0 <= PendingTask <= laneSize*(queueSize+1) = %d", maxPending), fmt.Sprintf("Status().PendingTask = %d", s.PendingTask))
				}
				if s.LaneSize != spec.LaneSize || s.QueueSize != spec.QueueSize {
					sc.violate("C14", "status-config", "Status reports the configured sizes", fmt.Sprintf("%+v", *s))
				}
				runtime.Gosched()
			}
			pollDone <- struct{}{}
		}()
	}
	finish := func() outcome {
		sc.stopPoll.Store(true)
		for i := 0; i < spec.Pollers; i++ {
			<-pollDone
		}
		out.viols = sc.viols
		out.trace = sc.trace.Load()
		out.hookCalls = sc.hookCalls.Load()
		if s, ok := sc.cancelAt.Load().(string); ok {
			out.cancelAt = s
		}
		out.accepted, out.started, out.rejected = sc.counts()
		for _, t := range sc.tasks {
			switch t.rc.Load() {
			case rcTimeout:
				out.timeouts++
			case rcCanceled, rcDeadline:
				out.ctxErrs++
			}
			if t.rc.Load() == rcNil && t.enters.Load() == 0 {
				out.dropped++
			}
		}
		out.maxRunning = int(sc.maxRunning.Load())
		out.samples = sc.samples.Load()
		return out
	}
	// emergency exit: release everything so that the process can go on
	bail := func(msg string) outcome {
		out.inconclusive = msg
		sc.doCancel("bail")
		close(sc.gate)
		return finish()
	}
	ctxLive := func() bool { return !sc.cancelled.Load() && spec.Cancel.Kind != "deadline" }

	ptr := func(o outcome) *outcome { return &o }
	load := func() *outcome {
		// ---- phase -1: warm-up history (pushed and drained before any worker is pinned) -------------
		if len(warmTasks) > 0 {
			sc.spawn(func() {
				for i, ps := range spec.Warmup {
					sc.push(warmTasks[i], ps.Lane)
				}
			})
			r := sc.waitRest(nil)
			out.snapshots += r.snapshots
			if !r.ok {
				return ptr(bail("watchdog during the warm-up: " + describe(append(r.lane, r.har...))))
			}
			sc.diedCheck(r, ctxLive())
			sc.atRestChecks(&out, "warm", ctxLive(), r)
		}
		if spec.DwellMs > 0 {
			// idle dwell: the lane (fresh, or drained after the warm-up) is left alone
			time.Sleep(time.Duration(spec.DwellMs) * time.Millisecond)
			r := sc.waitRest(nil)
			out.snapshots += r.snapshots
			if !r.ok {
				return ptr(bail("watchdog after the idle dwell: " + describe(append(r.lane, r.har...))))
			}
			sc.diedCheck(r, ctxLive())
			sc.atRestChecks(&out, "idle-dwelt", ctxLive(), r)
		}
		// ---- phase 0: pin workers with gated tasks ------------------------------------------------
		for i, lane := range spec.Pins {
			t := pinTasks[i]
			sc.spawn(func() { sc.push(t, lane) })
		}
		if len(spec.Pins) > 0 {
			r := sc.waitRest(nil)
			out.snapshots += r.snapshots
			if !r.ok {
				return ptr(bail("watchdog while pinning workers: " + describe(append(r.lane, r.har...))))
			}
		}

		if spec.EarlyWait {
			// Wait() callers that are parked before anything is cancelled: the lane's end releases them
			// all at the same moment
			for w := 1; w < spec.Waiters; w++ {
				sc.spawn(func() { sc.tl.Wait() })
			}
		}
		// ---- phase 1: producers ----------------------------------------------------------------------
		for p := range spec.Producers {
			p := p
			sc.spawn(func() {
				for i, ps := range spec.Producers[p] {
					if c := spec.Cancel; c.Kind == "producer" && c.Producer == p && c.After == i {
						sc.doCancel(fmt.Sprintf("producer%d@%d", p, i))
					}
					sc.push(prodTasks[p][i], ps.Lane)
				}
			})
		}
		r := sc.waitRest(nil)
		out.snapshots += r.snapshots
		if !r.ok {
			return ptr(bail("watchdog in phase 1: " + describe(append(r.lane, r.har...))))
		}
		out.restState = append(out.restState, "loaded:"+laneState(r))
		sc.diedCheck(r, ctxLive())
		sc.atRestChecks(&out, "loaded", ctxLive(), r)
		if spec.DwellMs > 0 {
			// loaded dwell: workers pinned, tasks queued and held - and nothing moves
			time.Sleep(time.Duration(spec.DwellMs) * time.Millisecond)
			r = sc.waitRest(nil)
			out.snapshots += r.snapshots
			if !r.ok {
				return ptr(bail("watchdog after the loaded dwell: " + describe(append(r.lane, r.har...))))
			}
			sc.diedCheck(r, ctxLive())
			sc.atRestChecks(&out, "loaded-dwelt", ctxLive(), r)
		}

		// ---- phase 2: external cancel in the loaded state ----------------------------------------------
		if spec.Cancel.Kind == "external" {
			sc.doCancel("external@" + laneState(r))
		}

		// ---- phase 3: release the gates, let everything drain --------------------------------------------
		close(sc.gate)
		r = sc.waitRest(nil)
		out.snapshots += r.snapshots
		if !r.ok {
			return ptr(bail("watchdog after releasing the gates: " + describe(append(r.lane, r.har...))))
		}
		out.restState = append(out.restState, "drained:"+laneState(r))
		live := ctxLive()
		sc.diedCheck(r, live)
		sc.atRestChecks(&out, "drained", live, r)
		if live {
			// bounded-progress form of "eventually": context live, every running task returned,
			// system at rest => every accepted task has been started (exactly once), and all
			// producers have returned
			for _, t := range sc.tasks {
				if t.spec.Kind != "nil" && t.rc.Load() == rcNil && t.enters.Load() != 1 {
					sc.violate("C06", "accepted-not-started", "with the context live and all running tasks returned, every accepted task is started once the lane is at rest",
						fmt.Sprintf("task %d (%s, lane %d) was accepted but started %d times; lane: %s", t.id, t.spec.Kind, t.lane.Load(), t.enters.Load(), describe(r.lane)))
					break
				}
			}
			for _, g := range r.har {
				sc.violate("C06", "producer-stuck", "producers return once the lane has drained", "at rest with "+describe([]G{g}))
				break
			}
			// C14: panics affected nothing but themselves
			sc.panicChecks(&out)
		}

		return nil
	}
	if spec.Rush {
		// no settling at all: push, cancel and Wait immediately after New (the lane's goroutines
		// may not even have run yet)
		for p := range spec.Producers {
			p := p
			sc.spawn(func() {
				for i, ps := range spec.Producers[p] {
					sc.push(prodTasks[p][i], ps.Lane)
				}
			})
		}
		armObservers()
		sc.doCancel("rush")
		syncPost()
		close(sc.gate)
	} else if o := load(); o != nil {
		return *o
	}

	// ---- phase 4: cancel, pushes after cancel, Wait --------------------------------------------------------
	armObservers()
	sc.doCancel("final")
	if sc.spec.Cancel.Kind == "deadline" {
		for sc.ctx.Err() == nil {
			time.Sleep(200 * time.Microsecond)
		}
		if sc.cancelRet.Load() == 0 {
			sc.cancelRet.Store(sc.stamp())
		}
	}
	syncPost()
	for i, t := range postTasks {
		t, lane := t, i%spec.LaneSize
		sc.spawn(func() { sc.push(t, lane) })
		out.postCancel++
	}
	if !spec.EarlyWait {
		for w := 1; w < spec.Waiters; w++ {
			sc.spawn(func() { sc.tl.Wait() }) // further concurrent Wait() callers: all of them must return
		}
	}
	sc.spawn(func() {
		sc.tl.Wait()
		if n := int(sc.exits.Load()); !spec.NoHook && n < 2*spec.LaneSize {
			sc.violate("C07", "wait-returned-early", fmt.Sprintf("Wait returns only after all %d goroutines of the lane have finished", 2*spec.LaneSize),
				fmt.Sprintf("Wait() returned when only %d lane goroutines had reached their end", n))
		}
		sc.waitRet.Store(sc.stamp())
		sc.waitDone.Store(true)
	})
	r := sc.waitRest(func() bool { return sc.waitDone.Load() && sc.live.Load() == 0 })
	out.snapshots += r.snapshots
	if !r.until {
		if r.ok {
			// at rest although Done() is closed: whoever is still parked lacks a ctx.Done() case
			sc.violate("C07", "stuck-after-cancel:"+stuckKey(r), "after cancel, with all running tasks returned, producers are released, Wait returns and the lane's goroutines end",
				"at rest with lane: "+describe(r.lane)+" harness: "+describe(r.har))
			// unblock what we can
			return finishAfterLeak(sc, &out, finish)
		}
		return bail("watchdog waiting for Wait(): " + describe(append(r.lane, r.har...)))
	}
	// leak check: no lane goroutine may exist after Wait returned
	out.leakChecks++
	r = sc.waitRest(func() bool { return false })
	out.snapshots += r.snapshots
	switch {
	case !r.ok:
		return bail("watchdog during the leak check: " + describe(r.lane))
	case len(r.lane) > 0:
		sc.violate("C07", "goroutine-leak:"+stuckKey(r), "no lane goroutine is left after Wait returned", "still there: "+describe(r.lane))
	}
	// the lane has ended (Wait returned, none of its goroutines is left): it is at rest, so C14's
	// statements about the pending count and LastPanic apply to this state as well
	sc.endedChecks(&out)
	// final judgements over the whole history
	cr, wr := sc.cancelRet.Load(), sc.waitRet.Load()
	wantRc := classify(sc.ctx.Err()) // Err() is stable once the context has ended
	for _, t := range sc.tasks {
		rc := t.rc.Load()
		if t.spec.Kind == "nil" {
			continue
		}
		if rc > rcNil && t.enters.Load() > 0 {
			sc.violate("C06", "rejected-started", "a task whose PushTask returned an error is never started", fmt.Sprintf("task %d: PushTask returned %s, started %d times", t.id, rcName(rc), t.enters.Load()))
		}
		if t.enters.Load() > 1 {
			sc.violate("C06", "double-start", "every task is started at most once", fmt.Sprintf("task %d started %d times", t.id, t.enters.Load()))
		}
		if rc == rcNone {
			sc.violate("C07", "push-never-returned", "PushTask returns", fmt.Sprintf("task %d", t.id))
		}
		if cr != 0 && t.pushCall.Load() > cr {
			if rc != wantRc {
				sc.violate("C07", "push-after-cancel:"+rcName(rc), "a PushTask call that begins after the cancel returns the context's error ("+rcName(wantRc)+")", fmt.Sprintf("task %d: PushTask returned %s", t.id, rcName(rc)))
			}
			if t.enters.Load() > 0 {
				sc.violate("C07", "push-after-cancel-started", "a task pushed after the cancel is never started", fmt.Sprintf("task %d started", t.id))
			}
		}
		if t.afterDone {
			if rc != wantRc {
				sc.violate("C07", "push-after-done:"+rcName(rc), "a PushTask call that begins after the context's Done() is closed returns the context's error ("+rcName(wantRc)+")", fmt.Sprintf("task %d, pushed by a goroutine woken by <-ctx.Done(): PushTask returned %s", t.id, rcName(rc)))
			}
			if t.enters.Load() > 0 {
				sc.violate("C07", "push-after-cancel-started", "a task pushed after the cancel is never started", fmt.Sprintf("task %d started", t.id))
			}
		}
		if wr != 0 && t.enterStamp.Load() > wr {
			sc.violate("C07", "start-after-wait", "no task is started after Wait returned", fmt.Sprintf("task %d", t.id))
		}
	}
	return finish()
}

func finishAfterLeak(sc *scn, out *outcome, finish func() outcome) outcome {
	// a stuck lane cannot be cleaned up; the caller stops the shard after this scenario
	o := finish()
	o.inconclusive = ""
	return o
}

func (sc *scn) hasNil() bool {
	for _, t := range sc.tasks {
		if t.spec.Kind == "nil" {
			return true
		}
	}
	return false
}

func stuckKey(r rest) string {
	seen := map[string]bool{}
	key := ""
	for _, g := range append(append([]G(nil), r.lane...), r.har...) {
		w := shortFn(g.Where())
		if !seen[w] {
			seen[w] = true
			if key != "" {
				key += "+"
			}
			key += w
		}
	}
	return key
}

// equalPanic compares a reported panic value with a raised one; == where the dynamic type is
// comparable, reflect.DeepEqual for the uncomparable kinds (their content carries the task id).
func equalPanic(a, b any) bool {
	switch b.(type) {
	case panicSlice, panicMap:
		return reflect.DeepEqual(a, b)
	}
	defer func() { recover() }()
	return a == b
}

// diedCheck: a lane goroutine that has ended while the context is live.
func (sc *scn) diedCheck(r rest, live bool) {
	if !live || r.died == 0 {
		return
	}
	prop := "C06"
	for _, t := range sc.tasks {
		if (t.spec.Kind == "panic" || t.spec.Kind == "gatepanic") && t.enters.Load() > 0 {
			prop = "C14"
		}
	}
	sc.violate(prop, "lane-goroutine-ended", fmt.Sprintf("while the context is live the lane keeps its %d goroutines (workers keep serving, also after a task panicked)", 2*sc.spec.LaneSize),
		fmt.Sprintf("%d goroutine(s) gone; remaining: %s", r.died, describe(r.lane)))
}

// atRestChecks: C08 head-of-line rule and C14 exact pending count, at a structurally
// quiescent instant.
func (sc *scn) atRestChecks(out *outcome, phase string, live bool, r rest) {
	accepted, started, _ := sc.counts()
	s := sc.tl.Status()
	maxPending := sc.spec.LaneSize * (sc.spec.QueueSize + 1)
	if s.PendingTask < 0 || s.PendingTask > maxPending {
		sc.violate("C14", "pending-bounds", fmt.Sprintf("0 <= PendingTask <= %d", maxPending), fmt.Sprint(s.PendingTask))
	}
	if !live || sc.hasNil() {
		return // a nil task leaves the pending count when a worker takes it, which cannot be observed
	}
	out.pendingCmp++
	if s.PendingTask != accepted-started {
		sc.violate("C14", "pending-exact:"+phase, fmt.Sprintf("at rest PendingTask == accepted - started = %d - %d = %d", accepted, started, accepted-started), fmt.Sprintf("Status().PendingTask = %d", s.PendingTask))
	}
	running := int(sc.running.Load())
	if running < sc.spec.LaneSize {
		// a producer parked in PushTask although a worker is idle: its task waits behind a busy
		// worker (with an idle worker every queue goroutine gets rid of the task it holds and
		// takes the next one, so no push can stay blocked at rest)
		for _, g := range r.har {
			if g.In("tasklane.(*TaskLane).PushTask") {
				sc.violate("C08", "push-blocked-while-idle:"+phase, fmt.Sprintf("a pushed task is handed to an idle worker (running=%d < laneSize=%d)", running, sc.spec.LaneSize),
					"at rest with a producer blocked in PushTask: "+describe([]G{g})+"; lane: "+describe(r.lane))
				break
			}
		}
		out.holChecks++
		for _, t := range sc.tasks {
			if t.rc.Load() == rcNil && t.enters.Load() == 0 {
				sc.violate("C08", "head-of-line:"+phase, fmt.Sprintf("a waiting task is started as soon as any worker is idle (running=%d < laneSize=%d)", running, sc.spec.LaneSize),
					fmt.Sprintf("at rest with task %d (pushed to lane %d) accepted and not started; pending=%d", t.id, t.lane.Load(), accepted-started))
				break
			}
		}
	}
}

// endedChecks (C14), after Wait returned: PendingTask still equals accepted - started (tasks dropped by
// the cancellation stay counted: they were accepted and never started), and LastPanic is the value
// of one of the panics that occurred - also of one that occurred after the cancellation.
func (sc *scn) endedChecks(out *outcome) {
	if sc.hasNil() {
		return
	}
	accepted, started, _ := sc.counts()
	s := sc.tl.Status()
	maxPending := sc.spec.LaneSize * (sc.spec.QueueSize + 1)
	if s.PendingTask < 0 || s.PendingTask > maxPending {
		sc.violate("C14", "pending-bounds", fmt.Sprintf("0 <= PendingTask <= %d", maxPending), fmt.Sprint(s.PendingTask))
	}
	out.pendingCmp++
	if s.PendingTask != accepted-started {
		sc.violate("C14", "pending-exact:ended", fmt.Sprintf("at rest (lane ended) PendingTask == accepted - started = %d - %d = %d", accepted, started, accepted-started), fmt.Sprintf("Status().PendingTask = %d", s.PendingTask))
	}
	var raised []any
	for _, t := range sc.tasks {
		if (t.spec.Kind == "panic" || t.spec.Kind == "gatepanic") && t.enters.Load() > 0 {
			raised = append(raised, t.panicVal)
		}
	}
	lp := s.LastPanic
	if len(raised) == 0 {
		if lp != nil {
			sc.violate("C14", "lastpanic-spurious:ended", "LastPanic is nil when no task panicked", fmt.Sprintf("%v", lp))
		}
		return
	}
	for _, v := range raised {
		if equalPanic(lp, v) {
			return
		}
	}
	sc.violate("C14", "lastpanic-foreign:ended", "LastPanic is the value of one of the panics that occurred", fmt.Sprintf("LastPanic = %#v, raised %d values such as %#v", lp, len(raised), raised[0]))
}

// panicChecks (C14): LastPanic is one of the values raised (nil iff none).
func (sc *scn) panicChecks(out *outcome) {
	var raised []any
	for _, t := range sc.tasks {
		if (t.spec.Kind == "panic" || t.spec.Kind == "gatepanic") && t.enters.Load() > 0 {
			raised = append(raised, t.panicVal)
		}
	}
	out.panicsSeen += len(raised)
	if len(raised) > 0 {
		for _, t := range sc.tasks {
			if t.rc.Load() == rcNil && t.spec.Kind != "panic" && t.spec.Kind != "gatepanic" && t.spec.Kind != "nil" && t.enters.Load() != 1 {
				sc.violate("C14", "task-lost-after-panic", "a panicking task affects nothing but itself: every other accepted task is still started exactly once",
					fmt.Sprintf("task %d (%s, lane %d) started %d times after %d panics", t.id, t.spec.Kind, t.lane.Load(), t.enters.Load(), len(raised)))
				break
			}
		}
	}
	lp := sc.tl.Status().LastPanic
	if sc.hasNil() {
		return // the recovered nil dereference of a nil task is a legitimate LastPanic too
	}
	if len(raised) == 0 {
		if lp != nil {
			sc.violate("C14", "lastpanic-spurious", "LastPanic is nil when no task panicked", fmt.Sprintf("%v", lp))
		}
		return
	}
	for _, v := range raised {
		if equalPanic(lp, v) {
			return
		}
	}
	_ = 0
	sc.violate("C14", "lastpanic-foreign", "LastPanic is the value of one of the panics that occurred", fmt.Sprintf("LastPanic = %#v, raised %d values such as %#v", lp, len(raised), raised[0]))
}
