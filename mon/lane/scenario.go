package main

import (
	"context"
	"errors"
	"fmt"
	"hash/fnv"
	"runtime"
	"sort"
	"strings"
	"sync"
	"sync/atomic"
	"time"

	"github.com/whoisnian/glb/tasklane"

	"verif/internal/atrest"
)

// ---- scenario description (serialisable) -------------------------------------------------

type TaskSpec struct {
	Kind  string `json:"kind"`            // instant yield sleep gate panic gatepanic cancel
	Panic string `json:"panic,omitempty"` // string error int struct pointer
}

type PushSpec struct {
	Lane int      `json:"lane"` // >=0 fixed lane; -1 ShortestQueueIndex()
	Task TaskSpec `json:"task"`
}

type CancelPlan struct {
	Kind       string `json:"kind"` // none hook producer task external deadline
	Point      string `json:"point,omitempty"`
	Hit        int    `json:"hit,omitempty"`
	Producer   int    `json:"producer,omitempty"`
	After      int    `json:"after,omitempty"`
	DeadlineMs int    `json:"deadline_ms,omitempty"`
}

type Scenario struct {
	LaneSize  int        `json:"lane_size"`
	QueueSize int        `json:"queue_size"`
	TimeoutMs int        `json:"timeout_ms"`           // PushTask timeout: 1 (timeouts occur) or 3600000
	TimeoutUs int        `json:"timeout_us,omitempty"` // when > 0 (or -1 for a zero timeout) it replaces TimeoutMs: try-push style timeouts
	Warmup    []PushSpec `json:"warmup,omitempty"`     // pushed (by one producer) and drained before the pins
	Pins      []int      `json:"pins,omitempty"`
	Rush      bool       `json:"rush,omitempty"`    // push, cancel and Wait right after New, without settling
	Waiters   int        `json:"waiters,omitempty"` // concurrent Wait() callers (default 1)
	// Born: the context has already ended when New is called - cancelled, or (Cancel.Kind deadline)
	// past its deadline. Used together with Rush: pushes and Wait follow at once.
	Born      bool `json:"born,omitempty"`
	EarlyWait bool `json:"early_wait,omitempty"` // the extra Wait() callers are already parked in Wait when the cancel comes
	// SlowPoint/SlowLane: the hook holds that lane's goroutine for 100 µs at that point on every hit
	// (a directed delay at a genuine preemption point, on top of the hashed perturbation)
	SlowPoint string       `json:"slow_point,omitempty"`
	SlowLane  int          `json:"slow_lane,omitempty"`
	Producers [][]PushSpec `json:"producers"`
	Cancel    CancelPlan   `json:"cancel"`
	PostPush  int          `json:"post_push"` // pushes per lane issued after the cancel returned
	Pollers   int          `json:"pollers,omitempty"`
	Perturb   bool         `json:"perturb,omitempty"`
	NoHook    bool         `json:"no_hook,omitempty"`
	// DwellMs: real time during which the lane is left alone in a quiescent state - once idle (after
	// the warm-up, before anything is pinned) and once loaded (workers pinned, producers done) - before
	// the usual judgements are made. Nothing may change in a lane at rest, however long it rests;
	// the time is exposure only, the verdicts are the structural ones.
	DwellMs int `json:"dwell_ms,omitempty"`
	// CtxKind "own": the lane gets a context type of the harness' own (its own Done channel, no
	// standard-library cancelCtx underneath) - a context whose cancellation the lane can only learn
	// from Done()/Err() themselves. "cause": WithCancelCause / an ancestor with WithTimeoutCause.
	// "" = context.WithCancel / WithTimeout.
	CtxKind string `json:"ctx_kind,omitempty"`
	// Siblings: that many further child contexts hang off the lane's context (a cancel walks them all).
	Siblings int `json:"siblings,omitempty"`
	// Observers: goroutines parked in <-ctx.Done() that push the moment they are woken - pushes that
	// begin after the context is cancelled, but possibly before cancel() has returned to its caller.
	Observers int `json:"observers,omitempty"`
	// SyncPost: pushes made by the cancelling goroutine itself right after cancel() returned.
	SyncPost int   `json:"sync_post,omitempty"`
	Seed     int64 `json:"seed"`
}

// ---- run-time state -------------------------------------------------------------------------

const (
	rcNone int32 = iota
	rcNil
	rcTimeout
	rcCanceled
	rcDeadline
	rcOther
)

type task struct {
	sc         *scn
	id         int
	spec       TaskSpec
	lane       atomic.Int32
	pushCall   atomic.Uint64
	pushRet    atomic.Uint64
	rc         atomic.Int32
	enters     atomic.Int32
	enterStamp atomic.Uint64
	exitStamp  atomic.Uint64
	panicVal   any
	pin        bool
	post       bool
	afterDone  bool // pushed by a goroutine that had already seen ctx.Done() closed
}

// ownCtx is a context.Context implementation that is not the standard library's: Done is its own
// channel, Err its own field, Value is delegated. Cancelling closes Done after Err is set, as the
// context contract demands.
type ownCtx struct {
	parent context.Context
	done   chan struct{}
	mu     sync.Mutex
	err    error
	dl     time.Time
	hasDl  bool
}

func newOwnCtx(parent context.Context) *ownCtx {
	return &ownCtx{parent: parent, done: make(chan struct{})}
}

func (c *ownCtx) Deadline() (time.Time, bool) { return c.dl, c.hasDl }
func (c *ownCtx) Done() <-chan struct{}       { return c.done }
func (c *ownCtx) Value(k any) any             { return c.parent.Value(k) }
func (c *ownCtx) Err() error {
	c.mu.Lock()
	defer c.mu.Unlock()
	return c.err
}
func (c *ownCtx) finish(err error) {
	c.mu.Lock()
	if c.err == nil {
		c.err = err
		close(c.done)
	}
	c.mu.Unlock()
}

type viol struct{ prop, key, exp, obs string }

type scn struct {
	spec   Scenario
	ctx    context.Context
	cancel context.CancelFunc
	tl     *tasklane.TaskLane
	tasks  []*task
	gate   chan struct{}

	clock      atomic.Uint64
	cancelCall atomic.Uint64
	cancelRet  atomic.Uint64
	waitRet    atomic.Uint64
	waitDone   atomic.Bool
	cancelled  atomic.Bool
	cancelAt   atomic.Value // string: where the cancel landed
	running    atomic.Int32
	maxRunning atomic.Int32
	live       atomic.Int32 // harness goroutines not finished yet
	hits       [16]atomic.Int32
	exits      atomic.Int32 // lane goroutines that reached their exit hook
	trace      atomic.Uint64
	hookCalls  atomic.Int64
	stopPoll   atomic.Bool
	samples    atomic.Int64

	mu    sync.Mutex
	viols []viol
	notes []string

	// results for the evidence
	restStates []string
}

type scnKey struct{}

// exitPoints are observed (never used as cancel points): the lane goroutine is about to end.
var exitPoints = map[string]bool{"queue.exit": true, "worker.exit": true}

var points = []string{"push.enter", "push.beforeSelect", "queue.loop", "queue.afterTake", "queue.afterCount", "queue.beforeOffer",
	"queue.beforeBlockingOffer", "queue.afterHandover", "worker.loop", "worker.beforeRecv", "worker.beforeBlockingRecv", "worker.afterRecv", "worker.afterTask"}

var pointIdx = func() map[string]int {
	m := map[string]int{}
	for i, p := range points {
		m[p] = i
	}
	return m
}()

func (sc *scn) violate(prop, key, exp, obs string) {
	sc.mu.Lock()
	if len(sc.viols) < 8 {
		sc.viols = append(sc.viols, viol{prop, key, exp, obs})
	}
	sc.mu.Unlock()
}

func (sc *scn) stamp() uint64 { return sc.clock.Add(1) }

func (sc *scn) doCancel(where string) {
	if sc.cancelled.Swap(true) {
		return
	}
	sc.cancelAt.Store(where)
	sc.cancelCall.Store(sc.stamp())
	sc.cancel()
	sc.cancelRet.Store(sc.stamp())
}

// hook is the process-wide tasklane hook; it finds its scenario through the lane's context.
func hook(ctx context.Context, point string, lane int) {
	sc, _ := ctx.Value(scnKey{}).(*scn)
	if sc == nil {
		return
	}
	if exitPoints[point] {
		if sc.spec.Perturb {
			time.Sleep(100 * time.Microsecond) // widen the window in which Wait could return early
		}
		sc.exits.Add(1)
		return
	}
	i := pointIdx[point]
	n := int(sc.hits[i].Add(1))
	sc.hookCalls.Add(1)
	// rolling signature of the (point, lane) order: the "distinct interleavings" metric
	for {
		old := sc.trace.Load()
		if sc.trace.CompareAndSwap(old, (old^uint64(i*31+lane+1))*1099511628211) {
			break
		}
	}
	if c := sc.spec.Cancel; c.Kind == "hook" && c.Point == point && c.Hit == n {
		sc.doCancel(fmt.Sprintf("%s#%d", point, n))
	}
	if sc.spec.SlowPoint == point && sc.spec.SlowLane == lane {
		time.Sleep(100 * time.Microsecond)
	}
	if sc.spec.Perturb {
		h := fnv.New32a()
		fmt.Fprintf(h, "%d/%d/%d/%d", sc.spec.Seed, i, lane, n)
		switch h.Sum32() % 16 {
		case 0, 1, 2:
			runtime.Gosched()
		case 3:
			time.Sleep(20 * time.Microsecond)
		}
	}
}

type panicStruct struct{ N int }

// uncomparable dynamic types: comparing two such values with == panics at run time
type panicSlice []int
type panicMap map[string]int

func (t *task) Start() {
	sc := t.sc
	n := t.enters.Add(1)
	t.enterStamp.Store(sc.stamp())
	if n > 1 {
		sc.violate("C06", "double-start", "every task is started at most once", fmt.Sprintf("task %d (%s) started %d times", t.id, t.spec.Kind, n))
	}
	if rc := t.rc.Load(); rc > rcNil {
		sc.violate("C06", "rejected-started", "a task whose PushTask returned an error is never started", fmt.Sprintf("task %d started although PushTask returned %s", t.id, rcName(rc)))
	}
	if wr := sc.waitRet.Load(); wr != 0 {
		sc.violate("C07", "start-after-wait", "no task is started after Wait returned", fmt.Sprintf("task %d started after Wait() had returned", t.id))
	}
	r := sc.running.Add(1)
	for {
		m := sc.maxRunning.Load()
		if r <= m || sc.maxRunning.CompareAndSwap(m, r) {
			break
		}
	}
	if int(r) > sc.spec.LaneSize {
		sc.violate("C08", "bound", fmt.Sprintf("at most laneSize=%d tasks execute at once", sc.spec.LaneSize), fmt.Sprintf("%d tasks between entry and exit of Start()", r))
	}
	defer func() {
		sc.running.Add(-1)
		t.exitStamp.Store(sc.stamp())
	}()
	switch t.spec.Kind {
	case "yield":
		for i := 0; i < 3; i++ {
			runtime.Gosched()
		}
	case "sleep":
		time.Sleep(100 * time.Microsecond)
	case "gate":
		<-sc.gate
	case "gatepanic":
		<-sc.gate
		panic(t.panicVal)
	case "panic":
		panic(t.panicVal)
	case "cancel":
		sc.doCancel("task")
	}
}

func rcName(rc int32) string {
	return [...]string{"(not returned)", "nil", "ErrTimeout", "context.Canceled", "context.DeadlineExceeded", "another error"}[rc]
}

func classify(err error) int32 {
	switch {
	case err == nil:
		return rcNil
	case errors.Is(err, tasklane.ErrTimeout):
		return rcTimeout
	case errors.Is(err, context.Canceled):
		return rcCanceled
	case errors.Is(err, context.DeadlineExceeded):
		return rcDeadline
	}
	return rcOther
}

func (sc *scn) newTask(spec TaskSpec) *task {
	t := &task{sc: sc, id: len(sc.tasks), spec: spec}
	if spec.Kind == "panic" || spec.Kind == "gatepanic" {
		switch spec.Panic {
		case "error":
			t.panicVal = fmt.Errorf("panic of task %d", t.id)
		case "int":
			t.panicVal = 1000 + t.id
		case "struct":
			t.panicVal = panicStruct{t.id}
		case "pointer":
			t.panicVal = &panicStruct{t.id}
		case "slice":
			t.panicVal = panicSlice{t.id, 7}
		case "map":
			t.panicVal = panicMap{"task": t.id}
		case "nilvalue":
			t.panicVal = nil // panic(nil): with GODEBUG=panicnil=1 recover() returns nil
		default:
			t.panicVal = fmt.Sprintf("panic of task %d", t.id)
		}
	}
	sc.tasks = append(sc.tasks, t)
	return t
}

func (sc *scn) push(t *task, lane int) {
	if lane < 0 {
		lane = sc.tl.ShortestQueueIndex()
	}
	t.lane.Store(int32(lane))
	t.pushCall.Store(sc.stamp())
	var arg tasklane.Task = t
	if t.spec.Kind == "nil" {
		arg = nil // a nil Task: cannot be started (the worker recovers the nil dereference); excluded from the counts
	}
	err := sc.tl.PushTask(arg, lane)
	t.rc.Store(classify(err))
	t.pushRet.Store(sc.stamp())
}

// spawn starts a harness goroutine that the at-rest predicate knows about.
func (sc *scn) spawn(f func()) {
	sc.live.Add(1)
	go func() {
		defer sc.live.Add(-1)
		f()
	}()
}

const laneCreator = "github.com/whoisnian/glb/tasklane.New"
const harnessCreator = "main.(*scn).spawn"

type rest struct {
	gs        []atrest.G
	lane, har []atrest.G
	ok        bool // at rest (false: watchdog fired or `until` became true)
	until     bool
	snapshots int
	died      int // lane goroutines missing although the context is live
}

// waitRest polls goroutine dumps until the lane and the harness goroutines are at rest, or
// until() holds. The 10 s watchdog makes the result inconclusive, never a violation.
func (sc *scn) waitRest(until func() bool) rest {
	t0 := time.Now()
	var r rest
	pause := 20 * time.Microsecond
	for {
		if until != nil && until() {
			r.until = true
			return r
		}
		wasCancelled := sc.cancelled.Load() || sc.ctx.Err() != nil
		live := int(sc.live.Load())
		gs := atrest.Snapshot()
		r.snapshots++
		r.gs = gs
		r.lane = atrest.CreatedBy(gs, laneCreator)
		r.har = atrest.CreatedBy(gs, harnessCreator)
		ok := len(r.har) == live && live == int(sc.live.Load())
		for _, g := range r.lane {
			ok = ok && g.Parked()
		}
		for _, g := range r.har {
			ok = ok && g.Parked()
			// a pusher with a short timeout that is parked in a select has a timer armed: not at
			// rest. (Parked in a plain channel send no timer can release it: that is at rest.)
			if sc.spec.TimeoutMs < 1000 && g.State == "select" && g.In("tasklane.(*TaskLane).PushTask") {
				ok = false
			}
		}
		r.died = 0
		if !wasCancelled && len(r.lane) > 2*sc.spec.LaneSize {
			ok = false // goroutines of an earlier scenario: the caller stops the shard on leaks, so this cannot last
		}
		if !wasCancelled && len(r.lane) < 2*sc.spec.LaneSize {
			// `go` creates the goroutine at once, so while the context is live the population is
			// exactly 2*laneSize; fewer means a lane goroutine has ended
			r.died = 2*sc.spec.LaneSize - len(r.lane)
		}
		if sc.spec.Cancel.Kind == "deadline" && sc.ctx.Err() == nil {
			ok = false // the deadline timer is still armed
		}
		if ok && wasCancelled == (sc.cancelled.Load() || sc.ctx.Err() != nil) {
			if until != nil && until() { // became true between the check above and the dump
				r.until = true
				return r
			}
			r.ok = true
			return r
		}
		if time.Since(t0) > 10*time.Second {
			return r
		}
		time.Sleep(pause)
		if pause < 2*time.Millisecond {
			pause *= 2
		}
	}
}

func describe(gs []atrest.G) string {
	var parts []string
	for _, g := range gs {
		parts = append(parts, fmt.Sprintf("g%d[%s]@%s", g.ID, g.State, shortFn(g.Where())))
	}
	sort.Strings(parts)
	return strings.Join(parts, " ")
}

func shortFn(f string) string {
	f = strings.TrimPrefix(f, "github.com/whoisnian/glb/")
	return f
}

func (sc *scn) counts() (accepted, started, rejected int) {
	for _, t := range sc.tasks {
		if t.spec.Kind == "nil" {
			continue
		}
		if t.rc.Load() == rcNil {
			accepted++
		} else if t.rc.Load() > rcNil {
			rejected++
		}
		if t.enters.Load() > 0 {
			started++
		}
	}
	return
}

// laneState summarises where the lane goroutines are (evidence: state at which things landed).
func laneState(r rest) string {
	q, w := map[string]int{}, map[string]int{}
	for _, g := range r.lane {
		if g.In("startQueue") {
			q[g.State]++
		} else {
			w[g.State]++
		}
	}
	return fmt.Sprintf("queue%v worker%v", q, w)
}
