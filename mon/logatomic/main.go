// Monitor logatomic (C02): one Write per record, the whole line, never interleaved.
// Oracle: a recording writer (overlap counter, per-call payload copies); after the goroutines
// are joined the multiset of time-stripped payloads must equal the multiset of "alone" lines
// obtained by replaying each record's own derivation chain on a fresh handler.
// See DESIGN.md §3 C02.
package main

import (
	"bytes"
	"encoding/json"
	"fmt"
	"io"
	"log/slog"
	"math"
	"math/rand"
	"regexp"
	"runtime"
	"strings"
	"sync"
	"sync/atomic"
	"time"

	"github.com/whoisnian/glb/logger"

	"verif/internal/attrgen"
	"verif/internal/drv"
	"verif/internal/logrun"
	"verif/internal/recw"
)

// Case is one concurrent run; the per-goroutine operation lists are a pure function of it.
type Case struct {
	Kind      string `json:"kind"`
	Threshold int    `json:"threshold"`
	G         int    `json:"g"`
	PerG      int    `json:"per_g"`
	Seed      int64  `json:"seed"`
	Dwell     int    `json:"dwell"`
	AddSource bool   `json:"add_source,omitempty"`
	FailEvery int    `json:"fail_every,omitempty"` // the destination reports a short write + error on every n-th call
	// ThrOff is added to the numeric value of the named threshold level (0..3): thresholds between the
	// named levels. A record is enabled iff its level's value >= that of the threshold.
	ThrOff int `json:"thr_off,omitempty"`
	// Vias: records go through Log / level methods / LogAttrs / f-methods (see logrun.EmitVia)
	// instead of Log only.
	Vias bool `json:"vias,omitempty"`
	// Special: "reentrant" - a value's LogValue() logs through a logger of the same family while the
	// outer record is being formatted; "writepanic" - the destination's Write panics once (the caller
	// recovers) and logging goes on afterwards. Single goroutine; G, PerG, Dwell unused.
	Special string `json:"special,omitempty"`
}

func (cs Case) thr() slog.Level { return logrun.Levels[cs.Threshold] + slog.Level(cs.ThrOff) }

func (cs Case) enabled(level int) bool { return logrun.Levels[level] >= cs.thr() }

type planned struct {
	base  int // -1 root, else index of a pre-derived child
	extra []attrgen.ChainOp
	level int
	via   int
	msg   string
	attrs []attrgen.Node
}

func leaf(k string, v *attrgen.Val) attrgen.Node { return attrgen.Node{Key: []byte(k), Val: v} }
func sval(s string) *attrgen.Val                 { return &attrgen.Val{T: "str", B: []byte(s)} }
func ival(i int64) *attrgen.Val                  { return &attrgen.Val{T: "int", I: i} }

// chains of the loggers derived before the run
var childChains = [][]attrgen.ChainOp{
	{{Attrs: []attrgen.Node{leaf("a", ival(1))}}},
	{{IsGrp: true, Group: []byte("g")}, {Attrs: []attrgen.Node{leaf("b", ival(2))}}},
	{{Attrs: []attrgen.Node{leaf("a", ival(1))}}, {Attrs: []attrgen.Node{leaf("c", sval("x y"))}}, {IsGrp: true, Group: []byte("h")}},
	{{Attrs: []attrgen.Node{leaf("long", sval(strings.Repeat("p", 300))), leaf("n", ival(3))}}},
}

var pads = []int{0, 0, 0, 10, 900, 1100, 16200, 16300, 16384, 16400, 40000}

func plan(cs Case, g int) []planned {
	r := rand.New(rand.NewSource(cs.Seed*7907 + int64(g)))
	out := make([]planned, cs.PerG)
	for j := range out {
		p := planned{base: r.Intn(len(childChains)+1) - 1, level: r.Intn(5)}
		if r.Intn(3) == 0 { // derive during the run
			n := 1 + r.Intn(3)
			for k := 0; k < n; k++ {
				if r.Intn(3) == 0 {
					p.extra = append(p.extra, attrgen.ChainOp{IsGrp: true, Group: []byte(fmt.Sprintf("d%d", r.Intn(3)))})
				} else {
					p.extra = append(p.extra, attrgen.ChainOp{Attrs: []attrgen.Node{leaf(fmt.Sprintf("w%d", r.Intn(5)), ival(int64(r.Intn(1000))))}})
				}
			}
		}
		pad := pads[r.Intn(len(pads))]
		if r.Intn(4) != 0 && pad > 2000 {
			pad = pads[r.Intn(6)] // big lines are the minority
		}
		if pad > 16000 && pad < 17000 {
			pad += r.Intn(200) - 100
		}
		p.msg = fmt.Sprintf("r%d-%d", g, j) + strings.Repeat("x", pad)
		switch r.Intn(5) {
		case 0:
		case 4: // values that go through encoding/json in the JSON handler (floats, structs, maps)
			p.attrs = []attrgen.Node{leaf("f", &attrgen.Val{T: "float", U: math.Float64bits(float64(g*1000+j) + 0.25)}), leaf("st", &attrgen.Val{T: "struct", I: 1}), leaf("mp", &attrgen.Val{T: "map", I: int64(1 + j%2)})}
		case 1:
			p.attrs = []attrgen.Node{leaf("k", ival(int64(j)))}
		case 2:
			p.attrs = []attrgen.Node{leaf("k", sval("v w")), {Key: []byte("grp"), Kids: []attrgen.Node{leaf("in", ival(7))}}}
		default:
			p.attrs = []attrgen.Node{leaf("e", &attrgen.Val{T: "err", B: []byte("boom")}), leaf("f", &attrgen.Val{T: "dur", I: 1500000})}
		}
		if cs.Vias {
			p.via = r.Intn(8)
			if p.via == 3 || p.via == 5 {
				p.attrs = nil // the f-methods take no attributes
			}
			if p.via == 4 || p.via == 5 {
				p.level = 3 // Panic / Panicf log at ERROR
			}
		}
		out[j] = p
	}
	return out
}

func fullChain(p planned) []attrgen.ChainOp {
	var c []attrgen.ChainOp
	if p.base >= 0 {
		c = append(c, childChains[p.base]...)
	}
	return append(c, p.extra...)
}

type stats struct {
	records, enabled, writes, overlaps, switches, big int64
	maxInside                                         int64
}

var idRe = regexp.MustCompile(`r(\d+)-(\d+)x*`)

// relog is a LogValuer that logs through l while it is being resolved.
type relog struct {
	l   *logger.Logger
	msg string
}

func (r relog) LogValue() slog.Value {
	r.l.Info(r.msg, "inner", 1)
	return slog.StringValue("resolved")
}

// panicOnce is a destination whose n-th Write panics.
type panicOnce struct {
	w   *recw.Writer
	at  int
	cnt int
}

func (p *panicOnce) Write(b []byte) (int, error) {
	p.cnt++
	if p.cnt == p.at {
		panic("destination failed")
	}
	return p.w.Write(b)
}

// runSpecial: see Case.Special. The logging calls run on a goroutine of their own; if they do not
// come back the goroutine dump decides: parked in a mutex below a glb handler = the handler blocks
// itself (violation), anything else = inconclusive.
func runSpecial(cs Case, st *stats) (key, expected, observed string) {
	tag := fmt.Sprintf("%s:%s/thr%d", cs.Special, cs.Kind, cs.Threshold)
	w := recw.New(64, 0)
	var dest io.Writer = w
	if cs.Special == "writepanic" {
		dest = &panicOnce{w: w, at: 2}
	}
	root := logger.New(logrun.NewHandlerLevel(cs.Kind, dest, cs.thr(), cs.AddSource))
	child := root.With("c", 1).WithGroup("g")
	type res struct {
		pv any
	}
	done := make(chan res, 1)
	var wantLines int
	go func() {
		var r res
		defer func() { done <- r }()
		switch cs.Special {
		case "reentrant":
			// outer through the child, inner through the root and through a sibling of the child
			child.Warn("outer1", "v", relog{root, "inner1"}, "after", 2)
			root.Warn("outer2", slog.Group("grp", slog.Any("v", relog{child.With("s", 1), "inner2"})))
		case "writepanic":
			root.Warn("first")
			func() {
				defer func() { r.pv = recover() }()
				child.Warn("second: its Write panics")
			}()
			root.Warn("third")
			child.Warn("fourth")
		}
	}()
	var r res
	select {
	case r = <-done:
	case <-time.After(20 * time.Second):
		buf := make([]byte, 1<<20)
		dump := string(buf[:runtime.Stack(buf, true)])
		if strings.Contains(dump, "sync.(*Mutex).Lock") && strings.Contains(dump, "glb/logger.") {
			return "blocked:" + tag, "logging returns (a record logged while another is being formatted, or after a failed Write, is simply written)", "a logging call is parked in sync.(*Mutex).Lock inside a glb handler and nothing else runs"
		}
		return "inconclusive-special:" + tag, "", "logging calls did not return within 20 s, not parked in a handler mutex"
	}
	lv := func(l int) bool { return logrun.Levels[l] >= cs.thr() }
	switch cs.Special {
	case "reentrant":
		if lv(2) {
			wantLines += 2
		}
		if lv(1) && lv(2) { // the inner Info records are only logged when the outer record is formatted at all
			wantLines += 2
		}
	case "writepanic":
		if lv(2) {
			wantLines = 3 // first, third, fourth: the second one's Write panicked
			if r.pv == nil {
				return "writepanic-swallowed:" + tag, "the panic of the destination's Write reaches the caller", "no panic"
			}
		}
	}
	st.records += 4
	st.writes += int64(w.Calls())
	if w.Calls() != wantLines {
		var got []string
		for _, pl := range w.Payloads() {
			got = append(got, clip(string(pl)))
		}
		return "calls:" + tag, fmt.Sprintf("%d Write calls", wantLines), fmt.Sprintf("%d: %q", w.Calls(), got)
	}
	for i, pl := range w.Payloads() {
		if _, err := logrun.StripTime(cs.Kind, pl); err != nil || len(pl) == 0 || pl[len(pl)-1] != '\n' || bytes.Count(pl, []byte{'\n'}) != 1 {
			return "payload:" + tag, "every Write carries one complete line", fmt.Sprintf("write #%d: %q (%v)", i, clip(string(pl)), err)
		}
	}
	return "", "", ""
}

func runCase(cs Case, st *stats) (key, expected, observed string) {
	if cs.Special != "" {
		return runSpecial(cs, st)
	}
	plans := make([][]planned, cs.G)
	total := 0
	for g := range plans {
		plans[g] = plan(cs, g)
		total += len(plans[g])
	}
	w := recw.New(total+16, cs.Dwell)
	w.FailEvery = cs.FailEvery
	root := logger.New(logrun.NewHandlerLevel(cs.Kind, w, cs.thr(), cs.AddSource))
	children := make([]*logger.Logger, len(childChains))
	for i, ch := range childChains {
		children[i] = attrgen.Derive(root, ch)
	}
	var inside, maxInside atomic.Int64
	var wg sync.WaitGroup
	start := make(chan struct{})
	panics := make([]any, cs.G)
	for g := 0; g < cs.G; g++ {
		wg.Add(1)
		go func(g int) {
			defer wg.Done()
			defer func() { panics[g] = recover() }()
			<-start
			for _, p := range plans[g] {
				l := root
				if p.base >= 0 {
					l = children[p.base]
				}
				if len(p.extra) > 0 {
					l = attrgen.Derive(l, p.extra)
				}
				n := inside.Add(1)
				for {
					m := maxInside.Load()
					if n <= m || maxInside.CompareAndSwap(m, n) {
						break
					}
				}
				logrun.EmitVia(l, p.via, p.level, p.msg, p.attrs)
				inside.Add(-1)
			}
		}(g)
	}
	close(start)
	wg.Wait()
	for g, pv := range panics {
		if pv != nil {
			return "panic", "no panic while logging", fmt.Sprintf("goroutine %d: %v", g, pv)
		}
	}
	st.records += int64(total)
	st.writes += int64(w.Calls())
	st.overlaps += w.Overlaps.Load()
	if m := maxInside.Load(); m > st.maxInside {
		st.maxInside = m
	}
	tag := fmt.Sprintf("%s/thr%d", cs.Kind, cs.Threshold)
	if cs.ThrOff != 0 {
		tag += fmt.Sprintf("+%d", cs.ThrOff)
	}
	if n := w.Overlaps.Load(); n > 0 {
		return "overlap:" + tag, "no two Write calls on the destination overlap", fmt.Sprintf("%d Write calls began while another was in progress", n)
	}
	// expected alone lines
	want := map[string]int{}
	enabled := 0
	for g := range plans {
		for _, p := range plans[g] {
			if !cs.enabled(p.level) {
				continue
			}
			enabled++
			line, err := logrun.AloneLineVia(cs.Kind, cs.thr(), cs.AddSource, fullChain(p), p.via, p.level, p.msg, p.attrs)
			if err != nil || line == "" {
				return "alone:" + tag, "alone replay writes one line", fmt.Sprintf("%q %v", clip(line), err)
			}
			want[line]++
			if len(line) > 16<<10 {
				st.big++
			}
		}
	}
	st.enabled += int64(enabled)
	lastG := ""
	for i, pl := range w.Payloads() {
		s, err := logrun.StripTime(cs.Kind, pl)
		if err != nil {
			return "payload-time:" + tag, "every Write carries one complete line starting with its time field", fmt.Sprintf("write #%d: %v: %q", i, err, clip(string(pl)))
		}
		if m := idRe.FindSubmatch(pl); m != nil {
			if lastG != "" && lastG != string(m[1]) {
				st.switches++
			}
			lastG = string(m[1])
		}
		if want[string(s)] == 0 {
			ids := idRe.FindAllString(string(pl), -1)
			for i := range ids {
				ids[i] = strings.TrimRight(ids[i], "x")
			}
			what := "is not the line of any record logged alone"
			if len(ids) > 1 {
				what = "mixes several records"
			} else if len(pl) == 0 || pl[len(pl)-1] != '\n' {
				what = "is not a complete line"
			}
			below := ""
			for _, id := range ids {
				var g, j int
				if _, err := fmt.Sscanf(id, "r%d-%d", &g, &j); err == nil && g < len(plans) && j < len(plans[g]) && !cs.enabled(plans[g][j].level) {
					below = " (record " + id + " is below the threshold and must not be written)"
				}
			}
			return "payload:" + tag, "every Write carries exactly the line its record produces when logged alone", fmt.Sprintf("write #%d (ids %v) %s%s: %q", i, ids, what, below, clip(string(pl)))
		}
		want[string(s)]--
	}
	for line, n := range want {
		if n > 0 {
			return "missing:" + tag, "every enabled record appears in exactly one Write", fmt.Sprintf("%d× not written: %q (writes=%d enabled=%d)", n, clip(line), w.Calls(), enabled)
		}
	}
	if w.Calls() != enabled {
		return "calls:" + tag, fmt.Sprintf("%d Write calls (one per enabled record)", enabled), fmt.Sprintf("%d", w.Calls())
	}
	return "", "", ""
}

func clip(s string) string {
	if len(s) > 300 {
		return s[:200] + "…" + s[len(s)-80:]
	}
	return s
}

// ---------------------------------------------------------------------------------------

type mon struct{}

func (mon) Name() string { return "logatomic" }

func (mon) Level(string) (string, string) {
	return "exploration", "concurrent runs: handlers {nano,text,json} × thresholds (5) × G ∈ {2,4,8,32} goroutines, each running a seeded op list (log at one of 5 levels through the root, a pre-derived child or a child derived on the fly; line sizes tiny … 40 KiB incl. 16 KiB±100 so that pooled buffers are dropped and recycled) into a recording writer that counts overlapping Write calls and dwells inside (in a third of the runs it also reports short writes with an error now and then); offline: multiset of time-stripped payloads == multiset of alone-replay lines, #Write == #enabled records; plain at GOMAXPROCS 1/2/4/16 and under -race. distinct_nontrivial = distinct (handler, threshold, G, seed) runs in which output of different goroutines alternated at least once"
}

type shardArgs struct {
	Runs int `json:"runs"`
	PerG int `json:"per_g"`
	Part int `json:"part"`
}

func (mon) Plan(prop, tier string, seed int64) []drv.Shard {
	var out []drv.Shard
	runs, perG, raceRuns := 6, 160, 3
	if tier == "thorough" {
		runs, perG, raceRuns = 150, 300, 40
	}
	parts, secs := 1, 0
	if tier == "thorough" {
		parts, secs = 3, 3600 // three differently seeded shards per setting
	}
	for i, gmp := range []string{"2", "4", "16", "1"} {
		for p := 0; p < parts; p++ {
			sfx := ""
			if parts > 1 {
				sfx = fmt.Sprintf("-%d", p)
			}
			a, _ := json.Marshal(shardArgs{Runs: runs, PerG: perG, Part: i + 100*p})
			out = append(out, drv.Shard{Name: "plain-gomaxprocs" + gmp + sfx, Args: a, Env: []string{"GOMAXPROCS=" + gmp}, Secs: secs})
			a, _ = json.Marshal(shardArgs{Runs: raceRuns, PerG: perG / 2, Part: 10 + i + 100*p})
			out = append(out, drv.Shard{Name: "race-gomaxprocs" + gmp + sfx, Args: a, Env: []string{"GOMAXPROCS=" + gmp}, Race: true, Secs: secs})
		}
	}
	return out
}

func (mn mon) Run(sh drv.Shard, c *drv.Ctx) {
	var a shardArgs
	json.Unmarshal(sh.Args, &a)
	st := &stats{}
	r := rand.New(rand.NewSource(sh.Seed*131071 + int64(a.Part)))
	gs := []int{2, 4, 8, 32}
	n := 0
	if a.Part%100 < 10 { // plain shards: the two single-goroutine specials for every handler and threshold
		for _, kind := range logrun.Kinds {
			for _, sp := range []string{"reentrant", "writepanic"} {
				for thr := 0; thr < 4; thr++ {
					cs := Case{Kind: kind, Threshold: thr, Special: sp, AddSource: thr == 2}
					k, e, o := runCase(cs, st)
					c.Eval(1)
					c.DistinctStr(fmt.Sprintf("%+v", cs))
					if strings.HasPrefix(k, "inconclusive-special") {
						c.Inconclusive(o)
					} else if k != "" {
						c.Violate(k, cs, e, o)
					}
				}
			}
		}
	}
	for run := 0; run < a.Runs; run++ {
		for _, kind := range logrun.Kinds {
			n++
			g := gs[(run+n)%len(gs)]
			cs := Case{Kind: kind, Threshold: (run + n) % 5, G: g, PerG: a.PerG * 8 / (g + 4), Seed: r.Int63(), Dwell: r.Intn(4), AddSource: r.Intn(4) == 0}
			if r.Intn(3) == 0 {
				cs.FailEvery = 2 + r.Intn(5)
			}
			cs.Vias = r.Intn(2) == 0
			if r.Intn(3) == 0 && cs.Threshold < 4 {
				cs.ThrOff = 1 + r.Intn(3) // a threshold between two named levels
			}
			c.Progress(fmt.Sprintf("%+v", cs), true)
			before := st.switches
			k, e, o := runCase(cs, st)
			c.Eval(1)
			if st.switches > before {
				c.DistinctStr(fmt.Sprintf("%+v", cs))
			}
			if c.NumSamples() < 2 {
				c.Sample(cs)
			}
			if k != "" {
				c.Violate(k, cs, e, o)
				if c.NumViolations() >= 3 {
					goto done
				}
			}
		}
	}
done:
	c.Add("records_logged", st.records)
	c.Add("records_enabled", st.enabled)
	c.Add("write_calls", st.writes)
	c.Add("overlap_events", st.overlaps)
	c.Add("adjacent_payloads_from_different_goroutines", st.switches)
	c.Add("lines_over_16KiB", st.big)
	c.MaxOf("goroutines_inside_log_call", st.maxInside)
}

func (mon) Finish(prop, tier string, m *drv.Merged) []string {
	var out []string
	if m.Sum["adjacent_payloads_from_different_goroutines"] < 100 {
		out = append(out, "fewer than 100 context switches observed in the output order: the runs did not interleave")
	}
	if m.Max["goroutines_inside_log_call"] < 2 {
		out = append(out, "never two goroutines inside a log call at once")
	}
	return out
}

func (mn mon) Replay(v drv.Violation, c *drv.Ctx) {
	var cs Case
	if err := json.Unmarshal(v.Case, &cs); err != nil {
		c.Inconclusive("replay: cannot decode case: " + err.Error())
		return
	}
	for i := 0; i < 30; i++ { // schedule dependent: repeat
		k, e, o := runCase(cs, &stats{})
		c.Eval(1)
		if k != "" {
			c.Violate(k, cs, e, o)
			return
		}
	}
}

func main() { drv.Main(mon{}) }
