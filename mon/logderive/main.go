// Monitor logderive (C03): derived loggers are isolated – a logger's line depends only on
// its own derivation chain – and With attributes are equivalent to call-site attributes.
// Oracle: differential replay (internal/logrun.AloneLine) of every logged record of a
// derivation tree; decoded equality of With/WithGroup chains with the same attributes passed at
// the call site. See DESIGN.md §3 C03.
package main

import (
	"bytes"
	"encoding/json"
	"errors"
	"fmt"
	"log/slog"
	"math/rand"
	"runtime"
	"strings"
	"sync"
	"sync/atomic"

	"github.com/whoisnian/glb/logger"

	"verif/internal/attrgen"
	"verif/internal/drv"
	"verif/internal/logparse"
	"verif/internal/logrun"
	"verif/internal/recw"
)

// TOp is one step of a derivation-tree history. Node 0 is the root logger; every derive
// creates the next node id.
type TOp struct {
	Op    string         `json:"op"` // with | group | log
	Node  int            `json:"node"`
	Attrs []attrgen.Node `json:"attrs,omitempty"`
	Group string         `json:"group,omitempty"`
	Level int            `json:"level,omitempty"`
	Msg   string         `json:"msg,omitempty"`
}

type Case struct {
	Kind      string `json:"kind"`
	AddSource bool   `json:"add_source,omitempty"`
	Ops       []TOp  `json:"ops,omitempty"`
	// equivalence mode: With(A).WithGroup(G).With(B).Log(C)  vs  Log(A, Group(G, B, C))
	Equiv *EquivCase `json:"equiv,omitempty"`
	// raw-argument mode: With(raw...).Log(m) vs Log(m, raw...) for argument lists as a caller
	// may really write them (strings in key position, stray values, Attrs); see rawArg
	Raw []string `json:"raw,omitempty"`
	// Color (raw-argument mode): the handlers are built with the colour option on. The comparison is
	// byte for byte, so it needs no parser for coloured lines.
	Color bool `json:"color,omitempty"`
	// concurrent mode
	Conc *ConcCase `json:"conc,omitempty"`
}

type EquivCase struct {
	A, B, C []attrgen.Node
	G       string
	Msg     string
}

type ConcCase struct {
	G, PerG   int
	ParentPad int
	Seed      int64
	// Rounds > 0: that many fresh non-root parents; in every round all G goroutines derive their
	// first child from the round's parent at the same time (barrier), then log through it.
	Rounds int
}

func leaf(k string, v *attrgen.Val) attrgen.Node { return attrgen.Node{Key: []byte(k), Val: v} }
func sval(s string) *attrgen.Val                 { return &attrgen.Val{T: "str", B: []byte(s)} }
func ival(i int64) *attrgen.Val                  { return &attrgen.Val{T: "int", I: i} }

type stats struct {
	logs, derives, equiv, concRecords, switches int64
}

type capture struct{ buf bytes.Buffer }

func (c *capture) Write(p []byte) (int, error) { return c.buf.Write(p) }

func opsKey(ops []TOp) string {
	var sb strings.Builder
	for _, o := range ops {
		switch o.Op {
		case "log":
			fmt.Fprintf(&sb, "L%d;", o.Node)
		case "group":
			fmt.Fprintf(&sb, "G%d;", o.Node)
		default:
			n := 0
			for _, a := range o.Attrs {
				n += len(a.Key)
				if a.Val != nil {
					n += len(a.Val.B)
				}
			}
			fmt.Fprintf(&sb, "W%d(%d);", o.Node, n)
		}
	}
	return sb.String()
}

func runTree(cs Case, st *stats) (key, expected, observed string) {
	var out capture
	root := logger.New(logrun.NewHandler(cs.Kind, &out, 0, cs.AddSource))
	loggers := []*logger.Logger{root}
	chains := [][]attrgen.ChainOp{nil}
	for i, op := range cs.Ops {
		if op.Node < 0 || op.Node >= len(loggers) {
			continue
		}
		switch op.Op {
		case "with":
			co := attrgen.ChainOp{Attrs: op.Attrs}
			loggers = append(loggers, attrgen.Derive(loggers[op.Node], []attrgen.ChainOp{co}))
			chains = append(chains, append(append([]attrgen.ChainOp(nil), chains[op.Node]...), co))
			st.derives++
		case "group":
			co := attrgen.ChainOp{IsGrp: true, Group: []byte(op.Group)}
			loggers = append(loggers, attrgen.Derive(loggers[op.Node], []attrgen.ChainOp{co}))
			chains = append(chains, append(append([]attrgen.ChainOp(nil), chains[op.Node]...), co))
			st.derives++
		case "log":
			out.buf.Reset()
			logrun.Emit(loggers[op.Node], op.Level, op.Msg, attrgen.Args(op.Attrs))
			st.logs++
			got, err := logrun.StripTime(cs.Kind, out.buf.Bytes())
			if err != nil {
				return fmt.Sprintf("tree-line:%s:%s@%d", cs.Kind, opsKey(cs.Ops), i), "one complete line", fmt.Sprintf("%v: %q", err, out.buf.String())
			}
			want, err := logrun.AloneLine(cs.Kind, 0, cs.AddSource, chains[op.Node], op.Level, op.Msg, op.Attrs)
			if err != nil {
				return "alone:" + cs.Kind, "alone replay writes a line", err.Error()
			}
			if string(got) != want {
				return fmt.Sprintf("tree-diff:%s:%s@%d", cs.Kind, opsKey(cs.Ops), i),
					fmt.Sprintf("node %d writes the line of its own chain logged alone: %q", op.Node, want), fmt.Sprintf("%q", got)
			}
		}
	}
	return "", "", ""
}

func runEquiv(cs Case, st *stats) (key, expected, observed string) {
	e := cs.Equiv
	var o1, o2 capture
	chain := []attrgen.ChainOp{{Attrs: e.A}, {IsGrp: true, Group: []byte(e.G)}, {Attrs: e.B}}
	if e.G == "" { // no group: With(A).With(B).Log(C) vs Log(A, B, C)
		chain = []attrgen.ChainOp{{Attrs: e.A}, {Attrs: e.B}}
	}
	l1 := attrgen.Derive(logger.New(logrun.NewHandler(cs.Kind, &o1, 0, cs.AddSource)), chain)
	logrun.Emit(l1, 1, e.Msg, attrgen.Args(e.C))
	l2 := logger.New(logrun.NewHandler(cs.Kind, &o2, 0, cs.AddSource))
	inner := append(append([]attrgen.Node(nil), e.B...), e.C...)
	site := append(append([]attrgen.Node(nil), e.A...), attrgen.Node{Key: []byte(e.G), Kids: inner})
	if e.G == "" {
		site = append(append([]attrgen.Node(nil), e.A...), inner...)
	}
	for i := range site {
		site[i].Pair = false
	}
	logrun.Emit(l2, 1, e.Msg, attrgen.Args(site))
	st.equiv++
	kk := fmt.Sprintf("equiv:%s:%s", cs.Kind, attrgen.ShapeKey(attrgen.Rec{Chain: chain, Attrs: e.C}))
	switch cs.Kind {
	case "json":
		a, err1 := logparse.DecodeObjectLine(o1.buf.Bytes())
		b, err2 := logparse.DecodeObjectLine(o2.buf.Bytes())
		if err1 != nil || err2 != nil {
			return kk, "both lines are JSON objects", fmt.Sprintf("%v / %v: %q vs %q", err1, err2, o1.buf.String(), o2.buf.String())
		}
		// Strict: an attribute given to With has to show exactly like at the call site, which
		// includes that an empty group is dropped (slog.Record drops it before any handler sees
		// it). The one tolerated difference belongs to WithGroup, not to With: a WithGroup(g)
		// under which nothing at all is logged may show as "g":{} where the call site drops it.
		if n := len(a.Obj); e.G != "" && n == len(b.Obj)+1 && a.Obj[n-1].Key == e.G && a.Obj[n-1].V.Kind == "obj" && len(logparse.Prune(a.Obj[n-1].V).Obj) == 0 {
			a.Obj = a.Obj[:n-1]
		}
		if len(a.Obj) > 0 && len(b.Obj) > 0 && a.Obj[0].Key == "time" && b.Obj[0].Key == "time" {
			b.Obj[0].V = a.Obj[0].V
		}
		if d := logparse.Equal(b, a, "$"); d != "" {
			return kk, "With/WithGroup attributes decode like the same attributes passed at the call site: " + logparse.Show(b), d + "; derived logger wrote " + logparse.Show(a)
		}
	default:
		a, err1 := logrun.StripTime(cs.Kind, o1.buf.Bytes())
		b, err2 := logrun.StripTime(cs.Kind, o2.buf.Bytes())
		if err1 != nil || err2 != nil || string(a) != string(b) {
			return kk, fmt.Sprintf("same line as with call-site attributes: %q", b), fmt.Sprintf("%q (%v %v)", a, err1, err2)
		}
	}
	return "", "", ""
}

// runConc: G goroutines share one non-root parent; each derives children from it and logs
// through them while the others do the same.
// runRounds: see ConcCase.Rounds.
func runRounds(cs Case, st *stats) (key, expected, observed string) {
	cc := cs.Conc
	w := recw.New(cc.G*cc.Rounds+16, 0)
	root := logger.New(logrun.NewHandler(cs.Kind, w, 0, cs.AddSource))
	chains := make([][]attrgen.ChainOp, cc.Rounds)
	parents := make([]*logger.Logger, cc.Rounds)
	for k := range parents {
		pad := (cc.ParentPad + k*7) % 120
		chains[k] = []attrgen.ChainOp{{Attrs: []attrgen.Node{leaf("p", sval(strings.Repeat("P", pad))), leaf("id", ival(int64(k)))}}}
		if k%3 == 1 {
			chains[k] = append(chains[k], attrgen.ChainOp{IsGrp: true, Group: []byte("pg")}, attrgen.ChainOp{Attrs: []attrgen.Node{leaf("q", ival(1))}})
		}
		parents[k] = attrgen.Derive(root, chains[k])
	}
	child := func(g, k int) []attrgen.ChainOp {
		if (g+k)%4 == 3 {
			return []attrgen.ChainOp{{IsGrp: true, Group: []byte(fmt.Sprintf("y%d", g))}}
		}
		return []attrgen.ChainOp{{Attrs: []attrgen.Node{leaf("c", sval(fmt.Sprintf("g%dk%d", g, k)))}}}
	}
	var arrived, gen atomic.Int32
	var wg sync.WaitGroup
	panics := make([]any, cc.G)
	for g := 0; g < cc.G; g++ {
		wg.Add(1)
		go func(g int) {
			defer wg.Done()
			defer func() { panics[g] = recover() }()
			for k := 0; k < cc.Rounds; k++ {
				if arrived.Add(1) == int32(cc.G) {
					arrived.Store(0)
					gen.Store(int32(k + 1))
				} else {
					for gen.Load() == int32(k) {
						runtime.Gosched()
					}
				}
				l := attrgen.Derive(parents[k], child(g, k))
				logrun.Emit(l, 1, fmt.Sprintf("r%d-%d", g, k), nil)
			}
		}(g)
	}
	wg.Wait()
	for g, pv := range panics {
		if pv != nil {
			return "conc-panic:" + cs.Kind, "no panic", fmt.Sprintf("goroutine %d: %v", g, pv)
		}
	}
	want := map[string]int{}
	for g := 0; g < cc.G; g++ {
		for k := 0; k < cc.Rounds; k++ {
			line, err := logrun.AloneLine(cs.Kind, 0, cs.AddSource, append(append([]attrgen.ChainOp(nil), chains[k]...), child(g, k)...), 1, fmt.Sprintf("r%d-%d", g, k), nil)
			if err != nil || line == "" {
				return "alone:" + cs.Kind, "alone replay writes one line", fmt.Sprint(err)
			}
			want[line]++
			st.concRecords++
		}
	}
	for i, pl := range w.Payloads() {
		s, err := logrun.StripTime(cs.Kind, pl)
		if err != nil || want[string(s)] == 0 {
			return "conc-first-derivation:" + cs.Kind, "every line equals the alone replay of its logger's own chain (first children derived simultaneously from a fresh parent)", fmt.Sprintf("write #%d: %q (%v)", i, pl, err)
		}
		want[string(s)]--
	}
	for line, n := range want {
		if n > 0 {
			return "conc-missing:" + cs.Kind, "every record written once", fmt.Sprintf("%d× missing %q", n, line)
		}
	}
	st.switches += int64(cc.Rounds)
	return "", "", ""
}

func runConc(cs Case, st *stats) (key, expected, observed string) {
	if cs.Conc.Rounds > 0 {
		return runRounds(cs, st)
	}
	cc := cs.Conc
	w := recw.New(cc.G*cc.PerG*2+16, 1)
	root := logger.New(logrun.NewHandler(cs.Kind, w, 0, cs.AddSource))
	parentChain := []attrgen.ChainOp{{Attrs: []attrgen.Node{leaf("p", sval(strings.Repeat("P", cc.ParentPad)))}}, {IsGrp: true, Group: []byte("pg")}, {Attrs: []attrgen.Node{leaf("q", ival(1))}}}
	parent := attrgen.Derive(root, parentChain)
	type rec struct {
		chain []attrgen.ChainOp
		msg   string
	}
	plans := make([][]rec, cc.G)
	for g := range plans {
		r := rand.New(rand.NewSource(cc.Seed*977 + int64(g)))
		for i := 0; i < cc.PerG; i++ {
			var extra []attrgen.ChainOp
			switch r.Intn(4) {
			case 0: // log through the shared parent itself
			case 1:
				extra = []attrgen.ChainOp{{Attrs: []attrgen.Node{leaf(fmt.Sprintf("c%d", g), ival(int64(i)))}}}
			case 2:
				extra = []attrgen.ChainOp{{Attrs: []attrgen.Node{leaf("c", sval(fmt.Sprintf("g%di%d", g, i)))}}, {IsGrp: true, Group: []byte("x")}}
			default:
				extra = []attrgen.ChainOp{{IsGrp: true, Group: []byte(fmt.Sprintf("y%d", g))}, {Attrs: []attrgen.Node{leaf("d", ival(int64(g*1000+i)))}}}
			}
			plans[g] = append(plans[g], rec{extra, fmt.Sprintf("r%d-%d", g, i)})
		}
	}
	var wg sync.WaitGroup
	start := make(chan struct{})
	panics := make([]any, cc.G)
	for g := 0; g < cc.G; g++ {
		wg.Add(1)
		go func(g int) {
			defer wg.Done()
			defer func() { panics[g] = recover() }()
			<-start
			for _, p := range plans[g] {
				l := attrgen.Derive(parent, p.chain)
				logrun.Emit(l, 1, p.msg, nil)
			}
		}(g)
	}
	close(start)
	wg.Wait()
	for g, pv := range panics {
		if pv != nil {
			return "conc-panic:" + cs.Kind, "no panic", fmt.Sprintf("goroutine %d: %v", g, pv)
		}
	}
	want := map[string]int{}
	for g := range plans {
		for _, p := range plans[g] {
			line, err := logrun.AloneLine(cs.Kind, 0, cs.AddSource, append(append([]attrgen.ChainOp(nil), parentChain...), p.chain...), 1, p.msg, nil)
			if err != nil || line == "" {
				return "alone:" + cs.Kind, "alone replay writes one line", fmt.Sprint(err)
			}
			want[line]++
			st.concRecords++
		}
	}
	last := byte(0)
	for i, pl := range w.Payloads() {
		s, err := logrun.StripTime(cs.Kind, pl)
		if err != nil || want[string(s)] == 0 {
			return "conc-diff:" + cs.Kind, "every line equals the alone replay of its logger's own chain (children derived concurrently from one parent)", fmt.Sprintf("write #%d: %q (%v)", i, pl, err)
		}
		want[string(s)]--
		if j := bytes.Index(pl, []byte(" r")); j >= 0 && j+2 < len(pl) {
			if last != 0 && pl[j+2] != last {
				st.switches++
			}
			last = pl[j+2]
		} else if j := bytes.Index(pl, []byte(`"r`)); j >= 0 && j+2 < len(pl) {
			if last != 0 && pl[j+2] != last {
				st.switches++
			}
			last = pl[j+2]
		} else if j := bytes.Index(pl, []byte(`=r`)); j >= 0 && j+2 < len(pl) {
			if last != 0 && pl[j+2] != last {
				st.switches++
			}
			last = pl[j+2]
		}
	}
	for line, n := range want {
		if n > 0 {
			return "conc-missing:" + cs.Kind, "every record written once", fmt.Sprintf("%d× missing %q", n, line)
		}
	}
	return "", "", ""
}

type rawLV struct{ v slog.Value }

func (r rawLV) LogValue() slog.Value { return r.v }

// rawArg decodes one token of a raw argument list.
func rawArg(tok string) any {
	switch tok {
	case "i":
		return 42
	case "f":
		return 3.5
	case "b":
		return true
	case "n":
		return nil
	case "A":
		return slog.Int("a", 1)
	case "G":
		return slog.Group("g", slog.Int("b", 2))
	case "E":
		return slog.Group("e")
	case "N":
		return slog.Group("o", slog.Group("e"))
	case "I":
		return slog.Group("", slog.Int("c", 3))
	case "L":
		return rawLV{slog.StringValue("lv")}
	case "V": // a LogValuer resolving to an empty group: slog cannot drop it up front
		return rawLV{slog.GroupValue()}
	case "e":
		return errors.New("err")
	case "C": // a value that renders differently with colour on
		return slog.Any("c", logger.AnsiString{Prefix: "\x1b[34m", Value: "blue"})
	}
	return strings.TrimPrefix(tok, "s:")
}

func runRaw(cs Case, st *stats) (key, expected, observed string) {
	args := make([]any, len(cs.Raw))
	for i, t := range cs.Raw {
		args[i] = rawArg(t)
	}
	kk := fmt.Sprintf("rawargs:%s:%s", cs.Kind, strings.Join(cs.Raw, ","))
	// A list whose last string would pair up with whatever follows it at the call site (documented
	// pairing rule: a string takes the next argument as its value) is compared with nothing after it.
	dangling := false // the list ends in a string with nothing to pair with: compared without a trailing attribute
	for i := 0; i < len(cs.Raw); i++ {
		if strings.HasPrefix(cs.Raw[i], "s:") {
			if i+1 == len(cs.Raw) {
				dangling = true
			}
			i++
		}
	}
	var tail []any
	if !dangling {
		tail = []any{slog.Int("z", 9)}
	}
	st.equiv++
	for _, under := range []string{"", "wg", "pre"} {
		var o1, o2 capture
		l1 := logger.New(logrun.NewHandlerColor(cs.Kind, &o1, 0, cs.AddSource, cs.Color))
		l2 := logger.New(logrun.NewHandlerColor(cs.Kind, &o2, 0, cs.AddSource, cs.Color))
		site := append([]any(nil), args...)
		switch under {
		case "wg":
			// a non-empty tail keeps the group present on both sides
			l1, l2 = l1.WithGroup(under), l2.WithGroup(under)
		case "pre":
			// With on a logger that is itself derived with With: against the call site of the root
			l1 = l1.With("pre", 1)
			site = append([]any{"pre", 1}, site...)
		}
		logrun.Emit(l1.With(args...), 1, "m", tail)
		logrun.Emit(l2, 1, "m", append(site, tail...))
		a, err1 := logrun.StripTime(cs.Kind, o1.buf.Bytes())
		b, err2 := logrun.StripTime(cs.Kind, o2.buf.Bytes())
		if err1 != nil || err2 != nil || string(a) != string(b) {
			return kk + "/" + under, fmt.Sprintf("With(args...).Log(m, z=9) writes the same line as Log(m, args..., z=9): %q", b), fmt.Sprintf("%q (%v %v)", a, err1, err2)
		}
	}
	return "", "", ""
}

func runCase(cs Case, st *stats) (string, string, string) {
	switch {
	case cs.Raw != nil:
		return runRaw(cs, st)
	case cs.Equiv != nil:
		return runEquiv(cs, st)
	case cs.Conc != nil:
		return runConc(cs, st)
	}
	return runTree(cs, st)
}

// ---------------------------------------------------------------------------------------

type mon struct{}

func (mon) Name() string { return "logderive" }

func (mon) Level(string) (string, string) {
	return "exploration", "derivation trees on one shared handler, every logged line compared with the alone replay of that node's own chain (all three handlers). (a) sibling sweep: a non-root parent whose pre-rendered attribute bytes take every length 0..200 (so that every spare capacity the append growth policy yields occurs), parent chain depth 1..3, k ∈ {2,3,4} children with distinct same-length attributes, under a fixed set of derive/log orders, plus – for a set of parent lengths with large spare capacity – every order of ≤6 ops over {derive child i, log parent, log child i}; (b) seeded random trees (depth ≤5, fan-out ≤4, ≤40 ops, random attribute forests incl. groups and LogValuers); (c) With ≡ call-site: With(A).WithGroup(g).With(B).Log(C) decodes like Log(A, Group(g,B,C)), and With(A).With(B).Log(C) like Log(A,B,C), over shape-enumerated and random forests; raw argument lists byte for byte at the root, under a WithGroup and on a logger already derived with With (against the root's call site), lists of up to 3 also with the colour option on (AnsiString values), and those again in an environment that asks for no colour; (d) concurrent: G goroutines derive from one shared non-root parent and log, plain at GOMAXPROCS 2/4/16 and under -race. distinct_nontrivial = distinct histories with ≥2 children of one non-root parent (by op-sequence signature), plus distinct equivalence shapes and concurrent runs"
}

type shardArgs struct {
	Kind  string `json:"kind"` // sweep | orders | rand | equiv | conc
	Part  int    `json:"part"`
	Parts int    `json:"parts"`
	Count int    `json:"count,omitempty"`
	// ColorOnly: an equiv shard that runs only the coloured raw-argument comparison
	ColorOnly bool `json:"color_only,omitempty"`
}

func (mon) Plan(prop, tier string, seed int64) []drv.Shard {
	var out []drv.Shard
	parts := 8
	nrand, nequiv, nconc, nrace := 2000, 3, 20, 6
	if tier == "thorough" {
		nrand, nequiv, nconc, nrace = 400000, 5, 4000, 300
	}
	for p := 0; p < parts; p++ {
		a, _ := json.Marshal(shardArgs{Kind: "sweep", Part: p, Parts: parts})
		out = append(out, drv.Shard{Name: fmt.Sprintf("sweep-%d", p), Args: a})
		a, _ = json.Marshal(shardArgs{Kind: "orders", Part: p, Parts: parts})
		out = append(out, drv.Shard{Name: fmt.Sprintf("orders-%d", p), Args: a})
		a, _ = json.Marshal(shardArgs{Kind: "rand", Part: p, Parts: parts, Count: nrand / parts})
		out = append(out, drv.Shard{Name: fmt.Sprintf("rand-%d", p), Args: a})
		a, _ = json.Marshal(shardArgs{Kind: "equiv", Part: p, Parts: parts, Count: nequiv})
		out = append(out, drv.Shard{Name: fmt.Sprintf("equiv-%d", p), Args: a})
	}
	for p := 0; p < 2; p++ {
		// the coloured raw-argument comparison once more in an environment that asks for no colour (the
		// library does not consult it today; With and the call site must agree whatever it does with it)
		a, _ := json.Marshal(shardArgs{Kind: "equiv", Part: p, Parts: 2, Count: 3, ColorOnly: true})
		out = append(out, drv.Shard{Name: fmt.Sprintf("rawcolor-nocolorenv-%d", p), Args: a, Env: []string{"NO_COLOR=1", "TERM=dumb", "CLICOLOR=0"}})
	}
	for i, gmp := range []string{"2", "4", "16"} {
		a, _ := json.Marshal(shardArgs{Kind: "conc", Part: i, Count: nconc})
		out = append(out, drv.Shard{Name: "conc-gomaxprocs" + gmp, Args: a, Env: []string{"GOMAXPROCS=" + gmp}})
		a, _ = json.Marshal(shardArgs{Kind: "conc", Part: 10 + i, Count: nrace})
		out = append(out, drv.Shard{Name: "race-gomaxprocs" + gmp, Args: a, Env: []string{"GOMAXPROCS=" + gmp}, Race: true})
	}
	return out
}

func parentOps(depth, pad int) []TOp {
	ops := []TOp{{Op: "with", Node: 0, Attrs: []attrgen.Node{leaf("p", sval(strings.Repeat("P", pad)))}}}
	if depth >= 2 {
		ops = append(ops, TOp{Op: "group", Node: 1, Group: "pg"})
	}
	if depth >= 3 {
		ops = append(ops, TOp{Op: "with", Node: 2, Attrs: []attrgen.Node{leaf("q", ival(7))}})
	}
	return ops
}

func childAttr(i int) []attrgen.Node {
	return []attrgen.Node{leaf(fmt.Sprintf("c%d", i), sval(strings.Repeat(string(rune('a'+i)), 6)))}
}

func (mn mon) Run(sh drv.Shard, c *drv.Ctx) {
	var a shardArgs
	json.Unmarshal(sh.Args, &a)
	st := &stats{}
	exec := func(cs Case, distinct string) bool {
		k, e, o := runCase(cs, st)
		c.Eval(1)
		if distinct != "" {
			c.DistinctStr(distinct)
		}
		if k != "" {
			c.Violate(k, cs, e, o)
			return c.NumViolations() < 5
		}
		return true
	}
	switch a.Kind {
	case "sweep":
		idx := 0
		for _, kind := range logrun.Kinds {
			for depth := 1; depth <= 3; depth++ {
				for pad := 0; pad <= 200; pad++ {
					for k := 2; k <= 4; k++ {
						idx++
						if idx%a.Parts != a.Part {
							continue
						}
						p := depth // parent node id
						base := parentOps(depth, pad)
						// order 1: derive all, log all (children first, then parent)
						ops := append([]TOp(nil), base...)
						for i := 0; i < k; i++ {
							ops = append(ops, TOp{Op: "with", Node: p, Attrs: childAttr(i)})
						}
						for i := 0; i < k; i++ {
							ops = append(ops, TOp{Op: "log", Node: p + 1 + i, Level: 1, Msg: "m"})
						}
						ops = append(ops, TOp{Op: "log", Node: p, Level: 1, Msg: "m"})
						// order 2: derive/log interleaved, earlier children logged again after each derive
						ops2 := append([]TOp(nil), base...)
						for i := 0; i < k; i++ {
							ops2 = append(ops2, TOp{Op: "with", Node: p, Attrs: childAttr(i)})
							for j := 0; j <= i; j++ {
								ops2 = append(ops2, TOp{Op: "log", Node: p + 1 + j, Level: 2, Msg: "n", Attrs: []attrgen.Node{leaf("z", ival(int64(j)))}})
							}
						}
						// order 3: children are groups / grandchildren
						ops3 := append([]TOp(nil), base...)
						ops3 = append(ops3, TOp{Op: "group", Node: p, Group: "g1"}, TOp{Op: "with", Node: p, Attrs: childAttr(1)}, TOp{Op: "with", Node: p + 1, Attrs: childAttr(2)}, TOp{Op: "with", Node: p + 1, Attrs: childAttr(3)},
							TOp{Op: "log", Node: p + 3, Level: 1, Msg: "m"}, TOp{Op: "log", Node: p + 4, Level: 1, Msg: "m"}, TOp{Op: "log", Node: p + 2, Level: 1, Msg: "m"}, TOp{Op: "log", Node: p + 1, Level: 1, Msg: "m"})
						// order 4: the parent ends in a group whose name needs escaping (a size computed
						// from the raw name is too small then), two With children, then logs
						escNames := []string{"a\"b", "back\\slash", "ctl\x01", "bad\xffutf", "sep\u2028", "q\"\"\"\"", "tab\tname with space"}
						ops4 := append([]TOp(nil), base...)
						ops4 = append(ops4, TOp{Op: "group", Node: p, Group: escNames[(pad+k)%len(escNames)]},
							TOp{Op: "with", Node: p + 1, Attrs: childAttr(0)}, TOp{Op: "with", Node: p + 1, Attrs: childAttr(4)}, TOp{Op: "group", Node: p + 1, Group: escNames[(pad+k+1)%len(escNames)]},
							TOp{Op: "log", Node: p + 2, Level: 1, Msg: "m"}, TOp{Op: "log", Node: p + 3, Level: 1, Msg: "m"}, TOp{Op: "log", Node: p + 4, Level: 1, Msg: "m"}, TOp{Op: "log", Node: p + 1, Level: 1, Msg: "m"})
						all := [][]TOp{ops, ops2, ops3, ops4}
						if pad%25 == 0 {
							// order 5: one sibling writes a line far beyond the pooled-buffer limit (16 KiB); what the
							// other siblings and the parent write afterwards is still only their own
							big := []attrgen.Node{leaf("big", sval(strings.Repeat("B", 17000+pad*100)))}
							ops5 := append([]TOp(nil), base...)
							ops5 = append(ops5, TOp{Op: "with", Node: p, Attrs: childAttr(0)}, TOp{Op: "with", Node: p, Attrs: childAttr(1)}, TOp{Op: "group", Node: p, Group: "g5"},
								TOp{Op: "log", Node: p + 1, Level: 1, Msg: "m", Attrs: big}, TOp{Op: "log", Node: p + 2, Level: 1, Msg: "m"}, TOp{Op: "log", Node: p + 3, Level: 2, Msg: "n"},
								TOp{Op: "log", Node: p, Level: 1, Msg: "m", Attrs: big}, TOp{Op: "log", Node: p + 1, Level: 1, Msg: "m"}, TOp{Op: "log", Node: p, Level: 1, Msg: "m"})
							all = append(all, ops5)
							// order 6: a line whose buffer ends up at (or just below) the pool's keep/drop limit is
							// written first; a child derived right afterwards must own its pre-rendered bytes - the
							// parent's next record may not show up in it
							big6 := []attrgen.Node{leaf("big", sval(strings.Repeat("C", 13900+pad*12)))}
							ops6 := append([]TOp(nil), base...)
							ops6 = append(ops6, TOp{Op: "log", Node: p, Level: 1, Msg: "m", Attrs: big6}, TOp{Op: "with", Node: p, Attrs: childAttr(0)},
								TOp{Op: "log", Node: p, Level: 1, Msg: "m2", Attrs: []attrgen.Node{leaf("z", ival(9))}}, TOp{Op: "log", Node: p + 1, Level: 1, Msg: "m"},
								TOp{Op: "log", Node: 0, Level: 2, Msg: "r"}, TOp{Op: "log", Node: p + 1, Level: 1, Msg: "m"})
							all = append(all, ops6)
						}
						for _, o := range all {
							cs := Case{Kind: kind, Ops: o, AddSource: idx%9 == 0}
							if c.NumSamples() < 1 && pad == 40 {
								c.Sample(map[string]any{"handler": kind, "history": opsKey(o)})
							}
							if !exec(cs, kind+opsKey(o)) {
								goto done
							}
						}
					}
				}
			}
		}
	case "orders":
		idx := 0
		for _, kind := range logrun.Kinds {
			for _, pad := range []int{3, 20, 27, 60, 100} {
				for depth := 1; depth <= 3; depth += 2 {
					for k := 2; k <= 3; k++ {
						p := depth
						base := parentOps(depth, pad)
						// all sequences of ≤6 ops over {derive next child, log parent, log child i}
						var rec func(ops []TOp, derived, n int) bool
						rec = func(ops []TOp, derived, n int) bool {
							if n > 0 && derived >= 2 {
								idx++
								if idx%a.Parts == a.Part {
									if !exec(Case{Kind: kind, Ops: ops}, kind+opsKey(ops)) {
										return false
									}
								}
							}
							if n == 6 {
								return true
							}
							if derived < k {
								if !rec(append(ops[:len(ops):len(ops)], TOp{Op: "with", Node: p, Attrs: childAttr(derived)}), derived+1, n+1) {
									return false
								}
							}
							if !rec(append(ops[:len(ops):len(ops)], TOp{Op: "log", Node: p, Level: 1, Msg: "m"}), derived, n+1) {
								return false
							}
							for i := 0; i < derived; i++ {
								if !rec(append(ops[:len(ops):len(ops)], TOp{Op: "log", Node: p + 1 + i, Level: 1, Msg: "m"}), derived, n+1) {
									return false
								}
							}
							return true
						}
						if !rec(base, 0, 0) {
							goto done
						}
					}
				}
			}
		}
	case "rand":
		r := rand.New(rand.NewSource(sh.Seed*52361 + int64(a.Part)))
		for i := 0; i < a.Count; i++ {
			cs := Case{Kind: logrun.Kinds[r.Intn(3)], AddSource: r.Intn(4) == 0}
			depthOf := []int{0}
			kids := []int{0}
			n := 5 + r.Intn(36)
			for j := 0; j < n; j++ {
				node := r.Intn(len(depthOf))
				switch x := r.Intn(10); {
				case x < 4 && depthOf[node] < 5 && kids[node] < 4:
					op := TOp{Op: "with", Node: node}
					rec := attrgen.RandRec(r)
					op.Attrs = rec.Attrs
					if len(op.Attrs) == 0 {
						op.Attrs = childAttr(j % 20)
					}
					for k := range op.Attrs {
						op.Attrs[k].Pair = false
					}
					cs.Ops = append(cs.Ops, op)
					kids[node]++
					depthOf = append(depthOf, depthOf[node]+1)
					kids = append(kids, 0)
				case x < 6 && depthOf[node] < 5 && kids[node] < 4:
					gname := fmt.Sprintf("g%d", r.Intn(4))
					if r.Intn(3) == 0 {
						gname = attrgen.Awkward[1+r.Intn(len(attrgen.Awkward)-1)]
					}
					cs.Ops = append(cs.Ops, TOp{Op: "group", Node: node, Group: gname})
					kids[node]++
					depthOf = append(depthOf, depthOf[node]+1)
					kids = append(kids, 0)
				default:
					rec := attrgen.RandRec(r)
					cs.Ops = append(cs.Ops, TOp{Op: "log", Node: node, Level: rec.Level, Msg: string(rec.Msg), Attrs: rec.Attrs})
				}
			}
			if !exec(cs, "") {
				goto done
			}
		}
	case "equiv":
		// shape-enumerated forests distributed over A, B, C
		idx := 0
		attrgen.EnumRecords(a.Count, 2, func(r attrgen.Rec) bool {
			if a.ColorOnly {
				return false
			}
			if len(r.Chain) != 2 || r.Chain[0].IsGrp || r.Chain[1].IsGrp {
				return true
			}
			idx++
			if idx%a.Parts != a.Part {
				return true
			}
			for _, kind := range logrun.Kinds {
				for _, g := range []string{"G", ""} {
					cs := Case{Kind: kind, AddSource: idx%4 == 0, Equiv: &EquivCase{A: r.Chain[0].Attrs, B: r.Chain[1].Attrs, C: r.Attrs, G: g, Msg: "m"}}
					if !exec(cs, "equiv"+kind+g+attrgen.ShapeKey(r)) {
						return false
					}
				}
			}
			return true
		})
		// raw argument lists: every list of <= 4 (thorough: 5) tokens
		{
			toks := []string{"s:k", "s:x", "s:", "i", "f", "n", "A", "G", "E", "N", "I", "L", "V", "e", "C"}
			var cur []string
			n := 0
			var walk func(d int) bool
			walk = func(d int) bool {
				if d > 0 {
					n++
					if n%a.Parts == a.Part {
						for _, kind := range logrun.Kinds {
							if !a.ColorOnly {
								if !exec(Case{Kind: kind, AddSource: n%5 == 0, Raw: append([]string(nil), cur...)}, "raw"+kind+strings.Join(cur, ",")) {
									return false
								}
							}
							if d <= 3 && !exec(Case{Kind: kind, AddSource: n%5 == 0, Color: true, Raw: append([]string(nil), cur...)}, "rawcolor"+kind+strings.Join(cur, ",")) {
								return false
							}
						}
					}
				}
				if d == 4+(a.Count-3)/2 { // 4 arguments; 5 in the thorough tier
					return true
				}
				for _, t := range toks {
					cur = append(cur, t)
					if !walk(d + 1) {
						return false
					}
					cur = cur[:len(cur)-1]
				}
				return true
			}
			if !walk(0) {
				goto done
			}
		}
		rr := rand.New(rand.NewSource(sh.Seed*3331 + int64(a.Part)))
		for i := 0; i < 300*a.Count; i++ {
			x, y, z := attrgen.RandRec(rr), attrgen.RandRec(rr), attrgen.RandRec(rr)
			if len(x.Attrs) == 0 || len(y.Attrs) == 0 {
				continue
			}
			cs := Case{Kind: logrun.Kinds[rr.Intn(3)], AddSource: rr.Intn(3) == 0, Equiv: &EquivCase{A: x.Attrs, B: y.Attrs, C: z.Attrs, G: []string{"grp", ""}[rr.Intn(2)], Msg: string(z.Msg)}}
			if !exec(cs, "") {
				goto done
			}
		}
	case "conc":
		r := rand.New(rand.NewSource(sh.Seed*7 + int64(a.Part)))
		for i := 0; i < a.Count; i++ {
			cs := Case{Kind: logrun.Kinds[i%3], Conc: &ConcCase{G: []int{2, 4, 8}[r.Intn(3)], PerG: 150, ParentPad: []int{3, 20, 27, 60, 100, 500}[r.Intn(6)], Seed: r.Int63()}}
			if i%2 == 1 {
				cs.Conc.Rounds = 400
			}
			if c.NumSamples() < 1 {
				c.Sample(cs)
			}
			if !exec(cs, fmt.Sprintf("conc%+v%s", *cs.Conc, cs.Kind)) {
				goto done
			}
		}
	}
done:
	c.Add("lines_compared_with_alone_replay", st.logs)
	c.Add("derivations", st.derives)
	c.Add("with_vs_callsite_pairs", st.equiv)
	c.Add("concurrent_records", st.concRecords)
	c.Add("concurrent_output_switches", st.switches)
}

func (mn mon) Replay(v drv.Violation, c *drv.Ctx) {
	var cs Case
	if err := json.Unmarshal(v.Case, &cs); err != nil {
		c.Inconclusive("replay: cannot decode case: " + err.Error())
		return
	}
	n := 1
	if cs.Conc != nil {
		n = 30
	}
	for i := 0; i < n; i++ {
		k, e, o := runCase(cs, &stats{})
		c.Eval(1)
		if k != "" {
			c.Violate(k, cs, e, o)
			return
		}
	}
}

func main() { drv.Main(mon{}) }
