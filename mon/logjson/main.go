// Monitor logjson (C01): every record the JSON handler writes is one valid, faithful JSON
// line. Oracle: strict framing + UTF-8 + order-preserving JSON decode, compared with the
// expected tree computed by internal/attrgen. See DESIGN.md §3 C01.
package main

import (
	"bytes"
	"context"
	"encoding/json"
	"fmt"
	"io"
	"log/slog"
	"math/rand"
	"path/filepath"
	"runtime"
	"strconv"
	"strings"
	"time"

	"github.com/whoisnian/glb/logger"

	"verif/internal/attrgen"
	"verif/internal/drv"
	"verif/internal/logparse"
	"verif/internal/srcprobe"
)

var levels = []slog.Level{logger.LevelDebug, logger.LevelInfo, logger.LevelWarn, logger.LevelError, logger.LevelFatal}
var levelNames = []string{"DEBUG", "INFO", "WARN", "ERROR", "FATAL"}

// Case is one record plus how it is logged.
type Case struct {
	Rec       attrgen.Rec `json:"rec"`
	AddSource bool        `json:"add_source,omitempty"`
	Via       int         `json:"via"`              // 0 Logger.Log, 1 level method, 2 LogAttrs, 3 Handler.Handle with a chosen time, 4 Logf / level-f methods (record attributes dropped)
	Decoys    bool        `json:"decoys,omitempty"` // derive sibling loggers from every parent of the chain
	TimeNs    int64       `json:"time_ns,omitempty"`
	TimeSec   int64       `json:"time_sec,omitempty"` // with Via 3: seconds since the epoch (reaches years outside 1678..2262)
	ZoneSec   int         `json:"zone_sec,omitempty"`
	// PoolBytes/PoolKind: history in the handlers' shared buffer pool - right before the record, another
	// record whose line is about PoolBytes long is written through a handler of PoolKind (0 nano, 1 text,
	// 2 json) on the same goroutine, so that the buffer it grew is the one this record draws next
	// Thr: the handler's threshold (index into levels). A record below it must leave no byte; every
	// other record is judged as usual. Not used with Via 3 (Handle does not consult the threshold).
	Thr       int `json:"thr,omitempty"`
	PoolBytes int `json:"pool_bytes,omitempty"`
	PoolKind  int `json:"pool_kind,omitempty"`
}

func poolHistory(cs Case) {
	if cs.PoolBytes <= 0 {
		return
	}
	opts := logger.NewOptions(logger.LevelDebug, false, false)
	var h logger.Handler
	switch cs.PoolKind {
	case 0:
		h = logger.NewNanoHandler(io.Discard, opts)
	case 1:
		h = logger.NewTextHandler(io.Discard, opts)
	default:
		h = logger.NewJsonHandler(io.Discard, opts)
	}
	if cs.PoolKind >= 3 {
		// kinds 3..5: the earlier record's size sits in its group path (one long WithGroup name, or many
		// short ones), written through a nano / text / json handler: whatever scratch the handlers keep
		// for key prefixes and open groups has been grown by it
		switch cs.PoolKind {
		case 3:
			h = logger.NewTextHandler(io.Discard, opts)
		case 4:
			h = logger.NewJsonHandler(io.Discard, opts)
		default:
			h = logger.NewNanoHandler(io.Discard, opts)
		}
		l := logger.New(h)
		if cs.PoolBytes%2 == 0 {
			l = l.WithGroup(strings.Repeat("G", cs.PoolBytes))
		} else {
			for n := 0; n < cs.PoolBytes; n += 8 {
				l = l.WithGroup("grp" + strconv.Itoa(n))
			}
		}
		l.Info("big", "v", 1, slog.Group("inner", "w", 2))
		l.With("pre", 1).Info("big", "v", 1)
		return
	}
	logger.New(h).Info("big", "v", strings.Repeat("x", cs.PoolBytes))
}

type capture struct {
	buf    bytes.Buffer
	writes int
}

func (c *capture) Write(p []byte) (int, error) {
	c.writes++
	return c.buf.Write(p)
}

var ctx = context.Background()

// mark returns args unchanged and records the source line of its caller's call expression.
func mark(line *int, args []any) []any {
	_, callFile, *line, _ = runtime.Caller(1)
	return args
}

// callFile is the file of the last marked call site (it differs from this file under a
// //line directive, see odd.go).
var callFile string

func lastTwo(f string) string {
	return filepath.Base(filepath.Dir(f)) + "/" + filepath.Base(f)
}

func markA(line *int, attrs []slog.Attr) []slog.Attr {
	_, callFile, *line, _ = runtime.Caller(1)
	return attrs
}

var thisFile = func() string {
	_, f, _, _ := runtime.Caller(0)
	return filepath.Base(filepath.Dir(f)) + "/" + filepath.Base(f)
}()

// emit logs the record through the public API and returns the call-site line.
func emit(l *logger.Logger, cs Case, args []any) (line int) {
	msg := string(cs.Rec.Msg)
	switch cs.Via {
	case 1:
		switch cs.Rec.Level {
		case 0:
			l.Debug(msg, mark(&line, args)...)
		case 1:
			l.Info(msg, mark(&line, args)...)
		case 2:
			l.Warn(msg, mark(&line, args)...)
		case 3:
			l.Error(msg, mark(&line, args)...)
		default:
			l.Log(ctx, levels[cs.Rec.Level], msg, mark(&line, args)...)
		}
	case 2:
		attrs := make([]slog.Attr, 0, len(args))
		for _, n := range cs.Rec.Attrs {
			attrs = append(attrs, n.Attr())
		}
		l.LogAttrs(ctx, levels[cs.Rec.Level], msg, markA(&line, attrs)...)
	case 5: // Panic: logs at ERROR with attributes, then panics with the message
		func() {
			defer func() {
				if r := recover(); r != msg {
					panic(fmt.Sprintf("Logger.Panic panicked with %v, want the message", r))
				}
			}()
			l.Panic(msg, mark(&line, args)...)
		}()
	case 6: // Panicf
		func() {
			defer func() {
				if r := recover(); r != msg {
					panic(fmt.Sprintf("Logger.Panicf panicked with %v, want the message", r))
				}
			}()
			l.Panicf("%s", mark(&line, []any{msg})...)
		}()
	case 7: // a call site whose file name needs quoting / escaping (//line directive in odd.go)
		line = emitOdd(l, cs, args)
	case 4: // formatted message, no attributes of its own
		switch cs.Rec.Level {
		case 0:
			l.Debugf("%s", mark(&line, []any{msg})...)
		case 1:
			l.Infof("%s", mark(&line, []any{msg})...)
		case 2:
			l.Warnf("%s", mark(&line, []any{msg})...)
		case 3:
			l.Errorf("%s", mark(&line, []any{msg})...)
		default:
			l.Logf(ctx, levels[cs.Rec.Level], "%s", mark(&line, []any{msg})...)
		}
	default:
		l.Log(ctx, levels[cs.Rec.Level], msg, mark(&line, args)...)
	}
	return line
}

type stats struct {
	records, errStrings, emptyGroupsSeen, withSource int64
}

// runCase logs one record and judges the bytes written. A time mismatch on the Logger path
// (wall clock stepped between the two readings) is re-run once before it is judged.
func runCase(cs Case, st *stats) (key, expected, observed string) {
	k, e, o := runOnce(cs, st)
	if k == "time" {
		k, e, o = runOnce(cs, st)
	}
	return k, e, o
}

func runOnce(cs Case, st *stats) (key, expected, observed string) {
	if cs.Via == 4 || cs.Via == 6 {
		cs.Rec.Attrs = nil // the f-methods take no attributes
	}
	if cs.Via == 5 || cs.Via == 6 {
		cs.Rec.Level = 3 // Panic / Panicf log at ERROR
	}
	var out capture
	if cs.Via == 3 {
		cs.Thr = 0
	}
	var h logger.Handler = logger.NewJsonHandler(&out, logger.NewOptions(levels[cs.Thr], false, cs.AddSource))
	var pv any
	var line int
	var t0, t1, chosen time.Time
	func() {
		defer func() { pv = recover() }()
		poolHistory(cs)
		if cs.Via == 3 {
			for _, op := range cs.Rec.Chain {
				if op.IsGrp {
					h = h.WithGroup(string(op.Group))
				} else {
					attrs := make([]slog.Attr, 0, len(op.Attrs))
					for _, n := range op.Attrs {
						attrs = append(attrs, n.Attr())
					}
					h = h.WithAttrs(attrs)
				}
			}
			chosen = time.Unix(cs.TimeSec, cs.TimeNs).In(time.FixedZone("", cs.ZoneSec))
			r := slog.NewRecord(chosen, levels[cs.Rec.Level], string(cs.Rec.Msg), 0)
			for _, n := range cs.Rec.Attrs {
				r.AddAttrs(n.Attr())
			}
			h.Handle(ctx, r)
			return
		}
		var l *logger.Logger
		if cs.Decoys {
			l = attrgen.DeriveDecoy(logger.New(h), cs.Rec.Chain)
		} else {
			l = attrgen.Derive(logger.New(h), cs.Rec.Chain)
		}
		args := attrgen.Args(cs.Rec.Attrs)
		t0 = time.Now()
		line = emit(l, cs, args)
		t1 = time.Now()
	}()
	st.records++
	if pv != nil {
		return "panic", "no panic while logging", fmt.Sprintf("panic: %v", pv)
	}
	b := out.buf.Bytes()
	show := func() string { return fmt.Sprintf("line %q", clip(b, 1500)) }
	if cs.Rec.Level < cs.Thr {
		if len(b) != 0 {
			return "below-threshold", fmt.Sprintf("no output for a %s record on a handler with threshold %s", levelNames[cs.Rec.Level], levelNames[cs.Thr]), show()
		}
		return "", "", ""
	}
	if err := logparse.CheckFraming(b); err != nil {
		return "framing", "exactly one newline-terminated, valid UTF-8 line", err.Error() + "; " + show()
	}
	got, err := logparse.DecodeObjectLine(b)
	if err != nil {
		return "invalid-json", "the line parses as exactly one JSON object", err.Error() + "; " + show()
	}
	// built-in members
	want := logparse.JV{Kind: "obj"}
	want.Obj = append(want.Obj, logparse.JMember{Key: "time", V: logparse.JV{Kind: "str"}})
	want.Obj = append(want.Obj, logparse.JMember{Key: "level", V: logparse.JV{Kind: "str", Str: levelNames[cs.Rec.Level]}})
	if cs.AddSource && cs.Via != 3 {
		st.withSource++
		want.Obj = append(want.Obj, logparse.JMember{Key: "source", V: logparse.JV{Kind: "obj", Obj: []logparse.JMember{
			{Key: "file", V: logparse.JV{Kind: "str", Str: attrgen.FFFD(lastTwo(callFile))}},
			{Key: "line", V: logparse.JV{Kind: "num", Num: strconv.Itoa(line)}},
		}}})
	} else if cs.AddSource {
		// Handler.Handle with PC 0: the content of "source" is not specified, its presence is
		if len(got.Obj) > 2 && got.Obj[2].Key == "source" && got.Obj[2].V.Kind == "obj" {
			want.Obj = append(want.Obj, got.Obj[2])
		}
	}
	want.Obj = append(want.Obj, logparse.JMember{Key: "msg", V: logparse.JV{Kind: "str", Str: attrgen.FFFD(string(cs.Rec.Msg))}})
	want.Obj = append(want.Obj, attrgen.JSONAttrs(cs.Rec.Chain, cs.Rec.Attrs)...)
	// time member: checked separately, then copied so that the tree comparison ignores it
	if len(got.Obj) == 0 || got.Obj[0].Key != "time" || got.Obj[0].V.Kind != "str" {
		return "time", "first member \"time\" is a string", show()
	}
	ts := got.Obj[0].V.Str
	pt, err := time.Parse(time.RFC3339Nano, ts)
	if y := chosen.Year(); cs.Via == 3 && (y < 0 || y > 9999) {
		// outside the years RFC 3339 can spell: the line must still be written, with the time the
		// standard formatter gives
		err, pt = nil, chosen
	}
	if err != nil {
		return "time", "time in RFC3339Nano", fmt.Sprintf("%q: %v", ts, err)
	}
	if cs.Via == 3 {
		if !pt.Equal(chosen) || ts != chosen.Format(time.RFC3339Nano) {
			return "time", "time " + chosen.Format(time.RFC3339Nano), ts
		}
	} else if pt.Before(t0.Round(0)) || pt.After(t1.Round(0)) {
		return "time", fmt.Sprintf("time between %s and %s", t0.Format(time.RFC3339Nano), t1.Format(time.RFC3339Nano)), ts
	}
	want.Obj[0].V.Str = ts
	pw, pg := logparse.Prune(want), logparse.Prune(got)
	if len(pg.Obj) != len(got.Obj) || !sameLen(got, pg) {
		st.emptyGroupsSeen++
	}
	if d := logparse.Equal(pw, pg, "$"); d != "" {
		return "content", d + "; expected object " + clipS(logparse.Show(pw), 1200), show()
	}
	if bytes.Contains(b, []byte("json: ")) || bytes.Contains(b, []byte("unsupported")) {
		st.errStrings++
	}
	return "", "", ""
}

func sameLen(a, b logparse.JV) bool { return len(logparse.Show(a)) == len(logparse.Show(b)) }

// judgeProbe judges one record of a separately built probe program: the line must be a JSON object
// whose "source" names the file and line the Go runtime reports for the call.
func judgeProbe(r srcprobe.Rec) (key, expected, observed string) {
	k := fmt.Sprintf("source-file:%s:%s", r.Probe, r.Via)
	got, err := logparse.DecodeObjectLine([]byte(r.Out))
	if err != nil {
		return "invalid-json:" + r.Probe, "one JSON object per line", fmt.Sprintf("%v: %q", err, r.Out)
	}
	for _, m := range got.Obj {
		if m.Key != "source" {
			continue
		}
		var file, line string
		for _, mm := range m.V.Obj {
			switch mm.Key {
			case "file":
				file = mm.V.Str
			case "line":
				line = mm.V.Num
			}
		}
		if !srcprobe.FileOK(file, r.File) || line != strconv.Itoa(r.Line) {
			return k, fmt.Sprintf("source names the caller: file %q (whole, or a tail of it beginning after a '/'), line %d", r.File, r.Line), fmt.Sprintf("file %q line %s in %q", file, line, r.Out)
		}
		return "", "", ""
	}
	return k, "a source member", fmt.Sprintf("none in %q", r.Out)
}

func clip(b []byte, n int) []byte {
	if len(b) > n {
		return b[:n]
	}
	return b
}

func clipS(s string, n int) string {
	if len(s) > n {
		return s[:n] + "…"
	}
	return s
}

// ---------------------------------------------------------------------------------------

type mon struct{}

func (mon) Name() string { return "logjson" }

func (mon) Level(string) (string, string) {
	return "exploration", "records logged through the public Logger API (Log / level methods / LogAttrs, derived with With/WithGroup) and through Handler.Handle with a chosen time; each written line is checked for framing, UTF-8 validity, single-object JSON syntax and – decoded with member order and duplicates preserved – equality with an expected tree computed independently (empty groups compared modulo presence). (a) string-exhaustive: '', every 1- and 2-byte string, Unicode scalars alone and embedded (quick: a seed-rotated 1/16, thorough: all), each used at once as message, key, value, With key/value and WithGroup name; (b) shape-exhaustive: every derivation chain of ≤3 ops over {With(forest), WithGroup} × own forest with ≤4 (quick) / ≤5 (thorough) nodes in total over node kinds {leaf, LogValuer→leaf, LogValuer→LogValuer→leaf, keyed/inline group, empty keyed/inline group, each directly or behind a LogValuer}; (c) seeded random deep records (depth ≤5, chains ≤6, 23 value kinds incl. extremes, failing/garbage marshalers, NaN/Inf, 5 levels, addSource on/off). distinct_nontrivial = distinct record shapes (shape sweep, random) plus distinct strings (string sweep), by hash"
}

func (mon) Assumptions(string) []string {
	return []string{
		"times are generated inside 1970..2191 (slog.TimeValue keeps UnixNano only); marshalers that emit invalid UTF-8 inside a JSON string and panicking LogValuers are not generated",
		"an empty group may be dropped or rendered as {} (slog itself drops some): both sides are compared after pruning recursively empty objects",
	}
}

type shardArgs struct {
	Kind     string `json:"kind"` // str | shape | rand
	From     int    `json:"from,omitempty"`
	To       int    `json:"to,omitempty"`
	Stride   int    `json:"stride,omitempty"`
	Off      int    `json:"off,omitempty"`
	MaxNodes int    `json:"max_nodes,omitempty"`
	Part     int    `json:"part"`
	Parts    int    `json:"parts"`
	Count    int    `json:"count,omitempty"`
}

func (mon) Plan(prop, tier string, seed int64) []drv.Shard {
	var out []drv.Shard
	parts := 16
	stride, maxNodes, nrand := 16, 4, 20000
	if tier == "thorough" {
		stride, maxNodes, nrand = 1, 5, 10000000
	}
	small := 1 + 256 + 65536
	for p := 0; p < parts; p++ {
		// the 1- and 2-byte strings completely, in every tier
		a, _ := json.Marshal(shardArgs{Kind: "str", From: small * p / parts, To: small * (p + 1) / parts, Stride: 1, Part: p, Parts: parts})
		out = append(out, drv.Shard{Name: fmt.Sprintf("str-small-%d", p), Args: a})
		n := attrgen.CorpusSize - small
		a, _ = json.Marshal(shardArgs{Kind: "str", From: small + n*p/parts, To: small + n*(p+1)/parts, Stride: stride, Off: int(seed % int64(stride)), Part: p, Parts: parts})
		out = append(out, drv.Shard{Name: fmt.Sprintf("str-scalars-%d", p), Args: a})
		a, _ = json.Marshal(shardArgs{Kind: "shape", MaxNodes: maxNodes, Part: p, Parts: parts})
		out = append(out, drv.Shard{Name: fmt.Sprintf("shape-%d", p), Args: a})
		a, _ = json.Marshal(shardArgs{Kind: "rand", Part: p, Parts: parts, Count: nrand / parts})
		out = append(out, drv.Shard{Name: fmt.Sprintf("rand-%d", p), Args: a})
		if p == 0 {
			a, _ = json.Marshal(shardArgs{Kind: "times"})
			out = append(out, drv.Shard{Name: "times", Args: a})
			a, _ = json.Marshal(shardArgs{Kind: "pool"})
			out = append(out, drv.Shard{Name: "pool", Args: a})
			a, _ = json.Marshal(shardArgs{Kind: "srcprobe"})
			out = append(out, drv.Shard{Name: "srcprobe", Args: a})
		}
		if p < 4 {
			a, _ = json.Marshal(shardArgs{Kind: "sibling", Part: p, Parts: 4})
			out = append(out, drv.Shard{Name: fmt.Sprintf("sibling-%d", p), Args: a})
		}
	}
	return out
}

func strCase(s string, i int) Case {
	b := []byte(s)
	node := attrgen.Node{Key: b, Val: &attrgen.Val{T: "str", B: b}}
	rec := attrgen.Rec{Msg: b, Level: i % 5, Attrs: []attrgen.Node{node}}
	rec.Chain = []attrgen.ChainOp{{Attrs: []attrgen.Node{node}}}
	if len(b) > 0 {
		rec.Chain = append(rec.Chain, attrgen.ChainOp{IsGrp: true, Group: b})
	}
	return Case{Rec: rec, Via: []int{0, 1, 2, 4, 5, 6, 7, 0}[i%8], Decoys: i%2 == 0, AddSource: i%7 == 0}
}

func (mn mon) Run(sh drv.Shard, c *drv.Ctx) {
	var a shardArgs
	json.Unmarshal(sh.Args, &a)
	st := &stats{}
	exec := func(cs Case, distinct string) bool {
		k, e, o := runCase(cs, st)
		c.Eval(1)
		c.DistinctStr(distinct)
		if k != "" {
			c.Violate(k+":"+caseKey(cs), cs, e, o)
			return c.NumViolations() < 5
		}
		return true
	}
	switch a.Kind {
	case "str":
		for i := a.From + a.Off; i < a.To; i += a.Stride {
			s := attrgen.StringByIndex(i)
			cs := strCase(s, i)
			if c.NumSamples() < 1 && i > a.From+40 {
				c.Sample(map[string]any{"string_as_msg_key_value_group": strconv.QuoteToASCII(s)})
			}
			if !exec(cs, "s:"+s) {
				break
			}
		}
	case "shape":
		idx := 0
		attrgen.EnumRecords(a.MaxNodes, 3, func(r attrgen.Rec) bool {
			idx++
			if idx%a.Parts != a.Part {
				return true
			}
			cs := Case{Rec: r, Decoys: idx%3 == 0, Via: idx / a.Parts % 8, AddSource: idx%5 == 0, TimeNs: int64(idx) * 1000003, ZoneSec: (idx%27 - 13) * 3600}
			if cs.Via == 2 {
				cs.Via = 0 // LogAttrs cannot carry pair arguments; shapes use attrs only, keep Log
			}
			if c.NumSamples() < 2 && idx > 5000 {
				c.Sample(map[string]any{"shape": attrgen.ShapeKey(r)})
			}
			return exec(cs, attrgen.ShapeKey(r))
		})
	case "srcprobe":
		// records written by separately built programs (slash-less module path, main package at the
		// module root; built with -trimpath, with -trimpath from file arguments, and plainly): the
		// runtime's file name of the call site has one slash, a "./" prefix, or is absolute
		probes := srcprobe.Probes()
		if len(probes) == 0 {
			c.Inconclusive("VERIF_SRCPROBES is not set: the probe programs are built by ./check")
			return
		}
		for _, pp := range probes {
			recs, err := srcprobe.Run(pp)
			if err != nil {
				c.Inconclusive("probe program: " + err.Error())
				return
			}
			n := 0
			for _, r := range recs {
				if r.Kind != "json" {
					continue
				}
				n++
				c.Eval(1)
				c.DistinctStr("srcprobe " + r.Probe + " " + r.Via + " " + r.File)
				c.SetAdd("probe_call_site_files", r.File)
				if k, e, o := judgeProbe(r); k != "" {
					c.Violate(k, map[string]any{"srcprobe": r}, e, o)
				}
			}
			if n == 0 {
				c.Inconclusive("probe program " + pp + " wrote no json record")
				return
			}
			c.Add("probe_records_judged", int64(n))
			// the two entry points that end the process: one complete record, then exit status 1
			for _, via := range []string{"Fatal", "Fatalf"} {
				r, code, err := srcprobe.RunFatal(pp, "json", via)
				if err != nil {
					c.Inconclusive("probe program: " + err.Error())
					return
				}
				c.Eval(1)
				c.DistinctStr("srcprobe " + r.Probe + " " + via)
				c.Add("probe_fatal_records_judged", 1)
				if strings.Count(r.Out, "\n") != 1 || !strings.HasSuffix(r.Out, "\n") || !strings.Contains(r.Out, "FATAL") {
					c.Violate("fatal-record:"+r.Probe+":"+via, map[string]any{"srcprobe": r}, "exactly one newline-terminated record at level FATAL before the process ends", fmt.Sprintf("%q (exit status %d)", r.Out, code))
					continue
				}
				if k, e, o := judgeProbe(r); k != "" {
					c.Violate(k, map[string]any{"srcprobe": r}, e, o)
				}
			}
		}
	case "pool":
		// every record below is logged right after a record of another size went through the shared
		// buffer pool (sizes around the pool's keep/drop limit of 16 KiB and far beyond it)
		idx := 0
		for rep := 0; rep < 3; rep++ {
			for _, size := range []int{100, 1000, 1024, 5000, 16000, 16300, 16384, 16385, 17000, 20000, 70000, 1 << 20} {
				for kind := 0; kind < 3; kind++ {
					for via := 0; via < 3; via++ {
						idx++
						rec := attrgen.Rec{Msg: []byte("after"), Level: idx % 5, Attrs: []attrgen.Node{{Key: []byte("k"), Val: &attrgen.Val{T: "int", I: int64(idx)}}, {Key: []byte("s"), Val: &attrgen.Val{T: "str", B: []byte("a b")}}}}
						if via == 2 {
							rec.Chain = []attrgen.ChainOp{{Attrs: []attrgen.Node{{Key: []byte("w"), Val: &attrgen.Val{T: "int", I: 7}}}}, {IsGrp: true, Group: []byte("g")}}
						}
						cs := Case{Rec: rec, Via: via, AddSource: idx%2 == 0, PoolBytes: size, PoolKind: kind}
						if !exec(cs, fmt.Sprintf("pool %d/%d/%d/%d", size, kind, via, rep)) {
							return
						}
					}
				}
			}
		}
	case "times":
		// record times at the edges of what a formatter may assume (Handler.Handle with a chosen time)
		secs := []int64{253402300799, 253402300800, 253402297200, 569057875200, -62167219200, -62167219201, -62198755200, -1, 0, 1, 4102444800}
		idx := 0
		for _, sec := range secs {
			for _, zone := range []int{0, 3600, -3600, 50400, -43200} {
				for _, ns := range []int64{0, 1, 999999999, 120000000} {
					idx++
					rec := attrgen.Rec{Msg: []byte("m"), Level: idx % 5, Attrs: []attrgen.Node{{Key: []byte("k"), Val: &attrgen.Val{T: "int", I: int64(idx)}}}}
					cs := Case{Rec: rec, Via: 3, TimeSec: sec, TimeNs: ns, ZoneSec: zone}
					if !exec(cs, fmt.Sprintf("time %d/%d/%d", sec, zone, ns)) {
						return
					}
				}
			}
		}
	case "sibling":
		// chains whose parents carry pre-rendered bytes of every length 0..200 (every spare
		// capacity the append growth policy yields), with decoy siblings derived from each parent
		idx := 0
		for pad := 0; pad <= 200; pad++ {
			for variant := 0; variant < 6; variant++ {
				idx++
				if idx%a.Parts != a.Part {
					continue
				}
				str := func(k, v string) attrgen.Node {
					return attrgen.Node{Key: []byte(k), Val: &attrgen.Val{T: "str", B: []byte(v)}}
				}
				chain := []attrgen.ChainOp{{Attrs: []attrgen.Node{str("p", strings.Repeat("P", pad))}}}
				if variant >= 2 {
					chain = append(chain, attrgen.ChainOp{IsGrp: true, Group: []byte("pg")})
				}
				if variant >= 4 {
					chain = append(chain, attrgen.ChainOp{Attrs: []attrgen.Node{str("q", "7")}})
				}
				if variant%2 == 0 {
					chain = append(chain, attrgen.ChainOp{Attrs: []attrgen.Node{str("c1", "aaaaaa")}})
				} else {
					chain = append(chain, attrgen.ChainOp{IsGrp: true, Group: []byte("ga")})
				}
				rec := attrgen.Rec{Chain: chain, Msg: []byte("m"), Level: 1, Attrs: []attrgen.Node{str("x", "1")}}
				cs := Case{Rec: rec, Decoys: true, Via: idx % 3}
				if !exec(cs, fmt.Sprintf("sibling pad=%d v=%d", pad, variant)) {
					return
				}
			}
		}
	case "rand":
		r := rand.New(rand.NewSource(sh.Seed*1000003 + int64(a.Part)))
		for i := 0; i < a.Count; i++ {
			rec := attrgen.RandRec(r)
			cs := Case{Rec: rec, Via: r.Intn(8), Decoys: r.Intn(2) == 0, AddSource: r.Intn(3) == 0, TimeNs: r.Int63n(7e18), ZoneSec: (r.Intn(27) - 13) * 1800}
			if x := r.Intn(4); x == 0 {
				cs.Thr = r.Intn(5) // any threshold: the record may be below it
			} else if x == 1 && rec.Level > 0 {
				cs.Thr = 1 + r.Intn(rec.Level) // a threshold above Debug that lets the record through
			}
			if cs.Via == 2 {
				for i := range cs.Rec.Attrs {
					cs.Rec.Attrs[i].Pair = false
				}
			}
			if c.NumSamples() < 2 {
				c.Sample(map[string]any{"shape": attrgen.ShapeKey(rec), "msg": strconv.QuoteToASCII(string(rec.Msg))})
			}
			if !exec(cs, attrgen.ShapeKey(rec)) {
				break
			}
		}
	}
	c.Add("records", st.records)
	c.Add("records_with_source_checked", st.withSource)
	c.Add("records_with_rendered_empty_group", st.emptyGroupsSeen)
	c.Add("records_with_error_string", st.errStrings)
}

func caseKey(cs Case) string {
	b, _ := json.Marshal(cs.Rec)
	return fmt.Sprintf("%s#%016x", clipS(attrgen.ShapeKey(cs.Rec), 120), drv.HashStr(string(b)))
}

func (mn mon) Replay(v drv.Violation, c *drv.Ctx) {
	var pr struct {
		R *srcprobe.Rec `json:"srcprobe"`
	}
	if json.Unmarshal(v.Case, &pr) == nil && pr.R != nil {
		// re-run the probe program of that build variant and judge the same call site again
		for _, pp := range srcprobe.Probes() {
			if strings.HasPrefix(pr.R.Via, "Fatal") {
				r, code, err := srcprobe.RunFatal(pp, "json", pr.R.Via)
				if err != nil {
					c.Inconclusive("replay: " + err.Error())
					return
				}
				if r.Probe != pr.R.Probe {
					continue
				}
				c.Eval(1)
				if strings.Count(r.Out, "\n") != 1 || !strings.HasSuffix(r.Out, "\n") || !strings.Contains(r.Out, "FATAL") {
					c.Violate("fatal-record:"+r.Probe+":"+r.Via, map[string]any{"srcprobe": r}, "exactly one newline-terminated record at level FATAL before the process ends", fmt.Sprintf("%q (exit status %d)", r.Out, code))
				} else if k, e, o := judgeProbe(r); k != "" {
					c.Violate(k, map[string]any{"srcprobe": r}, e, o)
				}
				return
			}
			recs, err := srcprobe.Run(pp)
			if err != nil {
				c.Inconclusive("replay: " + err.Error())
				return
			}
			for _, r := range recs {
				if r.Probe == pr.R.Probe && r.Kind == "json" && r.Via == pr.R.Via {
					c.Eval(1)
					if k, e, o := judgeProbe(r); k != "" {
						c.Violate(k, map[string]any{"srcprobe": r}, e, o)
					}
					return
				}
			}
		}
		c.Inconclusive("replay: probe program " + pr.R.Probe + " not available (VERIF_SRCPROBES is set by ./check)")
		return
	}
	var cs Case
	if err := json.Unmarshal(v.Case, &cs); err != nil {
		c.Inconclusive("replay: cannot decode case: " + err.Error())
		return
	}
	k, e, o := runCase(cs, &stats{})
	c.Eval(1)
	if k != "" {
		c.Violate(k+":"+caseKey(cs), cs, e, o)
	}
}

func main() { drv.Main(mon{}) }
