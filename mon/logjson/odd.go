package main

import (
	"github.com/whoisnian/glb/logger"
)

// emitOdd logs from a call site that reports - through a //line directive, as generated code
// does - a file name that needs quoting in the text format and escaping in JSON.
// Keep this function last in the file: the directive renumbers everything below it.
//
//line /srv/build dir/my "app"/api=gen\x.go:77
func emitOdd(l *logger.Logger, cs Case, args []any) (line int) {
	l.Log(ctx, levels[cs.Rec.Level], string(cs.Rec.Msg), mark(&line, args)...)
	return line
}
