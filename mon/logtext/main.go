// Monitor logtext (C13): text handler lines parse back unambiguously; values cannot forge
// fields or lines. Oracle: an independent tokenizer written from the grammar in the statement
// (internal/logparse) and the expected (dotted path, value) list computed by internal/attrgen.
// See DESIGN.md §3 C13.
package main

import (
	"bytes"
	"context"
	"encoding/json"
	"fmt"
	"io"
	"log/slog"
	"math/rand"
	"path/filepath"
	"runtime"
	"strconv"
	"strings"
	"sync"
	"time"

	"github.com/whoisnian/glb/logger"

	"verif/internal/attrgen"
	"verif/internal/drv"
	"verif/internal/logparse"
	"verif/internal/recw"
	"verif/internal/srcprobe"
)

var levels = []slog.Level{logger.LevelDebug, logger.LevelInfo, logger.LevelWarn, logger.LevelError, logger.LevelFatal}
var levelNames = []string{"DEBUG", "INFO", "WARN", "ERROR", "FATAL"}

// Case is one record plus how it is logged.
type Case struct {
	Rec       attrgen.Rec `json:"rec"`
	AddSource bool        `json:"add_source,omitempty"`
	Via       int         `json:"via"`              // 0 Logger.Log, 1 level method, 2 LogAttrs, 3 Handler.Handle with a chosen time, 4 Logf / level-f methods (record attributes dropped)
	Decoys    bool        `json:"decoys,omitempty"` // derive sibling loggers from every parent of the chain
	TimeNs    int64       `json:"time_ns,omitempty"`
	TimeSec   int64       `json:"time_sec,omitempty"` // with Via 3: seconds since the epoch (reaches years outside 1678..2262)
	ZoneSec   int         `json:"zone_sec,omitempty"`
	// PoolBytes/PoolKind: history in the handlers' shared buffer pool - right before the record, another
	// record whose line is about PoolBytes long is written through a handler of PoolKind (0 nano, 1 text,
	// 2 json) on the same goroutine, so that the buffer it grew is the one this record draws next
	// Thr: the handler's threshold (index into levels). A record below it must leave no byte; every
	// other record is judged as usual. Not used with Via 3 (Handle does not consult the threshold).
	Thr       int `json:"thr,omitempty"`
	PoolBytes int `json:"pool_bytes,omitempty"`
	PoolKind  int `json:"pool_kind,omitempty"`
}

func poolHistory(cs Case) {
	if cs.PoolBytes <= 0 {
		return
	}
	opts := logger.NewOptions(logger.LevelDebug, false, false)
	var h logger.Handler
	switch cs.PoolKind {
	case 0:
		h = logger.NewNanoHandler(io.Discard, opts)
	case 1:
		h = logger.NewTextHandler(io.Discard, opts)
	default:
		h = logger.NewJsonHandler(io.Discard, opts)
	}
	if cs.PoolKind >= 3 {
		// kinds 3..5: the earlier record's size sits in its group path (one long WithGroup name, or many
		// short ones), written through a nano / text / json handler: whatever scratch the handlers keep
		// for key prefixes and open groups has been grown by it
		switch cs.PoolKind {
		case 3:
			h = logger.NewTextHandler(io.Discard, opts)
		case 4:
			h = logger.NewJsonHandler(io.Discard, opts)
		default:
			h = logger.NewNanoHandler(io.Discard, opts)
		}
		l := logger.New(h)
		if cs.PoolBytes%2 == 0 {
			l = l.WithGroup(strings.Repeat("G", cs.PoolBytes))
		} else {
			for n := 0; n < cs.PoolBytes; n += 8 {
				l = l.WithGroup("grp" + strconv.Itoa(n))
			}
		}
		l.Info("big", "v", 1, slog.Group("inner", "w", 2))
		l.With("pre", 1).Info("big", "v", 1)
		return
	}
	logger.New(h).Info("big", "v", strings.Repeat("x", cs.PoolBytes))
}

type capture struct {
	buf    bytes.Buffer
	writes int
}

func (c *capture) Write(p []byte) (int, error) {
	c.writes++
	return c.buf.Write(p)
}

var ctx = context.Background()

// mark returns args unchanged and records the source line of its caller's call expression.
func mark(line *int, args []any) []any {
	_, callFile, *line, _ = runtime.Caller(1)
	return args
}

// callFile is the file of the last marked call site (it differs from this file under a
// //line directive, see odd.go).
var callFile string

func lastTwo(f string) string {
	return filepath.Base(filepath.Dir(f)) + "/" + filepath.Base(f)
}

func markA(line *int, attrs []slog.Attr) []slog.Attr {
	_, callFile, *line, _ = runtime.Caller(1)
	return attrs
}

var thisFile = func() string {
	_, f, _, _ := runtime.Caller(0)
	return filepath.Base(filepath.Dir(f)) + "/" + filepath.Base(f)
}()

// emit logs the record through the public API and returns the call-site line.
func emit(l *logger.Logger, cs Case, args []any) (line int) {
	msg := string(cs.Rec.Msg)
	switch cs.Via {
	case 1:
		switch cs.Rec.Level {
		case 0:
			l.Debug(msg, mark(&line, args)...)
		case 1:
			l.Info(msg, mark(&line, args)...)
		case 2:
			l.Warn(msg, mark(&line, args)...)
		case 3:
			l.Error(msg, mark(&line, args)...)
		default:
			l.Log(ctx, levels[cs.Rec.Level], msg, mark(&line, args)...)
		}
	case 2:
		attrs := make([]slog.Attr, 0, len(args))
		for _, n := range cs.Rec.Attrs {
			attrs = append(attrs, n.Attr())
		}
		l.LogAttrs(ctx, levels[cs.Rec.Level], msg, markA(&line, attrs)...)
	case 5: // Panic: logs at ERROR with attributes, then panics with the message
		func() {
			defer func() {
				if r := recover(); r != msg {
					panic(fmt.Sprintf("Logger.Panic panicked with %v, want the message", r))
				}
			}()
			l.Panic(msg, mark(&line, args)...)
		}()
	case 6: // Panicf
		func() {
			defer func() {
				if r := recover(); r != msg {
					panic(fmt.Sprintf("Logger.Panicf panicked with %v, want the message", r))
				}
			}()
			l.Panicf("%s", mark(&line, []any{msg})...)
		}()
	case 7: // a call site whose file name needs quoting / escaping (//line directive in odd.go)
		line = emitOdd(l, cs, args)
	case 4: // formatted message, no attributes of its own
		switch cs.Rec.Level {
		case 0:
			l.Debugf("%s", mark(&line, []any{msg})...)
		case 1:
			l.Infof("%s", mark(&line, []any{msg})...)
		case 2:
			l.Warnf("%s", mark(&line, []any{msg})...)
		case 3:
			l.Errorf("%s", mark(&line, []any{msg})...)
		default:
			l.Logf(ctx, levels[cs.Rec.Level], "%s", mark(&line, []any{msg})...)
		}
	default:
		l.Log(ctx, levels[cs.Rec.Level], msg, mark(&line, args)...)
	}
	return line
}

type stats struct {
	records, withSource, quotedTokens, attrs int64
}

// runCase logs one record and judges the bytes written. A time mismatch on the Logger path
// (wall clock stepped between the two readings) is re-run once before it is judged.
func runCase(cs Case, st *stats) (key, expected, observed string) {
	k, e, o := runOnce(cs, st)
	if k == "time" {
		k, e, o = runOnce(cs, st)
	}
	return k, e, o
}

func runOnce(cs Case, st *stats) (key, expected, observed string) {
	if cs.Via == 4 || cs.Via == 6 {
		cs.Rec.Attrs = nil // the f-methods take no attributes
	}
	if cs.Via == 5 || cs.Via == 6 {
		cs.Rec.Level = 3 // Panic / Panicf log at ERROR
	}
	var out capture
	if cs.Via == 3 {
		cs.Thr = 0
	}
	var h logger.Handler = logger.NewTextHandler(&out, logger.NewOptions(levels[cs.Thr], false, cs.AddSource))
	var pv any
	var line int
	var t0, t1, chosen time.Time
	func() {
		defer func() { pv = recover() }()
		poolHistory(cs)
		if cs.Via == 3 {
			for _, op := range cs.Rec.Chain {
				if op.IsGrp {
					h = h.WithGroup(string(op.Group))
				} else {
					attrs := make([]slog.Attr, 0, len(op.Attrs))
					for _, n := range op.Attrs {
						attrs = append(attrs, n.Attr())
					}
					h = h.WithAttrs(attrs)
				}
			}
			chosen = time.Unix(cs.TimeSec, cs.TimeNs).In(time.FixedZone("", cs.ZoneSec))
			r := slog.NewRecord(chosen, levels[cs.Rec.Level], string(cs.Rec.Msg), 0)
			for _, n := range cs.Rec.Attrs {
				r.AddAttrs(n.Attr())
			}
			h.Handle(ctx, r)
			return
		}
		var l *logger.Logger
		if cs.Decoys {
			l = attrgen.DeriveDecoy(logger.New(h), cs.Rec.Chain)
		} else {
			l = attrgen.Derive(logger.New(h), cs.Rec.Chain)
		}
		args := attrgen.Args(cs.Rec.Attrs)
		t0 = time.Now()
		line = emit(l, cs, args)
		t1 = time.Now()
	}()
	st.records++
	if pv != nil {
		return "panic", "no panic while logging", fmt.Sprintf("panic: %v", pv)
	}
	b := out.buf.Bytes()
	show := func() string { return fmt.Sprintf("line %q", clip(b, 1500)) }
	if cs.Rec.Level < cs.Thr {
		if len(b) != 0 {
			return "below-threshold", fmt.Sprintf("no output for a %s record on a handler with threshold %s", levelNames[cs.Rec.Level], levelNames[cs.Thr]), show()
		}
		return "", "", ""
	}
	if len(b) == 0 || b[len(b)-1] != '\n' || bytes.IndexByte(b[:len(b)-1], '\n') >= 0 {
		return "framing", "exactly one newline-terminated line", show()
	}
	pairs, err := logparse.TokenizeText(b)
	if err != nil {
		return "tokenize", "the line splits into space-separated key=value tokens", err.Error() + "; " + show()
	}
	for _, p := range pairs {
		if p.KeyQuoted {
			st.quotedTokens++
		}
		if p.ValQuoted {
			st.quotedTokens++
		}
	}
	idx := 0
	next := func(what string) (logparse.Pair, bool) {
		if idx >= len(pairs) {
			return logparse.Pair{}, false
		}
		idx++
		return pairs[idx-1], true
	}
	// time
	p, ok := next("time")
	if !ok || p.Key != "time" {
		return "time", "first pair is time=…", show()
	}
	pt, err := time.Parse(time.RFC3339, p.Val)
	if y := chosen.Year(); cs.Via == 3 && (y < 0 || y > 9999) {
		err, pt = nil, chosen // outside the years RFC 3339 can spell: only the exact text is compared
	}
	if err != nil {
		return "time", "time in RFC3339", fmt.Sprintf("%q: %v", p.Val, err)
	}
	if cs.Via == 3 {
		if p.Val != chosen.Format(time.RFC3339) {
			return "time", "time " + chosen.Format(time.RFC3339), p.Val
		}
	} else if pt.Before(t0.Round(0).Truncate(time.Second)) || pt.After(t1.Round(0)) {
		return "time", fmt.Sprintf("time between %s and %s", t0.Format(time.RFC3339), t1.Format(time.RFC3339)), p.Val
	}
	if p, ok = next("level"); !ok || p.Key != "level" || p.Val != levelNames[cs.Rec.Level] {
		return "level", "level=" + levelNames[cs.Rec.Level], show()
	}
	if cs.AddSource {
		p, ok = next("source")
		if !ok || p.Key != "source" {
			return "source", "source=file:line", show()
		}
		if cs.Via != 3 {
			st.withSource++
			if w := lastTwo(callFile) + ":" + strconv.Itoa(line); p.Val != w {
				return "source", "source=" + w, p.Val
			}
		}
	}
	if p, ok = next("msg"); !ok || p.Key != "msg" || p.Val != string(cs.Rec.Msg) {
		return "msg", fmt.Sprintf("msg=%q", cs.Rec.Msg), fmt.Sprintf("%+v in ", p) + show()
	}
	want := attrgen.TextAttrs(cs.Rec.Chain, cs.Rec.Attrs)
	rest := pairs[idx:]
	for i := 0; i < len(want) || i < len(rest); i++ {
		if i >= len(rest) {
			return "content", fmt.Sprintf("attribute #%d %q present", i, want[i].Path), "missing; " + show()
		}
		if i >= len(want) {
			return "content", fmt.Sprintf("%d attributes", len(want)), fmt.Sprintf("extra token %q=%q; ", rest[i].Key, rest[i].Val) + show()
		}
		if d := want[i].MatchText(rest[i]); d != "" {
			return "content", fmt.Sprintf("attribute #%d: ", i) + d, show()
		}
	}
	st.attrs += int64(len(want))
	return "", "", ""
}

// judgeProbe judges one record of a separately built probe program: the line must tokenise and its
// source token must name the file and line the Go runtime reports for the call.
func judgeProbe(r srcprobe.Rec) (key, expected, observed string) {
	k := fmt.Sprintf("source-file:%s:%s", r.Probe, r.Via)
	pairs, err := logparse.TokenizeText([]byte(r.Out))
	if err != nil {
		return "tokenize:" + r.Probe, "the line splits into key=value tokens", fmt.Sprintf("%v: %q", err, r.Out)
	}
	for _, p := range pairs {
		if p.Key != "source" {
			continue
		}
		i := strings.LastIndexByte(p.Val, ':')
		if i < 0 || !srcprobe.FileOK(p.Val[:i], r.File) || p.Val[i+1:] != strconv.Itoa(r.Line) {
			return k, fmt.Sprintf("source names the caller: file %q (whole, or a tail of it beginning after a '/'), line %d", r.File, r.Line), fmt.Sprintf("source=%q in %q", p.Val, r.Out)
		}
		return "", "", ""
	}
	return k, "a source token", fmt.Sprintf("none in %q", r.Out)
}

func clip(b []byte, n int) []byte {
	if len(b) > n {
		return b[:n]
	}
	return b
}

func clipS(s string, n int) string {
	if len(s) > n {
		return s[:n] + "…"
	}
	return s
}

// relog is a LogValuer that logs through the very logger that is resolving it (re-entrant use
// of one handler) and then resolves to a string.
type relog struct {
	l   *logger.Logger
	msg string
}

func (r relog) LogValue() slog.Value {
	r.l.Info(r.msg, "x", 1)
	return slog.StringValue("resolved")
}

// runShared: several goroutines log through ONE logger derived with WithGroup (short keys), and
// a LogValuer inside a group logs through the same logger while the outer record is being
// formatted. Every written line must tokenise and carry exactly its own record.
func runShared(n int, st *stats) (key, expected, observed string) {
	groups := [][]string{{"g"}, {"req"}, {"a", "b"}, {"g", "h", "i"}, {}}[n%5] // {}: no open group at all
	w := recw.New(20000, 0)
	l := logger.New(logger.NewTextHandler(w, logger.NewOptions(logger.LevelDebug, false, false)))
	if n%3 == 0 {
		l = l.With("pre", n)
	}
	for _, g := range groups {
		l = l.WithGroup(g)
	}
	prefix := strings.Join(groups, ".") + "."
	if len(groups) == 0 {
		prefix = ""
	}
	var pre []string
	if n%3 == 0 {
		pre = []string{"pre", strconv.Itoa(n)}
	}
	const G, K = 8, 60
	var wg sync.WaitGroup
	start := make(chan struct{})
	for g := 0; g < G; g++ {
		wg.Add(1)
		go func(g int) {
			defer wg.Done()
			<-start
			for i := 0; i < K; i++ {
				if g == 0 && i%10 == 0 {
					l.Info(fmt.Sprintf("o%d-%d", g, i), slog.Group("sub", slog.Any("k", relog{l, fmt.Sprintf("in%d-%d", g, i)}), slog.Int("n", 2)))
					continue
				}
				l.Info(fmt.Sprintf("r%d-%d", g, i), fmt.Sprintf("k%d", g), i, slog.Group("s", "v", g))
			}
		}(g)
	}
	close(start)
	wg.Wait()
	want := map[string][]string{}
	for g := 0; g < G; g++ {
		for i := 0; i < K; i++ {
			if g == 0 && i%10 == 0 {
				want[fmt.Sprintf("o%d-%d", g, i)] = []string{prefix + "sub.k", "resolved", prefix + "sub.n", "2"}
				want[fmt.Sprintf("in%d-%d", g, i)] = []string{prefix + "x", "1"}
				continue
			}
			want[fmt.Sprintf("r%d-%d", g, i)] = []string{prefix + fmt.Sprintf("k%d", g), strconv.Itoa(i), prefix + "s.v", strconv.Itoa(g)}
		}
	}
	for _, pl := range w.Payloads() {
		st.records++
		pairs, err := logparse.TokenizeText(pl)
		if err != nil {
			return "shared-tokenize", "the line splits into key=value tokens", fmt.Sprintf("%v: %q", err, clip(pl, 600))
		}
		if len(pairs) < 3 || pairs[2].Key != "msg" {
			return "shared-shape", "time level msg …", fmt.Sprintf("%q", clip(pl, 600))
		}
		exp, ok := want[pairs[2].Val]
		if !ok {
			return "shared-unknown", "every line belongs to one record that was logged, once", fmt.Sprintf("%q", clip(pl, 600))
		}
		delete(want, pairs[2].Val)
		exp = append(append([]string(nil), pre...), exp...)
		rest := pairs[3:]
		if len(rest)*2 != len(exp) {
			return "shared-content", fmt.Sprintf("attributes %q", exp), fmt.Sprintf("%q", clip(pl, 600))
		}
		for i, p := range rest {
			if p.Key != exp[2*i] || p.Val != exp[2*i+1] {
				return "shared-content", fmt.Sprintf("attributes %q (loggers shared by goroutines / used re-entrantly write their own record only)", exp), fmt.Sprintf("%q", clip(pl, 600))
			}
		}
		st.attrs += int64(len(rest))
	}
	if len(want) > 0 {
		return "shared-missing", "every record written", fmt.Sprintf("%d records missing", len(want))
	}
	return "", "", ""
}

// ---------------------------------------------------------------------------------------

type mon struct{}

func (mon) Name() string { return "logtext" }

func (mon) Level(string) (string, string) {
	return "exploration", "records logged through the public Logger API (Log / level methods / LogAttrs, derived with With/WithGroup) and through Handler.Handle with a chosen time; each written line is split by an independent tokenizer (pair = tok '=' tok; tok = Go-quoted string or bare run free of Unicode white space, '=' and '\"'; single spaces; one trailing newline) and the unquoted tokens must equal [time, level, (source), msg, dotted path/value of every attribute in order]. (a) string-exhaustive: '', every 1- and 2-byte string, Unicode scalars alone and embedded (quick: a seed-rotated 1/16, thorough: all), each used at once as message, key, value, group key and WithGroup name (so it also sits behind a 'g.' prefix); (b) shape-exhaustive derivation chains × forests as in C01 (≤4 quick / ≤5 thorough nodes); (c) seeded random deep records over 23 value kinds incl. TextMarshaler ok/failing, error, []byte, AnsiString, LogValuer. (d) shared use: 8 goroutines logging through one WithGroup-derived logger while a LogValuer inside a group logs through the same logger re-entrantly, at GOMAXPROCS 2/4/16. distinct_nontrivial = distinct record shapes plus distinct strings, by hash"
}

func (mon) Assumptions(string) []string {
	return []string{
		"two different (group, key) splits with the same dotted path are indistinguishable by design of the format; only the dotted path is compared",
		"times are compared at second precision (the format carries no fraction)",
	}
}

type shardArgs struct {
	Kind     string `json:"kind"` // str | shape | rand
	From     int    `json:"from,omitempty"`
	To       int    `json:"to,omitempty"`
	Stride   int    `json:"stride,omitempty"`
	Off      int    `json:"off,omitempty"`
	MaxNodes int    `json:"max_nodes,omitempty"`
	Part     int    `json:"part"`
	Parts    int    `json:"parts"`
	Count    int    `json:"count,omitempty"`
}

func (mon) Plan(prop, tier string, seed int64) []drv.Shard {
	var out []drv.Shard
	parts := 16
	stride, maxNodes, nrand := 16, 4, 20000
	if tier == "thorough" {
		stride, maxNodes, nrand = 1, 5, 10000000
	}
	small := 1 + 256 + 65536
	for p := 0; p < parts; p++ {
		// the 1- and 2-byte strings completely, in every tier
		a, _ := json.Marshal(shardArgs{Kind: "str", From: small * p / parts, To: small * (p + 1) / parts, Stride: 1, Part: p, Parts: parts})
		out = append(out, drv.Shard{Name: fmt.Sprintf("str-small-%d", p), Args: a})
		n := attrgen.CorpusSize - small
		a, _ = json.Marshal(shardArgs{Kind: "str", From: small + n*p/parts, To: small + n*(p+1)/parts, Stride: stride, Off: int(seed % int64(stride)), Part: p, Parts: parts})
		out = append(out, drv.Shard{Name: fmt.Sprintf("str-scalars-%d", p), Args: a})
		a, _ = json.Marshal(shardArgs{Kind: "shape", MaxNodes: maxNodes, Part: p, Parts: parts})
		out = append(out, drv.Shard{Name: fmt.Sprintf("shape-%d", p), Args: a})
		a, _ = json.Marshal(shardArgs{Kind: "rand", Part: p, Parts: parts, Count: nrand / parts})
		out = append(out, drv.Shard{Name: fmt.Sprintf("rand-%d", p), Args: a})
		if p == 0 {
			a, _ = json.Marshal(shardArgs{Kind: "times"})
			out = append(out, drv.Shard{Name: "times", Args: a})
			a, _ = json.Marshal(shardArgs{Kind: "pool"})
			out = append(out, drv.Shard{Name: "pool", Args: a})
			a, _ = json.Marshal(shardArgs{Kind: "srcprobe"})
			out = append(out, drv.Shard{Name: "srcprobe", Args: a})
		}
		if p < 4 {
			a, _ = json.Marshal(shardArgs{Kind: "sibling", Part: p, Parts: 4})
			out = append(out, drv.Shard{Name: fmt.Sprintf("sibling-%d", p), Args: a})
		}
		if p < 3 {
			a, _ = json.Marshal(shardArgs{Kind: "shared", Part: p, Count: nrand / 400})
			out = append(out, drv.Shard{Name: fmt.Sprintf("shared-%d", p), Args: a, Env: []string{"GOMAXPROCS=" + []string{"2", "4", "16"}[p]}})
		}
	}
	return out
}

func strCase(s string, i int) Case {
	b := []byte(s)
	node := attrgen.Node{Key: b, Val: &attrgen.Val{T: "str", B: b}}
	rec := attrgen.Rec{Msg: b, Level: i % 5, Attrs: []attrgen.Node{node, {Key: b, Kids: []attrgen.Node{node}}}}
	rec.Chain = []attrgen.ChainOp{{Attrs: []attrgen.Node{node}}}
	if len(b) > 0 {
		rec.Chain = append(rec.Chain, attrgen.ChainOp{IsGrp: true, Group: b})
	}
	return Case{Rec: rec, Via: []int{0, 1, 2, 4, 5, 6, 7, 0}[i%8], Decoys: i%2 == 0, AddSource: i%7 == 0}
}

func (mn mon) Run(sh drv.Shard, c *drv.Ctx) {
	var a shardArgs
	json.Unmarshal(sh.Args, &a)
	st := &stats{}
	exec := func(cs Case, distinct string) bool {
		k, e, o := runCase(cs, st)
		c.Eval(1)
		c.DistinctStr(distinct)
		if k != "" {
			c.Violate(k+":"+caseKey(cs), cs, e, o)
			return c.NumViolations() < 5
		}
		return true
	}
	switch a.Kind {
	case "str":
		for i := a.From + a.Off; i < a.To; i += a.Stride {
			s := attrgen.StringByIndex(i)
			cs := strCase(s, i)
			if c.NumSamples() < 1 && i > a.From+40 {
				c.Sample(map[string]any{"string_as_msg_key_value_group": strconv.QuoteToASCII(s)})
			}
			if !exec(cs, "s:"+s) {
				break
			}
		}
	case "shape":
		idx := 0
		attrgen.EnumRecords(a.MaxNodes, 3, func(r attrgen.Rec) bool {
			idx++
			if idx%a.Parts != a.Part {
				return true
			}
			cs := Case{Rec: r, Decoys: idx%3 == 0, Via: idx / a.Parts % 8, AddSource: idx%5 == 0, TimeNs: int64(idx) * 1000003, ZoneSec: (idx%27 - 13) * 3600}
			if cs.Via == 2 {
				cs.Via = 0 // LogAttrs cannot carry pair arguments; shapes use attrs only, keep Log
			}
			if c.NumSamples() < 2 && idx > 5000 {
				c.Sample(map[string]any{"shape": attrgen.ShapeKey(r)})
			}
			return exec(cs, attrgen.ShapeKey(r))
		})
	case "shared":
		for i := 0; i < a.Count; i++ {
			k, e, o := runShared(i+a.Part*1000, st)
			c.Eval(1)
			c.DistinctStr(fmt.Sprintf("shared %d/%d", a.Part, i))
			if k != "" {
				c.Violate(k, map[string]any{"shared_run": i + a.Part*1000}, e, o)
				return
			}
		}
	case "srcprobe":
		// records written by separately built programs (slash-less module path, main package at the
		// module root; built with -trimpath, with -trimpath from file arguments, and plainly): the
		// runtime's file name of the call site has one slash, a "./" prefix, or is absolute
		probes := srcprobe.Probes()
		if len(probes) == 0 {
			c.Inconclusive("VERIF_SRCPROBES is not set: the probe programs are built by ./check")
			return
		}
		for _, pp := range probes {
			recs, err := srcprobe.Run(pp)
			if err != nil {
				c.Inconclusive("probe program: " + err.Error())
				return
			}
			n := 0
			for _, r := range recs {
				if r.Kind != "text" {
					continue
				}
				n++
				c.Eval(1)
				c.DistinctStr("srcprobe " + r.Probe + " " + r.Via + " " + r.File)
				c.SetAdd("probe_call_site_files", r.File)
				if k, e, o := judgeProbe(r); k != "" {
					c.Violate(k, map[string]any{"srcprobe": r}, e, o)
				}
			}
			if n == 0 {
				c.Inconclusive("probe program " + pp + " wrote no text record")
				return
			}
			c.Add("probe_records_judged", int64(n))
			// the two entry points that end the process: one complete record, then exit status 1
			for _, via := range []string{"Fatal", "Fatalf"} {
				r, code, err := srcprobe.RunFatal(pp, "text", via)
				if err != nil {
					c.Inconclusive("probe program: " + err.Error())
					return
				}
				c.Eval(1)
				c.DistinctStr("srcprobe " + r.Probe + " " + via)
				c.Add("probe_fatal_records_judged", 1)
				if strings.Count(r.Out, "\n") != 1 || !strings.HasSuffix(r.Out, "\n") || !strings.Contains(r.Out, "FATAL") {
					c.Violate("fatal-record:"+r.Probe+":"+via, map[string]any{"srcprobe": r}, "exactly one newline-terminated record at level FATAL before the process ends", fmt.Sprintf("%q (exit status %d)", r.Out, code))
					continue
				}
				if k, e, o := judgeProbe(r); k != "" {
					c.Violate(k, map[string]any{"srcprobe": r}, e, o)
				}
			}
		}
	case "pool":
		// every record below is logged right after a record of another size went through the shared
		// buffer pool (sizes around the pool's keep/drop limit of 16 KiB and far beyond it)
		idx := 0
		for rep := 0; rep < 3; rep++ {
			for _, size := range []int{100, 1000, 1024, 5000, 16000, 16300, 16384, 16385, 17000, 20000, 70000, 1 << 20} {
				for kind := 0; kind < 3; kind++ {
					for via := 0; via < 3; via++ {
						idx++
						rec := attrgen.Rec{Msg: []byte("after"), Level: idx % 5, Attrs: []attrgen.Node{{Key: []byte("k"), Val: &attrgen.Val{T: "int", I: int64(idx)}}, {Key: []byte("s"), Val: &attrgen.Val{T: "str", B: []byte("a b")}}}}
						if via == 2 {
							rec.Chain = []attrgen.ChainOp{{Attrs: []attrgen.Node{{Key: []byte("w"), Val: &attrgen.Val{T: "int", I: 7}}}}, {IsGrp: true, Group: []byte("g")}}
						}
						cs := Case{Rec: rec, Via: via, AddSource: idx%2 == 0, PoolBytes: size, PoolKind: kind}
						if !exec(cs, fmt.Sprintf("pool %d/%d/%d/%d", size, kind, via, rep)) {
							return
						}
					}
				}
			}
		}
		// ... and the sizes sit in the group path of the earlier record (kinds 3..5)
		for _, size := range []int{64, 100, 255, 256, 257, 300, 511, 512, 513, 1000, 1025, 4096, 4097, 20001} {
			for kind := 3; kind < 6; kind++ {
				for via := 0; via < 3; via++ {
					idx++
					rec := attrgen.Rec{Msg: []byte("after"), Level: idx % 5, Attrs: []attrgen.Node{{Key: []byte("k"), Val: &attrgen.Val{T: "int", I: int64(idx)}}, {Key: []byte("s"), Val: &attrgen.Val{T: "str", B: []byte("a b")}}}}
					if via >= 1 {
						rec.Chain = []attrgen.ChainOp{{Attrs: []attrgen.Node{{Key: []byte("w"), Val: &attrgen.Val{T: "int", I: 7}}}}, {IsGrp: true, Group: []byte("g")}}
					}
					cs := Case{Rec: rec, Via: via, AddSource: idx%2 == 0, PoolBytes: size, PoolKind: kind}
					if !exec(cs, fmt.Sprintf("pool-prefix %d/%d/%d", size, kind, via)) {
						return
					}
				}
			}
		}
		// the judged record itself is big: its message, a call-site value, or a value / group name given to
		// With carries the size (around the 16 KiB limit less the handlers' own 1 KiB, and far beyond)
		for _, size := range []int{14000, 15000, 15300, 15359, 15360, 15361, 15400, 16000, 16383, 16384, 16385, 17000, 33000, 70000, 1 << 20} {
			for where := 0; where < 4; where++ {
				idx++
				big := []byte(strings.Repeat("b", size))
				rec := attrgen.Rec{Msg: []byte("m"), Level: idx % 5, Attrs: []attrgen.Node{{Key: []byte("k"), Val: &attrgen.Val{T: "int", I: int64(idx)}}}}
				switch where {
				case 0:
					rec.Msg = big
				case 1:
					rec.Attrs = append(rec.Attrs, attrgen.Node{Key: []byte("big"), Val: &attrgen.Val{T: "str", B: big}})
				case 2:
					rec.Chain = []attrgen.ChainOp{{Attrs: []attrgen.Node{{Key: []byte("w"), Val: &attrgen.Val{T: "str", B: big}}}}}
				default:
					rec.Chain = []attrgen.ChainOp{{IsGrp: true, Group: big}, {Attrs: []attrgen.Node{{Key: []byte("w"), Val: &attrgen.Val{T: "int", I: 7}}}}}
				}
				cs := Case{Rec: rec, Via: idx % 3, AddSource: idx%2 == 0, Decoys: where >= 2 && idx%4 == 0}
				if !exec(cs, fmt.Sprintf("big-record %d/%d", size, where)) {
					return
				}
			}
		}
	case "times":
		secs := []int64{253402300799, 253402300800, 253402297200, 569057875200, -62167219200, -62167219201, -62198755200, -1, 0, 1, 4102444800}
		idx := 0
		for _, sec := range secs {
			for _, zone := range []int{0, 3600, -3600, 50400, -43200} {
				idx++
				rec := attrgen.Rec{Msg: []byte("m"), Level: idx % 5, Attrs: []attrgen.Node{{Key: []byte("k"), Val: &attrgen.Val{T: "int", I: int64(idx)}}}}
				cs := Case{Rec: rec, Via: 3, TimeSec: sec, ZoneSec: zone}
				if !exec(cs, fmt.Sprintf("time %d/%d", sec, zone)) {
					return
				}
			}
		}
	case "sibling":
		// chains whose parents carry pre-rendered bytes of every length 0..200 (every spare
		// capacity the append growth policy yields), with decoy siblings derived from each parent
		idx := 0
		for pad := 0; pad <= 200; pad++ {
			for variant := 0; variant < 6; variant++ {
				idx++
				if idx%a.Parts != a.Part {
					continue
				}
				str := func(k, v string) attrgen.Node {
					return attrgen.Node{Key: []byte(k), Val: &attrgen.Val{T: "str", B: []byte(v)}}
				}
				chain := []attrgen.ChainOp{{Attrs: []attrgen.Node{str("p", strings.Repeat("P", pad))}}}
				if variant >= 2 {
					chain = append(chain, attrgen.ChainOp{IsGrp: true, Group: []byte("pg")})
				}
				if variant >= 4 {
					chain = append(chain, attrgen.ChainOp{Attrs: []attrgen.Node{str("q", "7")}})
				}
				if variant%2 == 0 {
					chain = append(chain, attrgen.ChainOp{Attrs: []attrgen.Node{str("c1", "aaaaaa")}})
				} else {
					chain = append(chain, attrgen.ChainOp{IsGrp: true, Group: []byte("ga")})
				}
				rec := attrgen.Rec{Chain: chain, Msg: []byte("m"), Level: 1, Attrs: []attrgen.Node{str("x", "1")}}
				cs := Case{Rec: rec, Decoys: true, Via: idx % 3}
				if !exec(cs, fmt.Sprintf("sibling pad=%d v=%d", pad, variant)) {
					return
				}
			}
		}
	case "rand":
		r := rand.New(rand.NewSource(sh.Seed*1000003 + int64(a.Part)))
		for i := 0; i < a.Count; i++ {
			rec := attrgen.RandRec(r)
			cs := Case{Rec: rec, Via: r.Intn(8), Decoys: r.Intn(2) == 0, AddSource: r.Intn(3) == 0, TimeNs: r.Int63n(7e18), ZoneSec: (r.Intn(27) - 13) * 1800}
			if x := r.Intn(4); x == 0 {
				cs.Thr = r.Intn(5) // any threshold: the record may be below it
			} else if x == 1 && rec.Level > 0 {
				cs.Thr = 1 + r.Intn(rec.Level) // a threshold above Debug that lets the record through
			}
			if cs.Via == 2 {
				for i := range cs.Rec.Attrs {
					cs.Rec.Attrs[i].Pair = false
				}
			}
			if c.NumSamples() < 2 {
				c.Sample(map[string]any{"shape": attrgen.ShapeKey(rec), "msg": strconv.QuoteToASCII(string(rec.Msg))})
			}
			if !exec(cs, attrgen.ShapeKey(rec)) {
				break
			}
		}
	}
	c.Add("records", st.records)
	c.Add("records_with_source_checked", st.withSource)
	c.Add("quoted_tokens_unquoted", st.quotedTokens)
	c.Add("attribute_pairs_compared", st.attrs)
}

func caseKey(cs Case) string {
	b, _ := json.Marshal(cs.Rec)
	return fmt.Sprintf("%s#%016x", clipS(attrgen.ShapeKey(cs.Rec), 120), drv.HashStr(string(b)))
}

func (mn mon) Replay(v drv.Violation, c *drv.Ctx) {
	var pr struct {
		R *srcprobe.Rec `json:"srcprobe"`
	}
	if json.Unmarshal(v.Case, &pr) == nil && pr.R != nil {
		// re-run the probe program of that build variant and judge the same call site again
		for _, pp := range srcprobe.Probes() {
			if strings.HasPrefix(pr.R.Via, "Fatal") {
				r, code, err := srcprobe.RunFatal(pp, "text", pr.R.Via)
				if err != nil {
					c.Inconclusive("replay: " + err.Error())
					return
				}
				if r.Probe != pr.R.Probe {
					continue
				}
				c.Eval(1)
				if strings.Count(r.Out, "\n") != 1 || !strings.HasSuffix(r.Out, "\n") || !strings.Contains(r.Out, "FATAL") {
					c.Violate("fatal-record:"+r.Probe+":"+r.Via, map[string]any{"srcprobe": r}, "exactly one newline-terminated record at level FATAL before the process ends", fmt.Sprintf("%q (exit status %d)", r.Out, code))
				} else if k, e, o := judgeProbe(r); k != "" {
					c.Violate(k, map[string]any{"srcprobe": r}, e, o)
				}
				return
			}
			recs, err := srcprobe.Run(pp)
			if err != nil {
				c.Inconclusive("replay: " + err.Error())
				return
			}
			for _, r := range recs {
				if r.Probe == pr.R.Probe && r.Kind == "text" && r.Via == pr.R.Via {
					c.Eval(1)
					if k, e, o := judgeProbe(r); k != "" {
						c.Violate(k, map[string]any{"srcprobe": r}, e, o)
					}
					return
				}
			}
		}
		c.Inconclusive("replay: probe program " + pr.R.Probe + " not available (VERIF_SRCPROBES is set by ./check)")
		return
	}
	var cs Case
	if err := json.Unmarshal(v.Case, &cs); err != nil {
		c.Inconclusive("replay: cannot decode case: " + err.Error())
		return
	}
	k, e, o := runCase(cs, &stats{})
	c.Eval(1)
	if k != "" {
		c.Violate(k+":"+caseKey(cs), cs, e, o)
	}
}

func main() { drv.Main(mon{}) }
