package main

// "Callers" scenarios: data reaches the ProgressWriter the way real callers send it - io.Copy /
// io.CopyN / io.CopyBuffer from sources without WriteTo (io.LimitReader, a plain struct reader,
// the read end of an os.Pipe, an *os.File), src.WriteTo(pw) for sources that have it
// (bytes.Buffer, strings.Reader), io.WriteString, fmt.Fprintf, a bufio.Writer on top of pw - over
// wrapped writers that do or do not implement io.ReaderFrom themselves, scripted (short, failing
// mid-copy: they count what they really consumed) or backed by the OS (*os.File on a temp file,
// /dev/null, /dev/full = ENOSPC, a pipe whose reader is gone = EPIPE, a pipe whose reader goes
// away after a quota = failure in the middle of a copy).
//
// The oracle is the one of every other scenario: the ground truth is recorded at the wrapped
// writer - every n a Write/WriteString call returned and, for a ReadFrom-capable wrapped writer,
// the n its ReadFrom returned; Size() after every op and every Status() value are compared
// against the sums of these.

import (
	"bufio"
	"bytes"
	"fmt"
	"io"
	"math/rand"
	"os"
	"strings"
)

// how the writer goroutine issues an op
const (
	viaDirect        = iota // pw.Write / pw.WriteString
	viaIOWriteStr           // io.WriteString(pw, s)
	viaCopyWholly           // io.Copy(pw, bytes.Reader): the reader's WriteTo hands pw one Write
	viaCopyChunked          // io.Copy(pw, plain struct reader): no WriteTo
	viaCopyN                // io.CopyN(pw, plain reader, n)
	viaCopyBuffer           // io.CopyBuffer(pw, plain reader, buf)
	viaCopyLimit            // io.Copy(pw, io.LimitReader(zero reader, n))
	viaCopyPipe             // io.Copy(pw, read end of an os.Pipe fed by a helper goroutine)
	viaCopyFile             // io.Copy(pw, *os.File)
	viaWriteToBuf           // (*bytes.Buffer).WriteTo(pw)
	viaWriteToStr           // (*strings.Reader).WriteTo(pw)
	viaFprintf              // fmt.Fprintf(pw, ...)
	viaBufio                // bufio.Writer on top of pw: Write/WriteString in pieces, Flush
	viaBufioReadFrom        // bufio.Writer on top of pw: ReadFrom(plain reader), Flush
	viaCount
)

var viaNames = []string{"direct", "io.WriteString", "io.Copy(WriterTo)", "io.Copy(chunked)", "io.CopyN", "io.CopyBuffer",
	"io.Copy(LimitReader)", "io.Copy(os.Pipe)", "io.Copy(*os.File)", "bytes.Buffer.WriteTo", "strings.Reader.WriteTo", "fmt.Fprintf",
	"bufio.Writer", "bufio.Writer.ReadFrom"}

var viaMethod = []string{"", "io.WriteString", "io.Copy", "io.Copy", "io.CopyN", "io.CopyBuffer", "io.Copy", "io.Copy", "io.Copy",
	"WriteTo", "WriteTo", "fmt.Fprintf", "bufio", "bufio"}

type plainReader struct{ r io.Reader } // hides WriterTo

func (p plainReader) Read(b []byte) (int, error) { return p.r.Read(b) }

type zeroReader struct{}

func (zeroReader) Read(p []byte) (int, error) { clear(p); return len(p), nil }

var copyBufSizes = []int{64, 512, 4096, 32768, 100000}

// issue performs one op of the writer goroutine.
func (s *scen) issue(op Op, where *string) (n int, err error) {
	pw := s.pw
	var n64 int64
	*where = "Write"
	switch op.Via {
	case viaIOWriteStr:
		*where = "WriteString"
		return io.WriteString(pw, payloadS(op.Size))
	case viaCopyWholly:
		n64, err = io.Copy(pw, bytes.NewReader(payloadB(op.Size)))
	case viaCopyChunked:
		n64, err = io.Copy(pw, plainReader{bytes.NewReader(payloadB(op.Size))})
	case viaCopyN:
		n64, err = io.CopyN(pw, plainReader{bytes.NewReader(payloadB(op.Size))}, int64(op.Size))
	case viaCopyBuffer:
		n64, err = io.CopyBuffer(pw, plainReader{bytes.NewReader(payloadB(op.Size))}, make([]byte, copyBufSizes[int(op.Cut>>8)%len(copyBufSizes)]))
	case viaCopyLimit:
		n64, err = io.Copy(pw, io.LimitReader(zeroReader{}, int64(op.Size)))
	case viaCopyPipe:
		r, w, perr := os.Pipe()
		if perr != nil {
			return pw.Write(payloadB(op.Size))
		}
		fed := make(chan struct{})
		go func() { // feeder: ends when everything is written or the read end is closed
			defer close(fed)
			w.Write(payloadB(op.Size))
			w.Close()
		}()
		func() {
			defer func() { r.Close(); <-fed }()
			n64, err = io.Copy(pw, r)
		}()
	case viaCopyFile:
		f, ferr := os.CreateTemp("", "verif-progress-src-*")
		if ferr != nil {
			return pw.Write(payloadB(op.Size))
		}
		func() {
			defer os.Remove(f.Name())
			defer f.Close()
			f.Write(payloadB(op.Size))
			f.Seek(0, io.SeekStart)
			n64, err = io.Copy(pw, f)
		}()
	case viaWriteToBuf:
		n64, err = bytes.NewBuffer(payloadB(op.Size)).WriteTo(pw)
	case viaWriteToStr:
		n64, err = strings.NewReader(payloadS(op.Size)).WriteTo(pw)
	case viaFprintf:
		return fmt.Fprintf(pw, "%s|%d", payloadS(op.Size), op.Cut)
	case viaBufio:
		if s.sk.beh == behShortNil {
			// bufio.Writer.Write retries for ever on (0, nil): it relies on the io.Writer contract
			s.sk.beh = behShortErr
		}
		bw := bufio.NewWriterSize(pw, copyBufSizes[int(op.Cut>>8)%len(copyBufSizes)])
		left, x := op.Size, op.Cut|1
		for left > 0 && err == nil {
			x = x*1664525 + 1013904223
			k := 1 + int(x>>8)%(left/3+1)
			var m int
			if x&1 == 0 {
				m, err = bw.Write(payloadB(k))
			} else {
				m, err = bw.WriteString(payloadS(k))
			}
			n += m
			left -= k
		}
		if ferr := bw.Flush(); err == nil {
			err = ferr
		}
		return n, err
	case viaBufioReadFrom:
		if s.sk.beh == behShortNil {
			s.sk.beh = behShortErr
		}
		bw := bufio.NewWriterSize(pw, copyBufSizes[int(op.Cut>>8)%len(copyBufSizes)])
		n64, err = bw.ReadFrom(plainReader{bytes.NewReader(payloadB(op.Size))})
		if ferr := bw.Flush(); err == nil {
			err = ferr
		}
	default:
		if op.Str {
			*where = "WriteString"
			return pw.WriteString(payloadS(op.Size))
		}
		return pw.Write(payloadB(op.Size))
	}
	return int(n64), err
}

// readFrom is the ReadFrom of the scripted wrapped writers: it consumes the source chunk by chunk
// like a real one and reports what it really consumed; short and failing behaviours stop in the
// middle of the copy (a chunk may have been read from the source and not, or only partly, written).
func (s *sink) readFrom(r io.Reader) (int64, error) {
	s.rfCalls++
	if s.scratch == nil {
		s.scratch = make([]byte, 32*1024)
	}
	limit, eff, ferr := -1, behFull, error(nil)
	size := s.opSize
	switch s.beh {
	case behShortErr:
		if size > 0 {
			limit, eff, ferr = int(s.cut%uint32(size)), behShortErr, io.ErrShortWrite
		}
	case behShortNil:
		if size > 0 {
			limit, eff = int(s.cut%uint32(size)), behShortNil
		}
	case behFail0:
		limit, eff, ferr = 0, behFail0, errFail
	case behFailN:
		if size > 0 {
			limit, eff, ferr = 1+int(s.cut%uint32(size)), behFailN, errFail
		} else {
			limit, eff, ferr = 0, behFail0, errFail
		}
	}
	consumed := 0
	var err error
	for {
		k, rerr := r.Read(s.scratch)
		if limit >= 0 && consumed+k >= limit {
			consumed, err = limit, ferr
			break
		}
		consumed += k
		if rerr != nil {
			if rerr != io.EOF {
				err = rerr
			}
			break
		}
	}
	s.account(consumed, err, eff, false)
	return int64(consumed), err
}

// osSink is a wrapped writer backed by a real *os.File; it only records what the file reported.
// *os.File implements io.StringWriter and io.ReaderFrom, so does osSink.
type osSink struct {
	s *sink
	f *os.File
}

func classify(l, n int, err error) int {
	switch {
	case err == nil && n == l:
		return behFull
	case err == nil:
		return behShortNil
	case n == 0:
		return behFail0
	case err == io.ErrShortWrite:
		return behShortErr
	}
	return behFailN
}

func (w osSink) Write(p []byte) (int, error) {
	n, err := w.f.Write(p)
	w.s.account(n, err, classify(len(p), n, err), false)
	return n, err
}

func (w osSink) WriteString(x string) (int, error) {
	n, err := w.f.WriteString(x)
	w.s.account(n, err, classify(len(x), n, err), true)
	return n, err
}

func (w osSink) ReadFrom(r io.Reader) (int64, error) {
	w.s.rfCalls++
	n, err := w.f.ReadFrom(r)
	eff := behFull
	if err != nil {
		eff = behFailN
		if n == 0 {
			eff = behFail0
		}
	}
	w.s.account(int(n), err, eff, false)
	return n, err
}

// osSinkC: the *os.File-backed wrapped writer with the file's real Close (a second Close fails
// with os.ErrClosed, like a file the caller closed before pw.Close()).
type osSinkC struct{ osSink }

func (w osSinkC) Close() error {
	w.s.closeCalls++
	if w.s.inPwClose {
		w.s.closeCallsLib++
	}
	return w.f.Close()
}

var closerKinds = []string{"ok", "fail", "already", "slow"}

// genCloser decides whether the wrapped writer of a scenario gets a Close method.
func genCloser(r *rand.Rand, cs *Case) {
	if r.Intn(5) >= 2 {
		return
	}
	cs.Closer = closerKinds[r.Intn(len(closerKinds))]
	if cs.OSW != "" && (cs.Closer == "fail" || cs.Closer == "slow") {
		cs.Closer = []string{"ok", "already"}[r.Intn(2)] // a real file: its real Close
	}
}

var osKinds = []string{"tmpfile", "devnull", "devfull", "brokenpipe", "pipequota"}

// openOSSink opens the OS-backed wrapped writer of a scenario; cleanup releases everything.
func openOSSink(kind string, quota int, sk *sink, closer bool) (w io.Writer, cleanup func(), err error) {
	wrap := func(f *os.File) io.Writer {
		if closer {
			return osSinkC{osSink{sk, f}}
		}
		return osSink{sk, f}
	}
	switch kind {
	case "tmpfile":
		f, e := os.CreateTemp("", "verif-progress-dst-*")
		if e != nil {
			return nil, nil, e
		}
		return wrap(f), func() { f.Close(); os.Remove(f.Name()) }, nil
	case "devnull", "devfull":
		f, e := os.OpenFile("/dev/"+kind[3:], os.O_WRONLY, 0)
		if e != nil {
			return nil, nil, e
		}
		return wrap(f), func() { f.Close() }, nil
	case "brokenpipe", "pipequota":
		r, wr, e := os.Pipe()
		if e != nil {
			return nil, nil, e
		}
		done := make(chan struct{})
		if kind == "brokenpipe" {
			r.Close() // every write fails with EPIPE and reports 0 bytes
			close(done)
		} else {
			go func() { // the reader takes quota bytes and goes away: a write fails mid-copy
				defer close(done)
				io.CopyN(io.Discard, r, int64(quota))
				r.Close()
			}()
		}
		return wrap(wr), func() { wr.Close(); r.Close(); <-done }, nil
	}
	return nil, nil, fmt.Errorf("unknown OS writer %q", kind)
}

var callerVias = []int{viaDirect, viaIOWriteStr, viaCopyWholly, viaCopyChunked, viaCopyN, viaCopyBuffer, viaCopyLimit, viaCopyLimit,
	viaCopyPipe, viaCopyFile, viaWriteToBuf, viaWriteToStr, viaFprintf, viaBufio, viaBufioReadFrom, viaCopyChunked, viaCopyN}

// genCallers builds a callers scenario.
func genCallers(r *rand.Rand) Case {
	wk := r.Intn(len(wkinds))
	cs := Case{WKind: wkinds[wk], SW: r.Intn(2) == 0, RF: r.Intn(3) != 0, Prof: "callers"}
	if r.Intn(4) == 0 {
		cs.OSW = osKinds[r.Intn(len(osKinds))]
		cs.WKind, cs.SW, cs.RF = "os:"+cs.OSW, true, true
		cs.Quota = r.Intn(300000)
		wk = 0
	}
	n := 1 + r.Intn(24)
	for i := 0; i < n; i++ {
		o := Op{Cut: r.Uint32(), Str: r.Intn(2) == 0, Via: callerVias[r.Intn(len(callerVias))]}
		switch x := r.Intn(100); {
		case x < 10:
			o.Size = r.Intn(8)
		case x < 40:
			o.Size = r.Intn(4096)
		case x < 85:
			o.Size = 30000 + r.Intn(200000) // several 32 KiB chunks
		default:
			o.Size = r.Intn(maxSize + 1)
		}
		if (o.Via == viaCopyFile || o.Via == viaCopyPipe || o.Via == viaBufio) && o.Size > 300000 {
			o.Size = r.Intn(300000)
		}
		if o.Via == viaCopyBuffer && o.Size > 200000 {
			o.Size = r.Intn(200000)
		}
		switch {
		case wk == 5:
			o.Beh = r.Intn(5)
		case wk != 0 && r.Intn(2) == 0:
			o.Beh = wk
		}
		if r.Intn(6) == 0 {
			o.Yield = 1
		}
		cs.Ops = append(cs.Ops, o)
	}
	ck := ckinds[r.Intn(len(ckinds))]
	cs.Cons = Consumer{Kind: ck, PauseAt: -1, Lazy: r.Intn(3) == 0}
	switch ck {
	case "absent":
		cs.Cons.StartAt = n
	case "slow":
		cs.Cons.Yields = 1 + r.Intn(20)
	case "late":
		cs.Cons.StartAt = 1 + r.Intn(n)
		cs.Cons.Yields = r.Intn(3)
	case "stopresume":
		cs.Cons.Yields = r.Intn(3)
		if n >= 2 {
			a := 1 + r.Intn(n-1)
			cs.Cons.PauseAt, cs.Cons.ResumeAt = a, a+1+r.Intn(n-a)
		}
	}
	genCloser(r, &cs)
	return cs
}
