package main

import "math/rand"

// Deep scenarios (thorough tier only): the diversity the quick tier does not have.
//
//	history   seeded random histories of 1000..8000 ops, mostly tiny writes, every wrapped-writer
//	          behaviour, wrapped writers that block, all ways of issuing an op
//	pow2      30..300 ops with sizes 2^k-1, 2^k, 2^k+1 for k = 0..26 (totals up to GiB)
//	boundary  write sequences whose prefix sums land exactly on 2^31-1, 2^31, 2^31+1 and the same
//	          around 2^32 (and 2^33): Size() is an int, the totals cross the 32-bit boundaries
//	stream    io.Copy / io.WriteString driven ops (one op = several Writes of the wrapped writer)
//
// Consumers: absent, eager, slow, late (often arriving at the last op or exactly at Close),
// stops-then-resumes, bursty (receives Burst values, is away for Gap yields); Status() fetched
// up front, late, or again before every receive. The oracles are those of every other scenario.

var deepProfiles = []string{"history", "history", "pow2", "boundary", "stream"}
var deepConsumers = []string{"absent", "eager", "slow", "late", "stopresume", "bursty", "bursty"}

func genDeep(r *rand.Rand) Case { return genDeepProf(r, "") }

// genDeepProf: prof "" draws the profile.
func genDeepProf(r *rand.Rand, prof string) Case {
	wk := r.Intn(len(wkinds))
	cs := Case{WKind: wkinds[wk], SW: r.Intn(2) == 0, RF: r.Intn(3) == 0, Prof: deepProfiles[r.Intn(len(deepProfiles))]}
	if prof != "" {
		cs.Prof = prof
	}
	beh := func() int {
		switch {
		case wk == 0:
			return behFull
		case wk == 5:
			return r.Intn(5)
		case r.Intn(2) == 0:
			return wk
		}
		return behFull
	}
	strMode := r.Intn(4)
	isStr := func() bool {
		switch strMode {
		case 0:
			return false
		case 1:
			return true
		}
		return r.Intn(2) == 0
	}
	yieldy := r.Intn(4) // 0,1: never; 2: rarely; 3: sometimes
	yield := func() int {
		switch yieldy {
		case 2:
			if r.Intn(64) == 0 {
				return 1
			}
		case 3:
			if r.Intn(8) == 0 {
				return 1 + r.Intn(3)
			}
		}
		return 0
	}
	pow2 := func(maxK int) int {
		v := 1<<uint(r.Intn(maxK+1)) + r.Intn(3) - 1
		if v < 0 {
			v = 0
		}
		return v
	}
	switch cs.Prof {
	case "history":
		n := 1000 + r.Intn(7001)
		blocky := r.Intn(3) == 0
		for i := 0; i < n; i++ {
			o := Op{Cut: r.Uint32(), Str: isStr(), Beh: beh(), Yield: yield()}
			switch x := r.Intn(100); {
			case x < 70:
				o.Size = r.Intn(65)
			case x < 85:
				o.Size = pow2(16)
			case x < 95:
				o.Size = 4096
			default:
				o.Size = r.Intn(maxSize + 1)
			}
			switch x := r.Intn(100); {
			case x < 10:
				o.Via = viaIOWriteStr
			case x < 15:
				o.Via = viaCopyWholly
			case x < 17:
				o.Via = viaCopyChunked
				if o.Size > 100000 {
					o.Size = r.Intn(100000)
				}
			}
			if blocky && r.Intn(100) == 0 {
				o.Block = 1 + r.Intn(5)
			}
			cs.Ops = append(cs.Ops, o)
		}
	case "pow2":
		n := 30 + r.Intn(271)
		for i := 0; i < n; i++ {
			o := Op{Cut: r.Uint32(), Str: isStr(), Beh: beh(), Yield: yield(), Size: pow2(26)}
			if r.Intn(10) == 0 {
				o.Via = 1 + r.Intn(2)
			}
			cs.Ops = append(cs.Ops, o)
		}
	case "boundary":
		if r.Intn(10) < 7 {
			wk = 0
			cs.WKind = wkinds[0]
		}
		targets := []int{1 << 31, 1 << 32}
		if r.Intn(4) == 0 {
			targets = append(targets, 1<<33)
		}
		total := 0
		for _, t := range targets {
			for total < t-1 {
				chunk := 1<<24 + r.Intn(1<<26-1<<24+1)
				if r.Intn(6) == 0 {
					chunk = pow2(26)
				}
				if total+chunk > t-1 {
					chunk = t - 1 - total
					if chunk > 1<<26 {
						chunk = 1 << 26
					}
				}
				o := Op{Cut: r.Uint32(), Str: isStr(), Beh: beh(), Yield: yield(), Size: chunk}
				if r.Intn(12) == 0 {
					o.Via = 1 + r.Intn(2)
				}
				cs.Ops = append(cs.Ops, o)
				total += chunk // exact for the full writer, approximate otherwise
			}
			for k := 0; k < 2; k++ { // t-1 -> t -> t+1
				cs.Ops = append(cs.Ops, Op{Cut: r.Uint32(), Str: isStr(), Beh: beh(), Size: 1})
				total++
			}
		}
	case "stream":
		n := 20 + r.Intn(181)
		for i := 0; i < n; i++ {
			o := Op{Cut: r.Uint32(), Str: isStr(), Beh: beh(), Yield: yield(), Via: 1 + r.Intn(3)}
			switch o.Via {
			case viaCopyChunked:
				o.Size = r.Intn(1 << 18) // up to 8 chunks of 32 KiB
			default:
				o.Size = r.Intn(maxSize + 1)
			}
			if r.Intn(5) == 0 {
				o.Via = viaDirect
			}
			cs.Ops = append(cs.Ops, o)
		}
	}
	n := len(cs.Ops)
	ck := deepConsumers[r.Intn(len(deepConsumers))]
	cs.Cons = Consumer{Kind: ck, PauseAt: -1, Lazy: r.Intn(3) == 0, Refetch: r.Intn(4) == 0}
	switch ck {
	case "absent":
		cs.Cons.StartAt = n
	case "eager":
	case "slow":
		cs.Cons.Yields = 1 + r.Intn(20)
	case "late":
		switch r.Intn(3) {
		case 0:
			cs.Cons.StartAt = n - 1 // arrives at the last write
		case 1:
			cs.Cons.StartAt = n - 1 - r.Intn(4) // ... or just before it
			if cs.Cons.StartAt < 1 {
				cs.Cons.StartAt = 1
			}
		default:
			cs.Cons.StartAt = 1 + r.Intn(n)
		}
		cs.Cons.Yields = r.Intn(3)
	case "stopresume":
		cs.Cons.Yields = r.Intn(3)
		a := 1 + r.Intn(n-1)
		b := a + 1 + r.Intn(n-a)
		if r.Intn(3) == 0 {
			b = n // resumes exactly for Close
		}
		cs.Cons.PauseAt, cs.Cons.ResumeAt = a, b
	case "bursty":
		cs.Cons.Burst = 1 + r.Intn(8)
		cs.Cons.Gap = 1 + r.Intn(200)
		cs.Cons.Yields = r.Intn(2)
	}
	genCloser(r, &cs)
	return cs
}
