package main

import "math/rand"

// Scenario generator: a pure function of (seed, shard part, worker).

var wkinds = []string{"full", "shortErr", "shortNil", "fail0", "failN", "mixed"}
var ckinds = []string{"absent", "eager", "slow", "late", "stopresume"}
var sizes = []int{0, 1, 7, 4096, maxSize}

func newRand(seed int64, part, worker int) *rand.Rand {
	return rand.New(rand.NewSource(seed*1000003 + int64(part)*1009 + int64(worker)*7 + 19))
}

func genCase(r *rand.Rand) Case {
	wk := r.Intn(len(wkinds))
	cs := Case{WKind: wkinds[wk], SW: r.Intn(2) == 0}
	n := 1 + r.Intn(50)
	switch r.Intn(20) {
	case 0:
		n = 0
	case 1:
		n = 1
	case 2:
		n = 50
	}
	// per-scenario mix of the two methods: all Write, all WriteString, or mixed
	strMode := r.Intn(4)
	yieldy := r.Intn(3) // 0: writer never yields, 1: sometimes, 2: often
	for i := 0; i < n; i++ {
		o := Op{Size: sizes[r.Intn(len(sizes))], Cut: r.Uint32()}
		if r.Intn(8) == 0 {
			o.Size = r.Intn(70000)
		}
		switch strMode {
		case 0:
		case 1:
			o.Str = true
		default:
			o.Str = r.Intn(2) == 0
		}
		switch {
		case wk == 0:
			o.Beh = behFull
		case wk == 5:
			o.Beh = r.Intn(5)
		default:
			if r.Intn(2) == 0 {
				o.Beh = wk
			}
		}
		switch yieldy {
		case 1:
			if r.Intn(4) == 0 {
				o.Yield = 1
			}
		case 2:
			o.Yield = r.Intn(4)
		}
		cs.Ops = append(cs.Ops, o)
	}
	ck := ckinds[r.Intn(len(ckinds))]
	cs.Cons = Consumer{Kind: ck, PauseAt: -1, Lazy: r.Intn(2) == 0}
	switch ck {
	case "absent":
		cs.Cons.StartAt = n
	case "eager":
	case "slow":
		cs.Cons.Yields = 1 + r.Intn(20)
	case "late":
		if n > 0 {
			cs.Cons.StartAt = 1 + r.Intn(n)
		}
		cs.Cons.Yields = r.Intn(3)
	case "stopresume":
		cs.Cons.Yields = r.Intn(3)
		if n >= 2 {
			a := 1 + r.Intn(n-1) // 1..n-1: the consumer has a chance to receive before the pause
			if r.Intn(6) == 0 {
				a = 0
			}
			b := a + 1 + r.Intn(n-a) // a+1..n (n = resumes only for Close)
			cs.Cons.PauseAt, cs.Cons.ResumeAt = a, b
		}
	}
	return cs
}

// genLong builds a long scenario: tens of thousands of tiny full writes next to an eager
// consumer that never yields, so that writer and consumer run at about the same rate.
func genLong(r *rand.Rand) Case {
	return Case{WKind: "full", SW: r.Intn(2) == 0, LongN: 20000 + r.Intn(80001), LongSeed: r.Int63(),
		Cons: Consumer{Kind: "eager", PauseAt: -1, Lazy: r.Intn(2) == 0}}
}
