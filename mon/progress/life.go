package main

// "Lifetime" scenarios: very many short ProgressWriter lifetimes (one or two small writes, then
// Close) against a consumer that is deliberately busy during the last write and starts its
// receive at a moment aligned with the writer's Close. Writer and consumer goroutines of a
// "pair" are reused across lifetimes and synchronise by spinning on atomics (no parking, so the
// alignment is a matter of nanoseconds): the writer releases a barrier, both sides then burn a
// seeded number of spin iterations (0..MaxLag, MaxLag itself varied) and the writer calls Close
// while the consumer starts to range over Status(). Sweeping the two offsets sweeps the
// alignment of "consumer's first receive" against "Close entered".
//
// Oracle per lifetime (same statements as for ordinary scenarios): Size() == Σ n after every
// call and after Close; received values non-decreasing, each a prefix sum; at least one value,
// the last one == total; the range loop ends (channel closed); Close returns.
// "Close returns" is decided structurally: a pair whose lifetime counter does not move is
// looked at with two consecutive runtime.Stack(all) snapshots; violation iff both show the
// writer goroutine parked inside (*ProgressWriter).Close in anything but a send (or inside
// sum/Write/WriteString in any channel operation) and the consumer goroutine parked receiving
// in its range loop (or, for sum/Write/WriteString, still waiting for the barrier only the writer
// can release), with identical lifetime counter and stacks. Time only decides when to look and
// when to give up (inconclusive).

import (
	"fmt"
	"io"
	"runtime"
	"strings"
	"sync/atomic"
	"time"

	"github.com/whoisnian/glb/util/ioutil"
)

// LifeSpec is the replayable description of one batch of lifetimes.
type LifeSpec struct {
	Seed  int64 `json:"seed"`
	Pairs int   `json:"pairs"` // concurrent writer/consumer pairs
	N     int   `json:"n"`     // lifetimes per pair
}

type lifeParams struct {
	Writes int  // 1 | 2
	S1, S2 int  // sizes (S2 = last write)
	Str    bool // last write is a WriteString
	SW     bool // wrapped writer implements io.StringWriter
	Early  bool // barrier released before the last write instead of after it
	Lazy   bool // consumer calls Status() only after the barrier
	Closer int  // wrapped writer has a Close method: 0 no, 1 succeeding, 2 failing
	CRel   bool // the consumer releases the barrier (the writer sees it one cache transfer later) instead of the writer
	MaxLag int
	WLag   int // writer: spin iterations between barrier and its next call
	CLag   int // consumer: spin iterations between barrier and its first receive
}

func (p lifeParams) String() string {
	return fmt.Sprintf("writes=%d sizes=%d,%d lastIsWriteString=%v sw=%v barrierBeforeLastWrite=%v barrierReleasedByConsumer=%v wrappedCloser=%d lazyStatus=%v writerLag=%d consumerLag=%d (of %d)",
		p.Writes, p.S1, p.S2, p.Str, p.SW, p.Early, p.CRel, p.Closer, p.Lazy, p.WLag, p.CLag, p.MaxLag)
}

var lifeLags = []int{32, 128, 600, 2000, 6000}

func splitmix(x *uint64) uint64 {
	*x += 0x9e3779b97f4a7c15
	z := *x
	z = (z ^ (z >> 30)) * 0xbf58476d1ce4e5b9
	z = (z ^ (z >> 27)) * 0x94d049bb133111eb
	return z ^ (z >> 31)
}

func nextLife(x *uint64) lifeParams {
	a, b := splitmix(x), splitmix(x)
	p := lifeParams{Writes: 1 + int(a&1), S1: 1 + int(a>>1&15), S2: 1 + int(a>>5&15), Str: a>>9&1 == 1, SW: a>>10&1 == 1,
		Early: a>>11&3 == 0, Lazy: a>>13&7 == 0, CRel: a>>24&1 == 1, Closer: []int{0, 0, 1, 2}[a>>25&3], MaxLag: lifeLags[int(a>>16%uint64(len(lifeLags)))]}
	p.WLag = int(b % uint64(p.MaxLag+1))
	p.CLag = int((b >> 32) % uint64(p.MaxLag+1))
	if p.Writes == 1 {
		p.S1 = 0
	}
	return p
}

// countW / countSW: the wrapped writer of a lifetime (always full), keeping Σ n and the prefix sums.
type countW struct {
	total int
	pre   [4]int
	k     int
	str   int
}

func (w *countW) add(n int, str bool) (int, error) {
	w.total += n
	if w.k < len(w.pre) {
		w.pre[w.k] = w.total
		w.k++
	} else {
		w.pre[len(w.pre)-1] = w.total
	}
	if str {
		w.str++
	}
	return n, nil
}
func (w *countW) Write(p []byte) (int, error) { return w.add(len(p), false) }

type countSW struct{ countW }

func (w *countSW) WriteString(s string) (int, error) { return w.add(len(s), true) }

// the lifetime wrapped writers with a Close method (fail: it returns an error)
type lifeCloser struct {
	fail  bool
	calls int
}

func (c *lifeCloser) Close() error {
	c.calls++
	if c.fail {
		return errClose
	}
	return nil
}

type countWC struct {
	*countW
	*lifeCloser
}
type countSWC struct {
	*countSW
	*lifeCloser
}

type lifeRound struct {
	p       lifeParams
	pw      *ioutil.ProgressWriter
	w       *countW
	ready   atomic.Bool // consumer picked the round up
	wready  atomic.Bool // writer reached the barrier (only used when the consumer releases it)
	goSig   atomic.Bool // barrier
	closing atomic.Bool // writer is about to call Close
	closed  atomic.Bool // Close returned
	done    atomic.Bool // consumer finished the round
}

type lifeViolation struct {
	res  result
	prm  lifeParams
	life int64
}

type lifeCounters struct {
	lifetimes, values, oneValue, twoValues, threePlus atomic.Int64
	recvBeforeClose, recvAfterClose                   atomic.Int64
	early, lazy, strSW, sizeChecks                    atomic.Int64
	afterClose, closers, libClose                     atomic.Int64
}

type lifePair struct {
	id     int
	seed   uint64
	n      int
	cur    atomic.Pointer[lifeRound]
	rounds atomic.Int64 // completed lifetimes
	cphase atomic.Int32 // 0 between rounds, 1 waiting for the barrier, 2 receiving
	wgid   atomic.Int64
	cgid   atomic.Int64
	wfin   atomic.Bool
	cfin   atomic.Bool
	viol   *atomic.Pointer[lifeViolation]
	stop   *atomic.Bool
	cnt    *lifeCounters
}

var lifeSink atomic.Int64

func busy(n int) {
	s := 0
	for j := 0; j < n; j++ {
		s += j
	}
	if s == -1 {
		lifeSink.Add(1)
	}
}

// spin waits for cond without parking; gives up when the batch is stopped.
func (p *lifePair) spin(cond func() bool, alsoStop *atomic.Bool) bool {
	for i := 1; !cond(); i++ {
		if i&1023 == 0 {
			if p.stop.Load() || (alsoStop != nil && alsoStop.Load()) {
				return cond()
			}
			runtime.Gosched()
		}
	}
	return true
}

func (p *lifePair) violate(r result, prm lifeParams) {
	p.viol.CompareAndSwap(nil, &lifeViolation{res: r, prm: prm, life: p.rounds.Load()})
	p.stop.Store(true)
}

func (p *lifePair) writer() {
	defer p.wfin.Store(true)
	p.wgid.Store(goid())
	var prm lifeParams
	where := "NewProgressWriter"
	defer func() {
		if r := recover(); r != nil {
			p.violate(result{key: "panic:" + where, exp: "no panic out of ProgressWriter." + where, obs: fmt.Sprintf("panic: %v", r)}, prm)
		}
	}()
	x := p.seed
	var sizeChecks, early, lazy, strSW, closers, libClose int64
	flush := func() {
		p.cnt.sizeChecks.Add(sizeChecks)
		p.cnt.early.Add(early)
		p.cnt.lazy.Add(lazy)
		p.cnt.strSW.Add(strSW)
		p.cnt.closers.Add(closers)
		p.cnt.libClose.Add(libClose)
		sizeChecks, early, lazy, strSW, closers, libClose = 0, 0, 0, 0, 0, 0
	}
	defer flush()
	for i := 0; i < p.n && !p.stop.Load(); i++ {
		prm = nextLife(&x)
		r := &lifeRound{p: prm}
		var w io.Writer
		if prm.SW {
			sw := &countSW{}
			r.w, w = &sw.countW, sw
		} else {
			r.w = &countW{}
			w = r.w
		}
		var lc *lifeCloser
		if prm.Closer != 0 {
			lc = &lifeCloser{fail: prm.Closer == 2}
			if sw, ok := w.(*countSW); ok {
				w = countSWC{sw, lc}
			} else {
				w = countWC{r.w, lc}
			}
			closers++
		}
		where = "NewProgressWriter"
		r.pw = ioutil.NewProgressWriter(w)
		pw := r.pw
		p.cur.Store(r)
		if !p.spin(r.ready.Load, nil) {
			return
		}
		check := func(method string) bool {
			sizeChecks++
			if got := pw.Size(); got != r.w.total {
				p.violate(result{key: fmt.Sprintf("size:%s:%s:full", method, swName(prm.SW)),
					exp: fmt.Sprintf("Size()=%d (= Σ n reported by the wrapped writer) after %s", r.w.total, method),
					obs: fmt.Sprintf("Size()=%d", got)}, prm)
				return false
			}
			return true
		}
		if prm.Writes == 2 {
			where = "Write"
			pw.Write(bigBuf[:prm.S1])
			if !check("Write") {
				return
			}
		}
		barrier := func() bool {
			if prm.CRel {
				r.wready.Store(true)
				return p.spin(r.goSig.Load, nil)
			}
			r.goSig.Store(true)
			return true
		}
		if prm.Early {
			early++
			if !barrier() {
				return
			}
			busy(prm.WLag)
		}
		if prm.Str {
			where = "WriteString"
			pw.WriteString(bigStr[:prm.S2])
			if prm.SW {
				strSW++
			}
		} else {
			where = "Write"
			pw.Write(bigBuf[:prm.S2])
		}
		if !check(where) {
			return
		}
		if prm.Lazy {
			lazy++
		}
		if !prm.Early {
			if !barrier() {
				return
			}
			busy(prm.WLag)
		}
		r.closing.Store(true)
		where = "Close"
		closePW(pw)
		r.closed.Store(true)
		if lc != nil {
			libClose += int64(lc.calls)
		}
		where = "Size"
		sizeChecks++
		if got := pw.Size(); got != r.w.total {
			p.violate(result{key: "size:after-close", exp: fmt.Sprintf("Size()=%d after Close", r.w.total), obs: fmt.Sprintf("Size()=%d", got)}, prm)
			return
		}
		if !p.spin(r.done.Load, nil) {
			return
		}
		where = "Status"
		if why := probeClosed(pw.Status()); why != "" {
			p.violate(afterCloseResult(why, "second goroutine asking after the consumer finished", r.w.total), prm)
			return
		}
		p.cnt.afterClose.Add(1)
		p.rounds.Add(1)
		if i&255 == 255 {
			flush()
		}
	}
}

func (p *lifePair) consumer() {
	defer p.cfin.Store(true)
	p.cgid.Store(goid())
	var prev *lifeRound
	var lifetimes, values, one, two, three, before, after, probes int64
	flush := func() {
		c := p.cnt
		c.lifetimes.Add(lifetimes)
		c.values.Add(values)
		c.oneValue.Add(one)
		c.twoValues.Add(two)
		c.threePlus.Add(three)
		c.recvBeforeClose.Add(before)
		c.recvAfterClose.Add(after)
		c.afterClose.Add(probes)
		lifetimes, values, one, two, three, before, after, probes = 0, 0, 0, 0, 0, 0, 0, 0
	}
	defer flush()
	recv := make([]int, 0, 8)
	for !p.stop.Load() {
		var r *lifeRound
		if !p.spin(func() bool { r = p.cur.Load(); return r != prev }, &p.wfin) {
			return
		}
		prev = r
		prm := r.p
		var ch chan int
		if !prm.Lazy {
			ch = r.pw.Status()
		}
		p.cphase.Store(1)
		r.ready.Store(true)
		if prm.CRel {
			if !p.spin(r.wready.Load, nil) {
				return
			}
			r.goSig.Store(true)
		} else if !p.spin(r.goSig.Load, nil) {
			return
		}
		busy(prm.CLag)
		if prm.Lazy {
			ch = r.pw.Status()
		}
		if ch == nil {
			p.violate(result{key: "status:nil-channel", exp: "Status() returns the channel progress is sent to", obs: "nil channel"}, prm)
			return
		}
		beforeClose := !r.closing.Load()
		p.cphase.Store(2)
		recv = recv[:0]
		n := 0
		for v := range ch {
			if len(recv) < cap(recv) {
				recv = append(recv, v)
			} else {
				recv[len(recv)-1] = v
			}
			n++
		}
		p.cphase.Store(0)
		// the channel is closed: the writer has finished writing, its counters are stable
		total := r.w.total
		var bad result
		// once Close() has returned, Status() asked again yields a closed channel (non-blocking receive)
		if p.spin(r.closed.Load, nil) {
			for q := 0; q < 2 && bad.key == ""; q++ {
				if why := probeClosed(r.pw.Status()); why != "" {
					bad = afterCloseResult(why, fmt.Sprintf("consumer asking again (call %d)", q+1), total)
				}
			}
			probes += 2
		}
		if bad.key != "" {
			p.violate(bad, prm)
			return
		}
		for j, v := range recv {
			if j > 0 && v < recv[j-1] {
				bad = result{key: "recv:decreasing", exp: "received values non-decreasing", obs: fmt.Sprintf("received %v", recv)}
				break
			}
			ok := v == total
			for q := 0; q < r.w.k; q++ {
				ok = ok || r.w.pre[q] == v
			}
			if !ok {
				bad = result{key: "recv:not-a-prefix-sum", exp: "every received value equals Σ n after some completed write",
					obs: fmt.Sprintf("value %d is none of the prefix sums %v (total %d); received %v", v, r.w.pre[:r.w.k], total, recv)}
				break
			}
		}
		if bad.key == "" && n == 0 {
			bad = result{key: "close:no-final-value", exp: fmt.Sprintf("last value received after Close() is the total %d", total),
				obs: "channel closed without any value received (lifetime scenario)"}
		}
		if bad.key == "" && recv[len(recv)-1] != total {
			bad = result{key: "close:last-not-total", exp: fmt.Sprintf("last value received after Close() is the total %d", total),
				obs: fmt.Sprintf("last value %d; received %v (lifetime scenario)", recv[len(recv)-1], recv)}
		}
		if bad.key != "" {
			p.violate(bad, prm)
			return
		}
		lifetimes++
		values += int64(n)
		switch {
		case n == 1:
			one++
		case n == 2:
			two++
		default:
			three++
		}
		if beforeClose {
			before++
		} else {
			after++
		}
		if lifetimes&255 == 0 {
			flush()
		}
		r.done.Store(true)
	}
}

// observe: one stop-the-world snapshot of a pair that did not advance.
func (p *lifePair) observe() (r rest) {
	n1, ph1 := p.rounds.Load(), p.cphase.Load()
	cur := p.cur.Load()
	if cur == nil {
		return
	}
	go1 := cur.goSig.Load()
	if cur.p.CRel {
		go1 = cur.wready.Load() // what the consumer waits for in phase 1
	}
	dump := snapshot()
	n2, ph2 := p.rounds.Load(), p.cphase.Load()
	if n1 != n2 || ph1 != ph2 || p.cur.Load() != cur || (cur.p.CRel && cur.wready.Load() != go1) || (!cur.p.CRel && cur.goSig.Load() != go1) {
		return
	}
	if cur.closed.Load() {
		// Close has returned and the writer sends nothing more in this lifetime (it only waits for
		// the consumer): a consumer parked in its range loop proves the channel was left open.
		if ph1 != 2 {
			return
		}
		cstate, cblock, cok := findG(dump, p.cgid.Load())
		if !cok || !strings.HasPrefix(cstate, "chan receive") {
			return
		}
		cfn, cframes := site(cblock)
		if cfn != "main.(*lifePair).consumer" {
			return
		}
		r.ok, r.frame, r.wstate, r.why, r.progress, r.wblock = true, "left-open", "returned from Close", "parked-receiving", n1, cblock
		r.sig = fmt.Sprintf("left-open|%d|%d\n%s", n1, ph1, cframes)
		return
	}
	state, block, ok := findG(dump, p.wgid.Load())
	if !ok || !parked(state) {
		return
	}
	fn, wframes := site(block)
	if !strings.HasPrefix(fn, pwPrefix) {
		return
	}
	frame := strings.TrimPrefix(fn, pwPrefix)
	why, cframes := "", ""
	switch frame {
	case "sum", "Write", "WriteString":
		if ph1 == 1 && !go1 {
			why = "absent" // the consumer spins on a barrier only the writer can release
		}
	case "Close":
		if strings.HasPrefix(state, "chan send") {
			return // by design
		}
	default:
		return
	}
	if why == "" {
		if ph1 != 2 {
			return
		}
		cstate, cblock, cok := findG(dump, p.cgid.Load())
		if !cok || !strings.HasPrefix(cstate, "chan receive") {
			return
		}
		var cfn string
		cfn, cframes = site(cblock)
		if cfn != "main.(*lifePair).consumer" {
			return
		}
		why = "parked-receiving"
		r.cblock = cblock
	}
	if i := strings.IndexByte(state, ','); i >= 0 {
		state = state[:i]
	}
	r.ok, r.frame, r.wstate, r.why, r.progress, r.wblock = true, frame, state, why, n1, block
	r.sig = fmt.Sprintf("%s|%s|%s|%d|%d\n%s\n--\n%s", frame, state, why, n1, ph1, wframes, cframes)
	return
}

type lifeOutcome struct {
	res          result
	inconclusive string
	cnt          *lifeCounters
	snapshots    int64
}

// runLife executes one batch. lookEvery / giveUp only decide when to look and when to give up.
func runLife(spec LifeSpec) lifeOutcome {
	const lookEvery = 200 * time.Millisecond
	const giveUp = 30 * time.Second
	out := lifeOutcome{cnt: &lifeCounters{}}
	var stop atomic.Bool
	var viol atomic.Pointer[lifeViolation]
	pairs := make([]*lifePair, spec.Pairs)
	for i := range pairs {
		pairs[i] = &lifePair{id: i, seed: uint64(spec.Seed)*0x9e3779b97f4a7c15 + uint64(i)*0x632be59bd9b4e019 + 1, n: spec.N,
			viol: &viol, stop: &stop, cnt: out.cnt}
		go pairs[i].consumer()
		go pairs[i].writer()
	}
	last := make([]int64, len(pairs))
	lastMove := make([]time.Time, len(pairs))
	for i := range last {
		last[i], lastMove[i] = -1, time.Now()
	}
	t := time.NewTicker(lookEvery)
	defer t.Stop()
	for {
		fin := true
		for _, p := range pairs {
			fin = fin && p.wfin.Load() && p.cfin.Load()
		}
		if fin || viol.Load() != nil {
			break
		}
		<-t.C
		for i, p := range pairs {
			if p.wfin.Load() && p.cfin.Load() {
				continue
			}
			if n := p.rounds.Load(); n != last[i] {
				last[i], lastMove[i] = n, time.Now()
				continue
			}
			out.snapshots++
			a := p.observe()
			if a.ok {
				runtime.Gosched()
				out.snapshots++
				if b := p.observe(); b.ok && a.sig == b.sig {
					prm := p.cur.Load().p
					obs := fmt.Sprintf("pair %d, lifetime %d (%s): two identical consecutive snapshots: writer goroutine parked in [%s] inside (*ProgressWriter).%s, consumer %s; nobody can ever wake it, the channel is never closed:\n%s",
						p.id, a.progress, prm, a.wstate, a.frame, a.why, clipStr(a.wblock, 1200))
					if a.cblock != "" {
						obs += "\nconsumer:\n" + clipStr(a.cblock, 700)
					}
					if a.frame == "left-open" {
						viol.CompareAndSwap(nil, &lifeViolation{life: a.progress, prm: prm, res: result{
							key: "close:channel-left-open:lifetime",
							exp: "Status() channel closed after Close() returned (range loop of the consumer ends)",
							obs: fmt.Sprintf("pair %d, lifetime %d (%s): Close() returned, two identical consecutive snapshots show the consumer parked in its range loop:\n%s", p.id, a.progress, prm, clipStr(a.wblock, 900))}})
						break
					}
					meth := a.frame
					if meth == "sum" {
						meth = "Write"
						if prm.Str {
							meth = "WriteString"
						}
					}
					viol.CompareAndSwap(nil, &lifeViolation{life: a.progress, prm: prm, res: result{
						key: fmt.Sprintf("blocked-in-%s:%s:consumer-%s:lifetime", a.frame, meth, a.why),
						exp: fmt.Sprintf("%s returns and the status channel gets closed (consumer %s)", meth, a.why),
						obs: obs}})
					break
				}
			}
			if time.Since(lastMove[i]) > giveUp {
				out.inconclusive = fmt.Sprintf("lifetime pair %d made no progress for %v at lifetime %d and is not classifiable as at rest", p.id, giveUp, last[i])
			}
		}
		if out.inconclusive != "" {
			break
		}
	}
	stop.Store(true)
	if v := viol.Load(); v != nil {
		out.res = v.res
		if !strings.Contains(out.res.obs, "lifetime ") || !strings.Contains(out.res.obs, "writerLag") {
			out.res.obs = fmt.Sprintf("lifetime %d (%s): %s", v.life, v.prm, out.res.obs)
		}
	}
	// give the spinning goroutines a moment to see the stop flag (parked ones of a refuted batch stay)
	for w := 0; w < 50; w++ {
		fin := true
		for _, p := range pairs {
			fin = fin && p.wfin.Load() && p.cfin.Load()
		}
		if fin {
			break
		}
		time.Sleep(2 * time.Millisecond)
	}
	return out
}
