// Monitor progress (C19): ioutil.ProgressWriter reports true, monotone progress and never
// stalls the writer.
//
// One scenario = one ProgressWriter around a scripted wrapped writer, one writer goroutine
// executing an op list of Write/WriteString calls followed by Close, and one consumer
// goroutine with a scripted behaviour (absent until Close, eager, slow, late start,
// stops-then-resumes). The wrapped writer keeps the ground truth (Σ of the byte counts it
// reported); the writer goroutine logs (n, err, Size()) after every call; the consumer logs
// every received value. The verdict is computed offline from the two logs after both
// goroutines were joined (see check()).
//
// Non-blocking is decided structurally, never from time: if a watchdog stage (0.5 s, 2 s, 10 s,
// then every 10 s while the writer still advances) finds the writer goroutine unfinished, two
// consecutive runtime.Stack(all) snapshots are taken. Violation iff both show the same at-rest
// state: the writer goroutine (looked up by its goroutine id) parked in a channel operation /
// select / lock whose innermost non-runtime frame is ioutil.(*ProgressWriter).sum, .Write or
// .WriteString, while the consumer is not started, paused (its start signal can only be fired
// by the writer) or itself parked receiving on the status channel; writer progress and consumer
// state identical before/after each snapshot. Nothing else touches the channel and no timer is
// armed, so nothing can ever wake the writer. Anything else after the last stage =>
// inconclusive. The watchdog only decides *when to look*.
//
// The same rule covers a writer parked inside (*ProgressWriter).Close in anything but a send
// (Close waiting in its send for a receiver is by design) while the consumer is parked receiving.
// Lifetime batches (life.go) sweep the alignment of the consumer's first receive against Close.
//
// "Long" scenarios (tens of thousands of 1..16 byte writes next to an eager consumer on >= 2 Ps)
// exist to hit narrow writer/consumer windows; they are stored compactly (LongN, LongSeed).
//
// See DESIGN.md §3 C19.
package main

import (
	"encoding/json"
	"errors"
	"fmt"
	"io"
	"reflect"
	"runtime"
	"strconv"
	"strings"
	"sync"
	"sync/atomic"
	"time"
	"unsafe"

	"github.com/whoisnian/glb/util/ioutil"

	"verif/internal/drv"
)

// ------------------------------------------------------------------------------- case

const (
	behFull     = iota // (len, nil)
	behShortErr        // (k < len, io.ErrShortWrite)
	behShortNil        // (k < len, nil)
	behFail0           // (0, errFail)
	behFailN           // (1..len, errFail)
)

var behNames = []string{"full", "shortErr", "shortNil", "fail0", "failN"}

var errFail = errors.New("verif: wrapped writer failed")

const maxSize = 1 << 20

// shared static payload: the wrapped writers never store data
var (
	bigBuf = make([]byte, maxSize)
	bigStr = strings.Repeat("glb-progress-16b", maxSize/16)
)

// hugeSize bounds the payload of the deep (thorough-only) scenarios: one zero-filled buffer that is
// never written nor stored, so it costs address space, not memory.
const hugeSize = 1<<26 + 64

var (
	hugeOnce sync.Once
	hugeBuf  []byte
)

func payloadB(n int) []byte {
	if n <= maxSize {
		return bigBuf[:n]
	}
	hugeOnce.Do(func() { hugeBuf = make([]byte, hugeSize) })
	return hugeBuf[:n]
}

func payloadS(n int) string {
	if n <= maxSize {
		return bigStr[:n]
	}
	return unsafe.String(&payloadB(n)[0], n)
}

// Op is one call of the writer goroutine.
type Op struct {
	Str   bool   `json:"str,omitempty"`   // WriteString instead of Write
	Size  int    `json:"size"`            // payload length
	Beh   int    `json:"beh,omitempty"`   // behaviour of the wrapped writer during this op
	Cut   uint32 `json:"cut,omitempty"`   // selects the short / partial count
	Yield int    `json:"yield,omitempty"` // runtime.Gosched() calls of the writer after the op (stimulus)
	Via   int    `json:"via,omitempty"`   // how the op is issued: viaDirect .. (callers.go)
	Block int    `json:"block,omitempty"` // > 0: the wrapped writer parks until a helper goroutine releases it after Block yields
}

// Consumer scripts the receiving side. Indices are op indices of the writer; a signal for
// index i fires immediately before op i is called (or when the op list is finished).
type Consumer struct {
	Kind     string `json:"kind"`      // absent | eager | slow | late | stopresume
	StartAt  int    `json:"start_at"`  // consumer starts receiving when the writer reaches this op
	PauseAt  int    `json:"pause_at"`  // -1: never; consumer stops receiving when the writer reaches this op
	ResumeAt int    `json:"resume_at"` // consumer resumes when the writer reaches this op
	Yields   int    `json:"yields"`    // runtime.Gosched() calls between two receives
	// deep scenarios: after every Burst receives the consumer is away for Gap yields; Refetch: it
	// asks for Status() again before every receive
	Burst   int  `json:"burst,omitempty"`
	Gap     int  `json:"gap,omitempty"`
	Refetch bool `json:"refetch,omitempty"`
	// Lazy: the consumer asks for the Status() channel only when it starts receiving (a consumer
	// that is absent until Close has then never touched the ProgressWriter before Close began).
	Lazy bool `json:"lazy,omitempty"`
	// DwellMs: once its start signal has fired the consumer stays away for that long before its first
	// receive (exposure only: a Close that gives up waiting for its receiver after some time shows
	// only when the receiver is that late; nothing is judged by the clock)
	DwellMs int `json:"dwell_ms,omitempty"`
}

// Case is one replayable scenario.
type Case struct {
	WKind string `json:"wkind"`               // label of the wrapped writer: full|shortErr|shortNil|fail0|failN|mixed
	SW    bool   `json:"sw"`                  // wrapped writer implements io.StringWriter
	RF    bool   `json:"rf,omitempty"`        // wrapped writer also implements io.ReaderFrom (deep scenarios)
	Prof  string `json:"profile,omitempty"`   // deep scenarios: history | pow2 | boundary | stream; "callers"
	OSW   string `json:"os_writer,omitempty"` // callers: wrapped writer backed by the OS (tmpfile, devnull, devfull, brokenpipe, pipequota)
	// wrapped writer has a Close method: "ok", "fail" (returns an error), "already" (the caller closed it
	// before pw.Close: a second Close fails, like a closed *os.File), "slow" (yields, then succeeds)
	Closer string   `json:"closer,omitempty"`
	Quota  int      `json:"quota,omitempty"` // pipequota: bytes the pipe's reader takes before it goes away
	Ops    []Op     `json:"ops"`
	Cons   Consumer `json:"consumer"`
	Procs  int      `json:"procs,omitempty"` // GOMAXPROCS the case was observed under (replay hint)
	// Long scenario: Ops is empty and stands for LongN writes of 1..16 bytes derived from LongSeed.
	LongN    int   `json:"long_n,omitempty"`
	LongSeed int64 `json:"long_seed,omitempty"`
	// Lifetime batch (life.go): everything else is empty.
	Life *LifeSpec `json:"life,omitempty"`
}

// expand returns the case with the op list of a long scenario materialised.
func (cs Case) expand() Case {
	if cs.LongN <= 0 || len(cs.Ops) > 0 {
		return cs
	}
	if cs.LongN > 1000000 {
		cs.LongN = 1000000
	}
	x := uint64(cs.LongSeed)*2862933555777941757 + 3037000493
	cs.Ops = make([]Op, cs.LongN)
	for i := range cs.Ops {
		x = x*6364136223846793005 + 1442695040888963407
		cs.Ops[i] = Op{Size: 1 + int(x>>60), Str: (x>>40)&1 == 1}
	}
	return cs
}

func (cs Case) nops() int {
	if len(cs.Ops) == 0 && cs.LongN > 0 {
		return cs.LongN
	}
	return len(cs.Ops)
}

func (o Op) method() string {
	if o.Via > 0 && o.Via < len(viaMethod) {
		return viaMethod[o.Via]
	}
	if o.Str {
		return "WriteString"
	}
	return "Write"
}

func swName(sw bool) string {
	if sw {
		return "sw"
	}
	return "nosw"
}

// ------------------------------------------------------------------------ wrapped writer

// sink is the scripted wrapped writer; it is only touched by the writer goroutine.
type sink struct {
	beh           int
	cut           uint32
	total         int   // Σ reported n: the ground truth for Size()
	prefix        []int // total after every call
	calls         int
	strCalls      int
	perBeh        [5]int
	closeKind     string
	closeCalls    int    // calls of the wrapped Close
	closeCallsLib int    // ... of which during pw.Close()
	inPwClose     bool   // the writer goroutine is inside pw.Close()
	opSize        int    // payload size of the op in flight (ReadFrom behaviours)
	scratch       []byte // ReadFrom chunk buffer
	block         int    // > 0: park in the next call until released (deep scenarios)
	blocked       int
	rfCalls       int
	lastBeh       int // effective behaviour of the last call
	lastN         int
	lastErr       error
}

func (s *sink) do(l int, viaString bool) (int, error) {
	if k := s.block; k > 0 {
		// a wrapped writer that blocks: the writer goroutine is parked inside the wrapped Write
		// (not inside glb) until a helper lets it go
		s.block = 0
		s.blocked++
		gate := make(chan struct{})
		go func() {
			for i := 0; i < k; i++ {
				runtime.Gosched()
			}
			close(gate)
		}()
		<-gate
	}
	s.calls++
	if viaString {
		s.strCalls++
	}
	n, err, eff := l, error(nil), behFull
	switch s.beh {
	case behShortErr:
		if l > 0 {
			n, err, eff = int(s.cut%uint32(l)), io.ErrShortWrite, behShortErr
		}
	case behShortNil:
		if l > 0 {
			n, eff = int(s.cut%uint32(l)), behShortNil
		}
	case behFail0:
		n, err, eff = 0, errFail, behFail0
	case behFailN:
		if l > 0 {
			n, err, eff = 1+int(s.cut%uint32(l)), errFail, behFailN
		} else {
			n, err, eff = 0, errFail, behFail0
		}
	}
	s.calls--
	if viaString {
		s.strCalls--
	}
	s.account(n, err, eff, viaString)
	return n, err
}

// account records one result the wrapped writer reported (the ground truth).
func (s *sink) account(n int, err error, eff int, viaString bool) {
	s.calls++
	if viaString {
		s.strCalls++
	}
	s.total += n
	s.prefix = append(s.prefix, s.total)
	s.perBeh[eff]++
	s.lastBeh, s.lastN, s.lastErr = eff, n, err
}

type sinkW struct{ s *sink } // io.Writer only

func (w sinkW) Write(p []byte) (int, error) { return w.s.do(len(p), false) }

type sinkSW struct{ s *sink } // io.Writer + io.StringWriter

func (w sinkSW) Write(p []byte) (int, error)       { return w.s.do(len(p), false) }
func (w sinkSW) WriteString(x string) (int, error) { return w.s.do(len(x), true) }

type sinkRF struct{ s *sink } // io.Writer + io.ReaderFrom

func (w sinkRF) Write(p []byte) (int, error)         { return w.s.do(len(p), false) }
func (w sinkRF) ReadFrom(r io.Reader) (int64, error) { return w.s.readFrom(r) }

type sinkSWRF struct{ s *sink } // io.Writer + io.StringWriter + io.ReaderFrom

func (w sinkSWRF) Write(p []byte) (int, error)         { return w.s.do(len(p), false) }
func (w sinkSWRF) WriteString(x string) (int, error)   { return w.s.do(len(x), true) }
func (w sinkSWRF) ReadFrom(r io.Reader) (int64, error) { return w.s.readFrom(r) }

var errClose = errors.New("verif: wrapped writer failed to close")

// closed records a call of the wrapped writer's Close and says what it returns.
func (s *sink) closed() error {
	s.closeCalls++
	if s.inPwClose {
		s.closeCallsLib++
	}
	switch s.closeKind {
	case "fail":
		return errClose
	case "already":
		if s.closeCalls > 1 {
			return errClose
		}
	case "slow":
		for i := 0; i < 20; i++ {
			runtime.Gosched()
		}
	}
	return nil
}

type closerMixin struct{ c *sink }

func (m closerMixin) Close() error { return m.c.closed() }

// the scripted wrapped writers with a Close method
type sinkWC struct {
	sinkW
	closerMixin
}
type sinkSWC struct {
	sinkSW
	closerMixin
}
type sinkRFC struct {
	sinkRF
	closerMixin
}
type sinkSWRFC struct {
	sinkSWRF
	closerMixin
}

// closePW calls pw.Close() whatever its signature is (Close() today; Close() error would compile too).
func closePW(pw any) (err error, returnsError bool) {
	switch c := pw.(type) {
	case interface{ Close() error }:
		return c.Close(), true
	case interface{ Close() }:
		c.Close()
	}
	return nil, false
}

// ---------------------------------------------------------------------------- scenario

type opLog struct {
	n      int   // returned by the ProgressWriter
	err    error // returned by the ProgressWriter
	size   int   // Size() after the call
	sum    int   // Σ n reported by the wrapped writer so far (ground truth)
	beh    int   // effective behaviour of the (last) wrapped call of this op
	wn     int   // n reported by the (last) wrapped call
	werr   error
	wcalls int // wrapped calls made during this op
}

const (
	csNotStarted int32 = iota
	csWaitStart
	csRecv
	csPaused
	csDone
)

var csNames = []string{"not-started", "waiting-for-start", "receiving", "paused", "done"}

type scen struct {
	cs Case
	pw *ioutil.ProgressWriter
	ch chan int
	sk *sink

	long            bool
	wrapped         io.Writer
	closeErr        error // what pw.Close() returned, if it returns anything
	closeReturnsErr bool
	stuckRecv       bool         // the writer was found parked in a receive/select/lock inside a write
	lazyCh          atomic.Value // chan int obtained by a lazy consumer (read by release())

	startSig, pauseSig, resumeSig chan struct{}
	writerDone, consumerDone      chan struct{}

	// read by the watchdog only
	wgid, cgid                             atomic.Int64
	progress                               atomic.Int64 // op in flight; len(ops) when the op list is finished
	startFired, resumeFired, closeReturned atomic.Bool
	cstate                                 atomic.Int32

	// owned by the writer goroutine, read after writerDone
	size0, sizeAfterClose int
	logs                  []opLog
	wpanic                any
	wpanicAt              string

	// owned by the consumer goroutine, read after consumerDone
	recv         []int
	recvBefore   int // values received before the pause
	pausedAtAll  bool
	sawClosed    bool
	nilStatus    bool
	startedCount int
}

func goid() int64 {
	var b [64]byte
	n := runtime.Stack(b[:], false)
	s := string(b[:n])
	s = strings.TrimPrefix(s, "goroutine ")
	if i := strings.IndexByte(s, ' '); i > 0 {
		id, _ := strconv.ParseInt(s[:i], 10, 64)
		return id
	}
	return -1
}

func (s *scen) fire(ch chan struct{}, flag *atomic.Bool, done *bool) {
	if !*done {
		*done = true
		if flag != nil {
			flag.Store(true)
		}
		close(ch)
	}
}

func writerLoop(s *scen) {
	defer close(s.writerDone)
	s.wgid.Store(goid())
	var startDone, pauseDone, resumeDone bool
	where := "Size"
	defer func() {
		if r := recover(); r != nil {
			s.wpanic, s.wpanicAt = r, where
		}
		// release the consumer on every path
		s.fire(s.startSig, &s.startFired, &startDone)
		s.fire(s.resumeSig, &s.resumeFired, &resumeDone)
	}()
	pw, cs := s.pw, s.cs
	s.size0 = pw.Size()
	for i, op := range cs.Ops {
		if i >= cs.Cons.StartAt {
			s.fire(s.startSig, &s.startFired, &startDone)
		}
		if cs.Cons.PauseAt >= 0 && i >= cs.Cons.PauseAt {
			s.fire(s.pauseSig, nil, &pauseDone)
		}
		if cs.Cons.PauseAt >= 0 && i >= cs.Cons.ResumeAt {
			s.fire(s.resumeSig, &s.resumeFired, &resumeDone)
		}
		s.progress.Store(int64(i))
		s.sk.beh, s.sk.cut, s.sk.block = op.Beh, op.Cut, op.Block
		c0 := s.sk.calls
		s.sk.opSize = op.Size
		n, err := s.issue(op, &where)
		where = "Size"
		s.logs = append(s.logs, opLog{n: n, err: err, size: pw.Size(), sum: s.sk.total,
			beh: s.sk.lastBeh, wn: s.sk.lastN, werr: s.sk.lastErr, wcalls: s.sk.calls - c0})
		for y := 0; y < op.Yield; y++ {
			runtime.Gosched()
		}
	}
	s.progress.Store(int64(len(cs.Ops)))
	// Close does a blocking send by design: from here on a consumer is (or will be) receiving.
	s.fire(s.startSig, &s.startFired, &startDone)
	s.fire(s.resumeSig, &s.resumeFired, &resumeDone)
	where = "Close"
	if cs.Closer == "already" {
		if c, ok := s.wrapped.(io.Closer); ok {
			c.Close() // the caller's own Close: the wrapped writer is closed before pw.Close()
		}
	}
	s.sk.inPwClose = true
	s.closeErr, s.closeReturnsErr = closePW(pw)
	s.sk.inPwClose = false
	s.closeReturned.Store(true)
	where = "Size"
	s.sizeAfterClose = pw.Size()
}

func consumerLoop(s *scen) {
	defer close(s.consumerDone)
	defer s.cstate.Store(csDone)
	s.cgid.Store(goid())
	s.cstate.Store(csWaitStart)
	<-s.startSig
	if d := s.cs.Cons.DwellMs; d > 0 {
		time.Sleep(time.Duration(d) * time.Millisecond)
	}
	s.cstate.Store(csRecv)
	ch, y := s.ch, s.cs.Cons.Yields
	if s.cs.Cons.Lazy {
		ch = s.pw.Status()
		s.lazyCh.Store(ch)
	}
	burst, gap, refetch, got := s.cs.Cons.Burst, s.cs.Cons.Gap, s.cs.Cons.Refetch, 0
	away := func() {
		for i := 0; i < y; i++ {
			runtime.Gosched()
		}
		if burst > 0 {
			if got++; got%burst == 0 {
				for i := 0; i < gap; i++ {
					runtime.Gosched()
				}
			}
		}
	}
	if s.cs.Cons.PauseAt >= 0 {
	phase1:
		for {
			if refetch {
				ch = s.pw.Status()
			}
			select {
			case v, ok := <-ch:
				if !ok {
					s.sawClosed = true
					return
				}
				s.recv = append(s.recv, v)
				s.recvBefore++
				away()
			case <-s.pauseSig:
				break phase1
			}
		}
		s.pausedAtAll = true
		s.cstate.Store(csPaused)
		<-s.resumeSig
		s.cstate.Store(csRecv)
	}
	for {
		if refetch {
			ch = s.pw.Status()
		}
		v, ok := <-ch
		if !ok {
			s.sawClosed = true
			return
		}
		s.recv = append(s.recv, v)
		away()
	}
}

// ------------------------------------------------------------------- structural watchdog

func snapshot() string {
	n := 1 << 20
	for {
		buf := make([]byte, n)
		m := runtime.Stack(buf, true)
		if m < n {
			return string(buf[:m])
		}
		n *= 2
	}
}

// findG returns the wait state and the stack block of goroutine id in a runtime.Stack(all) dump.
func findG(dump string, id int64) (state, block string, ok bool) {
	hdr := "goroutine " + strconv.FormatInt(id, 10) + " ["
	from := 0
	for {
		j := strings.Index(dump[from:], hdr)
		if j < 0 {
			return "", "", false
		}
		j += from
		if j == 0 || dump[j-1] == '\n' {
			block = dump[j:]
			if e := strings.Index(block, "\n\n"); e >= 0 {
				block = block[:e]
			}
			st := block[len(hdr):]
			if e := strings.IndexByte(st, ']'); e >= 0 {
				st = st[:e]
			}
			return st, block, true
		}
		from = j + 1
	}
}

var stages = []time.Duration{500 * time.Millisecond, 1500 * time.Millisecond, 8 * time.Second}

type result struct {
	key, exp, obs string
	inconclusive  string
}

func clipStr(s string, n int) string {
	if len(s) > n {
		return s[:n] + "…"
	}
	return s
}

// noConsumer reports whether the consumer is, by construction, not receiving and cannot start
// to receive unless the writer goroutine makes progress.
func (s *scen) noConsumer() (string, bool) {
	switch s.cstate.Load() {
	case csWaitStart:
		if !s.startFired.Load() {
			return "absent", true
		}
	case csPaused:
		if !s.resumeFired.Load() {
			return "paused", true
		}
	}
	return "", false
}

// parked reports whether a goroutine wait state of a dump is a parked state that only another
// goroutine can end (channel operation, select, lock) - not running/runnable/sleep/syscall/IO wait.
func parked(state string) bool {
	for _, p := range []string{"chan send", "chan receive", "select", "semacquire", "sync."} {
		if strings.HasPrefix(state, p) {
			return true
		}
	}
	return false
}

// site returns the innermost non-runtime function of a goroutine block and the block without
// its header line (the header carries a wait duration that may change between two snapshots).
func site(block string) (fn, frames string) {
	if i := strings.IndexByte(block, '\n'); i >= 0 {
		frames = block[i+1:]
	}
	for _, ln := range strings.Split(frames, "\n") {
		if ln == "" || ln[0] == '\t' {
			continue
		}
		if strings.HasPrefix(ln, "runtime.") || strings.HasPrefix(ln, "sync.") || strings.HasPrefix(ln, "internal/") || strings.HasPrefix(ln, "sync/atomic.") {
			continue
		}
		if i := strings.LastIndexByte(ln, '('); i > 0 {
			ln = ln[:i]
		}
		return ln, frames
	}
	return "", frames
}

const pwPrefix = "github.com/whoisnian/glb/util/ioutil.(*ProgressWriter)."

// rest is one structural observation of the scenario's two goroutines.
type rest struct {
	ok       bool   // writer parked inside sum/Write/WriteString and the consumer cannot help: at rest
	sig      string // everything that has to be identical in two consecutive observations
	frame    string // sum | Write | WriteString
	wstate   string
	why      string // absent | paused | parked-receiving
	progress int64
	wblock   string
	cblock   string
}

// observe takes one stop-the-world snapshot and decides whether the scenario is at rest with
// the writer goroutine parked inside a ProgressWriter write: the writer is parked in a channel
// operation / select / lock whose innermost non-runtime frame is (*ProgressWriter).sum, .Write
// or .WriteString, and the consumer is not started, paused (the signal that would start it can
// only be fired by the writer) or itself parked receiving on the status channel. Nothing else
// touches the channel and no timer is armed, so no transition can ever happen.
func (s *scen) observe() (r rest, wstate, wblock string) {
	why1, no1 := s.noConsumer()
	c1, p1 := s.cstate.Load(), s.progress.Load()
	dump := snapshot()
	why2, no2 := s.noConsumer()
	c2, p2 := s.cstate.Load(), s.progress.Load()
	state, block, ok := findG(dump, s.wgid.Load())
	if !ok {
		return r, "", ""
	}
	wstate, wblock = state, block
	if c1 != c2 || p1 != p2 || no1 != no2 || why1 != why2 || !parked(state) {
		return
	}
	fn, wframes := site(block)
	if !strings.HasPrefix(fn, pwPrefix) {
		return
	}
	frame := strings.TrimPrefix(fn, pwPrefix)
	switch frame {
	case "sum", "Write", "WriteString":
		if int(p1) >= len(s.cs.Ops) {
			return
		}
	case "Close":
		// Close parked in its send while nobody receives is by design. Close parked in anything
		// but a send (a receive, a select, a lock) while the consumer is itself parked receiving
		// on the status channel is at rest for ever: the total is never delivered.
		if strings.HasPrefix(state, "chan send") || no1 {
			return
		}
	default:
		return
	}
	why, cframes := why1, ""
	if !no1 {
		if c1 != csRecv {
			return
		}
		cstate, cblock, cok := findG(dump, s.cgid.Load())
		if !cok || !(strings.HasPrefix(cstate, "chan receive") || strings.HasPrefix(cstate, "select")) {
			return
		}
		var cfn string
		cfn, cframes = site(cblock)
		if cfn != "main.consumerLoop" {
			return
		}
		why = "parked-receiving"
		r.cblock = cblock
	}
	if i := strings.IndexByte(state, ','); i >= 0 {
		state = state[:i]
	}
	r.ok, r.frame, r.wstate, r.why, r.progress, r.wblock = true, frame, state, why, p1, block
	r.sig = fmt.Sprintf("%s|%s|%s|%d|%d\n%s\n--\n%s", frame, state, why, p1, c1, wframes, cframes)
	return
}

// awaitWriter waits for the writer goroutine (op list + Close). The timer only decides when to
// look; the verdict comes from two identical consecutive observations of an at-rest state.
func (s *scen) awaitWriter(st *stats) (res result, joined bool) {
	// a consumer that stays away on purpose (DwellMs) keeps the writer parked in Close by design: the
	// last look is taken after the dwell has ended
	stages := append([]time.Duration(nil), stages...)
	stages[len(stages)-1] += time.Duration(s.cs.Cons.DwellMs) * time.Millisecond
	t := time.NewTimer(stages[0])
	defer t.Stop()
	var lastState, lastBlock string
	lastProgress := int64(-1)
	for i, extra := 0, 0; i < len(stages)+extra; i++ {
		if i > 0 {
			d := stages[len(stages)-1]
			if i < len(stages) {
				d = stages[i]
			}
			t.Reset(d)
		}
		select {
		case <-s.writerDone:
			return result{}, true
		case <-t.C:
		}
		st.snapshots++
		a, wstate, wblock := s.observe()
		lastState, lastBlock = wstate, wblock
		if a.ok {
			runtime.Gosched()
			st.snapshots++
			b, _, _ := s.observe()
			if b.ok && a.sig == b.sig {
				op := Op{}
				meth := "Close"
				if int(a.progress) < len(s.cs.Ops) {
					op = s.cs.Ops[a.progress]
					meth = op.method()
				}
				obs := fmt.Sprintf("two identical consecutive snapshots: writer goroutine parked in [%s] inside (*ProgressWriter).%s at op %d of %d, consumer %s; nobody can ever wake it:\n%s",
					a.wstate, a.frame, a.progress, len(s.cs.Ops), a.why, clipStr(a.wblock, 1500))
				s.stuckRecv = !strings.HasPrefix(a.wstate, "chan send")
				if a.cblock != "" {
					obs += "\nconsumer:\n" + clipStr(a.cblock, 800)
				}
				return result{
					key: fmt.Sprintf("blocked-in-%s:%s:consumer-%s", a.frame, meth, a.why),
					exp: fmt.Sprintf("op %d %s(%d bytes) returns whatever the consumer does (consumer %s)", a.progress, meth, op.Size, a.why),
					obs: obs,
				}, false
			}
		}
		// a writer that still advances is slow (loaded machine, long scenario), not stuck: keep waiting
		if p := s.progress.Load(); i == len(stages)+extra-1 && p != lastProgress && extra < 12 {
			extra++
		}
		lastProgress = s.progress.Load()
	}
	return result{inconclusive: fmt.Sprintf("writer goroutine unfinished after the last watchdog stage at op %d/%d, state [%s], consumer %s, not classifiable as at rest inside a write: %s",
		s.progress.Load(), len(s.cs.Ops), lastState, csNames[s.cstate.Load()], clipStr(lastBlock, 600))}, false
}

// awaitConsumer waits for the consumer's range loop to end after Close returned.
func (s *scen) awaitConsumer(st *stats) (res result, joined bool) {
	t := time.NewTimer(stages[0])
	defer t.Stop()
	var lastState, lastBlock string
	for i := range stages {
		if i > 0 {
			t.Reset(stages[i])
		}
		select {
		case <-s.consumerDone:
			return result{}, true
		case <-t.C:
		}
		st.snapshots++
		c1 := s.cstate.Load()
		dump := snapshot()
		c2 := s.cstate.Load()
		state, block, ok := findG(dump, s.cgid.Load())
		lastState, lastBlock = state, block
		if !ok {
			continue
		}
		// The writer goroutine has returned from Close and ended: there is no sender left. A
		// consumer parked in a receive on the status channel proves the channel was not closed.
		if s.closeReturned.Load() && c1 == csRecv && c2 == csRecv && (strings.HasPrefix(state, "chan receive") || strings.HasPrefix(state, "select")) &&
			strings.Contains(block, "main.consumerLoop(") {
			return result{
				key: "close:channel-left-open",
				exp: "Status() channel closed after Close() returned (range loop of the consumer ends)",
				obs: "Close() returned, writer goroutine ended, consumer still parked in [" + state + "]:\n" + clipStr(block, 1200),
			}, false
		}
	}
	return result{inconclusive: fmt.Sprintf("consumer goroutine unfinished 10 s after Close returned=%v, state [%s] %s: %s",
		s.closeReturned.Load(), lastState, csNames[s.cstate.Load()], clipStr(lastBlock, 600))}, false
}

// release lets whatever is still parked run to its end (best effort; goroutines of a refuted
// scenario may leak otherwise).
func (s *scen) release() {
	if s.stuckRecv {
		return // the refuted writer waits for a value nobody sends; draining cannot help it
	}
	if s.ch == nil {
		if v, ok := s.lazyCh.Load().(chan int); ok {
			s.ch = v
		} else if s.pw != nil {
			s.ch = s.pw.Status()
		}
	}
	if s.ch == nil {
		return
	}
	stop := make(chan struct{})
	go func() {
		for {
			select {
			case _, ok := <-s.ch:
				if !ok {
					return
				}
			case <-stop:
				return
			}
		}
	}()
	t := time.NewTimer(2 * time.Second)
	defer t.Stop()
	select {
	case <-s.writerDone:
	case <-t.C:
		close(stop)
		return
	}
	// writer ended; if the channel was left open the consumer needs a close
	select {
	case <-s.consumerDone:
	case <-time.After(200 * time.Millisecond):
		func() {
			defer func() { recover() }()
			close(s.ch)
		}()
		select {
		case <-s.consumerDone:
		case <-time.After(2 * time.Second):
		}
	}
	close(stop)
}

// ------------------------------------------------------------------------------ runner

type stats struct {
	ops, wrappedCalls, wrappedStrCalls      int64
	perBeh                                  [5]int64
	bytesReported                           int64
	sizeChecks                              int64
	received, intermediate, dropped         int64
	scen, scenInter                         int64
	scenKind, scenKindInter                 map[string]int64
	opsBeforeStart, opsInPauseNominal       int64
	scenWriterFinishedWithoutConsumer       int64
	stopResumeBoth                          int64
	recvBeforePause, recvAfterResume        int64
	snapshots, retries, passthroughMismatch int64
	maxRecv, maxOps                         int64
	strOpsSW, strOpsPlain                   int64
	scenLong, longOps, longInter            int64
	afterCloseProbes, afterCloseSame        int64
	afterCloseTotal0                        int64
	closerScen                              map[string]int64
	libCloseCalls, closerNotCalled          int64
	pwCloseErr                              int64
	// deep (thorough-only) coverage
	maxTotal, crossed31, crossed32, boundaryHits, recvAbove31 int64
	via                                                       [viaCount]int64
	osScen                                                    map[string]int64
	rfPathOps                                                 int64
	blockedCalls, rfCalls, burstyScen, refetchScen, lazyScen  int64
	rfScen, multiCallOps                                      int64
	prof                                                      map[string]int64
	sizes                                                     map[int]struct{}
	patterns                                                  map[uint64]struct{}
}

func newStats() *stats {
	return &stats{scenKind: map[string]int64{}, scenKindInter: map[string]int64{}, patterns: map[uint64]struct{}{},
		prof: map[string]int64{}, sizes: map[int]struct{}{}, osScen: map[string]int64{}, closerScen: map[string]int64{}}
}

func errStr(e error) string {
	if e == nil {
		return "nil"
	}
	return e.Error()
}

func fmtRecv(r []int) string {
	var sb strings.Builder
	sb.WriteByte('[')
	for i, v := range r {
		if i > 0 {
			sb.WriteByte(' ')
		}
		if i >= 60 {
			fmt.Fprintf(&sb, "… %d values in total", len(r))
			break
		}
		sb.WriteString(strconv.Itoa(v))
	}
	sb.WriteByte(']')
	return sb.String()
}

// runOnce executes one scenario.
func runOnce(cs Case, st *stats) (res result) {
	long := cs.LongN > 0 && len(cs.Ops) == 0
	cs = cs.expand()
	for i := range cs.Ops {
		if cs.Ops[i].Size < 0 || cs.Ops[i].Size > hugeSize || cs.Ops[i].Beh < 0 || cs.Ops[i].Beh > behFailN || cs.Ops[i].Via < 0 || cs.Ops[i].Via >= viaCount {
			return result{inconclusive: fmt.Sprintf("malformed case: op %d out of range", i)}
		}
	}
	s := &scen{cs: cs, sk: &sink{}, long: long}
	s.startSig, s.pauseSig, s.resumeSig = make(chan struct{}), make(chan struct{}), make(chan struct{})
	s.writerDone, s.consumerDone = make(chan struct{}), make(chan struct{})
	s.logs = make([]opLog, 0, len(cs.Ops))
	var w io.Writer = sinkW{s.sk}
	switch {
	case cs.SW && cs.RF:
		w = sinkSWRF{s.sk}
	case cs.RF:
		w = sinkRF{s.sk}
	case cs.SW:
		w = sinkSW{s.sk}
	}
	if cs.Closer != "" {
		s.sk.closeKind = cs.Closer
		m := closerMixin{s.sk}
		switch {
		case cs.SW && cs.RF:
			w = sinkSWRFC{sinkSWRF{s.sk}, m}
		case cs.RF:
			w = sinkRFC{sinkRF{s.sk}, m}
		case cs.SW:
			w = sinkSWC{sinkSW{s.sk}, m}
		default:
			w = sinkWC{sinkW{s.sk}, m}
		}
	}
	if cs.OSW != "" {
		ow, cleanup, err := openOSSink(cs.OSW, cs.Quota, s.sk, cs.Closer != "")
		if err != nil {
			return result{inconclusive: "cannot open the OS-backed wrapped writer: " + err.Error()}
		}
		defer cleanup()
		w = ow
	}
	s.wrapped = w
	func() {
		defer func() {
			if r := recover(); r != nil {
				res = result{key: "panic:NewProgressWriter", exp: "no panic", obs: fmt.Sprintf("panic: %v", r)}
			}
		}()
		s.pw = ioutil.NewProgressWriter(w)
		if !cs.Cons.Lazy {
			s.ch = s.pw.Status()
		}
	}()
	if res.key != "" {
		return res
	}
	if s.ch == nil && !cs.Cons.Lazy {
		return result{key: "status:nil-channel", exp: "Status() returns the channel progress is sent to", obs: "nil channel"}
	}
	go consumerLoop(s)
	go writerLoop(s)

	r, joined := s.awaitWriter(st)
	if !joined {
		s.release()
		return r
	}
	if s.wpanic != nil {
		s.release()
		return result{key: "panic:" + s.wpanicAt, exp: "no panic out of ProgressWriter." + s.wpanicAt, obs: fmt.Sprintf("panic: %v", s.wpanic)}
	}
	r, joined = s.awaitConsumer(st)
	if !joined {
		s.release()
		return r
	}
	return s.check(st)
}

// check is the offline oracle over the joined logs.
func (s *scen) check(st *stats) result {
	cs := s.cs
	total := s.sk.total
	// (1) Size() == Σ n reported by the wrapped writer, after every call
	st.sizeChecks++
	if s.size0 != 0 {
		return result{key: "size:initial", exp: "Size()=0 before the first write", obs: fmt.Sprintf("Size()=%d", s.size0)}
	}
	for i, l := range s.logs {
		st.sizeChecks++
		if l.size != l.sum {
			op := cs.Ops[i]
			return result{
				key: fmt.Sprintf("size:%s:%s:%s", op.method(), swName(cs.SW), behNames[l.beh]),
				exp: fmt.Sprintf("Size()=%d (= Σ n reported by the wrapped writer) after op %d %s(%d bytes)", l.sum, i, op.method(), op.Size),
				obs: fmt.Sprintf("Size()=%d; wrapped writer (%s, %d call(s) in this op) reported n=%d err=%s; ProgressWriter returned n=%d err=%s",
					l.size, swName(cs.SW), l.wcalls, l.wn, errStr(l.werr), l.n, errStr(l.err)),
			}
		}
		if cs.Ops[i].Via <= viaIOWriteStr && (l.n != l.wn || l.err != l.werr) {
			st.passthroughMismatch++ // not part of the statement: counted, not judged
		}
	}
	st.sizeChecks++
	if s.sizeAfterClose != total {
		return result{key: "size:after-close", exp: fmt.Sprintf("Size()=%d after Close", total), obs: fmt.Sprintf("Size()=%d", s.sizeAfterClose)}
	}
	// (2) received values: non-decreasing, each a prefix sum after a completed write
	allowed := make(map[int]int, len(s.sk.prefix)+1) // value -> first wrapped call index
	for i, p := range s.sk.prefix {
		if _, ok := allowed[p]; !ok {
			allowed[p] = i
		}
	}
	if _, ok := allowed[total]; !ok {
		allowed[total] = len(s.sk.prefix) // empty op list: the only legal value is the total 0
	}
	for j, v := range s.recv {
		if j > 0 && v < s.recv[j-1] {
			return result{key: "recv:decreasing", exp: "received values non-decreasing",
				obs: fmt.Sprintf("value #%d = %d after %d; received %s", j, v, s.recv[j-1], fmtRecv(s.recv))}
		}
		if _, ok := allowed[v]; !ok {
			return result{key: "recv:not-a-prefix-sum", exp: "every received value equals Σ n after some completed write",
				obs: fmt.Sprintf("value #%d = %d is none of the %d prefix sums (total %d); received %s", j, v, len(s.sk.prefix), total, fmtRecv(s.recv))}
		}
	}
	// (3) after Close: last value == total, channel closed
	if len(s.recv) == 0 {
		return result{key: "close:no-final-value", exp: fmt.Sprintf("last value received after Close() is the total %d", total),
			obs: fmt.Sprintf("channel closed without any value received (consumer %s, %d ops)", cs.Cons.Kind, len(cs.Ops))}
	}
	if last := s.recv[len(s.recv)-1]; last != total {
		return result{key: "close:last-not-total", exp: fmt.Sprintf("last value received after Close() is the total %d", total),
			obs: fmt.Sprintf("last value %d; received %s (consumer %s)", last, fmtRecv(s.recv), cs.Cons.Kind)}
	}
	if !s.sawClosed {
		return result{key: "close:channel-left-open", exp: "range loop over Status() ends after Close()", obs: "consumer ended without seeing the channel closed"}
	}
	// (4) Close() has returned and the consumer has drained the channel to its end: whoever asks for
	// Status() now - again, for the first time, from several goroutines - gets a channel that is
	// closed. Decided by a non-blocking receive (a nil or open channel takes the default branch).
	if r := s.probeAfterClose(st); r.key != "" {
		return r
	}

	// observations
	nops := int64(len(cs.Ops))
	inter := int64(len(s.recv) - 1)
	st.scen++
	st.ops += nops
	st.wrappedCalls += int64(s.sk.calls)
	st.wrappedStrCalls += int64(s.sk.strCalls)
	for b, n := range s.sk.perBeh {
		st.perBeh[b] += int64(n)
	}
	for _, o := range cs.Ops {
		if o.Str && cs.SW {
			st.strOpsSW++
		} else if o.Str {
			st.strOpsPlain++
		}
	}
	st.bytesReported += int64(total)
	st.received += int64(len(s.recv))
	st.intermediate += inter
	if d := nops - inter; d > 0 {
		st.dropped += d
	}
	st.scenKind[cs.Cons.Kind]++
	if inter > 0 {
		st.scenInter++
		st.scenKindInter[cs.Cons.Kind]++
	}
	before := int64(cs.Cons.StartAt)
	if before > nops {
		before = nops
	}
	st.opsBeforeStart += before
	if before == nops && nops > 0 {
		st.scenWriterFinishedWithoutConsumer++
	}
	if s.pausedAtAll {
		hi := int64(cs.Cons.ResumeAt)
		if hi > nops {
			hi = nops
		}
		if d := hi - int64(cs.Cons.PauseAt); d > 0 {
			st.opsInPauseNominal += d
		}
		st.recvBeforePause += int64(s.recvBefore)
		after := int64(len(s.recv)-s.recvBefore) - 1
		if after > 0 {
			st.recvAfterResume += after
		}
		if s.recvBefore > 0 && after > 0 {
			st.stopResumeBoth++
		}
	}
	if int64(len(s.recv)) > st.maxRecv {
		st.maxRecv = int64(len(s.recv))
	}
	if nops > st.maxOps {
		st.maxOps = nops
	}
	if cs.Prof != "" {
		s.deepStats(st, total)
	}
	if cs.Closer != "" {
		st.closerScen[cs.Closer]++
		st.libCloseCalls += int64(s.sk.closeCallsLib)
		if s.sk.closeCallsLib == 0 {
			st.closerNotCalled++
		}
	}
	if s.closeErr != nil {
		st.pwCloseErr++
	}
	if s.long {
		st.scenLong++
		st.longOps += nops
		st.longInter += inter
	} else if len(st.patterns) < 200000 {
		// which sends were taken: consumer kind + indices of the wrapped calls whose sums arrived
		var sb strings.Builder
		sb.WriteString(cs.Cons.Kind)
		for _, v := range s.recv {
			sb.WriteByte(',')
			sb.WriteString(strconv.Itoa(allowed[v]))
		}
		st.patterns[drv.HashStr(sb.String())] = struct{}{}
	}
	return result{}
}

var boundaryValues = func() map[int]bool {
	m := map[int]bool{}
	for _, t := range []int{1 << 31, 1 << 32, 1 << 33} {
		m[t-1], m[t], m[t+1] = true, true, true
	}
	return m
}()

// deepStats records what the deep scenarios add to the coverage (observations only).
func (s *scen) deepStats(st *stats, total int) {
	cs := s.cs
	st.prof[cs.Prof]++
	if int64(total) > st.maxTotal {
		st.maxTotal = int64(total)
	}
	if total >= 1<<31 {
		st.crossed31++
	}
	if total >= 1<<32 {
		st.crossed32++
	}
	for _, p := range s.sk.prefix {
		if boundaryValues[p] {
			st.boundaryHits++
		}
	}
	for _, v := range s.recv {
		if v >= 1<<31 {
			st.recvAbove31++
		}
	}
	for i, o := range cs.Ops {
		st.via[o.Via]++
		if len(st.sizes) < 200000 {
			st.sizes[o.Size] = struct{}{}
		}
		if s.logs[i].wcalls > 1 {
			st.multiCallOps++
		}
	}
	st.blockedCalls += int64(s.sk.blocked)
	st.rfCalls += int64(s.sk.rfCalls)
	if cs.Cons.Burst > 0 {
		st.burstyScen++
	}
	if cs.Cons.Refetch {
		st.refetchScen++
	}
	if cs.Cons.Lazy {
		st.lazyScen++
	}
	if cs.RF {
		st.rfScen++
	}
	if cs.OSW != "" {
		st.osScen[cs.OSW]++
	}
}

// probeClosed is the structural test "this channel is closed": a non-blocking receive.
func probeClosed(ch chan int) string {
	if ch == nil {
		return "nil"
	}
	select {
	case v, ok := <-ch:
		if ok {
			return fmt.Sprintf("delivers-value (%d)", v)
		}
		return ""
	default:
		return "open"
	}
}

func afterCloseResult(why, who string, total int) result {
	k := why
	if i := strings.IndexByte(k, ' '); i >= 0 {
		k = k[:i]
	}
	return result{key: "close:status-after-close:" + k,
		exp: "Status() called after Close() returned yields a closed channel (a receive returns ok=false at once)",
		obs: fmt.Sprintf("%s: non-blocking receive on the channel Status() returned after Close(): %s (total %d)", who, why, total)}
}

// probeAfterClose: the harness goroutine asks twice, two fresh goroutines ask concurrently.
func (s *scen) probeAfterClose(st *stats) (res result) {
	defer func() {
		if r := recover(); r != nil {
			res = result{key: "panic:Status", exp: "no panic out of ProgressWriter.Status", obs: fmt.Sprintf("panic: %v", r)}
		}
	}()
	held := s.ch
	if v, ok := s.lazyCh.Load().(chan int); ok && held == nil {
		held = v
	}
	for i := 0; i < 2; i++ {
		ch := s.pw.Status()
		st.afterCloseProbes++
		if ch == held {
			st.afterCloseSame++
		}
		if why := probeClosed(ch); why != "" {
			return afterCloseResult(why, fmt.Sprintf("consumer asking again (call %d)", i+1), s.sk.total)
		}
	}
	var whys [2]string
	var wg sync.WaitGroup
	for g := range whys {
		wg.Add(1)
		go func(g int) {
			defer wg.Done()
			defer func() {
				if r := recover(); r != nil {
					whys[g] = fmt.Sprintf("panic: %v", r)
				}
			}()
			whys[g] = probeClosed(s.pw.Status())
		}(g)
	}
	wg.Wait()
	st.afterCloseProbes += 2
	for g, why := range whys {
		if why != "" {
			return afterCloseResult(why, fmt.Sprintf("second consumer (goroutine %d of 2 asking concurrently)", g+1), s.sk.total)
		}
	}
	if s.sk.total == 0 {
		st.afterCloseTotal0++
	}
	return result{}
}

// runCase executes a scenario; an inconclusive watchdog is retried twice.
func runCase(cs Case, st *stats) (key, expected, observed, inconclusive string) {
	var r result
	for try := 0; try < 3; try++ {
		r = runOnce(cs, st)
		if r.inconclusive == "" {
			break
		}
		st.retries++
	}
	return r.key, r.exp, r.obs, r.inconclusive
}

// --------------------------------------------------------------------------------- mon

type mon struct{}

func (mon) Name() string { return "progress" }

func (mon) Level(string) (string, string) {
	return "exploration", "seeded random scenarios {wrapped writer kind full/shortErr/shortNil/fail0/failN/mixed × io.StringWriter or not} × {op list of Write/WriteString, sizes 0/1/7/4096/1MiB and random, ≤ 50 ops} × {consumer absent until Close, eager, slow, late start, stops-then-resumes}, run as real goroutines at GOMAXPROCS 1/2/4/16 plain and under -race; oracle offline over the writer log (n, err, Size(), Σn of the wrapped writer) and the consumer log; non-blocking decided from a goroutine snapshot, never from time; plus long scenarios (20000..100000 writes of 1..16 bytes next to an eager consumer) and lifetime batches (one or two small writes then Close, consumer busy during the last write, its first receive aligned with Close by a spin barrier with seeded offsets on either side); Write/Close never returning is decided from two identical consecutive goroutine snapshots of an at-rest state; callers scenarios send the data the way real callers do - io.Copy / io.CopyN / io.CopyBuffer from sources without WriteTo (io.LimitReader, plain struct reader, os.Pipe read end, *os.File), bytes.Buffer / strings.Reader WriteTo, io.WriteString, fmt.Fprintf, bufio.Writer (Write/WriteString/ReadFrom + Flush) - over wrapped writers that do or do not implement io.ReaderFrom, scripted (short / failing in the middle of a copy, reporting what they really consumed) or backed by the OS (temp file, /dev/null, /dev/full, broken pipe, pipe whose reader leaves after a quota), ground truth = every n the wrapped writer's Write/WriteString/ReadFrom returned; the method set of *ProgressWriter is recorded (reflect) as an observed set; thorough adds deep scenarios: seeded histories of 1000..8000 ops, sizes 2^k-1/2^k/2^k+1 up to 64 MiB, write sequences whose prefix sums land exactly on 2^31-1/2^31/2^31+1 and likewise around 2^32 and 2^33 (Size() is an int; totals up to 8 GiB), ops issued through io.WriteString / io.Copy (one op = several wrapped Writes), wrapped writers that also implement io.ReaderFrom or park inside Write until a helper releases them, consumers that are bursty, arrive at the last write or exactly at Close, fetch Status() late or again before every receive, long scenarios of up to 500000 writes, all at GOMAXPROCS 1/2/4/16, 1 or 4 scenarios at once, plain and under -race; a share of the wrapped writers (scripted and *os.File-backed, also in lifetimes) has a Close method - succeeding, failing, failing because the caller closed it first, slow - whether the library calls it is recorded as an observed set, the post-conditions of pw.Close() (called through an interface assertion, with or without an error result) do not depend on it; after Close() returned and the consumer drained the channel, Status() is asked again (twice by the same goroutine, by two fresh goroutines concurrently, in lifetimes by consumer and writer goroutine) and must yield a closed channel, decided by a non-blocking receive; distinct_nontrivial = distinct scenario shapes (writer kind, ops with method/size/behaviour, consumer script) with at least one op and a non-zero total"
}

func (mon) Assumptions(string) []string {
	return []string{
		"wrapped writers report 0 <= n <= len(p) (io.Writer contract); n > len(p) or n < 0 is not driven",
		"Size() is called from the writer goroutine only (Size from another goroutine is unsynchronised in glb and not promised)",
		"Close() is called once, after the last write, and only when a consumer is or will be receiving (Close blocks by design)",
		"for an empty op list the only legal received value is the total 0 sent by Close",
		"the values returned by Write/WriteString are compared with the wrapped writer's only as a metric (passthrough_mismatch), the statement does not mention them",
	}
}

type shardArgs struct {
	Part    int  `json:"part"`
	Count   int  `json:"count"`
	Workers int  `json:"workers"`
	Long    bool `json:"long,omitempty"`    // long scenarios: 20000..100000 tiny writes, eager consumer
	Life    bool `json:"life,omitempty"`    // lifetime batch: Workers pairs x Count lifetimes each
	Deep    bool `json:"deep,omitempty"`    // deep scenarios (deep.go), thorough only
	Callers bool `json:"callers,omitempty"` // callers scenarios (callers.go)
	XL      bool `json:"xl,omitempty"`      // thorough: every 6th long scenario has 200000..500000 writes
	// DeepProf forces the profile of the deep scenarios (the quick tier runs a few "pow2" and "boundary"
	// ones: single writes of up to 64 MiB through short / failing writers, totals across 2^31 and 2^32)
	DeepProf string `json:"deep_prof,omitempty"`
	// Dwell > 0: ordinary scenarios whose consumer, absent until Close (or late), starts receiving only
	// Dwell ms after it was let go
	Dwell int `json:"dwell,omitempty"`
}

var procsCycle = []int{1, 2, 4, 16}

func (mon) Plan(prop, tier string, seed int64) []drv.Shard {
	var out []drv.Shard
	plain, per, racen, raceper, secs := 8, 250, 2, 150, 150
	if tier == "thorough" {
		plain, per, racen, raceper, secs = 16, 12500, 16, 25000, 3000
	}
	thorough := tier == "thorough"
	for p := 0; p < plain; p++ {
		procs := procsCycle[p%len(procsCycle)]
		workers := 1
		if (p/len(procsCycle))%2 == 1 {
			workers = 4 // several scenarios at once: more scheduler pressure
		}
		a, _ := json.Marshal(shardArgs{Part: p, Count: per, Workers: workers})
		out = append(out, drv.Shard{Name: fmt.Sprintf("plain-%d-p%d-w%d", p, procs, workers), Args: a, Secs: secs,
			Env: []string{fmt.Sprintf("GOMAXPROCS=%d", procs)}})
	}
	// long scenarios: GOMAXPROCS >= 2, alone and under 4 concurrent workers
	longShards, longPer := 4, 6
	if tier == "thorough" {
		longShards, longPer = 8, 96
	}
	for p := 0; p < longShards; p++ {
		procs := []int{2, 4, 16, 4, 2, 16, 4, 2}[p%8]
		workers := []int{1, 1, 1, 4, 4, 4, 1, 1}[p%8]
		n := longPer
		if workers > 1 {
			n = longPer * 2
		}
		a, _ := json.Marshal(shardArgs{Part: 2000 + p, Count: n, Workers: workers, Long: true, XL: thorough})
		out = append(out, drv.Shard{Name: fmt.Sprintf("long-%d-p%d-w%d", p, procs, workers), Args: a, Secs: secs,
			Env: []string{fmt.Sprintf("GOMAXPROCS=%d", procs)}})
	}
	{
		a, _ := json.Marshal(shardArgs{Part: 3000, Count: longPer / 2, Workers: 1, Long: true})
		out = append(out, drv.Shard{Name: "long-race-p4-w1", Args: a, Secs: secs, Race: true, Env: []string{"GOMAXPROCS=4"}})
	}
	// lifetime batches: GOMAXPROCS >= 2, 1..4 concurrent pairs
	lifeShards, lifePer := 4, 30000
	if tier == "thorough" {
		lifeShards, lifePer = 12, 400000
	}
	for p := 0; p < lifeShards; p++ {
		procs := []int{2, 4, 16, 8, 4, 16, 2, 8, 3, 16, 8, 2}[p%12]
		pairs := []int{1, 2, 4, 2, 1, 2, 1, 4, 1, 8, 3, 1}[p%12]
		a, _ := json.Marshal(shardArgs{Part: 4000 + p, Count: lifePer / pairs, Workers: pairs, Life: true})
		out = append(out, drv.Shard{Name: fmt.Sprintf("life-%d-p%d-w%d", p, procs, pairs), Args: a, Secs: secs,
			Env: []string{fmt.Sprintf("GOMAXPROCS=%d", procs)}})
	}
	{
		a, _ := json.Marshal(shardArgs{Part: 5000, Count: lifePer / 20, Workers: 1, Life: true})
		out = append(out, drv.Shard{Name: "life-race-p4-w1", Args: a, Secs: secs, Race: true, Env: []string{"GOMAXPROCS=4"}})
	}
	// callers scenarios (callers.go): io.Copy & co, wrapped writers with / without ReadFrom, OS-backed ones
	callShards, callPer, callRace, callRacePer := 4, 150, 1, 60
	if thorough {
		callShards, callPer, callRace, callRacePer = 8, 20000, 4, 2000
	}
	for p := 0; p < callShards; p++ {
		procs := procsCycle[p%len(procsCycle)]
		workers := 1 + 3*(p/len(procsCycle)%2)
		a, _ := json.Marshal(shardArgs{Part: 8000 + p, Count: callPer, Workers: workers, Callers: true})
		out = append(out, drv.Shard{Name: fmt.Sprintf("callers-%d-p%d-w%d", p, procs, workers), Args: a, Secs: secs,
			Env: []string{fmt.Sprintf("GOMAXPROCS=%d", procs)}})
	}
	for p := 0; p < callRace; p++ {
		procs := []int{4, 2, 16, 1}[p%4]
		a, _ := json.Marshal(shardArgs{Part: 9000 + p, Count: callRacePer, Workers: 1, Callers: true})
		out = append(out, drv.Shard{Name: fmt.Sprintf("callers-race-%d-p%d-w1", p, procs), Args: a, Secs: secs, Race: true,
			Env: []string{fmt.Sprintf("GOMAXPROCS=%d", procs)}})
	}
	if !thorough {
		for p, prof := range []string{"pow2", "boundary", "pow2"} {
			a, _ := json.Marshal(shardArgs{Part: 6500 + p, Count: []int{24, 5, 24}[p], Workers: 1, Deep: true, DeepProf: prof})
			out = append(out, drv.Shard{Name: fmt.Sprintf("deepq-%d-%s-p%d", p, prof, []int{4, 2, 1}[p]), Args: a, Secs: secs,
				Env: []string{fmt.Sprintf("GOMAXPROCS=%d", []int{4, 2, 1}[p])}})
		}
	}
	dwells := []int{1300, 1300}
	if thorough {
		dwells = []int{1300, 1300, 3100, 3100, 6000}
	}
	for p, d := range dwells {
		a, _ := json.Marshal(shardArgs{Part: 9500 + p, Count: 8, Workers: 4, Dwell: d})
		out = append(out, drv.Shard{Name: fmt.Sprintf("dwell-%d-%dms", p, d), Args: a, Secs: secs, Env: []string{"GOMAXPROCS=4"}})
	}
	if thorough {
		// deep scenarios (deep.go): GOMAXPROCS 1/2/4/16, alone and 4 at once, plain and -race
		deepShards, deepPer, deepRace, deepRacePer := 24, 50000, 8, 5000
		for p := 0; p < deepShards; p++ {
			procs := procsCycle[p%len(procsCycle)]
			workers := 1 + 3*(p/len(procsCycle)%2)
			a, _ := json.Marshal(shardArgs{Part: 6000 + p, Count: deepPer, Workers: workers, Deep: true})
			out = append(out, drv.Shard{Name: fmt.Sprintf("deep-%d-p%d-w%d", p, procs, workers), Args: a, Secs: secs,
				Env: []string{fmt.Sprintf("GOMAXPROCS=%d", procs)}})
		}
		for p := 0; p < deepRace; p++ {
			procs := []int{4, 2, 16, 1}[p%4]
			workers := 1 + 3*(p/4%2)
			a, _ := json.Marshal(shardArgs{Part: 7000 + p, Count: deepRacePer, Workers: workers, Deep: true})
			out = append(out, drv.Shard{Name: fmt.Sprintf("deep-race-%d-p%d-w%d", p, procs, workers), Args: a, Secs: secs, Race: true,
				Env: []string{fmt.Sprintf("GOMAXPROCS=%d", procs)}})
		}
	}
	for p := 0; p < racen; p++ {
		procs := []int{4, 2, 16, 1}[p%4]
		workers := 1 + 3*(p/4%2)
		a, _ := json.Marshal(shardArgs{Part: 1000 + p, Count: raceper, Workers: workers})
		out = append(out, drv.Shard{Name: fmt.Sprintf("race-%d-p%d-w%d", p, procs, workers), Args: a, Secs: secs, Race: true,
			Env: []string{fmt.Sprintf("GOMAXPROCS=%d", procs)}})
	}
	return out
}

func shapeKey(cs Case) string {
	var sb strings.Builder
	fmt.Fprintf(&sb, "%s/%v|%s:%d:%d:%d:%d|", cs.WKind, cs.SW, cs.Cons.Kind, cs.Cons.StartAt, cs.Cons.PauseAt, cs.Cons.ResumeAt, cs.Cons.Yields)
	for _, o := range cs.Ops {
		fmt.Fprintf(&sb, "%v.%d.%d;", o.Str, o.Size, o.Beh)
		if o.Via != 0 || o.Block != 0 {
			fmt.Fprintf(&sb, "v%d.b%d;", o.Via, o.Block)
		}
	}
	if cs.Closer != "" {
		sb.WriteString("closer:" + cs.Closer)
	}
	if cs.Prof != "" {
		fmt.Fprintf(&sb, "deep:%s:%v:%d:%d:%v:%v", cs.Prof, cs.RF, cs.Cons.Burst, cs.Cons.Gap, cs.Cons.Refetch, cs.Cons.Lazy)
	}
	if cs.LongN > 0 {
		fmt.Fprintf(&sb, "long:%d:%d", cs.LongN, cs.LongSeed)
	}
	return sb.String()
}

func nontrivial(cs Case) bool {
	for _, o := range cs.Ops {
		if o.Size > 0 && o.Beh != behFail0 {
			return true
		}
	}
	return false
}

func caseID(cs Case) string {
	return fmt.Sprintf("%s/%s ops=%d consumer=%s start=%d pause=%d resume=%d", cs.WKind, swName(cs.SW), cs.nops(), cs.Cons.Kind, cs.Cons.StartAt, cs.Cons.PauseAt, cs.Cons.ResumeAt)
}

func (mn mon) Run(sh drv.Shard, c *drv.Ctx) {
	var a shardArgs
	json.Unmarshal(sh.Args, &a)
	if a.Workers < 1 {
		a.Workers = 1
	}
	procs := runtime.GOMAXPROCS(0)
	// informational: the method set of *ProgressWriter as built (a new ReadFrom / WriteTo / ... changes
	// which path io.Copy and friends take)
	if t := reflect.TypeOf((*ioutil.ProgressWriter)(nil)); t != nil {
		for i := 0; i < t.NumMethod(); i++ {
			m := t.Method(i)
			c.SetAdd("ProgressWriter_method_set(reflect)", m.Name+"("+strings.TrimPrefix(strings.TrimPrefix(m.Type.String(), "func(*ioutil.ProgressWriter"), ", "))
		}
	}
	if a.Life {
		runLifeShard(sh, a, c, procs)
		return
	}
	var stop atomic.Bool
	var wg sync.WaitGroup
	all := make([]*stats, a.Workers)
	for w := 0; w < a.Workers; w++ {
		n := a.Count / a.Workers
		if w < a.Count%a.Workers {
			n++
		}
		st := newStats()
		all[w] = st
		wg.Add(1)
		go func(w, n int) {
			defer wg.Done()
			r := newRand(sh.Seed, a.Part, w)
			for i := 0; i < n && !stop.Load(); i++ {
				var cs Case
				if a.Long {
					cs = genLong(r)
					if a.XL && r.Intn(6) == 0 {
						cs.LongN = 200000 + r.Intn(300001)
					}
				} else if a.Deep {
					cs = genDeepProf(r, a.DeepProf)
				} else if a.Dwell > 0 {
					cs = genCase(r)
					n := len(cs.Ops)
					cs.Cons = Consumer{Kind: "absent", StartAt: n, PauseAt: -1, Lazy: i%2 == 0, DwellMs: a.Dwell}
					if i%3 == 2 && n > 1 {
						cs.Cons.Kind, cs.Cons.StartAt = "late", n-1
					}
				} else if a.Callers {
					cs = genCallers(r)
				} else {
					cs = genCase(r)
				}
				cs.Procs = procs
				c.Progress(caseID(cs), false)
				k, e, o, inc := runCase(cs, st)
				c.Eval(1)
				if cs.LongN > 0 || nontrivial(cs) {
					c.DistinctStr(shapeKey(cs))
				}
				c.SetAdd("pairs(writer kind × consumer kind)", cs.WKind+"/"+swName(cs.SW)+" × "+cs.Cons.Kind)
				if inc != "" {
					c.Inconclusive(caseID(cs) + ": " + inc)
					stop.Store(true)
					return
				}
				if k != "" {
					c.Violate(k, cs, e, o)
					if c.NumViolations() >= 3 {
						stop.Store(true)
					}
				}
				if i%97 == 3 && c.NumSamples() < 3 {
					c.Sample(map[string]any{"writer": cs.WKind + "/" + swName(cs.SW), "ops": cs.nops(), "consumer": cs.Cons, "gomaxprocs": procs})
				}
			}
		}(w, n)
	}
	wg.Wait()
	patterns := map[uint64]struct{}{}
	for _, st := range all {
		c.Add("scenarios_checked", st.scen)
		c.Add("ops", st.ops)
		c.Add("wrapped_calls", st.wrappedCalls)
		c.Add("wrapped_calls_via_WriteString", st.wrappedStrCalls)
		c.Add("ops_WriteString_on_StringWriter", st.strOpsSW)
		c.Add("ops_WriteString_on_plain_Writer", st.strOpsPlain)
		for b, n := range st.perBeh {
			c.Add("wrapped_calls_"+behNames[b], n)
		}
		c.Add("bytes_reported", st.bytesReported)
		c.Add("scen_long", st.scenLong)
		c.Add("status_after_close_probes", st.afterCloseProbes)
		for k, n := range st.closerScen {
			c.Add("scen_wrapped_closer_"+k, n)
		}
		if len(st.closerScen) > 0 {
			c.Add("wrapped_Close_calls_made_by_pw.Close", st.libCloseCalls)
			c.Add("pw.Close_returned_an_error", st.pwCloseErr)
			if st.libCloseCalls > 0 {
				c.SetAdd("library_called_wrapped_Close", "yes")
			}
			if st.closerNotCalled > 0 {
				c.SetAdd("library_called_wrapped_Close", "no")
			}
		}
		c.Add("status_after_close_same_channel_as_before", st.afterCloseSame)
		c.Add("status_after_close_scen_with_total_0", st.afterCloseTotal0)
		if len(st.prof) > 0 {
			pre := "deep"
			if a.Callers {
				pre = "callers"
			}
			for k, n := range st.osScen {
				c.Add(pre+"_scen_wrapped_os_"+k, n)
			}
			for k, n := range st.prof {
				c.Add(pre+"_scen_"+k, n)
			}
			c.MaxOf(pre+"_total_bytes_in_one_scenario", st.maxTotal)
			c.Add(pre+"_scen_total_at_or_above_2^31", st.crossed31)
			c.Add(pre+"_scen_total_at_or_above_2^32", st.crossed32)
			c.Add(pre+"_prefix_sums_exactly_at_2^31|32|33_plus_minus_1", st.boundaryHits)
			c.Add(pre+"_values_received_at_or_above_2^31", st.recvAbove31)
			for v, n := range st.via {
				if n > 0 || a.Callers {
					c.Add(pre+"_ops_via_"+viaNames[v], n)
				}
			}
			c.Add(pre+"_ops_with_several_wrapped_calls", st.multiCallOps)
			c.Add(pre+"_wrapped_calls_that_blocked", st.blockedCalls)
			c.Add(pre+"_wrapped_ReadFrom_calls", st.rfCalls)
			c.Add(pre+"_scen_wrapped_is_ReaderFrom", st.rfScen)
			c.Add(pre+"_scen_bursty_consumer", st.burstyScen)
			c.Add(pre+"_scen_status_refetched_every_receive", st.refetchScen)
			c.Add(pre+"_scen_status_fetched_late", st.lazyScen)
			c.Add(pre+"_distinct_op_sizes(sum over workers)", int64(len(st.sizes)))
		}
		c.Add("long_ops", st.longOps)
		c.Add("long_intermediate_values_received", st.longInter)
		c.Add("size_checks", st.sizeChecks)
		c.Add("values_received", st.received)
		c.Add("intermediate_values_received", st.intermediate)
		c.Add("sends_skipped(no receiver ready)", st.dropped)
		c.Add("scen_with_intermediate_value", st.scenInter)
		for k, n := range st.scenKind {
			c.Add("scen_"+k, n)
		}
		for k, n := range st.scenKindInter {
			c.Add("scen_"+k+"_with_intermediate_value", n)
		}
		c.Add("ops_completed_before_consumer_start", st.opsBeforeStart)
		c.Add("scen_whole_op_list_without_consumer", st.scenWriterFinishedWithoutConsumer)
		c.Add("ops_in_pause_window_nominal", st.opsInPauseNominal)
		c.Add("values_received_before_pause", st.recvBeforePause)
		c.Add("intermediate_values_received_after_resume", st.recvAfterResume)
		c.Add("scen_stopresume_received_before_and_after", st.stopResumeBoth)
		c.Add("watchdog_snapshots", st.snapshots)
		c.Add("watchdog_retries", st.retries)
		c.Add("passthrough_mismatch", st.passthroughMismatch)
		c.MaxOf("values_received_in_one_scenario", st.maxRecv)
		c.MaxOf("ops_in_one_scenario", st.maxOps)
		for h := range st.patterns {
			patterns[h] = struct{}{}
		}
	}
	c.Add("distinct_receive_patterns(sum over shards)", int64(len(patterns)))
	c.SetAdd("gomaxprocs", strconv.Itoa(procs))
}

func runLifeShard(sh drv.Shard, a shardArgs, c *drv.Ctx, procs int) {
	spec := LifeSpec{Seed: sh.Seed*1000003 + int64(a.Part), Pairs: a.Workers, N: a.Count}
	cs := Case{WKind: "full", Cons: Consumer{Kind: "aligned-with-close", PauseAt: -1}, Procs: procs, Life: &spec}
	c.Progress(fmt.Sprintf("lifetime batch seed=%d pairs=%d n=%d", spec.Seed, spec.Pairs, spec.N), true)
	out := runLife(spec)
	reportLife(c, out, cs)
	if out.inconclusive != "" {
		c.Inconclusive(out.inconclusive)
	}
	if out.res.key != "" {
		c.Violate(out.res.key, cs, out.res.exp, out.res.obs)
	}
	// distinct lifetime shapes: regenerated from the seeds (nothing is recorded while the pairs run)
	per := out.cnt.lifetimes.Load() / int64(spec.Pairs)
	for i := 0; i < spec.Pairs; i++ {
		x := uint64(spec.Seed)*0x9e3779b97f4a7c15 + uint64(i)*0x632be59bd9b4e019 + 1
		for j := int64(0); j < per; j++ {
			p := nextLife(&x)
			c.Distinct(uint64(p.Writes) | uint64(p.S1)<<2 | uint64(p.S2)<<7 | b2u(p.Str)<<12 | b2u(p.SW)<<13 | b2u(p.Early)<<14 | b2u(p.Lazy)<<15 |
				uint64(p.MaxLag)<<16 | uint64(p.WLag)<<29 | uint64(p.CLag)<<42 | b2u(p.CRel)<<55 | uint64(p.Closer)<<56 | 1<<63)
		}
	}
	c.Sample(map[string]any{"lifetime_batch": spec, "gomaxprocs": procs, "lifetimes_completed": out.cnt.lifetimes.Load()})
	c.SetAdd("gomaxprocs", strconv.Itoa(procs))
}

func b2u(b bool) uint64 {
	if b {
		return 1
	}
	return 0
}

func reportLife(c *drv.Ctx, out lifeOutcome, cs Case) {
	n := out.cnt
	c.Eval(n.lifetimes.Load())
	c.Add("lifetimes_checked", n.lifetimes.Load())
	c.Add("life_values_received", n.values.Load())
	c.Add("life_received_1_value", n.oneValue.Load())
	c.Add("life_received_2_values", n.twoValues.Load())
	c.Add("life_received_3plus_values", n.threePlus.Load())
	c.Add("life_first_receive_started_before_Close_entered", n.recvBeforeClose.Load())
	c.Add("life_first_receive_started_after_Close_entered", n.recvAfterClose.Load())
	c.Add("life_barrier_before_last_write", n.early.Load())
	c.Add("life_lazy_status", n.lazy.Load())
	c.Add("life_WriteString_on_StringWriter", n.strSW.Load())
	c.Add("status_after_close_probes", n.afterClose.Load())
	c.Add("life_wrapped_writer_has_Close", n.closers.Load())
	c.Add("wrapped_Close_calls_made_by_pw.Close", n.libClose.Load())
	if n.closers.Load() > 0 {
		if n.libClose.Load() > 0 {
			c.SetAdd("library_called_wrapped_Close", "yes")
		}
		if n.libClose.Load() < n.closers.Load() {
			c.SetAdd("library_called_wrapped_Close", "no")
		}
	}
	c.Add("size_checks", n.sizeChecks.Load())
	c.Add("watchdog_snapshots", out.snapshots)
}

// Finish: a run that did not observe the interleavings it needs is inconclusive.
func (mon) Finish(prop, tier string, m *drv.Merged) (inc []string) {
	if m.Evaluations == 0 {
		return nil
	}
	if len(m.Sets["pairs(writer kind × consumer kind)"]) < 60 && m.Sum["scenarios_checked"] >= 1500 {
		inc = append(inc, fmt.Sprintf("only %d of 60 (writer kind × consumer kind) pairs exercised", len(m.Sets["pairs(writer kind × consumer kind)"])))
	}
	if m.Sum["scenarios_checked"] < 1500 {
		return inc // partial run (-only) or a run cut short by violations
	}
	for _, k := range []string{"eager", "slow", "late", "stopresume"} {
		if m.Sum["scen_"+k+"_with_intermediate_value"] == 0 {
			inc = append(inc, "no "+k+" scenario in which the consumer received an intermediate value")
		}
	}
	for _, k := range []string{"sends_skipped(no receiver ready)", "scen_whole_op_list_without_consumer", "scen_absent",
		"wrapped_calls_shortErr", "wrapped_calls_shortNil", "wrapped_calls_fail0", "wrapped_calls_failN", "ops_WriteString_on_StringWriter", "ops_WriteString_on_plain_Writer",
		"scen_stopresume_received_before_and_after", "scen_long", "long_intermediate_values_received",
		"status_after_close_probes", "status_after_close_scen_with_total_0",
		"lifetimes_checked", "life_first_receive_started_before_Close_entered", "life_first_receive_started_after_Close_entered"} {
		if m.Sum[k] == 0 {
			inc = append(inc, "observed nothing of: "+k)
		}
	}
	need := []string{"callers_scen_callers", "callers_scen_wrapped_is_ReaderFrom", "callers_ops_with_several_wrapped_calls"}
	for _, v := range viaNames[1:] {
		need = append(need, "callers_ops_via_"+v)
	}
	for _, k := range osKinds {
		need = append(need, "callers_scen_wrapped_os_"+k)
	}
	for _, k := range closerKinds {
		need = append(need, "scen_wrapped_closer_"+k)
	}
	for _, k := range need {
		if m.Sum[k] == 0 {
			inc = append(inc, "observed nothing of: "+k)
		}
	}
	if tier == "thorough" {
		for _, k := range []string{"deep_scen_history", "deep_scen_pow2", "deep_scen_boundary", "deep_scen_stream",
			"deep_scen_total_at_or_above_2^32", "deep_prefix_sums_exactly_at_2^31|32|33_plus_minus_1", "deep_values_received_at_or_above_2^31",
			"deep_ops_via_io.WriteString", "deep_ops_via_io.Copy(WriterTo)", "deep_ops_via_io.Copy(chunked)", "deep_ops_with_several_wrapped_calls",
			"deep_wrapped_calls_that_blocked", "deep_scen_bursty_consumer", "scen_bursty_with_intermediate_value",
			"deep_scen_status_refetched_every_receive", "deep_scen_status_fetched_late", "deep_scen_wrapped_is_ReaderFrom"} {
			if m.Sum[k] == 0 {
				inc = append(inc, "observed nothing of: "+k)
			}
		}
	}
	return inc
}

func (mn mon) Replay(v drv.Violation, c *drv.Ctx) {
	var cs Case
	if err := json.Unmarshal(v.Case, &cs); err == nil && cs.Life != nil {
		if cs.Procs > 0 {
			runtime.GOMAXPROCS(cs.Procs)
		}
		for i := 0; i < 5; i++ {
			out := runLife(*cs.Life)
			reportLife(c, out, cs)
			if out.inconclusive != "" {
				c.Inconclusive(out.inconclusive)
				return
			}
			if out.res.key != "" {
				c.Violate(out.res.key, cs, out.res.exp, out.res.obs)
				return
			}
		}
		return
	}
	if err := json.Unmarshal(v.Case, &cs); err != nil || (len(cs.Ops) == 0 && cs.LongN == 0 && cs.Cons.Kind == "") {
		c.Inconclusive("replay: not a scenario (race / crash violations are replayed by re-running the check with the same seed)")
		return
	}
	if cs.Procs > 0 {
		runtime.GOMAXPROCS(cs.Procs)
	}
	st := newStats()
	// schedule dependent: repeat
	reps := 300
	if cs.LongN > 0 {
		reps = 40
	}
	if cs.Cons.DwellMs > 0 {
		reps = 4 // every repetition costs the dwell; what a dwell exposes does not depend on the schedule
	}
	for i := 0; i < reps; i++ {
		k, e, o, inc := runCase(cs, st)
		c.Eval(1)
		if inc != "" {
			c.Inconclusive(inc)
			return
		}
		if k != "" {
			c.Violate(k, cs, e, o)
			return
		}
	}
}

func main() { drv.Main(mon{}) }
