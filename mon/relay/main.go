// Monitor relay (C15): Logger.Relay contains handler panics, logs each request once and
// truthfully. Oracle: offline join of the log records (one Write = one record, parsed per
// handler kind) with the client's wire log, by request id. See DESIGN.md §3 C15.
package main

import (
	"context"
	"encoding/json"
	"errors"
	"fmt"
	"io"
	"math/rand"
	"net"
	"net/http"
	"net/http/httptest"
	"net/url"
	"runtime"
	"sort"
	"strconv"
	"strings"
	"sync"
	"sync/atomic"
	"time"

	"github.com/whoisnian/glb/httpd"
	"github.com/whoisnian/glb/logger"

	"verif/internal/attrgen"
	"verif/internal/drv"
	"verif/internal/logparse"
	"verif/internal/logrun"
	"verif/internal/recw"
)

// ReqSpec describes one request and what its handler does.
type ReqSpec struct {
	N      int    `json:"n"`
	Method string `json:"method"`
	Match  bool   `json:"match"`
	Code   int    `json:"code"`           // 0 = no explicit WriteHeader
	Body   bool   `json:"body"`           // handler writes a body
	Copy   bool   `json:"copy,omitempty"` // the body is written with io.Copy from a plain io.Reader (may take a ReaderFrom fast path)
	Panic  string `json:"panic"`          // "" | before | afterheader | afterbody
	// Flush: the handler calls W.Flush() ("flush") or W.FlushError() ("flusherr") first of all (after a
	// "before" panic, before anything else). Only generated with Code == 0, so the status is still set
	// at most once: flushing an untouched response commits the implicit 200.
	Flush string `json:"flush,omitempty"`
	// Pad: the request URI carries a query parameter of that many bytes (REQ_BEG / REQ_END lines far
	// beyond the handlers' pooled-buffer limit; the requests after it must log only themselves)
	Pad int `json:"pad,omitempty"`
	// Odd: the path carries raw non-ASCII bytes (recorder path only: a client would escape them).
	// REQ_BEG and REQ_END report the request target as it was received, not a re-encoded form.
	Odd bool `json:"odd,omitempty"`
	// Helper: the response is produced by one of the Store's own helpers instead of WriteHeader/Write:
	// respond200 | json | redirect | error404 | error500 | std (an http.HandlerFunc wrapped by CreateHandler)
	Helper string `json:"helper,omitempty"`
	// flushInert: set by runCase when the case's writer cannot flush (the handler still calls Flush)
	flushInert bool
	PV         string `json:"pv"` // panic value kind
	Remote     string `json:"remote,omitempty"`
}

func (r ReqSpec) uri() string {
	base := "/nomatch/"
	if r.Match {
		base = "/h/"
	}
	odd := ""
	if r.Odd {
		odd = "\u00e9\u4e16"
	}
	u := fmt.Sprintf("%s%d%s?code=%d&body=%v&copy=%v&panic=%s&pv=%s", base, r.N, odd, r.Code, r.Body, r.Copy, r.Panic, r.PV)
	if r.Helper != "" {
		u += "&helper=" + r.Helper
	}
	if r.Flush != "" {
		u += "&flush=" + r.Flush
	}
	if r.Pad > 0 {
		u += "&pad=" + strings.Repeat("p", r.Pad)
	}
	return u
}

// panicsBeforeWrite: does the handler panic before any status was written?
func (r ReqSpec) panics() bool { return r.Match && r.Panic != "" }

// excluded: the handler panics with http.ErrAbortHandler itself, the one value the statement
// excludes. Nothing is required of such a request; the requests after it are judged as usual.
func (r ReqSpec) excluded() bool { return r.panics() && r.PV == "abort" }
func (r ReqSpec) panicsBeforeWrite() bool {
	if !r.panics() {
		return false
	}
	switch r.Panic {
	case "before":
		return true
	case "afterheader":
		return r.Code == 0 && (r.Flush == "" || r.flushInert) && r.Helper == ""
	default: // afterbody
		return r.Code == 0 && !r.Body && (r.Flush == "" || r.flushInert) && r.Helper == ""
	}
}

var helperCode = map[string]int{"respond200": 200, "json": 200, "redirect": 307, "error404": 404, "error500": 500, "std": 202}

func (r ReqSpec) wantStatus() int {
	switch {
	case !r.Match:
		return 404
	case r.panicsBeforeWrite():
		return 500
	case r.Helper != "":
		return helperCode[r.Helper]
	case r.Code != 0:
		return r.Code
	}
	return 200
}

type payloadStruct struct {
	A int
	B string
}

var ptrVal = &payloadStruct{7, "seven"}

func panicValue(kind string) any {
	switch kind {
	case "string":
		return "boom with spaces"
	case "error":
		return errors.New("plain error")
	case "wrapped":
		return fmt.Errorf("outer: %w", io.ErrUnexpectedEOF)
	case "int":
		return 42
	case "struct":
		return payloadStruct{1, "x"}
	case "pointer":
		return ptrVal
	case "nilptr":
		return (*payloadStruct)(nil)
	case "bytes":
		return []byte("raw bytes")
	case "wrapabort": // not the sentinel itself: only http.ErrAbortHandler is excluded by the statement
		return fmt.Errorf("copy failed: %w", http.ErrAbortHandler)
	case "joinabort":
		return errors.Join(errors.New("first"), http.ErrAbortHandler)
	case "aborttext":
		return errors.New(http.ErrAbortHandler.Error())
	case "abort":
		return http.ErrAbortHandler
	case "nilerr": // nil-like: a nil pointer whose value-receiver Error method cannot be called
		return (*valErr)(nil)
	case "biguint": // above MaxInt64
		return uint64(1<<63 + 5)
	case "str80": // a string that begins with the byte 0x80
		return "\x80 starts with a continuation byte"
	case "badstructerr": // an error held by value (nothing nil about it) whose Error method panics
		return badErr{7}
	}
	return nil // "nil": panic(nil) → *runtime.PanicNilError
}

var pvKinds = []string{"string", "error", "wrapped", "int", "struct", "pointer", "nilptr", "bytes", "nil", "wrapabort", "joinabort", "aborttext", "abort", "nilerr", "badstructerr", "biguint", "str80"}

type valErr struct{ msg string }

type badErr struct{ n int }

func (badErr) Error() string { panic("badErr.Error called") }

// noRendering: panic values that have no text of their own (their Error method cannot be called).
func noRendering(pv string) bool { return pv == "nilerr" || pv == "badstructerr" }

func (e valErr) Error() string { return e.msg }

type onlyReader struct{ r io.Reader }

func (o onlyReader) Read(p []byte) (int, error) { return o.r.Read(p) }

// recovered value as the Relay sees it
func recoveredValue(kind string) any {
	if kind == "nil" {
		return &runtime.PanicNilError{}
	}
	return panicValue(kind)
}

func behave(s *httpd.Store) {
	q := s.R.URL.Query()
	code, _ := strconv.Atoi(q.Get("code"))
	body := q.Get("body") == "true"
	pw, pv := q.Get("panic"), q.Get("pv")
	if pw == "before" {
		panic(panicValue(pv))
	}
	switch q.Get("flush") {
	case "flush":
		s.W.Flush()
	case "flusherr":
		s.W.FlushError()
	}
	switch q.Get("helper") { // the Store's own ways of answering (only generated with code == 0 and no body)
	case "respond200":
		s.Respond200([]byte("ok"))
	case "json":
		s.RespondJson(map[string]int{"a": 1})
	case "redirect":
		s.Redirect("/elsewhere", http.StatusTemporaryRedirect)
	case "error404":
		s.Error404("nothing here")
	case "error500":
		s.Error500("broken")
	case "std":
		httpd.CreateHandler(func(w http.ResponseWriter, r *http.Request) {
			w.WriteHeader(http.StatusAccepted)
			w.Write([]byte("std"))
		})(s)
	}
	if code != 0 {
		s.W.WriteHeader(code)
	}
	if pw == "afterheader" {
		panic(panicValue(pv))
	}
	if body {
		if q.Get("copy") == "true" {
			// sizes below and above the thresholds of copy fast paths (one block, several blocks)
			n := 0
			for _, ch := range []byte(s.R.URL.Path) {
				n = (n*31 + int(ch)) & 0xffff
			}
			size := []int{5, 4095, 4096, 5, 32769, 100000}[n%6]
			io.Copy(s.W, onlyReader{strings.NewReader(strings.Repeat("hello", size/5+1)[:size])})
		} else {
			s.W.Write([]byte("hello"))
		}
	}
	if pw == "afterbody" {
		panic(panicValue(pv))
	}
}

// Case is one scenario: a handler kind, a threshold, a delivery path and a request list.
type Case struct {
	Kind      string    `json:"kind"`
	Threshold int       `json:"threshold"` // index into logrun.Levels: 1 Info, 3 Error, 4 Fatal
	Wire      bool      `json:"wire"`
	V6        bool      `json:"v6,omitempty"`
	Conc      int       `json:"conc"`
	Reqs      []ReqSpec `json:"reqs"`
	// NoFlush (recorder path only): the response writer handed to the Mux has no Flush / FlushError
	// method (like the writer of http.TimeoutHandler): W.Flush() then sends nothing, so a panic after
	// it still happens "before any status was written".
	NoFlush bool `json:"no_flush,omitempty"`
}

// plainWriter hides every optional interface of the writer it wraps.
type plainWriter struct{ rw http.ResponseWriter }

func (p plainWriter) Header() http.Header         { return p.rw.Header() }
func (p plainWriter) Write(b []byte) (int, error) { return p.rw.Write(b) }
func (p plainWriter) WriteHeader(code int)        { p.rw.WriteHeader(code) }

type rec struct {
	kind                  string // BEG END ERR
	tid, ip, method, path string
	code                  int
	panicJSON             *logparse.JV
	panicText             string
	raw                   string
}

type stats struct {
	requests, beg, end, errRecs, panics, wire, direct, status500, excluded int64
	maxInflight                                                            int64
}

func parseRecord(kind string, pl []byte) (rec, error) {
	r := rec{raw: string(pl)}
	switch kind {
	case "json":
		v, err := logparse.DecodeObjectLine(pl)
		if err != nil {
			return r, err
		}
		keys := make([]string, len(v.Obj))
		get := map[string]logparse.JV{}
		for i, m := range v.Obj {
			keys[i] = m.Key
			get[m.Key] = m.V
		}
		ks := strings.Join(keys, ",")
		switch ks {
		case "time,level,msg,tag,ip,method,path,tid":
			r.kind = "BEG"
			if get["tag"].Str != "REQ_BEG" || get["level"].Str != "INFO" || get["msg"].Str != "" {
				return r, fmt.Errorf("unexpected REQ_BEG shape")
			}
		case "time,level,msg,tag,code,dur,ip,method,path,tid":
			r.kind = "END"
			if get["tag"].Str != "REQ_END" || get["level"].Str != "INFO" || get["msg"].Str != "" {
				return r, fmt.Errorf("unexpected REQ_END shape")
			}
			c, err := strconv.Atoi(get["code"].Num)
			if err != nil {
				return r, fmt.Errorf("code is not an integer")
			}
			r.code = c
			if d, err := strconv.ParseInt(get["dur"].Num, 10, 64); err != nil || d < 0 {
				return r, fmt.Errorf("dur is not a non-negative integer")
			}
		case "time,level,msg,panic,tid":
			r.kind = "ERR"
			if get["level"].Str != "ERROR" || !strings.Contains(get["msg"].Str, "goroutine ") {
				return r, fmt.Errorf("unexpected Error record shape")
			}
			pv := get["panic"]
			r.panicJSON = &pv
		default:
			return r, fmt.Errorf("unexpected member list %s", ks)
		}
		r.tid, r.ip, r.method, r.path = get["tid"].Str, get["ip"].Str, get["method"].Str, get["path"].Str
		if get["tid"].Kind != "str" {
			return r, fmt.Errorf("tid is not a string")
		}
		return r, nil
	case "text":
		pairs, err := logparse.TokenizeText(pl)
		if err != nil {
			return r, err
		}
		keys := make([]string, len(pairs))
		get := map[string]string{}
		for i, p := range pairs {
			keys[i] = p.Key
			get[p.Key] = p.Val
		}
		switch strings.Join(keys, ",") {
		case "time,level,msg,tag,ip,method,path,tid":
			r.kind = "BEG"
			if get["tag"] != "REQ_BEG" || get["level"] != "INFO" || get["msg"] != "" {
				return r, fmt.Errorf("unexpected REQ_BEG shape")
			}
		case "time,level,msg,tag,code,dur,ip,method,path,tid":
			r.kind = "END"
			if get["tag"] != "REQ_END" || get["level"] != "INFO" || get["msg"] != "" {
				return r, fmt.Errorf("unexpected REQ_END shape")
			}
			c, err := strconv.Atoi(get["code"])
			if err != nil {
				return r, fmt.Errorf("code is not an integer")
			}
			r.code = c
		case "time,level,msg,panic,tid":
			r.kind = "ERR"
			if get["level"] != "ERROR" || !strings.Contains(get["msg"], "goroutine ") {
				return r, fmt.Errorf("unexpected Error record shape")
			}
			r.panicText = get["panic"]
		default:
			return r, fmt.Errorf("unexpected key list %v", keys)
		}
		r.tid, r.ip, r.method, r.path = get["tid"], get["ip"], get["method"], get["path"]
		return r, nil
	case "nano":
		if len(pl) < 25 || pl[len(pl)-1] != '\n' {
			return r, fmt.Errorf("not a complete nano line")
		}
		if _, err := time.Parse(time.DateTime, string(pl[:19])); err != nil {
			return r, err
		}
		rest := string(pl[19 : len(pl)-1])
		switch {
		case strings.HasPrefix(rest, " [I] REQ_BEG "):
			f := strings.Split(rest[len(" [I] "):], " ")
			if len(f) != 5 {
				return r, fmt.Errorf("REQ_BEG with %d fields", len(f))
			}
			r.kind, r.ip, r.method, r.path, r.tid = "BEG", f[1], f[2], f[3], f[4]
		case strings.HasPrefix(rest, " [I] REQ_END "):
			f := strings.Split(rest[len(" [I] "):], " ")
			if len(f) != 7 {
				return r, fmt.Errorf("REQ_END with %d fields", len(f))
			}
			c, err := strconv.Atoi(f[1])
			if err != nil {
				return r, fmt.Errorf("code is not an integer")
			}
			if _, err := strconv.ParseInt(f[2], 10, 64); err != nil {
				return r, fmt.Errorf("dur is not an integer")
			}
			r.kind, r.code, r.ip, r.method, r.path, r.tid = "END", c, f[3], f[4], f[5], f[6]
		case strings.HasPrefix(rest, " [E] goroutine "):
			i := strings.LastIndexByte(rest, ' ')
			r.kind, r.tid = "ERR", rest[i+1:]
			r.panicText = rest[:i] // stack + " " + value: judged by suffix
		default:
			return r, fmt.Errorf("unrecognised nano record")
		}
		return r, nil
	}
	return r, fmt.Errorf("unknown kind")
}

func wantPanicMatches(kind, pv string, r rec) string {
	if noRendering(pv) {
		// the value has no rendering of its own (its Error method cannot be called on nil); the
		// record must carry *a* panic attribute: JSON string / one text token / fmt's "<nil>"
		switch kind {
		case "json":
			if r.panicJSON == nil || r.panicJSON.Kind != "str" {
				return "panic attribute is not a JSON string"
			}
		case "nano":
			if !strings.HasSuffix(r.panicText, " <nil>") && !strings.Contains(r.panicText, "PANIC") {
				return fmt.Sprintf("record does not end in a rendering of the value: …%q", tailS(r.panicText, 60))
			}
		}
		return ""
	}
	v := recoveredValue(pv)
	switch kind {
	case "json":
		var want logparse.JV
		switch x := v.(type) {
		case string:
			want = logparse.JV{Kind: "str", Str: attrgen.FFFD(x)} // what a JSON string can recover of invalid UTF-8
		case error:
			want = logparse.JV{Kind: "str", Str: attrgen.FFFD(x.Error())}
		default:
			b, _ := json.Marshal(v)
			want, _ = logparse.DecodeValue(b)
		}
		if d := logparse.Equal(want, *r.panicJSON, "panic"); d != "" {
			return d
		}
	case "text":
		var want string
		switch x := v.(type) {
		case string:
			want = x
		case error:
			want = x.Error()
		case []byte:
			want = string(x)
		default:
			want = fmt.Sprint(v)
		}
		if r.panicText != want {
			return fmt.Sprintf("panic=%q, want %q", r.panicText, want)
		}
	case "nano":
		want := fmt.Sprint(v)
		if !strings.HasSuffix(r.panicText, " "+want) {
			return fmt.Sprintf("record does not end in the panic value %q: …%q", want, tailS(r.panicText, 80))
		}
	}
	return ""
}

func tailS(s string, n int) string {
	if len(s) > n {
		return s[len(s)-n:]
	}
	return s
}

type wireResult struct {
	status int
	err    string
}

func runCase(cs Case, st *stats) (key, expected, observed string) {
	if cs.Wire { // an HTTP client escapes raw non-ASCII path bytes: those requests go out plain
		reqs := append([]ReqSpec(nil), cs.Reqs...)
		for i := range reqs {
			reqs[i].Odd = false
		}
		cs.Reqs = reqs
	}
	if cs.NoFlush && !cs.Wire {
		reqs := append([]ReqSpec(nil), cs.Reqs...)
		for i := range reqs {
			reqs[i].flushInert = true
		}
		cs.Reqs = reqs
	}
	w := recw.New(len(cs.Reqs)*3+16, 0)
	l := logger.New(logrun.NewHandler(cs.Kind, w, cs.Threshold, false))
	mux := httpd.NewMux()
	var escaped atomic.Int64
	var escapedURI atomic.Value
	var inflight, maxInflight atomic.Int64
	mux.HandleRelay(func(s *httpd.Store) {
		n := inflight.Add(1)
		for {
			m := maxInflight.Load()
			if n <= m || maxInflight.CompareAndSwap(m, n) {
				break
			}
		}
		defer inflight.Add(-1)
		defer func() {
			if r := recover(); r != nil {
				if r != http.ErrAbortHandler { // may be passed on: net/http aborts the response
					if escaped.Add(1) == 1 {
						escapedURI.Store(s.R.RequestURI)
					}
				}
				panic(r)
			}
		}()
		l.Relay(s)
	})
	mux.Handle("/h/:n", "*", behave)
	results := make([]wireResult, len(cs.Reqs))
	wantIP := make([]string, len(cs.Reqs))
	// altIP: what the client-ip request headers say (every fifth recorder request carries some). The
	// statement's "client IP" is the peer address for Relay as it is; a Relay that trusted the
	// headers would be as good - but both records of a request have to name the same one.
	altIP := make([]string, len(cs.Reqs))
	ipOK := func(i int, ip string) bool { return ip == wantIP[i] || (altIP[i] != "" && ip == altIP[i]) }
	tag := fmt.Sprintf("%s/thr%d/wire=%v", cs.Kind, cs.Threshold, cs.Wire)

	if cs.Wire {
		addr := "127.0.0.1:0"
		if cs.V6 {
			addr = "[::1]:0"
		}
		ln, err := net.Listen("tcp", addr)
		if err != nil {
			return "", "", "" // no such loopback here: nothing observed
		}
		srv := &http.Server{Handler: mux, ErrorLog: nil}
		srv.ErrorLog = nil
		go srv.Serve(ln)
		tr := &http.Transport{MaxIdleConnsPerHost: cs.Conc, DisableCompression: true}
		cl := &http.Client{Transport: tr, CheckRedirect: func(*http.Request, []*http.Request) error { return http.ErrUseLastResponse }, Timeout: 60 * time.Second}
		host, _, _ := net.SplitHostPort(ln.Addr().String())
		var wg sync.WaitGroup
		next := atomic.Int64{}
		for c := 0; c < cs.Conc; c++ {
			wg.Add(1)
			go func() {
				defer wg.Done()
				for {
					i := int(next.Add(1) - 1)
					if i >= len(cs.Reqs) {
						return
					}
					rq := cs.Reqs[i]
					wantIP[i] = host
					req, err := http.NewRequest(rq.Method, "http://"+ln.Addr().String()+rq.uri(), nil)
					if err != nil {
						results[i].err = err.Error()
						continue
					}
					resp, err := cl.Do(req)
					if err != nil {
						results[i].err = err.Error()
						continue
					}
					io.Copy(io.Discard, resp.Body)
					resp.Body.Close()
					results[i].status = resp.StatusCode
				}
			}()
		}
		wg.Wait()
		ctx, cancel := context.WithTimeout(context.Background(), 20*time.Second)
		srv.Shutdown(ctx)
		cancel()
		tr.CloseIdleConnections()
		st.wire += int64(len(cs.Reqs))
	} else {
		var wg sync.WaitGroup
		next := atomic.Int64{}
		for c := 0; c < cs.Conc; c++ {
			wg.Add(1)
			go func() {
				defer wg.Done()
				for {
					i := int(next.Add(1) - 1)
					if i >= len(cs.Reqs) {
						return
					}
					rq := cs.Reqs[i]
					req := httptest.NewRequest("GET", rq.uri(), nil)
					req.Method = rq.Method
					remote := rq.Remote
					if remote == "" {
						remote = "192.0.2.1:1234"
					}
					req.RemoteAddr = remote
					wantIP[i], _, _ = net.SplitHostPort(remote)
					if i%5 == 3 {
						switch i / 5 % 3 {
						case 0:
							req.Header.Set("X-Forwarded-For", "203.0.113.7, 198.51.100.2")
							altIP[i] = "203.0.113.7"
						case 1:
							req.Header.Set("X-Real-IP", "203.0.113.8")
							altIP[i] = "203.0.113.8"
						default:
							req.Header.Set("X-Client-IP", "203.0.113.9")
							req.Header.Set("X-Real-IP", "203.0.113.8")
							altIP[i] = "203.0.113.9"
						}
					}
					rr := httptest.NewRecorder()
					func() {
						defer func() {
							if r := recover(); r != nil {
								results[i].err = fmt.Sprintf("panic out of ServeHTTP: %v", r)
							}
						}()
						if cs.NoFlush {
							mux.ServeHTTP(plainWriter{rr}, req)
						} else {
							mux.ServeHTTP(rr, req)
						}
					}()
					results[i].status = rr.Code
				}
			}()
		}
		wg.Wait()
		st.direct += int64(len(cs.Reqs))
	}
	st.requests += int64(len(cs.Reqs))
	if m := maxInflight.Load(); m > st.maxInflight {
		st.maxInflight = m
	}
	if n := escaped.Load(); n > 0 {
		uri, _ := escapedURI.Load().(string)
		which := ""
		if i := strings.Index(uri, "panic="); i >= 0 {
			which = uri[i:]
		}
		return "escaped:" + tag + ":" + which, "no panic escapes Relay", fmt.Sprintf("%d panics came out of Relay, the first for %s", n, uri)
	}
	// the wire log
	for i, rq := range cs.Reqs {
		kk := fmt.Sprintf("%s:%s", tag, specKey(rq))
		if rq.excluded() {
			st.excluded++
			continue
		}
		if results[i].err != "" {
			return "client:" + kk, "request completes", results[i].err
		}
		if results[i].status != rq.wantStatus() {
			return "status:" + kk, fmt.Sprintf("client receives %d (500 iff the handler panicked before any status was written)", rq.wantStatus()), fmt.Sprint(results[i].status)
		}
		if results[i].status == 500 {
			st.status500++
		}
	}
	// the log records
	byURI := map[string]int{}
	for i, rq := range cs.Reqs {
		byURI[rq.uri()] = i
	}
	type perReq struct {
		ipSeen        string // the ip of the first REQ_BEG / REQ_END record of the request
		beg, end, err int
		tid           string
	}
	pr := make([]perReq, len(cs.Reqs))
	tidOwner := map[string]int{}
	var pend []rec // END / ERR records seen before their BEG (cannot happen per request, but be tolerant until the end)
	var errOnly []rec
	handle := func(r rec) (string, string, string) {
		i, ok := tidOwner[r.tid]
		if !ok {
			return "orphan:" + tag, "every REQ_END / Error record carries the id of a request that logged REQ_BEG", clipS(r.raw, 400)
		}
		rq := cs.Reqs[i]
		if rq.excluded() {
			return "", "", ""
		}
		kk := fmt.Sprintf("%s:%s", tag, specKey(rq))
		switch r.kind {
		case "END":
			pr[i].end++
			if pr[i].ipSeen == "" {
				pr[i].ipSeen = r.ip
			} else if pr[i].ipSeen != r.ip {
				return "ip-differs:" + kk, "REQ_BEG and REQ_END of a request name the same client ip", fmt.Sprintf("%q earlier, now %s", pr[i].ipSeen, clipS(r.raw, 300))
			}
			if r.method != rq.Method || r.path != rq.uri() || !ipOK(i, r.ip) {
				return "end-fields:" + kk, fmt.Sprintf("REQ_END with method=%s path=%s ip=%s", rq.Method, rq.uri(), wantIP[i]), clipS(r.raw, 400)
			}
			if r.code != results[i].status {
				return "end-code:" + kk, fmt.Sprintf("REQ_END code == status the client received (%d)", results[i].status), fmt.Sprintf("code=%d in %s", r.code, clipS(r.raw, 300))
			}
		case "ERR":
			pr[i].err++
			if !rq.panics() {
				return "err-spurious:" + kk, "no Error record for a handler that did not panic", clipS(r.raw, 400)
			}
			if d := wantPanicMatches(cs.Kind, rq.PV, r); d != "" {
				return "err-value:" + kk, "Error record carries the panic value", d
			}
		}
		return "", "", ""
	}
	for idx, pl := range w.Payloads() {
		r, err := parseRecord(cs.Kind, pl)
		if err != nil {
			return "record:" + tag, "every Write is one well-formed record", fmt.Sprintf("write #%d: %v: %q", idx, err, clipS(string(pl), 400))
		}
		switch r.kind {
		case "BEG":
			st.beg++
			i, ok := byURI[r.path]
			if !ok {
				return "beg-unknown:" + tag, "REQ_BEG path is the URI of a request that was sent", clipS(r.raw, 300)
			}
			rq := cs.Reqs[i]
			kk := fmt.Sprintf("%s:%s", tag, specKey(rq))
			pr[i].beg++
			if rq.excluded() {
				tidOwner[r.tid] = i
				continue
			}
			if pr[i].beg > 1 {
				return "beg-dup:" + kk, "exactly one REQ_BEG per request", clipS(r.raw, 300)
			}
			if pr[i].ipSeen == "" {
				pr[i].ipSeen = r.ip
			} else if pr[i].ipSeen != r.ip {
				return "ip-differs:" + kk, "REQ_BEG and REQ_END of a request name the same client ip", fmt.Sprintf("%q earlier, now %s", pr[i].ipSeen, clipS(r.raw, 300))
			}
			if r.method != rq.Method || !ipOK(i, r.ip) {
				return "beg-fields:" + kk, fmt.Sprintf("REQ_BEG with method=%s ip=%s", rq.Method, wantIP[i]), clipS(r.raw, 300)
			}
			if prev, dup := tidOwner[r.tid]; dup {
				return "tid-dup:" + tag, "request ids pairwise distinct", fmt.Sprintf("id %q on requests %d and %d", r.tid, prev, i)
			}
			tidOwner[r.tid] = i
			pr[i].tid = r.tid
			// records that arrived earlier with this tid
			rest := pend[:0]
			for _, p := range pend {
				if p.tid == r.tid {
					if k, e, o := handle(p); k != "" {
						return k, e, o
					}
				} else {
					rest = append(rest, p)
				}
			}
			pend = rest
		case "END":
			st.end++
			if cs.Threshold > 1 {
				return "end-suppressed:" + tag, "no REQ_END below the threshold", clipS(r.raw, 300)
			}
			if _, ok := tidOwner[r.tid]; !ok {
				pend = append(pend, r)
				continue
			}
			if k, e, o := handle(r); k != "" {
				return k, e, o
			}
		case "ERR":
			st.errRecs++
			if cs.Threshold > 1 { // no BEG to join with: judged as a multiset below
				errOnly = append(errOnly, r)
				continue
			}
			if _, ok := tidOwner[r.tid]; !ok {
				pend = append(pend, r)
				continue
			}
			if k, e, o := handle(r); k != "" {
				return k, e, o
			}
		}
	}
	for _, p := range pend {
		if k, e, o := handle(p); k != "" {
			return k, e, o
		}
	}
	npanic := 0
	for i, rq := range cs.Reqs {
		kk := fmt.Sprintf("%s:%s", tag, specKey(rq))
		if rq.excluded() {
			continue
		}
		if rq.panics() {
			npanic++
		}
		if cs.Threshold <= 1 {
			if pr[i].beg != 1 || pr[i].end != 1 {
				return "count:" + kk, "exactly one REQ_BEG and one REQ_END", fmt.Sprintf("%d REQ_BEG, %d REQ_END", pr[i].beg, pr[i].end)
			}
			wantErr := 0
			if rq.panics() {
				wantErr = 1
			}
			if pr[i].err != wantErr {
				return "err-count:" + kk, fmt.Sprintf("%d Error record(s) with the request's id", wantErr), fmt.Sprint(pr[i].err)
			}
		}
	}
	st.panics += int64(npanic)
	if cs.Threshold > 1 {
		wantN := npanic
		if cs.Threshold > 3 {
			wantN = 0
		}
		if len(errOnly) != wantN {
			return "err-count:" + tag, fmt.Sprintf("%d Error records (one per panicking handler)", wantN), fmt.Sprint(len(errOnly))
		}
		// multiset of renderings
		left := map[string]int{}
		for _, rq := range cs.Reqs {
			if rq.panics() && !rq.excluded() {
				left[rq.PV]++
			}
		}
		seen := map[string]bool{}
		for _, r := range errOnly {
			if seen[r.tid] {
				return "tid-dup:" + tag, "request ids pairwise distinct", r.tid
			}
			seen[r.tid] = true
			// the key-less nano format is judged by suffix, so one rendering can be a suffix of
			// another ("net/http: abort Handler" of "copy failed: net/http: abort Handler"): try the
			// longest rendering first, which is the only one that can be meant
			pvs := make([]string, 0, len(left))
			for pv := range left {
				pvs = append(pvs, pv)
			}
			sort.Slice(pvs, func(i, j int) bool {
				if noRendering(pvs[i]) != noRendering(pvs[j]) {
					return noRendering(pvs[j]) // the value without a rendering of its own matches anything: try it last
				}
				a, b := fmt.Sprint(recoveredValue(pvs[i])), fmt.Sprint(recoveredValue(pvs[j]))
				if len(a) != len(b) {
					return len(a) > len(b)
				}
				return pvs[i] < pvs[j]
			})
			matched := false
			for _, pv := range pvs {
				if left[pv] > 0 && wantPanicMatches(cs.Kind, pv, r) == "" {
					left[pv]--
					matched = true
					break
				}
			}
			if !matched && wantN > 0 {
				return "err-value:" + tag, "every Error record renders one of the panic values raised", clipS(r.raw, 300)
			}
		}
	}
	return "", "", ""
}

func specKey(r ReqSpec) string {
	fl := ""
	if r.Flush != "" {
		fl = "," + r.Flush
	}
	if r.Helper != "" {
		fl += ",helper=" + r.Helper
	}
	if r.Odd {
		fl += ",odd"
	}
	return fmt.Sprintf("%s,match=%v,code=%d,body=%v,copy=%v,panic=%s,pv=%s%s", r.Method, r.Match, r.Code, r.Body, r.Copy, r.Panic, r.PV, fl)
}

func clipS(s string, n int) string {
	if len(s) > n {
		return s[:n/2] + "…" + s[len(s)-n/2:]
	}
	return s
}

// ---------------------------------------------------------------------------------------

type mon struct{}

func (mon) Name() string { return "relay" }

func (mon) Level(string) (string, string) {
	return "exploration", "requests whose handler behaviour is encoded in the URI (status 200..599 set once or not at all - every single code in a separate sweep -, body or not, optionally W.Flush()/FlushError() on the untouched response, or answered through the Store's own helpers (Respond200, RespondJson, Redirect, Error404, Error500, a wrapped http.HandlerFunc), panic before / after header / after body / none, twelve panic value kinds incl. error, wrapped error, errors wrapping / joining / textually equal to http.ErrAbortHandler, typed-nil pointer, panic(nil), []byte; matched and unmatched routes) sent (1) over real loopback HTTP connections to an http.Server running Mux+Relay and (2) through ServeHTTP with a recorder (odd RemoteAddr forms, unknown methods), with 1, 8 and 64 requests in flight, for all three log handlers at thresholds Info, Error and Fatal. Every Write on the log destination is parsed as one record; records are joined with the client's log by request id: exactly one REQ_BEG and REQ_END with the request's method/URI/ip/id, END code == status on the wire, 500 iff panic before any write, one Error record with the panic value iff the handler panicked, no panic escaping Relay. Full behaviour product sequentially + seeded concurrent batches; -race build. distinct_nontrivial = distinct (handler, threshold, path, behaviour) combinations observed"
}

type shardArgs struct {
	Mode  string `json:"mode"` // product | conc
	Part  int    `json:"part"`
	Count int    `json:"count,omitempty"`
	N     int    `json:"n,omitempty"`
}

func (mon) Plan(prop, tier string, seed int64) []drv.Shard {
	var out []drv.Shard
	a, _ := json.Marshal(shardArgs{Mode: "product"})
	out = append(out, drv.Shard{Name: "product", Args: a})
	batches, n, raceBatches := 4, 170, 2
	if tier == "thorough" {
		batches, n, raceBatches = 120, 600, 30
	}
	for i, gmp := range []string{"2", "4", "16", "1"} {
		a, _ := json.Marshal(shardArgs{Mode: "conc", Part: i, Count: batches, N: n})
		out = append(out, drv.Shard{Name: "conc-gomaxprocs" + gmp, Args: a, Env: []string{"GOMAXPROCS=" + gmp}})
		a, _ = json.Marshal(shardArgs{Mode: "conc", Part: 10 + i, Count: raceBatches, N: n / 2})
		out = append(out, drv.Shard{Name: "race-gomaxprocs" + gmp, Args: a, Env: []string{"GOMAXPROCS=" + gmp}, Race: true})
	}
	return out
}

var codes = []int{0, 200, 201, 204, 301, 304, 400, 404, 418, 500, 503, 599}
var panicsWhen = []string{"", "before", "afterheader", "afterbody"}
var methodsPool = []string{"GET", "POST", "PUT", "DELETE", "PATCH", "OPTIONS", "BREW"}
var remotes = []string{"192.0.2.1:1234", "[2001:db8::1]:443", "10.0.0.1:1", "[::1]:65535", "203.0.113.77:80"}

func productReqs() []ReqSpec {
	var out []ReqSpec
	n := 0
	for _, code := range codes {
		for _, body := range []bool{false, true} {
			for _, pw := range panicsWhen {
				pvs := []string{""}
				if pw != "" {
					pvs = pvKinds
				}
				for _, pv := range pvs {
					for _, match := range []bool{true, false} {
						if !match && (pw != "" || code != 0 || body) {
							continue // an unmatched route has no behaviour
						}
						n++
						out = append(out, ReqSpec{N: n, Method: methodsPool[n%len(methodsPool)], Match: match, Code: code, Body: body, Copy: body && n%2 == 0, Panic: pw, PV: pv, Remote: remotes[n%len(remotes)]})
						if n%37 == 0 {
							out[len(out)-1].Pad = []int{17000, 20000, 40000}[n%3]
						}
						if n%11 == 0 {
							out[len(out)-1].Odd = true
						}
						if match && code == 0 && !body && (pv == "" || pv == pvKinds[1]) {
							for _, hp := range []string{"respond200", "json", "redirect", "error404", "error500", "std"} {
								n++
								out = append(out, ReqSpec{N: n, Method: methodsPool[n%len(methodsPool)], Match: true, Panic: pw, PV: pv, Helper: hp, Remote: remotes[n%len(remotes)]})
							}
						}
						if match && code == 0 && (pv == "" || pv == pvKinds[0] || pv == pvKinds[len(pvKinds)-1]) {
							for _, fl := range []string{"flush", "flusherr"} {
								n++
								out = append(out, ReqSpec{N: n, Method: methodsPool[n%len(methodsPool)], Match: true, Body: body, Copy: body && n%2 == 0, Panic: pw, PV: pv, Flush: fl, Remote: remotes[n%len(remotes)]})
							}
						}
					}
				}
			}
		}
	}
	return out
}

func randReqs(r *rand.Rand, n int) []ReqSpec {
	out := make([]ReqSpec, n)
	for i := range out {
		rq := ReqSpec{N: i + 1, Method: methodsPool[r.Intn(len(methodsPool))], Match: r.Intn(8) != 0, Remote: remotes[r.Intn(len(remotes))]}
		if rq.Match {
			rq.Code = codes[r.Intn(len(codes))]
			rq.Body = r.Intn(2) == 0
			rq.Copy = rq.Body && r.Intn(2) == 0
			if r.Intn(40) == 0 {
				rq.Pad = 16000 + r.Intn(30000)
			}
			rq.Odd = r.Intn(12) == 0
			if rq.Code == 0 && !rq.Body && r.Intn(4) == 0 {
				rq.Helper = []string{"respond200", "json", "redirect", "error404", "error500", "std"}[r.Intn(6)]
			}
			if rq.Code == 0 && r.Intn(3) == 0 {
				rq.Flush = []string{"flush", "flusherr"}[r.Intn(2)]
			}
			if rq.Helper != "" {
				rq.Flush = ""
			}
			if r.Intn(2) == 0 {
				rq.Panic = panicsWhen[1+r.Intn(3)]
				rq.PV = pvKinds[r.Intn(len(pvKinds))]
			}
		}
		out[i] = rq
	}
	return out
}

func (mn mon) Run(sh drv.Shard, c *drv.Ctx) {
	var a shardArgs
	json.Unmarshal(sh.Args, &a)
	st := &stats{}
	exec := func(cs Case) bool {
		c.Progress(fmt.Sprintf("%s thr=%d wire=%v conc=%d n=%d", cs.Kind, cs.Threshold, cs.Wire, cs.Conc, len(cs.Reqs)), true)
		k, e, o := runCase(cs, st)
		c.Eval(int64(len(cs.Reqs)))
		for _, rq := range cs.Reqs {
			c.DistinctStr(fmt.Sprintf("%s/%d/%v/%s", cs.Kind, cs.Threshold, cs.Wire, specKey(rq)))
		}
		if k != "" {
			c.Violate(k, cs, e, o)
			return c.NumViolations() < 5
		}
		return true
	}
	switch a.Mode {
	case "product":
		reqs := productReqs()
		c.Sample(map[string]any{"request_uri": reqs[37].uri(), "method": reqs[37].Method, "expected_status": reqs[37].wantStatus()})
		for _, kind := range logrun.Kinds {
			for _, thr := range []int{1, 3, 4} {
				for _, wire := range []bool{false, true} {
					cs := Case{Kind: kind, Threshold: thr, Wire: wire, Conc: 1, Reqs: reqs}
					if wire {
						for i := range cs.Reqs {
							if cs.Reqs[i].Method == "BREW" { // keep wire methods standard tokens
								cs.Reqs[i].Method = "GET"
							}
						}
					}
					if !exec(cs) {
						return
					}
				}
			}
			// the same product behind a response writer that cannot flush
			if !exec(Case{Kind: kind, Threshold: 1, Wire: false, Conc: 1, Reqs: reqs, NoFlush: true}) {
				return
			}
		}
		// every status code 200..599, set once, with and without a body, no panic
		var all []ReqSpec
		for code := 200; code <= 599; code++ {
			for _, body := range []bool{false, true} {
				all = append(all, ReqSpec{N: len(all) + 1, Method: "GET", Match: true, Code: code, Body: body, Copy: body && code%2 == 0, Remote: remotes[code%len(remotes)]})
			}
		}
		for i, kind := range logrun.Kinds {
			if !exec(Case{Kind: kind, Threshold: 1, Wire: i == 1, Conc: 1 + 7*(i%2), Reqs: all}) {
				return
			}
		}
		// IPv6 loopback, when available
		exec(Case{Kind: "json", Threshold: 1, Wire: true, V6: true, Conc: 4, Reqs: reqs[:200]})
	case "conc":
		r := rand.New(rand.NewSource(sh.Seed*65537 + int64(a.Part)))
		for i := 0; i < a.Count; i++ {
			cs := Case{Kind: logrun.Kinds[i%3], Threshold: []int{1, 1, 1, 3}[r.Intn(4)], Wire: r.Intn(3) != 0, Conc: []int{8, 64}[r.Intn(2)], Reqs: randReqs(r, a.N)}
			cs.NoFlush = !cs.Wire && r.Intn(2) == 0
			if c.NumSamples() < 1 {
				c.Sample(map[string]any{"handler": cs.Kind, "threshold": cs.Threshold, "wire": cs.Wire, "in_flight": cs.Conc, "requests": len(cs.Reqs), "first": cs.Reqs[0].uri()})
			}
			if !exec(cs) {
				break
			}
		}
	}
	c.Add("requests", st.requests)
	c.Add("requests_over_loopback_http", st.wire)
	c.Add("requests_via_recorder", st.direct)
	c.Add("req_beg_records", st.beg)
	c.Add("req_end_records", st.end)
	c.Add("error_records", st.errRecs)
	c.Add("handler_panics", st.panics)
	c.Add("responses_500", st.status500)
	c.Add("requests_aborting_with_ErrAbortHandler(not_judged)", st.excluded)
	c.MaxOf("requests_in_flight", st.maxInflight)
}

func (mn mon) Replay(v drv.Violation, c *drv.Ctx) {
	var cs Case
	if err := json.Unmarshal(v.Case, &cs); err != nil {
		c.Inconclusive("replay: cannot decode case: " + err.Error())
		return
	}
	for i := 0; i < 5; i++ {
		k, e, o := runCase(cs, &stats{})
		c.Eval(int64(len(cs.Reqs)))
		if k != "" {
			c.Violate(k, cs, e, o)
			return
		}
	}
}

var _ = url.Parse

func main() { drv.Main(mon{}) }
