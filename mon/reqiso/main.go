// Monitor reqiso (C05): pooled per-request state never leaks between requests.
// Oracle: differential – every request of a history served by one long-lived Mux must be
// observed (relay handler, route handler, no-route handler) exactly as the same request on a
// fresh Mux holding the routes registered so far; request IDs unique, stable, same prefix.
// See DESIGN.md §3 C05.
package main

import (
	"context"
	"encoding/json"
	"fmt"
	"math/rand"
	"net/http"
	"net/url"
	"strings"
	"sync"

	"github.com/whoisnian/glb/httpd"

	"verif/internal/drv"
)

// all parameter names that exist anywhere in the table, plus one that never does
var names = []string{"x", "y", "z", "a", "b", "c", "nope"}

type obs struct {
	relayCalls, calls int
	route             string // I.Path + " " + I.Method as seen by the handler ("<noroute>" for the no-route handler)
	relayRoute        string
	params            [7]string
	anyv              string
	relayParams       [7]string
	relayAny          string
	statusEntry       int
	relayStatusEntry  int
	idRelay, idEntry  string
	idExit            string
	idAfter           string // relay, after the handler returned
	panicked          bool
	// hdr is this request's own response header; the relay puts GetID() into it as it is (no
	// copy), the way a handler sets an X-Request-Id header. The response is read later.
	hdr http.Header
}

// content comparable between the long-lived and the fresh Mux (IDs excluded)
func (o *obs) content() string {
	return fmt.Sprintf("relayCalls=%d calls=%d relay{route=%q params=%q any=%q status=%d} handler{route=%q params=%q any=%q status=%d}",
		o.relayCalls, o.calls, o.relayRoute, o.relayParams, o.relayAny, o.relayStatusEntry, o.route, o.params, o.anyv, o.statusEntry)
}

// recWriter is the http.ResponseWriter handed to ServeHTTP; it carries the observation slot
// of the current request so that handlers (shared by all goroutines) find it.
type recWriter struct {
	h http.Header
	o *obs
}

func (w *recWriter) Header() http.Header         { return w.h }
func (w *recWriter) Write(b []byte) (int, error) { return len(b), nil }
func (w *recWriter) WriteHeader(int)             {}

const idHeader = "X-Request-Id"

// sent is one response as its client finds it later: the header the relay set, and what the id was.
type sent struct {
	hdr  http.Header
	id   string
	what string
}

// checkSent: the id a response carries is the id its request had - whatever was served since.
func checkSent(list []sent) (key, expected, observed string) {
	for _, r := range list {
		if got := r.hdr.Get(idHeader); got != r.id {
			return "id-header:" + r.what, fmt.Sprintf("the response of this request carries the id the request had while it was served (%q), whatever was served afterwards", r.id),
				fmt.Sprintf("read after the later requests of the history, the header says %q", got)
		}
	}
	return "", "", ""
}

func lookups(s *httpd.Store, dst *[7]string) string {
	for i, n := range names {
		dst[i] = s.RouteParam(n)
	}
	return s.RouteParamAny()
}

func relay(s *httpd.Store) {
	o := s.W.Origin.(*recWriter).o
	o.relayCalls++
	if s.I != nil {
		o.relayRoute = s.I.Path + " " + s.I.Method
	} else {
		o.relayRoute = "<nil I>"
	}
	o.relayAny = lookups(s, &o.relayParams)
	o.relayStatusEntry = s.W.Status
	o.idRelay = strings.Clone(s.GetID())
	s.W.Header().Set(idHeader, s.GetID())
	s.I.HandlerFunc(s)
	o.idAfter = strings.Clone(s.GetID())
}

func handler(status int, boom bool) httpd.HandlerFunc {
	return func(s *httpd.Store) {
		o := s.W.Origin.(*recWriter).o
		o.calls++
		if s.I.Path == "" {
			o.route = "<noroute>"
		} else {
			o.route = s.I.Path + " " + s.I.Method
		}
		o.anyv = lookups(s, &o.params)
		o.statusEntry = s.W.Status
		o.idEntry = strings.Clone(s.GetID())
		if status != 0 {
			s.W.WriteHeader(status)
		}
		o.idExit = strings.Clone(s.GetID())
		if boom {
			o.panicked = true
			panic("boom (harness handler panics on purpose)")
		}
	}
}

type route struct {
	p, m   string
	status int
	boom   bool
}

var baseRoutes = []route{
	{"/", "GET", 209, false}, // the root route has its own fast path in the router
	{"/s", "GET", 201, false},
	{"/a/:x", "GET", 202, false},
	{"/u/:a/:b", "GET", 0, false},
	{"/p/:x", "GET", 203, true},
	{"/w/*", "*", 204, false},
}

// registered by the "rg" op, in this order: each has more parameters than any before
var extraRoutes = []route{
	{"/b/:x/:y", "GET", 205, false},
	{"/c/:x/:y/:z", "GET", 0, false},
	// a jump: far more parameters than any route had when the pooled Stores were made
	{"/j/:a/:b/:c/:d/:e/:f/:g/:h/:i/:j/:k/:l/:x/:y", "GET", 210, false},
	{"/d/:a/:x/:y/:z", "GET", 206, false},
	{"/e/:a/:b/:x/:y/*", "GET", 207, false},
	{"/f/:a/:b/:c/:x/:y/:z", "GET", 0, false},
	{"/g/:a/:b/:c/:x/:y/:z/*", "GET", 208, false},
	{"/k" + strings.Repeat("/:p", 0) + manyParams(40) + "/:x/:y/*", "GET", 211, false},
}

func manyParams(n int) string {
	var sb strings.Builder
	for i := 0; i < n; i++ {
		fmt.Fprintf(&sb, "/:q%d", i)
	}
	return sb.String()
}

func newMux(extra int) *httpd.Mux {
	mux := httpd.NewMux()
	mux.HandleRelay(relay)
	mux.HandleNoRoute(handler(404, false))
	for _, r := range baseRoutes {
		mux.Handle(r.p, r.m, handler(r.status, r.boom))
	}
	for _, r := range extraRoutes[:extra] {
		mux.Handle(r.p, r.m, handler(r.status, r.boom))
	}
	return mux
}

type req struct {
	m, p string
	cx   bool // the request's context has already been cancelled when it is served (a client that went away)
}

var cancelledCtx = func() context.Context {
	c, cancel := context.WithCancel(context.Background())
	cancel()
	return c
}()

// request of op at step k with `extra` routes registered
func opRequest(op string, k, extra int) req {
	switch op {
	case "m0":
		return req{"GET", "/s", false}
	case "cx":
		return req{"GET", fmt.Sprintf("/a/c%d", k), true}
	case "mr":
		return req{"GET", "/", false}
	case "m1":
		return req{"GET", fmt.Sprintf("/a/v%d", k), false}
	case "m2":
		return req{"GET", fmt.Sprintf("/u/p%d/q%d", k, k), false}
	case "ma":
		return req{"PUT", fmt.Sprintf("/w/r/s/t%d", k), false}
	case "un":
		return req{"GET", fmt.Sprintf("/zzz/%d", k), false}
	case "pm": // captures two values, then fails at the method node
		return req{"POST", fmt.Sprintf("/u/P%d/Q%d", k, k), false}
	case "pn":
		return req{"GET", fmt.Sprintf("/p/boom%d", k), false}
	case "sr":
		if extra == 0 {
			return req{"GET", fmt.Sprintf("/b/n%d/m%d", k, k), false} // not registered yet
		}
		pat := extraRoutes[extra-1].p
		parts := strings.Split(pat, "/")
		for i, s := range parts {
			if strings.HasPrefix(s, ":") {
				parts[i] = fmt.Sprintf("%s%d", s[1:], k)
			} else if s == "*" {
				parts[i] = fmt.Sprintf("rest/of%d/", k)
			}
		}
		return req{"GET", strings.Join(parts, "/"), false}
	}
	panic("unknown op " + op)
}

var alphabet = []string{"m0", "mr", "m1", "m2", "ma", "un", "pm", "pn", "rg", "sr", "cx"}

type Case struct {
	Ops []string `json:"ops,omitempty"`
	// concurrent mode
	G    int   `json:"g,omitempty"`
	N    int   `json:"n,omitempty"`
	Seed int64 `json:"seed,omitempty"`
}

type stats struct {
	requests, matched, noroute, panics, registrations int64
	ids, responsesReadLater                           int64
}

func serve(mux *httpd.Mux, w *recWriter, hr *http.Request, rq req) (o obs, escaped any) {
	w.o = &o
	w.h = http.Header{}
	o.hdr = w.h
	hr.Method, hr.URL.Path = rq.m, rq.p
	if rq.cx {
		hr = hr.WithContext(cancelledCtx) // shallow copy: same URL and Header
	}
	func() {
		defer func() { escaped = recover() }()
		mux.ServeHTTP(w, hr)
	}()
	return o, escaped
}

func checkIDs(o *obs, prefix *string, seen map[string]struct{}) string {
	id := o.idRelay
	if len(id) < 10 || id[8] != '-' {
		return fmt.Sprintf("malformed id %q", id)
	}
	if *prefix == "" {
		*prefix = id[:9]
	} else if id[:9] != *prefix {
		return fmt.Sprintf("id %q does not carry the Mux prefix %q", id, *prefix)
	}
	if o.calls == 1 && (o.idEntry != id || o.idExit != id) {
		return fmt.Sprintf("id changed during the request: relay %q handler entry %q exit %q", id, o.idEntry, o.idExit)
	}
	if !o.panicked && o.idAfter != id {
		return fmt.Sprintf("id changed during the request: relay before %q after %q", id, o.idAfter)
	}
	if seen != nil {
		if _, dup := seen[id]; dup {
			return fmt.Sprintf("id %q used twice in one Mux", id)
		}
		seen[id] = struct{}{}
	}
	return ""
}

func runSeq(cs Case, st *stats) (key, expected, observed string) {
	mux := newMux(0)
	extra := 0
	w := &recWriter{h: http.Header{}}
	hr := &http.Request{URL: &url.URL{}, Header: http.Header{}}
	fw := &recWriter{h: http.Header{}}
	fr := &http.Request{URL: &url.URL{}, Header: http.Header{}}
	prefix := ""
	seen := map[string]struct{}{}
	hist := strings.Join(cs.Ops, ",")
	var responses []sent
	for k, op := range cs.Ops {
		if op == "rg" {
			if extra < len(extraRoutes) {
				r := extraRoutes[extra]
				mux.Handle(r.p, r.m, handler(r.status, r.boom))
				extra++
				st.registrations++
			}
			continue
		}
		rq := opRequest(op, k, extra)
		got, esc := serve(mux, w, hr, rq)
		want, wesc := serve(newMux(extra), fw, fr, rq)
		st.requests++
		kk := fmt.Sprintf("%s@%d(%s %s)|%s", op, k, rq.m, rq.p, hist)
		if (esc != nil) != (wesc != nil) || (esc != nil && !got.panicked) {
			return "panic:" + kk, fmt.Sprintf("as on a fresh Mux: panic=%v", wesc), fmt.Sprintf("panic=%v", esc)
		}
		if got.panicked {
			st.panics++
		}
		if got.route == "<noroute>" {
			st.noroute++
		} else {
			st.matched++
		}
		if g, wnt := got.content(), want.content(); g != wnt {
			return "diff:" + kk, "as on a fresh Mux: " + wnt, g
		}
		if got.relayCalls != 1 || got.calls != 1 {
			return "calls:" + kk, "relay and handler invoked once", got.content()
		}
		if msg := checkIDs(&got, &prefix, seen); msg != "" {
			return "id:" + kk, "request id unique within the Mux, constant during the request, with the Mux prefix", msg
		}
		st.ids++
		responses = append(responses, sent{got.hdr, got.idRelay, kk})
	}
	st.responsesReadLater += int64(len(responses))
	return checkSent(responses)
}

// concurrent: all routes registered up front, G goroutines × N requests on one Mux;
// expectations pre-computed on fresh Muxes.
func runConc(cs Case, st *stats) (key, expected, observed string) {
	extra := len(extraRoutes)
	mux := newMux(extra)
	type plan struct {
		rq   req
		want string
	}
	r0 := rand.New(rand.NewSource(cs.Seed))
	var kinds []plan
	ops := []string{"m0", "mr", "m1", "m2", "ma", "un", "pm", "pn", "sr", "cx"}
	fw := &recWriter{h: http.Header{}}
	fr := &http.Request{URL: &url.URL{}, Header: http.Header{}}
	for i := 0; i < 64; i++ {
		op := ops[r0.Intn(len(ops))]
		ex := extra
		if op == "sr" {
			ex = 1 + r0.Intn(extra)
		}
		rq := opRequest(op, i, ex)
		want, _ := serve(newMux(extra), fw, fr, rq)
		kinds = append(kinds, plan{rq, want.content()})
	}
	type res struct {
		key, exp, obs string
		ids           []string
		n, panics     int64
		responses     []sent
	}
	out := make([]res, cs.G)
	var wg sync.WaitGroup
	start := make(chan struct{})
	for g := 0; g < cs.G; g++ {
		wg.Add(1)
		go func(g int) {
			defer wg.Done()
			r := rand.New(rand.NewSource(cs.Seed*131 + int64(g)))
			w := &recWriter{h: http.Header{}}
			hr := &http.Request{URL: &url.URL{}, Header: http.Header{}}
			prefix := ""
			rs := &out[g]
			rs.ids = make([]string, 0, cs.N)
			<-start
			for i := 0; i < cs.N; i++ {
				pl := kinds[r.Intn(len(kinds))]
				got, esc := serve(mux, w, hr, pl.rq)
				rs.n++
				kk := fmt.Sprintf("conc(%s %s)", pl.rq.m, pl.rq.p)
				if esc != nil && !got.panicked {
					rs.key, rs.exp, rs.obs = "panic:"+kk, "no panic caused by residue", fmt.Sprint(esc)
					return
				}
				if got.panicked {
					rs.panics++
				}
				if c := got.content(); c != pl.want {
					rs.key, rs.exp, rs.obs = "diff:"+kk, "as on a fresh Mux: "+pl.want, c
					return
				}
				if msg := checkIDs(&got, &prefix, nil); msg != "" {
					rs.key, rs.exp, rs.obs = "id:"+kk, "stable id with Mux prefix", msg
					return
				}
				rs.ids = append(rs.ids, got.idRelay)
				rs.responses = append(rs.responses, sent{got.hdr, got.idRelay, kk})
			}
		}(g)
	}
	close(start)
	wg.Wait()
	seen := map[string]struct{}{}
	for g := range out {
		st.requests += out[g].n
		st.panics += out[g].panics
		if out[g].key != "" {
			return out[g].key, out[g].exp, out[g].obs
		}
		for _, id := range out[g].ids {
			if _, dup := seen[id]; dup {
				return "id:conc-duplicate", "request ids unique within the Mux", fmt.Sprintf("id %q handed to two concurrent requests", id)
			}
			seen[id] = struct{}{}
		}
	}
	st.ids += int64(len(seen))
	for g := range out {
		st.responsesReadLater += int64(len(out[g].responses))
		if k, e, o := checkSent(out[g].responses); k != "" {
			return k, e, o
		}
	}
	return "", "", ""
}

func runCase(cs Case, st *stats) (string, string, string) {
	if cs.G > 0 {
		return runConc(cs, st)
	}
	return runSeq(cs, st)
}

// ---------------------------------------------------------------------------------------

type mon struct{}

func (mon) Name() string { return "reqiso" }

func (mon) Level(string) (string, string) {
	return "exploration", "request histories on one long-lived Mux, each request compared with the same request on a fresh Mux holding the routes registered so far (relay handler, route handler and no-route handler all look up every parameter name of the table + an unknown one, RouteParamAny, W.Status at entry, GetID at entry/exit; the relay also puts GetID() into the response header as it is, and every response's header is read again at the end of the history - it must still carry the id its request had). Exhaustive: all histories of ≤4 (quick) / ≤6 (thorough) ops over the 10-op alphabet {matched 0/1/2 params, the root route '/', matched *, unmatched, partial match failing at the method node, panicking handler, register a route with more parameters than any before, serve the newest such route} on one goroutine (maximal Store reuse); seeded random histories of ≤200 ops; concurrent runs (4..16 goroutines) plain and under -race with an ID-uniqueness set. distinct_nontrivial = distinct histories containing at least two requests (by op sequence)"
}

type shardArgs struct {
	Kind  string `json:"kind"`
	Len   int    `json:"len,omitempty"`
	Part  int    `json:"part"`
	Parts int    `json:"parts"`
	Count int    `json:"count,omitempty"`
	G     int    `json:"g,omitempty"`
	N     int    `json:"n,omitempty"`
}

func (mon) Plan(prop, tier string, seed int64) []drv.Shard {
	var out []drv.Shard
	parts := 16
	maxLen, nrand, nconc, nrace := 4, 2000, 3, 2
	if tier == "thorough" {
		maxLen, nrand, nconc, nrace = 6, 400000, 150, 80
	}
	for p := 0; p < parts; p++ {
		a, _ := json.Marshal(shardArgs{Kind: "exh", Len: maxLen, Part: p, Parts: parts})
		out = append(out, drv.Shard{Name: fmt.Sprintf("exh-%d", p), Args: a})
	}
	for p := 0; p < parts; p++ {
		a, _ := json.Marshal(shardArgs{Kind: "rand", Part: p, Parts: parts, Count: nrand / parts})
		out = append(out, drv.Shard{Name: fmt.Sprintf("rand-%d", p), Args: a})
	}
	for i, gmp := range []string{"2", "4", "16", "1"} {
		a, _ := json.Marshal(shardArgs{Kind: "conc", Part: i, Count: nconc, G: []int{4, 16, 16, 8}[i], N: 10000})
		out = append(out, drv.Shard{Name: "conc-gomaxprocs" + gmp, Args: a, Env: []string{"GOMAXPROCS=" + gmp}, Solo: true})
		a, _ = json.Marshal(shardArgs{Kind: "conc", Part: 10 + i, Count: nrace, G: []int{4, 8, 16, 8}[i], N: 3000})
		out = append(out, drv.Shard{Name: "race-gomaxprocs" + gmp, Args: a, Env: []string{"GOMAXPROCS=" + gmp}, Race: true, Solo: true})
	}
	return out
}

func (mn mon) Run(sh drv.Shard, c *drv.Ctx) {
	var a shardArgs
	json.Unmarshal(sh.Args, &a)
	st := &stats{}
	exec := func(cs Case) bool {
		k, e, o := runCase(cs, st)
		c.Eval(1)
		if cs.G > 0 {
			c.DistinctStr(fmt.Sprintf("conc g=%d seed=%d", cs.G, cs.Seed))
		} else if len(cs.Ops) >= 2 {
			c.DistinctStr(strings.Join(cs.Ops, ","))
		}
		if k != "" {
			c.Violate(k, cs, e, o)
			return c.NumViolations() < 5
		}
		return true
	}
	switch a.Kind {
	case "exh":
		idx := 0
		var rec func(prefix []string) bool
		rec = func(prefix []string) bool {
			if len(prefix) > 0 {
				idx++
				if idx%a.Parts == a.Part {
					cs := Case{Ops: append([]string(nil), prefix...)}
					if c.NumSamples() < 2 && len(prefix) == a.Len {
						c.Sample(cs)
					}
					if !exec(cs) {
						return false
					}
				}
			}
			if len(prefix) == a.Len {
				return true
			}
			for _, op := range alphabet {
				if !rec(append(prefix, op)) {
					return false
				}
			}
			return true
		}
		rec(nil)
	case "rand":
		r := rand.New(rand.NewSource(sh.Seed*104729 + int64(a.Part)))
		for i := 0; i < a.Count; i++ {
			n := 10 + r.Intn(191)
			cs := Case{}
			for j := 0; j < n; j++ {
				op := alphabet[r.Intn(len(alphabet))]
				if op == "rg" && r.Intn(4) != 0 {
					op = "sr"
				}
				cs.Ops = append(cs.Ops, op)
			}
			if !exec(cs) {
				break
			}
		}
	case "conc":
		for i := 0; i < a.Count; i++ {
			cs := Case{G: a.G, N: a.N, Seed: sh.Seed*31 + int64(a.Part*1000+i)}
			if c.NumSamples() < 1 {
				c.Sample(cs)
			}
			if !exec(cs) {
				break
			}
		}
	}
	c.Add("requests", st.requests)
	c.Add("requests_matched", st.matched)
	c.Add("requests_noroute", st.noroute)
	c.Add("handler_panics_recovered_by_harness", st.panics)
	c.Add("registrations_between_requests", st.registrations)
	c.Add("ids_checked_unique", st.ids)
	c.Add("response_id_headers_read_after_later_requests", st.responsesReadLater)
}

func (mn mon) Replay(v drv.Violation, c *drv.Ctx) {
	var cs Case
	if err := json.Unmarshal(v.Case, &cs); err != nil {
		c.Inconclusive("replay: cannot decode case: " + err.Error())
		return
	}
	n := 1
	if cs.G > 0 {
		n = 20 // schedule dependent: repeat
	}
	for i := 0; i < n; i++ {
		k, e, o := runCase(cs, &stats{})
		c.Eval(1)
		if k != "" {
			c.Violate(k, cs, e, o)
			return
		}
	}
}

func main() { drv.Main(mon{}) }
