package main

import (
	"fmt"
	"math/rand"
	"strings"
)

// Big cases: tables and requests beyond the sizes the other shards use – deep patterns (up to 300
// fragments and parameters), wide nodes (up to 16 385 literal siblings next to a parameter and a
// catch-all; thorough 70 000), long fragments and values (up to 70 000 bytes), long parameter names. A fixed-size
// array, a narrower integer, a pooled slice sized for the common case or a fast path for short
// paths shows only here. The oracle is the same reference router.

var bigDepths = []int{5, 6, 7, 8, 9, 12, 15, 16, 17, 24, 31, 32, 33, 63, 64, 65, 127, 128, 129, 255, 256, 257, 300}
var bigLens = []int{63, 64, 65, 127, 128, 129, 255, 256, 257, 1023, 1024, 1025, 4095, 4096, 4097, 65535, 65536, 65537, 70000}

func bigCases(r *rand.Rand, thorough bool) []Case {
	var out []Case
	methods := []string{"GET", "POST", "*", "DELETE"}
	// deep
	for _, d := range bigDepths {
		var cs Case
		var pp, lp, mp strings.Builder
		for i := 0; i < d; i++ {
			fmt.Fprintf(&pp, "/:p%d", i)
			fmt.Fprintf(&lp, "/s%d", i)
			if i%2 == 0 {
				fmt.Fprintf(&mp, "/m%d", i)
			} else {
				fmt.Fprintf(&mp, "/:q%d", i)
			}
		}
		cs.Routes = []Route{
			{"/P" + pp.String(), methods[r.Intn(3)]},
			{"/L" + lp.String(), "GET"},
			{"/M" + mp.String() + "/*", methods[r.Intn(3)]},
			{"/P" + pp.String() + "/tail", "POST"},
			{pp.String(), "GET"}, // parameters from the very first fragment
		}
		val := func(i int) string { return fmt.Sprintf("v%d-%d", i, r.Intn(1000)) }
		build := func(prefix string, n int, lit func(i int) string) string {
			var sb strings.Builder
			sb.WriteString(prefix)
			for i := 0; i < n; i++ {
				sb.WriteByte('/')
				sb.WriteString(lit(i))
			}
			return sb.String()
		}
		for _, n := range []int{d - 1, d, d + 1} {
			for _, m := range []string{"GET", "POST", "DELETE", "MKCALENDAR"} {
				cs.Reqs = append(cs.Reqs,
					Req{m, build("/P", n, val)},
					Req{m, build("/P", n, val) + "/tail"},
					Req{m, build("/P", n, val) + "/"},
					Req{m, build("/L", n, func(i int) string { return fmt.Sprintf("s%d", i) })},
					Req{m, build("/M", n, func(i int) string {
						if i%2 == 0 {
							return fmt.Sprintf("m%d", i)
						}
						return val(i)
					}) + "/rest/of/it"},
					Req{m, build("", n, val)},
				)
			}
		}
		cs.Incremental = d%2 == 0
		out = append(out, cs)
	}
	// wide
	wides := []int{255, 256, 257, 1000, 4097}
	if thorough {
		wides = append(wides, 65535, 65536, 65537, 70000)
	} else {
		wides = append(wides, 16385) // (the reference router checks a new route against every earlier one: quadratic)
	}
	for _, n := range wides {
		var cs Case
		for i := 0; i < n; i++ {
			cs.Routes = append(cs.Routes, Route{fmt.Sprintf("/w/k%d", i), methods[i%2*2]}) // GET or *
		}
		cs.Routes = append(cs.Routes, Route{"/w/:id", "GET"}, Route{"/w/*", "POST"}, Route{"/w/:id/sub", "GET"}, Route{"/w/k7/sub", "GET"})
		for _, i := range []int{0, 1, 7, 127, 128, 254, 255, 256, 257, n / 2, n - 2, n - 1, n, n + 1, 65535, 65536} {
			for _, m := range []string{"GET", "POST", "PUT"} {
				cs.Reqs = append(cs.Reqs, Req{m, fmt.Sprintf("/w/k%d", i)}, Req{m, fmt.Sprintf("/w/k%d/sub", i)}, Req{m, fmt.Sprintf("/w/k%d/", i)})
			}
		}
		for i := 0; i < 40; i++ {
			cs.Reqs = append(cs.Reqs, Req{"GET", fmt.Sprintf("/w/k%d", r.Intn(n+5))})
		}
		out = append(out, cs)
	}
	// many routes spread over methods and shapes (tables far larger than the random shard's 40)
	for _, n := range []int{300, 1200} {
		var cs Case
		for i := 0; i < n; i++ {
			switch i % 4 {
			case 0:
				cs.Routes = append(cs.Routes, Route{fmt.Sprintf("/t%d/:a/x%d", i%37, i), methods10[i%10]})
			case 1:
				cs.Routes = append(cs.Routes, Route{fmt.Sprintf("/t%d/y%d/:b", i%37, i), methods10[i%10]})
			case 2:
				cs.Routes = append(cs.Routes, Route{fmt.Sprintf("/t%d/:a/:c%d/*", i%37, i%5), methods10[i%9]})
			default:
				cs.Routes = append(cs.Routes, Route{fmt.Sprintf("/t%d/z%d", i%37, i), "*"})
			}
		}
		for i := 0; i < 400; i++ {
			k := r.Intn(n + 3)
			p := [][]string{
				{fmt.Sprintf("/t%d/val/x%d", k%37, k)},
				{fmt.Sprintf("/t%d/y%d/val", k%37, k)},
				{fmt.Sprintf("/t%d/val/w/more/and/more", k%37)},
				{fmt.Sprintf("/t%d/z%d", k%37, k)},
			}[r.Intn(4)][0]
			cs.Reqs = append(cs.Reqs, Req{methods10[r.Intn(9)], p})
		}
		cs.Incremental = false
		out = append(out, cs)
	}
	// long fragments, values and parameter names
	for _, l := range bigLens {
		lit := strings.Repeat("L", l)
		name := strings.Repeat("n", l)
		val := strings.Repeat("v", l-1) + "é"
		cs := Case{Routes: []Route{
			{"/" + lit + "/:x/*", "GET"},
			{"/" + lit + "x", "GET"},
			{"/p/:" + name, "GET"},
			{"/p/:" + name + "/:" + name + "2", "POST"},
			{"/q/:x", "*"},
		}}
		for _, m := range []string{"GET", "POST"} {
			cs.Reqs = append(cs.Reqs,
				Req{m, "/" + lit + "/" + val + "/" + val + "/" + val},
				Req{m, "/" + lit[:l-1] + "/" + val + "/r"},
				Req{m, "/" + lit + "x"},
				Req{m, "/" + lit + "y"},
				Req{m, "/p/" + val},
				Req{m, "/p/" + val + "/" + lit},
				Req{m, "/q/" + val},
				Req{m, "/q/" + lit + lit},
				Req{m, "/q/" + strings.Repeat("/", l) + val},
			)
		}
		out = append(out, cs)
	}
	return out
}
