// Monitor route (C04): the router dispatches every request to exactly one handler by the
// documented precedence. Oracle: the reference router in model.go; invocation counter;
// recover(). See DESIGN.md §3 C04.
package main

import (
	"context"
	"io"
	"log/slog"

	"encoding/json"
	"fmt"
	"github.com/whoisnian/glb/logger"
	"math/rand"
	"net/http"
	"net/url"
	"runtime"
	"sort"
	"strings"
	"sync"
	"sync/atomic"
	"time"

	"github.com/whoisnian/glb/httpd"

	"verif/internal/drv"
)

type Route struct {
	P string `json:"p"`
	M string `json:"m"`
}

type Req struct {
	M string `json:"m"`
	P string `json:"p"`
}

// Case: a table and the requests sent to it. Std=true means the standard request set.
type Case struct {
	Routes []Route `json:"routes"`
	Std    bool    `json:"std,omitempty"`
	// PanicEvery > 0: every n-th handler invocation panics after observing (the harness recovers,
	// like net/http does per connection); later requests must be dispatched as if nothing happened.
	PanicEvery int `json:"panic_every,omitempty"`
	// Conc > 0: after registration the requests are served by that many goroutines at once on the
	// one Mux (each goroutine walks the whole request list, starting at its own offset).
	Conc int `json:"conc,omitempty"`
	// Incremental: the request list is served after EVERY registration (judged by the model of the
	// routes registered so far): routes are added to a Mux that has already served requests.
	Incremental bool `json:"incremental,omitempty"`
	// Relay > 0: the Mux gets the logger package's Relay as its relay handler (what an application
	// does to have its requests logged), with a logger whose threshold is INFO (1), ERROR (2: the
	// request records are suppressed) or FATAL (3); dispatch is the same through it.
	Relay int `json:"relay,omitempty"`
	// CancelledCtx: every request of the case carries a context that is already cancelled (a client that
	// went away): dispatch does not depend on it.
	CancelledCtx bool  `json:"cancelled_ctx,omitempty"`
	Reqs         []Req `json:"reqs,omitempty"`
}

type handlerPanic struct{}

type nullWriter struct {
	h http.Header
	o *obs // observation slot of the request being served through this writer
}

func (w *nullWriter) Header() http.Header         { return w.h }
func (w *nullWriter) Write(b []byte) (int, error) { return len(b), nil }
func (w *nullWriter) WriteHeader(int)             {}

// obs is what the (single) invoked handler observed.
type obs struct {
	calls   int
	route   int // -1 = no-route handler
	iPath   string
	iMethod string
	params  []string // RouteParam for each name in names
	any     string
}

type stats struct {
	dispatches, matched, noroute, tablesInvalid, malformedAsRooted, malformedAsNoRoute, handlerPanics, concDispatches int64
}

var stdReqs = buildStdReqs()

func buildStdReqs() []Req {
	var paths []string
	segs := []string{"a", "b", ""}
	var rec func(prefix []string, n int)
	rec = func(prefix []string, n int) {
		paths = append(paths, "/"+strings.Join(prefix, "/"))
		if n == 4 {
			return
		}
		for _, s := range segs {
			rec(append(prefix, s), n+1)
		}
	}
	rec(nil, 0)
	paths = append(paths, "/:x", "/*", "/a/:x", "/a/*", "/:x/a", "/*/a", "/a/b/:y", "/b/*/a", "/a/a/a/a/a", "/a/b/a/b/")
	paths = append(paths, "", "*", "a", "a/b", "//", "///a", "a/", ":x", "b//a")
	seen := map[string]bool{}
	var out []Req
	for _, p := range paths {
		if seen[p] {
			continue
		}
		seen[p] = true
		for _, m := range []string{"GET", "POST", "", "BREW", "PROPFIND"} {
			out = append(out, Req{m, p})
		}
	}
	return out
}

func tableKey(rs []Route) string {
	var sb strings.Builder
	for _, r := range rs {
		sb.WriteString(r.M)
		sb.WriteByte(' ')
		sb.WriteString(r.P)
		sb.WriteByte(';')
	}
	return sb.String()
}

// runCase registers the table on a fresh Mux and the model, sends the requests, and returns
// the first disagreement.
func runCase(cs Case, st *stats) (key, expected, observed string) {
	mt := &mtable{}
	mux := httpd.NewMux()
	var o obs
	nameSet := map[string]bool{"zz_unknown": true}
	for _, r := range cs.Routes {
		if sg, ok := parsePattern(r.P); ok {
			for _, s := range sg {
				if s.kind == kParam {
					nameSet[s.text] = true
				}
			}
		}
	}
	names := make([]string, 0, len(nameSet))
	for n := range nameSet {
		names = append(names, n)
	}
	sort.Strings(names)
	var invocations atomic.Int64
	observe := func(idx int) httpd.HandlerFunc {
		return func(s *httpd.Store) {
			o := &o // sequential mode: the case-wide slot
			if nw, ok := s.W.Origin.(*nullWriter); ok && nw.o != nil {
				o = nw.o
			}
			if n := invocations.Add(1); cs.PanicEvery > 0 && n%int64(cs.PanicEvery) == 0 {
				defer panic(handlerPanic{})
			}
			o.calls++
			o.route = idx
			if s.I != nil {
				o.iPath, o.iMethod = s.I.Path, s.I.Method
			} else {
				o.iPath, o.iMethod = "<nil I>", "<nil I>"
			}
			o.params = o.params[:0]
			for _, n := range names {
				o.params = append(o.params, s.RouteParam(n))
			}
			o.any = s.RouteParamAny()
		}
	}
	mux.HandleNoRoute(observe(-1))
	if cs.Relay > 0 {
		lv := []slog.Level{logger.LevelInfo, logger.LevelInfo, logger.LevelError, logger.LevelFatal}[cs.Relay%4]
		mux.HandleRelay(logger.New(logger.NewNanoHandler(io.Discard, logger.NewOptions(lv, false, false))).Relay)
	}
	serveAll := func() (key, expected, observed string) {
		reqs := cs.Reqs
		if cs.Std {
			reqs = stdReqs
		}
		if cs.Conc > 0 {
			return runConc(cs, mux, mt, names, reqs, st)
		}
		w := &nullWriter{h: http.Header{}}
		u := &url.URL{}
		hr := &http.Request{URL: u, Header: http.Header{}}
		if cs.CancelledCtx {
			hr = hr.WithContext(cancelledCtx) // shallow copy: same URL object
		}
		for _, rq := range reqs {
			hr.Method, u.Path = rq.M, rq.P
			o = obs{route: -2, params: o.params[:0]}
			var pv any
			func() {
				defer func() { pv = recover() }()
				mux.ServeHTTP(w, hr)
			}()
			st.dispatches++
			rk := func(what string) string {
				return what + ":" + tableKey(cs.Routes) + "|" + rq.M + " " + fmt.Sprintf("%q", rq.P)
			}
			if _, own := pv.(handlerPanic); pv != nil && !own {
				return rk("panic"), "no panic out of ServeHTTP", fmt.Sprintf("panic: %v", pv)
			} else if own {
				st.handlerPanics++
			}
			if o.calls != 1 {
				return rk("calls"), "exactly one handler invocation", fmt.Sprintf("%d invocations", o.calls)
			}
			rooted := strings.HasPrefix(rq.P, "/")
			var want mresult
			if rooted {
				want = mt.dispatch(rq.M, rq.P)
			} else {
				// the statement fixes no routing for such paths, only safety: accept the
				// no-route handler or the routing of "/"+path
				if o.route == -1 {
					want = mresult{route: -1}
					st.malformedAsNoRoute++
				} else {
					want = mt.dispatch(rq.M, "/"+rq.P)
					st.malformedAsRooted++
				}
			}
			if want.route != o.route {
				return rk("route"), "selected " + descr(mt, want.route), "selected " + descr(mt, o.route)
			}
			if want.route >= 0 {
				st.matched++
				r := mt.routes[want.route]
				if o.iPath != r.pattern || o.iMethod != r.method {
					return rk("info"), fmt.Sprintf("RouteInfo{%q,%q}", r.pattern, r.method), fmt.Sprintf("RouteInfo{%q,%q}", o.iPath, o.iMethod)
				}
			} else {
				st.noroute++
			}
			for i, n := range names {
				if wv := want.params[n]; o.params[i] != wv {
					return rk("param"), fmt.Sprintf("RouteParam(%q)=%q in %s", n, wv, descr(mt, want.route)), fmt.Sprintf("%q", o.params[i])
				}
			}
			if o.any != want.any {
				return rk("any"), fmt.Sprintf("RouteParamAny()=%q in %s", want.any, descr(mt, want.route)), fmt.Sprintf("%q", o.any)
			}
		}
		return "", "", ""
	}
	for ri, r := range cs.Routes {
		okModel := mt.register(r.P, r.M)
		var pv any
		func() {
			defer func() { pv = recover() }()
			mux.Handle(r.P, r.M, observe(len(mt.routes)-1))
		}()
		okReal := pv == nil
		if okModel != okReal {
			return "register:" + r.M + " " + r.P + " in " + tableKey(cs.Routes),
				fmt.Sprintf("registration accepted=%v", okModel), fmt.Sprintf("accepted=%v (panic=%v)", okReal, pv)
		}
		if !okModel {
			// a rejected registration (Handle panicked, the caller recovered): the set of successfully
			// registered routes is what it was, and so must be every dispatch
			st.tablesInvalid++
			continue
		}
		if cs.Incremental && ri < len(cs.Routes)-1 {
			if k, e, o := serveAll(); k != "" {
				return k + fmt.Sprintf("@after-%d-routes", ri+1), e, o
			}
		}
	}
	return serveAll()
}

// runConc serves the request list from cs.Conc goroutines at once; every observation is judged
// against the model like in the sequential mode (first disagreement per goroutine).
func runConc(cs Case, mux *httpd.Mux, mt *mtable, names []string, reqs []Req, st *stats) (key, expected, observed string) {
	type res struct {
		key, exp, obs string
		n, panics     int64
	}
	out := make([]res, cs.Conc)
	var wg sync.WaitGroup
	start := make(chan struct{})
	for g := 0; g < cs.Conc; g++ {
		wg.Add(1)
		go func(g int) {
			defer wg.Done()
			rs := &out[g]
			var o obs
			w := &nullWriter{h: http.Header{}, o: &o}
			u := &url.URL{}
			hr := &http.Request{URL: u, Header: http.Header{}}
			<-start
			for rep := 0; rep < 20; rep++ {
				for i := range reqs {
					rq := reqs[(i+g*7)%len(reqs)]
					if !strings.HasPrefix(rq.P, "/") {
						continue
					}
					hr.Method, u.Path = rq.M, rq.P
					o = obs{route: -2, params: o.params[:0]}
					var pv any
					func() {
						defer func() { pv = recover() }()
						mux.ServeHTTP(w, hr)
					}()
					rs.n++
					rk := func(what string) string {
						return what + ":conc:" + tableKey(cs.Routes) + "|" + rq.M + " " + fmt.Sprintf("%q", rq.P)
					}
					if _, own := pv.(handlerPanic); pv != nil && !own {
						rs.key, rs.exp, rs.obs = rk("panic"), "no panic out of ServeHTTP", fmt.Sprintf("panic: %v", pv)
						return
					} else if own {
						rs.panics++
					}
					want := mt.dispatch(rq.M, rq.P)
					if o.calls != 1 || want.route != o.route {
						rs.key, rs.exp, rs.obs = rk("route"), "exactly one invocation of "+descr(mt, want.route), fmt.Sprintf("%d invocations, last of %s", o.calls, descr(mt, o.route))
						return
					}
					if want.route >= 0 {
						if r := mt.routes[want.route]; o.iPath != r.pattern || o.iMethod != r.method {
							rs.key, rs.exp, rs.obs = rk("info"), fmt.Sprintf("RouteInfo{%q,%q}", r.pattern, r.method), fmt.Sprintf("RouteInfo{%q,%q}", o.iPath, o.iMethod)
							return
						}
					}
					for i, n := range names {
						if wv := want.params[n]; i >= len(o.params) || o.params[i] != wv {
							rs.key, rs.exp, rs.obs = rk("param"), fmt.Sprintf("RouteParam(%q)=%q in %s", n, wv, descr(mt, want.route)), fmt.Sprintf("%q", o.params)
							return
						}
					}
					if o.any != want.any {
						rs.key, rs.exp, rs.obs = rk("any"), fmt.Sprintf("RouteParamAny()=%q", want.any), fmt.Sprintf("%q", o.any)
						return
					}
				}
			}
		}(g)
	}
	// stimulus only: garbage collections preempt goroutines at arbitrary points and empty the pools
	gcStop := make(chan struct{})
	go func() {
		for {
			select {
			case <-gcStop:
				return
			default:
				runtime.GC()
				time.Sleep(200 * time.Microsecond)
			}
		}
	}()
	close(start)
	wg.Wait()
	close(gcStop)
	for g := range out {
		st.dispatches += out[g].n
		st.concDispatches += out[g].n
		st.handlerPanics += out[g].panics
		if out[g].key != "" {
			return out[g].key, out[g].exp, out[g].obs
		}
	}
	return "", "", ""
}

func descr(mt *mtable, i int) string {
	if i == -1 {
		return "no-route handler"
	}
	if i < 0 || i >= len(mt.routes) {
		return fmt.Sprintf("handler #%d", i)
	}
	return fmt.Sprintf("route #%d %s %s", i, mt.routes[i].method, mt.routes[i].pattern)
}

// ---------------------------------------------------------------------------------------

type mon struct{}

func (mon) Name() string { return "route" }

func (mon) Level(string) (string, string) {
	return "exploration", "route tables × requests against a reference router written from the statement. Small scope, exhaustive: all tables of ≤3 routes over 58 patterns; thorough adds all 4-route tables over the 10 distinct ≤2-segment shapes × {GET,POST,*}; (≤2 segments over {a,b,:x,:y,*} and 3 segments over {a,:x,*}) × methods {GET,*} (POST added for tables of ≤2), each against 151 paths (all ≤4-segment paths over {a,b,''} incl. doubled/trailing slashes, look-alike segments ':x' and '*', and malformed paths '', '*', 'a', 'a/b', '//', '///a', ...) × methods {GET,POST,'',BREW}; alternative spellings of patterns (doubled/trailing slashes); seeded random tables of 5..40 routes over all ten methods with arbitrary-byte segments, a part of them served by 4..64 goroutines at once on the one Mux. In a third of the cases the request list is served after every single registration (routes added to a Mux that has already served). Some handlers panic after observing (recovered by the harness) and later requests must be unaffected. Handler observes I, RouteParam of every name in the table + an unknown one, RouteParamAny; invocation count; recover(). distinct_nontrivial = distinct successfully registered tables (hash of the route list)"
}

func (mon) Assumptions(string) []string {
	return []string{
		"for request paths that do not start with '/' the statement fixes only safety; accepted: no-route handler, or the routing of '/'+path",
		"tables in which a registration is (correctly) refused are skipped: the statement is about successfully registered routes",
	}
}

type shardArgs struct {
	Kind  string `json:"kind"` // exh | spell | rand
	Size  int    `json:"size,omitempty"`
	Samp  int    `json:"samp,omitempty"` // triples: run every Samp-th table (offset by seed)
	Part  int    `json:"part"`
	Parts int    `json:"parts"`
	Count int    `json:"count,omitempty"`
}

func (mon) Plan(prop, tier string, seed int64) []drv.Shard {
	var out []drv.Shard
	parts := 16
	samp, nrand := 1, 20000
	if tier == "thorough" {
		samp, nrand = 1, 4000000
		for p := 0; p < parts; p++ {
			a, _ := json.Marshal(shardArgs{Kind: "exh4", Part: p, Parts: parts})
			out = append(out, drv.Shard{Name: fmt.Sprintf("exh4-%d", p), Args: a})
		}
	}
	for p := 0; p < parts; p++ {
		a, _ := json.Marshal(shardArgs{Kind: "exh", Size: 3, Samp: samp, Part: p, Parts: parts})
		out = append(out, drv.Shard{Name: fmt.Sprintf("exh-%d", p), Args: a})
	}
	a, _ := json.Marshal(shardArgs{Kind: "spell"})
	out = append(out, drv.Shard{Name: "spell", Args: a})
	for i, gmp := range []string{"4", "16"} {
		a, _ := json.Marshal(shardArgs{Kind: "conc", Part: i, Count: min(nrand/400, 2000)})
		out = append(out, drv.Shard{Name: "conc-gomaxprocs" + gmp, Args: a, Env: []string{"GOMAXPROCS=" + gmp}})
	}
	for p := 0; p < 4; p++ {
		sz := 0
		if tier == "thorough" {
			sz = 1
		}
		a, _ := json.Marshal(shardArgs{Kind: "big", Size: sz, Part: p, Parts: 4})
		out = append(out, drv.Shard{Name: fmt.Sprintf("big-%d", p), Args: a})
	}
	for p := 0; p < parts; p++ {
		a, _ := json.Marshal(shardArgs{Kind: "rand", Part: p, Parts: parts, Count: nrand / parts})
		out = append(out, drv.Shard{Name: fmt.Sprintf("rand-%d", p), Args: a})
	}
	return out
}

func patterns() []string {
	var ps []string
	al2 := []string{"a", "b", ":x", ":y", "*"}
	al3 := []string{"a", ":x", "*"}
	ps = append(ps, "/")
	for _, a := range al2 {
		ps = append(ps, "/"+a)
	}
	for _, a := range al2 {
		for _, b := range al2 {
			ps = append(ps, "/"+a+"/"+b)
		}
	}
	for _, a := range al3 {
		for _, b := range al3 {
			for _, c := range al3 {
				ps = append(ps, "/"+a+"/"+b+"/"+c)
			}
		}
	}
	return ps
}

func (mn mon) Run(sh drv.Shard, c *drv.Ctx) {
	var a shardArgs
	json.Unmarshal(sh.Args, &a)
	st := &stats{}
	exec := func(cs Case) bool {
		before := st.tablesInvalid
		k, e, o := runCase(cs, st)
		c.Eval(1)
		if st.tablesInvalid == before {
			c.DistinctStr(tableKey(cs.Routes))
		}
		if k != "" {
			c.Violate(k, cs, e, o)
			return c.NumViolations() < 5
		}
		return true
	}
	switch a.Kind {
	case "exh":
		ps := patterns()
		var all []Route
		for _, p := range ps {
			for _, m := range []string{"GET", "*"} {
				all = append(all, Route{p, m})
			}
		}
		idx := 0
		mine := func() bool { idx++; return idx%a.Parts == a.Part }
		// size 1 and 2 (with POST as third method), then size 3
		var all3 []Route
		for _, p := range ps {
			for _, m := range []string{"GET", "*", "POST"} {
				all3 = append(all3, Route{p, m})
			}
		}
	outer:
		for i := range all3 {
			if mine() {
				if !exec(Case{Routes: []Route{all3[i]}, Std: true}) {
					break outer
				}
			}
			for j := i + 1; j < len(all3); j++ {
				if mine() {
					cs := Case{Routes: []Route{all3[i], all3[j]}, Std: true}
					if c.NumSamples() < 1 && j == i+7 {
						c.Sample(map[string]any{"table": tableKey(cs.Routes), "requests": "standard set", "n_requests": len(stdReqs)})
					}
					// both registration orders for pairs
					if !exec(cs) || !exec(Case{Routes: []Route{all3[j], all3[i]}, Std: true, PanicEvery: 2 + idx%5}) {
						break outer
					}
				}
			}
		}
		if a.Size >= 3 {
			if a.Samp > 1 {
				n, off := a.Parts*a.Samp, a.Part+a.Parts*int(sh.Seed%int64(a.Samp))
				mine = func() bool { idx++; return idx%n == off }
			}
		outer3:
			for i := range all {
				for j := i + 1; j < len(all); j++ {
					for k := j + 1; k < len(all); k++ {
						if mine() {
							cs := Case{Routes: []Route{all[i], all[j], all[k]}, Std: true}
							if idx%4 == 0 {
								cs.PanicEvery = 2 + idx%7
							}
							cs.Incremental = idx%3 == 0
							if c.NumSamples() < 2 && k == j+5 {
								c.Sample(map[string]any{"table": tableKey(cs.Routes), "requests": "standard set", "n_requests": len(stdReqs)})
							}
							if !exec(cs) {
								break outer3
							}
						}
					}
				}
			}
		}
	case "exh4":
		// tables of 4 routes over the 10 distinct shapes of ≤2 segments × {GET,POST,*}
		var all []Route
		for _, p := range []string{"/", "/a", "/:x", "/*", "/a/a", "/a/:x", "/a/*", "/:x/a", "/:x/:y", "/:x/*"} {
			for _, m := range []string{"GET", "POST", "*"} {
				all = append(all, Route{p, m})
			}
		}
		idx := 0
		for i := range all {
			for j := i + 1; j < len(all); j++ {
				for k := j + 1; k < len(all); k++ {
					for l := k + 1; l < len(all); l++ {
						idx++
						if idx%a.Parts != a.Part {
							continue
						}
						if !exec(Case{Routes: []Route{all[l], all[i], all[k], all[j]}, Std: true}) {
							return
						}
					}
				}
			}
		}
	case "spell":
		// alternative spellings of one pattern must behave like the plain one
		sp := func(p string) []string {
			// (the last two: without the leading slash - a pattern is rooted like a request path is)
			return []string{p, p + "/", "/" + p, strings.ReplaceAll(p, "/", "//"), p + "//", "/" + strings.ReplaceAll(p, "/", "///") + "/",
				strings.TrimPrefix(p, "/"), strings.TrimPrefix(p, "/") + "/"}
		}
		for _, p := range patterns() {
			for _, q := range sp(p) {
				for _, m := range []string{"GET", "*"} {
					if !exec(Case{Routes: []Route{{q, m}}, Std: true}) {
						return
					}
					// and two spellings of the same pattern collide
					if !exec(Case{Routes: []Route{{p, m}, {q, m}}, Std: true}) {
						return
					}
					if !exec(Case{Routes: []Route{{q, m}, {"/a/:x", "GET"}, {"/*", "*"}}, Std: true}) {
						return
					}
				}
			}
		}
	case "conc":
		r := rand.New(rand.NewSource(sh.Seed*15485863 + int64(a.Part)))
		for i := 0; i < a.Count; i++ {
			cs := randCase(r)
			cs.Conc = []int{4, 16, 64}[r.Intn(3)]
			if cs.Relay > 0 {
				// (a handler panic that Relay catches costs a stack trace and an Error record: with 64
				// goroutines x 1200 requests that is minutes; the sequential shards keep the combination)
				cs.PanicEvery = 0
			}
			if !exec(cs) {
				break
			}
		}
	case "big":
		r := rand.New(rand.NewSource(sh.Seed*104729 + 17))
		for i, cs := range bigCases(r, a.Size > 0) {
			if i%a.Parts != a.Part {
				continue
			}
			if c.NumSamples() < 2 {
				c.Sample(map[string]any{"n_routes": len(cs.Routes), "first_route": clip(cs.Routes[0].P, 80), "n_requests": len(cs.Reqs)})
			}
			if !exec(cs) {
				break
			}
		}
	case "rand":
		r := rand.New(rand.NewSource(sh.Seed*7919 + int64(a.Part)))
		for i := 0; i < a.Count; i++ {
			cs := randCase(r)
			if c.NumSamples() < 1 {
				c.Sample(map[string]any{"table": tableKey(cs.Routes), "first_requests": cs.Reqs[:min(5, len(cs.Reqs))], "n_requests": len(cs.Reqs)})
			}
			if !exec(cs) {
				break
			}
		}
	}
	c.Add("handler_panics_recovered_by_harness", st.handlerPanics)
	c.Add("dispatches_from_concurrent_goroutines", st.concDispatches)
	c.Add("dispatches", st.dispatches)
	c.Add("dispatch_matched", st.matched)
	c.Add("dispatch_noroute", st.noroute)
	c.Add("tables_with_refused_registration", st.tablesInvalid)
	c.Add("slashless_paths_routed_as_rooted", st.malformedAsRooted)
	c.Add("slashless_paths_to_noroute", st.malformedAsNoRoute)
}

// request methods beyond the nine the router names: WebDAV extension methods are longer than any of
// those, and a method token has no length limit
var cancelledCtx = func() context.Context {
	c, cancel := context.WithCancel(context.Background())
	cancel()
	return c
}()

var longMethod = strings.Repeat("LONGMETHOD", 30)

var methods10 = []string{"GET", "HEAD", "POST", "PUT", "PATCH", "DELETE", "CONNECT", "OPTIONS", "TRACE", "*"}

func randCase(r *rand.Rand) Case {
	lits := []string{"a", "b", "api", "v1", "users", "x y", "é", "%2F", "a.b", "get", ":", "A", ":param", ":any", "\x00", "a\xffb", "..", ".", "~", "a=b", "*a", "a*"}
	names := []string{"x", "y", "id", "name", "*", ":", "x y"}
	n := 5 + r.Intn(36)
	var cs Case
	probe := &mtable{}
	randSeg := func() string {
		switch x := r.Intn(10); {
		case x < 6:
			return lits[r.Intn(len(lits))]
		case x < 9:
			return ":" + names[r.Intn(len(names))]
		default:
			return "*"
		}
	}
	for i := 0; i < n; i++ {
		k := r.Intn(5)
		var sb strings.Builder
		for j := 0; j < k; j++ {
			sb.WriteByte('/')
			if r.Intn(12) == 0 {
				sb.WriteByte('/')
			}
			sb.WriteString(randSeg())
		}
		if k == 0 || r.Intn(8) == 0 {
			sb.WriteByte('/')
		}
		if r.Intn(40) == 0 {
			sb2 := strings.TrimLeft(sb.String(), "/") // a pattern written without its leading slash
			sb.Reset()
			sb.WriteString(sb2)
		}
		m := methods10[r.Intn(len(methods10))]
		if r.Intn(60) == 0 {
			m = []string{"BREW", "", "get"}[r.Intn(3)]
		}
		// keep the table registrable (a refused registration ends the case), except now and then
		if probe.register(sb.String(), m) || r.Intn(400) == 0 {
			cs.Routes = append(cs.Routes, Route{sb.String(), m})
		}
	}
	// requests: derived from the patterns (so that they reach deep) and random ones
	nreq := 60
	if r.Intn(3) == 0 {
		cs.PanicEvery = 2 + r.Intn(6)
	}
	cs.Incremental = r.Intn(3) == 0
	if r.Intn(4) == 0 {
		cs.Relay = 1 + r.Intn(3)
	}
	cs.CancelledCtx = r.Intn(8) == 0
	for i := 0; i < nreq; i++ {
		var p string
		if r.Intn(4) != 0 && len(cs.Routes) > 0 { // (every random pattern of a case may have been unregistrable)
			base := cs.Routes[r.Intn(len(cs.Routes))].P
			parts := strings.Split(base, "/")
			for j, s := range parts {
				if s == "" {
					continue
				}
				if s[0] == ':' || s == "*" || r.Intn(6) == 0 {
					parts[j] = []string{"v", "42", "", "a/b", "x y", "é", ":x", "*", lits[r.Intn(len(lits))]}[r.Intn(9)]
				}
			}
			p = strings.Join(parts, "/")
			switch r.Intn(6) {
			case 0:
				p += "/"
			case 1:
				p += "/extra/more"
			case 2:
				p = strings.Replace(p, "/", "//", 1)
			}
		} else {
			k := r.Intn(6)
			for j := 0; j < k; j++ {
				p += "/" + lits[r.Intn(len(lits))]
			}
			if r.Intn(3) == 0 {
				p += "/"
			}
		}
		if r.Intn(25) == 0 {
			p = strings.TrimPrefix(p, "/")
		}
		m := methods10[r.Intn(9)]
		if r.Intn(20) == 0 {
			m = []string{"", "BREW", "*", "get", "PROPFIND", "MKCALENDAR", "VERSION-CONTROL", longMethod}[r.Intn(8)]
		}
		cs.Reqs = append(cs.Reqs, Req{m, p})
	}
	return cs
}

func clip(s string, n int) string {
	if len(s) > n {
		return s[:n] + "…"
	}
	return s
}

func (mn mon) Replay(v drv.Violation, c *drv.Ctx) {
	var cs Case
	if err := json.Unmarshal(v.Case, &cs); err != nil {
		c.Inconclusive("replay: cannot decode case: " + err.Error())
		return
	}
	k, e, o := runCase(cs, &stats{})
	c.Eval(1)
	if k != "" {
		c.Violate(k, cs, e, o)
	}
}

func main() { drv.Main(mon{}) }
