package main

import "strings"

// Reference router written from the property statement (C04), independent of glb's trie:
// routes stay a flat list; dispatch narrows the candidate set segment by segment.

const (
	kLit = iota
	kParam
	kAny
)

type seg struct {
	kind int
	text string // literal text or parameter name
}

type mroute struct {
	pattern string
	method  string
	segs    []seg
}

var validMethods = map[string]bool{
	"GET": true, "HEAD": true, "POST": true, "PUT": true, "PATCH": true, "DELETE": true,
	"CONNECT": true, "OPTIONS": true, "TRACE": true, "*": true,
}

// parsePattern splits a pattern (which starts with '/') into segments. Empty segments are
// ignored, '*' ends the pattern, ':name' is a parameter. ok=false: the pattern is invalid
// (empty or repeated parameter name).
func parsePattern(p string) (segs []seg, ok bool) {
	names := map[string]bool{}
	for _, s := range strings.Split(p, "/") {
		switch {
		case s == "":
		case s == "*":
			return append(segs, seg{kAny, ""}), true
		case s[0] == ':':
			n := s[1:]
			if n == "" || names[n] {
				return nil, false
			}
			names[n] = true
			segs = append(segs, seg{kParam, n})
		default:
			segs = append(segs, seg{kLit, s})
		}
	}
	return segs, true
}

func sameShape(a, b []seg) bool {
	if len(a) != len(b) {
		return false
	}
	for i := range a {
		if a[i].kind != b[i].kind || (a[i].kind == kLit && a[i].text != b[i].text) {
			return false
		}
	}
	return true
}

type mtable struct {
	routes []mroute
}

// register returns false when the registration must be refused (invalid method, invalid
// pattern, or a route with the same shape and method exists).
func (t *mtable) register(pattern, method string) bool {
	if !validMethods[method] {
		return false
	}
	segs, ok := parsePattern(pattern)
	if !ok {
		return false
	}
	for _, r := range t.routes {
		if r.method == method && sameShape(r.segs, segs) {
			return false
		}
	}
	t.routes = append(t.routes, mroute{pattern, method, segs})
	return true
}

type mresult struct {
	route  int // index into routes, -1 = no route
	params map[string]string
	any    string
	hasAny bool
}

// dispatch implements the documented precedence for a path that starts with '/'.
func (t *mtable) dispatch(method, path string) mresult {
	none := mresult{route: -1}
	pick := func(cand []int) int {
		for _, i := range cand {
			if t.routes[i].method == method {
				return i
			}
		}
		for _, i := range cand {
			if t.routes[i].method == "*" {
				return i
			}
		}
		return -1
	}
	// '/' itself is matched by the root route first
	if path == "/" {
		var root []int
		for i, r := range t.routes {
			if len(r.segs) == 0 {
				root = append(root, i)
			}
		}
		if i := pick(root); i >= 0 {
			return mresult{route: i}
		}
	}
	cand := make([]int, len(t.routes))
	for i := range cand {
		cand[i] = i
	}
	var vals []string
	anyVal, hasAny := "", false
	depth := 0
	// walk the raw segments: path = "/" s1 "/" s2 ... ; an empty segment is skipped unless it is the last
	pos := 1
	for pos <= len(path) {
		end := strings.IndexByte(path[pos:], '/')
		last := end < 0
		if last {
			end = len(path)
		} else {
			end += pos
		}
		s := path[pos:end]
		if s != "" || last {
			var lit, par, anyc []int
			for _, i := range cand {
				r := t.routes[i]
				if len(r.segs) <= depth {
					continue
				}
				switch sg := r.segs[depth]; {
				case sg.kind == kLit && sg.text == s:
					lit = append(lit, i)
				case sg.kind == kParam:
					par = append(par, i)
				case sg.kind == kAny:
					anyc = append(anyc, i)
				}
			}
			switch {
			case len(lit) > 0:
				cand = lit
			case len(par) > 0:
				cand = par
				vals = append(vals, s)
			case len(anyc) > 0:
				cand = anyc
				anyVal, hasAny = path[pos:], true
			default:
				return none
			}
			depth++
			if hasAny {
				break
			}
		}
		if last {
			break
		}
		pos = end + 1
	}
	var full []int
	for _, i := range cand {
		if len(t.routes[i].segs) == depth {
			full = append(full, i)
		}
	}
	i := pick(full)
	if i < 0 {
		return none
	}
	res := mresult{route: i, params: map[string]string{}, any: anyVal, hasAny: hasAny}
	k := 0
	for _, sg := range t.routes[i].segs {
		if sg.kind == kParam {
			res.params[sg.text] = vals[k]
			k++
		}
	}
	return res
}
