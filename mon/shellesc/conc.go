package main

// Concurrent callers. G goroutines escape their own streams of words in tight loops (both
// functions). Every word carries the tag of its goroutine and its index, so a result that
// belongs to another caller - or a torn mix of two - cannot equal the input. Each result is
// judged at once by the quoting model; the results of a block are kept and compared with their
// at-return copies and with fresh calls (class result-mutated); a seeded subset of the kept
// results goes through the real shells after the goroutines are joined.
//
// Nothing here is timed: the verdict is per result. What the run observed of concurrency
// (goroutines alive at the same time, GOMAXPROCS) goes into the evidence, and a run in which
// the goroutines did not overlap is inconclusive.

import (
	"fmt"
	"math/rand"
	"runtime"
	"strings"
	"sync"
	"sync/atomic"

	"verif/internal/drv"
)

// concSpec describes one concurrent scenario (also the replay unit).
type concSpec struct {
	G         int   `json:"g"`          // goroutines
	PerG      int   `json:"per_g"`      // words per goroutine (each goes through both functions)
	Procs     int   `json:"gomaxprocs"` // GOMAXPROCS the scenario was run with
	Seed      int64 `json:"seed"`
	ShellPerG int   `json:"shell_per_g"` // kept results per goroutine and function handed to the shells
}

const concBlock = 32

type concFinding struct {
	fn, oracle, in     string
	expected, observed string
}

type concPair struct{ in, kept string }

type concOut struct {
	findings  []concFinding
	pairs     map[string][]concPair // fn -> kept results for the shells
	calls     int64
	maxActive int64
	compared  int64
}

// concWord builds the idx-th word of goroutine g. The tag makes it unique in the scenario.
func concWord(r *rand.Rand, g, idx int) string {
	tag := fmt.Sprintf("<g%d#%d>", g, idx)
	q := func(max int) string { return strings.Repeat("'", r.Intn(max+1)) }
	var s string
	switch r.Intn(10) {
	case 0, 1: // quote-heavy
		s = q(12) + tag + q(12)
	case 2: // quotes everywhere
		var sb strings.Builder
		for _, ch := range []byte(tag) {
			sb.WriteByte(ch)
			if r.Intn(2) == 0 {
				sb.WriteByte('\'')
			}
		}
		s = sb.String()
	case 3, 4: // plain file names
		s = "file-" + tag + ".txt"
	case 5: // hostile
		s = []string{"';touch canary;'", "$(touch canary)", "`touch canary`", "\ntouch canary\n", "\";touch canary;\""}[r.Intn(5)] + tag + q(3)
	case 6: // arbitrary bytes around the tag
		b := make([]byte, r.Intn(200))
		for i := range b {
			if r.Intn(2) == 0 {
				b[i] = specials[r.Intn(len(specials))]
			} else {
				b[i] = byte(1 + r.Intn(255))
			}
		}
		k := 0
		if len(b) > 0 {
			k = r.Intn(len(b))
		}
		s = string(b[:k]) + tag + string(b[k:])
	case 7: // long (beyond small scratch buffers)
		s = tag + strings.Repeat("a'", 100+r.Intn(1500)) + tag
	case 8:
		s = "~" + tag
	default:
		s = tag
	}
	if r.Intn(5) == 0 {
		s = "~/" + s
	}
	return s
}

// runConc executes one scenario.
func runConc(sp concSpec) *concOut {
	out := &concOut{pairs: map[string][]concPair{}}
	var mu sync.Mutex
	var active, calls, compared atomic.Int64
	start := make(chan struct{})
	var wg sync.WaitGroup
	for g := 0; g < sp.G; g++ {
		wg.Add(1)
		go func(g int) {
			defer wg.Done()
			r := rand.New(rand.NewSource(sp.Seed*7919 + int64(g)*104729 + 17))
			var mine []concFinding
			myPairs := map[string][]concPair{}
			var myMax, myCalls, myCompared int64
			note := func(f concFinding) {
				if len(mine) < perOracleBudget*3 {
					mine = append(mine, f)
				}
			}
			<-start
			active.Add(1)
			ins := make([]string, 0, concBlock)
			for done := 0; done < sp.PerG; done += concBlock {
				n := min(concBlock, sp.PerG-done)
				ins = ins[:0]
				for i := 0; i < n; i++ {
					ins = append(ins, concWord(r, g, done+i))
				}
				for _, fn := range []string{fnPlain, fnTilde} {
					tilde := fn == fnTilde
					kept := make([]string, n)
					snap := make([]string, n)
					for i, s := range ins {
						e, p := callEscape(fn, s)
						myCalls++
						if p != "" {
							note(concFinding{fn, "call", s, fn + " returns", p})
							continue
						}
						kept[i], snap[i] = e, strings.Clone(e)
						if j := judgeLex(s, snap[i], tilde); j != "" {
							note(concFinding{fn, "lexer", s, describeExpected(fn, []string{s}, nil) + " (its own input; other goroutines escape other words at the same time)",
								fmt.Sprintf("goroutine %d of %d got %s, read by the POSIX quoting model: %s", g, sp.G, clipq(snap[i]), j)})
						}
					}
					rt := &retained{fn: fn, ins: ins, kept: kept, snap: snap}
					myCompared += int64(n)
					if i, o := rt.check(); i >= 0 {
						note(concFinding{fn, oracleMutated, ins[i], "the string returned keeps its value and equals what a fresh call returns", o})
					}
					if have := len(myPairs[fn]); have < sp.ShellPerG {
						// seeded subset: the first block and then whatever the goroutine's generator picks
						for i := range ins {
							if have < sp.ShellPerG && kept[i] != "" && (done == 0 || r.Intn(8) == 0) {
								myPairs[fn] = append(myPairs[fn], concPair{ins[i], kept[i]})
								have++
							}
						}
					}
				}
				if a := active.Load(); a > myMax {
					myMax = a
				}
			}
			active.Add(-1)
			calls.Add(myCalls)
			compared.Add(myCompared)
			mu.Lock()
			out.findings = append(out.findings, mine...)
			for fn, ps := range myPairs {
				out.pairs[fn] = append(out.pairs[fn], ps...)
			}
			if myMax > out.maxActive {
				out.maxActive = myMax
			}
			mu.Unlock()
		}(g)
	}
	close(start)
	wg.Wait()
	out.calls, out.compared = calls.Load(), compared.Load()
	return out
}

func concKey(fn, oracle, in string) string {
	k := caseKey(fn, oracle, []string{in})
	// <fn>:<oracle>:<input>  ->  <fn>:<oracle>:concurrent:<input>
	pre := fn + ":" + oracle + ":"
	return pre + "concurrent:" + strings.TrimPrefix(k, pre)
}

// concReport turns findings into violations (own budget per oracle) and runs the shell subset.
// It returns the number of violations reported.
func concReport(c *drv.Ctx, env *shellEnv, sp concSpec, out *concOut, shellsToo bool) int {
	reported := map[string]int{}
	total := 0
	report := func(f concFinding, cfg *shellCfg) {
		if reported[f.oracle] >= perOracleBudget {
			return
		}
		reported[f.oracle]++
		total++
		cs := mkCase(f.fn, f.oracle, cfg, []string{f.in})
		cs.Conc = &sp
		c.Violate(concKey(f.fn, f.oracle, f.in), cs, f.expected, f.observed)
		c.Add("violations_seen_by_"+f.oracle, 1)
	}
	for _, f := range out.findings {
		report(f, nil)
	}
	if !shellsToo || env == nil {
		return total
	}
	for _, fn := range []string{fnPlain, fnTilde} {
		ps := out.pairs[fn]
		if len(ps) == 0 {
			continue
		}
		for _, cfg := range cfgsFor(fn == fnTilde) {
			cfg := cfg
			items := make([]item, len(ps))
			for i, p := range ps {
				items[i] = item{in: p.in, esc: p.kept, want: expectedArg(fn, p.in, cfg.Home)}
			}
			c.Progress(fmt.Sprintf("conc G=%d P=%d %s %s (%d words)", sp.G, sp.Procs, fn, cfg, len(items)), true)
			o, inc := env.checkBatch(cfg, items)
			if inc {
				c.Inconclusive(fmt.Sprintf("conc %s %s: %s", fn, cfg, o))
				continue
			}
			c.Add("shell_words", int64(len(items)))
			c.Add("shell_words_from_concurrent_callers", int64(len(items)))
			c.Add("shell_scripts", 1)
			c.SetAdd("shell_configs", cfg.String())
			if o != "" {
				m := env.minimize(cfg, items)
				o2, _ := env.checkBatch(cfg, m)
				if o2 == "" {
					o2 = o
				}
				report(concFinding{fn, "shell", m[0].in,
					describeExpected(fn, []string{m[0].in}, &cfg) + " (result obtained while other goroutines were escaping other words)",
					fmt.Sprintf("kept result %s run by %s: %s", clipq(m[0].esc), cfg, o2)}, &cfg)
				break // the other configurations would bisect to the same word
			}
		}
	}
	return total
}

// runConcShard is the body of a "conc" shard.
func runConcShard(sh drv.Shard, a shardArgs, c *drv.Ctx, env *shellEnv) {
	sp := concSpec{G: a.G, PerG: a.Count, Procs: runtime.GOMAXPROCS(0), Seed: sh.Seed*1000003 + int64(a.Part), ShellPerG: a.Shells}
	if sp.G <= 0 {
		sp.G = 4 * sp.Procs
	}
	c.Progress(fmt.Sprintf("conc G=%d P=%d per_g=%d", sp.G, sp.Procs, sp.PerG), true)
	out := runConc(sp)
	c.Eval(out.calls)
	c.Add("concurrent_calls", out.calls)
	c.Add("retained_results_compared", out.compared)
	c.MaxOf("goroutines_alive_together", out.maxActive)
	c.SetAdd("concurrency_configs", fmt.Sprintf("G=%d/GOMAXPROCS=%d", sp.G, sp.Procs))
	if out.maxActive < 2 {
		c.Inconclusive(fmt.Sprintf("conc G=%d P=%d: the goroutines never ran at the same time", sp.G, sp.Procs))
	}
	// distinct: the words of goroutine 0 stand for the shapes (all goroutines draw from the same kinds)
	r := rand.New(rand.NewSource(sp.Seed*7919 + 17))
	for i := 0; i < min(sp.PerG, 20000); i++ {
		c.DistinctStr(concWord(r, 0, i))
	}
	concReport(c, env, sp, out, true)
}

// replayConc re-executes a concurrent scenario up to n times; any violation is a hit.
func replayConc(cs Case, c *drv.Ctx) {
	sp := *cs.Conc
	if sp.Procs > 0 {
		runtime.GOMAXPROCS(sp.Procs)
	}
	var env *shellEnv
	if cs.Oracle == "shell" {
		var err error
		if env, err = newShellEnv(); err != nil {
			c.Inconclusive("replay: " + err.Error())
			fmt.Println("INCONCLUSIVE:", err)
			return
		}
		defer env.close()
	}
	for try := 0; try < 10; try++ {
		out := runConc(sp)
		c.Eval(out.calls)
		if concReport(c, env, sp, out, env != nil) > 0 {
			return
		}
	}
}
