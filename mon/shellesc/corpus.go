package main

import (
	"math/rand"
	"strings"
)

// the 15-character alphabet of the exhaustive sweep (DESIGN.md §3 C16)
var alphabet = []byte{'\'', '"', '\\', '$', '`', ' ', '\n', ';', '&', '|', '*', '~', '!', '#', 'a'}

func pow(b, e int) int {
	r := 1
	for ; e > 0; e-- {
		r *= b
	}
	return r
}

// totalUpTo = number of words of length 0..maxLen over the alphabet.
func totalUpTo(maxLen int) int {
	if maxLen < 0 {
		return 0
	}
	t := 0
	for l := 0; l <= maxLen; l++ {
		t += pow(len(alphabet), l)
	}
	return t
}

// wordAt returns the n-th word in (length, lexicographic) order.
func wordAt(n int) string {
	l := 0
	for n >= pow(len(alphabet), l) {
		n -= pow(len(alphabet), l)
		l++
	}
	b := make([]byte, l)
	for i := l - 1; i >= 0; i-- {
		b[i] = alphabet[n%len(alphabet)]
		n /= len(alphabet)
	}
	return string(b)
}

// exhInput maps the index space of the exhaustive sweep to inputs: first every word of length
// <= maxLen, then "~/"+w for every such word w (the alphabet has no '/', so the tilde branch of
// ShellEscapeExceptTilde would otherwise never be entered).
func exhTotal(maxLen int) int { return 2 * totalUpTo(maxLen) }

func exhInput(n, maxLen int) string {
	if t := totalUpTo(maxLen); n >= t {
		return "~/" + wordAt(n-t)
	}
	return wordAt(n)
}

// bytes that get extra weight in the biased random strings
var specials = []byte("'\"\\$` \n;&|*~!#a/?[]{}()<>=:%^,\t\r\x01\x7f\x80\x81\x88\xff-")

// randInput draws one NUL-free byte string of length <= 64.
func randInput(r *rand.Rand) string {
	body := func(max int) []byte {
		n := r.Intn(max + 1)
		b := make([]byte, n)
		switch r.Intn(5) {
		case 0, 1: // uniform over all non-NUL bytes
			for i := range b {
				b[i] = byte(1 + r.Intn(255))
			}
		case 2, 3: // half of the bytes from the specials
			for i := range b {
				if r.Intn(2) == 0 {
					b[i] = specials[r.Intn(len(specials))]
				} else {
					b[i] = byte(1 + r.Intn(255))
				}
			}
		default: // specials only
			for i := range b {
				b[i] = specials[r.Intn(len(specials))]
			}
		}
		return b
	}
	switch x := r.Intn(20); {
	case x < 2:
		return "~/" + string(body(62))
	case x == 2:
		return "~" + string(body(63))
	default:
		return string(body(64))
	}
}

// hostileCorpus is a fixed list of inputs written against quoting mistakes. Several of them
// try to create the file "canary" in the working directory of the shell.
func hostileCorpus() []string {
	base := []string{
		"", " ", "  ", "\t", "\n", "\r", "\r\n", "a", "-", "--", "-n", "-e", "-c", "--help", "-- -x",
		"'", "''", "'''", "''''", "'a", "a'", "a'b", "a'b'c", "a'b'c'd", "a'b'c'd'e", "'a'b'c'd'", "it's", "'\"'\"'", `'\''`, `\'`, `'\`, `\`, `\\`, `\\\`, `a\`, `a\'`, `\'a\'`,
		`"`, `""`, `"a"`, `"'"`, `'"'`, `a"b'c`, `a'b"c`, `"$(touch canary)"`, `'$(touch canary)'`, `"'$(touch canary)'"`, `'"$(touch canary)"'`,
		"$(touch canary)", "`touch canary`", "$(touch ./canary)", "$(touch $PWD/canary)", "${PWD}", "$HOME", "${HOME}", "$IFS", "${IFS}", "a${IFS}b", "$((1+1))", "$1", "$@", "$*", "$?", "$$", "$", "$'\\x41'", "$\"a\"", "$'a'",
		"; touch canary", ";touch canary;", "; touch canary #", "& touch canary", "&& touch canary", "| touch canary", "|| touch canary", "\ntouch canary", "\ntouch canary\n", "x\ntouch canary\ny", "\r\ntouch canary\r\n",
		"';touch canary;'", "';touch canary;#", `\';touch canary;\'`, `\';touch canary;#`, `";touch canary;"`, `';touch canary;`, "'\ntouch canary\n'", "'$(touch canary)'", "'`touch canary`'", "'\"$(touch canary)\"'",
		"a';touch canary;'b';touch canary;'c", "' ';touch canary;' '", "''';touch canary;'''", "'';touch canary;''", `'\'';touch canary;'\''`, `\\';touch canary;\\'`,
		"> canary", ">canary", ">> canary", "2>canary", "< canary", "<(touch canary)", ">(touch canary)", "(touch canary)", "{ touch canary; }", "'>canary'", "'>canary",
		"*", "?", "??", "a*", "*a", "[a]", "[a-z]*", "[!a]", "x.*", ".*", "b*c", "b c", "{a,aa}", "{a..c}", "a{,a}", "~", "~/", "~/.", "~/..", "~//", "~/~", "~/~/", "~root", "~root/", "~root/x", "~nobody", "~nosuchuser/x", "~+", "~-", "~+/x", "~0", "~a", "~ /x", "~\n/x",
		"~;touch canary/x", "~$(touch canary)/x", "~`touch canary`/x", "~/;touch canary", "~/$(touch canary)", "~/`touch canary`", "~/';touch canary;'", "~/'$(touch canary)'", "~/a b", "~/a  b", "~/ a", "~/a ", "~/*", "~/a*", "~/~", "~/'", "~/''", "~/\"", "~/\\", "~/#", "~/a#b", "~/\n", "~/a\nb", "~/--", "~/$HOME", "a~/b", " ~/b", "'~/b", "\\~/b", "~\\/b", "~'/b", "~/a'b'c'd",
		"#", "#a", "# a", "a#", "a#b", "a #b", " #b", "#!/bin/sh", "a=~", "a=~/x", "a:~", "PATH=~/x:~/y", "a=b", "=", "a=$(touch canary)", "x=y touch canary",
		"!", "!!", "!$", "!a", "a!b", "\"!\"", "!-1", "^a^b", "%1", "%", "@", "+", ",", ".", "..", "/", "//", "/tmp/dir 1", "\"/tmp/dir 1\"", "'/tmp/dir 1'", "~/doc",
		"\\n", "\\t", "\\0", "\\x00", "\\$(touch canary)", "\\`touch canary\\`", "\\;touch canary", "\\\ntouch canary", "a\\\nb", "\\\n", "a\\", "a\\ b",
		"\x01", "\x02", "\x7f", "\x80", "\x81", "\x88", "\xff", "\xc3", "\xc3\xa9", "\xa9", "\xe2\x82", "\xf0\x9f\x98\x80", "\xef\xbb\xbf", "\xc2\xa0", "\xe2\x80\xa8", "\xe3\x80\x80", "'\xc3'", "\xc3'", "'\xa9", "\xe2'\x82'\xac",
		"if", "then", "fi", "do", "done", "{", "}", "[[", "]]", "!", "case", "esac", "function", "time", "exec touch canary", "eval touch canary", ". ./canary", "touch canary", "E", " E", "E ", "argvdump",
	}
	seen := map[string]bool{}
	var out []string
	add := func(s string) {
		if strings.IndexByte(s, 0) >= 0 || seen[s] {
			return
		}
		seen[s] = true
		out = append(out, s)
	}
	for _, s := range base {
		add(s)
	}
	// every single byte, alone and between / before / after quotes
	for b := 1; b < 256; b++ {
		c := string([]byte{byte(b)})
		add(c)
		add("'" + c)
		add(c + "'")
		add("'" + c + "'")
		add("a'" + c + "'b'" + c)
		add("~/" + c)
		add("~" + c)
		add(c + "~/")
		add(c + c)
		add("\\" + c)
		add(c + "\\")
	}
	// every base entry in quoting contexts that a broken escaper might leave open
	for _, s := range base {
		add("'" + s)
		add(s + "'")
		add("'" + s + "'")
		add("'" + s + "'" + s + "'" + s)
		add("\"" + s + "\"")
		add("\\" + s)
		add("~/" + s)
		add("~" + s)
		add("a " + s)
		add(s + " a")
	}
	// long inputs (a single argument must stay below the kernel's 128 KiB per-string limit)
	add(strings.Repeat("'", 1000))
	add(strings.Repeat("'", 20000))
	add(strings.Repeat("a", 100000))
	add(strings.Repeat("a'", 10000))
	add(strings.Repeat("\\", 1001))
	add(strings.Repeat("'\\", 5000))
	add(strings.Repeat("\n", 1000))
	add("~/" + strings.Repeat("' ", 5000))
	add(strings.Repeat("$(touch canary)", 500))
	add(strings.Repeat("';touch canary;'", 500))
	return out
}

// qlWord enumerates the strings over {quote, letter} in (length, binary) order: n = 0 is the
// empty string, then the 2 strings of length 1, the 4 of length 2, ...
func qlWord(n int) string {
	l := 0
	for n >= 1<<l {
		n -= 1 << l
		l++
	}
	b := make([]byte, l)
	for i := range b {
		if n>>i&1 == 1 {
			b[i] = '\''
		} else {
			b[i] = 'a'
		}
	}
	return string(b)
}
