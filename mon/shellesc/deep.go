package main

// Thorough-only shards: longer exhaustive words, ~user-like prefixes, every byte in every
// position, long arguments, and the shell contexts of shells.go. The oracles are the ones of
// the quick tier (process): quoting model, kept results, real shells with the canary.

import (
	"fmt"
	"math/rand"
	"strings"

	"verif/internal/drv"
)

// the reduced alphabet around the swept byte position
var around = []byte{'\'', '"', '\\', 'a', ' ', '~'}

// userPrefixes: tilde forms other than "~/" - they must arrive literally from both functions
var userPrefixes = []string{"~root/", "~nosuchuser/", "~+/", "~-/", "~a/", "~root", "~"}

// bytePosInput enumerates: [0, 255*255) all 2-byte strings; then for l = 3..maxLen, position p,
// byte b and the other l-1 positions over `around`; then "~/" + the 2-byte and 3-byte ones.
func bytePosCount(l int) int { return l * 255 * pow(len(around), l-1) }

func bytePosTotal(maxLen int) int {
	t := 255 * 255
	for l := 3; l <= maxLen; l++ {
		t += bytePosCount(l)
	}
	return t + 255*255 + bytePosCount(3)
}

func bytePosWord(n, l int) string {
	rest := pow(len(around), l-1)
	p := n / (255 * rest)
	n %= 255 * rest
	b := byte(1 + n/rest)
	n %= rest
	w := make([]byte, l)
	for i := 0; i < l; i++ {
		if i == p {
			w[i] = b
			continue
		}
		w[i] = around[n%len(around)]
		n /= len(around)
	}
	return string(w)
}

func bytePosInput(n, maxLen int) string {
	pair := func(n int) string { return string([]byte{byte(1 + n/255), byte(1 + n%255)}) }
	if n < 255*255 {
		return pair(n)
	}
	n -= 255 * 255
	for l := 3; l <= maxLen; l++ {
		if n < bytePosCount(l) {
			return bytePosWord(n, l)
		}
		n -= bytePosCount(l)
	}
	if n < 255*255 {
		return "~/" + pair(n)
	}
	return "~/" + bytePosWord(n-255*255, 3)
}

// longInputs: arguments near the limits. One argument of execve may have 131071 bytes; for the
// ~/ forms the expanded argument (HOME + rest) must stay below that as well.
func longInputs(seed int64, part, parts int) []string {
	r := rand.New(rand.NewSource(seed*31 + 7))
	fill := func(n int, pat string) string {
		s := strings.Repeat(pat, n/len(pat)+1)
		return s[:n]
	}
	randBytes := func(n int, special bool) string {
		b := make([]byte, n)
		for i := range b {
			if special && r.Intn(2) == 0 {
				b[i] = specials[r.Intn(len(specials))]
			} else {
				b[i] = byte(1 + r.Intn(255))
			}
		}
		return string(b)
	}
	var out []string
	k := 0
	add := func(s string) {
		if k%parts == part {
			out = append(out, s)
		}
		k++
	}
	pats := []string{"a", "'", "a'", "''a", "'\\", "\\'", "\n", "'\n", "\"'", " ", "$(touch canary)", "';touch canary;'", "`touch canary`'", "\xff'", "~/", "*"}
	for _, n := range []int{4095, 4096, 4097, 16384, 65535, 65536, 65537, 100000, 131070, 131071} {
		for _, p := range pats {
			add(fill(n, p))
		}
		add(randBytes(n, false))
		add(randBytes(n, true))
	}
	// behind ~/ : leave room for the longest HOME of the standard configurations
	for _, n := range []int{4094, 65534, 131000} {
		for _, p := range pats {
			add("~/" + fill(n, p))
		}
		add("~/" + randBytes(n, true))
	}
	return out
}

func runDeepShard(sh drv.Shard, a shardArgs, c *drv.Ctx, r *runner) {
	run := func(label string, total int, gen func(n int) string, counter string) {
		for k := 0; k*chunk < total && !r.stop; k++ {
			if k%a.Parts != a.Part {
				continue
			}
			lo, hi := k*chunk, min((k+1)*chunk, total)
			ins := make([]string, 0, hi-lo)
			for n := lo; n < hi; n++ {
				ins = append(ins, gen(n))
			}
			r.process(fmt.Sprintf("%s[%d:%d]", label, lo, hi), ins, len(ins))
			c.Add(counter, int64(len(ins)))
		}
	}
	switch a.Kind {
	case "exh6":
		// all three shells and both locales for every chunk; the HOME of the tilde form alternates
		r.cfgs = func(tilde bool, chunkNo int) []shellCfg {
			all := cfgsFor(tilde)
			if !tilde {
				return all
			}
			var out []shellCfg
			home := []string{homePlain, homeSpace}[chunkNo%2]
			for _, cfg := range all {
				if cfg.Home == home {
					out = append(out, cfg)
				}
			}
			return out
		}
		base := totalUpTo(a.MaxLen - 1)
		n6 := pow(len(alphabet), a.MaxLen)
		run("exh6", 2*n6, func(n int) string {
			if n >= n6 {
				return "~/" + wordAt(base+n-n6)
			}
			return wordAt(base + n)
		}, "inputs_exh_len6")
	case "pre":
		t := totalUpTo(a.MaxLen)
		run("pre", t*len(userPrefixes), func(n int) string { return userPrefixes[n/t] + wordAt(n%t) }, "inputs_user_prefixes")
	case "bytepos":
		run("bytepos", bytePosTotal(a.MaxLen), func(n int) string { return bytePosInput(n, a.MaxLen) }, "inputs_byte_positions")
	case "long":
		if msg := r.env.selfTestCtx(); msg != "" {
			c.Inconclusive("positive controls of the shell contexts did not fire: " + msg)
			return
		}
		ins := longInputs(sh.Seed, a.Part, a.Parts)
		for _, s := range ins {
			c.MaxOf("input_len", int64(len(s)))
			c.Add("quotes_in_long_inputs", int64(strings.Count(s, "'")))
		}
		r.cfgs = func(tilde bool, _ int) []shellCfg {
			out := cfgsFor(tilde)
			for _, v := range []shellCfg{{Ctx: "var"}, {Ctx: "for"}, {Ctx: "herestr"}, {Ctx: "subst"}, {Ctx: "tab"}} {
				for _, b := range cfgsFor(false) {
					if v.Ctx == "herestr" && !herestrOK(b) {
						continue
					}
					v.Shell, v.Locale, v.Home = b.Shell, b.Locale, b.Home
					out = append(out, v)
				}
			}
			return out
		}
		for i := 0; i < len(ins) && !r.stop; i += 8 {
			j := min(i+8, len(ins))
			r.process(fmt.Sprintf("long[%d:%d]", i, j), ins[i:j], j-i)
			c.Add("inputs_long", int64(j-i))
		}
	case "ctx":
		if msg := r.env.selfTestCtx(); msg != "" {
			c.Inconclusive("positive controls of the shell contexts did not fire: " + msg)
			return
		}
		c.Add("context_controls_fired", 1)
		r.cfgs = func(tilde bool, _ int) []shellCfg { return ctxCfgs(tilde) }
		t := totalUpTo(a.MaxLen)
		corpus := hostileCorpus()
		// the long corpus entries would not fit the nested command line of sh -c; they are in "long"
		var short []string
		for _, s := range corpus {
			if len(s) <= 2000 {
				short = append(short, s)
			}
		}
		const nrand = 48000
		run("ctx", 2*t+len(short)+nrand, func(n int) string {
			switch {
			case n < t:
				return wordAt(n)
			case n < 2*t:
				return "~/" + wordAt(n-t)
			case n < 2*t+len(short):
				return short[n-2*t]
			}
			// random strings as a pure function of the index (shards take interleaved chunks)
			return randInput(rand.New(rand.NewSource(sh.Seed*1000003 + int64(n))))
		}, "inputs_in_contexts")
	}
}
