package main

// Oracle (2): an independent model of how a POSIX shell reads the argument part of a simple
// command (XCU 2.2 quoting, 2.3 token recognition, 2.6 word expansions - only as far as
// "would an expansion start here"). It knows nothing about how glb builds its output.
//
// The text is read as what follows "cmd " on a command line. The model reports
//   - the words after quote removal,
//   - every place where the shell would do something else than take a byte literally
//     (end the command, start an operator, a comment, an expansion, a glob, ...),
//   - whether the first word starts with an unquoted tilde-prefix that the shell expands.
//
// Where shells differ the model takes the side that flags: '!' counts as a trigger unless it is
// inside single quotes or backslash-escaped (history expansion of interactive bash/zsh, listed in
// DESIGN.md), '{' unquoted counts as brace expansion, '~' right after an unquoted '=' (or a ':'
// following one) counts as tilde expansion (bash does that for arguments outside posix mode).
// A tilde-prefix containing any quoting is NOT an expansion (XCU 2.6.1).

import (
	"fmt"
	"strings"
)

type lexWord struct {
	Val         string
	TildeActive bool   // starts with an unquoted tilde-prefix (the shell replaces it)
	TildePrefix string // "~" or "~name"; the rest of Val follows it
}

type lexResult struct {
	Words    []lexWord
	Problems []string
}

func (r *lexResult) problem(pos int, format string, a ...any) {
	if len(r.Problems) < 8 {
		r.Problems = append(r.Problems, fmt.Sprintf("@%d ", pos)+fmt.Sprintf(format, a...))
	}
}

func lexArgs(text string) lexResult {
	var res lexResult
	var cur []byte
	inWord := false
	// tilde-prefix bookkeeping of the current word
	tildeOpen, tildeQuoted, tildeActive := false, false, false
	tildePrefix := ""
	seenEq := false  // an unquoted '=' occurred in the current word
	var prevLit byte // previous byte of this word if it was taken literally in the unquoted state, else 0

	closeTilde := func() {
		if tildeOpen {
			tildeOpen = false
			if !tildeQuoted {
				tildeActive = true
				tildePrefix = string(cur)
			}
		}
	}
	endWord := func() {
		if !inWord {
			return
		}
		closeTilde()
		res.Words = append(res.Words, lexWord{Val: string(cur), TildeActive: tildeActive, TildePrefix: tildePrefix})
		cur = nil
		inWord, tildeOpen, tildeQuoted, tildeActive, seenEq = false, false, false, false, false
		prevLit = 0
		tildePrefix = ""
	}
	n := len(text)
	for i := 0; i < n; i++ {
		c := text[i]
		pl := prevLit
		prevLit = 0
		switch c {
		case ' ', '\t':
			endWord()
		case '\n':
			endWord()
			res.problem(i, "unquoted newline ends the command")
		case ';', '&', '|', '<', '>', '(', ')':
			endWord()
			res.problem(i, "unquoted operator %q", string(c))
		case '\'':
			if tildeOpen {
				tildeQuoted = true
			}
			inWord = true
			j := strings.IndexByte(text[i+1:], '\'')
			if j < 0 {
				res.problem(i, "unterminated single quote")
				cur = append(cur, text[i+1:]...)
				i = n
				break
			}
			cur = append(cur, text[i+1:i+1+j]...)
			i += j + 1
		case '"':
			if tildeOpen {
				tildeQuoted = true
			}
			inWord = true
			closed := false
			j := i + 1
			for ; j < n; j++ {
				d := text[j]
				if d == '"' {
					closed = true
					break
				}
				switch d {
				case '\\':
					if j+1 < n {
						switch e := text[j+1]; e {
						case '$', '`', '"', '\\':
							cur = append(cur, e)
							j++
							continue
						case '\n':
							j++ // line continuation: both removed
							continue
						}
					}
					cur = append(cur, '\\')
				case '$':
					res.problem(j, "'$' inside double quotes starts an expansion")
					cur = append(cur, d)
				case '`':
					res.problem(j, "backquote inside double quotes starts a command substitution")
					cur = append(cur, d)
				case '!':
					res.problem(j, "'!' inside double quotes (history expansion of interactive shells)")
					cur = append(cur, d)
				default:
					cur = append(cur, d)
				}
			}
			if !closed {
				res.problem(i, "unterminated double quote")
			}
			i = j
		case '\\':
			if tildeOpen {
				tildeQuoted = true
			}
			if i+1 >= n {
				res.problem(i, "trailing backslash quotes whatever follows the word")
				inWord = true
				cur = append(cur, '\\')
				break
			}
			if text[i+1] == '\n' {
				res.problem(i, "backslash-newline is a line continuation (both bytes vanish)")
				i++
				break
			}
			inWord = true
			cur = append(cur, text[i+1])
			i++
		case '#':
			if !inWord {
				res.problem(i, "'#' at the start of a word starts a comment")
				i = n
				break
			}
			cur = append(cur, c)
		case '$':
			res.problem(i, "unquoted '$' starts an expansion")
			inWord = true
			cur = append(cur, c)
		case '`':
			res.problem(i, "unquoted backquote starts a command substitution")
			inWord = true
			cur = append(cur, c)
		case '*', '?', '[':
			res.problem(i, "unquoted %q is a pathname-expansion pattern", string(c))
			inWord = true
			cur = append(cur, c)
		case '{':
			res.problem(i, "unquoted '{' (brace expansion)")
			inWord = true
			cur = append(cur, c)
		case '!':
			res.problem(i, "unquoted '!' (history expansion of interactive shells / reserved word)")
			inWord = true
			cur = append(cur, c)
		case '~':
			if !inWord {
				tildeOpen, tildeQuoted = true, false
			} else if pl == '=' || (pl == ':' && seenEq) {
				res.problem(i, "unquoted '~' after '=' or ':' (tilde expansion in assignment-like words)")
			}
			inWord = true
			cur = append(cur, c)
		case '/':
			closeTilde()
			inWord = true
			cur = append(cur, c)
		case '=':
			seenEq = true
			inWord = true
			cur = append(cur, c)
			prevLit = c
		default:
			inWord = true
			cur = append(cur, c)
			prevLit = c
		}
	}
	endWord()
	return res
}

// judgeLex applies the property to the lexer's reading of esc for the input s.
// tildeForm: esc came from ShellEscapeExceptTilde.
// It returns "" when the reading is "exactly one word, value s, nothing triggered".
func judgeLex(s, esc string, tildeForm bool) string {
	r := lexArgs(esc)
	var bad []string
	bad = append(bad, r.Problems...)
	wantTilde := tildeForm && strings.HasPrefix(s, "~/")
	if len(r.Words) != 1 {
		bad = append(bad, fmt.Sprintf("%d words %s instead of one", len(r.Words), wordsString(r.Words)))
	} else {
		w := r.Words[0]
		if w.Val != s {
			bad = append(bad, fmt.Sprintf("word value %s differs from the input", clipq(w.Val)))
		}
		switch {
		case wantTilde && !(w.TildeActive && w.TildePrefix == "~"):
			bad = append(bad, "the leading ~/ is not left unquoted for the shell to expand")
		case !wantTilde && w.TildeActive:
			bad = append(bad, fmt.Sprintf("unquoted tilde-prefix %s at the word start is expanded by the shell", clipq(w.TildePrefix)))
		}
	}
	return strings.Join(bad, "; ")
}

func wordsString(ws []lexWord) string {
	var sb strings.Builder
	sb.WriteByte('[')
	for i, w := range ws {
		if i > 0 {
			sb.WriteByte(' ')
		}
		if i >= 6 {
			sb.WriteString("…")
			break
		}
		sb.WriteString(clipq(w.Val))
	}
	sb.WriteByte(']')
	return sb.String()
}
