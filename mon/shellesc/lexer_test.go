package main

// Tests of the monitor's own parts (not of glb):
//   go test -tags verif -count=1 -timeout 300s ./mon/shellesc/

import (
	"strings"
	"testing"
)

func TestLexTable(t *testing.T) {
	type tc struct {
		text  string
		words []string
		clean bool
	}
	for _, c := range []tc{
		{`''`, []string{""}, true},
		{`'a b'`, []string{"a b"}, true},
		{`'a'"'"'b'`, []string{"a'b"}, true},
		{`'a'\''b'`, []string{"a'b"}, true},
		{`'$(x)' `, []string{"$(x)"}, true},
		{`a b`, []string{"a", "b"}, true},
		{`"a b"`, []string{"a b"}, true},
		{`"a\$b"`, []string{"a$b"}, true},
		{`"a\qb"`, []string{`a\qb`}, true},
		{`"a$b"`, []string{"a$b"}, false},
		{"\"a`b\"", []string{"a`b"}, false},
		{`'a\'b'`, []string{`a\b`}, false}, // unterminated quote after b
		{`a\`, []string{`a\`}, false},
		{"a\\\nb", []string{"ab"}, false},
		{`a;b`, []string{"a", "b"}, false},
		{"a\nb", []string{"a", "b"}, false},
		{`#a`, nil, false},
		{`a#b`, []string{"a#b"}, true},
		{`a #b`, []string{"a"}, false},
		{`*`, []string{"*"}, false},
		{`'*'`, []string{"*"}, true},
		{`\*`, []string{"*"}, true},
		{`a~b`, []string{"a~b"}, true},
		{`a=~`, []string{"a=~"}, false},
		{`'a='~`, []string{"a=~"}, true},
		{`!`, []string{"!"}, false},
		{`'!'`, []string{"!"}, true},
		{`{a,b}`, []string{"{a,b}"}, false},
	} {
		r := lexArgs(c.text)
		var got []string
		for _, w := range r.Words {
			got = append(got, w.Val)
		}
		if strings.Join(got, "\x00") != strings.Join(c.words, "\x00") || len(got) != len(c.words) {
			t.Errorf("lexArgs(%q) words = %q, want %q", c.text, got, c.words)
		}
		if (len(r.Problems) == 0) != c.clean {
			t.Errorf("lexArgs(%q) problems = %q, want clean=%v", c.text, r.Problems, c.clean)
		}
	}
}

func TestLexTilde(t *testing.T) {
	for _, c := range []struct {
		text   string
		active bool
		prefix string
	}{
		{`~`, true, "~"},
		{`~/'x'`, true, "~"},
		{`~root/x`, true, "~root"},
		{`~''`, false, ""},
		{`~'root'`, false, ""},
		{`~\root`, false, ""},
		{`'~'/x`, false, ""},
		{`\~/x`, false, ""},
		{`~'/x'`, false, ""},
		{`a~/x`, false, ""},
	} {
		r := lexArgs(c.text)
		if len(r.Words) != 1 || r.Words[0].TildeActive != c.active || r.Words[0].TildePrefix != c.prefix {
			t.Errorf("lexArgs(%q) = %+v, want active=%v prefix=%q", c.text, r.Words, c.active, c.prefix)
		}
	}
}

func TestJudge(t *testing.T) {
	if j := judgeLex("~/doc", `~/'doc'`, true); j != "" {
		t.Errorf("tilde form rejected: %s", j)
	}
	if j := judgeLex("~/doc", `~/'doc'`, false); j == "" {
		t.Errorf("unquoted ~/ accepted for ShellEscape")
	}
	if j := judgeLex("~/doc", `'~/doc'`, true); j == "" {
		t.Errorf("quoted ~/ accepted for ShellEscapeExceptTilde")
	}
	if j := judgeLex("~root/x", `~root/'x'`, true); j == "" {
		t.Errorf("~root/ accepted")
	}
	if j := judgeLex("a'b", `'a'\''b'`, false); j != "" {
		t.Errorf(`'\'' style rejected: %s`, j)
	}
}

// TestLexNotMoreLenientThanShells: every raw text (all strings of length <= 3 over the alphabet
// plus '/', wrapped or not) that the model reads as "one word, value v, no trigger" must be
// read by the real shells as exactly [v] as well. This is the direction that matters for an
// oracle: the model must not bless what a shell would misread.
func TestLexNotMoreLenientThanShells(t *testing.T) {
	env, err := newShellEnv()
	if err != nil {
		t.Skip(err)
	}
	defer env.close()
	al := append(append([]byte{}, alphabet...), '/', '=')
	var texts []string
	var rec func(p []byte, d int)
	rec = func(p []byte, d int) {
		texts = append(texts, string(p))
		if d == 3 {
			return
		}
		for _, c := range al {
			rec(append(p[:len(p):len(p)], c), d+1)
		}
	}
	rec(nil, 0)
	n := len(texts)
	for i := 0; i < n; i++ {
		texts = append(texts, "'a'"+texts[i], texts[i]+"'b'", "\""+texts[i]+"\"")
	}
	var items []item
	blessed := 0
	for _, tx := range texts {
		r := lexArgs(tx)
		if len(r.Problems) != 0 || len(r.Words) != 1 {
			continue
		}
		w := r.Words[0]
		if w.TildeActive && w.TildePrefix != "~" {
			continue
		}
		blessed++
		items = append(items, item{in: tx, esc: tx, want: w.Val})
	}
	t.Logf("%d raw texts, %d blessed by the model", len(texts), blessed)
	for _, cfg := range cfgsFor(true) {
		its := make([]item, len(items))
		for i, it := range items {
			its[i] = it
			if r := lexArgs(it.esc); r.Words[0].TildeActive {
				its[i].want = cfg.Home + it.want[1:]
			}
		}
		if o, _ := env.checkBatch(cfg, its); o != "" {
			min := env.minimize(cfg, its)
			t.Errorf("%s: model blesses %q as %q but the shell disagrees: %s", cfg, min[0].esc, min[0].want, o)
		}
	}
}
