// Monitor shellesc (C16): strutil.ShellEscape / ShellEscapeExceptTilde yield exactly one shell
// word equal to the input (or $HOME/rest for the ~/ form) and nothing in the input runs.
//
// Two oracles, both on the output of the real function (DESIGN.md §3 C16):
//
//	(1) shells.go - dash, bash, bash --posix execute "<argvdump> <esc1> <esc2> …" and the argv
//	    received by argvdump is compared with the inputs; stderr, exit status and the content of
//	    the working directory (canary) are checked too;
//	(2) lexer.go  - an independent POSIX quoting model must read one word, value s, and meet no
//	    active expansion trigger.
//
// Besides, the results of a whole batch are kept as returned and must still read the same after
// the later calls of the batch and after the shells ran (class "result-mutated").
package main

import (
	"encoding/hex"
	"encoding/json"
	"errors"
	"fmt"
	"math/rand"
	"strconv"
	"strings"

	"github.com/whoisnian/glb/util/strutil"

	"verif/internal/drv"
)

const (
	fnPlain = "ShellEscape"
	fnTilde = "ShellEscapeExceptTilde"
)

// Case is one replayable observation: the inputs of one glb function, judged by one oracle.
type Case struct {
	Fn     string    `json:"fn"`
	Oracle string    `json:"oracle"`         // "lexer" | "shell" | "call" | "result-mutated"
	Cfg    *shellCfg `json:"cfg,omitempty"`  // oracle "shell": the configuration
	InHex  []string  `json:"in_hex"`         // the inputs, hex (they may be invalid UTF-8)
	InQ    []string  `json:"in_quoted"`      // the same, Go-quoted, for the reader only
	Conc   *concSpec `json:"conc,omitempty"` // observed under concurrency: the scenario to re-run
}

func mkCase(fn, oracle string, cfg *shellCfg, ins []string) Case {
	cs := Case{Fn: fn, Oracle: oracle, Cfg: cfg}
	for _, s := range ins {
		cs.InHex = append(cs.InHex, hex.EncodeToString([]byte(s)))
		cs.InQ = append(cs.InQ, clipq(s))
	}
	return cs
}

func (cs Case) inputs() ([]string, error) {
	var out []string
	for _, h := range cs.InHex {
		b, err := hex.DecodeString(h)
		if err != nil {
			return nil, err
		}
		out = append(out, string(b))
	}
	return out, nil
}

func clipq(s string) string {
	if len(s) > 120 {
		return strconv.QuoteToASCII(s[:100]) + fmt.Sprintf("…(%d bytes)", len(s))
	}
	return strconv.QuoteToASCII(s)
}

// caseKey identifies function, oracle and input; long inputs are named by a hash.
func caseKey(fn, oracle string, ins []string) string {
	if len(ins) == 0 {
		return fn + ":" + oracle + ":<none>"
	}
	s := ins[0]
	k := strconv.QuoteToASCII(s)
	if len(s) > 48 {
		k = fmt.Sprintf("%s…#%016x", strconv.QuoteToASCII(s[:32]), drv.HashStr(s))
	}
	k = strings.ReplaceAll(k, " ", `\x20`) // keys are matched as one token in known_findings.txt
	if len(ins) > 1 && oracle != oracleMutated {
		k += fmt.Sprintf("+%d", len(ins)-1)
	}
	return fn + ":" + oracle + ":" + k
}

// callEscape calls the real function; a panic out of glb is reported, not propagated.
func callEscape(fn, s string) (out string, panicked string) {
	defer func() {
		if r := recover(); r != nil {
			panicked = fmt.Sprintf("panic: %v", r)
		}
	}()
	if fn == fnTilde {
		return strutil.ShellEscapeExceptTilde(s), ""
	}
	return strutil.ShellEscape(s), ""
}

// fitsExecve: can the expected argument be passed to a program at all (MAX_ARG_STRLEN)?
func fitsExecve(cfg shellCfg, want string) bool {
	n := len(want)
	if cfg.Ctx == "herestr" {
		n++ // the here-string adds a newline
	}
	return n <= 131071
}

// expectedArg is the argv element a program must receive for input s.
func expectedArg(fn, s, home string) string {
	if fn == fnTilde && strings.HasPrefix(s, "~/") {
		return home + "/" + s[2:]
	}
	return s
}

func describeExpected(fn string, ins []string, cfg *shellCfg) string {
	what := "one shell word equal to the input"
	if fn == fnTilde {
		what = "one shell word equal to the input ($HOME/rest for an input starting with ~/)"
	}
	if cfg != nil {
		what += " under " + cfg.String() + ", empty stderr, exit 0, working directory untouched"
	}
	if len(ins) == 1 {
		return fmt.Sprintf("%s(%s): %s", fn, clipq(ins[0]), what)
	}
	return fmt.Sprintf("%s on %d inputs (first %s): %s", fn, len(ins), clipq(ins[0]), what)
}

const oracleMutated = "result-mutated"

// retained holds the results of a sequence of calls the way a caller building a command line
// holds them: the strings exactly as returned (kept[i]) next to a private copy taken the moment
// the call returned (snap[i], strings.Clone). The property speaks about the text that reaches
// the shell; a result whose bytes change while later calls happen is no longer one word equal
// to s, however right it was when it was returned.
type retained struct {
	fn   string
	ins  []string
	kept []string
	snap []string
}

// firstMutated compares every kept result with its snapshot (no glb call involved).
func (rt *retained) firstMutated() int {
	for i := range rt.kept {
		if rt.kept[i] != rt.snap[i] {
			return i
		}
	}
	return -1
}

// check returns the index of the first result that (a) no longer reads as it did when it was
// returned, or (b) differs from what a fresh call returns for the same input, else -1.
// The kept strings are compared before any fresh call (a fresh call may itself overwrite
// them) and once more afterwards.
func (rt *retained) check() (idx int, observed string) {
	describe := func(i int, when string) (int, string) {
		return i, fmt.Sprintf("%s(%s) returned %s; the same string value reads %s %s", rt.fn, clipq(rt.ins[i]), clipq(rt.snap[i]), clipq(rt.kept[i]), when)
	}
	if i := rt.firstMutated(); i >= 0 {
		return describe(i, fmt.Sprintf("after the %d later calls of the batch", len(rt.ins)-1-i))
	}
	for i, s := range rt.ins {
		f, p := callEscape(rt.fn, s)
		f = strings.Clone(f)
		if p != "" {
			continue // reported by the call oracle
		}
		if j := rt.firstMutated(); j >= 0 {
			return describe(j, fmt.Sprintf("after calling %s(%s) once more", rt.fn, clipq(s)))
		}
		if f != rt.snap[i] {
			return i, fmt.Sprintf("%s(%s) returned %s in the batch and %s when called again", rt.fn, clipq(s), clipq(rt.snap[i]), clipq(f))
		}
	}
	return -1, ""
}

// runCase executes one case. env may be nil unless the oracle is "shell".
// key == "" means the property held on this case.
func runCase(cs Case, env *shellEnv) (key, expected, observed string, inconclusive bool) {
	tries := 1
	if cs.Oracle == oracleMutated {
		// whether a later call reuses the memory of an earlier result can depend on the
		// scheduler (per-P caches); such a case is repeated, any hit is a hit
		tries = 25
	}
	for t := 0; t < tries; t++ {
		key, expected, observed, inconclusive = runCaseOnce(cs, env)
		if key != "" || inconclusive {
			break
		}
	}
	return
}

func runCaseOnce(cs Case, env *shellEnv) (key, expected, observed string, inconclusive bool) {
	ins, err := cs.inputs()
	if err != nil {
		return "", "", "cannot decode case: " + err.Error(), true
	}
	tilde := cs.Fn == fnTilde
	escs := make([]string, len(ins))  // the results as returned (what a caller hands to the shell)
	snaps := make([]string, len(ins)) // copies taken when each call returned
	for i, s := range ins {
		if strings.IndexByte(s, 0) >= 0 {
			if cs.Oracle != "lexer" {
				return "", "", "input contains NUL (outside the property)", true
			}
			// lexer cases may carry neighbour calls with a NUL argument: made, never judged
			callEscape(cs.Fn, s)
			continue
		}
		e, p := callEscape(cs.Fn, s)
		if p != "" {
			return caseKey(cs.Fn, "call", ins[i:i+1]), cs.Fn + " returns", p, false
		}
		escs[i], snaps[i] = e, strings.Clone(e)
	}
	switch cs.Oracle {
	case oracleMutated:
		rt := &retained{fn: cs.Fn, ins: ins, kept: escs, snap: snaps}
		if i, o := rt.check(); i >= 0 {
			return caseKey(cs.Fn, oracleMutated, ins[i:i+1]),
				fmt.Sprintf("the string returned by %s(%s) keeps its value while %d further calls are made (it is the text later handed to the shell)", cs.Fn, clipq(ins[i]), len(ins)-1),
				o, false
		}
	case "lexer":
		for i, s := range ins {
			if strings.IndexByte(s, 0) >= 0 {
				continue
			}
			if j := judgeLex(s, snaps[i], tilde); j != "" {
				return caseKey(cs.Fn, "lexer", ins[i:i+1]), describeExpected(cs.Fn, ins[i:i+1], nil),
					fmt.Sprintf("output %s read by the POSIX quoting model: %s", clipq(snaps[i]), j), false
			}
		}
	case "shell":
		if env == nil || cs.Cfg == nil {
			return "", "", "shell case without environment", true
		}
		items := make([]item, len(ins))
		for i, s := range ins {
			items[i] = item{in: s, esc: escs[i], want: expectedArg(cs.Fn, s, cs.Cfg.Home)}
		}
		o, inc := env.checkBatch(*cs.Cfg, items)
		if inc {
			return "", "", o, true
		}
		if o != "" {
			return caseKey(cs.Fn, "shell", ins), describeExpected(cs.Fn, ins, cs.Cfg),
				fmt.Sprintf("output %s run by %s: %s", clipq(escs[0]), cs.Cfg, o), false
		}
	}
	return "", "", "", false
}

// ---------------------------------------------------------------------------------------

type mon struct{}

func (mon) Name() string { return "shellesc" }

func (mon) Level(string) (string, string) {
	return "exploration", "inputs = (a) every string of length <= 4 (quick) / <= 5 (thorough) over the 15-character alphabet {' \" \\ $ ` space newline ; & | * ~ ! # a}, plus \"~/\"+w for every such w (the alphabet has no '/'); (b) a fixed hostile corpus (command substitutions, separators, redirections, globs, tilde forms, every single byte in quoting contexts, arguments up to 100 kB; many try to create a canary file); (c) seeded random NUL-free byte strings of length <= 64 (2*10^4 quick / 10^6 thorough; 40% uniform bytes, 60% weighted towards shell-special bytes, 15% with a leading ~/ or ~). Every input goes through ShellEscape and ShellEscapeExceptTilde and both outputs are judged by the POSIX quoting model; (a), (b) and - in both tiers - all of (c) are also executed by dash, bash and bash --posix under LC_ALL=C and C.UTF-8 (ExceptTilde: HOME=/vhome/plain and HOME='/vhome/sp ace'), 500 words per command line, comparing the NUL-separated argv received by an external program, stderr, exit status and the directory content. The results of a batch (2500 inputs) are kept exactly as returned while the rest of the batch is escaped and it is these kept strings that go into the shell scripts; after the batch and again after the shells ran, every kept string is compared with a copy taken when it was returned and with the result of a fresh call (a result that changes while later calls happen is reported as result-mutated). (d) every string of length <= 16 over {quote, letter} (131 071; quoting model and kept-result comparison, thorough: the shells too). (e) concurrent callers: shards with GOMAXPROCS 2/4/16 and 4, 16, 64 or 4*GOMAXPROCS goroutines, each escaping its own seeded stream of tagged words (quote-heavy, plain, hostile, arbitrary bytes, long, ~/ forms; 40 000 words per shard quick, 10^6 thorough, both functions) - every result judged at once by the quoting model against the goroutine's own input, kept results compared per block of 32, and a seeded subset of kept results run by the shells after the join; such violations carry 'concurrent' in the key and replay the scenario. THOROUGH ONLY: (f) every word of length exactly 6 over the alphabet and \"~/\"+w (2 x 11.4 M inputs; model for all, shells: all 3 shells x 2 locales for both functions, the two HOMEs of the tilde form alternating per 2500-word chunk); (g) every word <= 4 behind the prefixes ~root/ ~nosuchuser/ ~+/ ~-/ ~a/ ~root ~; (h) every byte 0x01..0xff in every position: all 2-byte strings, and strings of length 3..5 with the other positions over {' \" \\ a space ~}, the 2- and 3-byte ones also behind ~/; (i) long arguments: lengths 4095..131071 (the execve limit for one argument) filled with letters, quotes (up to 131 071 of them), quote/backslash/newline patterns, command substitutions and seeded random bytes, plain and behind ~/; (j) shell contexts - the words (<= 4 over the alphabet, their ~/ forms, the corpus, 48 000 random strings) not only as arguments but tab-separated with an operator right after the last word, inside sh -c and eval (inner command line escaped once more by ShellEscape), in a for-list, assigned to variables and expanded quoted, inside $( ), as bash here-strings (LC_ALL=C), with IFS set to the bytes a ' \" \\ / ~ space newline or to empty, under set -f / set -u / set -fu, and in a directory holding a file for every 1- and 2-character string over the alphabet (every glob matches, most inputs name a file); each context under all 3 shells x 2 locales, for the tilde form with the two standard HOMEs alternating over the contexts; the tilde form additionally (as plain arguments) with HOME=/, HOME=/vh/, a HOME made of shell-special characters and command substitutions, and a HOME with newline, tab and invalid UTF-8. distinct_nontrivial = distinct inputs containing at least one byte outside [A-Za-z0-9_./-]."
}

func (mon) Assumptions(string) []string {
	return []string{
		"strings containing NUL are outside the property (they cannot be passed in an argv)",
		"the quoting model counts '!' as a trigger unless single-quoted or backslash-escaped (history expansion of interactive bash/zsh), unquoted '{' as brace expansion and '~' after an unquoted '=' as tilde expansion; a tilde-prefix that contains any quoting is literal (XCU 2.6.1), as dash and bash confirm",
		"only dash and bash are installed; other POSIX shells are represented by the quoting model",
		"thorough: the here-string context is read back with bash's read builtin, which is byte-exact only under LC_ALL=C (under C.UTF-8 read itself drops a 0x01 inside some invalid multibyte sequences, whatever quoting produced the word) - that context therefore runs under LC_ALL=C only",
		"shells run with PATH restricted to a private directory holding argvdump and touch, so that a broken escaper run over random bytes cannot start arbitrary programs",
	}
}

type shardArgs struct {
	Kind   string `json:"kind"`        // "exh" | "rand" | "corpus" | "ql" | "conc"
	G      int    `json:"g,omitempty"` // conc: goroutines (0 = 4*GOMAXPROCS)
	MaxLen int    `json:"max_len,omitempty"`
	Part   int    `json:"part"`
	Parts  int    `json:"parts"`
	Count  int    `json:"count,omitempty"`  // rand: inputs of this part; conc: words per goroutine
	Shells int    `json:"shells,omitempty"` // rand: how many of them also go through the real shells; conc: per goroutine and function
}

const chunk = 2500

func (mon) Plan(prop, tier string, seed int64) []drv.Shard {
	ensureArgvdump() // once, before the children start (they would build it too)
	maxLen, nrand, parts, secs := 4, 20000, 16, 600
	if tier == "thorough" {
		maxLen, nrand, secs = 5, 1000000, 3600
	}
	var out []drv.Shard
	a, _ := json.Marshal(shardArgs{Kind: "corpus"})
	out = append(out, drv.Shard{Name: "corpus", Args: a, Secs: secs})
	for p := 0; p < parts; p++ {
		a, _ := json.Marshal(shardArgs{Kind: "exh", MaxLen: maxLen, Part: p, Parts: parts})
		out = append(out, drv.Shard{Name: fmt.Sprintf("exh-%d", p), Args: a, Secs: secs})
	}
	for p := 0; p < parts; p++ {
		n := nrand / parts
		a, _ := json.Marshal(shardArgs{Kind: "rand", Part: p, Parts: parts, Count: n, Shells: n})
		out = append(out, drv.Shard{Name: fmt.Sprintf("rand-%d", p), Args: a, Secs: secs})
	}
	// the same functions in other process environments: a login shell that is not a POSIX shell, no
	// SHELL at all, a dumb terminal, POSIXLY_CORRECT - the word is read by the POSIX shells all the same
	for i, env := range [][]string{{"SHELL=/usr/bin/fish"}, {"SHELL=/bin/csh", "TERM=dumb"}, {"SHELL="}, {"SHELL=/usr/bin/zsh", "POSIXLY_CORRECT=1", "LANG=tr_TR.UTF-8"}} {
		a, _ := json.Marshal(shardArgs{Kind: "corpus"})
		out = append(out, drv.Shard{Name: fmt.Sprintf("corpus-env%d", i), Args: a, Secs: secs, Env: env})
		a, _ = json.Marshal(shardArgs{Kind: "rand", Part: 100 + i, Parts: parts, Count: nrand / parts / 2, Shells: 200})
		out = append(out, drv.Shard{Name: fmt.Sprintf("rand-env%d", i), Args: a, Secs: secs, Env: env})
	}
	// all strings of length <= 16 over {quote, letter}: quote-dense inputs are where size formulas
	// of hand-written builders go wrong (lexer + retained results; thorough: also the shells)
	const qlParts = 4
	for p := 0; p < qlParts; p++ {
		a, _ := json.Marshal(shardArgs{Kind: "ql", MaxLen: 16, Part: p, Parts: qlParts})
		out = append(out, drv.Shard{Name: fmt.Sprintf("ql-%d", p), Args: a, Secs: secs})
	}
	// concurrent callers: goroutines x GOMAXPROCS; words per goroutine chosen so that every
	// shard makes about the same number of calls
	words := 40000 // per shard; each word goes through both functions
	if tier == "thorough" {
		words = 1000000
	}
	for i, cc := range []struct{ procs, g int }{{2, 4}, {2, 16}, {4, 16}, {4, 64}, {16, 16}, {16, 0}} {
		g := cc.g
		if g == 0 {
			g = 4 * cc.procs
		}
		a, _ := json.Marshal(shardArgs{Kind: "conc", G: cc.g, Part: i, Count: words / g, Shells: max(2, 400/g)})
		out = append(out, drv.Shard{Name: fmt.Sprintf("conc-p%d-g%d", cc.procs, g), Args: a, Secs: secs,
			Env: []string{fmt.Sprintf("GOMAXPROCS=%d", cc.procs)}})
	}
	if tier != "thorough" {
		return out
	}
	// ---- thorough only: depth and diversity (DESIGN: "as deep as built") ----
	add := func(kind string, parts int, maxLen int) {
		for p := 0; p < parts; p++ {
			a, _ := json.Marshal(shardArgs{Kind: kind, MaxLen: maxLen, Part: p, Parts: parts})
			out = append(out, drv.Shard{Name: fmt.Sprintf("%s-%d", kind, p), Args: a, Secs: secs})
		}
	}
	base := out
	out = nil
	// the heaviest shards first, so that no single shard is left running at the end
	add("long", 16, 0)    // arguments up to the 128 KiB limit of execve
	add("ctx", 16, 4)     // words <= 4, ~/ forms, corpus, random: in every shell context and special HOME
	add("exh6", 64, 6)    // every word of length exactly 6 over the alphabet, and "~/"+w
	add("bytepos", 16, 5) // every byte 0x01..0xff in every position of short strings
	add("pre", 4, 4)      // ~user-like prefixes + every word <= 4
	out = append(out, base...)
	return out
}

// Each oracle has its own budget of reported violations per shard, so that under a broken
// escaper the model's findings do not crowd out what the real shells observed (and vice versa).
const perOracleBudget = 3

type runner struct {
	c        *drv.Ctx
	env      *shellEnv
	stop     bool
	reported map[string]int // oracle -> violations reported by this shard
	// cfgs selects the shell configurations of a chunk (nil: the 6 / 12 standard ones)
	cfgs    func(tilde bool, chunkNo int) []shellCfg
	chunkNo int
}

func (r *runner) open(oracle string) bool { return r.reported[oracle] < perOracleBudget }

func nontrivial(s string) bool {
	for i := 0; i < len(s); i++ {
		ch := s[i]
		if !(ch >= 'a' && ch <= 'z' || ch >= 'A' && ch <= 'Z' || ch >= '0' && ch <= '9' || ch == '_' || ch == '.' || ch == '/' || ch == '-') {
			return true
		}
	}
	return false
}

func (r *runner) violate(cs Case) {
	k, e, o, inc := runCase(cs, r.env)
	if k == "" && !inc && cs.Oracle == "lexer" {
		// not wrong on its own: is it wrong right after the kind of neighbour call the batch had made before
		// it (an argument with a NUL byte, itself outside the property)? Then that history is the case.
		if ins, err := cs.inputs(); err == nil && len(ins) == 1 {
			cs2 := mkCase(cs.Fn, cs.Oracle, cs.Cfg, []string{"it's\x00" + ins[0], ins[0]})
			if k2, e2, o2, inc2 := runCase(cs2, r.env); k2 != "" && !inc2 {
				cs, k, e, o = cs2, k2+":after-a-call-with-NUL", e2+" (also when an earlier call was given an argument with a NUL byte)", o2
			}
		}
	}
	switch {
	case inc:
		r.c.Inconclusive(o)
	case k == "":
		// the batch failed but the minimised case does not fail on its own: flaky observation
		r.c.Inconclusive(fmt.Sprintf("a failing batch could not be reproduced on %s %s %v", cs.Fn, cs.Oracle, cs.InQ))
	default:
		r.c.Violate(k, cs, e, o)
		r.reported[cs.Oracle]++
		r.c.Add("violations_seen_by_"+cs.Oracle, 1)
	}
	if !r.open("lexer") && !r.open("shell") || !r.open("call") || !r.open(oracleMutated) {
		r.stop = true
	}
}

// checkRetained compares the kept results of a batch with their snapshots and with fresh calls.
// A changed result is reported as a violation of its own class; the case is cut down to the
// victim plus the later call(s) that overwrite it. Returns true when something had changed.
func (r *runner) checkRetained(rt *retained) bool {
	r.c.Add("retained_results_compared", int64(len(rt.kept)))
	i, _ := rt.check()
	if i < 0 {
		return false
	}
	if !r.open(oracleMutated) {
		return true
	}
	victim := rt.ins[i]
	reproduces := func(seq []string) bool {
		k, _, _, _ := runCase(mkCase(rt.fn, oracleMutated, nil, seq), nil)
		return k == caseKey(rt.fn, oracleMutated, []string{victim})
	}
	seq := []string{victim} // a fresh call of the same input may already overwrite it
	if !reproduces(seq) {
		seq = nil
		for j := i + 1; j < len(rt.ins) && j <= i+400; j++ {
			if reproduces([]string{victim, rt.ins[j]}) {
				seq = []string{victim, rt.ins[j]}
				break
			}
		}
	}
	if seq == nil {
		seq = append([]string(nil), rt.ins[i:]...) // the rest of the batch as it was
	}
	r.violate(mkCase(rt.fn, oracleMutated, nil, seq))
	return true
}

// process sends one chunk of inputs through both functions and both oracles.
// nShell: the first nShell inputs also go through the real shells.
func (r *runner) process(label string, ins []string, nShell int) {
	c := r.c
	for _, fn := range []string{fnPlain, fnTilde} {
		tilde := fn == fnTilde
		escs := make([]string, len(ins))  // kept exactly as returned
		snaps := make([]string, len(ins)) // strings.Clone at the moment of return
		ok := make([]bool, len(ins))
		nulCalls := 0
		for i, s := range ins {
			if i%17 == 5 {
				// a neighbouring call with an argument outside the quantifier (a NUL byte): whatever it does -
				// return something, panic - is not judged; the calls after it are
				callEscape(fn, "it's\x00"+s)
				nulCalls++
			}
			e, p := callEscape(fn, s)
			c.Eval(1)
			if p != "" {
				r.violate(mkCase(fn, "call", nil, []string{s}))
				if r.stop {
					return
				}
				continue
			}
			escs[i], snaps[i], ok[i] = e, strings.Clone(e), true
			if j := judgeLex(s, snaps[i], tilde); j != "" && r.open("lexer") {
				r.violate(mkCase(fn, "lexer", nil, []string{s}))
				if r.stop {
					return
				}
			}
			if c.NumSamples() < 3 && len(s) > 2 && len(s) < 40 && nontrivial(s) && (i%977 == 7 || len(ins) < 977) {
				c.Sample(map[string]string{"fn": fn, "in": strconv.QuoteToASCII(s), "out": strconv.QuoteToASCII(e)})
			}
		}
		c.Add("lexer_judgements", int64(len(ins)))
		c.Add("unjudged_neighbour_calls_with_a_NUL_argument", int64(nulCalls))
		// the results were all kept while the rest of the batch was escaped: do they still read
		// as they did when they were returned, and as a fresh call returns them?
		rt := &retained{fn: fn, ins: ins, kept: escs, snap: snaps}
		mutated := r.checkRetained(rt)
		if r.stop {
			return
		}
		shellText := escs // the shells get the kept strings, as a caller would pass them on
		if mutated {
			// already reported; let the shells judge the texts as they were returned, so that
			// their verdict is about the quoting and not about the same overwrite again
			shellText = snaps
		}
		if nShell > len(ins) {
			nShell = len(ins)
		}
		if nShell <= 0 || r.env == nil {
			continue
		}
		cfgList := cfgsFor(tilde)
		if r.cfgs != nil {
			cfgList = r.cfgs(tilde, r.chunkNo)
		}
		for _, cfg := range cfgList {
			cfg := cfg
			if !r.open("shell") {
				break
			}
			items := make([]item, 0, nShell)
			expansions := int64(0)
			for i := 0; i < nShell; i++ {
				if !ok[i] {
					continue
				}
				w := expectedArg(fn, ins[i], cfg.Home)
				if !fitsExecve(cfg, w) {
					// the kernel refuses a single argument of more than 131071 bytes (E2BIG):
					// nothing a shell or an escaper can do about it
					c.Add("words_skipped_over_execve_argument_limit", 1)
					continue
				}
				if w != ins[i] {
					expansions++
				}
				items = append(items, item{in: ins[i], esc: shellText[i], want: w})
			}
			if len(items) == 0 {
				continue
			}
			c.Progress(fmt.Sprintf("%s %s %s (%d words)", label, fn, cfg, len(items)), true)
			o, inc := r.env.checkBatch(cfg, items)
			if inc {
				c.Inconclusive(fmt.Sprintf("%s %s %s: %s", label, fn, cfg, o))
				continue
			}
			c.Add("shell_words", int64(len(items)))
			c.Add("shell_scripts", 1)
			c.Add("tilde_expansions_checked", expansions)
			c.SetAdd("shell_configs", cfg.String())
			if cfg.Ctx != "" || cfg.Opts != "" || cfg.Dir != "" {
				c.Add("shell_words_in_context_"+cfg.ctxLabel(), int64(len(items)))
				c.SetAdd("shell_contexts", cfg.ctxLabel())
			}
			if cfg.Home != homePlain && cfg.Home != homeSpace {
				c.Add("shell_words_with_special_HOME", int64(len(items)))
			}
			if o != "" {
				// a batch built from kept strings fails: first see whether the kept strings
				// are still what the function returned (they are what the script was made of)
				if !mutated && r.checkRetained(rt) {
					mutated, shellText = true, snaps
					if r.stop {
						return
					}
					continue
				}
				min := r.env.minimize(cfg, items)
				var w []string
				for _, it := range min {
					w = append(w, it.in)
				}
				cs := mkCase(fn, "shell", &cfg, w)
				if k, _, _, inc := runCase(cs, r.env); k == "" && !inc {
					// batch fails, the minimised words pass on their own: the difference
					// between the two is the text - kept in the batch, fresh in the case
					if r.checkRetained(rt) {
						mutated, shellText = true, snaps
						if r.stop {
							return
						}
						continue
					}
				}
				r.violate(cs)
				if r.stop {
					return
				}
			}
		}
		// and once more after the shells ran
		if !mutated {
			r.checkRetained(rt)
			if r.stop {
				return
			}
		}
	}
	for _, s := range ins {
		if nontrivial(s) {
			c.DistinctStr(s)
		}
		if strings.HasPrefix(s, "~/") {
			c.Add("inputs_with_leading_tilde_slash", 1)
		}
	}
	c.Add("inputs", int64(len(ins)))
	r.chunkNo++
}

func (mn mon) Run(sh drv.Shard, c *drv.Ctx) {
	var a shardArgs
	json.Unmarshal(sh.Args, &a)
	env, err := newShellEnv()
	if err != nil {
		if errors.Is(err, errTool) {
			c.Inconclusive("required tool missing: " + err.Error())
		} else {
			c.Inconclusive("cannot set up the shell environment: " + err.Error())
		}
		return
	}
	defer env.close()
	if msg := env.selfTest(); msg != "" {
		c.Inconclusive("positive controls of the shell oracle did not fire: " + msg)
		return
	}
	c.Add("controls_fired", 1)
	r := &runner{c: c, env: env, reported: map[string]int{}}
	switch a.Kind {
	case "corpus":
		ins := hostileCorpus()
		hostile := int64(0)
		for _, s := range ins {
			if strings.Contains(s, "canary") {
				hostile++
			}
		}
		c.Add("canary_attempts_in_corpus", hostile)
		for i := 0; i < len(ins) && !r.stop; i += chunk {
			j := min(i+chunk, len(ins))
			r.process(fmt.Sprintf("corpus[%d:%d]", i, j), ins[i:j], j-i)
		}
	case "conc":
		runConcShard(sh, a, c, env)
	case "exh6", "ctx", "bytepos", "pre", "long":
		runDeepShard(sh, a, c, r)
	case "ql":
		// index n of length l: bit i set = quote at position i
		total := 1<<(a.MaxLen+1) - 1
		for k := 0; k*chunk < total && !r.stop; k++ {
			if k%a.Parts != a.Part {
				continue
			}
			lo, hi := k*chunk, min((k+1)*chunk, total)
			ins := make([]string, 0, hi-lo)
			for n := lo; n < hi; n++ {
				ins = append(ins, qlWord(n))
			}
			ns := 0
			if sh.Tier == "thorough" {
				ns = len(ins)
			}
			r.process(fmt.Sprintf("ql[%d:%d]", lo, hi), ins, ns)
			c.Add("inputs_quote_letter_le16", int64(len(ins)))
			if ns == 0 {
				c.Add("inputs_lexer_only", int64(len(ins)))
			}
		}
	case "exh":
		total := exhTotal(a.MaxLen)
		for k := 0; k*chunk < total && !r.stop; k++ {
			if k%a.Parts != a.Part {
				continue
			}
			lo, hi := k*chunk, min((k+1)*chunk, total)
			ins := make([]string, 0, hi-lo)
			for n := lo; n < hi; n++ {
				ins = append(ins, exhInput(n, a.MaxLen))
			}
			r.process(fmt.Sprintf("exh[%d:%d]", lo, hi), ins, len(ins))
		}
	case "rand":
		rg := rand.New(rand.NewSource(sh.Seed*1000003 + int64(a.Part)))
		shellLeft := a.Shells
		for done := 0; done < a.Count && !r.stop; done += chunk {
			n := min(chunk, a.Count-done)
			ins := make([]string, n)
			for i := range ins {
				ins[i] = randInput(rg)
				c.MaxOf("rand_len", int64(len(ins[i])))
			}
			ns := min(n, shellLeft)
			shellLeft -= ns
			r.process(fmt.Sprintf("rand[%d:%d]", done, done+n), ins, ns)
		}
	}
	c.Add("shell_processes", env.runs)
}

func (mn mon) Replay(v drv.Violation, c *drv.Ctx) {
	var cs Case
	if err := json.Unmarshal(v.Case, &cs); err != nil {
		c.Inconclusive("replay: cannot decode case: " + err.Error())
		return
	}
	if cs.Conc != nil {
		replayConc(cs, c)
		return
	}
	var env *shellEnv
	if cs.Oracle == "shell" {
		var err error
		env, err = newShellEnv()
		if err != nil {
			c.Inconclusive("replay: " + err.Error())
			fmt.Println("INCONCLUSIVE:", err)
			return
		}
		defer env.close()
	}
	k, e, o, inc := runCase(cs, env)
	c.Eval(1)
	switch {
	case inc:
		c.Inconclusive(o)
		fmt.Println("INCONCLUSIVE:", o)
	case k != "":
		c.Violate(k, cs, e, o)
	}
}

// Finish: the run must have observed every shell configuration, tilde expansions and the controls.
func (mon) Finish(prop, tier string, m *drv.Merged) []string {
	var inc []string
	seenCfg := map[string]bool{}
	for _, s := range m.Sets["shell_configs"] {
		seenCfg[s] = true
	}
	missing := 0
	for _, cfg := range cfgsFor(true) {
		if !seenCfg[cfg.String()] {
			missing++
		}
	}
	if missing > 0 {
		inc = append(inc, fmt.Sprintf("%d of the %d standard shell configurations were not observed", missing, len(cfgsFor(true))))
	}
	if tier == "thorough" {
		want := map[string]bool{}
		for _, cfg := range ctxCfgs(true) {
			if l := cfg.ctxLabel(); l != "args" {
				want[l] = true
			}
		}
		for _, l := range m.Sets["shell_contexts"] {
			delete(want, l)
		}
		if len(want) > 0 {
			inc = append(inc, fmt.Sprintf("%d shell contexts of the thorough tier were not observed", len(want)))
		}
		for _, k := range []string{"inputs_exh_len6", "inputs_byte_positions", "inputs_long", "inputs_user_prefixes", "shell_words_with_special_HOME"} {
			if m.Sum[k] == 0 {
				inc = append(inc, "thorough part not observed: "+k)
			}
		}
	}
	if m.Sum["tilde_expansions_checked"] == 0 {
		inc = append(inc, "no ~/ expansion was observed in a real shell")
	}
	if m.Sum["controls_fired"] == 0 {
		inc = append(inc, "no shard passed the positive controls")
	}
	if m.Sum["shell_words"] < m.Sum["inputs"]-m.Sum["inputs_lexer_only"] {
		inc = append(inc, "fewer words went through the shells than inputs were generated")
	}
	if n := len(m.Sets["concurrency_configs"]); n < 6 {
		inc = append(inc, fmt.Sprintf("only %d of 6 concurrent configurations ran", n))
	}
	if m.Max["goroutines_alive_together"] < 4 {
		inc = append(inc, "the concurrent shards never had 4 goroutines alive at the same time")
	}
	return inc
}

func main() { drv.Main(mon{}) }
