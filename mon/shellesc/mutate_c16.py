#!/usr/bin/env python3
# Sensitivity run of the C16 monitor: applies each mutation of strutil.ShellEscape* to /tmp/shellesc-mut,
# runs the package unit tests and ./check C16 <tier> with VERIF_REPO. Usage: mutate_c16.py [name-prefix] [quick|thorough]
import subprocess, shutil, os, sys, re
ORIG=open('/repo/util/strutil/strutil.go').read()
OLD_SE='''func ShellEscape(s string) string {
	return "'" + strings.Replace(s, "'", `'"'"'`, -1) + "'"
}'''
OLD_T='''func ShellEscapeExceptTilde(s string) string {
	if strings.HasPrefix(s, "~/") {
		return "~/" + ShellEscape(s[2:])
	}
	return ShellEscape(s)
}'''
assert OLD_SE in ORIG and OLD_T in ORIG
def se(body): return ('se', 'func ShellEscape(s string) string {\n'+body+'\n}')
def st(body): return ('t', 'func ShellEscapeExceptTilde(s string) string {\n'+body+'\n}')
MUTS=[
 ('M1-literal  \\\' inside quotes', se('''	return "'" + strings.Replace(s, "'", `\\'`, -1) + "'"''')),
 ('M1-variant  \\\' inside quotes when s has no space', se('''	rep := `'"'"'`
	if !strings.Contains(s, " ") {
		rep = `\\'`
	}
	return "'" + strings.Replace(s, "'", rep, -1) + "'"''')),
 ('M2-literal  double quotes', se('''	return "\\"" + s + "\\""''')),
 ('M2-variant  double quotes when exactly one quote in s', se('''	if strings.Count(s, "'") == 1 {
		return "\\"" + s + "\\""
	}
	return "'" + strings.Replace(s, "'", `'"'"'`, -1) + "'"''')),
 ('M2-variant2 double quotes w/ escaping of " only, when one quote', se('''	if strings.Count(s, "'") == 1 {
		return "\\"" + strings.Replace(s, "\\"", "\\\\\\"", -1) + "\\""
	}
	return "'" + strings.Replace(s, "'", `'"'"'`, -1) + "'"''')),
 ('M3-literal  only first quote replaced', se('''	return "'" + strings.Replace(s, "'", `'"'"'`, 1) + "'"''')),
 ('M3-variant  only first two quotes replaced', se('''	return "'" + strings.Replace(s, "'", `'"'"'`, 2) + "'"''')),
 ('M4-literal  ~ kept for any leading ~', st('''	if strings.HasPrefix(s, "~") {
		return "~" + ShellEscape(s[1:])
	}
	return ShellEscape(s)''')),
 ('M4-variantB tilde-prefix up to first / kept (~user/)', st('''	if strings.HasPrefix(s, "~") {
		if i := strings.IndexByte(s, '/'); i >= 0 {
			return s[:i+1] + ShellEscape(s[i+1:])
		}
	}
	return ShellEscape(s)''')),
 ('M4-variantC ~/ as before, else ~ + quoted rest', st('''	if strings.HasPrefix(s, "~/") {
		return "~/" + ShellEscape(s[2:])
	}
	if strings.HasPrefix(s, "~") {
		return "~" + ShellEscape(s[1:])
	}
	return ShellEscape(s)''')),
 ('M5-literal  safe-looking [A-Za-z0-9_./~#-] unquoted', se('''	safe := s != ""
	for i := 0; i < len(s); i++ {
		c := s[i]
		if !(c >= 'a' && c <= 'z' || c >= 'A' && c <= 'Z' || c >= '0' && c <= '9' || strings.IndexByte("_./~#-", c) >= 0) {
			safe = false
		}
	}
	if safe {
		return s
	}
	return "'" + strings.Replace(s, "'", `'"'"'`, -1) + "'"''')),
 ('M5-variantA safe-looking [A-Za-z0-9_.~#-] (no /) unquoted', se('''	safe := s != ""
	for i := 0; i < len(s); i++ {
		c := s[i]
		if !(c >= 'a' && c <= 'z' || c >= 'A' && c <= 'Z' || c >= '0' && c <= '9' || strings.IndexByte("_.~#-", c) >= 0) {
			safe = false
		}
	}
	if safe {
		return s
	}
	return "'" + strings.Replace(s, "'", `'"'"'`, -1) + "'"''')),
 ('M5-variantB safe-looking [A-Za-z0-9_./#-] (no ~) unquoted', se('''	safe := s != ""
	for i := 0; i < len(s); i++ {
		c := s[i]
		if !(c >= 'a' && c <= 'z' || c >= 'A' && c <= 'Z' || c >= '0' && c <= '9' || strings.IndexByte("_./#-", c) >= 0) {
			safe = false
		}
	}
	if safe {
		return s
	}
	return "'" + strings.Replace(s, "'", `'"'"'`, -1) + "'"''')),
 ('M5-variantC safe-looking [A-Za-z0-9_.~-] (only ~, no / no #) unquoted', se('''	safe := s != ""
	for i := 0; i < len(s); i++ {
		c := s[i]
		if !(c >= 'a' && c <= 'z' || c >= 'A' && c <= 'Z' || c >= '0' && c <= '9' || strings.IndexByte("_.~-", c) >= 0) {
			safe = false
		}
	}
	if safe {
		return s
	}
	return "'" + strings.Replace(s, "'", `'"'"'`, -1) + "'"''')),
 ('M5-variantD [A-Za-z0-9_.~#-]+ containing ~ or # left unquoted', se('''	safe := strings.ContainsAny(s, "~#")
	for i := 0; i < len(s); i++ {
		c := s[i]
		if !(c >= 'a' && c <= 'z' || c >= 'A' && c <= 'Z' || c >= '0' && c <= '9' || strings.IndexByte("_.~#-", c) >= 0) {
			safe = false
		}
	}
	if safe {
		return s
	}
	return "'" + strings.Replace(s, "'", `'"'"'`, -1) + "'"''')),
 ('M5-variantE [A-Za-z0-9_./#-]+ containing # left unquoted', se('''	safe := strings.Contains(s, "#")
	for i := 0; i < len(s); i++ {
		c := s[i]
		if !(c >= 'a' && c <= 'z' || c >= 'A' && c <= 'Z' || c >= '0' && c <= '9' || strings.IndexByte("_./#-", c) >= 0) {
			safe = false
		}
	}
	if safe {
		return s
	}
	return "'" + strings.Replace(s, "'", `'"'"'`, -1) + "'"''')),
 ('M5-variantF [A-Za-z0-9_.~-]+ containing ~ left unquoted', se('''	safe := strings.Contains(s, "~")
	for i := 0; i < len(s); i++ {
		c := s[i]
		if !(c >= 'a' && c <= 'z' || c >= 'A' && c <= 'Z' || c >= '0' && c <= '9' || strings.IndexByte("_.~-", c) >= 0) {
			safe = false
		}
	}
	if safe {
		return s
	}
	return "'" + strings.Replace(s, "'", `'"'"'`, -1) + "'"''')),
 # behaviour-preserving refactorings: must stay silent
 ("R1 '\\'' instead of '\"'\"'", se('''	return "'" + strings.Replace(s, "'", `'\\''`, -1) + "'"''')),
 ('R2 really safe strings [A-Za-z0-9_./-]+ unquoted', se('''	safe := s != ""
	for i := 0; i < len(s); i++ {
		c := s[i]
		if !(c >= 'a' && c <= 'z' || c >= 'A' && c <= 'Z' || c >= '0' && c <= '9' || strings.IndexByte("_./-", c) >= 0) {
			safe = false
		}
	}
	if safe {
		return s
	}
	return "'" + strings.Replace(s, "'", `'"'"'`, -1) + "'"''')),
 ('R3 strings.Builder byte loop, quotes as \\\' outside quotes', se('''	var sb strings.Builder
	sb.WriteByte('\\'')
	for i := 0; i < len(s); i++ {
		if s[i] == '\\'' {
			sb.WriteString(`'\\''`)
		} else {
			sb.WriteByte(s[i])
		}
	}
	sb.WriteByte('\\'')
	return sb.String()''')),
 ('R4 double quotes with full escaping of $ ` " \\ when s has a quote and no !', se('''	if strings.Contains(s, "'") && !strings.Contains(s, "!") {
		return "\\"" + strings.NewReplacer("\\\\", "\\\\\\\\", "\\"", "\\\\\\"", "$", "\\\\$", "`", "\\\\`").Replace(s) + "\\""
	}
	return "'" + strings.Replace(s, "'", `'"'"'`, -1) + "'"''')),
]
env=dict(os.environ, GOFLAGS='-mod=mod', GOPROXY='off', GOSUMDB='off', GOTOOLCHAIN='local', PATH=os.environ['PATH']+':/usr/local/go/bin')
only=sys.argv[1] if len(sys.argv)>1 else ''
tier=sys.argv[2] if len(sys.argv)>2 else 'quick'
for name,(kind,code) in MUTS:
    if only and not name.startswith(only): continue
    d='/tmp/shellesc-mut'
    shutil.rmtree(d, ignore_errors=True)
    shutil.copytree('/repo', d, symlinks=True)
    src=ORIG.replace(OLD_SE if kind=='se' else OLD_T, code)
    assert src!=ORIG
    open(d+'/util/strutil/strutil.go','w').write(src)
    t=subprocess.run(['timeout','300','go','test','-count=1','./util/strutil/'],cwd=d,env=env,capture_output=True,text=True)
    tests='pass' if t.returncode==0 else 'FAIL'
    if t.returncode!=0 and 'build failed' in (t.stdout+t.stderr): tests='BUILD-FAIL '+(t.stdout+t.stderr)[:600]
    c=subprocess.run(['timeout','900','./check','C16',tier],cwd='/verif',env=dict(env,VERIF_REPO=d),capture_output=True,text=True)
    keys=re.findall(r'^  key: (.*)$', c.stdout, re.M)
    nv=re.search(r'violations=(\d+)', c.stdout)
    print(f'### {name}\n    unit tests: {tests}; check exit={c.returncode}; violations={nv.group(1) if nv else "?"}')
    for k in keys[:4]: print('      key:',k)
    obs=re.findall(r'^  observed: (.*)$', c.stdout, re.M)
    for o in obs[:2]: print('      observed:',o[:300])
    if c.returncode not in (0,1): print(c.stdout[-1500:], c.stderr[-1500:])
    sys.stdout.flush()
shutil.rmtree('/tmp/shellesc-mut', ignore_errors=True)
